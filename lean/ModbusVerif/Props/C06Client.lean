import ModbusVerif.Model.Client
import ModbusVerif.Lemmas.RtuLemmas
import ModbusVerif.Lemmas.EncLemmas
import ModbusVerif.Props.C06
/-
  C06, client part — end-to-end rejection of corrupted RTU replies, and resynchronisation.

  Model under test: `Client.Core.exchange` / `Client.Op.run` over the RTU transport
  (`Rtu.readFrame` + `Rtu.afterRead`), `ModbusVerif/Model/{Rtu,Client}.lean`.

  An exchange is `c.exchange cfg st arrivals en`: the request of the core call `c` is written,
  the transport reads from `st.pending ++ arrivals` (a stream that then ends with `en`:
  timeout / EOF / reset), the unit id is checked and the response validated. `result` is
  `some (.ok raw)` (success), `some (.error err)` or `none` (a Go panic).

    Answers c cfg res   := res carries the configured unit id and passes the validation of `c`
                           (`c.validate fc res = some (.ok raw)`, fc = request function code)
    Rtu.Consistent res  := the payload length is the one `readRTUFrame` derives from the function
                           code and first payload byte, and the frame fits 256 bytes
                           (`Answers.consistent`: every answer is consistent)
    BurstOrDouble e     := e = zeros a ++ w ++ zeros b with |w| ≤ 16, true ∈ w   (burst), or
                           e = zeros a ++ [true] ++ zeros d ++ [true] ++ zeros b (double bit)
-/
namespace Modbus.Props.C06
open Modbus Modbus.Crc Modbus.Client

/-! ### answers -/

/-- `res` is a reply that the core call `c` accepts, with raw result `raw` -/
def AnswersWith (c : Core) (cfg : Cfg) (res : Pdu) (raw : Raw) : Prop :=
  ∃ fc payload, c.request = .ok (fc, payload) ∧ res.unit = cfg.unitId ∧
    c.validate fc res = some (.ok raw)

def Answers (c : Core) (cfg : Cfg) (res : Pdu) : Prop := ∃ raw, AnswersWith c cfg res raw

/-- the payload length of an accepted positive response, as a function of the request -/
def okLen : Core → Nat
  | .readBools _ _ qty => 1 + qty.toNat / 8 + (if qty.toNat % 8 ≠ 0 then 1 else 0)
  | .readRegs _ qty _ => 1 + 2 * qty
  | _ => 4

/-- the function code of the request, as a function of the call -/
def reqFc : Core → Byte
  | .readBools di _ _ => if di then 0x02 else 0x01
  | .readRegs _ _ rt => if rt = 0 then 0x03 else 0x04
  | .writeCoil .. => 0x05
  | .writeCoils .. => 0x0f
  | .writeReg .. => 0x06
  | .writeRegs .. => 0x10

theorem request_ok_inv {c : Core} {fc : Byte} {payload : Bytes} (h : c.request = .ok (fc, payload)) :
    fc = reqFc c ∧ okLen c ≤ 252 := by
  cases c with
  | readBools di addr qty =>
    simp only [Core.request, perr] at h
    repeat' split at h
    all_goals cases h
    all_goals refine ⟨by simp [reqFc, *], ?_⟩
    all_goals (simp only [okLen]; split <;> omega)
  | readRegs addr qty rt =>
    simp only [Core.request, perr] at h
    repeat' split at h
    all_goals cases h
    all_goals refine ⟨by simp [reqFc, *], ?_⟩
    all_goals (simp only [okLen]; omega)
  | writeCoil addr v =>
    simp only [Core.request] at h
    cases h
    exact ⟨rfl, by simp [okLen]⟩
  | writeCoils addr vs =>
    simp only [Core.request, perr] at h
    repeat' split at h
    all_goals cases h
    all_goals exact ⟨rfl, by simp [okLen]⟩
  | writeReg e addr v =>
    simp only [Core.request] at h
    cases h
    exact ⟨rfl, by simp [okLen]⟩
  | writeRegs addr pl =>
    simp only [Core.request, perr] at h
    repeat' split at h
    all_goals cases h
    all_goals exact ⟨rfl, by simp [okLen]⟩

/-- the positive-response branch of the two read helpers, with the expected length named -/
theorem positive_readBools (di : Bool) (addr qty : U16) (pl : Bytes) :
    (Core.readBools di addr qty).positive pl =
      if pl.length ≠ okLen (.readBools di addr qty) then some protoErr
      else if (pl.getD 0 0).toNat + 1 ≠ okLen (.readBools di addr qty) then some protoErr
      else match Enc.decodeBools qty.toNat (pl.drop 1) with
        | some l => some (.ok (.bools l))
        | none => none := rfl

theorem positive_readRegs (addr : U16) (qty rt : Nat) (pl : Bytes) :
    (Core.readRegs addr qty rt).positive pl =
      if pl.length ≠ okLen (.readRegs addr qty rt) then some protoErr
      else if (pl.getD 0 0).toNat ≠ 2 * qty then some protoErr
      else some (.ok (.bytes (pl.drop 1))) := rfl

theorem okLen_readBools_ge (di : Bool) (addr qty : U16) :
    (qty.toNat + 7) / 8 + 1 ≤ okLen (.readBools di addr qty) := by
  simp only [okLen]; split <;> omega

/-- a positive response is accepted only with exactly the expected payload length -/
theorem positive_ok_length {c : Core} {pl : Bytes} {raw : Raw} (h : c.positive pl = some (.ok raw)) :
    pl.length = okLen c := by
  apply Classical.byContradiction
  intro hlen
  cases c <;> simp [Core.positive, protoErr, okLen] at h hlen <;> simp [hlen] at h

/-- the response validation never panics -/
theorem positive_ne_none (c : Core) (pl : Bytes) : c.positive pl ≠ none := by
  cases c with
  | readBools di addr qty =>
    rw [positive_readBools]
    split
    · simp [protoErr]
    · split
      · simp [protoErr]
      · next h1 h2 =>
        have := okLen_readBools_ge di addr qty
        rw [EncLemmas.decodeBools_eq, if_pos]
        · simp
        · simp only [List.length_drop]
          omega
  | readRegs addr qty rt =>
    simp only [Core.positive]
    repeat' split
    all_goals simp
  | writeCoil addr v =>
    simp only [Core.positive]
    split <;> simp
  | writeCoils addr vs =>
    simp only [Core.positive]
    split <;> simp
  | writeReg e addr v =>
    simp only [Core.positive]
    split
    · simp
    · split
      · simp
      · next h1 h2 =>
        match pl, h1 with
        | [a, b, c, d], _ =>
          cases e <;> simp only [List.drop_succ_cons, List.drop_zero, Enc.bytesToUint16] <;>
            split <;> simp
        | [], h1 => simp at h1
        | [_], h1 => simp at h1
        | [_, _], h1 => simp at h1
        | [_, _, _], h1 => simp at h1
        | _ :: _ :: _ :: _ :: _ :: _, h1 => simp at h1
  | writeRegs addr pl' =>
    simp only [Core.positive]
    split <;> simp

theorem validate_ne_none (c : Core) (fc : Byte) (res : Pdu) : c.validate fc res ≠ none := by
  unfold Core.validate
  split
  · exact positive_ne_none c _
  · split
    · split <;> simp
    · simp [protoErr]

/-- a success fixes the function code and the payload length as a function of the request -/
theorem validate_ok_shape {c : Core} {fc : Byte} {res : Pdu} {raw : Raw}
    (h : c.validate fc res = some (.ok raw)) :
    res.fc = fc ∧ res.payload.length = okLen c ∧ c.positive res.payload = some (.ok raw) := by
  unfold Core.validate at h
  split at h
  · next hfc => exact ⟨hfc, positive_ok_length h, h⟩
  · split at h
    · split at h <;> simp [protoErr] at h
    · simp [protoErr] at h

/-- E1: two accepted replies to the same request have the same function code and the same
    payload length (hence the same frame length) -/
theorem answers_same_shape {c : Core} {cfg : Cfg} {res res' : Pdu}
    (h : Answers c cfg res) (h' : Answers c cfg res') :
    res'.payload.length = res.payload.length ∧ res'.fc = res.fc := by
  obtain ⟨raw, fc, payload, hreq, _, hv⟩ := h
  obtain ⟨raw', fc', payload', hreq', _, hv'⟩ := h'
  rw [hreq] at hreq'
  injection hreq' with hreq'; injection hreq' with hfc _
  subst hfc
  obtain ⟨h1, h2, _⟩ := validate_ok_shape hv
  obtain ⟨h1', h2', _⟩ := validate_ok_shape hv'
  exact ⟨by rw [h2, h2'], by rw [h1, h1']⟩

/-- every accepted reply is length-consistent in the sense of the RTU transport: the
    `Rtu.Consistent` hypotheses below are implied by `Answers` (kept where the task states them) -/
theorem Answers.consistent {c : Core} {cfg : Cfg} {res : Pdu} (h : Answers c cfg res) :
    Rtu.Consistent res := by
  obtain ⟨raw, fc, payload, hreq, _, hv⟩ := h
  obtain ⟨hfc, hlen, hpos⟩ := validate_ok_shape hv
  obtain ⟨hfc', hle⟩ := request_ok_inv hreq
  obtain ⟨u, rfc, pl⟩ := res
  simp only at hfc hlen hpos
  subst hfc hfc'
  have hne : pl ≠ [] := by
    intro h0; subst h0
    cases c
    all_goals (simp only [okLen, List.length_nil] at hlen; omega)
  refine ⟨hne, ?_, by simp only; omega⟩
  simp only
  cases c with
  | readBools di addr qty =>
    rw [positive_readBools] at hpos
    split at hpos
    · simp [protoErr] at hpos
    · split at hpos
      · simp [protoErr] at hpos
      · next h1 h2 =>
        have : (pl.getD 0 0).toNat = pl.length - 1 := by omega
        rw [← this]
        cases di <;> simp [reqFc, Rtu.expectedResponseLength]
  | readRegs addr qty rt =>
    rw [positive_readRegs] at hpos
    split at hpos
    · simp [protoErr] at hpos
    · split at hpos
      · simp [protoErr] at hpos
      · next h1 h2 =>
        have : (pl.getD 0 0).toNat = pl.length - 1 := by simp only [okLen] at hlen; omega
        rw [← this]
        simp only [reqFc]
        split <;> simp [Rtu.expectedResponseLength]
  | writeCoil addr v => simp only [okLen] at hlen; simp [reqFc, Rtu.expectedResponseLength, hlen]
  | writeCoils addr vs => simp only [okLen] at hlen; simp [reqFc, Rtu.expectedResponseLength, hlen]
  | writeReg e addr v => simp only [okLen] at hlen; simp [reqFc, Rtu.expectedResponseLength, hlen]
  | writeRegs addr pl' => simp only [okLen] at hlen; simp [reqFc, Rtu.expectedResponseLength, hlen]

/-! ### the exchange, unfolded -/

theorem unitCheck_error (u : Byte) (err : Err) :
    unitCheck u (.error err) = .error (if err = .ioTimeout then .requestTimedOut else err) := by
  cases err <;> rfl

theorem unitCheck_ok_same {u : Byte} {res : Pdu} (h : res.unit = u) :
    unitCheck u (.ok res) = .ok res := by
  simp [unitCheck, h]

theorem unitCheck_ok_inv {u : Byte} {r : Except Err Pdu} {res : Pdu}
    (h : unitCheck u r = .ok res) : r = .ok res := by
  cases r with
  | error err => rw [unitCheck_error] at h; cases h
  | ok res' =>
    simp only [unitCheck] at h
    repeat' split at h
    all_goals cases h
    all_goals rfl

theorem exchange_request_error {c : Core} {err : Err} (cfg : Cfg) (st : TState) (arr : Bytes)
    (en : Ending) (h : c.request = .error err) :
    c.exchange cfg st arr en = { written := none, result := some (.error err), state := st } := by
  unfold Core.exchange
  rw [h]

/-- one exchange on an RTU kind -/
theorem exchange_rtu {c : Core} {cfg : Cfg} {fc : Byte} {payload : Bytes} (st : TState)
    (arr : Bytes) (en : Ending) (hk : cfg.kind.isRtu = true) (hreq : c.request = .ok (fc, payload)) :
    c.exchange cfg st arr en =
      match unitCheck cfg.unitId (Rtu.afterRead (Rtu.readFrame (st.pending ++ arr) en)).1 with
      | .error err =>
        { written := some (Rtu.assemble ⟨cfg.unitId, fc, payload⟩), result := some (.error err),
          state := ⟨st.lastTxn, (Rtu.afterRead (Rtu.readFrame (st.pending ++ arr) en)).2⟩ }
      | .ok res =>
        { written := some (Rtu.assemble ⟨cfg.unitId, fc, payload⟩), result := c.validate fc res,
          state := ⟨st.lastTxn, (Rtu.afterRead (Rtu.readFrame (st.pending ++ arr) en)).2⟩ } := by
  unfold Core.exchange
  rw [hreq]
  simp only [frameFor, transportRead, hk, if_true]
  rfl

theorem exchange_rtu_parts {c : Core} {cfg : Cfg} {fc : Byte} {payload : Bytes} (st : TState)
    (arr : Bytes) (en : Ending) (hk : cfg.kind.isRtu = true) (hreq : c.request = .ok (fc, payload)) :
    (c.exchange cfg st arr en).result =
      (match unitCheck cfg.unitId (Rtu.afterRead (Rtu.readFrame (st.pending ++ arr) en)).1 with
       | .error err => some (.error err)
       | .ok res => c.validate fc res) ∧
    (c.exchange cfg st arr en).state =
      ⟨st.lastTxn, (Rtu.afterRead (Rtu.readFrame (st.pending ++ arr) en)).2⟩ ∧
    (c.exchange cfg st arr en).written = some (Rtu.assemble ⟨cfg.unitId, fc, payload⟩) := by
  rw [exchange_rtu st arr en hk hreq]
  cases unitCheck cfg.unitId (Rtu.afterRead (Rtu.readFrame (st.pending ++ arr) en)).1 <;>
    exact ⟨rfl, rfl, rfl⟩

/-- the public method returns the error of its core exchange unchanged -/
theorem run_result_of_exchange_error {op : Op} {c : Core} {cfg : Cfg} {st : TState} {arr : Bytes}
    {en : Ending} {err : Err} (hc : op.core cfg = some c)
    (h : (c.exchange cfg st arr en).result = some (.error err)) :
    (op.run cfg st arr en).result = some (.error err) := by
  unfold Op.run
  rw [hc]
  simp only
  rw [h]

theorem run_state_eq {op : Op} {c : Core} {cfg : Cfg} {st : TState} {arr : Bytes}
    {en : Ending} (hc : op.core cfg = some c) :
    (op.run cfg st arr en).state = (c.exchange cfg st arr en).state := by
  unfold Op.run
  rw [hc]

/-- a transport-level error becomes the result of the exchange (an i/o timeout as
    ErrRequestTimedOut), and the unread input is flushed as `Rtu.afterRead` does -/
theorem exchange_rtu_transport_error {c : Core} {cfg : Cfg} {fc : Byte} {payload : Bytes}
    {st : TState} {arr rest : Bytes} {en : Ending} {err : Err}
    (hk : cfg.kind.isRtu = true) (hreq : c.request = .ok (fc, payload))
    (h : Rtu.readFrame (st.pending ++ arr) en = (.error err, rest)) :
    (c.exchange cfg st arr en).result =
      some (.error (if err = .ioTimeout then .requestTimedOut else err)) ∧
    (c.exchange cfg st arr en).state = ⟨st.lastTxn, rest.drop 1024⟩ := by
  obtain ⟨h1, h2, _⟩ := exchange_rtu_parts st arr en hk hreq
  rw [h1, h2, Rtu.afterRead_readFrame_error h, unitCheck_error]
  exact ⟨rfl, rfl⟩

/-- a reply that the transport delivers and that carries the configured unit id is handed to the
    validation; nothing is flushed -/
theorem exchange_rtu_delivered {c : Core} {cfg : Cfg} {fc : Byte} {payload : Bytes}
    {st : TState} {arr rest : Bytes} {en : Ending} {res : Pdu}
    (hk : cfg.kind.isRtu = true) (hreq : c.request = .ok (fc, payload))
    (h : Rtu.readFrame (st.pending ++ arr) en = (.ok res, rest)) (hu : res.unit = cfg.unitId) :
    (c.exchange cfg st arr en).result = c.validate fc res ∧
    (c.exchange cfg st arr en).state = ⟨st.lastTxn, rest⟩ := by
  obtain ⟨h1, h2, _⟩ := exchange_rtu_parts st arr en hk hreq
  rw [h1, h2, h, Rtu.afterRead_ok, unitCheck_ok_same hu]
  exact ⟨rfl, rfl⟩

/-! ### E2: corrupted replies are never taken for a success -/

/-- the two families of error patterns of C06 -/
def BurstOrDouble (e : List Bool) : Prop :=
  (∃ a b w, e = zeros a ++ w ++ zeros b ∧ w.length ≤ 16 ∧ true ∈ w) ∨
  (∃ a d b, e = zeros a ++ [true] ++ zeros d ++ [true] ++ zeros b)

/-- a byte string as long as a valid reply frame that fails the CRC check is never accepted,
    whatever follows it on the line and however the stream ends -/
theorem exchange_rejects_crc_fail {c : Core} {cfg : Cfg} {st : TState} {res : Pdu} {f' : Bytes}
    (post : Bytes) (en : Ending)
    (hk : cfg.kind.isRtu = true) (hp : st.pending = []) (ha : Answers c cfg res)
    (hlen : f'.length = (Rtu.assemble res).length) (hcrc : crcOk f' = false) :
    ∃ err, (c.exchange cfg st (f' ++ post) en).result = some (.error err) := by
  obtain ⟨raw, fc, payload, hreq, hunit, hval⟩ := ha
  obtain ⟨h1, _, _⟩ := exchange_rtu_parts st (f' ++ post) en hk hreq
  rw [h1, hp, List.nil_append]
  cases hrf : Rtu.readFrame (f' ++ post) en with
  | mk r rest =>
    rw [show (Rtu.afterRead (r, rest)).1 = r from Rtu.afterRead_fst (r, rest)]
    cases hu : unitCheck cfg.unitId r with
    | error err => exact ⟨err, rfl⟩
    | ok res' =>
      have hr := unitCheck_ok_inv hu
      subst hr
      simp only
      cases hv : c.validate fc res' with
      | none => exact absurd hv (validate_ne_none c fc res')
      | some x =>
        cases x with
        | error err => exact ⟨err, rfl⟩
        | ok raw' =>
          exfalso
          obtain ⟨_, hl', _⟩ := validate_ok_shape hv
          obtain ⟨_, hl, _⟩ := validate_ok_shape hval
          obtain ⟨_, hs⟩ := Rtu.readFrame_ok_inv hrf
          have hlen' : f'.length = (Rtu.assemble res').length := by
            rw [hlen, Rtu.length_assemble, Rtu.length_assemble, hl, hl']
          have : f' = Rtu.assemble res' := List.append_inj_left hs hlen'
          rw [this, Rtu.crcOk_assemble] at hcrc
          cases hcrc

/-- E2: a reply frame hit by an error burst of at most 16 bits (single-bit errors included) or by
    a double-bit error never yields a success and never a panic: the call returns an error,
    whatever follows on the line (`post`) and however the stream ends (`en`).
    (`Rtu.Consistent res` is implied by `Answers`; see `Answers.consistent`.) -/
theorem C06_corruption_never_success {c : Core} {cfg : Cfg} {st : TState} {res : Pdu}
    {e : List Bool} (post : Bytes) (en : Ending)
    (hk : cfg.kind.isRtu = true) (hp : st.pending = []) (ha : Answers c cfg res)
    (hc : Rtu.Consistent res)
    (hlen : e.length = 8 * (Rtu.assemble res).length) (he : BurstOrDouble e) :
    ∃ err, (c.exchange cfg st (applyErr (Rtu.assemble res) e ++ post) en).result =
      some (.error err) := by
  apply exchange_rejects_crc_fail post en hk hp ha (applyErr_length _ _)
  rcases he with ⟨a, b, w, he, hw, ht⟩ | ⟨a, d, b, he⟩
  · exact burst_detected _ a b w e (Rtu.crcOk_assemble res) he hw ht hlen
  · refine double_bit_detected _ a d b e (Rtu.crcOk_assemble res) he hlen ?_
    rw [Rtu.length_assemble]; exact hc.2.2

/-- ... in particular the result is neither a success nor a panic -/
theorem C06_corruption_not_ok_not_panic {c : Core} {cfg : Cfg} {st : TState} {res : Pdu}
    {e : List Bool} (post : Bytes) (en : Ending)
    (hk : cfg.kind.isRtu = true) (hp : st.pending = []) (ha : Answers c cfg res)
    (hc : Rtu.Consistent res)
    (hlen : e.length = 8 * (Rtu.assemble res).length) (he : BurstOrDouble e) :
    (∀ raw, (c.exchange cfg st (applyErr (Rtu.assemble res) e ++ post) en).result ≠ some (.ok raw)) ∧
    (c.exchange cfg st (applyErr (Rtu.assemble res) e ++ post) en).result ≠ none := by
  obtain ⟨err, h⟩ := C06_corruption_never_success post en hk hp ha hc hlen he
  rw [h]
  exact ⟨fun raw hh => (by cases hh), fun hh => (by cases hh)⟩

/-- E2 at the level of the public methods: every read/write method whose core call is `c`
    returns an error -/
theorem C06_corruption_never_success_public {op : Op} {c : Core} {cfg : Cfg} {st : TState}
    {res : Pdu} {e : List Bool} (post : Bytes) (en : Ending)
    (hop : op.core cfg = some c)
    (hk : cfg.kind.isRtu = true) (hp : st.pending = []) (ha : Answers c cfg res)
    (hc : Rtu.Consistent res)
    (hlen : e.length = 8 * (Rtu.assemble res).length) (he : BurstOrDouble e) :
    ∃ err, (op.run cfg st (applyErr (Rtu.assemble res) e ++ post) en).result =
      some (.error err) := by
  obtain ⟨err, h⟩ := C06_corruption_never_success post en hk hp ha hc hlen he
  exact ⟨err, run_result_of_exchange_error hop h⟩

/-! ### E3: any other CRC field -/

/-- E3: a consistent reply whose two CRC bytes are replaced by any other value is rejected with
    ErrBadCRC (and up to 1024 bytes of what follows are flushed) -/
theorem C06_arbitrary_crc {c : Core} {cfg : Cfg} {st : TState} {res : Pdu} {fc : Byte}
    {payload : Bytes} {l h : Byte} (post : Bytes) (en : Ending)
    (hk : cfg.kind.isRtu = true) (hp : st.pending = []) (hreq : c.request = .ok (fc, payload))
    (hc : Rtu.Consistent res) (hne : [l, h] ≠ Crc.crc16 ([res.unit, res.fc] ++ res.payload)) :
    (c.exchange cfg st ([res.unit, res.fc] ++ res.payload ++ [l, h] ++ post) en).result =
      some (.error .badCRC) ∧
    (c.exchange cfg st ([res.unit, res.fc] ++ res.payload ++ [l, h] ++ post) en).state =
      ⟨st.lastTxn, post.drop 1024⟩ := by
  have hrf := Rtu.readFrame_bad_crc post en hc hne
  have := exchange_rtu_transport_error (c := c) (cfg := cfg) (st := st)
    (arr := [res.unit, res.fc] ++ res.payload ++ [l, h] ++ post) (en := en) hk hreq
    (by rw [hp, List.nil_append]; exact hrf)
  simpa using this

/-- E3 for answers and for the public methods -/
theorem C06_arbitrary_crc_public {op : Op} {c : Core} {cfg : Cfg} {st : TState} {res : Pdu}
    {l h : Byte} (post : Bytes) (en : Ending) (hop : op.core cfg = some c)
    (hk : cfg.kind.isRtu = true) (hp : st.pending = []) (ha : Answers c cfg res)
    (hne : [l, h] ≠ Crc.crc16 ([res.unit, res.fc] ++ res.payload)) :
    (op.run cfg st ([res.unit, res.fc] ++ res.payload ++ [l, h] ++ post) en).result =
      some (.error .badCRC) := by
  obtain ⟨raw, fc, payload, hreq, _, _⟩ := id ha
  exact run_result_of_exchange_error hop
    (C06_arbitrary_crc post en hk hp hreq ha.consistent hne).1

/-! ### E4: resynchronisation -/

/-- with nothing pending, a correct reply is accepted, exactly its bytes are consumed -/
theorem exchange_rtu_answer {c : Core} {cfg : Cfg} {st : TState} {res : Pdu} {raw : Raw}
    (post : Bytes) (en : Ending)
    (hk : cfg.kind.isRtu = true) (hp : st.pending = []) (ha : AnswersWith c cfg res raw)
    (hc : Rtu.Consistent res) :
    (c.exchange cfg st (Rtu.assemble res ++ post) en).result = some (.ok raw) ∧
    (c.exchange cfg st (Rtu.assemble res ++ post) en).state = ⟨st.lastTxn, post⟩ := by
  obtain ⟨fc, payload, hreq, hunit, hval⟩ := ha
  have := exchange_rtu_delivered (c := c) (cfg := cfg) (st := st) (arr := Rtu.assemble res ++ post)
    (en := en) hk hreq (by rw [hp, List.nil_append]; exact Rtu.readFrame_assemble post en hc) hunit
  rw [hval] at this
  exact this

/-- after a transport-level rejection (ErrBadCRC, ErrShortFrame, ErrProtocolError out of
    `readRTUFrame`, or a Read error) the pending input is the unread rest minus the (up to)
    1024 flushed bytes -/
theorem C06_pending_after_transport_rejection {c : Core} {cfg : Cfg} {fc : Byte}
    {payload : Bytes} {st : TState} {arr rest : Bytes} {en : Ending} {err : Err}
    (hk : cfg.kind.isRtu = true) (hreq : c.request = .ok (fc, payload))
    (h : Rtu.readFrame (st.pending ++ arr) en = (.error err, rest)) :
    (c.exchange cfg st arr en).state.pending = rest.drop 1024 ∧
    rest.length ≤ st.pending.length + arr.length := by
  refine ⟨by rw [(exchange_rtu_transport_error hk hreq h).2], ?_⟩
  have := Rtu.readFrame_rest_le h
  rwa [List.length_append] at this

/-- ... so nothing is pending when at most 1024 bytes were pending or arrived -/
theorem C06_pending_nil_after_transport_rejection {c : Core} {cfg : Cfg} {fc : Byte}
    {payload : Bytes} {st : TState} {arr rest : Bytes} {en : Ending} {err : Err}
    (hk : cfg.kind.isRtu = true) (hreq : c.request = .ok (fc, payload))
    (h : Rtu.readFrame (st.pending ++ arr) en = (.error err, rest))
    (hsmall : st.pending.length + arr.length ≤ 1024) :
    (c.exchange cfg st arr en).state.pending = [] := by
  obtain ⟨h1, h2⟩ := C06_pending_after_transport_rejection hk hreq h
  rw [h1, List.drop_eq_nil_of_le (by omega)]

/-
  FULL STATEMENT (false, finding F7 — see `C06_next_exchange_counterexample`):
    after ANY rejected exchange on an RTU kind, the next exchange whose arrivals are a correct
    reply `Rtu.assemble res ++ post` to its request succeeds.
  What holds is the statement below: it needs `pending = []` after the rejected exchange. That
  is guaranteed after transport-level rejections when at most 1024 bytes were in flight
  (`C06_next_exchange_after_transport_rejection`); it fails after client-level rejections
  (wrong unit id, validation), which do not flush, and with more than 1024 bytes in flight.
-/

/-- E4 (partial): if nothing is pending after the first exchange (whatever its result), the next
    exchange, answered correctly, succeeds and consumes exactly the reply -/
theorem C06_next_exchange_partial {c1 c2 : Core} {cfg : Cfg} {st : TState} {arr1 : Bytes}
    {en1 : Ending} {res : Pdu} {raw : Raw} (post : Bytes) (en2 : Ending)
    (hk : cfg.kind.isRtu = true)
    (hpend : (c1.exchange cfg st arr1 en1).state.pending = [])
    (ha : AnswersWith c2 cfg res raw) (hc : Rtu.Consistent res) :
    (c2.exchange cfg (c1.exchange cfg st arr1 en1).state (Rtu.assemble res ++ post) en2).result =
      some (.ok raw) ∧
    (c2.exchange cfg (c1.exchange cfg st arr1 en1).state (Rtu.assemble res ++ post) en2).state.pending =
      post := by
  obtain ⟨h1, h2⟩ := exchange_rtu_answer post en2 hk hpend ha hc
  exact ⟨h1, by rw [h2]⟩

/-- E4: after a transport-level rejection with at most 1024 bytes in flight, the first exchange
    returns the transport error, and the next exchange, answered correctly, succeeds -/
theorem C06_next_exchange_after_transport_rejection {c1 c2 : Core} {cfg : Cfg} {st : TState}
    {fc : Byte} {payload : Bytes} {arr1 rest : Bytes} {en1 : Ending} {err : Err} {res : Pdu}
    {raw : Raw} (post : Bytes) (en2 : Ending)
    (hk : cfg.kind.isRtu = true) (hreq : c1.request = .ok (fc, payload))
    (h : Rtu.readFrame (st.pending ++ arr1) en1 = (.error err, rest))
    (hsmall : st.pending.length + arr1.length ≤ 1024)
    (ha : AnswersWith c2 cfg res raw) (hc : Rtu.Consistent res) :
    (c1.exchange cfg st arr1 en1).result =
      some (.error (if err = .ioTimeout then .requestTimedOut else err)) ∧
    (c2.exchange cfg (c1.exchange cfg st arr1 en1).state (Rtu.assemble res ++ post) en2).result =
      some (.ok raw) :=
  ⟨(exchange_rtu_transport_error hk hreq h).1,
   (C06_next_exchange_partial post en2 hk
      (C06_pending_nil_after_transport_rejection hk hreq h hsmall) ha hc).1⟩

/-- corollary: a corrupted reply (burst / double bit) followed by nothing else on the line, then a
    correct reply to the repeated request. Either the transport rejected the corrupted frame
    and the retry succeeds, or ... the corrupted frame was not rejected by the transport, which
    is the situation of F7. Here: wrong CRC field, the common case. -/
theorem C06_retry_after_bad_crc {c : Core} {cfg : Cfg} {st : TState} {res : Pdu} {raw : Raw}
    {l h : Byte} (junk post : Bytes) (en1 en2 : Ending)
    (hk : cfg.kind.isRtu = true) (hp : st.pending = []) (ha : AnswersWith c cfg res raw)
    (hne : [l, h] ≠ Crc.crc16 ([res.unit, res.fc] ++ res.payload)) (hj : junk.length ≤ 1024) :
    let o1 := c.exchange cfg st ([res.unit, res.fc] ++ res.payload ++ [l, h] ++ junk) en1
    o1.result = some (.error .badCRC) ∧
    (c.exchange cfg o1.state (Rtu.assemble res ++ post) en2).result = some (.ok raw) := by
  obtain ⟨fc, payload, hreq, _, _⟩ := id ha
  have hc : Rtu.Consistent res := Answers.consistent ⟨raw, ha⟩
  obtain ⟨h1, h2⟩ := C06_arbitrary_crc junk en1 hk hp hreq hc hne
  refine ⟨h1, ?_⟩
  have hpend : (c.exchange cfg st ([res.unit, res.fc] ++ res.payload ++ [l, h] ++ junk) en1).state.pending
      = [] := by
    rw [h2]; exact List.drop_eq_nil_of_le hj
  exact (exchange_rtu_answer post en2 hk hpend ha hc).1

/-! ### E5: finding F7 — no resynchronisation after a client-level rejection -/

/-- RTU client, unit 1 -/
def exCfg : Cfg := ⟨.rtu, 1, .big, .highFirst⟩
/-- read 2 holding registers at address 0 -/
def exReq : Core := .readRegs 0 2 0
/-- the correct reply: byte count 4, registers 0x20f0 0x1234 — the first register happens to be
    the CRC of `01 03 00` -/
def exReply : Pdu := ⟨1, 3, [4, 0x20, 0xf0, 0x12, 0x34]⟩
/-- a single flipped bit: bit 2 of the byte count (frame bit 18), 04 → 00 -/
def exFlip : List Bool := zeros 18 ++ [true] ++ zeros 53

example : exReq.request = .ok (0x03, [0, 0, 0, 2]) := by decide
example : Rtu.assemble exReply = [0x01, 0x03, 0x04, 0x20, 0xf0, 0x12, 0x34, 0xfc, 0xb7] := by
  decide +kernel
example : Crc.crc16 [0x01, 0x03, 0x00] = [0x20, 0xf0] := by decide +kernel
example : applyErr (Rtu.assemble exReply) exFlip =
    [0x01, 0x03, 0x00, 0x20, 0xf0, 0x12, 0x34, 0xfc, 0xb7] := by decide +kernel
example : AnswersWith exReq exCfg exReply (.bytes [0x20, 0xf0, 0x12, 0x34]) :=
  ⟨0x03, [0, 0, 0, 2], by decide, rfl, by decide⟩

/-- F7: "after ANY rejected exchange the next exchange with a well-behaved device succeeds" is
    false. One flipped bit in the byte count of a valid reply makes the transport accept the
    5-byte prefix `01 03 00 20 f0` (its CRC is right) as a frame with payload `[00]`; the client
    rejects that with ErrProtocolError but does NOT flush, so `12 34 fc b7` stay pending; the next
    exchange, answered with the correct reply, fails (the third one succeeds). -/
theorem C06_next_exchange_counterexample :
    let corrupted := applyErr (Rtu.assemble exReply) exFlip
    let o1 := exReq.exchange exCfg ⟨0, []⟩ corrupted .timeout
    let o2 := exReq.exchange exCfg o1.state (Rtu.assemble exReply) .timeout
    let o3 := exReq.exchange exCfg o2.state (Rtu.assemble exReply) .timeout
    AnswersWith exReq exCfg exReply (.bytes [0x20, 0xf0, 0x12, 0x34]) ∧
    Rtu.Consistent exReply ∧
    Rtu.readFrame corrupted .timeout = (.ok ⟨1, 3, [0]⟩, [0x12, 0x34, 0xfc, 0xb7]) ∧
    o1.result = some (.error .protocolError) ∧
    o1.state.pending = [0x12, 0x34, 0xfc, 0xb7] ∧
    o2.result = some (.error .protocolError) ∧
    (∀ raw, o2.result ≠ some (.ok raw)) ∧
    o2.state.pending = [] ∧
    o3.result = some (.ok (.bytes [0x20, 0xf0, 0x12, 0x34])) := by
  refine ⟨⟨0x03, [0, 0, 0, 2], by decide, rfl, by decide⟩, by decide, by decide +kernel,
    by decide +kernel, by decide +kernel, ?_, ?_, by decide +kernel, by decide +kernel⟩
  · decide +kernel
  · have h : (exReq.exchange exCfg
        (exReq.exchange exCfg ⟨0, []⟩ (applyErr (Rtu.assemble exReply) exFlip) .timeout).state
        (Rtu.assemble exReply) .timeout).result = some (.error .protocolError) := by decide +kernel
    intro raw
    rw [h]
    exact fun hh => by cases hh

/-- the same at the level of the public method `ReadRegisters(0, 2, HOLDING_REGISTER)` -/
theorem C06_next_exchange_counterexample_public :
    let op : Op := .readRegisters 0 2 0
    let corrupted := applyErr (Rtu.assemble exReply) exFlip
    let r1 := op.run exCfg ⟨0, []⟩ corrupted .timeout
    let r2 := op.run exCfg r1.state (Rtu.assemble exReply) .timeout
    op.core exCfg = some exReq ∧
    r1.result = some (.error .protocolError) ∧
    r2.result = some (.error .protocolError) ∧
    (op.run exCfg ⟨0, []⟩ (Rtu.assemble exReply) .timeout).result =
      some (.ok (.u16s [0x20f0, 0x1234])) := by
  refine ⟨by decide, by decide +kernel, by decide +kernel, by decide +kernel⟩

/-- second way to lose synchronisation: more than 1024 bytes of noise behind a rejected frame —
    the flush takes 1024 bytes only -/
theorem C06_next_exchange_counterexample_flush :
    let noise : Bytes := List.replicate 1030 0x55
    let o1 := exReq.exchange exCfg ⟨0, []⟩ ([0x01, 0x03, 0x04, 0x20, 0xf0, 0x12, 0x34, 0xfc, 0xb6] ++ noise)
      .timeout
    let o2 := exReq.exchange exCfg o1.state (Rtu.assemble exReply) .timeout
    o1.result = some (.error .badCRC) ∧ o1.state.pending = List.replicate 6 0x55 ∧
    o2.result = some (.error .protocolError) := by
  refine ⟨by decide +kernel, by decide +kernel, by decide +kernel⟩

/-! ### non-vacuity of E2–E4 on the same request / reply -/

-- E2, burst: the 16-bit burst `exBurst` of C06.lean placed at bit 13 of the 9-byte reply
example : (zeros 13 ++ exBurst ++ zeros 43).length = 8 * (Rtu.assemble exReply).length ∧
    BurstOrDouble (zeros 13 ++ exBurst ++ zeros 43) :=
  ⟨by decide +kernel, Or.inl ⟨13, 43, exBurst, rfl, by decide, by decide⟩⟩

example : (exReq.exchange exCfg ⟨0, []⟩
    (applyErr (Rtu.assemble exReply) (zeros 13 ++ exBurst ++ zeros 43) ++ [0xaa]) .eof).result =
    some (.error .protocolError) := by decide +kernel

example : ∃ err, (exReq.exchange exCfg ⟨0, []⟩
    (applyErr (Rtu.assemble exReply) (zeros 13 ++ exBurst ++ zeros 43) ++ [0xaa]) .eof).result =
    some (.error err) :=
  C06_corruption_never_success [0xaa] .eof rfl rfl
    ⟨.bytes [0x20, 0xf0, 0x12, 0x34], 0x03, [0, 0, 0, 2], by decide, rfl, by decide⟩ (by decide)
    (by decide +kernel)
    (Or.inl ⟨13, 43, exBurst, rfl, by decide, by decide⟩)

-- E2, single bit = the flip of F7: rejected (by the validation, not by the CRC)
example : BurstOrDouble exFlip := Or.inl ⟨18, 53, [true], rfl, by decide, by decide⟩

-- E2, double bit: frame bits 3 and 60
example : (exReq.exchange exCfg ⟨0, []⟩
    (applyErr (Rtu.assemble exReply) (zeros 3 ++ [true] ++ zeros 56 ++ [true] ++ zeros 11)) .timeout).result =
    some (.error .badCRC) := by decide +kernel

-- E3
example : ([0xfc, 0xb6] : Bytes) ≠ Crc.crc16 ([exReply.unit, exReply.fc] ++ exReply.payload) := by
  decide +kernel
example : (exReq.exchange exCfg ⟨0, []⟩
    ([exReply.unit, exReply.fc] ++ exReply.payload ++ [0xfc, 0xb6] ++ [1, 2, 3]) .timeout).result =
    some (.error .badCRC) := by decide +kernel

-- E4: bad CRC, then the retry is answered correctly
example :
    let o1 := exReq.exchange exCfg ⟨0, []⟩ [0x01, 0x03, 0x04, 0x20, 0xf0, 0x12, 0x34, 0xfc, 0xb6, 9, 9] .timeout
    o1.result = some (.error .badCRC) ∧ o1.state.pending = [] ∧
    (exReq.exchange exCfg o1.state (Rtu.assemble exReply ++ [7]) .timeout).result =
      some (.ok (.bytes [0x20, 0xf0, 0x12, 0x34])) := by
  refine ⟨by decide +kernel, by decide +kernel, by decide +kernel⟩

end Modbus.Props.C06

#print axioms Modbus.Props.C06.answers_same_shape
#print axioms Modbus.Props.C06.Answers.consistent
#print axioms Modbus.Props.C06.validate_ne_none
#print axioms Modbus.Props.C06.exchange_rejects_crc_fail
#print axioms Modbus.Props.C06.C06_corruption_never_success
#print axioms Modbus.Props.C06.C06_corruption_not_ok_not_panic
#print axioms Modbus.Props.C06.C06_corruption_never_success_public
#print axioms Modbus.Props.C06.C06_arbitrary_crc
#print axioms Modbus.Props.C06.C06_arbitrary_crc_public
#print axioms Modbus.Props.C06.exchange_rtu_answer
#print axioms Modbus.Props.C06.C06_pending_after_transport_rejection
#print axioms Modbus.Props.C06.C06_pending_nil_after_transport_rejection
#print axioms Modbus.Props.C06.C06_next_exchange_partial
#print axioms Modbus.Props.C06.C06_next_exchange_after_transport_rejection
#print axioms Modbus.Props.C06.C06_retry_after_bad_crc
#print axioms Modbus.Props.C06.C06_next_exchange_counterexample
#print axioms Modbus.Props.C06.C06_next_exchange_counterexample_public
#print axioms Modbus.Props.C06.C06_next_exchange_counterexample_flush
