import ModbusVerif.Lemmas.GoEvalLemmas
import ModbusVerif.Props.C19
/-
  C19, source tie: the two timing computations of rtu_transport.go, as rendered by the translator
  (`Gen.gs_serialCharTime`, `Gen.gs_newRTUTransport`, regenerated from /repo on every run), are
  EVALUATED by `Modbus.GoEval` with Go's int64 semantics for every rate and proved equal to the
  model `Timing.charTime` / `Timing.t35` / `Timing.t1`, about which `Props/C19.lean` proves the
  property.

  `time.Duration` is `int64`; `11 * time.Second` is folded by the Go type checker to the literal
  11000000000; `time.Duration(rate_bps)` is the conversion `uint → int64` (`conv .i64`).
-/
set_option linter.unusedSimpArgs false
set_option linter.unusedVariables false

namespace Modbus.Props.C19
open Modbus.Gen Modbus.GoEval Modbus.Timing

/-- no call is answered (neither function calls anything that matters) -/
def noOracle : Oracle := fun _ _ => none

/-! ### serialCharTime -/

theorem charTime_8 (r : Nat) (h1 : 1 ≤ r) (h2 : r < 2^63) :
    exec noOracle 8 gs_serialCharTime [("rate_bps", .int r)] =
      ⟨[("ct", .int (charTime r)), ("rate_bps", .int r)], .returned, []⟩ := by
  have hw : wrap .i64 (r : Int) = (r : Int) := wrap_i64 (by omega) (by omega)
  have hr0 : ¬ ((r : Int) = 0) := by omega
  have hq : (11000000000 : Int) / (r : Int) = ((11000000000 / r : Nat) : Int) :=
    (Int.natCast_ediv 11000000000 r).symm
  have hle : 11000000000 / r ≤ 11000000000 := Nat.div_le_self _ _
  have hw2 : wrap .i64 ((11000000000 / r : Nat) : Int) = ((11000000000 / r : Nat) : Int) := by
    generalize 11000000000 / r = q at hle
    exact wrap_i64 (by omega) (by omega)
  go_eval_nowrap [gs_serialCharTime, hw, hr0, tdiv_of_nonneg _ (by decide : (0:Int) ≤ 11000000000),
    hq, hw2, write_def, charTime]

/-- `serialCharTime(rate_bps)` for every rate 1 ≤ r < 2^63 (the `uint → int64` conversion is
    exact there): the function returns, having assigned `ct = Timing.charTime r`; no int64
    operation wraps. -/
theorem C19S_charTime (r : Nat) (h1 : 1 ≤ r) (h2 : r < 2^63) (fuel : Nat) (hf : 8 ≤ fuel) :
    let res := exec noOracle fuel gs_serialCharTime [("rate_bps", .int r)]
    res.how = .returned ∧ Env.read res.env "ct" = .int (charTime r) ∧ res.calls = [] := by
  have h8 := charTime_8 r h1 h2
  have hm := exec_mono noOracle 8 fuel gs_serialCharTime [("rate_bps", .int r)] hf
    (by rw [h8]; exact fun h => nomatch h)
  simp only [hm, h8]
  exact ⟨trivial, rfl, trivial⟩

/-- rate 0: the division panics in Go; the run is stuck at the assignment, `ct` is never set -/
theorem C19S_charTime_zero (fuel : Nat) (hf : 8 ≤ fuel) :
    let res := exec noOracle fuel gs_serialCharTime [("rate_bps", .int 0)]
    res.how = .stuckAt "panic" ∧ Env.read res.env "ct" = .unk := by
  have h8 : exec noOracle 8 gs_serialCharTime [("rate_bps", .int 0)]
      = ⟨[("rate_bps", .int 0)], .stuckAt "panic", []⟩ := by decide +kernel
  have hm := exec_mono noOracle 8 fuel gs_serialCharTime [("rate_bps", .int 0)] hf
    (by rw [h8]; exact fun h => nomatch h)
  simp only [hm, h8]
  exact ⟨trivial, rfl⟩

/-! ### newRTUTransport: t3.5 and t1 -/

/-- the environment of `newRTUTransport`: `speed`, and the opaque call `serialCharTime(speed)`
    bound to the value `C19S_charTime` proves it returns -/
def envNew (r : Nat) : Env := [("speed", .int r), ("serialCharTime(speed)", .int (charTime r))]

theorem t35_8 (r : Nat) (h1 : 1 ≤ r) :
    exec noOracle 8 gs_newRTUTransport (envNew r) =
      ⟨[("rt.t35", .int (t35 r)), ("rt", .unk), ("speed", .int r),
        ("serialCharTime(speed)", .int (charTime r))], .returned, []⟩ := by
  have hov := no_overflow r h1
  have hle := charTime_le r
  generalize hc : charTime r = c at hov hle
  have hw1 : wrap .i64 ((c : Int) * 35) = (c : Int) * 35 := wrap_i64 (by omega) (by omega)
  have h0 : (0 : Int) ≤ (c : Int) * 35 := by omega
  have hq : (c : Int) * 35 / 10 = ((c * 35 / 10 : Nat) : Int) := by omega
  have hw2 : wrap .i64 ((c * 35 / 10 : Nat) : Int) = ((c * 35 / 10 : Nat) : Int) :=
    wrap_i64 (by omega) (by omega)
  by_cases hr : r ≥ 19200
  · have hr' : (r : Int) ≥ 19200 := by omega
    go_eval_nowrap [gs_newRTUTransport, envNew, hc, hr', hr, write_def, t35]
    rfl
  · have hr' : ¬ (r : Int) ≥ 19200 := by omega
    go_eval_nowrap [gs_newRTUTransport, envNew, hc, hr', hr, write_def, t35, hw1,
      tdiv_of_nonneg _ h0, hq, hw2, Int.reduceEq]

/-- `newRTUTransport` for every speed ≥ 1, with `serialCharTime(speed)` = `Timing.charTime`:
    the function assigns `rt.t35 = Timing.t35 speed` on both branches (1750000 ns from 19200 bps
    on, `charTime * 35 / 10` below); neither the product nor the quotient wraps in int64
    (`no_overflow` of Props/C19 is what makes `wrap .i64` the identity). -/
theorem C19S_t35 (r : Nat) (h1 : 1 ≤ r) (fuel : Nat) (hf : 8 ≤ fuel) :
    let res := exec noOracle fuel gs_newRTUTransport (envNew r)
    res.how = .returned ∧ Env.read res.env "rt.t35" = .int (t35 r) ∧ res.calls = [] := by
  have h8 := t35_8 r h1
  have hm := exec_mono noOracle 8 fuel gs_newRTUTransport (envNew r) hf
    (by rw [h8]; exact fun h => nomatch h)
  simp only [hm, h8]
  exact ⟨trivial, rfl, trivial⟩

/-- the struct literal assigned to `rt` — the only assignment to `rt`, and `rt.t1` is assigned
    nowhere else — has the field `t1: serialCharTime(speed)`, i.e. `rt.t1 = Timing.t1 speed`
    by `C19S_charTime`; the literal is exactly the expected text -/
theorem C19S_t1_literal :
    assignedTexts "rt" gs_newRTUTransport =
      [some "&rtuTransport{ logger: newLogger(fmt.Sprintf(\"rtu-transport(%s)\", addr), customLogger), link: link, timeout: timeout, t1: serialCharTime(speed), }"] ∧
    (assignedTexts "rt" gs_newRTUTransport).map (fun t => t.bind (fun l => litField l "t1"))
      = [some "serialCharTime(speed)"] ∧
    assignedTexts "rt.t1" gs_newRTUTransport = [] ∧
    (assignedTexts "rt.t35" gs_newRTUTransport).length = 2 := by
  decide +kernel

/-- `Timing.t1` is by definition the character time -/
theorem C19S_t1 (r : Nat) : t1 r = charTime r := rfl

/-! ### non-vacuity: concrete runs, evaluated by the kernel -/

example : Env.read (exec noOracle 8 gs_serialCharTime [("rate_bps", .int 9600)]).env "ct"
    = .int 1145833 := by decide +kernel
example : Env.read (exec noOracle 8 gs_newRTUTransport (envNew 9600)).env "rt.t35"
    = .int 4010415 := by decide +kernel
example : Env.read (exec noOracle 8 gs_newRTUTransport (envNew 19200)).env "rt.t35"
    = .int 1750000 := by decide +kernel
example : Env.read (exec noOracle 8 gs_newRTUTransport (envNew 19199)).env "rt.t35"
    = .int 2005311 := by decide +kernel
/-- sensitivity: a variant multiplying AFTER the division (`ct / 10 * 35`) gives another value -/
example : Env.read (exec noOracle 8
      (.assign "rt.t35" (.bin "*" .i64 (.bin "/" .i64 (.call "serialCharTime(speed)" .i64)
        (.lit 10 .i64)) (.lit 35 .i64))) (envNew 9600)).env "rt.t35" = .int 4010405 := by
  decide +kernel
/-- sensitivity: in int32 the product `ct * 35` would wrap at 300 bps -/
example : Env.read (exec noOracle 8
      (.assign "x" (.bin "*" .i32 (.call "serialCharTime(speed)" .i64) (.lit 35 .i32)))
      (envNew 300)).env "x" = .int 1283333310 ∧ charTime 300 * 35 = 1283333310 := by
  decide +kernel
example : Env.read (exec noOracle 8
      (.assign "x" (.bin "*" .i32 (.call "serialCharTime(speed)" .i64) (.lit 35 .i32)))
      (envNew 100)).env "x" = .int (-444967296) ∧ charTime 100 * 35 = 3850000000 := by
  decide +kernel

end Modbus.Props.C19

#print axioms Modbus.Props.C19.C19S_charTime
#print axioms Modbus.Props.C19.C19S_charTime_zero
#print axioms Modbus.Props.C19.C19S_t35
#print axioms Modbus.Props.C19.C19S_t1_literal
#print axioms Modbus.Props.C19.C19S_t1
