import ModbusVerif.Model.IoTraceExt
import ModbusVerif.Lemmas.IoExtLemmas
import ModbusVerif.Props.C07
/-
  Property C07, extensions closing the gaps an audit of the statements of `Props/C07.lean` found.

  X1. SERIAL. Assumption A-deadline of `C07.lean` ("an i/o operation started before the armed
      deadline returns no later than the deadline") is FALSE for `rtu://`: serial.go
      `serialPortWrapper.Read` looks at the deadline on entry only and then blocks for up to
      δ = 10 ms in `port.Read`; `Write` ignores the deadline. Here:
        * `durOkδ ε δ`: A-deadline with slack δ (δ = 0 is `durOk`), `durOkSerial ε δ wmax`: the
          wrapper (entry check; each read ≤ δ; a write ≤ wmax);
        * zero-byte reads (`serial.ErrTimeout` masked into `(0, nil)`, `io.ReadFull` calls `Read`
          again): ANY sequence of reads under the deadline `D` - any number of empty polls, of
          any durations ≤ δ - started at `t` ends by `max t D + δ`; with polls that last at
          least `δmin` their number is bounded;
        * the RTU exchange on the wrapper ends by
            `t0 + T + rtuMarginSerial rate w post ε δ wmax`,
            `rtuMarginSerial = [w + ε if w > 0] + wmax + (post + ε) + (256·t1 + ε) + 500000 + 2·δ`
          (unchanged by fix c501b6a: `wmax` was already part of it).
  X2. CONCRETE MARGIN. `w`, `post` are no longer free: from the Go expressions
        `w = (lastActivity + t3.5) ∸ now ≤ t3.5`   (lastActivity is never in the future of the
                                                   next call: Timing.lean, `C19.exchange_record`)
        `post = (ts + n·t1 + t3.5) ∸ now₂ ≤ n·t1 + t3.5`
      so the call ends by `t0 + T + marginRtu rate n ε + dWrite`,
        `marginRtu rate n ε = (n + 256)·t1(rate) + 2·t3.5(rate) + 500000 + 3·ε`
      (`n` = length of the request frame ≤ 256; the previous frame's length does not enter), and
      by `t0 + T + marginRtu rate n ε` itself when `Write` is not slower than the emulated
      transmission (`dWrite ≤ n·t1 + t3.5`: the time `Write` takes comes off the second sleep);
      on the serial wrapper `marginRtuSerial = marginRtu + wmax + 2·δ`.
  X3. CLOCKED OUTCOMES. Read outcomes are coupled to the clock (`outcomeOk`, `clockedResult`): a
      `Read` that starts after the deadline fails with the timeout error whatever is buffered.
      FINDING F9 (code BEFORE fix c501b6a; `rtuPreTraceOld`, `rtuTraceOld`): the only deadline
      `now + timeout` was armed BEFORE the pre-send wait and the post-send sleep `n·t1 + t3.5`.
      If `T < w + post` the first `Read` started after the deadline and a valid reply already in
      the receive buffer was turned into ErrRequestTimedOut (`C07X_rtu_late_read_is_timeout`,
      concrete instance `C07X_rtu_early_reply_timeout_counterexample`: 1200 bps, 8-byte request,
      T = 100 ms). These theorems are kept, about the old trace, as the regression witness.
      REPAIRED CODE (`rtuPreTrace`, `rtuTrace`): the deadline is armed again when the sleep is
      over, so the first `Read` starts exactly `T` before its deadline, and a valid reply in
      the receive buffer by then is returned - no side condition on `T` versus `w + post`
      (`C07X_no_spurious_timeout_rtu_clocked`, `…_serial`; the old counterexample scenario now
      succeeds: `C07X_rtu_early_reply_fixed`). What remains under the FIRST deadline is the
      `Write`: if `[w + ε] ≤ T` it is called before `t0 + T` (`C07X_rtu_write_under_first_deadline`);
      a net.Conn `Write` called after it fails with a timeout and `ExecuteRequest` returns that
      error without reading (not a trace of this model: traces have successful writes; with
      `w ≤ t3.5` this needs a timeout below t3.5 + ε). For MBAP nothing changed
      (`C07X_no_spurious_timeout_mbap_clocked`).

  Outside the theorems (assumptions): A-sleep as before; for sockets A-deadline as before; for
  the serial wrapper: `port.Read` returns within δ, `port.Write` within wmax; local computation
  takes no time. Only statements live here; the proofs are in `Lemmas/IoExtLemmas.lean`.
-/
namespace Modbus.Props.C07
open Modbus Modbus.Io Modbus.Client Modbus.Spec

/-! ## X1. disciplines -/

/-- slack 0 is A-deadline, and `runWith` on it is `runClock` -/
theorem C07X_slack_zero_is_A_deadline (ε : Nat) :
    (∀ c op d, durOkδ ε 0 c op d ↔ durOk ε c op d) ∧
    (∀ c durs, runWith (durOk ε) c durs = runClock ε c durs) :=
  ⟨durOkδ_zero ε, runWith_durOk ε⟩

/-- more slack is a weaker assumption -/
theorem C07X_slack_mono {ε δ δ' : Nat} (h : δ ≤ δ') (c : Clock) (op : Io.Op) (d : Nat)
    (hd : durOkδ ε δ c op d) : durOkδ ε δ' c op d :=
  durOkδ_mono h hd

/-- one `Read` on the serial wrapper: entered not after the deadline it lasts at most `δ`
    (wherever the deadline is), entered after it it returns at once - and is not a `read` -/
theorem C07X_serial_read_step (ε δ wmax t D d : Nat) (op : Io.Op) (hr : op.isRead = true)
    (hd : okSerial ε δ wmax ⟨t, some D⟩ op d) :
    (t ≤ D → d ≤ δ) ∧ (D < t → d = 0 ∧ ∃ n, op = .readEnd n) := by
  obtain ⟨h1, h2⟩ := hd
  cases op <;> first | cases hr | skip
  all_goals
    simp only [durOkSerial] at h1
    simp only [outcomeOk] at h2
    refine ⟨fun h => by rw [if_pos h] at h1; exact h1, fun h => ?_⟩
    rw [if_neg (by omega)] at h1
    first
      | exact ⟨h1, _, rfl⟩
      | omega

/-- the wrapper's reads obey the deadline with slack `δ` ... -/
theorem C07X_serial_reads_have_slack (ε δ wmax : Nat) (c : Clock) (op : Io.Op) (d : Nat)
    (hr : op.isRead = true) (hd : durOkSerial ε δ wmax c op d) : durOkδ ε δ c op d :=
  durOkSerial_read_slack hr hd

/-- ... but not A-deadline: a poll entered 5 ms before the deadline may return 5 ms after it
    (δ = 10 ms), and a `Write` is not bounded by the deadline at all -/
theorem C07X_A_deadline_false_for_serial :
    durOkSerial 0 10000000 1000000 ⟨95000000, some 100000000⟩ (.read 3 0) 10000000 ∧
    ¬ durOk 0 ⟨95000000, some 100000000⟩ (.read 3 0) 10000000 ∧
    durOkSerial 0 10000000 1000000 ⟨100000001, some 100000000⟩ (.write 8) 1000000 ∧
    ¬ durOk 0 ⟨100000001, some 100000000⟩ (.write 8) 1000000 := by decide

/-- ANY sequence of `Read` calls on the serial wrapper under the deadline `D` - any number of
    empty polls, any durations (each ≤ δ, by `durOkSerial`) - that starts at `t` ends by
    `max t D + δ` (precisely: by `D + δ`, or at `t` if `t > D + δ`) -/
theorem C07X_elapsed_serial_reads (ε δ wmax t D : Nat) (ops : List Io.Op)
    (hops : ∀ op ∈ ops, op.isRead = true) (durs : List (Io.Op × Nat)) (c' : Clock)
    (hmap : durs.map Prod.fst = ops)
    (hrun : runWith (durOkSerial ε δ wmax) ⟨t, some D⟩ durs = some c') :
    c'.now ≤ max t D + δ ∧ c'.now ≤ max t (D + δ) ∧ c'.deadline = some D := by
  obtain ⟨h1, h2, _⟩ := run_slack (P := Io.Op.isRead) (fun _ => isIO_of_isRead) (slack_serial ε δ wmax)
    hops hmap rfl hrun
  simp only at h2
  exact ⟨by omega, h2, h1⟩

/-- `io.ReadFull` on the wrapper: `polls` empty polls, then data or the timeout error; reads
    only; the polls take nothing off the stream -/
theorem C07X_serial_readfull_trace (n avail polls : Nat) (hn : 0 < n) :
    rfTraceSerial n avail polls = List.replicate polls (.read n 0) ++ rfTrace n avail ∧
    (∀ op ∈ rfTraceSerial n avail polls, op.isRead = true) ∧
    gotSum (rfTraceSerial n avail polls) = min n avail ∧
    rfTraceSerial n avail 0 = rfTrace n avail :=
  ⟨rfTraceSerial_shape n avail polls hn, rfTraceSerial_isRead n avail polls,
   by rw [gotSum_rfTraceSerial, gotSum_rfTrace], rfTraceSerial_zero n avail⟩

/-- the `ReadFull` loop started at `t` under `D` ends by `max t D + δ`, whatever the number of
    empty polls -/
theorem C07X_elapsed_serial_readfull (ε δ wmax t D n avail polls : Nat)
    (durs : List (Io.Op × Nat)) (c' : Clock)
    (hmap : durs.map Prod.fst = rfTraceSerial n avail polls)
    (hrun : runWith (durOkSerial ε δ wmax) ⟨t, some D⟩ durs = some c') :
    c'.now ≤ max t D + δ :=
  (C07X_elapsed_serial_reads ε δ wmax t D _ (rfTraceSerial_isRead n avail polls) durs c' hmap hrun).1

/-- the loop cannot spin: every empty poll is entered not after `D` (a later call fails
    instead), so `k` polls that each last at least `δmin` satisfy `t + k·δmin ≤ D + δmin` -/
theorem C07X_serial_polls_bounded (ε δ wmax δmin t D : Nat) (durs : List (Io.Op × Nat)) (c' : Clock)
    (hne : durs ≠ []) (hall : ∀ p ∈ durs, p.1.isPoll = true ∧ δmin ≤ p.2)
    (hrun : runWith (okSerial ε δ wmax) ⟨t, some D⟩ durs = some c') :
    t + durs.length * δmin ≤ D + δmin :=
  polls_bounded (fun _ _ _ h => h.2) hne hall hrun

/-- MBAP with slack: ANY reads and writes after the single `SetDeadline` end by `t0 + T + δ` -/
theorem C07X_elapsed_any_reads_slack (ε δ T t0 : Nat) (dl0 : Option Nat) (ops : List Io.Op)
    (hio : ∀ op ∈ ops, op.isIO = true) (durs : List (Io.Op × Nat)) (c' : Clock)
    (hmap : durs.map Prod.fst = .setDeadline T :: ops)
    (hrun : runWith (durOkδ ε δ) ⟨t0, dl0⟩ durs = some c') :
    c'.now ≤ t0 + T + δ :=
  (elapsed_single_deadlineW (P := Io.Op.isIO) (fun _ h => h) (sdOk_durOkδ ε δ) (slack_durOkδ ε δ)
    hio hmap hrun).1

/-! ## X1'. the RTU exchange on the serial wrapper -/

/-- the trace with polls is the skeleton of every RTU exchange; without polls it is `rtuTrace`;
    polls take nothing off the stream -/
theorem C07X_rtuTraceSerial_shape (T rate L w post : Nat) (s : Bytes) (e : Ending) (p1 p2 p3 : Nat) :
    rtuTraceSerial T rate L w post s e 0 0 0 = rtuTrace T rate L w post s e ∧
    gotSum (rtuTraceSerial T rate L w post s e p1 p2 p3) = gotSum (rtuTrace T rate L w post s e) ∧
    (∀ op ∈ rtuReadOpsSerial s p1 p2, op.isRead = true) :=
  ⟨rtuTraceSerial_zero .., gotSum_rtuTraceSerial .., rtuReadOpsSerial_isRead s p1 p2⟩

/-- for every stream, ending, numbers of empty polls and assignment of durations allowed by the
    wrapper: the exchange ends no later than
    `t0 + [w + ε] + wmax + (post + ε) + (T + δ) + [256·t1 + ε + 500000 + δ on resync]` -/
theorem C07X_elapsed_rtu_serial_sharp (ε δ wmax T rate L w post t0 : Nat) (dl0 : Option Nat)
    (s : Bytes) (e : Ending) (p1 p2 p3 : Nat) (durs : List (Io.Op × Nat)) (c' : Clock)
    (hmap : durs.map Prod.fst = rtuTraceSerial T rate L w post s e p1 p2 p3)
    (hrun : runWith (durOkSerial ε δ wmax) ⟨t0, dl0⟩ durs = some c') :
    c'.now ≤ t0 + (if w > 0 then w + ε else 0) + wmax + (post + ε) + (T + δ) +
      (if needsResync (Rtu.readFrame s e) then 256 * Timing.t1 rate + ε + 500000 + δ else 0) := by
  have h := elapsed_skeleton (sleepOk_serial ε δ wmax) (sdOk_serial ε δ wmax) (slack_serial ε δ wmax)
    (writeLe_serial ε δ wmax) (rtuReadOpsSerial_isRead s p1 p2)
    (rtuTraceSerial_flush_isRead s e p3) hmap hrun
  cases hn : needsResync (Rtu.readFrame s e) <;> simpa [hn, Timing.maxRTUFrameLength] using h

/-- ... hence no later than `t0 + T + rtuMarginSerial rate w post ε δ wmax`,
    `rtuMarginSerial = rtuMargin rate w post ε + wmax + 2·δ` -/
theorem C07X_elapsed_rtu_serial (ε δ wmax T rate L w post t0 : Nat) (dl0 : Option Nat)
    (s : Bytes) (e : Ending) (p1 p2 p3 : Nat) (durs : List (Io.Op × Nat)) (c' : Clock)
    (hmap : durs.map Prod.fst = rtuTraceSerial T rate L w post s e p1 p2 p3)
    (hrun : runWith (durOkSerial ε δ wmax) ⟨t0, dl0⟩ durs = some c') :
    c'.now ≤ t0 + T + rtuMarginSerial rate w post ε δ wmax :=
  Nat.le_trans
    (elapsed_skeleton (sleepOk_serial ε δ wmax) (sdOk_serial ε δ wmax) (slack_serial ε δ wmax)
      (writeLe_serial ε δ wmax) (rtuReadOpsSerial_isRead s p1 p2)
      (rtuTraceSerial_flush_isRead s e p3) hmap hrun)
    (elapsed_skeleton_le _)

/-- the same for ANY `Read` calls in the two read phases (any segmentation of the stream, empty
    polls anywhere) -/
theorem C07X_elapsed_rtu_serial_any_reads (ε δ wmax T rate L w post t0 : Nat) (dl0 : Option Nat)
    (reads : List Io.Op) (flush : Option (List Io.Op))
    (hreads : ∀ op ∈ reads, op.isRead = true)
    (hflush : ∀ f, flush = some f → ∀ op ∈ f, op.isRead = true)
    (durs : List (Io.Op × Nat)) (c' : Clock)
    (hmap : durs.map Prod.fst = rtuSkeleton T rate L w post reads flush)
    (hrun : runWith (durOkSerial ε δ wmax) ⟨t0, dl0⟩ durs = some c') :
    c'.now ≤ t0 + T + rtuMarginSerial rate w post ε δ wmax :=
  Nat.le_trans
    (elapsed_skeleton (sleepOk_serial ε δ wmax) (sdOk_serial ε δ wmax) (slack_serial ε δ wmax)
      (writeLe_serial ε δ wmax) hreads hflush hmap hrun)
    (elapsed_skeleton_le _)

theorem C07X_rtuMarginSerial_eq (rate w post ε δ wmax : Nat) :
    rtuMarginSerial rate w post ε δ wmax =
      (if w > 0 then w + ε else 0) + wmax + (post + ε) + (256 * Timing.t1 rate + ε) + 500000 + 2 * δ := by
  unfold rtuMarginSerial rtuMargin Timing.maxRTUFrameLength
  omega

/-! ## X2. the concrete margin -/

/-- the first sleep: `lastActivity` not in the future ⇒ its argument is at most t3.5 -/
theorem C07X_wait_bound (rate lastActivity now : Nat) (h : lastActivity ≤ now) :
    waitOf rate lastActivity now ≤ Timing.t35 rate :=
  waitOf_le h

/-- ... and along every physically possible history of calls on one transport (Timing.lean:
    arbitrary delays, outcomes - the timeout sentinel, which leaves the ESTIMATE `ts + n·t1`
    recorded, included) `lastActivity` is not in the future when the next call starts: the
    second sleep of the previous call lasted until `ts + n·t1 + t3.5` at least -/
theorem C07X_wait_bound_history (rate la pf : Nat) (evs : List Timing.Events) (hla : la ≤ pf)
    (hw : Timing.wellTimed rate la pf evs) (i : Nat)
    (h : i < (Timing.history rate la evs).length) (h' : i < evs.length) :
    ((Timing.history rate la evs)[i]).1 ≤ evs[i].now ∧
    waitOf rate ((Timing.history rate la evs)[i]).1 evs[i].now ≤ Timing.t35 rate ∧
    Timing.txStart evs[i].now ((Timing.history rate la evs)[i]).1 rate =
      evs[i].now + waitOf rate ((Timing.history rate la evs)[i]).1 evs[i].now := by
  have := history_la_le_now rate evs la pf hla hw i h h'
  exact ⟨this, waitOf_le this, txStart_eq_waitOf ..⟩

/-- the second sleep: at most `n·t1 + t3.5`; the time `Write` took comes off it -/
theorem C07X_post_bound (rate n ts now2 dWr : Nat) (h : ts ≤ now2) :
    postOf rate n ts now2 ≤ n * Timing.t1 rate + Timing.t35 rate ∧
    dWr + postOf rate n ts (ts + dWr) = max dWr (n * Timing.t1 rate + Timing.t35 rate) :=
  ⟨postOf_le h, write_add_postOf rate n ts dWr⟩

/-- `postOf` is the second sleep of Timing.lean -/
theorem C07X_readStart_is_postOf (rate la : Nat) (ev : Timing.Events) (hw : ev.writeErr = false) :
    (Timing.exchangeTimes rate la ev).readStart =
      (Timing.exchangeTimes rate la ev).ts + ev.writeDur +
        postOf rate ev.n (Timing.exchangeTimes rate la ev).ts
          ((Timing.exchangeTimes rate la ev).ts + ev.writeDur) + ev.lag2 :=
  readStart_eq_postOf rate la ev hw

/-- sockets (rtuovertcp, rtuoverudp): with the two sleeps bounded as the code computes them and
    a `Write` that lasted at most `wmax`, the call ends by `t0 + T + marginRtu rate n ε + wmax`,
    `marginRtu rate n ε = (n + 256)·t1 + 2·t3.5 + 500000 + 3·ε` - a function of the baud rate
    and the length `n` of the request frame only -/
theorem C07X_rtu_margin_concrete (ε T rate n w post t0 wmax : Nat) (dl0 : Option Nat) (s : Bytes)
    (e : Ending) (durs : List (Io.Op × Nat)) (c' : Clock)
    (hw : w ≤ Timing.t35 rate) (hpost : post ≤ n * Timing.t1 rate + Timing.t35 rate)
    (hmap : durs.map Prod.fst = rtuTrace T rate n w post s e)
    (hrun : runClock ε { now := t0, deadline := dl0 } durs = some c')
    (hwr : ∀ d, (Io.Op.write n, d) ∈ durs → d ≤ wmax) :
    c'.now ≤ t0 + T + marginRtu rate n ε + wmax := by
  have := C07_elapsed_rtu_wmax ε T rate n w post t0 wmax dl0 s e durs c' hmap hrun hwr
  have := rtuMargin_le_marginRtu (ε := ε) hw hpost
  omega

/-- `marginRtu` itself remains a bound when the time `Write` takes comes off the second sleep
    as in the code (`post = postOf …(ts + d)`, so `d + post = max d (n·t1 + t3.5)`) and `Write`
    is not slower than the emulated transmission: `d + post ≤ n·t1 + t3.5` -/
theorem C07X_rtu_margin_concrete_coupled (ε T rate n w post t0 : Nat) (dl0 : Option Nat) (s : Bytes)
    (e : Ending) (durs : List (Io.Op × Nat)) (c' : Clock)
    (hw : w ≤ Timing.t35 rate)
    (hmap : durs.map Prod.fst = rtuTrace T rate n w post s e)
    (hrun : runClock ε { now := t0, deadline := dl0 } durs = some c')
    (hwr : ∀ d, (Io.Op.write n, d) ∈ durs → d + post ≤ n * Timing.t1 rate + Timing.t35 rate) :
    c'.now ≤ t0 + T + marginRtu rate n ε := by
  obtain ⟨_, dWr, h1, _, _, _, h5⟩ := C07_elapsed_rtu ε T rate n w post t0 dl0 s e durs c' hmap hrun
  have := hwr dWr h1
  unfold rtuMargin Timing.maxRTUFrameLength at h5
  unfold marginRtu
  rw [Nat.add_mul]
  split at h5 <;> omega

/-- the serial wrapper: `t0 + T + marginRtuSerial rate n ε δ wmax`,
    `marginRtuSerial = marginRtu + wmax + 2·δ` -/
theorem C07X_rtu_margin_concrete_serial (ε δ wmax T rate n w post t0 : Nat) (dl0 : Option Nat)
    (s : Bytes) (e : Ending) (p1 p2 p3 : Nat) (durs : List (Io.Op × Nat)) (c' : Clock)
    (hw : w ≤ Timing.t35 rate) (hpost : post ≤ n * Timing.t1 rate + Timing.t35 rate)
    (hmap : durs.map Prod.fst = rtuTraceSerial T rate n w post s e p1 p2 p3)
    (hrun : runWith (durOkSerial ε δ wmax) ⟨t0, dl0⟩ durs = some c') :
    c'.now ≤ t0 + T + marginRtuSerial rate n ε δ wmax := by
  have := C07X_elapsed_rtu_serial ε δ wmax T rate n w post t0 dl0 s e p1 p2 p3 durs c' hmap hrun
  have := rtuMargin_le_marginRtu (ε := ε) hw hpost
  unfold rtuMarginSerial at *
  unfold marginRtuSerial
  omega

/-- the same with the two sleeps spelled out as the Go code computes them: `la` = `rt.lastActivity`
    (not in the future), `ts` = the clock reading in front of `Write`; the second sleep is
    computed from the clock reading behind `Write`; `Write` not slower than `n·t1 + t3.5` -/
theorem C07X_rtu_margin_code (ε T rate n la ts post t0 : Nat) (dl0 : Option Nat) (s : Bytes)
    (e : Ending) (durs : List (Io.Op × Nat)) (c' : Clock) (hla : la ≤ t0)
    (hmap : durs.map Prod.fst = rtuTrace T rate n (waitOf rate la t0) post s e)
    (hrun : runClock ε { now := t0, deadline := dl0 } durs = some c')
    (hcode : ∀ d, (Io.Op.write n, d) ∈ durs → post = postOf rate n ts (ts + d))
    (hfast : ∀ d, (Io.Op.write n, d) ∈ durs → d ≤ n * Timing.t1 rate + Timing.t35 rate) :
    c'.now ≤ t0 + T + marginRtu rate n ε := by
  refine C07X_rtu_margin_concrete_coupled ε T rate n _ post t0 dl0 s e durs c' (waitOf_le hla)
    hmap hrun ?_
  intro d hd
  have h1 := hcode d hd
  have h2 := hfast d hd
  have h3 := write_add_postOf rate n ts d
  omega

/-- values (ns), 8-byte request, no oversleep: 155.2 ms at 19200 bps, 29.2 ms at 115200 bps,
    2.53 s at 1200 bps; longest request (256 bytes): 297.3 ms at 19200 bps;
    serial wrapper with δ = 10 ms, wmax = 1 ms: 21 ms more -/
theorem C07X_marginRtu_values :
    marginRtu 19200 8 0 = 155249824 ∧ marginRtu 115200 8 0 = 29208304 ∧
    marginRtu 1200 8 0 = 2484666486 ∧ marginRtu 19200 256 0 = 297332992 ∧
    marginRtuSerial 19200 8 0 10000000 1000000 = 176249824 ∧
    marginRtuSerial 115200 8 0 10000000 1000000 = 50208304 := by decide

/-! ## X3. outcomes coupled to the clock -/

/-- F9, CODE BEFORE FIX c501b6a (`rtuTraceOld`), trace level: when the two sleeps alone outlast
    the timeout, NO run of the RTU exchange in which late reads fail (`okSock`) contains a `Read`
    that returned data: the only stream the exchange can have seen is the empty one -/
theorem C07X_late_read_sees_nothing (ε T rate L w post t0 : Nat) (dl0 : Option Nat) (s : Bytes)
    (e : Ending) (durs : List (Io.Op × Nat)) (c' : Clock)
    (hmap : durs.map Prod.fst = rtuTraceOld T rate L w post s e)
    (hrun : runWith (okSock ε) ⟨t0, dl0⟩ durs = some c') (hT : T < w + post) : s = [] :=
  late_read_sees_nothing (SleepOk.mono (fun _ _ _ h => h.1) (sleepOk_durOk ε))
    (SdOk.mono (fun _ _ _ h => h.1) (sdOk_durOk ε)) (fun _ _ _ h => h.2)
    hmap hrun hT

/-- F9, code before the fix: the same on the serial wrapper (the trace without polls) -/
theorem C07X_late_read_sees_nothing_serial (ε δ wmax T rate L w post t0 : Nat) (dl0 : Option Nat)
    (s : Bytes) (e : Ending) (durs : List (Io.Op × Nat)) (c' : Clock)
    (hmap : durs.map Prod.fst = rtuTraceOld T rate L w post s e)
    (hrun : runWith (okSerial ε δ wmax) ⟨t0, dl0⟩ durs = some c') (hT : T < w + post) : s = [] :=
  late_read_sees_nothing (SleepOk.mono (fun _ _ _ h => h.1) (sleepOk_serial ε δ wmax))
    (SdOk.mono (fun _ _ _ h => h.1) (sdOk_serial ε δ wmax)) (fun _ _ _ h => h.2)
    hmap hrun hT

/-- FINDING F9 (RTU kinds, sockets), CODE BEFORE FIX c501b6a (`rtuPreTraceOld`). `T < w + post`:
    in every run of the part of `ExecuteRequest` in front of the first `Read` the deadline armed
    at `t0` has passed when that `Read` starts, and the public call reports ErrRequestTimedOut -
    whatever has arrived, whenever -/
theorem C07X_rtu_late_read_is_timeout {cfg : Cfg} {op : Client.Op} {c : Core} {fc : Byte}
    {payload : Bytes} (hcore : op.core cfg = some c) (hreq : c.request = .ok (fc, payload))
    (st : TState) (ε T L w postNs t0 : Nat) (dl0 : Option Nat) (durs : List (Io.Op × Nat))
    (c4 : Clock) (hmap : durs.map Prod.fst = rtuPreTraceOld T L w postNs)
    (hrun : runClock ε ⟨t0, dl0⟩ durs = some c4) (hT : T < w + postNs)
    (availAt : Nat) (arrivals : Bytes) (e : Ending) :
    c4.deadline = some (t0 + T) ∧ t0 + T < c4.now ∧
    clockedResult op cfg st c4 availAt arrivals e = some (.error .requestTimedOut) := by
  rw [← runWith_durOk] at hrun
  obtain ⟨h1, h2⟩ := rtuPreOld_run_ge (sleepOk_durOk ε) (sdOk_durOk ε) hmap hrun
  exact ⟨h1, by omega, clockedResult_late hcore hreq h1 (by omega) availAt arrivals e⟩

/-- F9, code before the fix: the same on the serial wrapper -/
theorem C07X_rtu_late_read_is_timeout_serial {cfg : Cfg} {op : Client.Op} {c : Core} {fc : Byte}
    {payload : Bytes} (hcore : op.core cfg = some c) (hreq : c.request = .ok (fc, payload))
    (st : TState) (ε δ wmax T L w postNs t0 : Nat) (dl0 : Option Nat) (durs : List (Io.Op × Nat))
    (c4 : Clock) (hmap : durs.map Prod.fst = rtuPreTraceOld T L w postNs)
    (hrun : runWith (durOkSerial ε δ wmax) ⟨t0, dl0⟩ durs = some c4) (hT : T < w + postNs)
    (availAt : Nat) (arrivals : Bytes) (e : Ending) :
    c4.deadline = some (t0 + T) ∧ t0 + T < c4.now ∧
    clockedResult op cfg st c4 availAt arrivals e = some (.error .requestTimedOut) := by
  obtain ⟨h1, h2⟩ := rtuPreOld_run_ge (sleepOk_serial ε δ wmax) (sdOk_serial ε δ wmax) hmap hrun
  exact ⟨h1, by omega, clockedResult_late hcore hreq h1 (by omega) availAt arrivals e⟩

/-- F9, code before the fix, for which configurations: a timeout below
    `minTimeoutRtu rate n = n·t1 + t3.5` (the second sleep when `Write` returns at once) made
    EVERY call with an `n`-byte request fail with ErrRequestTimedOut, however fast the peer
    answered -/
theorem C07X_rtu_timeout_below_min_always_fails {cfg : Cfg} {op : Client.Op} {c : Core} {fc : Byte}
    {payload : Bytes} (hcore : op.core cfg = some c) (hreq : c.request = .ok (fc, payload))
    (st : TState) (ε T rate n w ts t0 : Nat) (dl0 : Option Nat) (durs : List (Io.Op × Nat))
    (c4 : Clock) (hmap : durs.map Prod.fst = rtuPreTraceOld T n w (postOf rate n ts ts))
    (hrun : runClock ε ⟨t0, dl0⟩ durs = some c4) (hT : T < minTimeoutRtu rate n)
    (availAt : Nat) (arrivals : Bytes) (e : Ending) :
    clockedResult op cfg st c4 availAt arrivals e = some (.error .requestTimedOut) :=
  (C07X_rtu_late_read_is_timeout hcore hreq st ε T n w _ t0 dl0 durs c4 hmap hrun
    (by rw [postOf_self]; omega) availAt arrivals e).2.2

/-- ... and a timeout of at least `minTimeoutRtu rate n + t3.5 + wmax + 2·ε` satisfied the side
    condition of `C07X_no_spurious_timeout_rtu_clocked_old` for the sleeps the code computes -/
theorem C07X_rtu_sufficient_timeout (rate n w post ε wmax T : Nat) (hw : w ≤ Timing.t35 rate)
    (hpost : post ≤ n * Timing.t1 rate + Timing.t35 rate)
    (hT : minTimeoutRtu rate n + Timing.t35 rate + wmax + 2 * ε ≤ T) :
    (if w > 0 then w + ε else 0) + wmax + post + ε ≤ T := by
  unfold minTimeoutRtu at hT
  split <;> omega

/-- `minTimeoutRtu` (ns): 8-byte request 6.3 ms at 19200 bps and 105.4 ms at 1200 bps; longest
    request (255 bytes) 147.8 ms at 19200 bps (defaults: 300 ms for rtu://, 1 s for
    rtuovertcp:// and rtuoverudp://), 296.2 ms at 9600 bps, 592.4 ms at 4800 bps (above the
    rtu:// default), 1.18 s at 2400 bps (above both defaults) -/
theorem C07X_minTimeoutRtu_values :
    minTimeoutRtu 19200 8 = 6333328 ∧ minTimeoutRtu 1200 8 = 105416659 ∧
    minTimeoutRtu 19200 255 = 147843580 ∧ minTimeoutRtu 9600 255 = 296197830 ∧
    minTimeoutRtu 4800 255 = 592395661 ∧ minTimeoutRtu 2400 255 = 1184791580 ∧
    minTimeoutRtu 115200 255 = 26098930 := by decide

/-- F9, CODE BEFORE FIX c501b6a: COUNTEREXAMPLE to "a valid reply that arrives before the timeout
    is never turned into a timeout" in the clocked model (regression witness). rtuovertcp, 1200 bps, ReadRegister (8-byte request),
    T = 100 ms, `Write` returns at once, so the second sleep is `8·t1 + t3.5` = 105.4 ms.
    The valid reply `01 03 02 00 0a 38 43` is in the receive buffer from time 0 on. Without the
    clock the call returns [10]; on the clock it returns ErrRequestTimedOut in EVERY run. -/
theorem C07X_rtu_early_reply_timeout_counterexample :
    let cfg : Cfg := { kind := .rtuOverTcp, unitId := 1, endian := .big, word := .highFirst }
    let op : Client.Op := .readRegister 0 0
    let reply : Bytes := Rtu.assemble { unit := 1, fc := 0x03, payload := [2, 0x00, 0x0a] }
    let st : TState := { lastTxn := 0, pending := [] }
    postOf 1200 8 0 0 = 105416659 ∧
    PositiveReply cfg op { unit := 1, fc := 0x03, payload := [2, 0x00, 0x0a] } ∧
    (op.run cfg st reply .timeout).result = some (.ok (.u16s [10])) ∧
    ∀ (ε t0 : Nat) (dl0 : Option Nat) (durs : List (Io.Op × Nat)) (c4 : Clock),
      durs.map Prod.fst = rtuPreTraceOld 100000000 8 0 105416659 →
      runClock ε ⟨t0, dl0⟩ durs = some c4 →
      c4.deadline = some (t0 + 100000000) ∧ t0 + 100000000 < c4.now ∧
      clockedResult op cfg st c4 0 reply .timeout = some (.error .requestTimedOut) := by
  refine ⟨by decide, by decide, by decide +kernel, ?_⟩
  intro ε t0 dl0 durs c4 hmap hrun
  exact C07X_rtu_late_read_is_timeout (c := .readRegs 0 1 0) (fc := 0x03)
    (payload := be16 0 ++ be16 (u16OfNat 1)) rfl (by decide) _ ε _ 8 0 _ t0 dl0 durs c4 hmap hrun
    (by decide) 0 _ .timeout

/-- code before fix c501b6a, RTU kinds on sockets, positive: if the timeout covered the two
    sleeps, their oversleeps and the time `Write` takes (`wmax`), the first `Read` started
    before the deadline, and a valid reply in the receive buffer by the deadline was returned -/
theorem C07X_no_spurious_timeout_rtu_clocked_old {cfg : Cfg} {op : Client.Op} {c : Core} {fc : Byte}
    {payload : Bytes} (he : cfg.endian ≠ .invalid) (hwo : cfg.word ≠ .invalid)
    (hk : cfg.kind.isRtu = true)
    (hcore : op.core cfg = some c) (hreq : c.request = .ok (fc, payload))
    {st : TState} {arrivals post : Bytes} {res : Pdu} (e : Ending)
    (hpos : PositiveReply cfg op res)
    (hs : st.pending ++ arrivals = Rtu.assemble res ++ post)
    (ε wmax T L w postNs t0 availAt : Nat) (dl0 : Option Nat) (durs : List (Io.Op × Nat))
    (c4 : Clock) (hmap : durs.map Prod.fst = rtuPreTraceOld T L w postNs)
    (hrun : runWith (okSockW ε wmax) ⟨t0, dl0⟩ durs = some c4)
    (hT : (if w > 0 then w + ε else 0) + wmax + postNs + ε ≤ T)
    (hav : availAt ≤ t0 + T) :
    c4.now ≤ t0 + T ∧
    clockedResult op cfg st c4 availAt arrivals e = some (.ok (decodeReply cfg op res)) := by
  obtain ⟨h1, _, h3⟩ := rtuPreOld_run_le (wmax := wmax)
    (SleepOk.mono (fun _ _ _ h => h.1) (sleepOk_durOk ε))
    (SdOk.mono (fun _ _ _ h => h.1) (sdOk_durOk ε)) (fun _ _ _ h => h.2) hmap hrun
  refine ⟨by omega, ?_⟩
  rw [clockedResult_intime h1 (by omega) hav]
  exact (C07_no_spurious_timeout_rtu he hwo hk hcore hreq e hpos hs).1

/-- REPAIRED CODE, RTU kinds on sockets, UNCONDITIONAL: in every run (A-deadline, A-sleep; no
    bound on `Write`, no condition on `T` versus `w + post`) the first `Read` starts with the
    deadline exactly `T` away, and a valid reply that is in the receive buffer no later than `T`
    after the first `Read` started - in particular one that is already there - is returned -/
theorem C07X_no_spurious_timeout_rtu_clocked {cfg : Cfg} {op : Client.Op} {c : Core} {fc : Byte}
    {payload : Bytes} (he : cfg.endian ≠ .invalid) (hwo : cfg.word ≠ .invalid)
    (hk : cfg.kind.isRtu = true)
    (hcore : op.core cfg = some c) (hreq : c.request = .ok (fc, payload))
    {st : TState} {arrivals post : Bytes} {res : Pdu} (e : Ending)
    (hpos : PositiveReply cfg op res)
    (hs : st.pending ++ arrivals = Rtu.assemble res ++ post)
    (ε T L w postNs t0 availAt : Nat) (dl0 : Option Nat) (durs : List (Io.Op × Nat))
    (c4 : Clock) (hmap : durs.map Prod.fst = rtuPreTrace T L w postNs)
    (hrun : runClock ε ⟨t0, dl0⟩ durs = some c4)
    (hav : availAt ≤ c4.now + T) :
    c4.deadline = some (c4.now + T) ∧
    clockedResult op cfg st c4 availAt arrivals e = some (.ok (decodeReply cfg op res)) := by
  rw [← runWith_durOk] at hrun
  obtain ⟨h1, _⟩ := rtuPre_run_fresh (sleepOk_durOk ε) (sdOk_durOk ε) hmap hrun
  refine ⟨h1, ?_⟩
  rw [clockedResult_intime h1 (Nat.le_add_right _ _) hav]
  exact (C07_no_spurious_timeout_rtu he hwo hk hcore hreq e hpos hs).1

/-- repaired code, the same on the serial wrapper -/
theorem C07X_no_spurious_timeout_rtu_clocked_serial {cfg : Cfg} {op : Client.Op} {c : Core}
    {fc : Byte} {payload : Bytes} (he : cfg.endian ≠ .invalid) (hwo : cfg.word ≠ .invalid)
    (hk : cfg.kind.isRtu = true)
    (hcore : op.core cfg = some c) (hreq : c.request = .ok (fc, payload))
    {st : TState} {arrivals post : Bytes} {res : Pdu} (e : Ending)
    (hpos : PositiveReply cfg op res)
    (hs : st.pending ++ arrivals = Rtu.assemble res ++ post)
    (ε δ wmax T L w postNs t0 availAt : Nat) (dl0 : Option Nat) (durs : List (Io.Op × Nat))
    (c4 : Clock) (hmap : durs.map Prod.fst = rtuPreTrace T L w postNs)
    (hrun : runWith (durOkSerial ε δ wmax) ⟨t0, dl0⟩ durs = some c4)
    (hav : availAt ≤ c4.now + T) :
    c4.deadline = some (c4.now + T) ∧
    clockedResult op cfg st c4 availAt arrivals e = some (.ok (decodeReply cfg op res)) := by
  obtain ⟨h1, _⟩ := rtuPre_run_fresh (sleepOk_serial ε δ wmax) (sdOk_serial ε δ wmax) hmap hrun
  refine ⟨h1, ?_⟩
  rw [clockedResult_intime h1 (Nat.le_add_right _ _) hav]
  exact (C07_no_spurious_timeout_rtu he hwo hk hcore hreq e hpos hs).1

/-- repaired code, trace level: under `okSock` (late reads fail) the trace in which the reply is
    read IS runnable whatever `T`, `w`, `post` are - the first `Read` is never late: when it
    starts the clock reads `tR` and the deadline is `tR + T` -/
theorem C07X_first_read_never_late (ε T L w postNs t0 : Nat) (dl0 : Option Nat)
    (durs : List (Io.Op × Nat)) (c4 : Clock)
    (hmap : durs.map Prod.fst = rtuPreTrace T L w postNs)
    (hrun : runWith (okSock ε) ⟨t0, dl0⟩ durs = some c4) (want got d : Nat)
    (hd : durOk ε c4 (.read want got) d) : okSock ε c4 (.read want got) d := by
  obtain ⟨h1, _⟩ := rtuPre_run_fresh (SleepOk.mono (fun _ _ _ h => h.1) (sleepOk_durOk ε))
    (SdOk.mono (fun _ _ _ h => h.1) (sdOk_durOk ε)) hmap hrun
  refine ⟨hd, ?_⟩
  simp only [outcomeOk, h1]
  omega

/-- repaired code: what is left under the FIRST deadline `t0 + T` is the `Write`. If the wait
    in front of it (with its oversleep) does not outlast `T`, `Write` is called before the first
    deadline and (A-deadline) returns by it. Otherwise - with `w ≤ t3.5` only for a timeout
    below t3.5 + ε - a net.Conn `Write` fails at once with a timeout and `ExecuteRequest`
    returns that error without reading; such executions are not traces of this model. -/
theorem C07X_rtu_write_under_first_deadline (ε T L w postNs t0 : Nat) (dl0 : Option Nat)
    (durs : List (Io.Op × Nat)) (c4 : Clock)
    (hmap : durs.map Prod.fst = rtuPreTrace T L w postNs)
    (hrun : runClock ε ⟨t0, dl0⟩ durs = some c4)
    (hT : (if w > 0 then w + ε else 0) ≤ T) :
    ∃ tW dWr, tW ≤ t0 + T ∧ tW + dWr ≤ t0 + T ∧ c4.now ≤ tW + dWr + postNs + ε := by
  rw [← runWith_durOk] at hrun
  obtain ⟨_, _, c2, dWr, h1, h2, h3, h4⟩ := rtuPre_run_fresh (sleepOk_durOk ε) (sdOk_durOk ε) hmap hrun
  simp only [durOk, h1] at h3
  exact ⟨c2.now, dWr, by omega, by omega, h4⟩

/-- the scenario of `C07X_rtu_early_reply_timeout_counterexample` on the REPAIRED code: 1200 bps,
    8-byte request, T = 100 ms, second sleep 105.4 ms, reply in the buffer from time 0 on: in
    every run the call returns [10] -/
theorem C07X_rtu_early_reply_fixed :
    let cfg : Cfg := { kind := .rtuOverTcp, unitId := 1, endian := .big, word := .highFirst }
    let op : Client.Op := .readRegister 0 0
    let reply : Bytes := Rtu.assemble { unit := 1, fc := 0x03, payload := [2, 0x00, 0x0a] }
    let st : TState := { lastTxn := 0, pending := [] }
    ∀ (ε t0 : Nat) (dl0 : Option Nat) (durs : List (Io.Op × Nat)) (c4 : Clock),
      durs.map Prod.fst = rtuPreTrace 100000000 8 0 105416659 →
      runClock ε ⟨t0, dl0⟩ durs = some c4 →
      t0 + 105416659 ≤ c4.now ∧ c4.deadline = some (c4.now + 100000000) ∧
      clockedResult op cfg st c4 0 reply .timeout = some (.ok (.u16s [10])) := by
  intro cfg op reply st ε t0 dl0 durs c4 hmap hrun
  have hrun' := hrun
  rw [← runWith_durOk] at hrun'
  obtain ⟨h1, h2, _⟩ := rtuPre_run_fresh (sleepOk_durOk ε) (sdOk_durOk ε) hmap hrun'
  have hres : (op.run cfg st reply .timeout).result = some (.ok (.u16s [10])) := by decide +kernel
  refine ⟨by omega, h1, ?_⟩
  rw [clockedResult_intime h1 (Nat.le_add_right _ _) (Nat.zero_le _)]
  exact hres

/-- MBAP kinds: the deadline is armed immediately in front of `Write`, which returns by the
    deadline (A-deadline); so the first `Read` never starts after it, and a valid reply - behind
    any number of skippable frames - that is in the receive buffer before `t0 + T` is returned.
    No side condition. -/
theorem C07X_no_spurious_timeout_mbap_clocked {cfg : Cfg} {op : Client.Op} {c : Core} {fc : Byte}
    {payload : Bytes} (he : cfg.endian ≠ .invalid) (hwo : cfg.word ≠ .invalid)
    (hk : cfg.kind.isRtu = false)
    (hcore : op.core cfg = some c) (hreq : c.request = .ok (fc, payload))
    {st : TState} {arrivals pre post : Bytes} {res : Pdu} (e : Ending)
    (hpre : Mbap.Skippable (st.lastTxn + 1) pre) (hpos : PositiveReply cfg op res)
    (hs : st.pending ++ arrivals = pre ++ Mbap.assemble (st.lastTxn + 1) res ++ post)
    (ε T L t0 availAt : Nat) (dl0 : Option Nat) (durs : List (Io.Op × Nat)) (c2 : Clock)
    (hmap : durs.map Prod.fst = mbapPreTrace T L)
    (hrun : runClock ε ⟨t0, dl0⟩ durs = some c2)
    (hav : availAt ≤ t0 + T) :
    c2.now ≤ t0 + T ∧
    clockedResult op cfg st c2 availAt arrivals e = some (.ok (decodeReply cfg op res)) := by
  rw [← runWith_durOk] at hrun
  obtain ⟨h1, _, h3⟩ := mbapPre_run (sdOk_durOk ε) (slack_durOk ε) hmap hrun
  refine ⟨by omega, ?_⟩
  rw [clockedResult_intime h1 (by omega) hav]
  exact (C07_no_spurious_timeout_mbap he hwo hk hcore hreq e hpre hpos hs).1

/-- the traces of `C07.lean` are these prefixes followed by the reads -/
theorem C07X_trace_prefixes (T rate L w post : Nat) (txn : U16) (s : Bytes) (e : Ending) :
    rtuTrace T rate L w post s e =
      rtuPreTrace T L w post ++ rtuReadOps s ++ rtuTail rate (Rtu.readFrame s e) ∧
    mbapTrace T L txn s = mbapPreTrace T L ++ mbapReads txn s :=
  ⟨rfl, rfl⟩

/-! ## non-vacuity -/

section examples

-- ReadFull on the wrapper, T = 100, δ = 10: eleven empty polls of 10 each; the eleventh is
-- entered AT the deadline and returns 10 after it; the next call fails at once.
-- The bound `max t D + δ` of `C07X_elapsed_serial_reads` is attained.
example : runWith (okSerial 0 10 5) ⟨0, some 100⟩
    ((List.replicate 11 (Io.Op.read 3 0, 10)) ++ [(.readEnd 3, 0)]) = some ⟨110, some 100⟩ := by decide
example : ((List.replicate 11 (Io.Op.read 3 0, 10)) ++ [(Io.Op.readEnd 3, 0)]).map Prod.fst =
    rfTraceSerial 3 0 11 := by decide
-- a twelfth poll (entered at 110 > 100) is impossible: the call returns the timeout error
example : runWith (okSerial 0 10 5) ⟨0, some 100⟩ (List.replicate 12 (Io.Op.read 3 0, 10)) = none := by
  decide
-- the same durations violate A-deadline (`durOk`)
example : runClock 0 ⟨0, some 100⟩
    ((List.replicate 11 (Io.Op.read 3 0, 10)) ++ [(.readEnd 3, 0)]) = none := by decide
-- `C07X_serial_polls_bounded`: 11 polls of at least 10: 0 + 11·10 ≤ 100 + 10
example : runWith (okSerial 0 10 5) ⟨0, some 100⟩ (List.replicate 11 (Io.Op.read 3 0, 10)) =
    some ⟨110, some 100⟩ := by decide

-- the trace with polls
example : rtuTraceSerial 1000000 19200 8 0 5916661 [0x01, 0x03, 0x02, 0x00, 0x0a, 0x38, 0x43] .timeout 2 1 0 =
    [.setDeadline 1000000, .write 8, .sleep 5916661, .setDeadline 1000000,
     .read 3 0, .read 3 0, .read 3 3, .read 4 0, .read 4 4] := by
  decide +kernel

-- RTU on the wrapper, the bounds of `C07X_elapsed_rtu_serial_sharp` and `C07X_elapsed_rtu_serial`
-- are attained (ε = 7, δ = 0.5 ms, wmax = 5, T = 1 ms, post = 20, no initial wait): the read that
-- returns the 2-byte fragment is entered AT the second deadline and returns δ later; the flush
-- polls likewise
example : runWith (okSerial 7 500000 5) ⟨0, none⟩
    [(.setDeadline 1000000, 0), (.write 8, 5), (.sleep 20, 27), (.setDeadline 1000000, 0),
     (.read 3 0, 500000), (.read 3 0, 500000), (.read 3 2, 500000), (.readEnd 1, 0),
     (.sleep 146666496, 146666503), (.setDeadline 500000, 0), (.read 1024 0, 500000),
     (.read 1024 0, 500000), (.readEnd 1024, 0)] =
    some ⟨5 + 27 + (1000000 + 500000) + (146666503 + 500000 + 500000),
      some (32 + 1500000 + 146666503 + 500000)⟩ := by
  decide
example : rtuTraceSerial 1000000 19200 8 0 20 [0x01, 0x03] .timeout 2 0 2 =
    [.setDeadline 1000000, .write 8, .sleep 20, .setDeadline 1000000,
     .read 3 0, .read 3 0, .read 3 2, .readEnd 1,
     .sleep 146666496, .setDeadline 500000, .read 1024 0, .read 1024 0, .readEnd 1024] := by decide
example : 1000000 + rtuMarginSerial 19200 0 20 7 500000 5 =
    5 + 27 + (1000000 + 500000) + (146666503 + 500000 + 500000) := by decide

-- the hypotheses of `C07X_rtu_margin_concrete` at 19200 bps, n = 8
example : waitOf 19200 1000 500 = 1750500 ∧ waitOf 19200 1000 2000000 = 0 ∧
    postOf 19200 8 5000 5000 = 6333328 ∧ postOf 19200 8 5000 1005000 = 5333328 := by decide
example : Timing.t35 19200 = 1750000 ∧ 8 * Timing.t1 19200 + Timing.t35 19200 = 6333328 := by decide

-- F9, code before fix c501b6a: the counterexample as one concrete run: Write returns at once,
-- no oversleep; the first Read starts 105.4 ms after the deadline was armed for 100 ms
example : runClock 0 ⟨0, none⟩
    [(.setDeadline 100000000, 0), (.write 8, 0), (.sleep 105416659, 105416659)] =
    some ⟨105416659, some 100000000⟩ := by decide
example : [(Io.Op.setDeadline 100000000, 0), (Io.Op.write 8, 0), (Io.Op.sleep 105416659, 105416659)].map Prod.fst =
    rtuPreTraceOld 100000000 8 0 105416659 := by decide
example : clockedResult (.readRegister 0 0) ⟨.rtuOverTcp, 1, .big, .highFirst⟩ ⟨0, []⟩
    ⟨105416659, some 100000000⟩ 0 (Rtu.assemble ⟨1, 0x03, [2, 0x00, 0x0a]⟩) .timeout =
    some (.error .requestTimedOut) := by decide +kernel
-- the trace-level reading (old code): the trace in which the reply is read is not runnable ...
example : runWith (okSock 0) ⟨0, none⟩
    [(.setDeadline 100000000, 0), (.write 8, 0), (.sleep 105416659, 105416659), (.read 3 3, 0),
     (.read 4 4, 0)] = none := by decide
example : [(Io.Op.setDeadline 100000000, 0), (Io.Op.write 8, 0), (Io.Op.sleep 105416659, 105416659),
     (Io.Op.read 3 3, 0), (Io.Op.read 4 4, 0)].map Prod.fst =
    rtuTraceOld 100000000 1200 8 0 105416659 [0x01, 0x03, 0x02, 0x00, 0x0a, 0x38, 0x43] .timeout := by
  decide +kernel
-- ... the one that sees nothing is
example : runWith (okSock 0) ⟨0, none⟩
    [(.setDeadline 100000000, 0), (.write 8, 0), (.sleep 105416659, 105416659), (.readEnd 3, 0)] =
    some ⟨105416659, some 100000000⟩ := by decide

-- REPAIRED CODE, the same scenario: the deadline is armed again when the sleep is over; the
-- trace in which the reply is read is runnable, and the call returns [10]
example : runWith (okSock 0) ⟨0, none⟩
    [(.setDeadline 100000000, 0), (.write 8, 0), (.sleep 105416659, 105416659),
     (.setDeadline 100000000, 0), (.read 3 3, 0), (.read 4 4, 0)] =
    some ⟨105416659, some 205416659⟩ := by decide
example : [(Io.Op.setDeadline 100000000, 0), (Io.Op.write 8, 0), (Io.Op.sleep 105416659, 105416659),
     (Io.Op.setDeadline 100000000, 0), (Io.Op.read 3 3, 0), (Io.Op.read 4 4, 0)].map Prod.fst =
    rtuTrace 100000000 1200 8 0 105416659 [0x01, 0x03, 0x02, 0x00, 0x0a, 0x38, 0x43] .timeout := by
  decide +kernel
example : runClock 0 ⟨0, none⟩
    [(.setDeadline 100000000, 0), (.write 8, 0), (.sleep 105416659, 105416659),
     (.setDeadline 100000000, 0)] = some ⟨105416659, some 205416659⟩ := by decide
example : [(Io.Op.setDeadline 100000000, 0), (Io.Op.write 8, 0), (Io.Op.sleep 105416659, 105416659),
     (Io.Op.setDeadline 100000000, 0)].map Prod.fst = rtuPreTrace 100000000 8 0 105416659 := by decide
example : clockedResult (.readRegister 0 0) ⟨.rtuOverTcp, 1, .big, .highFirst⟩ ⟨0, []⟩
    ⟨105416659, some 205416659⟩ 0 (Rtu.assemble ⟨1, 0x03, [2, 0x00, 0x0a]⟩) .timeout =
    some (.ok (.u16s [10])) := by decide +kernel
-- a reply that is there only after the second deadline is a timeout
example : clockedResult (.readRegister 0 0) ⟨.rtuOverTcp, 1, .big, .highFirst⟩ ⟨0, []⟩
    ⟨105416659, some 205416659⟩ 205416660 (Rtu.assemble ⟨1, 0x03, [2, 0x00, 0x0a]⟩) .timeout =
    some (.error .requestTimedOut) := by decide +kernel
-- the same on the wrapper
example : runWith (durOkSerial 1000000 10000000 100000) ⟨0, none⟩
    [(.setDeadline 20000000, 0), (.write 8, 50000), (.sleep 6333328, 6400000), (.setDeadline 20000000, 0)] =
    some ⟨6450000, some 26450000⟩ := by decide
-- `C07X_rtu_write_under_first_deadline`: [w + ε] = 0 ≤ T
example : (if (0 : Nat) > 0 then 0 + 0 else 0) ≤ 100000000 := by decide

-- code before the fix, `C07X_no_spurious_timeout_rtu_clocked_old` at 19200 bps, T = 20 ms,
-- ε = 1 ms, wmax = 0.1 ms: hypotheses hold
example : runWith (okSockW 1000000 100000) ⟨0, none⟩
    [(.setDeadline 20000000, 0), (.write 8, 50000), (.sleep 6333328, 6400000)] =
    some ⟨6450000, some 20000000⟩ := by decide
example : (if (0 : Nat) > 0 then 0 + 1000000 else 0) + 100000 + 6333328 + 1000000 ≤ 20000000 := by decide
example : clockedResult (.readRegister 0 0) ⟨.rtuOverTcp, 1, .big, .highFirst⟩ ⟨0, []⟩
    ⟨6450000, some 20000000⟩ 3000000 (Rtu.assemble ⟨1, 0x03, [2, 0x00, 0x0a]⟩) .timeout =
    some (.ok (.u16s [10])) := by decide +kernel

-- MBAP: Write returns 1 ms after the deadline was armed; reply there after 5 ms; T = 1 s
example : runClock 0 ⟨7, none⟩ [(.setDeadline 1000000000, 0), (.write 12, 1000000)] =
    some ⟨1000007, some 1000000007⟩ := by decide
example : clockedResult (.readRegister 0 0) ⟨.tcp, 1, .big, .highFirst⟩ ⟨0x1234, []⟩
    ⟨1000007, some 1000000007⟩ 5000007 (Mbap.assemble 0x1235 ⟨1, 0x03, [2, 0x00, 0x0a]⟩) .timeout =
    some (.ok (.u16s [10])) := by decide +kernel
-- a reply that arrives after the deadline is a timeout
example : clockedResult (.readRegister 0 0) ⟨.tcp, 1, .big, .highFirst⟩ ⟨0x1234, []⟩
    ⟨1000007, some 1000000007⟩ 1000000008 (Mbap.assemble 0x1235 ⟨1, 0x03, [2, 0x00, 0x0a]⟩) .timeout =
    some (.error .requestTimedOut) := by decide +kernel

-- hypotheses of `C07X_no_spurious_timeout_mbap_clocked`: no frames in front of the reply
example : Mbap.Skippable (0x1234 + 1) [] := .nil
example : PositiveReply ⟨.tcp, 1, .big, .highFirst⟩ (.readRegister 0 0) ⟨1, 0x03, [2, 0x00, 0x0a]⟩ := by
  decide
example : (⟨0x1234, []⟩ : TState).pending ++ Mbap.assemble 0x1235 ⟨1, 0x03, [2, 0x00, 0x0a]⟩ =
    [] ++ Mbap.assemble ((⟨0x1234, []⟩ : TState).lastTxn + 1) ⟨1, 0x03, [2, 0x00, 0x0a]⟩ ++ [] := by decide

-- hypotheses of `C07X_wait_bound_history`: the two calls at 9600 bps of `Props/C19.lean`; the
-- second call comes 1 ms after the first returned and waits for the rest of t3.5
example : Timing.wellTimed 9600 0 0 [{ now := 10000000, n := 8, readDur := 9000000 },
    { now := 32177079 + 1000000, n := 8 }] := by
  simp only [Timing.wellTimed]; decide
example : waitOf 9600 32177079 (32177079 + 1000000) = 3010415 ∧ Timing.t35 9600 = 4010415 := by decide
-- after a timeout sentinel the recorded estimate `ts + n·t1` is already t3.5 in the past
example : (Timing.exchangeTimes 19200 0 { now := 5000000, n := 8, readDur := 300000000, outcome := .timedOut }).lastActivity'
      + Timing.t35 19200 ≤
    (Timing.exchangeTimes 19200 0 { now := 5000000, n := 8, readDur := 300000000, outcome := .timedOut }).finish := by
  decide

-- hypotheses of `C07X_rtu_margin_concrete` for the run at the end of `Props/C07.lean`
-- (its `Write` lasted 1000: wmax = 1000), and of `…_coupled` (d + post = 0 + 6333328)
example : (0 : Nat) ≤ Timing.t35 19200 ∧ 20 ≤ 8 * Timing.t1 19200 + Timing.t35 19200 ∧
    1000 + rtuMargin 19200 0 20 7 + 1000 ≤ 1000 + marginRtu 19200 8 7 + 1000 := by decide
example : 0 + postOf 19200 8 5000 (5000 + 0) ≤ 8 * Timing.t1 19200 + Timing.t35 19200 := by decide

-- `C07X_elapsed_any_reads_slack`: δ = 3, the last read returns 3 after the deadline
example : runWith (durOkδ 0 3) ⟨0, none⟩ [(.setDeadline 100, 0), (.write 12, 1), (.read 7 7, 102)] =
    some ⟨103, some 100⟩ := by decide

-- slack: a read that returns 3 after the deadline is allowed with δ = 3, not with δ = 2
example : durOkδ 0 3 ⟨90, some 100⟩ (.read 7 7) 13 ∧ ¬ durOkδ 0 2 ⟨90, some 100⟩ (.read 7 7) 13 := by
  decide

end examples

end Modbus.Props.C07

#print axioms Modbus.Props.C07.C07X_slack_zero_is_A_deadline
#print axioms Modbus.Props.C07.C07X_slack_mono
#print axioms Modbus.Props.C07.C07X_serial_read_step
#print axioms Modbus.Props.C07.C07X_serial_reads_have_slack
#print axioms Modbus.Props.C07.C07X_A_deadline_false_for_serial
#print axioms Modbus.Props.C07.C07X_elapsed_serial_reads
#print axioms Modbus.Props.C07.C07X_serial_readfull_trace
#print axioms Modbus.Props.C07.C07X_elapsed_serial_readfull
#print axioms Modbus.Props.C07.C07X_serial_polls_bounded
#print axioms Modbus.Props.C07.C07X_elapsed_any_reads_slack
#print axioms Modbus.Props.C07.C07X_rtuTraceSerial_shape
#print axioms Modbus.Props.C07.C07X_elapsed_rtu_serial_sharp
#print axioms Modbus.Props.C07.C07X_elapsed_rtu_serial
#print axioms Modbus.Props.C07.C07X_elapsed_rtu_serial_any_reads
#print axioms Modbus.Props.C07.C07X_rtuMarginSerial_eq
#print axioms Modbus.Props.C07.C07X_wait_bound
#print axioms Modbus.Props.C07.C07X_wait_bound_history
#print axioms Modbus.Props.C07.C07X_post_bound
#print axioms Modbus.Props.C07.C07X_readStart_is_postOf
#print axioms Modbus.Props.C07.C07X_rtu_margin_concrete
#print axioms Modbus.Props.C07.C07X_rtu_margin_concrete_coupled
#print axioms Modbus.Props.C07.C07X_rtu_margin_concrete_serial
#print axioms Modbus.Props.C07.C07X_rtu_margin_code
#print axioms Modbus.Props.C07.C07X_marginRtu_values
#print axioms Modbus.Props.C07.C07X_late_read_sees_nothing
#print axioms Modbus.Props.C07.C07X_late_read_sees_nothing_serial
#print axioms Modbus.Props.C07.C07X_rtu_late_read_is_timeout
#print axioms Modbus.Props.C07.C07X_rtu_late_read_is_timeout_serial
#print axioms Modbus.Props.C07.C07X_rtu_timeout_below_min_always_fails
#print axioms Modbus.Props.C07.C07X_rtu_sufficient_timeout
#print axioms Modbus.Props.C07.C07X_minTimeoutRtu_values
#print axioms Modbus.Props.C07.C07X_rtu_early_reply_timeout_counterexample
#print axioms Modbus.Props.C07.C07X_no_spurious_timeout_rtu_clocked_old
#print axioms Modbus.Props.C07.C07X_no_spurious_timeout_rtu_clocked
#print axioms Modbus.Props.C07.C07X_no_spurious_timeout_rtu_clocked_serial
#print axioms Modbus.Props.C07.C07X_first_read_never_late
#print axioms Modbus.Props.C07.C07X_rtu_write_under_first_deadline
#print axioms Modbus.Props.C07.C07X_rtu_early_reply_fixed
#print axioms Modbus.Props.C07.C07X_no_spurious_timeout_mbap_clocked
#print axioms Modbus.Props.C07.C07X_trace_prefixes
