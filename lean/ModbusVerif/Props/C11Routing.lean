import ModbusVerif.Lemmas.MultiLemmas
import ModbusVerif.Model.System
import ModbusVerif.Props.C03
/-
  C11 (routing part) — "Requests arriving on different server connections are routed to the
  handler with the right function code, unit id, address, quantity and arguments, and each reply
  is written only to the connection it arrived on … a client that stalls mid-frame does not
  prevent other connected clients from being served."

  C03 is per connection (one byte stream, one handler state); C11Lifecycle is byte-free.  Here:
  the model `Modbus.Multi` (Model/MultiSession.lean) - N connections with their own input bytes
  and their own output, ONE shared handler state, a global schedule (list of connection indices;
  each entry = one request cycle `readFrame ; Server.handle ; write` of that connection).

  Quantifiers everywhere: every handler `h : Server.Handler σ` over every state type, every
  initial state, every list of connections, every schedule (any length, any order, indices that
  are no connection included - their turn does nothing).

  6. `C11R_turn_local`, `C11R_outputs_local`   a turn touches one connection; after any schedule,
        the record of connection i (its output, its events) is what i ALONE produces
        (`replay`) when it takes its turns in the handler states it met (`statesMet`), each of
        which is the shared state after a prefix of the schedule; output = the response bytes of
        i's own events.
  7. `C11R_handler_calls_interleaved`          the sequence of calls seen by the shared handler is
        an interleaving of the per-connection call sequences.
     `C11R_call_is_decoded_request`, `C11R_calls_are_own_frames`, `C11R_events_spec`
        each per-connection sequence is what `Spec.ServerSpec` derives from that connection's
        own frames (`Spec.classify`: fc, unit id, address, quantity, arguments); with a handler
        that never answers `ErrProtocolError` (F8) the whole event sequence - calls and
        responses - is `Spec.serverEvents` of i's k-th frame in the k-th state i met.
  8. `C11R_solo_is_server_run`   one connection scheduled alone IS `Server.run` (ties `cycle` to
        the loop of `Server.runAux`).  `C11R_isolated`: for a handler that neither reads nor
        writes the shared state, every connection's events/output in ANY schedule are a prefix
        of - and after enough turns equal to - `Server.run` on its own stream alone.
  9. `C11R_stalled_is_noop`, `C11R_stalled_does_not_block`, `C11R_served_regardless`
        a connection stalled mid-frame: its turns change nothing; the run with it present equals
        the run with it removed on the handler state, on all other connections and on the call
        sequence; a connection with a complete frame gets its response whatever the others are.
  Non-vacuity: `System.memHandler`, a write on connection 0 and a read of the same register on
  connection 1 in both orders, plus a third connection stalled mid-frame.

  Not covered here: that a Go handler's calls are atomic with respect to each other (the
  handler's own locking), and the correspondence cycle ↔ Go code beyond what C03 / C12 say
  about `Server.handle` and `Mbap.readFrame`.
-/
namespace Modbus.Props.C11
open Modbus Modbus.Server Modbus.Multi

variable {σ : Type}

/-! ### 6. replies are local to the connection -/

/-- the turn of connection `j` changes the record of no other connection: not its input, not
    its output, not its events (whether the turn served a request, ended the session or did
    nothing) -/
theorem C11R_turn_local (h : Handler σ) (s : Sys σ) (i j : Nat) (hne : i ≠ j) :
    (turn h s j).conns[i]? = s.conns[i]? ∧ (turn h s j).output i = s.output i ∧
      (turn h s j).events i = s.events i := by
  have := turn_conns_ne h s hne
  exact ⟨this, by simp [Sys.output, this], by simp [Sys.events, this]⟩

/-- a turn of `j` appends to `j`'s output exactly the response bytes of the events it appends to
    `j`'s events, and the call it reports is the call among these events -/
theorem C11R_cycle_effect (h : Handler σ) (st : σ) (c : Conn) :
    ∃ evs, (cycle h st c).2.1.events = c.events ++ evs ∧
      (cycle h st c).2.1.output = c.output ++ respBytes evs ∧
      callsOf evs = ((cycle h st c).2.2).toList := by
  obtain ⟨evs, h1, h2, h3, _⟩ := cycle_effect h st c
  exact ⟨evs, h1, h2, h3⟩

/-- projection of a global run on connection `i`.  For EVERY schedule: the record of `i` at the
    end is the record `i` reaches on its own (`replay`: only `i`'s input is read, only `i`'s
    output is written) taking `sched.count i` turns in the shared handler states it met; each of
    these is the shared state after the prefix of the schedule that precedes that turn; and the
    output is the concatenation of the responses among `i`'s own events, in order - no byte of a
    response to another connection's request. -/
theorem C11R_outputs_local (h : Handler σ) (st0 : σ) (conns : List Conn) (sched : List Nat)
    (i : Nat) (c : Conn) (hc : conns[i]? = some c) (hw : c.output = respBytes c.events) :
    let s := runMulti h st0 conns sched
    let sts := statesMet h { st := st0, conns := conns, calls := [] } sched i
    s.conns[i]? = some (replay h sts c) ∧
      s.output i = (replay h sts c).output ∧ s.events i = (replay h sts c).events ∧
      s.output i = respBytes (s.events i) ∧
      sts.length = sched.count i ∧
      (∀ st ∈ sts, ∃ pre post, sched = pre ++ i :: post ∧ st = (runMulti h st0 conns pre).st) := by
  intro s sts
  have hp : s.conns[i]? = some (replay h sts c) := by
    show (runFrom h _ sched).conns[i]? = _
    rw [runFrom_conn, hc]; rfl
  obtain ⟨e1, e2⟩ := events_of_conn hp
  refine ⟨hp, e2, e1, ?_, statesMet_length h _ sched i, fun st hm => statesMet_mem h _ sched i st hm⟩
  rw [e1, e2]
  exact wf_replay h sts hw

/-- `respBytes` is the `System.responses` of the closed-loop model -/
theorem C11R_respBytes_eq (evs : List Event) : respBytes evs = System.responses evs := by
  induction evs with
  | nil => rfl
  | cons x r ih => cases x <;> simp [respBytes, System.responses, ih]

/-! ### 7. routing: the calls the shared handler sees -/

/-- the sequence of handler calls seen by the shared handler (`globalCalls`) is an interleaving
    of the per-connection call sequences (`callsOf (events i)`):
    `Interleaving g n parts` = the elements of `g` can be labelled with indices `< n` such that
    for every `i` the elements labelled `i`, in order, are `parts i` (Lemmas/MultiLemmas.lean).
    The labelling is the log's own (`callsBy`). -/
theorem C11R_handler_calls_interleaved (h : Handler σ) (st0 : σ) (conns : List Conn)
    (sched : List Nat) (h0 : ∀ c ∈ conns, c.events = []) :
    let s := runMulti h st0 conns sched
    Interleaving s.globalCalls conns.length (fun i => callsOf (s.events i)) ∧
      (∀ i, s.callsBy i = callsOf (s.events i)) ∧
      (∀ p ∈ s.calls, p.1 < conns.length) := by
  intro s
  have hok : CallsOK s := callsOK_run h (callsOK_init st0 conns h0) sched
  have hlen : s.conns.length = conns.length := runFrom_length h _ sched
  have := interleaving_of_callsOK hok
  rw [hlen] at this
  exact ⟨this, hok.proj, fun p hp => hlen ▸ hok.tags p hp⟩

/-- one call: whenever a cycle of a connection calls the handler with `r`, the head of THAT
    connection's input is a complete well-formed frame `(txn, req)`, the specification
    classifies `req` as valid with exactly the decoded request `r` (function code → table, unit
    id, address, quantity, arguments: `C03_call_is_decoded_request`), in range
    (`C03_handler_args_in_range`), and the frame - nothing more - is consumed -/
theorem C11R_call_is_decoded_request (h : Handler σ) (st : σ) (c : Conn) (r : HReq)
    (hcall : (cycle h st c).2.2 = some r) :
    ∃ txn req rest, c.input = Mbap.assemble txn req ++ rest ∧ req.payload.length ≤ 252 ∧
      Spec.classify req.unit req.fc req.payload = .valid r ∧ Spec.ArgsInRange r ∧
      (cycle h st c).2.1.input = rest := by
  cases hl : c.live with
  | false => rw [cycle_dead h st hl] at hcall; cases hcall
  | true =>
    rcases cycle_live h st hl with ⟨_, _, hc⟩ | ⟨e, _, hc⟩
    · rw [hc] at hcall; cases hcall
    · rw [hc] at hcall ⊢
      cases hrf : Mbap.readFrame c.input e with
      | mk fr rest =>
        cases fr with
        | err err => rw [serve_err h st c hrf] at hcall; cases hcall
        | ok req txn =>
          rw [serve_ok h st c hrf] at hcall ⊢
          obtain ⟨hin, hp⟩ := Mbap.readFrame_ok_inv hrf
          have hv := C03.C03_call_is_decoded_request h st req r hcall
          exact ⟨txn, req, rest, hin, hp, hv, classify_valid_args hv,
            (afterFrame_effect c rest txn _).2.2.2.2⟩

/-- a complete frame at the head of a live connection's input is routed as the specification
    says, in the shared state of that moment, whatever the stream does afterwards (`ending`) -/
theorem C11R_cycle_is_spec (h : Handler σ) (st : σ) (c : Conn) (hl : c.live = true) (txn : U16)
    (req : Pdu) (rest : Bytes) (hin : c.input = Mbap.assemble txn req ++ rest)
    (hp : req.payload.length ≤ 252)
    (hne : ∀ r, Spec.classify req.unit req.fc req.payload = .valid r →
      (Spec.invoke h st r).2 ≠ .error .protocolError) :
    cycle h st c =
      ((Spec.serverEvents h st txn req).1,
       { c with input := rest,
                events := c.events ++ (Spec.serverEvents h st txn req).2,
                output := c.output ++ respBytes (Spec.serverEvents h st txn req).2,
                live := Spec.staysOpen req },
       expectedCall req) :=
  cycle_frame_spec h st hl hin hp hne

/-- per connection, whole run, ANY handler (F8 included), any schedule: if connection `i` sent
    the frames `fs` (then nothing, or part of a frame), the calls its session made are a prefix
    of `expectedCalls fs` - the decoded valid requests among its OWN frames, in order, up to the
    first frame that closes the connection; all of them once its session has ended, for a
    handler that never answers `ErrProtocolError`.  `expectedCalls` does not depend on the
    handler, the shared state, the schedule or the other connections. -/
theorem C11R_calls_are_own_frames (h : Handler σ) (st0 : σ) (conns : List Conn) (sched : List Nat)
    (i : Nat) (fs : List (U16 × Pdu)) (tail : Bytes) (ending : Option Ending)
    (hc : conns[i]? = some (Conn.new (Spec.wire fs ++ tail) ending)) (hnf : NoFrame tail)
    (hf : ∀ f ∈ fs, f.2.payload.length ≤ 252) :
    let s := runMulti h st0 conns sched
    callsOf (s.events i) <+: expectedCalls fs ∧
      (h.NoProtoErr → (∃ c', s.conns[i]? = some c' ∧ c'.live = false) →
        callsOf (s.events i) = expectedCalls fs) := by
  intro s
  obtain ⟨hp, _, e1, _⟩ := C11R_outputs_local h st0 conns sched i _ hc rfl
  obtain ⟨pre, p1, p2, p3⟩ := replay_calls h tail hnf
    (statesMet h { st := st0, conns := conns, calls := [] } sched i) fs
    (Conn.new (Spec.wire fs ++ tail) ending) rfl rfl hf
  have e1 : s.events i = _ := e1
  have hp : s.conns[i]? = _ := hp
  rw [e1, p1]
  simp only [Conn.new, callsOf, List.nil_append]
  refine ⟨p2, fun hn ⟨c', hc', hd⟩ => p3 hn ?_⟩
  rw [hp] at hc'
  injection hc' with hc'
  rw [hc']; exact hd

/-- per connection, whole run, handler without `ErrProtocolError`: as long as connection `i` has
    taken no more turns than it sent frames, its events - calls AND responses - are exactly
    `specReplay`: `Spec.serverEvents` of its k-th frame evaluated in the k-th shared state it
    met, up to the first frame that closes it; and its output is the bytes of these responses -/
theorem C11R_events_spec (h : Handler σ) (hn : h.NoProtoErr) (st0 : σ) (conns : List Conn)
    (sched : List Nat) (i : Nat) (fs : List (U16 × Pdu)) (tail : Bytes) (ending : Option Ending)
    (hc : conns[i]? = some (Conn.new (Spec.wire fs ++ tail) ending))
    (hf : ∀ f ∈ fs, f.2.payload.length ≤ 252) (hcount : sched.count i ≤ fs.length) :
    let s := runMulti h st0 conns sched
    let sts := statesMet h { st := st0, conns := conns, calls := [] } sched i
    s.events i = specReplay h sts fs ∧ s.output i = respBytes (specReplay h sts fs) := by
  intro s sts
  obtain ⟨_, e2, e1, _, hlen, _⟩ := C11R_outputs_local h st0 conns sched i _ hc rfl
  obtain ⟨r1, r2⟩ := replay_spec h hn tail sts fs (Conn.new (Spec.wire fs ++ tail) ending) rfl rfl hf
    (by rw [hlen]; exact hcount)
  have e1 : s.events i = _ := e1
  have e2 : s.output i = _ := e2
  rw [e1, e2, r1, r2]
  simp [Conn.new]

/-- what `specReplay` is, spelled out -/
theorem C11R_specReplay_cons (h : Handler σ) (st : σ) (sts : List σ) (txn : U16) (req : Pdu)
    (fs : List (U16 × Pdu)) :
    specReplay h (st :: sts) ((txn, req) :: fs) =
      (Spec.serverEvents h st txn req).2 ++
        (if Spec.staysOpen req then specReplay h sts fs else []) := rfl

/-! ### 8. one connection alone; handlers without shared state -/

/-- a connection scheduled alone, for more turns than its stream has bytes, IS the
    single-connection session `Server.run` on its stream: same final handler state, same events,
    and the output is the bytes of the responses -/
theorem C11R_solo_is_server_run (h : Handler σ) (st0 : σ) (conns : List Conn) (i : Nat)
    (input : Bytes) (e : Ending) (hc : conns[i]? = some (Conn.new input (some e))) (n : Nat)
    (hn : input.length < n) :
    let s := runMulti h st0 conns (List.replicate n i)
    s.st = (Server.run h st0 input e).1 ∧ s.events i = (Server.run h st0 input e).2 ∧
      s.output i = respBytes (Server.run h st0 input e).2 := by
  intro s
  obtain ⟨h1, h2⟩ := runFrom_replicate h i n { st := st0, conns := conns, calls := [] } _ hc
  obtain ⟨pre, post, r1, r2, r3, r4, r5⟩ := solo_run h n st0 (Conn.new input (some e)) e rfl rfl
  have r1 : (Server.run h st0 input e).2 = pre ++ post := r1
  obtain ⟨p1, p2⟩ := r4 (r5 hn)
  have p2 : _ = (Server.run h st0 input e).1 := p2
  obtain ⟨e1, e2⟩ := events_of_conn h2
  have e1 : s.events i = _ := e1
  have e2 : s.output i = _ := e2
  have h1 : s.st = _ := h1
  subst p1
  simp only [List.append_nil] at r1
  refine ⟨by rw [h1]; exact p2, ?_, ?_⟩
  · rw [e1, r2, r1]; simp [Conn.new]
  · rw [e2, r3, r1]; simp [Conn.new]

/-- isolation.  If the handler neither reads nor writes the shared state (`Handler.Pure`: every
    table returns the state unchanged and a result that does not depend on it), then in EVERY
    schedule, whatever the other connections send: the shared state stays `st0`; the events and
    the output of connection `i` are a prefix of those of `Server.run` on `i`'s stream alone;
    and they are equal as soon as `i` has had more turns than its stream has bytes -/
theorem C11R_isolated (h : Handler σ) (hp : h.Pure) (st0 : σ) (conns : List Conn)
    (sched : List Nat) (i : Nat) (input : Bytes) (e : Ending)
    (hc : conns[i]? = some (Conn.new input (some e))) :
    let s := runMulti h st0 conns sched
    s.st = st0 ∧
      s.events i <+: (Server.run h st0 input e).2 ∧
      s.output i = respBytes (s.events i) ∧
      (input.length < sched.count i →
        s.events i = (Server.run h st0 input e).2 ∧
        s.output i = respBytes (Server.run h st0 input e).2) := by
  intro s
  obtain ⟨_, _, e1, e3, hlen, _⟩ := C11R_outputs_local h st0 conns sched i _ hc rfl
  have e1 : s.events i = _ := e1
  have e3 : s.output i = _ := e3
  rw [replay_pure hp st0, hlen] at e1
  obtain ⟨pre, post, r1, r2, _, r4, r5⟩ :=
    solo_run h (sched.count i) st0 (Conn.new input (some e)) e rfl rfl
  have r1 : (Server.run h st0 input e).2 = pre ++ post := r1
  have r2' : s.events i = pre := by rw [e1, r2]; simp [Conn.new]
  refine ⟨runFrom_st_pure hp _ sched, ?_, e3, fun hlt => ?_⟩
  · rw [r2', r1]; exact List.prefix_append _ _
  · obtain ⟨p1, _⟩ := r4 (r5 hlt)
    subst p1
    simp only [List.append_nil] at r1
    have : s.events i = (Server.run h st0 input e).2 := by rw [r2', r1]
    exact ⟨this, by rw [e3, this]⟩

/-- the same under the name used in the audit's work list -/
theorem C11R_equiv_single_when_handler_stateless (h : Handler σ) (hp : h.Pure) (st0 : σ)
    (conns : List Conn) (sched : List Nat) (i : Nat) (input : Bytes) (e : Ending)
    (hc : conns[i]? = some (Conn.new input (some e))) (hturns : input.length < sched.count i) :
    (runMulti h st0 conns sched).events i = (Server.run h st0 input e).2 ∧
      (runMulti h st0 conns sched).output i = System.responses (Server.run h st0 input e).2 ∧
      (runMulti h st0 conns sched).st = st0 := by
  obtain ⟨a, _, _, d⟩ := C11R_isolated h hp st0 conns sched i input e hc
  obtain ⟨d1, d2⟩ := d hturns
  exact ⟨d1, by rw [d2, C11R_respBytes_eq], a⟩

/-- `Handler.Pure` is inhabited: the constant handlers of the C03 examples -/
theorem C11R_constHandler_pure (bits : Except Err (List Bool)) (regs : Except Err (List U16)) :
    (constHandler bits regs).Pure :=
  fun _ _ _ => ⟨⟨rfl, rfl⟩, ⟨rfl, rfl⟩, ⟨rfl, rfl⟩, ⟨rfl, rfl⟩⟩

/-- for a general (stateful) handler the single-connection counterpart of `i`'s part of a run is
    `replay` (6.): `i`'s own cycles, in the states it met.  When the other connections do not
    move in between (`C11R_solo_is_server_run`) or cannot influence it (`C11R_isolated`) this is
    `Server.run`; in general the read on connection 1 in the example below shows that it is not
    and must not be. -/
theorem C11R_general_handler (h : Handler σ) (st0 : σ) (conns : List Conn) (sched : List Nat)
    (i : Nat) (input : Bytes) (ending : Option Ending) (hc : conns[i]? = some (Conn.new input ending)) :
    let s := runMulti h st0 conns sched
    s.conns[i]? = some (replay h (statesMet h { st := st0, conns := conns, calls := [] } sched i)
      (Conn.new input ending)) :=
  (C11R_outputs_local h st0 conns sched i _ hc rfl).1

/-! ### 9. a client that stalls mid-frame -/

/-- a client that has sent a strict prefix of a frame and then nothing, its stream not ended:
    `stalled` -/
theorem C11R_stalled_prefix (s t : Bytes) (txn : U16) (p : Pdu) (hp : p.payload.length ≤ 252)
    (hst : s ++ t = Mbap.assemble txn p) (ht : t ≠ []) : (Conn.new s none).stalled = true := by
  simp [Conn.stalled, Conn.new, blocked_of_strict_prefix hp hst ht]

/-- the turn of a stalled connection changes nothing: no handler call, no state change, no
    output anywhere (its goroutine stays in `io.ReadFull`) -/
theorem C11R_stalled_is_noop (h : Handler σ) (s : Sys σ) (j : Nat) (c : Conn)
    (hc : s.conns[j]? = some c) (hs : c.stalled = true) : turn h s j = s :=
  turn_stalled h hc hs

/-- a connection `i` with a complete frame at the head of its input is served on its turn:
    the outcome (new handler state, new record of `i`) depends on the shared handler state and
    on `i`'s record only - so it is the same whatever state any other connection `j` is in
    (stalled mid-frame, dead, busy) - and `i`'s response, the specification's, is appended to
    `i`'s output -/
theorem C11R_served_regardless (h : Handler σ) (s₁ s₂ : Sys σ) (i : Nat) (c : Conn)
    (hst : s₁.st = s₂.st) (h1 : s₁.conns[i]? = some c) (h2 : s₂.conns[i]? = some c)
    (hl : c.live = true) (txn : U16) (req : Pdu) (rest : Bytes)
    (hin : c.input = Mbap.assemble txn req ++ rest) (hp : req.payload.length ≤ 252)
    (hne : ∀ r, Spec.classify req.unit req.fc req.payload = .valid r →
      (Spec.invoke h s₁.st r).2 ≠ .error .protocolError) :
    (turn h s₁ i).st = (turn h s₂ i).st ∧ (turn h s₁ i).conns[i]? = (turn h s₂ i).conns[i]? ∧
      (turn h s₁ i).st = (Spec.serverEvents h s₁.st txn req).1 ∧
      (turn h s₁ i).output i = c.output ++ respBytes (Spec.serverEvents h s₁.st txn req).2 ∧
      (∀ r, Spec.classify req.unit req.fc req.payload = .valid r →
        (turn h s₁ i).output i =
          c.output ++ Mbap.assemble txn (Spec.replyPdu req r (Spec.invoke h s₁.st r).2)) := by
  obtain ⟨d1, d2⟩ := turn_depends h s₁ s₂ i hst (by rw [h1, h2])
  have hcyc := cycle_frame_spec h s₁.st hl hin hp hne
  have hst' : (turn h s₁ i).st = (Spec.serverEvents h s₁.st txn req).1 := by
    rw [turn_some h h1, hcyc]
  have hout : (turn h s₁ i).output i =
      c.output ++ respBytes (Spec.serverEvents h s₁.st txn req).2 := by
    rw [(events_of_conn (turn_conns_self h h1)).2, hcyc]
  refine ⟨d1, d2, hst', hout, fun r hv => ?_⟩
  rw [hout]
  simp [Spec.serverEvents, hv, respBytes, mbapFrame_eq]

/-- a stalled connection does not block, and does not influence, anything.  For every schedule:
    the run with the stalled connection `j` present equals the run with `j` removed (the list of
    connections without `j`, the schedule without `j`'s turns, indices above `j` shifted down:
    `reindex`, `dropSched`) on the shared handler state, on every other connection's complete
    record (so: its output and its events), and on the sequence of handler calls; and `j` itself
    is exactly as it was. -/
theorem C11R_stalled_does_not_block (h : Handler σ) (st0 : σ) (conns : List Conn) (sched : List Nat)
    (j : Nat) (cj : Conn) (hc : conns[j]? = some cj) (hs : cj.stalled = true) :
    let s := runMulti h st0 conns sched
    let s' := runMulti h st0 (conns.eraseIdx j) (dropSched j sched)
    s'.st = s.st ∧ s'.conns = s.conns.eraseIdx j ∧
      (∀ i, i ≠ j → s'.conns[reindex j i]? = s.conns[i]? ∧
        s'.output (reindex j i) = s.output i ∧ s'.events (reindex j i) = s.events i) ∧
      s'.globalCalls = s.globalCalls ∧
      s.conns[j]? = some cj := by
  intro s s'
  obtain ⟨hd, hj⟩ := runFrom_dropConn h hs sched { st := st0, conns := conns, calls := [] } hc
  have hd : s' = dropConn j s := hd
  have hg : ∀ i, i ≠ j → s'.conns[reindex j i]? = s.conns[i]? := by
    intro i hne; rw [hd]; exact getElem?_dropConn s hne
  refine ⟨by rw [hd]; rfl, by rw [hd]; rfl, fun i hne => ?_, ?_, hj⟩
  · exact ⟨hg i hne, by simp [Sys.output, hg i hne], by simp [Sys.events, hg i hne]⟩
  · rw [hd]; simp [Sys.globalCalls, dropConn, List.map_map, Function.comp_def]

/-- in particular the turns of a stalled connection can be dropped from, or inserted into, a
    schedule anywhere without any effect -/
theorem C11R_stalled_turns_irrelevant (h : Handler σ) (st0 : σ) (conns : List Conn)
    (pre post : List Nat) (j : Nat) (cj : Conn) (hc : conns[j]? = some cj) (hs : cj.stalled = true) :
    runMulti h st0 conns (pre ++ j :: post) = runMulti h st0 conns (pre ++ post) := by
  unfold runMulti
  rw [runFrom_append, runFrom_append, runFrom_cons]
  have hj := (runFrom_dropConn h hs pre { st := st0, conns := conns, calls := [] } hc).2
  rw [turn_stalled h hj hs]

/-! ### non-vacuity: the memory handler, two clients and a stalled third -/

/-- connection 0: write single register (fc 06), unit 1, address 5, value 0xABCD, txn 1 -/
def wr5 : Bytes := [0x00, 0x01, 0x00, 0x00, 0x00, 0x06, 0x01, 0x06, 0x00, 0x05, 0xAB, 0xCD]
/-- connection 1: read holding registers (fc 03), unit 1, address 5, quantity 1, txn 2 -/
def rd5 : Bytes := [0x00, 0x02, 0x00, 0x00, 0x00, 0x06, 0x01, 0x03, 0x00, 0x05, 0x00, 0x01]
/-- connection 2: the first 8 bytes of a 12-byte frame, then silence, stream not ended -/
def partialFrame : Bytes := [0x00, 0x03, 0x00, 0x00, 0x00, 0x06, 0x01, 0x03]

def threeConns : List Conn :=
  [Conn.new wr5 (some .timeout), Conn.new rd5 (some .timeout), Conn.new partialFrame none]

example : wr5 = Mbap.assemble 1 ⟨1, 6, [0x00, 0x05, 0xAB, 0xCD]⟩ := by decide
example : rd5 = Mbap.assemble 2 ⟨1, 3, [0x00, 0x05, 0x00, 0x01]⟩ := by decide
example : partialFrame ++ [0x00, 0x07, 0x00, 0x01] = Mbap.assemble 3 ⟨1, 3, [0x00, 0x07, 0x00, 0x01]⟩ := by
  decide
example : (Conn.new partialFrame none).stalled = true := by decide

/-- write first, then read: the read on connection 1 sees the value written through
    connection 0; the echo of the write is on connection 0 only, the read response on 1 only,
    nothing on 2 -/
theorem C11R_example_write_then_read :
    let s := runMulti System.memHandler System.Mem.init threeConns [0, 1]
    s.output 0 = wr5 ∧
      s.output 1 = [0x00, 0x02, 0x00, 0x00, 0x00, 0x05, 0x01, 0x03, 0x02, 0xAB, 0xCD] ∧
      s.output 2 = [] ∧
      s.globalCalls = [.holding 1 5 1 true [0xABCD], .holding 1 5 1 false []] ∧
      s.calls.map Prod.fst = [0, 1] := by decide +kernel

/-- read first, then write: the read sees the initial value 0; same two calls, other order -/
theorem C11R_example_read_then_write :
    let s := runMulti System.memHandler System.Mem.init threeConns [1, 0]
    s.output 0 = wr5 ∧
      s.output 1 = [0x00, 0x02, 0x00, 0x00, 0x00, 0x05, 0x01, 0x03, 0x02, 0x00, 0x00] ∧
      s.output 2 = [] ∧
      s.globalCalls = [.holding 1 5 1 false [], .holding 1 5 1 true [0xABCD]] ∧
      s.calls.map Prod.fst = [1, 0] := by decide +kernel

/-- the stalled third connection takes turns in between: nothing changes; it is still alive,
    still waiting, has been sent nothing -/
theorem C11R_example_stalled :
    let s := runMulti System.memHandler System.Mem.init threeConns [2, 0, 2, 2, 1, 2]
    s.output 0 = wr5 ∧
      s.output 1 = [0x00, 0x02, 0x00, 0x00, 0x00, 0x05, 0x01, 0x03, 0x02, 0xAB, 0xCD] ∧
      s.conns[2]? = some (Conn.new partialFrame none) ∧
      s.calls.map Prod.fst = [0, 1] := by decide +kernel

/-- the same run without the third connection: same outputs -/
example :
    let s := runMulti System.memHandler System.Mem.init (threeConns.eraseIdx 2)
      (dropSched 2 [2, 0, 2, 2, 1, 2])
    dropSched 2 [2, 0, 2, 2, 1, 2] = [0, 1] ∧ s.output 0 = wr5 ∧
      s.output 1 = [0x00, 0x02, 0x00, 0x00, 0x00, 0x05, 0x01, 0x03, 0x02, 0xAB, 0xCD] := by
  decide +kernel

/-- further turns after the frames are used up: the read deadline of connections 0 and 1 expires
    (`ended ioTimeout`), their sessions return; outputs unchanged -/
example :
    let s := runMulti System.memHandler System.Mem.init threeConns [0, 1, 0, 1, 0, 1]
    s.output 0 = wr5 ∧
      s.events 1 = [.call (.holding 1 5 1 false []),
        .respond [0x00, 0x02, 0x00, 0x00, 0x00, 0x05, 0x01, 0x03, 0x02, 0xAB, 0xCD],
        .ended .ioTimeout] ∧
      (s.conns.map Conn.live) = [false, false, true] := by decide +kernel

/-- a client that stalls mid-frame on a stream that DOES end (deadline): its own session ends
    with the timeout, again without a trace on the other connections -/
example :
    let s := runMulti System.memHandler System.Mem.init
      [Conn.new wr5 (some .eof), Conn.new partialFrame (some .timeout)] [1, 0, 1]
    s.output 0 = wr5 ∧ s.output 1 = [] ∧ s.events 1 = [.ended .ioTimeout] := by decide +kernel

/-- the general theorems instantiated: connection 2 of `threeConns` is stalled, so every
    schedule gives the same as the schedule without its turns on the two-connection server -/
example (sched : List Nat) :
    (runMulti System.memHandler System.Mem.init (threeConns.eraseIdx 2) (dropSched 2 sched)).output 1 =
      (runMulti System.memHandler System.Mem.init threeConns sched).output 1 := by
  have := (C11R_stalled_does_not_block System.memHandler System.Mem.init threeConns sched 2
    (Conn.new partialFrame none) rfl (by decide)).2.2.1 1 (by decide)
  exact this.2.1

/-- a stateless handler, two connections with the same read request and a stalled one, schedule
    2,1,0,2,1,0,…: each output is `Server.run` on the connection's own stream (`C11R_isolated`) -/
example :
    let conns := [Conn.new rd5 (some .eof), Conn.new (rd5 ++ rd5) (some .eof), Conn.new partialFrame none]
    let s := runMulti (constHandler (.ok []) (.ok [0xBEEF])) () conns [2, 1, 0, 2, 1, 0, 1, 0]
    s.events 0 = (Server.run (constHandler (.ok []) (.ok [0xBEEF])) () rd5 .eof).2 ∧
      s.events 1 = (Server.run (constHandler (.ok []) (.ok [0xBEEF])) () (rd5 ++ rd5) .eof).2 ∧
      s.output 1 = [0x00, 0x02, 0x00, 0x00, 0x00, 0x05, 0x01, 0x03, 0x02, 0xBE, 0xEF,
                    0x00, 0x02, 0x00, 0x00, 0x00, 0x05, 0x01, 0x03, 0x02, 0xBE, 0xEF] ∧
      s.output 2 = [] := by decide +kernel

/-- `runShow` of the first example -/
example : runShow System.memHandler System.Mem.init
    [(wr5, some .timeout), (rd5, some .timeout), (partialFrame, none)] [0, 1] =
    "out0=00010000000601060005abcd live0=1 out1=0002000000050103" ++ "02abcd live1=1 out2=- live2=1 calls=0,1" := by
  decide +kernel

#print axioms C11R_turn_local
#print axioms C11R_cycle_effect
#print axioms C11R_outputs_local
#print axioms C11R_respBytes_eq
#print axioms C11R_handler_calls_interleaved
#print axioms C11R_call_is_decoded_request
#print axioms C11R_cycle_is_spec
#print axioms C11R_calls_are_own_frames
#print axioms C11R_events_spec
#print axioms C11R_specReplay_cons
#print axioms C11R_solo_is_server_run
#print axioms C11R_isolated
#print axioms C11R_equiv_single_when_handler_stateless
#print axioms C11R_constHandler_pure
#print axioms C11R_general_handler
#print axioms C11R_stalled_prefix
#print axioms C11R_stalled_is_noop
#print axioms C11R_served_regardless
#print axioms C11R_stalled_does_not_block
#print axioms C11R_stalled_turns_irrelevant
#print axioms C11R_example_write_then_read
#print axioms C11R_example_read_then_write
#print axioms C11R_example_stalled

end Modbus.Props.C11
