import ModbusVerif.Props.C06
/-
  C06 (extension) — double-bit errors up to the full period of the CRC-16/MODBUS generator,
  and tightness of that bound.

  Background.  The generator x^16 + x^15 + x^2 + 1 factors as (x + 1)(x^15 + x + 1) with the
  second factor primitive, so x has multiplicative order 2^15 - 1 = 32767 modulo the generator:
  an error pattern with exactly two flipped bits has syndrome zero iff the distance between the
  two bits is a multiple of 32767.  `Props/C06.lean` proves detection for frames of at most 256
  bytes (distance < 2048, `noHit_2046`).  Here the same argument is carried to the whole period,
  by kernel evaluation of the 32767 register states, and the first undetected distance is
  exhibited.

  Definitions used in the statements (all in `ModbusVerif/Lemmas/CrcLemmas.lean`):

    step1 s      := one bit time of the reflected 0xA001 LFSR
    feed s bits  := bits.foldl (fun s b => step1 (s ^^^ bit16 b)) s      -- bit-serial run
    zeros n      := List.replicate n false
    noHit t n s  := step1^[k] s ≠ t for all k ≤ n                        -- see `noHit_spec`
    crcOk f      := the receiver's check on a whole frame f = body ++ [l, h]
    applyErr f e := f with bit p flipped wherever e[p] = true            -- `C06.applyErr_spec`

  Off-by-one bookkeeping.  In `zeros a ++ [true] ++ zeros d ++ [true] ++ zeros b` the two flipped
  bits sit at positions a and a + d + 1: the gap is d, the distance is d + 1.
  `feed 0 [true] = 0xA001 = step1 1`, so after the gap the register holds
  `step1^[d] 0xA001 = step1^[d+1] 1`, and the second flipped bit cancels it iff that equals 1.
  `noHit 1 n 0xA001` therefore says "no distance in 1 .. n+1 is a period".
    * n = 32765 (distances 1 .. 32766): true   — `noHit_period`
    * n = 32766 (distance 32767):        false  — `noHit_period_tight`
  In a frame of L bytes the largest distance is 8 L - 1, so every double-bit error is detected
  iff 8 L - 1 ≤ 32766 iff L ≤ 4095 (`double_bit_detected_period`); in every accepted frame of
  4096 bytes or more there are double-bit errors that are accepted
  (`double_bit_accepted_at_period`).

  Core Lean only; `decide +kernel` for the two evaluations; no axioms beyond
  propext / Classical.choice / Quot.sound.
-/
namespace Modbus.Props.C06Period
open Modbus Modbus.Crc

/-! ### 1. the order check over the whole period (kernel evaluation, 32766 register states) -/

set_option maxRecDepth 1000000 in
/-- `step1^[k] 0xA001 ≠ 1` for all `k ≤ 32765`, i.e. `step1^[j] 1 ≠ 1` for `1 ≤ j ≤ 32766`.
    32765 is the largest index for which this holds (`noHit_period_tight`). -/
theorem noHit_period : noHit 1#16 32765 0xA001#16 = true := by decide +kernel

/-! ### 2. two flipped bits at distance ≤ 32766 have a nonzero syndrome -/

/-- gap `d ≤ 32765`, i.e. the two flipped bits are at distance `d + 1 ≤ 32766`; any amount of
    leading and trailing zeros.  32765 is the largest bound (`feed_double_period_zero`). -/
theorem feed_double_ne_zero_period (a d b : Nat) (hd : d ≤ 32765) :
    feed 0 (zeros a ++ [true] ++ zeros d ++ [true] ++ zeros b) ≠ 0 := by
  intro h
  rw [feed_append, feed_append, feed_append, feed_append, feed_zero_zeros] at h
  have h0 := feed_zeros_eq_zero _ _ h
  have hc : feed 0 [true] = 0xA001#16 := by decide
  rw [hc] at h0
  simp only [feed_cons, feed_nil] at h0
  unfold feedBit at h0
  have h1 := BitVec.xor_eq_zero_iff.mp (step1_eq_zero _ h0)
  exact noHit_spec _ _ _ noHit_period d hd h1

/-! ### 3. every double-bit error in an accepted frame of at most 4095 bytes is rejected -/

/-- 4095 bytes = 32760 bits, so the two flipped bits are at distance ≤ 32759 < 32767.
    4095 is the largest byte bound for which the statement holds: see
    `double_bit_accepted_at_period` for 4096 bytes and more. -/
theorem double_bit_detected_period (f : Bytes) (a d b : Nat) (e : List Bool)
    (hok : crcOk f = true)
    (he : e = zeros a ++ [true] ++ zeros d ++ [true] ++ zeros b)
    (hlen : e.length = 8 * f.length) (hf : f.length ≤ 4095) :
    crcOk (applyErr f e) = false := by
  subst he
  have hd : d ≤ 32765 := by
    simp only [zeros, List.length_append, List.length_replicate, List.length_cons,
      List.length_nil] at hlen
    omega
  exact crcOk_applyErr_false f _ hok hlen (feed_double_ne_zero_period a d b hd)

/-! ### 4. tightness: distance exactly 32767 is not detected -/

set_option maxRecDepth 1000000 in
/-- two flipped bits at distance exactly 32767 (gap 32766) have syndrome zero.
    Proved in the form stated, by kernel evaluation of the 32768-step fold. -/
theorem double_bit_period_undetected : feed 0 ([true] ++ zeros 32766 ++ [true]) = 0 := by
  decide +kernel

/-- for every gap `d`: the two-bit pattern has syndrome zero iff the register, started at
    `0xA001 = step1 1`, is back at 1 after `d` bit times -/
theorem feed_double_zero_iff (d : Nat) :
    feed 0 ([true] ++ zeros d ++ [true]) = 0 ↔ feed 0xA001#16 (zeros d) = 1#16 := by
  have hc : feed 0 [true] = 0xA001#16 := by decide
  have hs : ∀ s : U16, feed s [true] = 0 ↔ s = 1#16 := by
    intro s
    constructor
    · intro h
      simp only [feed_cons, feed_nil] at h
      unfold feedBit at h
      exact BitVec.xor_eq_zero_iff.mp (step1_eq_zero _ h)
    · rintro rfl; decide
  rw [feed_append, feed_append, hc]
  exact hs _

/-- register form of the same fact: `step1^[32766] 0xA001 = 1`, i.e. `step1^[32767] 1 = 1` -/
theorem feed_period_returns : feed 0xA001#16 (zeros 32766) = 1#16 :=
  (feed_double_zero_iff 32766).mp double_bit_period_undetected

/-- the index in `noHit_period` cannot be raised (derived from item 4, no further evaluation) -/
theorem noHit_period_tight : noHit 1#16 32766 0xA001#16 = false := by
  cases hc : noHit 1#16 32766 0xA001#16 with
  | false => rfl
  | true => exact absurd feed_period_returns (noHit_spec _ _ _ hc 32766 (Nat.le_refl _))

/-- leading and trailing zeros do not change a zero syndrome -/
theorem feed_double_pad (a d b : Nat) (h : feed 0 ([true] ++ zeros d ++ [true]) = 0) :
    feed 0 (zeros a ++ [true] ++ zeros d ++ [true] ++ zeros b) = 0 := by
  rw [feed_append, feed_append] at h
  rw [feed_append, feed_append, feed_append, feed_append, feed_zero_zeros, h, feed_zero_zeros]

/-- the bound in `feed_double_ne_zero_period` cannot be raised: gap 32766, at any position -/
theorem feed_double_period_zero (a b : Nat) :
    feed 0 (zeros a ++ [true] ++ zeros 32766 ++ [true] ++ zeros b) = 0 :=
  feed_double_pad a 32766 b double_bit_period_undetected

/-- flipping bits by a pattern that contains a `true` changes the bit string -/
theorem xorBits_ne_self : ∀ (x e : List Bool), x.length = e.length → true ∈ e → xorBits x e ≠ x
  | [], [], _, ht => by simp at ht
  | [], _ :: _, hl, _ => by simp at hl
  | _ :: _, [], hl, _ => by simp at hl
  | a :: x, c :: e, hl, ht => by
    intro h
    simp only [xorBits, List.zipWith_cons_cons, List.cons.injEq] at h
    rcases List.mem_cons.mp ht with hc | ht'
    · subst hc
      cases a <;> simp at h
    · exact xorBits_ne_self x e (by simpa using hl) ht' h.2

/-- an error pattern with syndrome zero turns an accepted frame into an accepted frame -/
theorem crcOk_applyErr_true (f : Bytes) (e : List Bool) (hok : crcOk f = true)
    (hlen : e.length = 8 * f.length) (hz : feed 0 e = 0) : crcOk (applyErr f e) = true := by
  have h0 := (crcOk_iff_residue _).mp hok
  refine (crcOk_iff_residue _).mpr ⟨by rw [applyErr_length]; exact h0.1, ?_⟩
  have h1 := h0.2
  rw [add_eq_feed] at h1 ⊢
  rw [bitsOf_applyErr f e hlen, feed_affine _ _ _ (by rw [bitsOf_length, hlen]), h1, hz]
  simp

/-- the byte bound in `double_bit_detected_period` cannot be raised: in every accepted frame
    long enough to hold two bits at distance 32767 (i.e. of at least 4096 bytes), flipping two
    such bits, at any position, gives a DIFFERENT frame that is accepted as well -/
theorem double_bit_accepted_at_period (f : Bytes) (a b : Nat) (e : List Bool)
    (hok : crcOk f = true)
    (he : e = zeros a ++ [true] ++ zeros 32766 ++ [true] ++ zeros b)
    (hlen : e.length = 8 * f.length) :
    4096 ≤ f.length ∧ applyErr f e ≠ f ∧ crcOk (applyErr f e) = true := by
  subst he
  refine ⟨?_, ?_, crcOk_applyErr_true f _ hok hlen (feed_double_period_zero a b)⟩
  · simp only [zeros, List.length_append, List.length_replicate, List.length_cons,
      List.length_nil] at hlen
    omega
  · intro h
    have hb := bitsOf_applyErr f _ hlen
    rw [h] at hb
    exact xorBits_ne_self (bitsOf f) _ (by rw [bitsOf_length, hlen]) (by simp) hb.symm

/-! ### 5. non-vacuity

  Item 3 on the concrete RTU frame of `Props/C06.lean` (01 03 02 00 0a + CRC 38 43), double bit at
  positions 3 and 44; the conclusion agrees with direct evaluation. -/

open Modbus.Props.C06 (exFrame)

example : crcOk exFrame = true ∧
    (zeros 3 ++ [true] ++ zeros 40 ++ [true] ++ zeros 11).length = 8 * exFrame.length ∧
    exFrame.length ≤ 4095 := by decide +kernel

example : applyErr exFrame (zeros 3 ++ [true] ++ zeros 40 ++ [true] ++ zeros 11)
    = [0x09, 0x03, 0x02, 0x00, 0x0a, 0x28, 0x43] := by decide +kernel

example : crcOk (applyErr exFrame (zeros 3 ++ [true] ++ zeros 40 ++ [true] ++ zeros 11)) = false :=
  double_bit_detected_period exFrame 3 40 11 _ (by decide +kernel) rfl (by decide +kernel)
    (by decide +kernel)

example : crcOk (applyErr exFrame (zeros 3 ++ [true] ++ zeros 40 ++ [true] ++ zeros 11)) = false := by
  decide +kernel

-- the first and the last bit of the frame (positions 0 and 55)
example : crcOk (applyErr exFrame (zeros 0 ++ [true] ++ zeros 54 ++ [true] ++ zeros 0)) = false :=
  double_bit_detected_period exFrame 0 54 0 _ (by decide +kernel) rfl (by decide +kernel)
    (by decide +kernel)

/-- the hypotheses of `double_bit_accepted_at_period` are satisfiable: a 4096-byte accepted frame
    (4094 zero bytes and their CRC) and the pattern flipping its bits 0 and 32767 -/
def exLong : Bytes := List.replicate 4094 0 ++ Crc.crc16 (List.replicate 4094 0)

example : crcOk exLong = true := Modbus.Props.C06.crcOk_append_crc _

theorem exLong_length : exLong.length = 4096 := by
  rw [exLong, List.length_append, List.length_replicate]; rfl

theorem exLong_errLength :
    (zeros 0 ++ [true] ++ zeros 32766 ++ [true] ++ zeros 0).length = 8 * exLong.length := by
  rw [exLong_length]
  simp only [zeros, List.length_append, List.length_replicate, List.length_cons, List.length_nil]

example : applyErr exLong (zeros 0 ++ [true] ++ zeros 32766 ++ [true] ++ zeros 0) ≠ exLong ∧
    crcOk (applyErr exLong (zeros 0 ++ [true] ++ zeros 32766 ++ [true] ++ zeros 0)) = true :=
  (double_bit_accepted_at_period exLong 0 0 _ (Modbus.Props.C06.crcOk_append_crc _) rfl
    exLong_errLength).2

end Modbus.Props.C06Period

#print axioms Modbus.Props.C06Period.noHit_period
#print axioms Modbus.Props.C06Period.feed_double_ne_zero_period
#print axioms Modbus.Props.C06Period.double_bit_detected_period
#print axioms Modbus.Props.C06Period.double_bit_period_undetected
#print axioms Modbus.Props.C06Period.feed_double_zero_iff
#print axioms Modbus.Props.C06Period.feed_period_returns
#print axioms Modbus.Props.C06Period.noHit_period_tight
#print axioms Modbus.Props.C06Period.feed_double_pad
#print axioms Modbus.Props.C06Period.feed_double_period_zero
#print axioms Modbus.Props.C06Period.xorBits_ne_self
#print axioms Modbus.Props.C06Period.crcOk_applyErr_true
#print axioms Modbus.Props.C06Period.double_bit_accepted_at_period
#print axioms Modbus.Props.C06Period.exLong_length
#print axioms Modbus.Props.C06Period.exLong_errLength
