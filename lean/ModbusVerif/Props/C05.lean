import ModbusVerif.Lemmas.StreamLemmas
import ModbusVerif.Lemmas.MbapLemmas
/-
  C05 — transaction-id matching of the MBAP client (`readResponse` skip loop).
  A call returns only a PDU that was framed with the outstanding transaction id (and protocol
  id 0); frames with other ids or protocol ids, however many, are skipped and never returned.
-/
namespace Modbus.Props.C05
open Modbus Modbus.Strm Modbus.Mbap

-- `rsp03 hi lo` (MbapLemmas): the 0x03 read-holding-registers response ⟨unit 1, fc 3, [2, hi, lo]⟩
example : assemble 0x1235 (rsp03 0xAB 0xCD) = [0x12, 0x35, 0, 0, 0, 5, 1, 3, 2, 0xAB, 0xCD] := by decide

/-- the returned PDU was parsed from a frame that carries exactly the outstanding transaction id
    and protocol id 0; everything in front of it is a sequence of whole skipped frames -/
theorem C05_returned_has_own_id {txn : U16} {s rest : Bytes} {e : Ending} {p : Pdu}
    (h : readResponse txn s e = (.ok p, rest)) :
    ∃ pre, Skippable txn pre ∧ p.payload.length ≤ 252 ∧ s = pre ++ assemble txn p ++ rest :=
  readResponse_ok_inv s.length s rest (Nat.le_refl _) h

example : readResponse 0x1235
    (assemble 0x1234 (rsp03 0 1) ++ assemble 0x1235 (rsp03 0xAB 0xCD) ++ [0xFF]) .timeout =
    (.ok (rsp03 0xAB 0xCD), [0xFF]) := by decide

/-- a stream made only of foreign frames (other transaction id, or non-zero protocol id): the
    call keeps reading until the stream ends and returns the Read error of the stream ending
    (timeout / EOF / reset) — never a PDU -/
theorem C05_foreign_never_returned {txn : U16} {s : Bytes} (e : Ending) (h : Skippable txn s) :
    readResponse txn s e = (.error e.err, []) := by
  have := readResponse_skip [] e h
  rw [List.append_nil] at this
  rw [this, readResponse_nil]

/-- the same with the foreign frames listed explicitly as `(protocol id, transaction id, pdu)` -/
theorem C05_foreign_frames_never_returned {txn : U16} (fs : List (U16 × U16 × Pdu)) (e : Ending)
    (h : ∀ f ∈ fs, (f.1 ≠ 0 ∨ f.2.1 ≠ txn) ∧ f.2.2.payload.length ≤ 252) :
    readResponse txn (fs.map (fun f => assembleProto f.1 f.2.1 f.2.2)).flatten e =
      (.error e.err, []) :=
  C05_foreign_never_returned e (skippable_of_frames fs h)

example : ∀ f ∈ [((0 : U16), (0x1234 : U16), rsp03 0 1), (7, 0x1235, rsp03 0 2), (0, 0x1236, rsp03 0 3)],
    (f.1 ≠ 0 ∨ f.2.1 ≠ 0x1235) ∧ f.2.2.payload.length ≤ 252 := by decide
example : readResponse 0x1235
    (assemble 0x1234 (rsp03 0 1) ++ assembleProto 7 0x1235 (rsp03 0 2) ++ assemble 0x1236 (rsp03 0 3))
    .timeout = (.error .ioTimeout, []) := by decide

/-- delayed / duplicated foreign frames in front do not prevent the own reply from being
    returned, and exactly the bytes up to the end of the own frame are consumed -/
theorem C05_own_after_foreign {txn : U16} {pre : Bytes} (p : Pdu) (post : Bytes) (e : Ending)
    (hpre : Skippable txn pre) (hp : p.payload.length ≤ 252) :
    readResponse txn (pre ++ assemble txn p ++ post) e = (.ok p, post) := by
  rw [List.append_assoc, readResponse_skip _ e hpre,
    readResponse_ok (readFrame_assemble txn p post e hp), if_pos rfl]

example : Skippable 0x1235 (assemble 0x1234 (rsp03 0 1) ++ assembleProto 7 0x1235 (rsp03 0 2)) := by
  have h := Skippable.foreignTxn (txn := 0x1235) 0x1234 (rsp03 0 1) _ (by decide) (by decide)
    (Skippable.foreignProto 7 0x1235 (rsp03 0 2) [] (by decide) (by decide) .nil)
  simpa using h

/-- an own reply that is cut short (stream ends inside the frame) is not returned either -/
theorem C05_truncated_own_reply {txn : U16} {pre s t : Bytes} {p : Pdu} (e : Ending)
    (hpre : Skippable txn pre) (hp : p.payload.length ≤ 252)
    (hst : s ++ t = assemble txn p) (ht : t ≠ []) :
    readResponse txn (pre ++ s) e =
      (.error (shortErr (if s.length < 7 then s.length else s.length - 7) e), []) := by
  rw [readResponse_skip _ e hpre]
  rw [assemble_eq_assembleProto] at hst
  exact readResponse_err (readFrame_strict_prefix e hp hst ht) (shortErr_ne_unknownProtocolId _ e)

example : readResponse 0x1235
    (assemble 0x1234 (rsp03 0 1) ++ (assemble 0x1235 (rsp03 0xAB 0xCD)).take 10) .eof =
    (.error .ioUnexpectedEOF, []) := by decide

/-- consecutive requests use `lastTxn + 1` (16-bit wrap-around): the ids of any 65536
    consecutive requests are pairwise distinct -/
theorem C05_ids_distinct (t : U16) (k : Nat) (h0 : 0 < k) (hk : k < 65536) :
    t + BitVec.ofNat 16 k ≠ t :=
  add_ofNat_ne t k h0 hk

example : (0xFFFF : U16) + BitVec.ofNat 16 1 = 0 := by decide
example : (0x1234 : U16) + BitVec.ofNat 16 65536 = 0x1234 := by decide

theorem C05_txnOf_distinct (t0 : U16) {m n : Nat}
    (h : (0 < n - m ∧ n - m < 65536) ∨ (0 < m - n ∧ m - n < 65536)) :
    txnOf t0 m ≠ txnOf t0 n :=
  txnOf_ne t0 h

/-- the reply to request `m` is skippable for request `n` whenever the two are less than 65536
    requests apart -/
theorem C05_stale_reply_skippable (t0 : U16) {m n : Nat} (p : Pdu)
    (h : (0 < n - m ∧ n - m < 65536) ∨ (0 < m - n ∧ m - n < 65536))
    (hp : p.payload.length ≤ 252) :
    Skippable (txnOf t0 n) (assemble (txnOf t0 m) p) := by
  have := Skippable.foreignTxn (txn := txnOf t0 n) (txnOf t0 m) p [] (txnOf_ne t0 h) hp .nil
  rwa [List.append_nil] at this

/-- history theorem: during request `n`, stale replies to other requests `m_i`
    (0 < |n - m_i| < 65536) are never accepted:
    followed by the own reply, the own reply is returned (and nothing beyond it is consumed);
    without the own reply, the call ends with the stream-end error. -/
theorem C05_late_reply_not_accepted (t0 : U16) (n : Nat) (stale : List (Nat × Pdu))
    (p : Pdu) (post : Bytes) (e : Ending)
    (h : ∀ mp ∈ stale, ((0 < n - mp.1 ∧ n - mp.1 < 65536) ∨ (0 < mp.1 - n ∧ mp.1 - n < 65536)) ∧
      mp.2.payload.length ≤ 252)
    (hp : p.payload.length ≤ 252) :
    readResponse (txnOf t0 n) (staleStream t0 stale ++ assemble (txnOf t0 n) p ++ post) e
      = (.ok p, post) ∧
    readResponse (txnOf t0 n) (staleStream t0 stale) e = (.error e.err, []) :=
  ⟨C05_own_after_foreign p post e (skippable_staleStream t0 n stale h) hp,
   C05_foreign_never_returned e (skippable_staleStream t0 n stale h)⟩

example : ∀ mp ∈ [(3, rsp03 0 1), (4, rsp03 0 2), (3, rsp03 0 1)],
    ((0 < 5 - mp.1 ∧ 5 - mp.1 < 65536) ∨ (0 < mp.1 - 5 ∧ mp.1 - 5 < 65536)) ∧
      mp.2.payload.length ≤ 252 := by decide
example : readResponse (txnOf 0xFFFE 5)
    (staleStream 0xFFFE [(3, rsp03 0 1), (4, rsp03 0 2), (3, rsp03 0 1)] ++
      assemble (txnOf 0xFFFE 5) (rsp03 0xAB 0xCD) ++ [1, 2]) .timeout =
    (.ok (rsp03 0xAB 0xCD), [1, 2]) := by decide
/-- the bound is sharp: a reply exactly 65536 requests old carries the same id and is accepted -/
example : readResponse (txnOf 0x1230 65541) (assemble (txnOf 0x1230 5) (rsp03 0 1)) .timeout =
    (.ok (rsp03 0 1), []) := by decide

end Modbus.Props.C05

#print axioms Modbus.Props.C05.C05_returned_has_own_id
#print axioms Modbus.Props.C05.C05_foreign_never_returned
#print axioms Modbus.Props.C05.C05_foreign_frames_never_returned
#print axioms Modbus.Props.C05.C05_own_after_foreign
#print axioms Modbus.Props.C05.C05_truncated_own_reply
#print axioms Modbus.Props.C05.C05_ids_distinct
#print axioms Modbus.Props.C05.C05_txnOf_distinct
#print axioms Modbus.Props.C05.C05_stale_reply_skippable
#print axioms Modbus.Props.C05.C05_late_reply_not_accepted
