import ModbusVerif.Lemmas.GoEvalWrapLemmas
import ModbusVerif.Lemmas.SegmentationLemmas
import ModbusVerif.Props.C12
/-
  C12, source tie for the UDP datagram → stream adapter: udp.go `udpSockWrapper.Read` and
  `newUDPSockWrapper`, as rendered by the translator (`Gen.gs_udpSockWrapper_Read`,
  `Gen.gs_newUDPSockWrapper`; regenerated from /repo on every run), EVALUATED by `Modbus.GoEval`.
  Proved: the COUNTS the source computes (`rlen`, the new `usw.leftoverCount`, whether the socket is
  read, whether the left-over bytes are shifted to the front of `usw.rxbuf`) are those of the model
  `Udp.read` (Model/Udp.lean), for every buffer length, every left-over count ≤ 260 and every
  datagram queue - so `C12_udp_read`, `C12_udp_readFull` (Props/C12.lean) and everything built on
  `Udp.readFullU` (Props/C12Ext.lean) are statements about the bookkeeping of the code.

  How the run is set up (Lemmas/GoEvalWrapLemmas.lean, part 3):
  * the builtin `copy(dst, src)` is a STAGED oracle answering `min (len dst) (len src)`, the two
    lengths being computed from the environment at the moment of the call: `len(buf) = n` (the
    parameter of the theorems), `len(usw.rxbuf) = cap`, and a slice expression `usw.rxbuf[lo:hi]`
    (parsed from the TEXT of the leaf) has length `hi - lo` for the CURRENT values of `lo`/`hi`
    (`copied`, `rlen`, `usw.leftoverCount`, or the numeral 0), provided `0 ≤ lo ≤ hi ≤ cap`
    (otherwise Go panics: the run would stay stopped at that `copy` - it never does);
  * `usw.sock.Read [usw.rxbuf]` answers `(m, e)`; for the tie to the model `m = min cap (len d)`,
    `e = nil` for the first queued datagram `d` (a datagram socket delivers one datagram per read,
    truncated to the buffer), and `(0, failErr)` with a non-nil error if nothing is queued;
  * `var copied int` and the named results start at their zero values.
  `cap` = 260: `C12U_rxbuf_size`.

  What is NOT derived from the generated term: WHICH bytes `copy` moves (it is the Go builtin; its
  arguments are in the call log by their source text: `buf ← usw.rxbuf[0:k]`,
  `usw.rxbuf ← usw.rxbuf[copied:k]`), see `C12U_bytes_of_counts` for the by-hand reading.
-/
set_option linter.unusedSimpArgs false
set_option linter.unusedVariables false

namespace Modbus.Props.C12
open Modbus Modbus.Gen Modbus.GoEval

/-! ## 1. the run -/

/-- `len(buf) = n`, `len(usw.rxbuf) = cap(usw.rxbuf) = cap` -/
def udpLens (n cap : Nat) : List (String × Nat) := [("buf", n), ("usw.rxbuf", cap)]
def udpLen (n cap : Nat) : Env → Val → Option Nat := lenOfVal (udpLens n cap)

/-- the state `usw.leftoverCount = L`; every slice leaf is the symbol of its own text; the named
    results and `var copied int` at their zero values -/
def udpEnv (L : Nat) : Env :=
  [("usw.leftoverCount", .int L), ("buf", .sym "buf"), ("usw.rxbuf", .sym "usw.rxbuf"),
   ("usw.rxbuf[0:usw.leftoverCount]", .sym "usw.rxbuf[0:usw.leftoverCount]"),
   ("usw.rxbuf[copied:usw.leftoverCount]", .sym "usw.rxbuf[copied:usw.leftoverCount]"),
   ("usw.rxbuf[0:rlen]", .sym "usw.rxbuf[0:rlen]"),
   ("usw.rxbuf[copied:rlen]", .sym "usw.rxbuf[copied:rlen]"),
   ("rlen", .int 0), ("err", .sym "nil"), ("copied", .int 0)]

/-- only `usw.sock.Read` is answered (with `sock`); `copy` is added by `copyOracle` -/
def sockOracle (sock : List Val) : Oracle := fun f _ =>
  if f = "usw.sock.Read" then some sock else none

def udpStage (fuel L : Nat) (sock : List Val) (ans : CopyAns) : Res :=
  exec (copyOracle (sockOracle sock) ans) fuel gs_udpSockWrapper_Read (udpEnv L)

/-- `udpSockWrapper.Read(buf)` with `len(buf) = n`, `usw.leftoverCount = L`, a receive buffer of
    `cap` bytes, the socket answering `sock`; at most two `copy` calls are answered (there are
    never more: the run returns) -/
def udpRun (fuel n cap L : Nat) (sock : List Val) : Res :=
  stagedCopy (udpStage fuel L sock) (udpLen n cap) 2 []

/-! ### the four slice texts and their lengths -/

theorem ps1 : parseSlice "usw.rxbuf[0:usw.leftoverCount]" = some ("usw.rxbuf", "0", "usw.leftoverCount") := by
  decide +kernel
theorem ps2 : parseSlice "usw.rxbuf[copied:usw.leftoverCount]" =
    some ("usw.rxbuf", "copied", "usw.leftoverCount") := by decide +kernel
theorem ps3 : parseSlice "usw.rxbuf[0:rlen]" = some ("usw.rxbuf", "0", "rlen") := by decide +kernel
theorem ps4 : parseSlice "usw.rxbuf[copied:rlen]" = some ("usw.rxbuf", "copied", "rlen") := by
  decide +kernel
theorem nc0 : natOfChars "0".toList = some 0 := by decide +kernel
theorem ncL : natOfChars "usw.leftoverCount".toList = none := by decide +kernel
theorem ncC : natOfChars "copied".toList = none := by decide +kernel
theorem ncR : natOfChars "rlen".toList = none := by decide +kernel

theorem len_buf (n cap env) : udpLen n cap env (.sym "buf") = some n := by
  simp only [udpLen, lenOfVal_sym, udpLens]
  exact lenOfText_whole _ _ _ _ (by simp only [lenLookup_cons, ↓reduceIte])
theorem len_rxbuf (n cap env) : udpLen n cap env (.sym "usw.rxbuf") = some cap := by
  simp only [udpLen, lenOfVal_sym, udpLens]
  exact lenOfText_whole _ _ _ _ (by simp only [lenLookup_cons, String.reduceEq, ↓reduceIte])
theorem len_s1 (n cap env) : udpLen n cap env (.sym "usw.rxbuf[0:usw.leftoverCount]") =
    slice2 (some 0) (intOf? (Env.read env "usw.leftoverCount")) cap := by
  simp only [udpLen, lenOfVal_sym, udpLens]
  rw [lenOfText_slice _ _ _ _ _ _ cap
    (by simp only [lenLookup_cons, lenLookup_nil, String.reduceEq, ↓reduceIte]) ps1
    (by simp only [lenLookup_cons, String.reduceEq, ↓reduceIte]),
    boundVal_num _ _ _ nc0, boundVal_var _ _ ncL]
  rfl
theorem len_s2 (n cap env) : udpLen n cap env (.sym "usw.rxbuf[copied:usw.leftoverCount]") =
    slice2 (intOf? (Env.read env "copied")) (intOf? (Env.read env "usw.leftoverCount")) cap := by
  simp only [udpLen, lenOfVal_sym, udpLens]
  rw [lenOfText_slice _ _ _ _ _ _ cap
    (by simp only [lenLookup_cons, lenLookup_nil, String.reduceEq, ↓reduceIte]) ps2
    (by simp only [lenLookup_cons, String.reduceEq, ↓reduceIte]),
    boundVal_var _ _ ncC, boundVal_var _ _ ncL]
theorem len_s3 (n cap env) : udpLen n cap env (.sym "usw.rxbuf[0:rlen]") =
    slice2 (some 0) (intOf? (Env.read env "rlen")) cap := by
  simp only [udpLen, lenOfVal_sym, udpLens]
  rw [lenOfText_slice _ _ _ _ _ _ cap
    (by simp only [lenLookup_cons, lenLookup_nil, String.reduceEq, ↓reduceIte]) ps3
    (by simp only [lenLookup_cons, String.reduceEq, ↓reduceIte]),
    boundVal_num _ _ _ nc0, boundVal_var _ _ ncR]
  rfl
theorem len_s4 (n cap env) : udpLen n cap env (.sym "usw.rxbuf[copied:rlen]") =
    slice2 (intOf? (Env.read env "copied")) (intOf? (Env.read env "rlen")) cap := by
  simp only [udpLen, lenOfVal_sym, udpLens]
  rw [lenOfText_slice _ _ _ _ _ _ cap
    (by simp only [lenLookup_cons, lenLookup_nil, String.reduceEq, ↓reduceIte]) ps4
    (by simp only [lenLookup_cons, String.reduceEq, ↓reduceIte]),
    boundVal_var _ _ ncC, boundVal_var _ _ ncR]

theorem sliceLen_nat (lo hi cap : Nat) (h1 : lo ≤ hi) (h2 : hi ≤ cap) :
    sliceLen (lo : Int) (hi : Int) cap = some (hi - lo) := by
  rw [sliceLen_def, if_pos ⟨by omega, by omega, by omega⟩]
  congr 1; omega

theorem nextCopy_at (len : Env → Val → Option Nat) (env cs) (d s : Val) (a b : Nat)
    (ha : len env d = some a) (hb : len env s = some b) :
    nextCopy len ⟨env, .stoppedAt "copy" [d, s], cs⟩ = some ([d, s], min a b) := by
  rw [nextCopy_stopped, if_pos rfl, copyCount_some len env [d, s] a b ha hb]
  rfl

/-- evaluate one stage -/
syntax "udp_eval" " [" Lean.Parser.Tactic.simpLemma,* "]" : tactic
macro_rules
  | `(tactic| udp_eval [$ls,*]) => `(tactic|
    go_eval_nowrap [udpStage, gs_udpSockWrapper_Read, udpEnv, copyOracle_def, sockOracle,
      argsLookup_cons, argsLookup_nil, List.cons.injEq, Val.sym.injEq, Val.int.injEq, write_def,
      and_false, false_and, ne_eq, not_true_eq_false, not_false_eq_true, decide_true, decide_false,
      $ls,*])

/-- read a variable in an explicit environment -/
syntax "env_read" : tactic
macro_rules
  | `(tactic| env_read) => `(tactic|
    simp only [udpEnv, read_def, read?_cons, String.reduceEq, ↓reduceIte, Option.getD_some,
      intOf?_int, slice2_some])

theorem udpStage_fuel (fuel L sock ans) (hf : 8 ≤ fuel) : udpStage fuel L sock ans = udpStage 8 L sock ans := by
  unfold udpStage
  exact exec_loopFree _ _ 8 fuel _ (by decide) (by decide) hf

theorem udpRun_fuel (fuel n cap L sock) (hf : 8 ≤ fuel) : udpRun fuel n cap L sock = udpRun 8 n cap L sock := by
  unfold udpRun
  have : udpStage fuel L sock = udpStage 8 L sock := funext (fun ans => udpStage_fuel fuel L sock ans hf)
  rw [this]

/-! ### (a) left-over bytes: `usw.leftoverCount > 0` -/

abbrev copy1 : List Val := [.sym "buf", .sym "usw.rxbuf[0:usw.leftoverCount]"]
abbrev copy2 : List Val := [.sym "usw.rxbuf", .sym "usw.rxbuf[copied:usw.leftoverCount]"]
abbrev copy3 : List Val := [.sym "buf", .sym "usw.rxbuf[0:rlen]"]
abbrev copy4 : List Val := [.sym "usw.rxbuf", .sym "usw.rxbuf[copied:rlen]"]

theorem stageA0 (L : Nat) (hL : 0 < L) (sock) :
    udpStage 8 L sock [] = ⟨udpEnv L, .stoppedAt "copy" copy1, []⟩ := by
  have h : (L : Int) > 0 := by omega
  udp_eval [h]

theorem nextA0 (n cap L : Nat) (hc : L ≤ cap) (cs) :
    nextCopy (udpLen n cap) ⟨udpEnv L, .stoppedAt "copy" copy1, cs⟩ = some (copy1, min n L) := by
  refine nextCopy_at _ _ _ _ _ n L (len_buf _ _ _) ?_
  rw [len_s1]
  env_read
  simpa using sliceLen_nat 0 L cap (by omega) hc

theorem stageA1_shift (L c : Nat) (hL : 0 < L) (hc : c < L) (sock) :
    udpStage 8 L sock [(copy1, [.int c])] =
      ⟨("copied", .int c) :: udpEnv L, .stoppedAt "copy" copy2, [("copy", copy1)]⟩ := by
  have h : (L : Int) > 0 := by omega
  have h2 : (L : Int) > (c : Int) := by omega
  udp_eval [h, h2]

/-- final environment of a run: what was assigned on top of the initial one -/
def udpFinal (c l : Nat) (base : Env) : Env :=
  ("rlen", .int c) :: ("usw.leftoverCount", .int l) :: base

theorem stageA1_noshift (L : Nat) (hL : 0 < L) (sock) :
    udpStage 8 L sock [(copy1, [.int L])] =
      ⟨udpFinal L 0 (("copied", .int L) :: udpEnv L), .returned, [("copy", copy1)]⟩ := by
  have h : (L : Int) > 0 := by omega
  have h2 : ¬ ((L : Int) > (L : Int)) := by omega
  have hw : wrap .int ((L : Int) - (L : Int)) = ((0 : Nat) : Int) := by
    rw [Int.sub_self]; exact wrap_int (by omega) (by omega)
  udp_eval [h, h2, hw, udpFinal]

theorem nextA1 (n cap L c : Nat) (hcL : c ≤ L) (hc : L ≤ cap) (cs) :
    nextCopy (udpLen n cap) ⟨("copied", .int c) :: udpEnv L, .stoppedAt "copy" copy2, cs⟩ =
      some (copy2, min cap (L - c)) := by
  refine nextCopy_at _ _ _ _ _ cap (L - c) (len_rxbuf _ _ _) ?_
  rw [len_s2]
  env_read
  exact sliceLen_nat c L cap hcL hc

theorem stageA2 (L c c2 : Nat) (hL : 0 < L) (hc : c < L) (hb : L < 9223372036854775808) (sock) :
    udpStage 8 L sock [(copy1, [.int c]), (copy2, [.int c2])] =
      ⟨udpFinal c (L - c) (("copied", .int c) :: udpEnv L), .returned,
        [("copy", copy1), ("copy", copy2)]⟩ := by
  have h : (L : Int) > 0 := by omega
  have h2 : (L : Int) > (c : Int) := by omega
  have hw : wrap .int ((L : Int) - (c : Int)) = ((L - c : Nat) : Int) := by
    rw [wrap_int (by omega) (by omega)]; omega
  udp_eval [h, h2, hw, udpFinal]

/-- (a) the whole run with left-over bytes -/
theorem udp_run_leftover (fuel n cap L : Nat) (hf : 8 ≤ fuel) (hL : 0 < L) (hc : L ≤ cap)
    (hcap : cap < 9223372036854775808)
    (sock : List Val) :
    udpRun fuel n cap L sock =
      ⟨udpFinal (min n L) (L - min n L) (("copied", .int (min n L : Nat)) :: udpEnv L), .returned,
        ("copy", copy1) :: (if min n L < L then [("copy", copy2)] else [])⟩ := by
  rw [udpRun_fuel _ _ _ _ _ hf]
  unfold udpRun
  rw [stagedCopy_next _ _ _ _ _ _ (by rw [stageA0 L hL]; exact nextA0 n cap L hc _)]
  simp only [List.nil_append]
  by_cases hlt : min n L < L
  · rw [stagedCopy_next _ _ _ _ _ _
      (by rw [stageA1_shift L _ hL hlt]; exact nextA1 n cap L _ (by omega) hc _)]
    simp only [List.cons_append, List.nil_append]
    rw [stagedCopy_zero, stageA2 L _ _ hL hlt (by omega), if_pos hlt]
  · have hm : min n L = L := by omega
    rw [hm, stagedCopy_done _ _ _ _ (by rw [stageA1_noshift L hL]; exact nextCopy_returned _ _ _),
      stageA1_noshift L hL, if_neg (by omega), Nat.sub_self]

/-! ### (b) nothing left over: `usw.leftoverCount = 0` -/

/-- the socket read fails: the run returns `(m, e)` as the socket gave them, nothing else happens -/
theorem udp_run_sock_error (fuel n cap : Nat) (hf : 8 ≤ fuel) (m : Int) (e : String) (he : e ≠ "nil") :
    udpRun fuel n cap 0 [.int m, .sym e] =
      ⟨("err", .sym e) :: ("rlen", .int m) :: udpEnv 0, .returned,
        [("usw.sock.Read", [.sym "usw.rxbuf"])]⟩ := by
  rw [udpRun_fuel _ _ _ _ _ hf]
  unfold udpRun
  have h0 : ¬ (((0 : Nat) : Int) > 0) := by omega
  have hs : udpStage 8 0 [.int m, .sym e] [] =
      ⟨("err", .sym e) :: ("rlen", .int m) :: udpEnv 0, .returned,
        [("usw.sock.Read", [.sym "usw.rxbuf"])]⟩ := by
    udp_eval [h0, he]
  rw [stagedCopy_done _ _ _ _ (by rw [hs]; exact nextCopy_returned _ _ _), hs]

/-- the environment after a successful socket read of `m` bytes -/
def udpEnvB (m : Nat) : Env := ("err", .sym "nil") :: ("rlen", .int m) :: udpEnv 0

theorem stageB0 (m : Nat) :
    udpStage 8 0 [.int m, .sym "nil"] [] =
      ⟨udpEnvB m, .stoppedAt "copy" copy3, [("usw.sock.Read", [.sym "usw.rxbuf"])]⟩ := by
  have h0 : ¬ (((0 : Nat) : Int) > 0) := by omega
  udp_eval [h0, udpEnvB]

theorem nextB0 (n cap m : Nat) (hc : m ≤ cap) (cs) :
    nextCopy (udpLen n cap) ⟨udpEnvB m, .stoppedAt "copy" copy3, cs⟩ = some (copy3, min n m) := by
  refine nextCopy_at _ _ _ _ _ n m (len_buf _ _ _) ?_
  rw [len_s3]
  simp only [udpEnvB]
  env_read
  simpa using sliceLen_nat 0 m cap (by omega) hc

theorem stageB1_shift (m c : Nat) (hc : c < m) :
    udpStage 8 0 [.int m, .sym "nil"] [(copy3, [.int c])] =
      ⟨("copied", .int c) :: udpEnvB m, .stoppedAt "copy" copy4,
        [("usw.sock.Read", [.sym "usw.rxbuf"]), ("copy", copy3)]⟩ := by
  have h0 : ¬ (((0 : Nat) : Int) > 0) := by omega
  have h2 : (m : Int) > (c : Int) := by omega
  udp_eval [h0, h2, udpEnvB]

theorem stageB1_noshift (m : Nat) :
    udpStage 8 0 [.int m, .sym "nil"] [(copy3, [.int m])] =
      ⟨udpFinal m 0 (("copied", .int m) :: udpEnvB m), .returned,
        [("usw.sock.Read", [.sym "usw.rxbuf"]), ("copy", copy3)]⟩ := by
  have h0 : ¬ (((0 : Nat) : Int) > 0) := by omega
  have h2 : ¬ ((m : Int) > (m : Int)) := by omega
  have hw : wrap .int ((m : Int) - (m : Int)) = ((0 : Nat) : Int) := by
    rw [Int.sub_self]; exact wrap_int (by omega) (by omega)
  udp_eval [h0, h2, hw, udpFinal, udpEnvB]

theorem nextB1 (n cap m c : Nat) (hcm : c ≤ m) (hc : m ≤ cap) (cs) :
    nextCopy (udpLen n cap) ⟨("copied", .int c) :: udpEnvB m, .stoppedAt "copy" copy4, cs⟩ =
      some (copy4, min cap (m - c)) := by
  refine nextCopy_at _ _ _ _ _ cap (m - c) (len_rxbuf _ _ _) ?_
  rw [len_s4]
  simp only [udpEnvB]
  env_read
  exact sliceLen_nat c m cap hcm hc

theorem stageB2 (m c c2 : Nat) (hc : c < m) (hb : m < 9223372036854775808) :
    udpStage 8 0 [.int m, .sym "nil"] [(copy3, [.int c]), (copy4, [.int c2])] =
      ⟨udpFinal c (m - c) (("copied", .int c) :: udpEnvB m), .returned,
        [("usw.sock.Read", [.sym "usw.rxbuf"]), ("copy", copy3), ("copy", copy4)]⟩ := by
  have h0 : ¬ (((0 : Nat) : Int) > 0) := by omega
  have h2 : (m : Int) > (c : Int) := by omega
  have hw : wrap .int ((m : Int) - (c : Int)) = ((m - c : Nat) : Int) := by
    rw [wrap_int (by omega) (by omega)]; omega
  udp_eval [h0, h2, hw, udpFinal, udpEnvB]

/-- (b) the whole run without left-over bytes, the socket delivering `m ≤ cap` bytes -/
theorem udp_run_fresh (fuel n cap m : Nat) (hf : 8 ≤ fuel) (hc : m ≤ cap)
    (hcap : cap < 9223372036854775808) :
    udpRun fuel n cap 0 [.int m, .sym "nil"] =
      ⟨udpFinal (min n m) (m - min n m) (("copied", .int (min n m : Nat)) :: udpEnvB m), .returned,
        ("usw.sock.Read", [.sym "usw.rxbuf"]) :: ("copy", copy3) ::
          (if min n m < m then [("copy", copy4)] else [])⟩ := by
  rw [udpRun_fuel _ _ _ _ _ hf]
  unfold udpRun
  rw [stagedCopy_next _ _ _ _ _ _ (by rw [stageB0 m]; exact nextB0 n cap m hc _)]
  simp only [List.nil_append]
  by_cases hlt : min n m < m
  · rw [stagedCopy_next _ _ _ _ _ _
      (by rw [stageB1_shift m _ hlt]; exact nextB1 n cap m _ (by omega) hc _)]
    simp only [List.cons_append, List.nil_append]
    rw [stagedCopy_zero, stageB2 m _ _ hlt (by omega), if_pos hlt]
  · have hm : min n m = m := by omega
    rw [hm, stagedCopy_done _ _ _ _ (by rw [stageB1_noshift m]; exact nextCopy_returned _ _ _),
      stageB1_noshift m, if_neg (by omega), Nat.sub_self]

/-! ## 2. the statements -/

def rlenOf (r : Res) : Val := Env.read r.env "rlen"
def errOf (r : Res) : Val := Env.read r.env "err"
def leftOf (r : Res) : Val := Env.read r.env "usw.leftoverCount"
/-- argument lists of the socket reads / of the `copy` calls performed, in order -/
def sockReads (r : Res) : List (List Val) := r.argsOf "usw.sock.Read"
def copies (r : Res) : List (List Val) := r.argsOf "copy"

/-- (a) LEFT-OVER BYTES (`usw.leftoverCount = L > 0`, `L ≤ cap`), whatever the socket would
    answer: the run returns; NO socket read; `rlen = min(len buf, L)`, `err` stays nil;
    new `usw.leftoverCount = L - rlen`; `copy(buf, usw.rxbuf[0:usw.leftoverCount])` is performed, and
    the shift `copy(usw.rxbuf, usw.rxbuf[copied:usw.leftoverCount])` iff bytes remain
    (`L - rlen > 0`); no slice expression is out of range. -/
theorem C12U_read_leftover (fuel n cap L : Nat) (hf : 8 ≤ fuel) (hL : 0 < L) (hc : L ≤ cap)
    (hcap : cap < 9223372036854775808) (sock : List Val) :
    let r := udpRun fuel n cap L sock
    r.how = .returned ∧ sockReads r = [] ∧
    rlenOf r = .int (min n L : Nat) ∧ errOf r = .sym "nil" ∧ leftOf r = .int (L - min n L : Nat) ∧
    copies r = copy1 :: (if 0 < L - min n L then [copy2] else []) := by
  intro r
  have hr : r = _ := udp_run_leftover fuel n cap L hf hL hc hcap sock
  rw [hr]
  refine ⟨rfl, ?_, rfl, rfl, rfl, ?_⟩
  · by_cases h : min n L < L <;> simp [h, sockReads, Res.argsOf]
  · by_cases h : min n L < L
    · have h' : 0 < L - min n L := by omega
      simp [h, h', copies, Res.argsOf]
    · have h' : ¬ 0 < L - min n L := by omega
      simp [h, h', copies, Res.argsOf]

/-- (b) NOTHING LEFT OVER (`usw.leftoverCount = 0`), the socket read succeeding with `m ≤ cap`
    bytes: exactly one `usw.sock.Read [usw.rxbuf]` (the WHOLE receive buffer);
    `rlen = min(len buf, m)`, `err = nil`; `usw.leftoverCount = m - rlen`;
    `copy(buf, usw.rxbuf[0:rlen])`, and the shift `copy(usw.rxbuf, usw.rxbuf[copied:rlen])` iff
    bytes remain. -/
theorem C12U_read_fresh (fuel n cap m : Nat) (hf : 8 ≤ fuel) (hc : m ≤ cap)
    (hcap : cap < 9223372036854775808) :
    let r := udpRun fuel n cap 0 [.int m, .sym "nil"]
    r.how = .returned ∧ sockReads r = [[.sym "usw.rxbuf"]] ∧
    rlenOf r = .int (min n m : Nat) ∧ errOf r = .sym "nil" ∧ leftOf r = .int (m - min n m : Nat) ∧
    copies r = copy3 :: (if 0 < m - min n m then [copy4] else []) := by
  intro r
  have hr : r = _ := udp_run_fresh fuel n cap m hf hc hcap
  rw [hr]
  refine ⟨rfl, ?_, rfl, rfl, rfl, ?_⟩
  · by_cases h : min n m < m <;> simp [h, sockReads, Res.argsOf]
  · by_cases h : min n m < m
    · have h' : 0 < m - min n m := by omega
      simp [h, h', copies, Res.argsOf]
    · have h' : ¬ 0 < m - min n m := by omega
      simp [h, h', copies, Res.argsOf]

/-- (b, error) the socket read fails with a non-nil error `e` and count `m`: the run returns
    `(rlen, err) = (m, e)` AS THE SOCKET GAVE THEM right after the one socket read; no `copy`,
    `usw.leftoverCount` is not assigned (stays 0). -/
theorem C12U_read_sock_error (fuel n cap : Nat) (hf : 8 ≤ fuel) (m : Int) (e : String) (he : e ≠ "nil") :
    let r := udpRun fuel n cap 0 [.int m, .sym e]
    r.how = .returned ∧ sockReads r = [[.sym "usw.rxbuf"]] ∧ copies r = [] ∧
    rlenOf r = .int m ∧ errOf r = .sym e ∧ leftOf r = .int 0 := by
  intro r
  have hr : r = _ := udp_run_sock_error fuel n cap hf m e he
  rw [hr]
  exact ⟨rfl, rfl, rfl, rfl, rfl, rfl⟩

/-- (c) `newUDPSockWrapper`: the receive buffer is `make([]byte, maxTCPFrameLength)` = 260 bytes
    = `Udp.rxbufLen`; `leftoverCount` is not set (zero). No method of the wrapper assigns
    `usw.rxbuf` afterwards, only `Read` assigns `usw.leftoverCount`, and the socket read is given
    the whole `usw.rxbuf`. -/
theorem C12U_rxbuf_size :
    assignedTexts "usw" gs_newUDPSockWrapper =
      [some "&udpSockWrapper{ rxbuf: make([]byte, maxTCPFrameLength), sock: sock.(*net.UDPConn), }"] ∧
    (assignedTexts "usw" gs_newUDPSockWrapper).map
        (fun t => (t.bind (fun l => litField l "rxbuf"))) = [some "make([]byte, maxTCPFrameLength)"] ∧
    (assignedTexts "usw" gs_newUDPSockWrapper).map
        (fun t => ((t.bind (fun l => litField l "rxbuf")).bind makeLen?).bind goIntText?) = [some 260] ∧
    intConst? "maxTCPFrameLength" = some 260 ∧ Udp.rxbufLen = 260 ∧
    (assignedTexts "usw" gs_newUDPSockWrapper).map
        (fun t => (t.bind (fun l => litField l "leftoverCount"))) = [none] ∧
    ([gs_udpSockWrapper_Read, gs_udpSockWrapper_Write, gs_udpSockWrapper_Close,
      gs_udpSockWrapper_SetDeadline, gs_udpSockWrapper_SetReadDeadline,
      gs_udpSockWrapper_SetWriteDeadline, gs_udpSockWrapper_LocalAddr,
      gs_udpSockWrapper_RemoteAddr].map
        (fun s => (stmtTargets s).filter (fun t => hasSub t "usw."))) =
      [["usw.leftoverCount", "usw.leftoverCount"], [], [], [], [], [], [], []] ∧
    (callTextsOfW gs_udpSockWrapper_Read).filter (fun c => c.2.1 == "usw.sock.Read") =
      [(["rlen", "err"], "usw.sock.Read", [some "usw.rxbuf"])] := by
  decide +kernel

/-! ## 3. the model's step function -/

/-- what the socket answers: one datagram per read, truncated to the `cap` bytes of the buffer;
    a non-nil error when nothing is queued (lengths of the queued datagrams) -/
def sockAnswer (cap : Nat) (failErr : String) : List Nat → List Val
  | [] => [.int 0, .sym failErr]
  | m :: _ => [.int (min cap m : Nat), .sym "nil"]

/-- the counts of an adapter state: `usw.leftoverCount` and the lengths of the queued datagrams -/
structure CState where
  left : Nat
  dg   : List Nat
  deriving DecidableEq, Repr

def absU (st : Udp.State) : CState := ⟨st.leftover.length, st.dgrams.map List.length⟩

/-- one `Read(buf)`, `len(buf) = n`, AS THE EVALUATED SOURCE COMPUTES IT: the run of
    `gs_udpSockWrapper_Read` from the counts `cs`; `none` when it returns a non-nil error -/
def codeRead (fuel n : Nat) (failErr : String) (cs : CState) : Option (Nat × CState) :=
  let r := udpRun fuel n Udp.rxbufLen cs.left (sockAnswer Udp.rxbufLen failErr cs.dg)
  if r.how = .returned ∧ errOf r = .sym "nil" then
    some (((intOf? (rlenOf r)).getD 0).toNat,
      ⟨((intOf? (leftOf r)).getD 0).toNat, if sockReads r = [] then cs.dg else cs.dg.tail⟩)
  else none

theorem min_take_len (n : Nat) (l : Bytes) : (l.take n).length = min n l.length := List.length_take

/-- THE TIE: for every adapter state whose left-over fits the receive buffer (an invariant, see
    `C12U_inv`), every buffer length `n` and every datagram queue, the bookkeeping of the evaluated
    source is the model's step `Udp.read`, seen through the counts:
    same success / failure, `rlen = len got`, same new left-over count, same datagrams consumed. -/
theorem C12U_codeRead_eq_model (fuel n : Nat) (failErr : String) (hf : 8 ≤ fuel)
    (he : failErr ≠ "nil") (st : Udp.State) (hinv : st.leftover.length ≤ Udp.rxbufLen) :
    codeRead fuel n failErr (absU st) = (Udp.read n st).map (fun p => (p.1.length, absU p.2)) := by
  obtain ⟨lo, dgs⟩ := st
  simp only at hinv
  have hcap : Udp.rxbufLen < 9223372036854775808 := by decide
  cases lo with
  | cons b bs =>
    have hL : 0 < (b :: bs).length := by simp
    have hr := udp_run_leftover fuel n Udp.rxbufLen (b :: bs).length hf hL hinv hcap
      (sockAnswer Udp.rxbufLen failErr (dgs.map List.length))
    have hc : sockReads _ = _ :=
      (C12U_read_leftover fuel n Udp.rxbufLen (b :: bs).length hf hL hinv hcap
        (sockAnswer Udp.rxbufLen failErr (dgs.map List.length))).2.1
    unfold codeRead
    simp only [absU]
    simp only [hc]
    rw [hr]
    have hread : Udp.read n ⟨b :: bs, dgs⟩ =
        some ((b :: bs).take n, ⟨(b :: bs).drop n, dgs⟩) := by
      simp [Udp.read]
    rw [hread]
    simp only [errOf, rlenOf, leftOf, udpFinal, udpEnvB, udpEnv, true_and, read_def, read?_cons, String.reduceEq, ↓reduceIte,
      Option.getD_some, intOf?_int, and_self, Int.toNat_natCast, Option.map_some, absU,
      List.length_take, List.length_drop]
    congr 3
    omega
  | nil =>
    cases dgs with
    | nil =>
      have hr := udp_run_sock_error fuel n Udp.rxbufLen hf 0 failErr he
      unfold codeRead
      simp only [absU, List.length_nil, List.map_nil, sockAnswer]
      rw [hr]
      have hread : Udp.read n ⟨[], []⟩ = none := by simp [Udp.read]
      rw [hread]
      simp only [errOf, read_def, read?_cons, ↓reduceIte, Option.getD_some, Val.sym.injEq, he,
        and_false, Option.map_none]
    | cons d ds =>
      have hm : min Udp.rxbufLen d.length ≤ Udp.rxbufLen := Nat.min_le_left _ _
      have hr := udp_run_fresh fuel n Udp.rxbufLen (min Udp.rxbufLen d.length) hf hm hcap
      have hc : sockReads _ = _ :=
        (C12U_read_fresh fuel n Udp.rxbufLen (min Udp.rxbufLen d.length) hf hm hcap).2.1
      unfold codeRead
      simp only [absU, List.length_nil, List.map_cons, sockAnswer]
      simp only [hc]
      rw [hr]
      have hread : Udp.read n ⟨[], d :: ds⟩ =
          some ((d.take Udp.rxbufLen).take n, ⟨(d.take Udp.rxbufLen).drop n, ds⟩) := by
        simp [Udp.read]
      rw [hread]
      simp only [errOf, rlenOf, leftOf, udpFinal, udpEnvB, udpEnv, true_and, read_def, read?_cons, String.reduceEq, ↓reduceIte,
        Option.getD_some, intOf?_int, and_self, Int.toNat_natCast, Option.map_some, absU,
        List.length_take, List.length_drop, List.tail_cons, reduceCtorEq]
      congr 3
      omega

/-- the invariant `usw.leftoverCount ≤ len(usw.rxbuf)` holds initially (0) and is kept by `Udp.read` -/
theorem C12U_inv {n : Nat} {st st' : Udp.State} {got : Bytes}
    (hinv : st.leftover.length ≤ Udp.rxbufLen) (h : Udp.read n st = some (got, st')) :
    st'.leftover.length ≤ Udp.rxbufLen := by
  unfold Udp.read at h
  split at h
  · injection h with h; injection h with h1 h2
    subst h2; simp only [List.length_drop]; omega
  · split at h
    · cases h
    · injection h with h; injection h with h1 h2
      subst h2; simp only [List.length_drop, List.length_take]; omega

/-- `io.ReadFull(wrapper, buf[0:n])` over the code's bookkeeping: `Read(buf[got:n])` until `n` bytes
    were gathered or `Read` failed (`k`: an upper bound on the number of rounds) -/
def codeReadFull (fuel : Nat) (failErr : String) : Nat → Nat → CState → Nat × CState
  | 0, _, cs => (0, cs)
  | k + 1, n, cs =>
    if n = 0 then (0, cs)
    else
      match codeRead fuel n failErr cs with
      | none => (0, cs)
      | some (g, cs') =>
        let r := codeReadFull fuel failErr k (n - g) cs'
        (g + r.1, r.2)

theorem codeReadFull_eq (fuel : Nat) (failErr : String) (hf : 8 ≤ fuel) (he : failErr ≠ "nil")
    (n : Nat) (st : Udp.State) :
    ∀ k, n + st.dgrams.length < k → st.leftover.length ≤ Udp.rxbufLen →
      codeReadFull fuel failErr k n (absU st) =
        ((Udp.readFullU n st).1.length, absU (Udp.readFullU n st).2) := by
  fun_induction Udp.readFullU n st with
  | case1 st =>
    intro k hk _
    obtain ⟨k, rfl⟩ : ∃ j, k = j + 1 := ⟨k - 1, by omega⟩
    simp [codeReadFull]
  | case2 n st hn h =>
    intro k hk hinv
    obtain ⟨k, rfl⟩ : ∃ j, k = j + 1 := ⟨k - 1, by omega⟩
    simp only [codeReadFull, hn, ↓reduceIte, C12U_codeRead_eq_model fuel n failErr hf he st hinv, h,
      Option.map_none, List.length_nil]
  | case3 n st hn got st' h r ih =>
    intro k hk hinv
    obtain ⟨k, rfl⟩ : ∃ j, k = j + 1 := ⟨k - 1, by omega⟩
    have hm := Udp.read_measure h hn
    have ih' := ih k (by omega) (C12U_inv hinv h)
    simp only [codeReadFull, hn, ↓reduceIte, C12U_codeRead_eq_model fuel n failErr hf he st hinv, h,
      Option.map_some, ih', List.length_append, r]

/-- `C12_udp_readFull` IS ABOUT THE CODE'S BOOKKEEPING: the `io.ReadFull` loop over the evaluated
    `udpSockWrapper.Read`, started in a fresh or any reachable state, gathers exactly
    `min n (number of pending bytes)` bytes, and ends in the counts of the model's final state,
    whose pending bytes are the pending bytes minus the first `n`. -/
theorem C12U_readFull_counts (fuel : Nat) (failErr : String) (hf : 8 ≤ fuel) (he : failErr ≠ "nil")
    (n : Nat) (st : Udp.State) (hinv : st.leftover.length ≤ Udp.rxbufLen) :
    let r := codeReadFull fuel failErr (n + st.dgrams.length + 1) n (absU st)
    r.1 = min n st.pendingBytes.length ∧
    r.2 = absU (Udp.readFullU n st).2 ∧
    (Udp.readFullU n st).1 = st.pendingBytes.take n ∧
    (Udp.readFullU n st).2.pendingBytes = st.pendingBytes.drop n := by
  intro r
  have h := codeReadFull_eq fuel failErr hf he n st (n + st.dgrams.length + 1) (by omega) hinv
  obtain ⟨h1, h2⟩ := C12_udp_readFull n st
  refine ⟨?_, ?_, h1, h2⟩
  · show (codeReadFull fuel failErr (n + st.dgrams.length + 1) n (absU st)).1 = _
    rw [h, h1, List.length_take]
  · show (codeReadFull fuel failErr (n + st.dgrams.length + 1) n (absU st)).2 = _
    rw [h]

/-- the run of the generated `Read` in the counts of the adapter state `st` -/
def udpRunSt (fuel n : Nat) (failErr : String) (st : Udp.State) : Res :=
  udpRun fuel n Udp.rxbufLen st.leftover.length
    (sockAnswer Udp.rxbufLen failErr (st.dgrams.map List.length))

/-- the shift and the socket read, in the model's terms: after a successful `Udp.read` the shift
    `copy(usw.rxbuf, usw.rxbuf[copied:…])` was performed iff the model's new left-over is non-empty
    (one `copy` into `buf` always), and the socket was read iff nothing was left over before -/
theorem C12U_shift_iff_model (fuel n : Nat) (failErr : String) (hf : 8 ≤ fuel)
    (st st' : Udp.State) (got : Bytes) (hinv : st.leftover.length ≤ Udp.rxbufLen)
    (h : Udp.read n st = some (got, st')) :
    (copies (udpRunSt fuel n failErr st)).length = (if st'.leftover = [] then 1 else 2) ∧
    (sockReads (udpRunSt fuel n failErr st)).length = (if st.leftover = [] then 1 else 0) := by
  obtain ⟨lo, dgs⟩ := st
  simp only at hinv
  unfold udpRunSt
  have hcap : Udp.rxbufLen < 9223372036854775808 := by decide
  cases lo with
  | cons b bs =>
    have hL : 0 < (b :: bs).length := by simp
    obtain ⟨_, h2, _, _, _, h6⟩ := C12U_read_leftover fuel n Udp.rxbufLen (b :: bs).length hf hL hinv
      hcap (sockAnswer Udp.rxbufLen failErr (dgs.map List.length))
    have hread : Udp.read n ⟨b :: bs, dgs⟩ =
        some ((b :: bs).take n, ⟨(b :: bs).drop n, dgs⟩) := by
      simp [Udp.read]
    rw [hread] at h
    injection h with h; injection h with _ hst; subst hst
    show (copies _).length = (if (b :: bs).drop n = [] then 1 else 2) ∧
      (sockReads _).length = (if (b :: bs) = [] then 1 else 0)
    rw [h2, h6, if_neg (List.cons_ne_nil _ _)]
    by_cases hd : (b :: bs).drop n = []
    · have : ¬ 0 < (b :: bs).length - min n (b :: bs).length := by
        have := congrArg List.length hd
        simp only [List.length_drop, List.length_nil] at this; omega
      rw [if_pos hd, if_neg this]; exact ⟨rfl, rfl⟩
    · have : 0 < (b :: bs).length - min n (b :: bs).length := by
        have : ((b :: bs).drop n).length ≠ 0 := fun h0 => hd (List.eq_nil_of_length_eq_zero h0)
        simp only [List.length_drop] at this; omega
      rw [if_neg hd, if_pos this]; exact ⟨rfl, rfl⟩
  | nil =>
    cases dgs with
    | nil => simp [Udp.read] at h
    | cons d ds =>
      have hm : min Udp.rxbufLen d.length ≤ Udp.rxbufLen := Nat.min_le_left _ _
      obtain ⟨_, h2, _, _, _, h6⟩ :=
        C12U_read_fresh fuel n Udp.rxbufLen (min Udp.rxbufLen d.length) hf hm hcap
      have hread : Udp.read n ⟨[], d :: ds⟩ =
          some ((d.take Udp.rxbufLen).take n, ⟨(d.take Udp.rxbufLen).drop n, ds⟩) := by
        simp [Udp.read]
      rw [hread] at h
      injection h with h; injection h with _ hst; subst hst
      show (copies (udpRun fuel n Udp.rxbufLen 0
          [.int (min Udp.rxbufLen d.length : Nat), .sym "nil"])).length =
            (if (d.take Udp.rxbufLen).drop n = [] then 1 else 2) ∧
        (sockReads (udpRun fuel n Udp.rxbufLen 0
          [.int (min Udp.rxbufLen d.length : Nat), .sym "nil"])).length =
            (if ([] : Bytes) = [] then 1 else 0)
      rw [h2, h6, if_pos rfl]
      by_cases hd : (d.take Udp.rxbufLen).drop n = []
      · have : ¬ 0 < min Udp.rxbufLen d.length - min n (min Udp.rxbufLen d.length) := by
          have := congrArg List.length hd
          simp only [List.length_drop, List.length_take, List.length_nil] at this; omega
        rw [if_pos hd, if_neg this]; exact ⟨rfl, rfl⟩
      · have : 0 < min Udp.rxbufLen d.length - min n (min Udp.rxbufLen d.length) := by
          have : ((d.take Udp.rxbufLen).drop n).length ≠ 0 :=
            fun h0 => hd (List.eq_nil_of_length_eq_zero h0)
          simp only [List.length_drop, List.length_take] at this; omega
        rw [if_neg hd, if_pos this]; exact ⟨rfl, rfl⟩

/-! ## 4. which bytes (by-hand reading of the two `copy` calls) -/

/-- Go's builtin `copy(dst, src)` on byte slices (overlap-safe, like memmove): the first
    `min (len dst) (len src)` bytes of `dst` are replaced by those of `src` -/
def goCopy (dst src : Bytes) : Bytes × Nat :=
  (src.take (min dst.length src.length) ++ dst.drop (min dst.length src.length),
   min dst.length src.length)

/-- `b[lo:hi]` -/
def goSlice (b : Bytes) (lo hi : Nat) : Bytes := (b.take hi).drop lo

/-- Reading the call log of (a) / (b) with `goCopy` / `goSlice`: if the first `k` bytes of the
    receive buffer `rx` are the model's left-over (resp. the datagram just read), then
    `copy(buf, rx[0:k])` puts `leftover.take n` at the front of `buf` and returns
    `c = min n k`, and `copy(rx, rx[c:k])` leaves `leftover.drop n` in `rx[0:k-c]`:
    the model's `(got, leftover')`. -/
theorem C12U_bytes_of_counts (buf rx lo : Bytes) (hk : rx.take lo.length = lo) :
    let n := buf.length
    let k := lo.length
    let c := (goCopy buf (goSlice rx 0 k)).2
    c = min n k ∧
    (goCopy buf (goSlice rx 0 k)).1.take c = lo.take n ∧
    (goCopy buf (goSlice rx 0 k)).1.length = n ∧
    ((goCopy rx (goSlice rx c k)).1.take (k - c)) = lo.drop n := by
  intro n k c
  have hkl : k ≤ rx.length := by
    have := congrArg List.length hk
    simp only [List.length_take] at this
    show lo.length ≤ rx.length
    omega
  have hs : goSlice rx 0 k = lo := by simp [goSlice, k, hk]
  have hc : c = min n k := by
    show (goCopy buf (goSlice rx 0 k)).2 = _
    rw [hs]; rfl
  have hsc : goSlice rx c k = lo.drop c := by simp [goSlice, k, hk]
  refine ⟨hc, ?_, ?_, ?_⟩
  · rw [hs]
    show ((lo.take (min buf.length lo.length) ++ buf.drop (min buf.length lo.length)).take c) = _
    rw [hc, List.take_append_of_le_length (by simp [List.length_take, n, k])]
    simp only [List.take_take, n, k, Nat.min_self]
    by_cases h : buf.length ≤ lo.length
    · rw [Nat.min_eq_left h]
    · rw [Nat.min_eq_right (by omega), List.take_of_length_le (Nat.le_refl _),
        List.take_of_length_le (by omega)]
  · rw [hs]
    show (lo.take (min buf.length lo.length) ++ buf.drop (min buf.length lo.length)).length = _
    simp only [List.length_append, List.length_take, List.length_drop, n]
    omega
  · rw [hsc]
    show ((lo.drop c).take (min rx.length (lo.drop c).length) ++
      rx.drop (min rx.length (lo.drop c).length)).take (k - c) = _
    have hl : (lo.drop c).length = k - c := by simp [k]
    have hmin : min rx.length (lo.drop c).length = k - c := by rw [hl]; omega
    rw [hmin, List.take_append_of_le_length (by rw [List.length_take, hl]; omega),
      List.take_take, Nat.min_self, List.take_of_length_le (by omega), hc]
    by_cases h : n ≤ k
    · rw [Nat.min_eq_left h]
    · rw [Nat.min_eq_right (by omega), List.drop_of_length_le (Nat.le_refl _),
        List.drop_of_length_le (by show lo.length ≤ n; omega)]

/-! ## 5. sensitivity and concrete runs (kernel evaluation) -/

/-- the staged run of an arbitrary term (for variants DERIVED from the generated one) -/
def udpRunOf (s : GStmt) (fuel n cap L : Nat) (sock : List Val) : Res :=
  stagedCopy (fun ans => exec (copyOracle (sockOracle sock) ans) fuel s (udpEnv L)) (udpLen n cap) 2 []

theorem udpRunOf_generated : udpRunOf gs_udpSockWrapper_Read = udpRun := rfl

/-- the shift condition of the left-over branch, and the previously seeded variant `> copied+1` -/
def shiftCond : GExpr := .cmp ">" (.var "usw.leftoverCount" .int) (.var "copied" .int)
def shiftCondSeeded : GExpr :=
  .cmp ">" (.var "usw.leftoverCount" .int) (.bin "+" .int (.var "copied" .int) (.lit 1 .int))

example : countCond shiftCond gs_udpSockWrapper_Read = 1 := by decide +kernel

-- 5 bytes left over, a 4-byte buffer: 4 bytes returned, ONE byte remains and is shifted
example : (let r := udpRunOf gs_udpSockWrapper_Read 8 4 260 5 []
    (r.how, rlenOf r, leftOf r, copies r)) =
    (.returned, .int 4, .int 1, [copy1, copy2]) := by decide +kernel
-- the seeded variant: the same counts, but the remaining byte is NOT shifted to the front of
-- the buffer - `C12U_read_leftover` (`copies`) does not hold for it
example : (let r := udpRunOf (substCond shiftCond shiftCondSeeded gs_udpSockWrapper_Read) 8 4 260 5 []
    (r.how, rlenOf r, leftOf r, copies r)) =
    (.returned, .int 4, .int 1, [copy1]) := by decide +kernel
-- (with two or more bytes remaining the variant still shifts: the slip shows for exactly one)
example : copies (udpRunOf (substCond shiftCond shiftCondSeeded gs_udpSockWrapper_Read) 8 3 260 5 []) =
    [copy1, copy2] := by decide +kernel

-- the model's example `Udp.read 2 ⟨[], [[1, 2, 3], [4]]⟩ = some ([1, 2], ⟨[3], [[4]]⟩)` on the code
example : codeRead 8 2 "net.timeout" (absU ⟨[], [[1, 2, 3], [4]]⟩) = some (2, ⟨1, [1]⟩) := by
  decide +kernel
example : (let r := udpRun 8 2 260 0 (sockAnswer 260 "net.timeout" [3, 1])
    (r.how, rlenOf r, errOf r, leftOf r)) = (.returned, .int 2, .sym "nil", .int 1) ∧
    (udpRun 8 2 260 0 (sockAnswer 260 "net.timeout" [3, 1])).calls =
      [("usw.sock.Read", [.sym "usw.rxbuf"]), ("copy", copy3), ("copy", copy4)] := by decide +kernel
-- then the left-over byte, without touching the socket
example : (let r := udpRun 8 2 260 1 (sockAnswer 260 "net.timeout" [1])
    (r.how, rlenOf r, errOf r, leftOf r)) = (.returned, .int 1, .sym "nil", .int 0) ∧
    (udpRun 8 2 260 1 (sockAnswer 260 "net.timeout" [1])).calls = [("copy", copy1)] := by
  decide +kernel
-- nothing queued: the socket error is handed on
example : (let r := udpRun 8 2 260 0 (sockAnswer 260 "net.timeout" [])
    (r.how, rlenOf r, errOf r, leftOf r)) = (.returned, .int 0, .sym "net.timeout", .int 0) ∧
    (udpRun 8 2 260 0 (sockAnswer 260 "net.timeout" [])).calls =
      [("usw.sock.Read", [.sym "usw.rxbuf"])] := by
  decide +kernel
-- a zero-length datagram: `(0, nil)`, `io.ReadFull` calls again
example : codeRead 8 7 "net.timeout" ⟨0, [0, 12]⟩ = some (0, ⟨0, [12]⟩) := by decide +kernel

-- (c) a 256-byte receive buffer (the previously seeded variant of `newUDPSockWrapper`) cuts a
-- maximum-size 260-byte MBAP frame: the model (`Udp.rxbufLen` = 260) delivers 260 bytes
example : rlenOf (udpRun 8 300 256 0 (sockAnswer 256 "net.timeout" [260])) = .int 256 ∧
    rlenOf (udpRun 8 300 260 0 (sockAnswer 260 "net.timeout" [260])) = .int 260 ∧
    ((Udp.read 300 ⟨[], [List.replicate 260 0]⟩).map (fun p => p.1.length)) = some 260 := by
  decide +kernel
-- a slice bound beyond the buffer would panic in Go: the run stays stopped at that `copy`
example : (udpRun 8 4 260 261 []).how = .stoppedAt "copy" copy1 := by decide +kernel

end Modbus.Props.C12

#print axioms Modbus.Props.C12.C12U_read_leftover
#print axioms Modbus.Props.C12.C12U_read_fresh
#print axioms Modbus.Props.C12.C12U_read_sock_error
#print axioms Modbus.Props.C12.C12U_rxbuf_size
#print axioms Modbus.Props.C12.C12U_codeRead_eq_model
#print axioms Modbus.Props.C12.C12U_inv
#print axioms Modbus.Props.C12.C12U_readFull_counts
#print axioms Modbus.Props.C12.C12U_shift_iff_model
#print axioms Modbus.Props.C12.C12U_bytes_of_counts
