import ModbusVerif.Lemmas.GoEvalWrapLemmas
/-
  C11 (source side) — what a server session can touch, decided on the typed rendering of the
  current source (`Gen.gs_ModbusServer_*`, regenerated on every run).

  The multi-session model (Model/MultiSession.lean, Props/C11Routing.lean) gives every connection
  its own input, its own output and its own transport and shares ONE thing between sessions, the
  handler state. These theorems are the static facts about the code that this shape rests on:

    (a) `handleTransport` keeps all of its state in locals: no assignment or call result goes to a
        field of the server (`ms.…`) or of the transport (`t.…`) — the only names written are the
        request, the decoded fields, the handler results and the response under construction;
    (b) it talks to ONE transport, its parameter `t`: the request is read with `t.ReadRequest`, the
        response `res` built in the same round is written with `t.WriteResponse(res)`, and the only
        other call on a transport is `t.Close`; every handler call passes `clientAddr`,
        `clientRole` (its own parameters) and `req.unitId` (the request just read from `t`);
    (c) `handleTCPClient` builds a NEW transport per connection (`newTCPTransport(sock, …)` /
        `newTCPTransport(tlsSock, …)` with `tlsSock` from `ms.startTLS(sock)`), names the peer by
        `sock.RemoteAddr().String()` and takes the role from the same handshake; the only server
        fields it writes are the registry `ms.tcpClients` / `ms.tcpClients[i]`;
    (d) `acceptTCPClients` hands each accepted `sock` (from `listener.Accept` of the same round) to
        `go ms.handleTCPClient(sock)` or closes it; the only server field it writes is the registry.

  That the registry is only touched under `ms.lock` is Props/C08Flow / C10Flow (verified lock
  analysis on the extracted flow trees); the byte-level behaviour of one session is Props/C03Src.
-/
namespace Modbus.Props.C11
open Modbus Modbus.GoEval Gen

/-- (a) every name `handleTransport` writes, all paths -/
theorem C11S_session_state_local :
    (stmtTargets gs_ModbusServer_handleTransport).eraseDups =
      ["req", "err", "addr", "quantity", "coils", "resCount", "res", "res.payload[0]", "res.payload", "_",
       "expectedLen", "regs", "value"] ∧
    (stmtTargets gs_ModbusServer_handleTransport).all
      (fun x => !x.startsWith "ms." && !x.startsWith "t." && x != "t" && x != "ms" &&
        x != "clientAddr" && x != "clientRole") = true := by
  decide +kernel

/-- (b) one transport, the parameter `t`; the response written is the one built in this round -/
theorem C11S_one_transport :
    (gsParams.filter (fun p => p.1 == "ModbusServer.handleTransport")) =
      [("ModbusServer.handleTransport", ["t", "clientAddr", "clientRole"])] ∧
    ((callTextsOfW gs_ModbusServer_handleTransport).filter
        (fun c => !c.2.1.startsWith "ms.handler." && c.2.1 != "bytesToUint16")) =
      [(["req", "err"], "t.ReadRequest", []), ([], "t.Close", []), (["err"], "t.WriteResponse", [some "res"])] := by
  decide +kernel

/-- (b) every handler call carries this session's peer address and role and the unit id of the
    request just read -/
theorem C11S_handler_calls_carry_own_identity :
    ((callTextsOfW gs_ModbusServer_handleTransport).filter (fun c => c.2.1.startsWith "ms.handler.")).map
        (fun c => (c.2.1, c.2.2)) =
      [("ms.handler.HandleCoils",
          [some "&CoilsRequest{ ClientAddr: clientAddr, ClientRole: clientRole, UnitId: req.unitId, Addr: addr, Quantity: quantity, IsWrite: false, Args: nil, }"]),
       ("ms.handler.HandleDiscreteInputs",
          [some "&DiscreteInputsRequest{ ClientAddr: clientAddr, ClientRole: clientRole, UnitId: req.unitId, Addr: addr, Quantity: quantity, }"]),
       ("ms.handler.HandleCoils",
          [some "&CoilsRequest{ ClientAddr: clientAddr, ClientRole: clientRole, UnitId: req.unitId, Addr: addr, Quantity: 1, IsWrite: true, Args: []bool{(req.payload[2] == 0xff)}, }"]),
       ("ms.handler.HandleCoils",
          [some "&CoilsRequest{ ClientAddr: clientAddr, ClientRole: clientRole, UnitId: req.unitId, Addr: addr, Quantity: quantity, IsWrite: true, Args: decodeBools(quantity, req.payload[5:]), }"]),
       ("ms.handler.HandleHoldingRegisters",
          [some "&HoldingRegistersRequest{ ClientAddr: clientAddr, ClientRole: clientRole, UnitId: req.unitId, Addr: addr, Quantity: quantity, IsWrite: false, Args: nil, }"]),
       ("ms.handler.HandleInputRegisters",
          [some "&InputRegistersRequest{ ClientAddr: clientAddr, ClientRole: clientRole, UnitId: req.unitId, Addr: addr, Quantity: quantity, }"]),
       ("ms.handler.HandleHoldingRegisters",
          [some "&HoldingRegistersRequest{ ClientAddr: clientAddr, ClientRole: clientRole, UnitId: req.unitId, Addr: addr, Quantity: 1, IsWrite: true, Args: []uint16{value}, }"]),
       ("ms.handler.HandleHoldingRegisters",
          [some "&HoldingRegistersRequest{ ClientAddr: clientAddr, ClientRole: clientRole, UnitId: req.unitId, Addr: addr, Quantity: quantity, IsWrite: true, Args: bytesToUint16s(BIG_ENDIAN, req.payload[5:]), }"])] := by
  decide +kernel

/-- (c) a new transport per connection, peer named by the connection's own address, role from its
    own handshake; only the registry is written -/
theorem C11S_fresh_transport_per_connection :
    callTextsOfW gs_ModbusServer_handleTCPClient =
      [([], "ms.handleTransport",
          [some "newTCPTransport(sock, ms.conf.Timeout, ms.conf.Logger)", some "sock.RemoteAddr().String()", some "\"\""]),
       (["tlsSock", "clientRole", "err"], "ms.startTLS", [some "sock"]),
       ([], "ms.handleTransport",
          [some "newTCPTransport(tlsSock, ms.conf.Timeout, ms.conf.Logger)", some "sock.RemoteAddr().String()",
           some "clientRole"]),
       ([], "sock.Close", [])] ∧
    (stmtTargets gs_ModbusServer_handleTCPClient).eraseDups =
      ["tlsSock", "clientRole", "err", "#len(ms.tcpClients)", "i", "ms.tcpClients[i]", "ms.tcpClients"] := by
  decide +kernel

/-- (d) the accepted socket of this round goes to its own goroutine or is closed -/
theorem C11S_accept_hands_over_own_socket :
    callTextsOfW gs_ModbusServer_acceptTCPClients =
      [(["sock", "err"], "listener.Accept", []), ([], "go ms.handleTCPClient", [some "sock"]),
       ([], "sock.Close", [])] ∧
    (stmtTargets gs_ModbusServer_acceptTCPClients).eraseDups = ["sock", "err", "accepted", "ms.tcpClients"] := by
  decide +kernel

#print axioms C11S_session_state_local
#print axioms C11S_one_transport
#print axioms C11S_handler_calls_carry_own_identity
#print axioms C11S_fresh_transport_per_connection
#print axioms C11S_accept_hands_over_own_socket

end Modbus.Props.C11
