import ModbusVerif.Model.Encoding
import ModbusVerif.Spec.Layout
import ModbusVerif.Lemmas.EncLemmas
/-
  Property C17.

  "For both byte orders and both word orders, converting 16-, 32- and 64-bit integers and
   32/64-bit floats to register bytes and back is the identity, preserves every bit pattern
   (NaN payloads, signed zero), and produces exactly the byte sequence defined by the
   documented layout. Packing booleans into coil bytes is least-significant-bit first and
   zero padded, and is inverted exactly by unpacking, for every length."

  Floats are modelled by their IEEE-754 bit patterns (`U32` = `BitVec 32`, `U64` = `BitVec 64`;
  Go's `math.Float32bits` / `Float32frombits` are bit-exact), so the float statements *are* the
  integer statements below: they quantify over every bit pattern, NaN payloads and -0 included.
  `none` in the model stands for a Go run-time panic.

  Only statements live here; the proofs are in `Lemmas/EncLemmas.lean`.
-/
namespace Modbus.Props.C17
open Modbus Modbus.EncLemmas

/-! ## 1. single values: decode ∘ encode = id and encode ∘ decode = id -/

theorem u16_roundtrip (e : Endian) (v : U16) (he : e ≠ .invalid) :
    Enc.bytesToUint16 e (Enc.uint16ToBytes e v) = some v :=
  EncLemmas.u16_roundtrip e v he

theorem u16_roundtrip_bytes (e : Endian) (a b : Byte) (he : e ≠ .invalid) :
    (Enc.bytesToUint16 e [a, b]).map (Enc.uint16ToBytes e) = some [a, b] :=
  EncLemmas.u16_roundtrip_bytes e a b he

/-- uint32 / float32 bit pattern -/
theorem u32_roundtrip (e : Endian) (w : WordOrder) (v : U32) (he : e ≠ .invalid) (hw : w ≠ .invalid) :
    Enc.bytesToUint32s e w (Enc.uint32ToBytes e w v) = some [v] := by
  simpa using u32s_roundtrip e w he hw [v]

theorem u32_roundtrip_bytes (e : Endian) (w : WordOrder) (a b c d : Byte)
    (he : e ≠ .invalid) (hw : w ≠ .invalid) :
    (Enc.bytesToUint32s e w [a, b, c, d]).map (List.flatMap (Enc.uint32ToBytes e w)) = some [a, b, c, d] := by
  simp [Enc.bytesToUint32s, u32_enc_dec e w he hw]

/-- uint64 / float64 bit pattern -/
theorem u64_roundtrip (e : Endian) (w : WordOrder) (v : U64) (he : e ≠ .invalid) (hw : w ≠ .invalid) :
    Enc.bytesToUint64s e w (Enc.uint64ToBytes e w v) = some [v] := by
  simpa using u64s_roundtrip e w he hw [v]

theorem u64_roundtrip_bytes (e : Endian) (w : WordOrder) (a b c d f g h i : Byte)
    (he : e ≠ .invalid) (hw : w ≠ .invalid) :
    (Enc.bytesToUint64s e w [a, b, c, d, f, g, h, i]).map (List.flatMap (Enc.uint64ToBytes e w))
      = some [a, b, c, d, f, g, h, i] := by
  simp [Enc.bytesToUint64s, u64_enc_dec e w he hw]

-- non-vacuity: a NaN with payload, negative zero, all four selector combinations
example : Enc.bytesToUint16 .little (Enc.uint16ToBytes .little 0x8001#16) = some 0x8001#16 := by decide
example : Enc.uint16ToBytes .little 0x1234#16 = [0x34, 0x12] := by decide
example : Enc.bytesToUint32s .little .highFirst (Enc.uint32ToBytes .little .highFirst 0x7fc00001#32)
    = some [0x7fc00001#32] := by decide
example : Enc.bytesToUint32s .big .lowFirst (Enc.uint32ToBytes .big .lowFirst 0x80000000#32)
    = some [0x80000000#32] := by decide
example : Enc.bytesToUint64s .little .highFirst (Enc.uint64ToBytes .little .highFirst 0x7ff8000000000001#64)
    = some [0x7ff8000000000001#64] := by decide
example : Enc.bytesToUint64s .big .lowFirst (Enc.uint64ToBytes .big .lowFirst 0x8000000000000000#64)
    = some [0x8000000000000000#64] := by decide
example : (Enc.bytesToUint32s .little .lowFirst [0x01, 0x02, 0x03, 0x04]).map
    (List.flatMap (Enc.uint32ToBytes .little .lowFirst)) = some [0x01, 0x02, 0x03, 0x04] := by decide

/-! ## 2. lists of any length, converses, panic characterisation -/

theorem u16s_roundtrip (e : Endian) (vs : List U16) (he : e ≠ .invalid) :
    Enc.bytesToUint16s e (Enc.uint16sToBytes e vs) = some vs :=
  EncLemmas.u16s_roundtrip e he vs

theorem u32s_roundtrip (e : Endian) (w : WordOrder) (vs : List U32) (he : e ≠ .invalid) (hw : w ≠ .invalid) :
    Enc.bytesToUint32s e w (vs.flatMap (Enc.uint32ToBytes e w)) = some vs :=
  EncLemmas.u32s_roundtrip e w he hw vs

theorem u64s_roundtrip (e : Endian) (w : WordOrder) (vs : List U64) (he : e ≠ .invalid) (hw : w ≠ .invalid) :
    Enc.bytesToUint64s e w (vs.flatMap (Enc.uint64ToBytes e w)) = some vs :=
  EncLemmas.u64s_roundtrip e w he hw vs

theorem u16s_converse (e : Endian) (bs : Bytes) (he : e ≠ .invalid) (hl : bs.length % 2 = 0) :
    ∃ vs, Enc.bytesToUint16s e bs = some vs ∧ Enc.uint16sToBytes e vs = bs :=
  EncLemmas.u16s_converse e he bs hl

theorem u32s_converse (e : Endian) (w : WordOrder) (bs : Bytes) (he : e ≠ .invalid) (hw : w ≠ .invalid)
    (hl : bs.length % 4 = 0) :
    ∃ vs, Enc.bytesToUint32s e w bs = some vs ∧ vs.flatMap (Enc.uint32ToBytes e w) = bs :=
  EncLemmas.u32s_converse e w he hw bs hl

theorem u64s_converse (e : Endian) (w : WordOrder) (bs : Bytes) (he : e ≠ .invalid) (hw : w ≠ .invalid)
    (hl : bs.length % 8 = 0) :
    ∃ vs, Enc.bytesToUint64s e w bs = some vs ∧ vs.flatMap (Enc.uint64ToBytes e w) = bs :=
  EncLemmas.u64s_converse e w he hw bs hl

/-- out-of-contract characterisation. `none` in the model marks the inputs on which the Go decoder
    leaves its contract: a length that is not a multiple of the element size. What the Go code then
    does depends on things the model does not carry: with `cap(in) = len(in)` and a valid
    endianness it panics (slice bounds / index out of range — observed through the hooks); with
    spare capacity the slice expressions `in[i:i+4]` read bytes beyond `len` and a value is
    returned; with an invalid endianness the 32/64-bit decoders do not index at all and return
    zeros. None of this is reachable through the public API: client and server check the byte
    count against the quantity before decoding (C02 `validate`, C03 `classify`). -/
theorem u16s_panic_iff (e : Endian) (bs : Bytes) :
    Enc.bytesToUint16s e bs = none ↔ bs.length % 2 ≠ 0 :=
  EncLemmas.u16s_none_iff e bs

theorem u32s_panic_iff (e : Endian) (w : WordOrder) (bs : Bytes) :
    Enc.bytesToUint32s e w bs = none ↔ bs.length % 4 ≠ 0 :=
  EncLemmas.u32s_none_iff e w bs

theorem u64s_panic_iff (e : Endian) (w : WordOrder) (bs : Bytes) :
    Enc.bytesToUint64s e w bs = none ↔ bs.length % 8 ≠ 0 :=
  EncLemmas.u64s_none_iff e w bs

example : Enc.bytesToUint16s .big (Enc.uint16sToBytes .big [0x0001#16, 0xfffe#16, 0x8000#16])
    = some [0x0001#16, 0xfffe#16, 0x8000#16] := by decide
example : Enc.bytesToUint32s .big .lowFirst
    ([0x7fc00001#32, 0x80000000#32].flatMap (Enc.uint32ToBytes .big .lowFirst))
    = some [0x7fc00001#32, 0x80000000#32] := by decide
example : ∃ vs, Enc.bytesToUint64s .little .highFirst [1, 2, 3, 4, 5, 6, 7, 8] = some vs ∧
    vs.flatMap (Enc.uint64ToBytes .little .highFirst) = [1, 2, 3, 4, 5, 6, 7, 8] :=
  ⟨[0x0201040306050807#64], by decide⟩
example : Enc.bytesToUint16s .big [1, 2, 3] = none := by decide
example : Enc.bytesToUint32s .little .highFirst [1, 2, 3, 4, 5, 6] = none := by decide
example : Enc.bytesToUint64s .big .highFirst [1, 2, 3, 4] = none := by decide

/-! ## 3. the bytes are exactly those of the documented layout -/

theorem u16_layout (e : Endian) (v : U16) : Enc.uint16ToBytes e v = Spec.layout16 e v :=
  EncLemmas.layout16 e v

theorem u32_layout (e : Endian) (w : WordOrder) (v : U32) (he : e ≠ .invalid) (hw : w ≠ .invalid) :
    Enc.uint32ToBytes e w v = Spec.layout32 e w v :=
  EncLemmas.layout32 e w he hw v

theorem u64_layout (e : Endian) (w : WordOrder) (v : U64) (he : e ≠ .invalid) (hw : w ≠ .invalid) :
    Enc.uint64ToBytes e w v = Spec.layout64 e w v :=
  EncLemmas.layout64 e w he hw v

/-- the list encoders are the concatenation of the layouts -/
theorem u16s_layout (e : Endian) (vs : List U16) :
    Enc.uint16sToBytes e vs = vs.flatMap (Spec.layout16 e) := by
  simp only [Enc.uint16sToBytes]; congr 1; funext v; exact u16_layout e v

/-- the fixed-width register splittings are instances of the generic `regsOf` -/
theorem regs_generic (a : U16) (b : U32) (c : U64) :
    Spec.regsOf 1 a = Spec.regs16 a ∧ Spec.regsOf 2 b = Spec.regs32 b ∧ Spec.regsOf 4 c = Spec.regs64 c := by
  refine ⟨?_, rfl, rfl⟩
  simp [Spec.regsOf, Spec.regs16, List.range, List.range.loop]

example : Enc.uint32ToBytes .little .highFirst 0x7fc00001#32 = [0xc0, 0x7f, 0x01, 0x00] := by decide
example : Spec.layout32 .little .highFirst 0x7fc00001#32 = [0xc0, 0x7f, 0x01, 0x00] := by decide
example : Spec.layout32 .big .lowFirst 0x11223344#32 = [0x33, 0x44, 0x11, 0x22] := by decide
example : Spec.layout64 .big .lowFirst 0x1122334455667788#64
    = [0x77, 0x88, 0x55, 0x66, 0x33, 0x44, 0x11, 0x22] := by decide
example : Spec.layout64 .little .highFirst 0x1122334455667788#64
    = [0x22, 0x11, 0x44, 0x33, 0x66, 0x55, 0x88, 0x77] := by decide

/-! ## 4. coils -/

theorem bools_length (bs : List Bool) : (Enc.encodeBools bs).length = (bs.length + 7) / 8 :=
  encodeBools_length bs

/-- least significant bit first -/
theorem bools_lsb_first (bs : List Bool) (i : Nat) (_hi : i < bs.length) :
    ((Enc.encodeBools bs).getD (i / 8) 0).getLsbD (i % 8) = bs.getD i false :=
  bitAt_encodeBools bs i

/-- zero padding of the last byte -/
theorem bools_padding (bs : List Bool) (p : Nat) (h1 : bs.length ≤ p) (_h2 : p < 8 * ((bs.length + 7) / 8)) :
    ((Enc.encodeBools bs).getD (p / 8) 0).getLsbD (p % 8) = false := by
  have h := bitAt_encodeBools bs p
  rw [EncLemmas.bitAt] at h
  rw [h, List.getD_eq_getElem?_getD, List.getElem?_eq_none h1]; rfl

/-- the packed form is exactly the reference coil image -/
theorem bools_layout (bs : List Bool) : Enc.encodeBools bs = Spec.packBools bs :=
  encodeBools_eq_spec bs

/-- reading of the reference: byte j bit i is input bit 8*j+i when there is one, else 0 -/
theorem spec_coilByte_bit (bs : List Bool) (j i : Nat) (hi : i < 8) :
    (Spec.coilByte bs j).getLsbD i = (if 8 * j + i < bs.length then bs.getD (8 * j + i) false else false) :=
  coilByte_bit bs j i hi

theorem bools_roundtrip (bs : List Bool) : Enc.decodeBools bs.length (Enc.encodeBools bs) = some bs :=
  decode_encode bs

/-- `decodeBools` panics exactly when the slice is shorter than ⌈q/8⌉ (q = 0 never panics) -/
theorem decodeBools_isSome_iff (q : Nat) (bytes : Bytes) :
    (Enc.decodeBools q bytes).isSome ↔ (q + 7) / 8 ≤ bytes.length := by
  rw [decodeBools_eq]; split <;> simp [*]

theorem decodeBools_panic_iff (q : Nat) (bytes : Bytes) :
    Enc.decodeBools q bytes = none ↔ bytes.length < (q + 7) / 8 := by
  rw [decodeBools_eq]; split <;> simp <;> omega

/-- and otherwise returns, LSB first, bit p%8 of byte p/8 for p < q -/
theorem decodeBools_value (q : Nat) (bytes : Bytes) (h : (q + 7) / 8 ≤ bytes.length) :
    Enc.decodeBools q bytes
      = some ((List.range q).map (fun p => (bytes.getD (p / 8) 0).getLsbD (p % 8))) := by
  rw [decodeBools_eq, if_pos h]; rfl

theorem bools_roundtrip_bytes (bytes : Bytes) (l : List Bool)
    (h : Enc.decodeBools (8 * bytes.length) bytes = some l) : Enc.encodeBools l = bytes :=
  encode_decode bytes l h

/-- same, without the hypothesis: decoding all 8·n bits never panics and re-encodes to the input -/
theorem bools_roundtrip_bytes' (bytes : Bytes) :
    (Enc.decodeBools (8 * bytes.length) bytes).map Enc.encodeBools = some bytes := by
  have h := decodeBools_value (8 * bytes.length) bytes (by omega)
  rw [h, Option.map_some, encode_decode bytes _ h]

-- `encodeBools` is defined by well-founded recursion, so the concrete instances go through the
-- (structurally recursive) reference image
example : Enc.encodeBools [true, false, true, true, false, false, false, false, true, true] = [0x0d, 0x03] := by
  rw [bools_layout]; decide
example : Enc.decodeBools 10 [0x0d, 0x03]
    = some [true, false, true, true, false, false, false, false, true, true] := by decide
example : Enc.decodeBools 10 (Enc.encodeBools [true, false, true, true, false, false, false, false, true, true])
    = some [true, false, true, true, false, false, false, false, true, true] := by
  rw [bools_layout]; decide
example : ((Enc.encodeBools [true, false, true, true, false, false, false, false, true, true]).getD (9 / 8) 0).getLsbD
    (9 % 8) = true := by rw [bools_layout]; decide
example : ((Enc.encodeBools [true, false, true, true, false, false, false, false, true, true]).getD (12 / 8) 0).getLsbD
    (12 % 8) = false := by rw [bools_layout]; decide
example : Enc.decodeBools 9 [0xff] = none := by decide
example : Enc.decodeBools 0 [] = some [] := by decide
example : Enc.decodeBools 16 [0x0d, 0x03] = some
    [true, false, true, true, false, false, false, false, true, true, false, false, false, false, false, false] := by
  decide

/-! ## 5. invalid selectors (Go: no `case` matches, the zero value is returned) -/

theorem u16_invalid (v : U16) : Enc.uint16ToBytes .invalid v = [0, 0] := rfl
theorem u16_dec_invalid (bs : Bytes) : Enc.bytesToUint16 .invalid bs = some 0 := rfl
theorem u32_invalid (w : WordOrder) (v : U32) : Enc.uint32ToBytes .invalid w v = [0, 0, 0, 0] := rfl
theorem u64_invalid (w : WordOrder) (v : U64) : Enc.uint64ToBytes .invalid w v = [0, 0, 0, 0, 0, 0, 0, 0] := rfl
theorem u32_dec_invalid (w : WordOrder) (a b c d : Byte) : Enc.u32OfBytes .invalid w a b c d = 0 := rfl
theorem u64_dec_invalid (w : WordOrder) (a b c d f g h i : Byte) :
    Enc.u64OfBytes .invalid w a b c d f g h i = 0 := rfl
/-- an out-of-range word order is *not* treated uniformly: big-endian falls back to high word
    first, little-endian to low word first (so the `w ≠ .invalid` hypotheses above are needed) -/
theorem u32_invalid_wordorder (v : U32) :
    Enc.uint32ToBytes .big .invalid v = Enc.uint32ToBytes .big .highFirst v ∧
    Enc.uint32ToBytes .little .invalid v = Enc.uint32ToBytes .little .lowFirst v := ⟨rfl, rfl⟩
example : Enc.uint32ToBytes .little .invalid 0x11223344#32 ≠ Spec.layout32 .little .invalid 0x11223344#32 := by
  decide

#print axioms u16_roundtrip
#print axioms u16_roundtrip_bytes
#print axioms u32_roundtrip
#print axioms u32_roundtrip_bytes
#print axioms u64_roundtrip
#print axioms u64_roundtrip_bytes
#print axioms u16s_roundtrip
#print axioms u32s_roundtrip
#print axioms u64s_roundtrip
#print axioms u16s_converse
#print axioms u32s_converse
#print axioms u64s_converse
#print axioms u16s_panic_iff
#print axioms u32s_panic_iff
#print axioms u64s_panic_iff
#print axioms u16_layout
#print axioms u32_layout
#print axioms u64_layout
#print axioms u16s_layout
#print axioms regs_generic
#print axioms bools_length
#print axioms bools_lsb_first
#print axioms bools_padding
#print axioms bools_layout
#print axioms spec_coilByte_bit
#print axioms bools_roundtrip
#print axioms decodeBools_isSome_iff
#print axioms decodeBools_panic_iff
#print axioms decodeBools_value
#print axioms bools_roundtrip_bytes
#print axioms bools_roundtrip_bytes'
#print axioms u16_invalid
#print axioms u16_dec_invalid
#print axioms u32_invalid
#print axioms u64_invalid
#print axioms u32_dec_invalid
#print axioms u64_dec_invalid
#print axioms u32_invalid_wordorder

end Modbus.Props.C17
