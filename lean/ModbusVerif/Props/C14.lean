import ModbusVerif.Model.Skeleton
import ModbusVerif.Model.Tls
import ModbusVerif.Generated.Facts
/-
  C14 — Modbus/TLS enforces mutual authentication in both directions.
  What is the repository's own logic (the gate and the policy literals) is decided here on the facts
  regenerated from /repo; certificate-path validation and the TLS state machine are crypto/tls
  (assumed contract T-tls, sampled by the real handshake matrix of the harness).
-/
namespace Modbus.Props.C14
open Modbus Skel Tls

set_option maxRecDepth 100000

/-- the server's `tls.Config` literal enforces verified client certificates, TLS >= 1.2, and sets no
    field that weakens or replaces verification -/
theorem C14_server_policy : serverPolicyOk Gen.tlsLit_ModbusServer_startTLS = true := by decide +kernel

theorem C14_client_policy : clientPolicyOk Gen.tlsLit_ModbusClient_Open = true := by decide +kernel

/-- these are the only two `tls.Config` literals in the package -/
theorem C14_no_other_tls_config : Gen.tlsLitCount = 2 := by decide

/-- server gate: on a tcp+tls session the request loop (`handleTransport`) runs iff `startTLS`
    returned no error, and then only on the TLS socket; for every outcome of the error test -/
theorem C14_server_gate :
    ∀ errStartTLS : Bool,
      let tr := exec Gen.skeleton_ModbusServer_handleTCPClient "5" [errStartTLS]
      (errStartTLS = true → called tr "ms.handleTransport" = false) ∧
      (errStartTLS = false → called tr "ms.handleTransport" = true
          ∧ calledWith tr "newTCPTransport" "tlsSock" = true ∧ calledWith tr "newTCPTransport" "sock" = false) ∧
      called tr "ms.startTLS" = true ∧ called tr "sock.Close" = true := by decide +kernel

/-- `startTLS` reports an error — hence no session — unless the handshake completed and a peer
    certificate is present; oracle = [SetDeadline failed, Handshake failed, no peer certificate] -/
theorem C14_startTLS_gate :
    ∀ e1 e2 e3 : Bool,
      let tr := exec Gen.skeleton_ModbusServer_startTLS "" [e1, e2, e3]
      (called tr "ms.extractRole" = true ↔ (e1 = false ∧ e2 = false ∧ e3 = false)) ∧
      (called tr "ms.extractRole" = true → called tr "tlsSock.Handshake" = true)
      ∧ (e1 = false → calledWith tr "tls.Server" "tcpSock" = true) := by decide +kernel

/-- client gate: a transport is installed (so that requests can be sent) only after a successful
    dial AND a successful explicit handshake; on a failed handshake the socket is closed -/
theorem C14_client_gate :
    ∀ eDial eHs : Bool,
      let tr := exec Gen.skeleton_ModbusClient_Open "5" [eDial, eHs]
      (assigned tr "mc.transport" = true ↔ (eDial = false ∧ eHs = false)) ∧
      (assigned tr "mc.transport" = true → called tr "sock.(*tls.Conn).Handshake" = true
          ∧ calledWith tr "newTLSSockWrapper" "sock" = true ∧ called tr "tls.DialWithDialer" = true) ∧
      (eDial = false ∧ eHs = true → called tr "sock.Close" = true) := by decide +kernel

/-- the plain tcp branch passes the empty role and never touches TLS -/
theorem C14_plain_tcp_branch :
    let tr := exec Gen.skeleton_ModbusServer_handleTCPClient "4" []
    called tr "ms.startTLS" = false ∧ called tr "ms.handleTransport" = true
      ∧ calledWith tr "newTCPTransport" "sock" = true := by decide +kernel

/-- decision table implied by T-tls: who is served (server side) / talked to (client side) -/
theorem C14_matrix_server (p : Peer) :
    serverHandshakeOk p = true ↔
      ∃ v c, p = .tls v c ∧ v ≥ 12 ∧ (c = .pinnedLeaf ∨ c = .validChain ∨ c = .wrongHost) := by
  cases p with
  | plainText => simp [serverHandshakeOk]
  | tls v c =>
    constructor
    · intro h
      refine ⟨v, c, rfl, ?_⟩
      cases c <;> simp [serverHandshakeOk] at h ⊢ <;> omega
    · rintro ⟨v', c', hp, hv, hc⟩
      cases hp
      rcases hc with rfl | rfl | rfl <;> simp [serverHandshakeOk] <;> omega

theorem C14_matrix_client (p : Peer) :
    clientHandshakeOk p = true ↔ ∃ v c, p = .tls v c ∧ v ≥ 12 ∧ (c = .pinnedLeaf ∨ c = .validChain) := by
  cases p with
  | plainText => simp [clientHandshakeOk]
  | tls v c =>
    constructor
    · intro h
      refine ⟨v, c, rfl, ?_⟩
      cases c <;> simp [clientHandshakeOk] at h ⊢ <;> omega
    · rintro ⟨v', c', hp, hv, hc⟩
      cases hp
      rcases hc with rfl | rfl <;> simp [clientHandshakeOk] <;> omega

/-! sensitivity: weakened literals / gates are rejected by the same checkers -/
example : serverPolicyOk [("Certificates", "[]tls.Certificate{ *ms.conf.TLSServerCert, }", none),
    ("ClientCAs", "ms.conf.TLSClientCAs", none), ("ClientAuth", "tls.RequireAnyClientCert", some 2),
    ("MinVersion", "tls.VersionTLS12", some 771)] = false := by decide +kernel
example : serverPolicyOk [("Certificates", "[]tls.Certificate{ *ms.conf.TLSServerCert, }", none),
    ("ClientCAs", "ms.conf.TLSClientCAs", none), ("ClientAuth", "tls.RequireAndVerifyClientCert", some 4)] = false := by
  decide +kernel
example : clientPolicyOk [("Certificates", "[]tls.Certificate{ *mc.conf.TLSClientCert, }", none),
    ("RootCAs", "mc.conf.TLSRootCAs", none), ("MinVersion", "tls.VersionTLS12", some 771),
    ("InsecureSkipVerify", "true", some 1)] = false := by decide +kernel
/-- a gate that serves despite the handshake error is seen by the interpreter -/
example : called (exec [("switch", "ms.transportType", []), ("case", "", ["5"]), ("call", "ms.startTLS", ["sock"]),
    ("if", "err != nil", []), ("end", "", []), ("call", "ms.handleTransport", ["newTCPTransport(..)", "_", "clientRole"]),
    ("end", "", [])] "5" [true]) "ms.handleTransport" = true := by decide +kernel

#print axioms C14_server_policy
#print axioms C14_client_policy
#print axioms C14_no_other_tls_config
#print axioms C14_server_gate
#print axioms C14_startTLS_gate
#print axioms C14_client_gate
#print axioms C14_plain_tcp_branch
#print axioms C14_matrix_server
#print axioms C14_matrix_client

end Modbus.Props.C14
