/-
  C08 — a shared `ModbusClient` is race-free and keeps exchanges mutually exclusive, for any number
  of goroutines, any finite sequence of public calls per goroutine, and every schedule.

  Model under test: the access tables `Modbus.Gen.accessTables` ("ModbusClient." keys), regenerated
  from /repo/client.go by the translator on every run (`ModbusVerif/Generated/Facts.lean`), fed
  through `conv` into the lockset checker `Locking.disciplineOk`
  (`ModbusVerif/Model/Locking.lean`).  The generic soundness theorems `no_race` (T1),
  `mutex_exclusive` / `critical_sections_contiguous` (T2), `wellLocked_append` (T3) are proved once in
  `ModbusVerif/Lemmas/LockingLemmas.lean` and restated here.

  What the tables say (per method, source order): `acq`/`rel` of `mc.lock`, `rd f`/`wr f` for every
  `mc.f`, `call m` for `mc.m(...)`, and the pseudo field "transport!" (`wr`) for i/o through the
  shared transport (one request/response exchange in `executeRequest`, or `Close`).

  Trusted: the translator (what it lists is what the Go code does; its own `held` flag is
  cross-checked by `C08_held_flags_agree`), and that goroutines interact with the client object only
  through its methods.
-/
import ModbusVerif.Generated.Facts
import ModbusVerif.Model.Locking
import ModbusVerif.Lemmas.LockingLemmas

namespace Modbus.Props.C08
open Modbus Modbus.Locking

/-! ### from the generated tables to the checker's input (computed, not copied) -/

def convKind : Gen.ActKind → AK
  | .acq => .acq | .rel => .rel | .rd => .rd | .wr => .wr | .call => .call | .go => .go

/-- methods keep their full key `ModbusClient.m`; the targets of `call`/`go` get the prefix too -/
def conv (a : Gen.Act) : Act := ⟨convKind a.kind, qualify "ModbusClient." (convKind a.kind) a.name⟩

/-- the translator's tables for `ModbusClient` (keys "ModbusClient.…"), with the `held` flags -/
def clientRaw : List (String × List Gen.Act) := selectType "ModbusClient." Gen.accessTables

def clientProg : Program := clientRaw.map (fun p => (p.1, p.2.map conv))

/-- exported methods: the name after "ModbusClient." starts with an upper-case letter -/
def clientPublic : List String :=
  (clientProg.map (·.1)).filter (isExportedAfter "ModbusClient.")

/-- `NewClient` is a function, not a method: no constructor in the table -/
def clientCtors : List String := []

/-- nesting depth of calls allowed when inlining (the deepest chain is
    ReadBytes → readBytes → readRegisters → executeRequest) -/
def fuel : Nat := 6

def clientMutable : List String := mutableFields clientProg clientCtors

/-! ### T1–T3 restated -/

/-- T1 — lockset soundness, all thread counts and all schedules -/
theorem no_race {mf : List String} {s0 : State} (hh : s0.holder = none)
    (ht : ∀ t ∈ s0.threads, t.holding = false ∧ wellLocked mf false t.todo = true)
    (sched : List Nat) : ¬ RaceAt mf (run s0 sched) :=
  Locking.no_race hh ht sched

/-- T2a — at most one thread is holding in every reachable state -/
theorem mutex_exclusive {mf : List String} {s0 : State} (hh : s0.holder = none)
    (ht : ∀ t ∈ s0.threads, t.holding = false ∧ wellLocked mf false t.todo = true)
    (sched : List Nat) {i j : Nat} {ti tj : Thread}
    (hi : (run s0 sched).threads[i]? = some ti) (hj : (run s0 sched).threads[j]? = some tj)
    (hhi : ti.holding = true) (hhj : tj.holding = true) : i = j :=
  Locking.mutex_exclusive (mf := mf) hh ht sched hi hj hhi hhj

/-- T2b — between an `acq` by thread `i` and its next `rel`, every step of another thread is
    harmless: no `acq`, no `rel`, no access to a mutable field -/
theorem critical_sections_contiguous {mf : List String} {s0 : State} (hh : s0.holder = none)
    (ht : ∀ t ∈ s0.threads, t.holding = false ∧ wellLocked mf false t.todo = true)
    (sched : List Nat) {i : Nat} {pre mid rest : List (Nat × Step)}
    (htr : trace s0 sched = pre ++ (i, Step.acq) :: (mid ++ rest))
    (hnorel : (i, Step.rel) ∉ mid) :
    ∀ p ∈ mid, p.1 ≠ i → p.2 ≠ .acq ∧ p.2 ≠ .rel ∧ ¬ p.2.touchesMut mf :=
  Locking.critical_sections_contiguous hh ht sched htr hnorel

/-- T3 — entries are closed under concatenation -/
theorem entries_compose {mf : List String} {a b : List Step}
    (ha : entryOk mf a = true) (hb : entryOk mf b = true) : wellLocked mf false (a ++ b) = true :=
  Locking.wellLocked_append ha hb

/-! ### the client tables -/

/-- C1 — every public client method, with all calls inlined, takes the mutex before it touches a
    mutable field, never locks recursively, and returns without the mutex -/
theorem C08_discipline : disciplineOk clientProg clientPublic clientCtors fuel = true := by
  decide +kernel

/-- C2 — what the mutex protects: the fields written by some method -/
theorem C08_mutable_fields :
    mutableFields clientProg clientCtors =
      ["transport!", "transport", "endianness", "wordOrder", "unitId"] := by
  decide +kernel

/-- the entry points are exactly the exported methods: the client spawns no goroutine -/
theorem C08_entries : entries clientProg clientPublic = clientPublic := by
  decide +kernel

/-- C3 — the translator's `held` flag equals the simulated holding state at every action of every
    public method (calls inlined; every call returns in the holding state it was made in) -/
theorem C08_held_flags_agree :
    (clientRaw.filter (fun p => isExportedAfter "ModbusClient." p.1)).all
      (fun p => heldAgrees clientProg fuel false (p.2.map (fun a => (conv a, a.held)))) = true := by
  decide +kernel

/-- C4 — no race, mutual exclusion, exchanges not interleaved: any number of goroutines
    (`calls.length`), goroutine k calling the public methods `calls[k]` in order, any schedule. -/
theorem C08_no_race_client (calls : List (List String))
    (hc : ∀ ms ∈ calls, ∀ m ∈ ms, m ∈ clientPublic) (sched : List Nat) :
    -- no two goroutines are ever about to perform conflicting accesses to a mutable field
    ¬ RaceAt clientMutable (run (initState clientProg fuel calls) sched) ∧
    -- at most one goroutine is inside a critical section
    (∀ (i j : Nat) (ti tj : Thread),
        (run (initState clientProg fuel calls) sched).threads[i]? = some ti →
        (run (initState clientProg fuel calls) sched).threads[j]? = some tj →
        ti.holding = true → tj.holding = true → i = j) ∧
    -- while goroutine i is inside a critical section nobody else locks, unlocks or touches a
    -- mutable field
    (∀ i pre mid rest,
        trace (initState clientProg fuel calls) sched = pre ++ (i, Step.acq) :: (mid ++ rest) →
        (i, Step.rel) ∉ mid →
        ∀ p ∈ mid, p.1 ≠ i → p.2 ≠ .acq ∧ p.2 ≠ .rel ∧ ¬ p.2.touchesMut clientMutable) := by
  have hc' : ∀ ms ∈ calls, ∀ m ∈ ms, m ∈ entries clientProg clientPublic := by
    intro ms hms m hm
    simp only [entries, List.mem_append]
    exact Or.inl (hc ms hms m hm)
  refine ⟨discipline_no_race C08_discipline calls hc' sched, ?_, ?_⟩
  · intro i j ti tj hi hj hhi hhj
    exact discipline_mutex_exclusive C08_discipline calls hc' sched hi hj hhi hhj
  · intro i pre mid rest htr hnorel
    exact discipline_sections_contiguous C08_discipline calls hc' sched htr hnorel

/-- C4, the exchange reading: the i/o of one exchange on the shared transport ("transport!" steps of
    one critical section) is never interleaved with another goroutine's i/o on that transport — at
    most one request is outstanding, and the frame write and the reply read of one call are
    contiguous w.r.t. all other users of the connection. -/
theorem C08_exchanges_exclusive (calls : List (List String))
    (hc : ∀ ms ∈ calls, ∀ m ∈ ms, m ∈ clientPublic) (sched : List Nat)
    {i j : Nat} {pre mid rest : List (Nat × Step)}
    (htr : trace (initState clientProg fuel calls) sched = pre ++ (i, Step.acq) :: (mid ++ rest))
    (hnorel : (i, Step.rel) ∉ mid) (hmem : (j, Step.wr "transport!") ∈ mid) : j = i := by
  apply Classical.byContradiction
  intro hne
  have h := (C08_no_race_client calls hc sched).2.2 i pre mid rest htr hnorel _ hmem hne
  refine h.2.2 ⟨"transport!", ?_, Or.inr rfl⟩
  show "transport!" ∈ mutableFields clientProg clientCtors
  rw [C08_mutable_fields]; decide +kernel

/-! ### non-vacuity and sensitivity -/

example : "ModbusClient.ReadUint32" ∈ clientPublic ∧ "ModbusClient.Open" ∈ clientPublic ∧
    "ModbusClient.executeRequest" ∉ clientPublic ∧ "ModbusClient.encoding" ∉ clientPublic ∧
    clientPublic.length = 34 := by
  decide +kernel

/-- replace the body of method `m` -/
def withBody (prog : Program) (m : String) (body : List Act) : Program :=
  prog.map (fun p => if p.1 = m then (m, body) else p)

/-- (a) the bug that was fixed (F4): `ReadRegisters` as it was — the locked helper returns, then
    `mc.endianness` is read outside the mutex while `SetEncoding` writes it under the mutex -/
def oldReadRegisters : Program :=
  withBody clientProg "ModbusClient.ReadRegisters"
    [⟨.call, "ModbusClient.readRegisters"⟩, ⟨.rd, "endianness"⟩]

example : disciplineOk oldReadRegisters clientPublic clientCtors fuel = false := by
  decide +kernel

/-- … and the checker names the offenders: exactly `ReadRegisters` and its caller `ReadRegister` -/
example :
    (entries oldReadRegisters clientPublic).filter
      (fun m => !entryOk (mutableFields oldReadRegisters clientCtors)
        (entrySteps oldReadRegisters fuel m)) =
      ["ModbusClient.ReadRegister", "ModbusClient.ReadRegisters"] := by
  decide +kernel

/-- (b) a method that locks twice (calls a locking helper with the mutex held: self-deadlock) —
    rejected -/
example :
    disciplineOk
      (withBody clientProg "ModbusClient.SetUnitId"
        [⟨.acq, "lock"⟩, ⟨.call, "ModbusClient.encoding"⟩, ⟨.wr, "unitId"⟩,
         ⟨.rel, "lock(deferred)"⟩])
      clientPublic clientCtors fuel = false := by
  decide +kernel

example : entryOk clientMutable [.acq, .acq, .wr "unitId", .rel] = false := by decide +kernel

/-- a forgotten unlock, an unknown callee, and too little fuel are rejected too -/
example : entryOk clientMutable [.acq, .wr "unitId"] = false := by decide +kernel
example :
    disciplineOk
      (withBody clientProg "ModbusClient.SetUnitId" [⟨.call, "ModbusClient.noSuchMethod"⟩])
      clientPublic clientCtors fuel = false := by
  decide +kernel
example : disciplineOk clientProg clientPublic clientCtors 2 = false := by decide +kernel

/-- the `held` cross-check is sensitive: a flag that claims "not held" inside the critical section,
    and a callee that returns with the mutex still held, are both rejected -/
example :
    heldAgrees clientProg fuel false
      [(⟨.acq, "lock"⟩, true), (⟨.rd, "unitId"⟩, false), (⟨.rel, "lock"⟩, false)] = false := by
  decide +kernel
example :
    heldAgrees (withBody clientProg "ModbusClient.encoding" [⟨.acq, "lock"⟩]) fuel false
      [(⟨.call, "ModbusClient.encoding"⟩, false)] = false := by
  decide +kernel

/-- what an entry looks like after inlining -/
example :
    entrySteps clientProg fuel "ModbusClient.ReadUint32" =
      [.acq, .rd "endianness", .rd "wordOrder", .rel,
       .acq, .rd "unitId", .rd "logger", .rd "logger", .rd "logger", .rd "logger",
       .rd "transport", .wr "transport!", .rd "logger", .rel] := by
  decide +kernel

/-- the hypotheses of T1 are satisfiable, and `run` computes: two goroutines, one in `SetEncoding`,
    one in `ReadUint32`; thread 1 gets the mutex first, thread 0's `acq` is disabled until thread 1
    released it. -/
def exState : State :=
  initState clientProg fuel [["ModbusClient.SetEncoding"], ["ModbusClient.ReadUint32"]]

example : exState.holder = none ∧
    ∀ t ∈ exState.threads, t.holding = false ∧ wellLocked clientMutable false t.todo = true := by
  decide +kernel

example :
    run exState [1, 0, 0, 1, 1, 0, 1, 0, 0] =
      ⟨[⟨[.rd "logger", .wr "endianness", .wr "wordOrder", .rel], true⟩,
        ⟨[.acq, .rd "unitId", .rd "logger", .rd "logger", .rd "logger", .rd "logger",
          .rd "transport", .wr "transport!", .rd "logger", .rel], false⟩],
       some 0⟩ := by
  decide +kernel

example :
    trace exState [1, 0, 0, 1, 1, 0, 1, 0, 0] =
      [(1, .acq), (1, .rd "endianness"), (1, .rd "wordOrder"), (1, .rel), (0, .acq),
       (0, .rd "logger")] := by
  decide +kernel

/-- the semantics does exhibit races when the discipline is violated: the unfixed `ReadRegisters`
    against `SetEncoding` -/
example :
    RaceAt clientMutable
      (run ⟨[⟨[.rd "endianness"], false⟩, ⟨[.acq, .wr "endianness", .rel], false⟩], none⟩ [1]) :=
  ⟨0, 1, "endianness", .rd "endianness", .wr "endianness", by decide, by decide +kernel,
    by decide +kernel, by decide +kernel, Or.inl rfl, Or.inr rfl, Or.inr rfl⟩

end Modbus.Props.C08

#print axioms Modbus.Props.C08.no_race
#print axioms Modbus.Props.C08.mutex_exclusive
#print axioms Modbus.Props.C08.critical_sections_contiguous
#print axioms Modbus.Props.C08.entries_compose
#print axioms Modbus.Props.C08.C08_discipline
#print axioms Modbus.Props.C08.C08_mutable_fields
#print axioms Modbus.Props.C08.C08_entries
#print axioms Modbus.Props.C08.C08_held_flags_agree
#print axioms Modbus.Props.C08.C08_no_race_client
#print axioms Modbus.Props.C08.C08_exchanges_exclusive
