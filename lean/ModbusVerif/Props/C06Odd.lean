import ModbusVerif.Props.C06
/-
  C06 (continued) — odd-weight error patterns and Hamming distance 4 of CRC-16/MODBUS.

  The generator x^16 + x^15 + x^2 + 1 is divisible by (x + 1).  At register level this says:
  one bit time of the reflected LFSR (`Crc.step1`, polynomial 0xA001) preserves the parity of the
  16 register bits (`step1_parity`).  Feeding an input bit flips the parity exactly when the bit
  is set (`feedBit_parity`), so after any bit string the register parity is the start parity xor
  the parity of the string (`feed_parity`).  Consequences, for frames of ANY length:

    * every accepted frame has an even number of set bits (`accepted_frame_even`);
    * every error pattern with an odd number of flipped bits is detected (`odd_weight_detected`).

  Together with the double-bit result of `Props/C06.lean` (`double_bit_detected`, frames of at
  most 256 bytes = the RTU maximum) this gives Hamming distance 4 on the RTU frame sizes:
  every pattern flipping 1, 2 or 3 bits is detected (`upto_three_bits_detected`).  The bound is
  tight: the generator itself has four terms, so flipping the four bits of a shifted generator
  maps an accepted frame to an accepted frame (`four_bits_can_pass_example`).

  Definitions used in the statements: `crcOk`, `bitsOf`, `zeros`, `applyErr`, `feed` as in
  `ModbusVerif/Lemmas/CrcLemmas.lean` (see the header of `Props/C06.lean`), and

    weight e   := e.count true                       -- number of flipped bits
    parityUpTo s n := xor of bits 0 .. n-1 of s      -- by recursion on n
    parity16 s := parityUpTo s 16                    -- xor of the 16 bits (`parity16_eq`)

  Core Lean only; no axioms beyond propext / Classical.choice / Quot.sound.
-/
namespace Modbus.Props.C06Odd
open Modbus Modbus.Crc

/-- number of flipped bits -/
def weight (e : List Bool) : Nat := e.count true

/-- xor of the bits `0 .. n-1` of the register -/
def parityUpTo (s : U16) : Nat → Bool
  | 0 => false
  | n + 1 => parityUpTo s n ^^ s.getLsbD n

/-- register parity (xor of its 16 bits) -/
def parity16 (s : U16) : Bool := parityUpTo s 16

/-- `parity16` written out -/
theorem parity16_eq (s : U16) : parity16 s =
    (s.getLsbD 0 ^^ s.getLsbD 1 ^^ s.getLsbD 2 ^^ s.getLsbD 3 ^^ s.getLsbD 4 ^^ s.getLsbD 5 ^^
     s.getLsbD 6 ^^ s.getLsbD 7 ^^ s.getLsbD 8 ^^ s.getLsbD 9 ^^ s.getLsbD 10 ^^ s.getLsbD 11 ^^
     s.getLsbD 12 ^^ s.getLsbD 13 ^^ s.getLsbD 14 ^^ s.getLsbD 15) := by
  simp only [parity16, parityUpTo, Bool.false_xor]

/-! ### 1. the register parity is invariant under a bit time -/

theorem bool_xor_swap (a b c d : Bool) : ((a ^^ b) ^^ (c ^^ d)) = ((a ^^ c) ^^ (b ^^ d)) := by
  cases a <;> cases b <;> cases c <;> cases d <;> rfl

theorem bool_xor_right_comm (a b c : Bool) : ((a ^^ b) ^^ c) = ((a ^^ c) ^^ b) := by
  cases a <;> cases b <;> cases c <;> rfl

theorem parityUpTo_xor (x y : U16) (n : Nat) :
    parityUpTo (x ^^^ y) n = (parityUpTo x n ^^ parityUpTo y n) := by
  induction n with
  | zero => rfl
  | succ n ih => simp only [parityUpTo, ih, BitVec.getLsbD_xor, bool_xor_swap]

theorem parity16_xor (x y : U16) : parity16 (x ^^^ y) = (parity16 x ^^ parity16 y) :=
  parityUpTo_xor x y 16

theorem parityUpTo_shift (s : U16) (n : Nat) :
    parityUpTo (s >>> 1) n = (parityUpTo s (n + 1) ^^ s.getLsbD 0) := by
  induction n with
  | zero => simp [parityUpTo]
  | succ n ih =>
    have hb : (s >>> 1).getLsbD n = s.getLsbD (n + 1) := by
      rw [BitVec.getLsbD_ushiftRight, Nat.add_comm]
    show (parityUpTo (s >>> 1) n ^^ (s >>> 1).getLsbD n) = _
    rw [ih, hb]
    show _ = ((parityUpTo s (n + 1) ^^ s.getLsbD (n + 1)) ^^ s.getLsbD 0)
    exact bool_xor_right_comm _ _ _

theorem parity16_shift (s : U16) : parity16 (s >>> 1) = (parity16 s ^^ s.getLsbD 0) := by
  have h16 : s.getLsbD 16 = false := BitVec.getLsbD_of_ge _ _ (by omega)
  show parityUpTo (s >>> 1) 16 = _
  rw [parityUpTo_shift]
  show ((parityUpTo s 16 ^^ s.getLsbD 16) ^^ s.getLsbD 0) = _
  rw [h16, Bool.xor_false]
  rfl

theorem parity16_poly : parity16 0xA001#16 = true := by decide

theorem parity16_zero : parity16 0 = false := by decide

theorem parity16_init : parity16 Crc.init = false := by decide

theorem step1_parity (s : U16) : parity16 (Crc.step1 s) = parity16 s := by
  unfold Crc.step1
  by_cases h : s.getLsbD 0 = true
  · rw [if_pos h, parity16_xor, parity16_shift, parity16_poly, h]
    cases parity16 s <;> rfl
  · rw [if_neg h, parity16_shift, Bool.eq_false_iff.mpr h, Bool.xor_false]

/-! ### 2. feeding bits: the parity of the register tracks the parity of the input -/

theorem parity16_bit16 (b : Bool) : parity16 (bit16 b) = b := by
  cases b <;> decide

theorem feedBit_parity (s : U16) (b : Bool) : parity16 (feedBit s b) = (parity16 s ^^ b) := by
  unfold feedBit
  rw [step1_parity, parity16_xor, parity16_bit16]

theorem weight_nil : weight [] = 0 := rfl

theorem weight_cons_false (bits : List Bool) : weight (false :: bits) = weight bits := by
  simp [weight]

theorem weight_cons_true (bits : List Bool) : weight (true :: bits) = weight bits + 1 := by
  simp [weight]

theorem weight_append (x y : List Bool) : weight (x ++ y) = weight x + weight y := by
  simp [weight, List.count_append]

theorem weight_zeros (n : Nat) : weight (zeros n) = 0 := by
  induction n with
  | zero => rfl
  | succ n ih => rw [zeros, List.replicate_succ, weight_cons_false]; exact ih

theorem feed_parity (s : U16) (bits : List Bool) :
    parity16 (feed s bits) = (parity16 s ^^ decide (weight bits % 2 = 1)) := by
  induction bits generalizing s with
  | nil => simp [weight_nil]
  | cons b bits ih =>
    rw [feed_cons, ih, feedBit_parity]
    cases b
    · rw [weight_cons_false]; simp
    · rw [weight_cons_true]
      rcases Nat.mod_two_eq_zero_or_one (weight bits) with h | h
      · have h' : (weight bits + 1) % 2 = 1 := by omega
        simp [h, h']
      · have h' : (weight bits + 1) % 2 = 0 := by omega
        simp [h, h']

/-! ### 3. accepted frames have even weight; odd-weight errors are detected (any length) -/

/-- every accepted RTU frame (any length) has an even number of set bits overall -/
theorem accepted_frame_even (f : Bytes) (hok : crcOk f = true) : weight (bitsOf f) % 2 = 0 := by
  have h0 := ((Crc.crcOk_iff_residue f).mp hok).2
  rw [add_eq_feed] at h0
  have hp := feed_parity Crc.init (bitsOf f)
  rw [h0, parity16_zero, parity16_init] at hp
  rcases Nat.mod_two_eq_zero_or_one (weight (bitsOf f)) with h | h
  · exact h
  · rw [h] at hp; simp at hp

/-- an error pattern with an odd number of set bits has a nonzero syndrome -/
theorem feed_odd_ne_zero (e : List Bool) (hodd : weight e % 2 = 1) : feed 0 e ≠ 0 := by
  intro h
  have hp := feed_parity 0 e
  rw [h, parity16_zero, hodd] at hp
  simp at hp

/-- (c) every error pattern with an ODD number of flipped bits, anywhere in an accepted frame of
    ANY length, yields a rejected frame -/
theorem odd_weight_detected (f : Bytes) (e : List Bool) (hok : crcOk f = true)
    (hlen : e.length = 8 * f.length) (hodd : weight e % 2 = 1) :
    crcOk (applyErr f e) = false :=
  crcOk_applyErr_false f e hok hlen (feed_odd_ne_zero e hodd)

/-! ### 4. the shape of low-weight patterns -/

theorem weight_zero_shape : ∀ (e : List Bool), weight e = 0 → e = zeros e.length
  | [], _ => rfl
  | false :: e, h => by
    rw [weight_cons_false] at h
    have ih := weight_zero_shape e h
    show false :: e = false :: zeros e.length
    rw [← ih]
  | true :: e, h => by
    rw [weight_cons_true] at h
    omega

/-- a pattern of weight 1 is a single bit -/
theorem weight_one_shape : ∀ (e : List Bool), weight e = 1 →
    ∃ a b, e = zeros a ++ [true] ++ zeros b
  | [], h => by simp [weight] at h
  | false :: e, h => by
    rw [weight_cons_false] at h
    obtain ⟨a, b, rfl⟩ := weight_one_shape e h
    exact ⟨a + 1, b, by simp [zeros, List.replicate_succ]⟩
  | true :: e, h => by
    rw [weight_cons_true] at h
    have h0 : weight e = 0 := by omega
    refine ⟨0, e.length, ?_⟩
    have := weight_zero_shape e h0
    simp only [zeros, List.replicate_zero, List.nil_append, List.singleton_append]
    exact congrArg _ this

/-- a pattern of weight 2 is two single bits with a gap -/
theorem weight_two_shape : ∀ (e : List Bool), weight e = 2 →
    ∃ a d b, e = zeros a ++ [true] ++ zeros d ++ [true] ++ zeros b
  | [], h => by simp [weight] at h
  | false :: e, h => by
    rw [weight_cons_false] at h
    obtain ⟨a, d, b, rfl⟩ := weight_two_shape e h
    exact ⟨a + 1, d, b, by simp [zeros, List.replicate_succ]⟩
  | true :: e, h => by
    rw [weight_cons_true] at h
    have h1 : weight e = 1 := by omega
    obtain ⟨d, b, rfl⟩ := weight_one_shape e h1
    exact ⟨0, d, b, by simp [zeros]⟩

/-! ### 5. Hamming distance 4 on the RTU frame sizes -/

/-- (d) Hamming distance 4 on the RTU frame sizes: every error pattern flipping 1, 2 or 3 bits of
    an accepted frame of at most 256 bytes yields a rejected frame -/
theorem upto_three_bits_detected (f : Bytes) (e : List Bool) (hok : crcOk f = true)
    (hlen : e.length = 8 * f.length) (hf : f.length ≤ 256)
    (hw : 1 ≤ weight e ∧ weight e ≤ 3) : crcOk (applyErr f e) = false := by
  have hcase : weight e = 1 ∨ weight e = 2 ∨ weight e = 3 := by omega
  rcases hcase with h | h | h
  · exact odd_weight_detected f e hok hlen (by rw [h])
  · obtain ⟨a, d, b, he⟩ := weight_two_shape e h
    exact Modbus.Props.C06.double_bit_detected f a d b e hok he hlen hf
  · exact odd_weight_detected f e hok hlen (by rw [h])

/-! ### 6. the bound is tight: four flipped bits can pass

  The generator x^16 + x^15 + x^2 + 1 in transmission order is the 17-bit pattern with bits
  0, 1, 14 and 16 set; shifted to start at frame bit 5 it flips bits 5, 6 (byte 0) and
  19, 21 (byte 2). -/

/-- the four bits of the generator, starting at frame bit 5 -/
def exGen4 : List Bool :=
  zeros 5 ++ [true, true] ++ zeros 12 ++ [true, false, true] ++ zeros 34

/-- an accepted frame, a weight-4 pattern of the right length, and the corrupted frame differs
    from the original but is accepted as well -/
theorem four_bits_can_pass_example :
    crcOk Modbus.Props.C06.exFrame = true ∧
    weight exGen4 = 4 ∧
    exGen4.length = 8 * Modbus.Props.C06.exFrame.length ∧
    Modbus.Props.C06.exFrame.length ≤ 256 ∧
    applyErr Modbus.Props.C06.exFrame exGen4 = [0x61, 0x03, 0x2a, 0x00, 0x0a, 0x38, 0x43] ∧
    applyErr Modbus.Props.C06.exFrame exGen4 ≠ Modbus.Props.C06.exFrame ∧
    crcOk (applyErr Modbus.Props.C06.exFrame exGen4) = true := by
  decide +kernel

/-! ### 7. non-vacuity: the hypotheses are satisfiable on the concrete RTU frame of
    `Props/C06.lean` (01 03 02 00 0a + CRC 38 43), and the conclusions agree with direct
    evaluation -/

open Modbus.Props.C06 (exFrame)

/-- three flipped bits in three different bytes: bit 2 of byte 0 (position 2), bit 7 of byte 3
    (position 31) and bit 4 of byte 6 (position 52) -/
def exTriple : List Bool :=
  zeros 2 ++ [true] ++ zeros 28 ++ [true] ++ zeros 20 ++ [true] ++ zeros 3

example : crcOk exFrame = true ∧ exTriple.length = 8 * exFrame.length ∧ exFrame.length ≤ 256 ∧
    weight exTriple = 3 ∧ weight exTriple % 2 = 1 ∧ (1 ≤ weight exTriple ∧ weight exTriple ≤ 3) := by
  decide +kernel

example : applyErr exFrame exTriple = [0x05, 0x03, 0x02, 0x80, 0x0a, 0x38, 0x53] := by
  decide +kernel

example : crcOk (applyErr exFrame exTriple) = false :=
  odd_weight_detected exFrame exTriple (by decide +kernel) (by decide +kernel) (by decide +kernel)

example : crcOk (applyErr exFrame exTriple) = false :=
  upto_three_bits_detected exFrame exTriple (by decide +kernel) (by decide +kernel)
    (by decide +kernel) (by decide +kernel)

example : crcOk (applyErr exFrame exTriple) = false := by decide +kernel

-- the accepted frame itself has even weight (12 set bits)
example : weight (bitsOf exFrame) = 12 := by decide +kernel

example : weight (bitsOf exFrame) % 2 = 0 := accepted_frame_even exFrame (by decide +kernel)

-- parity invariance on a concrete register value with the low bit set
example : Crc.step1 0xFFFF#16 = 0xDFFE#16 ∧ parity16 0xFFFF#16 = false ∧
    parity16 0xDFFE#16 = false := by decide +kernel

-- weight 1 and weight 2 instances of `upto_three_bits_detected`
example : crcOk (applyErr exFrame (zeros 53 ++ [true] ++ zeros 2)) = false :=
  upto_three_bits_detected exFrame _ (by decide +kernel) (by decide +kernel)
    (by decide +kernel) (by decide +kernel)

example : crcOk (applyErr exFrame (zeros 3 ++ [true] ++ zeros 40 ++ [true] ++ zeros 11)) = false :=
  upto_three_bits_detected exFrame _ (by decide +kernel) (by decide +kernel)
    (by decide +kernel) (by decide +kernel)

-- `weight_two_shape` on a concrete pattern
example : weight (zeros 3 ++ [true] ++ zeros 40 ++ [true] ++ zeros 11) = 2 := by decide +kernel

end Modbus.Props.C06Odd

#print axioms Modbus.Props.C06Odd.parity16_eq
#print axioms Modbus.Props.C06Odd.step1_parity
#print axioms Modbus.Props.C06Odd.feedBit_parity
#print axioms Modbus.Props.C06Odd.feed_parity
#print axioms Modbus.Props.C06Odd.accepted_frame_even
#print axioms Modbus.Props.C06Odd.feed_odd_ne_zero
#print axioms Modbus.Props.C06Odd.odd_weight_detected
#print axioms Modbus.Props.C06Odd.weight_one_shape
#print axioms Modbus.Props.C06Odd.weight_two_shape
#print axioms Modbus.Props.C06Odd.upto_three_bits_detected
#print axioms Modbus.Props.C06Odd.four_bits_can_pass_example
