import ModbusVerif.Lemmas.SegmentationLemmas
import ModbusVerif.Props.C12
import ModbusVerif.Props.C05
/-
  C12 (continued) — segmentation independence of
  (1) the RTU frame reader and the RTU flush step over an arbitrarily chunked source, and
  (2) the MBAP / RTU frame readers, the MBAP skip loop and the RTU flush performed through the
      UDP datagram → stream adapter (`udpSockWrapper`): the results depend only on the pending
      byte stream, hence not on how it is cut into datagrams of at most 260 bytes.
  `Rtu.readFrameC`, `Rtu.afterReadC`, `Udp.readFullUE`, `Mbap.readFrameU`, `Mbap.readResponseU`,
  `Rtu.readFrameU`, `Rtu.afterReadU` are defined in Lemmas/SegmentationLemmas.lean.
-/
namespace Modbus.Props.C12
open Modbus Modbus.Strm

/-! ### Part 1: RTU over a chunked source -/

/-- `readRTUFrame` over a chunked source = `readRTUFrame` over the concatenated stream:
    same PDU / same error, same unread bytes -/
theorem C12_rtu_readFrame_chunking (src : List Bytes) (e : Ending) :
    (Rtu.readFrameC src e).1 = (Rtu.readFrame src.flatten e).1 ∧
    ((Rtu.readFrameC src e).2).flatten = (Rtu.readFrame src.flatten e).2 :=
  Rtu.readFrameC_flatten src e

/-- two segmentations of the same byte stream: same PDU / same error, same unread bytes -/
theorem C12_rtu_segmentation {src₁ src₂ : List Bytes} (e : Ending)
    (h : src₁.flatten = src₂.flatten) :
    (Rtu.readFrameC src₁ e).1 = (Rtu.readFrameC src₂ e).1 ∧
    ((Rtu.readFrameC src₁ e).2).flatten = ((Rtu.readFrameC src₂ e).2).flatten :=
  Rtu.readFrameC_segmentation e h

-- the reply [01 03 02 00 0a | 38 43] delivered as 4 bytes + rest (the 3-byte header read leaves
-- exactly one byte of the first chunk), byte by byte with empty reads, and in one piece
example : ([[0x01, 0x03, 0x02, 0x00], [0x0a, 0x38, 0x43, 0xFF]] : List Bytes).flatten =
    ([[0x01], [], [0x03], [0x02], [0x00], [], [0x0a], [0x38], [0x43], [0xFF]] : List Bytes).flatten := by
  decide
example : Rtu.readFrameC [[0x01, 0x03, 0x02, 0x00], [0x0a, 0x38, 0x43, 0xFF]] .timeout =
    (.ok ⟨1, 3, [2, 0x00, 0x0a]⟩, [[0xFF]]) := by decide +kernel
example : Rtu.readFrameC [[0x01], [], [0x03], [0x02], [0x00], [], [0x0a], [0x38], [0x43], [0xFF]] .timeout =
    (.ok ⟨1, 3, [2, 0x00, 0x0a]⟩, [[0xFF]]) := by decide +kernel
example : Rtu.readFrame [0x01, 0x03, 0x02, 0x00, 0x0a, 0x38, 0x43, 0xFF] .timeout =
    (.ok ⟨1, 3, [2, 0x00, 0x0a]⟩, [0xFF]) := by decide +kernel
-- the stream ends inside the frame, in the second chunk
example : Rtu.readFrameC [[0x01, 0x03, 0x02, 0x00], [0x0a, 0x38]] .eof = (.error .shortFrame, []) := by
  decide +kernel
example : Rtu.readFrameC [[0x01, 0x03], []] .timeout = (.error .shortFrame, []) := by decide +kernel

/-- the flush (`discard`: `io.ReadFull` of 1024 bytes, dropped) over a chunked source removes
    exactly the first 1024 bytes of the concatenated unread stream, like `Rtu.afterRead` -/
theorem C12_rtu_flush_chunking {err : Err} (rest : List Bytes)
    (h : err = .badCRC ∨ err = .protocolError ∨ err = .shortFrame) :
    (Rtu.afterReadC (.error err, rest)).1 = .error err ∧
    ((Rtu.afterReadC (.error err, rest)).2).flatten = rest.flatten.drop 1024 ∧
    Rtu.afterRead (.error err, rest.flatten) = (.error err, rest.flatten.drop 1024) :=
  ⟨(Rtu.afterReadC_flush rest h).1, (Rtu.afterReadC_flush rest h).2, Rtu.afterRead_flush _ h⟩

example : (Err.badCRC = .badCRC ∨ Err.badCRC = .protocolError ∨ Err.badCRC = .shortFrame) := by decide

/-- the flush step on any outcome commutes with forgetting the segmentation -/
theorem C12_rtu_afterRead_flat (r : (Except Err Pdu) × List Bytes) :
    (Rtu.afterReadC r).1 = (Rtu.afterRead (r.1, r.2.flatten)).1 ∧
    ((Rtu.afterReadC r).2).flatten = (Rtu.afterRead (r.1, r.2.flatten)).2 := by
  have h := Rtu.afterReadC_flat r
  exact ⟨congrArg Prod.fst h, congrArg Prod.snd h⟩

/-- read + flush over a chunked source = read + flush over the concatenated stream -/
theorem C12_rtu_afterRead_chunking (src : List Bytes) (e : Ending) :
    (Rtu.afterReadC (Rtu.readFrameC src e)).1 = (Rtu.afterRead (Rtu.readFrame src.flatten e)).1 ∧
    ((Rtu.afterReadC (Rtu.readFrameC src e)).2).flatten =
      (Rtu.afterRead (Rtu.readFrame src.flatten e)).2 :=
  Rtu.afterReadC_readFrameC_flatten src e

theorem C12_rtu_afterRead_segmentation {src₁ src₂ : List Bytes} (e : Ending)
    (h : src₁.flatten = src₂.flatten) :
    (Rtu.afterReadC (Rtu.readFrameC src₁ e)).1 = (Rtu.afterReadC (Rtu.readFrameC src₂ e)).1 ∧
    ((Rtu.afterReadC (Rtu.readFrameC src₁ e)).2).flatten =
      ((Rtu.afterReadC (Rtu.readFrameC src₂ e)).2).flatten := by
  obtain ⟨a1, a2⟩ := Rtu.afterReadC_readFrameC_flatten src₁ e
  obtain ⟨b1, b2⟩ := Rtu.afterReadC_readFrameC_flatten src₂ e
  rw [a1, a2, b1, b2, h]
  exact ⟨rfl, rfl⟩

-- a frame with a wrong CRC followed by 1030 bytes of garbage in two chunks: 1024 are flushed
example : Rtu.afterReadC (Rtu.readFrameC
      [[0x01, 0x03, 0x02, 0x00], [0x0a, 0x38, 0x42], List.replicate 1000 7, List.replicate 30 8] .timeout) =
    (.error .badCRC, [List.replicate 6 8]) := by decide +kernel
example : Rtu.afterRead (Rtu.readFrame
      ([0x01, 0x03, 0x02, 0x00, 0x0a, 0x38, 0x42] ++ List.replicate 1000 7 ++ List.replicate 30 8) .timeout) =
    (.error .badCRC, List.replicate 6 8) := by decide +kernel
-- no flush after a Read error / a good frame
example : Rtu.afterReadC (Rtu.readFrameC [[], []] .timeout) = (.error .ioTimeout, []) := by decide +kernel
example : Rtu.afterReadC (Rtu.readFrameC [[0x01, 0x03, 0x02, 0x00], [0x0a, 0x38, 0x43, 0xFF]] .timeout) =
    (.ok ⟨1, 3, [2, 0x00, 0x0a]⟩, [[0xFF]]) := by decide +kernel

/-! ### Part 2: through the UDP datagram → stream adapter -/

/-- `io.ReadFull` on the adapter comes back short exactly when fewer than `n` bytes are pending
    in the leftover and the queued datagrams (truncated to the receive buffer) -/
theorem C12_udp_readFull_short_iff (n : Nat) (st : Udp.State) (e : Ending) :
    (∃ got err st', Udp.readFullUE n st e = .short got err st') ↔ st.pendingBytes.length < n :=
  Udp.readFullUE_short_iff n st e

/-- the outcome (bytes, error, what stays pending) of `io.ReadFull` on the adapter is the outcome
    of the flat stream model on the pending bytes -/
theorem C12_udp_readFull_outcome (n : Nat) (st : Udp.State) (e : Ending) :
    (Udp.readFullUE n st e).flat = readFull n st.pendingBytes e :=
  Udp.readFullUE_flat n st e

example : Udp.readFullUE 3 ⟨[9], [[], [1], [2, 3]]⟩ .timeout = .ok [9, 1, 2] ⟨[3], []⟩ := by
  decide +kernel
example : Udp.readFullUE 7 ⟨[9], [[], [1], [2, 3]]⟩ .timeout = .short [9, 1, 2, 3] .ioTimeout ⟨[], []⟩ := by
  decide +kernel
example : Udp.readFullUE 7 ⟨[], []⟩ .timeout = .short [] .ioTimeout ⟨[], []⟩ := by decide +kernel

/-- `readMBAPFrame` through the adapter = `readMBAPFrame` on the pending bytes -/
theorem C12_udp_mbap_readFrame (st : Udp.State) (e : Ending) :
    (Mbap.readFrameU st e).1 = (Mbap.readFrame st.pendingBytes e).1 ∧
    (Mbap.readFrameU st e).2.pendingBytes = (Mbap.readFrame st.pendingBytes e).2 :=
  Mbap.readFrameU_pending st e

-- the reply 12 35 00 00 00 05 01 | 03 02 ab cd cut into datagrams of 1, 6 and 4(+1) bytes
example : Mbap.readFrameU ⟨[], [[0x12], [0x35, 0, 0, 0, 5, 1], [3, 2, 0xAB, 0xCD, 0xFF]]⟩ .timeout =
    (.ok ⟨1, 3, [2, 0xAB, 0xCD]⟩ 0x1235, ⟨[0xFF], []⟩) := by decide +kernel
-- the last datagram never arrives
example : Mbap.readFrameU ⟨[], [[0x12], [0x35, 0, 0, 0, 5, 1]]⟩ .timeout =
    (.err .ioTimeout, ⟨[], []⟩) := by decide +kernel
example : Mbap.readFrameU ⟨[], [[0x12], [0x35, 0, 0, 0, 5, 1], [3, 2]]⟩ .timeout =
    (.err .ioTimeout, ⟨[], []⟩) := by decide +kernel

/-- `readRTUFrame` through the adapter (rtuoverudp) = `readRTUFrame` on the pending bytes -/
theorem C12_udp_rtu_readFrame (st : Udp.State) (e : Ending) :
    (Rtu.readFrameU st e).1 = (Rtu.readFrame st.pendingBytes e).1 ∧
    (Rtu.readFrameU st e).2.pendingBytes = (Rtu.readFrame st.pendingBytes e).2 :=
  Rtu.readFrameU_pending st e

/-- read + flush through the adapter = read + flush on the pending bytes -/
theorem C12_udp_rtu_afterRead (st : Udp.State) (e : Ending) :
    (Rtu.afterReadU (Rtu.readFrameU st e)).1 = (Rtu.afterRead (Rtu.readFrame st.pendingBytes e)).1 ∧
    (Rtu.afterReadU (Rtu.readFrameU st e)).2.pendingBytes =
      (Rtu.afterRead (Rtu.readFrame st.pendingBytes e)).2 :=
  Rtu.afterReadU_readFrameU_pending st e

-- the RTU reply delivered as datagrams of 4 + 3 bytes, a second frame queued behind it
example : Rtu.readFrameU ⟨[], [[0x01, 0x03, 0x02, 0x00], [0x0a, 0x38, 0x43], [0x01, 0x83]]⟩ .timeout =
    (.ok ⟨1, 3, [2, 0x00, 0x0a]⟩, ⟨[], [[0x01, 0x83]]⟩) := by decide +kernel
-- bad CRC: the queued datagrams are flushed as well
example : Rtu.afterReadU (Rtu.readFrameU ⟨[], [[0x01, 0x03, 0x02, 0x00], [0x0a, 0x38, 0x42, 5], [6, 7]]⟩ .timeout) =
    (.error .badCRC, ⟨[], []⟩) := by decide +kernel

/-- the client's skip loop through the adapter = the skip loop on the pending bytes -/
theorem C12_udp_mbap_readResponse (txn : U16) (st : Udp.State) (e : Ending) :
    (Mbap.readResponseU txn st e).1 = (Mbap.readResponse txn st.pendingBytes e).1 ∧
    (Mbap.readResponseU txn st e).2.pendingBytes = (Mbap.readResponse txn st.pendingBytes e).2 :=
  Mbap.readResponseU_pending txn st e

-- a stale reply (txn 0x1234) coalesced in front of the first byte of the own reply, the own
-- reply cut into 1 + 6 + 4 bytes
example : Mbap.readResponseU 0x1235
    ⟨[], [[0x12, 0x34, 0, 0, 0, 5, 1, 3, 2, 0, 1, 0x12], [0x35, 0, 0, 0, 5, 1], [3, 2, 0xAB, 0xCD]]⟩ .timeout =
    (.ok ⟨1, 3, [2, 0xAB, 0xCD]⟩, ⟨[], []⟩) := by decide +kernel
-- one frame per datagram
example : Mbap.readResponseU 0x1235
    ⟨[], [[0x12, 0x34, 0, 0, 0, 5, 1, 3, 2, 0, 1], [0x12, 0x35, 0, 0, 0, 5, 1, 3, 2, 0xAB, 0xCD]]⟩ .timeout =
    (.ok ⟨1, 3, [2, 0xAB, 0xCD]⟩, ⟨[], []⟩) := by decide +kernel

/-- adapter states with the same pending bytes are indistinguishable for the frame readers,
    the skip loop and the flush -/
theorem C12_udp_pending_determines {st₁ st₂ : Udp.State} (txn : U16) (e : Ending)
    (h : st₁.pendingBytes = st₂.pendingBytes) :
    ((Mbap.readFrameU st₁ e).1 = (Mbap.readFrameU st₂ e).1 ∧
     (Mbap.readFrameU st₁ e).2.pendingBytes = (Mbap.readFrameU st₂ e).2.pendingBytes) ∧
    ((Mbap.readResponseU txn st₁ e).1 = (Mbap.readResponseU txn st₂ e).1 ∧
     (Mbap.readResponseU txn st₁ e).2.pendingBytes = (Mbap.readResponseU txn st₂ e).2.pendingBytes) ∧
    ((Rtu.readFrameU st₁ e).1 = (Rtu.readFrameU st₂ e).1 ∧
     (Rtu.readFrameU st₁ e).2.pendingBytes = (Rtu.readFrameU st₂ e).2.pendingBytes) ∧
    ((Rtu.afterReadU (Rtu.readFrameU st₁ e)).1 = (Rtu.afterReadU (Rtu.readFrameU st₂ e)).1 ∧
     (Rtu.afterReadU (Rtu.readFrameU st₁ e)).2.pendingBytes =
       (Rtu.afterReadU (Rtu.readFrameU st₂ e)).2.pendingBytes) := by
  obtain ⟨a1, a2⟩ := Mbap.readFrameU_pending st₁ e
  obtain ⟨b1, b2⟩ := Mbap.readFrameU_pending st₂ e
  obtain ⟨c1, c2⟩ := Mbap.readResponseU_pending txn st₁ e
  obtain ⟨d1, d2⟩ := Mbap.readResponseU_pending txn st₂ e
  obtain ⟨f1, f2⟩ := Rtu.readFrameU_pending st₁ e
  obtain ⟨g1, g2⟩ := Rtu.readFrameU_pending st₂ e
  obtain ⟨k1, k2⟩ := Rtu.afterReadU_readFrameU_pending st₁ e
  obtain ⟨l1, l2⟩ := Rtu.afterReadU_readFrameU_pending st₂ e
  rw [a1, a2, b1, b2, c1, c2, d1, d2, f1, f2, g1, g2, k1, k2, l1, l2, h]
  exact ⟨⟨rfl, rfl⟩, ⟨rfl, rfl⟩, ⟨rfl, rfl⟩, ⟨rfl, rfl⟩⟩

/-- results do not depend on how the byte stream is cut into datagrams of at most 260 bytes:
    two fresh adapter states (empty leftover) whose queued datagrams all fit the receive buffer
    and have the same concatenation give the same MBAP frame / skip-loop result / RTU frame /
    RTU read-and-flush result and leave the same bytes pending -/
theorem C12_udp_datagram_partition {ds₁ ds₂ : List Bytes} (txn : U16) (e : Ending)
    (h₁ : ∀ d ∈ ds₁, d.length ≤ Udp.rxbufLen) (h₂ : ∀ d ∈ ds₂, d.length ≤ Udp.rxbufLen)
    (h : ds₁.flatten = ds₂.flatten) :
    ((Mbap.readFrameU ⟨[], ds₁⟩ e).1 = (Mbap.readFrameU ⟨[], ds₂⟩ e).1 ∧
     (Mbap.readFrameU ⟨[], ds₁⟩ e).2.pendingBytes = (Mbap.readFrameU ⟨[], ds₂⟩ e).2.pendingBytes) ∧
    ((Mbap.readResponseU txn ⟨[], ds₁⟩ e).1 = (Mbap.readResponseU txn ⟨[], ds₂⟩ e).1 ∧
     (Mbap.readResponseU txn ⟨[], ds₁⟩ e).2.pendingBytes =
       (Mbap.readResponseU txn ⟨[], ds₂⟩ e).2.pendingBytes) ∧
    ((Rtu.readFrameU ⟨[], ds₁⟩ e).1 = (Rtu.readFrameU ⟨[], ds₂⟩ e).1 ∧
     (Rtu.readFrameU ⟨[], ds₁⟩ e).2.pendingBytes = (Rtu.readFrameU ⟨[], ds₂⟩ e).2.pendingBytes) ∧
    ((Rtu.afterReadU (Rtu.readFrameU ⟨[], ds₁⟩ e)).1 = (Rtu.afterReadU (Rtu.readFrameU ⟨[], ds₂⟩ e)).1 ∧
     (Rtu.afterReadU (Rtu.readFrameU ⟨[], ds₁⟩ e)).2.pendingBytes =
       (Rtu.afterReadU (Rtu.readFrameU ⟨[], ds₂⟩ e)).2.pendingBytes) :=
  C12_udp_pending_determines txn e
    (by rw [Udp.pendingBytes_fresh h₁, Udp.pendingBytes_fresh h₂, h])

/-- in particular: the same result as on the flat stream model applied to the concatenation -/
theorem C12_udp_datagrams_as_stream {ds : List Bytes} (txn : U16) (e : Ending)
    (h : ∀ d ∈ ds, d.length ≤ Udp.rxbufLen) :
    (Mbap.readResponseU txn ⟨[], ds⟩ e).1 = (Mbap.readResponse txn ds.flatten e).1 ∧
    (Mbap.readResponseU txn ⟨[], ds⟩ e).2.pendingBytes = (Mbap.readResponse txn ds.flatten e).2 ∧
    (Rtu.readFrameU ⟨[], ds⟩ e).1 = (Rtu.readFrame ds.flatten e).1 ∧
    (Rtu.readFrameU ⟨[], ds⟩ e).2.pendingBytes = (Rtu.readFrame ds.flatten e).2 := by
  obtain ⟨c1, c2⟩ := Mbap.readResponseU_pending txn ⟨[], ds⟩ e
  obtain ⟨f1, f2⟩ := Rtu.readFrameU_pending ⟨[], ds⟩ e
  rw [Udp.pendingBytes_fresh h] at c1 c2 f1 f2
  exact ⟨c1, c2, f1, f2⟩

-- the two deliveries of the MBAP examples above satisfy the hypotheses
example : ∀ d ∈ ([[0x12, 0x34, 0, 0, 0, 5, 1, 3, 2, 0, 1, 0x12], [0x35, 0, 0, 0, 5, 1], [3, 2, 0xAB, 0xCD]] : List Bytes),
    d.length ≤ Udp.rxbufLen := by decide
example : ∀ d ∈ ([[0x12, 0x34, 0, 0, 0, 5, 1, 3, 2, 0, 1], [0x12, 0x35, 0, 0, 0, 5, 1, 3, 2, 0xAB, 0xCD]] : List Bytes),
    d.length ≤ Udp.rxbufLen := by decide
example : ([[0x12, 0x34, 0, 0, 0, 5, 1, 3, 2, 0, 1, 0x12], [0x35, 0, 0, 0, 5, 1], [3, 2, 0xAB, 0xCD]] : List Bytes).flatten =
    ([[0x12, 0x34, 0, 0, 0, 5, 1, 3, 2, 0, 1], [0x12, 0x35, 0, 0, 0, 5, 1, 3, 2, 0xAB, 0xCD]] : List Bytes).flatten := by
  decide

/-! ### the 260-byte premise: a longer datagram is truncated by the socket read -/

/-- what the adapter delivers of a queued datagram is its first 260 bytes; the tail is lost -/
theorem C12_udp_long_datagram_truncated (d : Bytes) (ds : List Bytes) :
    (Udp.State.mk [] (d :: ds)).pendingBytes =
      d.take Udp.rxbufLen ++ (Udp.State.mk [] ds).pendingBytes :=
  Udp.pendingBytes_long_datagram d ds

example : (Udp.State.mk [] [List.replicate 260 0 ++ [1, 2, 3], [9]]).pendingBytes =
    List.replicate 260 0 ++ [9] := by decide +kernel

/-- the premise of `C12_udp_datagram_partition` cannot be dropped: a maximum-size (260-byte)
    stale frame coalesced with the 11-byte own reply in one 271-byte datagram loses the reply
    (time-out), while the same bytes as two datagrams of 260 + 11 bytes deliver it -/
theorem C12_udp_partition_needs_260 :
    let stale := Mbap.assemble 0x1234 ⟨1, 3, List.replicate 252 0⟩
    let own := Mbap.assemble 0x1235 ⟨1, 3, [2, 0xAB, 0xCD]⟩
    stale.length = 260 ∧
    ([stale ++ own] : List Bytes).flatten = ([stale, own] : List Bytes).flatten ∧
    (Mbap.readResponseU 0x1235 ⟨[], [stale ++ own]⟩ .timeout).1 = .error .ioTimeout ∧
    (Mbap.readResponseU 0x1235 ⟨[], [stale, own]⟩ .timeout).1 = .ok ⟨1, 3, [2, 0xAB, 0xCD]⟩ := by
  decide +kernel

/-! ### C05 over UDP -/

/-- over UDP a returned reply was parsed from a frame with the outstanding transaction id and
    protocol id 0 inside the pending datagram bytes; everything in front of it is a sequence of
    whole skipped frames, and what follows it stays pending -/
theorem C05_udp_returned_has_own_id {txn : U16} {st st' : Udp.State} {e : Ending} {p : Pdu}
    (h : Mbap.readResponseU txn st e = (.ok p, st')) :
    ∃ pre, Mbap.Skippable txn pre ∧ p.payload.length ≤ 252 ∧
      st.pendingBytes = pre ++ Mbap.assemble txn p ++ st'.pendingBytes := by
  obtain ⟨c1, c2⟩ := C12_udp_mbap_readResponse txn st e
  rw [h] at c1 c2
  exact C05.C05_returned_has_own_id (Prod.ext c1.symm c2.symm)

example : Mbap.readResponseU 0x1235
    ⟨[], [[0x12, 0x34, 0, 0, 0, 5, 1, 3, 2, 0, 1, 0x12], [0x35, 0, 0, 0, 5, 1], [3, 2, 0xAB, 0xCD, 0xFF], [7]]⟩
    .timeout = (.ok ⟨1, 3, [2, 0xAB, 0xCD]⟩, ⟨[0xFF], [[7]]⟩) := by decide +kernel

end Modbus.Props.C12

#print axioms Modbus.Props.C12.C12_rtu_readFrame_chunking
#print axioms Modbus.Props.C12.C12_rtu_segmentation
#print axioms Modbus.Props.C12.C12_rtu_flush_chunking
#print axioms Modbus.Props.C12.C12_rtu_afterRead_flat
#print axioms Modbus.Props.C12.C12_rtu_afterRead_chunking
#print axioms Modbus.Props.C12.C12_rtu_afterRead_segmentation
#print axioms Modbus.Props.C12.C12_udp_readFull_short_iff
#print axioms Modbus.Props.C12.C12_udp_readFull_outcome
#print axioms Modbus.Props.C12.C12_udp_mbap_readFrame
#print axioms Modbus.Props.C12.C12_udp_rtu_readFrame
#print axioms Modbus.Props.C12.C12_udp_rtu_afterRead
#print axioms Modbus.Props.C12.C12_udp_mbap_readResponse
#print axioms Modbus.Props.C12.C12_udp_pending_determines
#print axioms Modbus.Props.C12.C12_udp_datagram_partition
#print axioms Modbus.Props.C12.C12_udp_datagrams_as_stream
#print axioms Modbus.Props.C12.C12_udp_long_datagram_truncated
#print axioms Modbus.Props.C12.C12_udp_partition_needs_260
#print axioms Modbus.Props.C12.C05_udp_returned_has_own_id
