import ModbusVerif.Lemmas.GoEvalWrapLemmas
/-
  C18 (source side) — where buffers come from, decided on the typed rendering of the current source
  (`Gen.gs_*`, regenerated on every run). The heap model and its theorems (Props/C18.lean) assume:

    (a) `writeBytes` works on a PRIVATE copy of the caller's slice: its first assignment to `values`
        is `append(make([]byte, 0, len(values)+1), values...)`, before any padding or byte swap
        (the repaired defect F3 padded and swapped in the caller's array; several seeded changes
        replaced the copy by a re-slice or made it conditional);
    (b) every frame is received into a FRESH buffer: `readMBAPFrame` / `readRTUFrame` assign `rxbuf`
        only from `make(...)` inside the function (seeded changes kept one buffer per transport, a
        scratch array, or a `sync.Pool`), and neither transport struct has a buffer field assigned
        in these functions;
    (c) `encodeBools` builds its result in a buffer of its own (`make([]byte, byteCount)`) and never
        assigns to its input (a seeded change padded the input with `append`).

  These are static facts about the terms (which texts are assigned to which variables, in which
  order); together with the heap-model theorems they are what "caller slices are left untouched" and
  "returned slices stay stable" rest on. The correspondence runs (full-capacity snapshots before and
  after every call) check the same thing dynamically.
-/
namespace Modbus.Props.C18
open Modbus Modbus.GoEval Gen

/-- every text assigned to `target` in `s`, in source order (`none` = a non-leaf expression) -/
abbrev texts (target : String) (s : GStmt) : List (Option String) := assignedTexts target s

/-- (a) the private copy comes first; the later assignments are the padding `append(values, 0x00)`
    (on the copy) only -/
theorem C18S_writeBytes_private_copy :
    texts "values" gs_ModbusClient_writeBytes =
      [some "append(make([]byte, 0, len(values)+1), values...)", some "append(values, 0x00)"] := by
  decide +kernel

/-- (b) receive buffers are allocated per frame -/
theorem C18S_fresh_receive_buffers :
    texts "rxbuf" gs_tcpTransport_readMBAPFrame =
      [some "make([]byte, mbapHeaderLength)", some "make([]byte, bytesNeeded)"] ∧
    texts "rxbuf" gs_rtuTransport_readRTUFrame = [some "make([]byte, maxRTUFrameLength)"] ∧
    -- no field of the transport objects is assigned by the frame readers
    texts "tt.rxbuf" gs_tcpTransport_readMBAPFrame = [] ∧ texts "rt.rxbuf" gs_rtuTransport_readRTUFrame = [] := by
  decide +kernel

/-- (c) `encodeBools` allocates its output and leaves its input alone -/
theorem C18S_encodeBools_own_buffer :
    texts "out" gs_encodeBools = [some "make([]byte, byteCount)"] ∧ texts "in" gs_encodeBools = [] ∧
    (bindCalls gs_encodeBools).map (·.2.1) = [] := by
  decide +kernel

/-- the frame assemblers build the frame in a slice of their own: the RTU frame grows from the nil
    named result `adu` by `append` (unit id, function code, payload, CRC — in that order), the MBAP
    frame from the fresh result of `uint16ToBytes(BIG_ENDIAN, txnId)` (transaction id, protocol id 0,
    length = 2 + payload length, unit id, function code, payload); neither assigns to the request
    PDU's fields -/
theorem C18S_assemblers_allocate :
    texts "adu" gs_rtuTransport_assembleRTUFrame =
      [some "append(adu, p.unitId)", some "append(adu, p.functionCode)", some "append(adu, p.payload...)",
       some "append(adu, crc.value()...)"] ∧
    (bindCalls gs_rtuTransport_assembleRTUFrame).map (·.2.1) = ["crc.init", "crc.add"] ∧
    (bindCalls gs_tcpTransport_assembleMBAPFrame).map (fun c => (c.1, c.2.1)) = [(["payload"], "uint16ToBytes")] ∧
    texts "payload" gs_tcpTransport_assembleMBAPFrame =
      [some "append(payload, 0x00, 0x00)", some "append(payload, uint16ToBytes(BIG_ENDIAN, uint16(2+len(p.payload)))...)",
       some "append(payload, p.unitId)", some "append(payload, p.functionCode)", some "append(payload, p.payload...)"] ∧
    texts "p.payload" gs_tcpTransport_assembleMBAPFrame = [] ∧ texts "p.payload" gs_rtuTransport_assembleRTUFrame = [] := by
  decide +kernel


/-! ## every element store and every `copy` of the rendered code

  A caller's slice can only be modified through an element store `x[i] = …`, a `copy(x, …)`, or an
  `append` into spare capacity. The first two are enumerated here over EVERY rendered function
  (`gstmtTable`: all client methods, transports, adapters, codecs, the server); an element store or
  a `copy` added anywhere changes these tables. Each store's base variable is then shown to name
  memory of the function's own: a `make`, a private `append(make …)` copy, a byte literal, or the
  fresh result of a callee. (`append` into the caller's spare capacity is the subject of
  `C18S_writeBytes_private_copy` / `C18S_encodeBools_own_buffer` above and of the heap model.) -/

/-- targets of element stores (assignments whose target text is an index expression; translator
    temporaries `#…` left out) -/
def idxTargets (s : GStmt) : List String :=
  (stmtTargets s).filter (fun t => t.toList.contains '[' && t.toList.head? != some '#')

/-- (d) the complete table of element stores -/
theorem C18S_all_element_stores :
    (gstmtTable.map (fun p => (p.1, (idxTargets p.2).eraseDups))).filter (fun p => !p.2.isEmpty) =
      [("ModbusClient.readBytes", ["values[i]", "values[i+1]"]),
       ("ModbusClient.writeBytes", ["values[i]", "values[i+1]"]),
       ("ModbusServer.handleTCPClient", ["ms.tcpClients[i]"]),
       ("ModbusServer.handleTransport", ["res.payload[0]"]),
       ("encodeBools", ["out[i/8]"]),
       ("uint32ToBytes", ["out[0]", "out[1]", "out[2]", "out[3]"]),
       ("uint64ToBytes", ["out[0]", "out[1]", "out[2]", "out[3]", "out[4]", "out[5]", "out[6]", "out[7]"])] := by
  decide +kernel

/-- (d) where the stored-to memory comes from: `readBytes` swaps inside the slice `mc.readRegisters`
    just returned (its own receive buffer, (b)), `writeBytes` inside its private copy (a), the codecs
    inside their `make`, the server's byte count inside the one-byte literal it has just created
    (rich rendering: a `bytes` call precedes every `res.payload[0]` store — see `C03B_static_ops`) -/
theorem C18S_store_bases_are_own :
    (bindCalls gs_ModbusClient_readBytes).map (fun c => (c.1, c.2.1)) =
      [(["endianness", "_"], "mc.encoding"), (["values", "err"], "mc.readRegisters")] ∧
    texts "values" gs_ModbusClient_readBytes = [some "values[0 : len(values)-1]"] ∧
    texts "out" gs_uint32ToBytes = [some "make([]byte, 4)"] ∧
    texts "out" gs_uint64ToBytes = [some "make([]byte, 8)"] ∧
    texts "out" gs_encodeBools = [some "make([]byte, byteCount)"] := by
  decide +kernel

/-- (e) the only `copy` calls are the datagram adapter's: into the caller's READ buffer (that is what
    `Read` is for) and within its own receive buffer -/
theorem C18S_all_copies :
    (gstmtTable.map (fun p => (p.1, (callTextsOfW p.2).filter (fun c => c.2.1 == "copy")))).filter
        (fun p => !p.2.isEmpty) =
      [("udpSockWrapper.Read",
        [(["copied"], "copy", [some "buf", some "usw.rxbuf[0:usw.leftoverCount]"]),
         ([], "copy", [some "usw.rxbuf", some "usw.rxbuf[copied:usw.leftoverCount]"]),
         (["copied"], "copy", [some "buf", some "usw.rxbuf[0:rlen]"]),
         ([], "copy", [some "usw.rxbuf", some "usw.rxbuf[copied:rlen]"])])] := by
  decide +kernel

#print axioms C18S_writeBytes_private_copy
#print axioms C18S_fresh_receive_buffers
#print axioms C18S_encodeBools_own_buffer
#print axioms C18S_assemblers_allocate
#print axioms C18S_all_element_stores
#print axioms C18S_store_bases_are_own
#print axioms C18S_all_copies

end Modbus.Props.C18
