import ModbusVerif.Model.GoEval
import ModbusVerif.Generated.Facts
/-
  C18 (source side) — where buffers come from, decided on the typed rendering of the current source
  (`Gen.gs_*`, regenerated on every run). The heap model and its theorems (Props/C18.lean) assume:

    (a) `writeBytes` works on a PRIVATE copy of the caller's slice: its first assignment to `values`
        is `append(make([]byte, 0, len(values)+1), values...)`, before any padding or byte swap
        (the repaired defect F3 padded and swapped in the caller's array; several seeded changes
        replaced the copy by a re-slice or made it conditional);
    (b) every frame is received into a FRESH buffer: `readMBAPFrame` / `readRTUFrame` assign `rxbuf`
        only from `make(...)` inside the function (seeded changes kept one buffer per transport, a
        scratch array, or a `sync.Pool`), and neither transport struct has a buffer field assigned
        in these functions;
    (c) `encodeBools` builds its result in a buffer of its own (`make([]byte, byteCount)`) and never
        assigns to its input (a seeded change padded the input with `append`).

  These are static facts about the terms (which texts are assigned to which variables, in which
  order); together with the heap-model theorems they are what "caller slices are left untouched" and
  "returned slices stay stable" rest on. The correspondence runs (full-capacity snapshots before and
  after every call) check the same thing dynamically.
-/
namespace Modbus.Props.C18
open Modbus Modbus.GoEval Gen

/-- every text assigned to `target` in `s`, in source order (`none` = a non-leaf expression) -/
abbrev texts (target : String) (s : GStmt) : List (Option String) := assignedTexts target s

/-- (a) the private copy comes first; the later assignments are the padding `append(values, 0x00)`
    (on the copy) only -/
theorem C18S_writeBytes_private_copy :
    texts "values" gs_ModbusClient_writeBytes =
      [some "append(make([]byte, 0, len(values)+1), values...)", some "append(values, 0x00)"] := by
  decide +kernel

/-- (b) receive buffers are allocated per frame -/
theorem C18S_fresh_receive_buffers :
    texts "rxbuf" gs_tcpTransport_readMBAPFrame =
      [some "make([]byte, mbapHeaderLength)", some "make([]byte, bytesNeeded)"] ∧
    texts "rxbuf" gs_rtuTransport_readRTUFrame = [some "make([]byte, maxRTUFrameLength)"] ∧
    -- no field of the transport objects is assigned by the frame readers
    texts "tt.rxbuf" gs_tcpTransport_readMBAPFrame = [] ∧ texts "rt.rxbuf" gs_rtuTransport_readRTUFrame = [] := by
  decide +kernel

/-- (c) `encodeBools` allocates its output and leaves its input alone -/
theorem C18S_encodeBools_own_buffer :
    texts "out" gs_encodeBools = [some "make([]byte, byteCount)"] ∧ texts "in" gs_encodeBools = [] ∧
    (bindCalls gs_encodeBools).map (·.2.1) = [] := by
  decide +kernel

/-- the frame assemblers build the frame in a slice of their own: the RTU frame grows from the nil
    named result `adu` by `append` (unit id, function code, payload, CRC — in that order), the MBAP
    frame from the fresh result of `uint16ToBytes(BIG_ENDIAN, txnId)` (transaction id, protocol id 0,
    length = 2 + payload length, unit id, function code, payload); neither assigns to the request
    PDU's fields -/
theorem C18S_assemblers_allocate :
    texts "adu" gs_rtuTransport_assembleRTUFrame =
      [some "append(adu, p.unitId)", some "append(adu, p.functionCode)", some "append(adu, p.payload...)",
       some "append(adu, crc.value()...)"] ∧
    (bindCalls gs_rtuTransport_assembleRTUFrame).map (·.2.1) = ["crc.init", "crc.add"] ∧
    (bindCalls gs_tcpTransport_assembleMBAPFrame).map (fun c => (c.1, c.2.1)) = [(["payload"], "uint16ToBytes")] ∧
    texts "payload" gs_tcpTransport_assembleMBAPFrame =
      [some "append(payload, 0x00, 0x00)", some "append(payload, uint16ToBytes(BIG_ENDIAN, uint16(2+len(p.payload)))...)",
       some "append(payload, p.unitId)", some "append(payload, p.functionCode)", some "append(payload, p.payload...)"] ∧
    texts "p.payload" gs_tcpTransport_assembleMBAPFrame = [] ∧ texts "p.payload" gs_rtuTransport_assembleRTUFrame = [] := by
  decide +kernel

#print axioms C18S_writeBytes_private_copy
#print axioms C18S_fresh_receive_buffers
#print axioms C18S_encodeBools_own_buffer
#print axioms C18S_assemblers_allocate

end Modbus.Props.C18
