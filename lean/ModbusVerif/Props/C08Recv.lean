import ModbusVerif.Generated.Facts
/-
  C08 / C10 / C13 (source side) — receivers. The lock discipline proved on the control-flow trees
  (Props/C08Flow, Props/C10Flow) reads `mc.lock.Lock()` as "takes THE client's mutex". In Go that is
  true only in a method with a POINTER receiver: with a value receiver `mc` is a copy of the struct
  and the call locks a copy of the mutex (two seeded changes did exactly this to `readBools` and
  `WriteCoils`: the body still shows Lock / defer Unlock, and every call runs unlocked — or blocks
  for ever on a copy taken while the original was held). The translator emits the receiver kind of
  every method (`Gen.receivers`, regenerated on every run); the only value receiver in the package
  is `Error.Error` (`type Error string`, no state).
-/
namespace Modbus.Props.C08
open Modbus Gen

/-- every method of every stateful type has a pointer receiver -/
theorem C08_receivers_are_pointers :
    (receivers.filter (fun r => !r.2)).map (·.1) = ["Error.Error"] := by
  decide +kernel

/-- the table is not vacuous: the client's and the server's methods are in it -/
theorem C08_receivers_cover :
    receivers.length = 96 ∧
    (receivers.map (·.1)).contains "ModbusClient.readBools" = true ∧
    (receivers.map (·.1)).contains "ModbusClient.WriteCoils" = true ∧
    (receivers.map (·.1)).contains "ModbusClient.Close" = true ∧
    (receivers.map (·.1)).contains "ModbusServer.Stop" = true ∧
    (receivers.map (·.1)).contains "ModbusServer.handleTCPClient" = true ∧
    (receivers.map (·.1)).contains "tcpTransport.ExecuteRequest" = true ∧
    (receivers.map (·.1)).contains "rtuTransport.ExecuteRequest" = true ∧
    (receivers.map (·.1)).contains "udpSockWrapper.Read" = true ∧
    (receivers.map (·.1)).contains "crc.add" = true := by
  decide +kernel

#print axioms C08_receivers_are_pointers
#print axioms C08_receivers_cover

end Modbus.Props.C08
