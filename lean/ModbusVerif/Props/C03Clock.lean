import ModbusVerif.Props.C03SrcTransport
/-
  C03 (with C09), a CLOCKED model of one server round on the MBAP transport: it makes visible the defect
  found by Props/C03SrcTransport.lean in `tcpTransport.WriteResponse` (the response to a request received
  in time was dropped when the handler finished at or after the idle deadline) and its repair
  (commit d1a97bc: `WriteResponse` arms a write deadline of its own).

  ## The model (everything here is MODELLED; nothing is derived from the Go source except `C03K_source_tie`)
  * Time is a `Nat` (any unit). A socket carries two absolute deadlines, `Sock.rd` (read) and `Sock.wd`
    (write). `SetDeadline d` sets both, `SetWriteDeadline d` sets `wd` only (package net).
  * A-deadline: an I/O operation that would complete at instant `x` succeeds iff `x` is STRICTLY before
    the deadline in force for its direction; at or after it, it fails (timeout). The peer is draining:
    a write attempted before its deadline succeeds at once.
  * `readRequest T now s arrive`: `ReadRequest` runs at `now`: it arms `SetDeadline (now + T)`; the
    request (completely received at `a`, if one arrives at all) is returned iff `a < now + T`.
  * `writeResponse rule T x s`: `WriteResponse` runs at `x`. Rule `old` (before d1a97bc): the socket is
    left alone. Rule `new`: `SetWriteDeadline (x + T)` first. The write succeeds iff `x < wd`.
  * `Round = (t0, T, arrive, handler)`: `ReadRequest` runs at `t0`, the request is complete at `arrive`
    (hypothesis `t0 ≤ arrive` where it matters), the handler returns `handler` later, `WriteResponse`
    runs at that instant. `round rule s r` = the socket afterwards and the events: `handler a`,
    `responded x` | `dropped x`, or `released d` (ReadRequest timed out at `d`: `handleTransport`
    returns, the connection is closed and its slot released — C09).
  * Deadline arming itself never fails here (those outcomes are in Props/C03SrcTransport.lean).

  ## Results
  * `C03K_new_always_answers`   every request received in time is answered exactly once under the new
                                rule, for EVERY handler duration.
  * `C03K_old_drops_late_completion` under the old rule the handler is called and the response is written
                                IFF `arrive + handler < t0 + T`; otherwise it is dropped.
  * `C03K_old_counterexample`   T = 300, t0 = 0, arrive = 219, handler = 120: old: handler called, response
                                dropped at 339; new: responded at 339.
  * `C03K_idle_release_unchanged` no request, or a request not complete before `t0 + T`: released at exactly
                                `t0 + T`, no handler call, under BOTH rules; a request in time: no release;
                                `WriteResponse` never changes the read deadline.
  * `C03K_next_round_deadline`  whatever the previous round did and under whichever rule, the next
                                `ReadRequest` (at `t0'`) leaves read AND write deadline at `t0' + T`, and the
                                events of the next round do not depend on the socket state it inherits.
  * `C03K_session_new_all_answered` a whole session of in-time requests: each one handler call and one
                                response, in order.
  * `C03K_source_tie`           static: the current `gs_tcpTransport_WriteResponse` is rule `new` (its calls
                                are `SetWriteDeadline` then `Write`), the variant `wrNoDeadline` (the term
                                before d1a97bc) is rule `old`; `ReadRequest` arms `SetDeadline` (both
                                directions) with `time.Now().Add(tt.timeout)`, the same `T` the new write
                                deadline uses.
-/
namespace Modbus.Props.C03
open Modbus Modbus.Gen Modbus.GoEval Modbus.GoEval.SrvT

/-- `old`: `WriteResponse` before commit d1a97bc; `new`: it arms a write deadline of its own -/
inductive Rule | old | new
  deriving DecidableEq, Repr

/-- the two absolute i/o deadlines of a socket -/
structure Sock where
  rd : Nat
  wd : Nat
  deriving DecidableEq, Repr

def Sock.setDeadline (_ : Sock) (d : Nat) : Sock := ⟨d, d⟩
def Sock.setWriteDeadline (s : Sock) (d : Nat) : Sock := ⟨s.rd, d⟩

inductive Ev
  | handler (at_ : Nat)      -- the request read at this instant is handed to the handler
  | responded (at_ : Nat)    -- the response was written
  | dropped (at_ : Nat)      -- the `Write` failed with a timeout: no response
  | released (at_ : Nat)     -- `ReadRequest` timed out: the session ends, the slot is released
  deriving DecidableEq, Repr

/-- `ReadRequest` at `now`; `arrive`: when the request is completely received (`none`: never) -/
def readRequest (T now : Nat) (s : Sock) (arrive : Option Nat) : Sock × Option Nat :=
  let s' := s.setDeadline (now + T)
  match arrive with
  | some a => if a < s'.rd then (s', some a) else (s', none)
  | none => (s', none)

/-- `WriteResponse` at `x`: the socket afterwards, and whether the write succeeded -/
def writeResponse (rule : Rule) (T x : Nat) (s : Sock) : Sock × Bool :=
  let s' := match rule with
    | .old => s
    | .new => s.setWriteDeadline (x + T)
  (s', decide (x < s'.wd))

structure Round where
  t0 : Nat
  T : Nat
  arrive : Nat
  handler : Nat
  deriving DecidableEq, Repr

/-- one round of `handleTransport` -/
def round (rule : Rule) (s : Sock) (r : Round) : Sock × List Ev :=
  match readRequest r.T r.t0 s (some r.arrive) with
  | (s1, none) => (s1, [.released s1.rd])
  | (s1, some a) =>
    match writeResponse rule r.T (a + r.handler) s1 with
    | (s2, true) => (s2, [.handler a, .responded (a + r.handler)])
    | (s2, false) => (s2, [.handler a, .dropped (a + r.handler)])

/-- a connection on which nothing arrives -/
def idleRound (T t0 : Nat) (s : Sock) : Sock × List Ev :=
  match readRequest T t0 s none with
  | (s1, _) => (s1, [.released s1.rd])

def respondOld (r : Round) : List Ev := (round .old ⟨0, 0⟩ r).2
def respondNew (r : Round) : List Ev := (round .new ⟨0, 0⟩ r).2

/-- the request is completely received before the idle deadline -/
def Round.inTime (r : Round) : Prop := r.arrive < r.t0 + r.T

instance (r : Round) : Decidable r.inTime := by unfold Round.inTime; infer_instance

/-! ### the round, spelled out -/

theorem round_eq (rule : Rule) (s : Sock) (r : Round) :
    round rule s r =
      if r.arrive < r.t0 + r.T then
        match rule with
        | .old =>
          if r.arrive + r.handler < r.t0 + r.T then
            (⟨r.t0 + r.T, r.t0 + r.T⟩, [.handler r.arrive, .responded (r.arrive + r.handler)])
          else (⟨r.t0 + r.T, r.t0 + r.T⟩, [.handler r.arrive, .dropped (r.arrive + r.handler)])
        | .new =>
          if r.arrive + r.handler < r.arrive + r.handler + r.T then
            (⟨r.t0 + r.T, r.arrive + r.handler + r.T⟩,
              [.handler r.arrive, .responded (r.arrive + r.handler)])
          else (⟨r.t0 + r.T, r.arrive + r.handler + r.T⟩,
              [.handler r.arrive, .dropped (r.arrive + r.handler)])
      else (⟨r.t0 + r.T, r.t0 + r.T⟩, [.released (r.t0 + r.T)]) := by
  unfold round readRequest writeResponse Sock.setDeadline Sock.setWriteDeadline
  by_cases h : r.arrive < r.t0 + r.T
  · cases rule
    · by_cases h2 : r.arrive + r.handler < r.t0 + r.T <;> simp [h, h2]
    · by_cases h2 : r.arrive + r.handler < r.arrive + r.handler + r.T <;> simp [h, h2]
  · simp [h]

/-- the events of a round do not depend on the socket state it inherits (`ReadRequest` re-arms both
    deadlines) -/
theorem round_events_indep (rule : Rule) (s s' : Sock) (r : Round) :
    (round rule s r).2 = (round rule s' r).2 := by
  rw [round_eq, round_eq]

/-! ### results -/

def isResponded : Ev → Bool | .responded _ => true | _ => false
def isHandler : Ev → Bool | .handler _ => true | _ => false

/-- **new rule: a request received in time (`t0 ≤ arrive < t0 + T`, hence `0 < T`) is answered exactly
    once, at the instant the handler returns, for EVERY handler duration and whatever socket state the
    round inherits** -/
theorem C03K_new_always_answers (s : Sock) (r : Round) (h0 : r.t0 ≤ r.arrive) (h : r.inTime) :
    (round .new s r).2 = [.handler r.arrive, .responded (r.arrive + r.handler)] ∧
    respondNew r = [.handler r.arrive, .responded (r.arrive + r.handler)] ∧
    ((round .new s r).2.filter isResponded).length = 1 ∧
    ((round .new s r).2.filter isHandler).length = 1 := by
  unfold Round.inTime at h
  have hT : r.arrive + r.handler < r.arrive + r.handler + r.T := by omega
  have e : ∀ s, (round .new s r).2 = [.handler r.arrive, .responded (r.arrive + r.handler)] := by
    intro s; rw [round_eq]; simp [h, hT]
  refine ⟨e s, e _, ?_, ?_⟩ <;> rw [e] <;> rfl

/-- the same with the hypothesis `0 < T` instead of `t0 ≤ arrive` -/
theorem C03K_new_always_answers' (s : Sock) (r : Round) (hT : 0 < r.T) (h : r.inTime) :
    (round .new s r).2 = [.handler r.arrive, .responded (r.arrive + r.handler)] := by
  unfold Round.inTime at h
  have hT' : r.arrive + r.handler < r.arrive + r.handler + r.T := by omega
  rw [round_eq]; simp [h, hT']

/-- **old rule: for a request received in time the handler is called, and the response is written IFF
    the handler returns strictly before the idle deadline `t0 + T`; otherwise it is dropped** -/
theorem C03K_old_drops_late_completion (s : Sock) (r : Round) (h : r.inTime) :
    (round .old s r).2 =
      [.handler r.arrive,
       if r.arrive + r.handler < r.t0 + r.T then .responded (r.arrive + r.handler)
       else .dropped (r.arrive + r.handler)] ∧
    (Ev.responded (r.arrive + r.handler) ∈ (round .old s r).2 ↔ r.arrive + r.handler < r.t0 + r.T) ∧
    (Ev.dropped (r.arrive + r.handler) ∈ (round .old s r).2 ↔ r.t0 + r.T ≤ r.arrive + r.handler) ∧
    ((round .old s r).2.filter isResponded).length =
      (if r.arrive + r.handler < r.t0 + r.T then 1 else 0) ∧
    ((round .old s r).2.filter isHandler).length = 1 := by
  unfold Round.inTime at h
  by_cases h2 : r.arrive + r.handler < r.t0 + r.T
  · have e : (round .old s r).2 = [.handler r.arrive, .responded (r.arrive + r.handler)] := by
      rw [round_eq]; simp [h, h2]
    rw [e]
    refine ⟨by simp [h2], by simp [h2], ?_, by rw [if_pos h2]; rfl, rfl⟩
    simp; omega
  · have e : (round .old s r).2 = [.handler r.arrive, .dropped (r.arrive + r.handler)] := by
      rw [round_eq]; simp [h, h2]
    rw [e]
    refine ⟨by simp [h2], by simp [h2], ?_, by rw [if_neg h2]; rfl, rfl⟩
    simp; omega

/-- **the reproduced case** (times in ms): idle timeout 300, `ReadRequest` at 0, request complete at
    219, handler 120. Old rule: the handler is called, the response is dropped at 339. New rule: the
    response is written at 339. -/
theorem C03K_old_counterexample :
    respondOld ⟨0, 300, 219, 120⟩ = [.handler 219, .dropped 339] ∧
    respondNew ⟨0, 300, 219, 120⟩ = [.handler 219, .responded 339] := by
  decide

/-- **the idle release is the same under both rules.** Nothing arrives: released at exactly `t0 + T`,
    no handler call. A request not complete before `t0 + T`: the same. A request in time: no release in
    this round. And `WriteResponse` never changes the READ deadline (old: nothing changes; new: only the
    write deadline), so the repair cannot lengthen the idle window. -/
theorem C03K_idle_release_unchanged (rule : Rule) (s : Sock) (T t0 : Nat) (r : Round) (x : Nat) :
    (idleRound T t0 s).2 = [.released (t0 + T)] ∧
    (¬ r.inTime → (round rule s r).2 = [.released (r.t0 + r.T)]) ∧
    (r.inTime → ∀ d, Ev.released d ∉ (round rule s r).2) ∧
    ((round rule s r).2 = [.released (r.t0 + r.T)] ↔ ¬ r.inTime) ∧
    (writeResponse rule T x s).1.rd = s.rd := by
  have hnot : ¬ r.inTime → (round rule s r).2 = [.released (r.t0 + r.T)] := by
    intro h; unfold Round.inTime at h; rw [round_eq]; simp [h]
  have hin : r.inTime → ∀ d, Ev.released d ∉ (round rule s r).2 := by
    intro h d; unfold Round.inTime at h
    rw [round_eq]; simp only [h, ↓reduceIte]
    cases rule <;> (dsimp only; split <;> simp)
  refine ⟨rfl, hnot, hin, ⟨fun e h => ?_, hnot⟩, ?_⟩
  · have := hin h (r.t0 + r.T); rw [e] at this; simp at this
  · cases rule <;> rfl

/-- **the next round's deadline.** Whatever the previous round `r1` did, under whichever rule, from
    whatever socket state: the next `ReadRequest`, run at `t0'`, leaves the read AND the write deadline at
    `t0' + T` (it arms `SetDeadline`, both directions), so the socket after the next round's read and
    the events of the next round `r2` are the same under both histories. -/
theorem C03K_next_round_deadline (rule1 rule2 : Rule) (s : Sock) (r1 r2 : Round) (a : Option Nat) :
    let s1 := (round rule1 s r1).1
    (readRequest r2.T r2.t0 s1 a).1 = ⟨r2.t0 + r2.T, r2.t0 + r2.T⟩ ∧
    (round rule2 s1 r2).2 = (round rule2 s r2).2 ∧
    (round rule2 (round .old s r1).1 r2).2 = (round rule2 (round .new s r1).1 r2).2 := by
  intro s1
  refine ⟨?_, round_events_indep _ _ _ _, round_events_indep _ _ _ _⟩
  unfold readRequest Sock.setDeadline
  cases a with
  | none => rfl
  | some v => dsimp only; split <;> rfl

/-- a session: the rounds in order, each starting from the socket the previous one left; it ends at
    the first release -/
def session (rule : Rule) : Sock → List Round → List Ev
  | _, [] => []
  | s, r :: rest =>
    if r.inTime then (round rule s r).2 ++ session rule (round rule s r).1 rest
    else (round rule s r).2

/-- **a whole session under the new rule**: if every request is received in time, every request gets
    one handler call and one response, in order -/
theorem C03K_session_new_all_answered : ∀ (rs : List Round) (s : Sock),
    (∀ r ∈ rs, r.t0 ≤ r.arrive ∧ r.inTime) →
    session .new s rs =
      (rs.map (fun r => [Ev.handler r.arrive, Ev.responded (r.arrive + r.handler)])).flatten := by
  intro rs
  induction rs with
  | nil => intro s _; rfl
  | cons r rest ih =>
    intro s h
    have hr := h r (by simp)
    simp only [session, hr.2, ↓reduceIte, List.map_cons, List.flatten_cons]
    rw [(C03K_new_always_answers s r hr.1 hr.2).1, ih _ (fun x hx => h x (by simp [hx]))]

/-- the rule a `WriteResponse`-like term follows: `new` iff its calls are `SetWriteDeadline`, `Write` -/
def ruleOf (gs : GStmt) : Rule :=
  if (callTextsOfW gs).map (·.2.1) = ["tt.socket.SetWriteDeadline", "tt.socket.Write"] then .new else .old

/-- **static tie to the source terms**: the current `WriteResponse` follows the new rule, the term of
    before d1a97bc (`wrNoDeadline`, the current term minus the deadline call and its error test) the old
    one — its only call is the `Write`; `ReadRequest` arms `SetDeadline` (read and write) first; both
    deadlines are `time.Now().Add(tt.timeout)`: the same `T`. -/
theorem C03K_source_tie :
    ruleOf gs_tcpTransport_WriteResponse = .new ∧
    ruleOf wrNoDeadline = .old ∧
    (callTextsOfW wrNoDeadline).map (·.2.1) = ["tt.socket.Write"] ∧
    (callTextsOfW gs_tcpTransport_WriteResponse).map (fun c => (c.2.1, c.2.2)) =
      [("tt.socket.SetWriteDeadline", [some "time.Now().Add(tt.timeout)"]),
       ("tt.socket.Write", [some "tt.assembleMBAPFrame(tt.lastTxnId, res)"])] ∧
    (callTextsOfW gs_tcpTransport_ReadRequest).map (fun c => (c.2.1, c.2.2)) =
      [("tt.socket.SetDeadline", [some "time.Now().Add(tt.timeout)"]), ("tt.readMBAPFrame", [])] := by
  refine ⟨by decide +kernel, by decide +kernel, by decide +kernel, by decide +kernel, by decide +kernel⟩

end Modbus.Props.C03

#print axioms Modbus.Props.C03.C03K_new_always_answers
#print axioms Modbus.Props.C03.C03K_new_always_answers'
#print axioms Modbus.Props.C03.C03K_old_drops_late_completion
#print axioms Modbus.Props.C03.C03K_old_counterexample
#print axioms Modbus.Props.C03.C03K_idle_release_unchanged
#print axioms Modbus.Props.C03.C03K_next_round_deadline
#print axioms Modbus.Props.C03.C03K_session_new_all_answered
#print axioms Modbus.Props.C03.C03K_source_tie
