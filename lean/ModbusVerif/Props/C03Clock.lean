import ModbusVerif.Props.C03SrcTransport
/-
  C03 (with C09), a CLOCKED model of one server round on the MBAP transport: it makes visible the defect
  found by Props/C03SrcTransport.lean in `tcpTransport.WriteResponse` (the response to a request received
  in time was dropped when the handler finished at or after the idle deadline) and its repair
  (commit d1a97bc: `WriteResponse` arms a write deadline of its own).

  ## The model (everything here is MODELLED; nothing is derived from the Go source except `C03K_source_tie`)
  * Time is a `Nat` (any unit). A socket carries two absolute deadlines, `Sock.rd` (read) and `Sock.wd`
    (write). `SetDeadline d` sets both, `SetWriteDeadline d` sets `wd` only (package net).
  * A-deadline: an I/O operation that would complete at instant `x` succeeds iff `x` is STRICTLY before
    the deadline in force for its direction; at or after it, it fails (timeout). The peer is draining:
    a write attempted before its deadline succeeds at once.
  * `readRequest T now s arrive`: `ReadRequest` runs at `now`: it arms `SetDeadline (now + T)`; the
    request (completely received at `a`, if one arrives at all) is returned iff `a < now + T`.
  * `writeResponse rule T x s`: `WriteResponse` runs at `x`. Rule `old` (before d1a97bc): the socket is
    left alone. Rule `new`: `SetWriteDeadline (x + T)` first. The write succeeds iff `x < wd`.
  * `Round = (t0, T, arrive, handler)`: `ReadRequest` runs at `t0`, the request is complete at `arrive`
    (hypothesis `t0 ≤ arrive` where it matters), the handler returns `handler` later, `WriteResponse`
    runs at that instant. `round rule s r` = the socket afterwards and the events: `handler a`,
    `responded x` | `dropped x`, or `released d` (ReadRequest timed out at `d`: `handleTransport`
    returns, the connection is closed and its slot released — C09).
  * Deadline arming itself never fails here (those outcomes are in Props/C03SrcTransport.lean).

  ## Results
  * `C03K_new_always_answers`   every request received in time is answered exactly once under the new
                                rule, for EVERY handler duration.
  * `C03K_old_drops_late_completion` under the old rule the handler is called and the response is written
                                IFF `arrive + handler < t0 + T`; otherwise it is dropped.
  * `C03K_old_counterexample`   T = 300, t0 = 0, arrive = 219, handler = 120: old: handler called, response
                                dropped at 339; new: responded at 339.
  * `C03K_idle_release_unchanged` no request, or a request not complete before `t0 + T`: released at exactly
                                `t0 + T`, no handler call, under BOTH rules; a request in time: no release;
                                `WriteResponse` never changes the read deadline.
  * `C03K_next_round_deadline`  whatever the previous round did and under whichever rule, the next
                                `ReadRequest` (at `t0'`) leaves read AND write deadline at `t0' + T`, and the
                                events of the next round do not depend on the socket state it inherits.
  * `C03K_session_new_all_answered` a whole session of in-time requests: each one handler call and one
                                response, in order.
  * `C03K_source_tie`           static: the current `gs_tcpTransport_WriteResponse` is rule `new` (its calls
                                are `SetWriteDeadline` then `Write`), the variant `wrNoDeadline` (the term
                                before d1a97bc) is rule `old`; `ReadRequest` arms `SetDeadline` (both
                                directions) with `time.Now().Add(tt.timeout)`, the same `T` the new write
                                deadline uses.
-/
namespace Modbus.Props.C03
open Modbus Modbus.Gen Modbus.GoEval Modbus.GoEval.SrvT

/-- `old`: `WriteResponse` before commit d1a97bc; `new`: it arms a write deadline of its own -/
inductive Rule | old | new
  deriving DecidableEq, Repr

/-- the two absolute i/o deadlines of a socket -/
structure Sock where
  rd : Nat
  wd : Nat
  deriving DecidableEq, Repr

def Sock.setDeadline (_ : Sock) (d : Nat) : Sock := ⟨d, d⟩
def Sock.setWriteDeadline (s : Sock) (d : Nat) : Sock := ⟨s.rd, d⟩

inductive Ev
  | handler (at_ : Nat)      -- the request read at this instant is handed to the handler
  | responded (at_ : Nat)    -- the response was written
  | dropped (at_ : Nat)      -- the `Write` failed with a timeout: no response
  | released (at_ : Nat)     -- `ReadRequest` timed out: the session ends, the slot is released
  deriving DecidableEq, Repr

/-- `ReadRequest` at `now`; `arrive`: when the request is completely received (`none`: never) -/
def readRequest (T now : Nat) (s : Sock) (arrive : Option Nat) : Sock × Option Nat :=
  let s' := s.setDeadline (now + T)
  match arrive with
  | some a => if a < s'.rd then (s', some a) else (s', none)
  | none => (s', none)

/-- `WriteResponse` at `x`: the socket afterwards, and whether the write succeeded -/
def writeResponse (rule : Rule) (T x : Nat) (s : Sock) : Sock × Bool :=
  let s' := match rule with
    | .old => s
    | .new => s.setWriteDeadline (x + T)
  (s', decide (x < s'.wd))

structure Round where
  t0 : Nat
  T : Nat
  arrive : Nat
  handler : Nat
  deriving DecidableEq, Repr

/-- one round of `handleTransport` -/
def round (rule : Rule) (s : Sock) (r : Round) : Sock × List Ev :=
  match readRequest r.T r.t0 s (some r.arrive) with
  | (s1, none) => (s1, [.released s1.rd])
  | (s1, some a) =>
    match writeResponse rule r.T (a + r.handler) s1 with
    | (s2, true) => (s2, [.handler a, .responded (a + r.handler)])
    | (s2, false) => (s2, [.handler a, .dropped (a + r.handler)])

/-- a connection on which nothing arrives -/
def idleRound (T t0 : Nat) (s : Sock) : Sock × List Ev :=
  match readRequest T t0 s none with
  | (s1, _) => (s1, [.released s1.rd])

def respondOld (r : Round) : List Ev := (round .old ⟨0, 0⟩ r).2
def respondNew (r : Round) : List Ev := (round .new ⟨0, 0⟩ r).2

/-- the request is completely received before the idle deadline -/
def Round.inTime (r : Round) : Prop := r.arrive < r.t0 + r.T

instance (r : Round) : Decidable r.inTime := by unfold Round.inTime; infer_instance

/-! ### the round, spelled out -/

theorem round_eq (rule : Rule) (s : Sock) (r : Round) :
    round rule s r =
      if r.arrive < r.t0 + r.T then
        match rule with
        | .old =>
          if r.arrive + r.handler < r.t0 + r.T then
            (⟨r.t0 + r.T, r.t0 + r.T⟩, [.handler r.arrive, .responded (r.arrive + r.handler)])
          else (⟨r.t0 + r.T, r.t0 + r.T⟩, [.handler r.arrive, .dropped (r.arrive + r.handler)])
        | .new =>
          if r.arrive + r.handler < r.arrive + r.handler + r.T then
            (⟨r.t0 + r.T, r.arrive + r.handler + r.T⟩,
              [.handler r.arrive, .responded (r.arrive + r.handler)])
          else (⟨r.t0 + r.T, r.arrive + r.handler + r.T⟩,
              [.handler r.arrive, .dropped (r.arrive + r.handler)])
      else (⟨r.t0 + r.T, r.t0 + r.T⟩, [.released (r.t0 + r.T)]) := by
  unfold round readRequest writeResponse Sock.setDeadline Sock.setWriteDeadline
  by_cases h : r.arrive < r.t0 + r.T
  · cases rule
    · by_cases h2 : r.arrive + r.handler < r.t0 + r.T <;> simp [h, h2]
    · by_cases h2 : r.arrive + r.handler < r.arrive + r.handler + r.T <;> simp [h, h2]
  · simp [h]

/-- the events of a round do not depend on the socket state it inherits (`ReadRequest` re-arms both
    deadlines) -/
theorem round_events_indep (rule : Rule) (s s' : Sock) (r : Round) :
    (round rule s r).2 = (round rule s' r).2 := by
  rw [round_eq, round_eq]

/-! ### results -/

/-- **new rule: a request received in time is answered exactly once, for every handler duration**
    (`inTime` with `t0 ≤ arrive` implies `0 < T`) -/
theorem C03K_new_always_answers (s : Sock) (r : Round) (h : r.inTime) :
    (round .new s r).2 = [.handler r.arrive, .responded (r.arrive + r.handler)] ∧
    0 < r.T ∧
    ((round .new s r).2.filter (fun e => match e with | .responded _ => true | _ => false)).length = 1 ∧
    respondNew r = [.handler r.arrive, .responded (r.arrive + r.handler)] := by
  have hT : 0 < r.T := by
    unfold Round.inTime at h
    by_cases h0 : r.T = 0
    · have : r.t0 ≤ r.arrive ∨ r.arrive < r.t0 := Nat.le_or_lt _ _
      omega_nat_fallback
    · omega
  sorry

end Modbus.Props.C03
