import ModbusVerif.Lemmas.GoEvalLifeLemmas
import ModbusVerif.Props.C10
import ModbusVerif.Props.C09Src
/-
  C10, source tie: `ModbusServer.Start` and `ModbusServer.Stop` of the CURRENT server.go, as rendered
  by the translator (`Gen.gs_ModbusServer_Start`, `Gen.gs_ModbusServer_Stop`, regenerated from /repo
  on every run), are EVALUATED by `Modbus.GoEval` for every value of `ms.started`, every transport
  type, every client list and every result of `net.Listen` / `ms.tcpListener.Close`, from ANY
  environment, and related to `Lifecycle.doStart` / `doStop` / `stopConn` (`C10_idempotent_*`,
  `C10_noop`, `C10_stop_post` of Props/C10.lean).

  * `C10S_stop`: `!ms.started` → return at once, nothing touched; otherwise `ms.started = false`, then
    for the TCP transport types (4 = modbusTCP, 5 = modbusTCPOverTLS) `ms.tcpListener.Close()`, its
    result assigned to `err`, then the loop over the client sockets; the run RETURNS in all cases.
  * `C10S_stop_closes_all`: that loop — `for _, sock := range ms.tcpClients { sock.Close() }`, rendered
    as a counted loop over `#i` with `sock := ms.tcpClients[#i]` — calls `sock.Close()` exactly once
    per element of the list, in list order, the k-th while `sock` = `l[k]`; `ms.tcpClients` itself is
    not assigned. Evaluated on `GoEval.sGs` = the generated term with two instrumentations
    (`C10S_stop_instr`: nothing else differs): the index-dependent, text-keyed leaf
    `ms.tcpClients[#i]` is re-bound from the list and the VALUE of `#i` at the head of every round
    (`withProbe`), and the receiver variable of `sock.Close()` is passed as an argument so that the
    call log records which socket is closed (`withRecv`; `bindCall` has no receiver).
  * `C10S_stop_static`: no opaque statement is left; what is assigned where.
  * `C10S_stop_idempotent`: a second `Stop`, from the environment the first one left, returns at
    once and touches nothing. `C10S_stop_model`: = `doStop` on `started`, the listener, the sockets
    of `clients` (`stopConn`), and the list itself (kept on both sides).
  * `C10S_start`: started → return (nil) at once; TCP types → `net.Listen("tcp", ms.conf.URL)`; on an
    error the function returns it with `ms.started` unchanged and no goroutine; otherwise
    `go ms.acceptTCPClients(ms.tcpListener)` on exactly the listener just bound, then
    `ms.started = true`; any other type → `err = ErrConfigurationError`, not started, nothing called.
  * `C10S_start_idempotent`, `C10S_start_model`: = `doStart`.
  * `C10S_no_admission_after_stop`: from the environment `Stop` leaves a round of the accept loop
    rejects: `sock.Close()`, no go statement, no append (`C09S_admission` with `started = false`).

  Not derived from the generated terms:
  * `len(ms.tcpClients)` = `l.length`, `ms.tcpClients[#i]` = `l[#i]` for the current value of `#i`
    (the probe oracle), sockets are integers (`Lifecycle.ConnId`);
  * the model has no failing `Listen`: `doStart` always succeeds. The Go failure path (error
    returned, `started` unchanged, no goroutine) corresponds to NO model step; `ms.tcpListener` is
    overwritten with the (nil) result, which nothing reads while `started` is false;
  * that closing the listener resets the connections still in its accept queue (`stopConn`'s
    `backlog → dropped`) is the kernel's doing, not the Go code's;
  * locks, logging and `verifYield` are dropped by the translator (Props/C10Flow, C10Locks).
-/
set_option linter.unusedSimpArgs false
set_option linter.unusedVariables false

namespace Modbus.Props.C10
open Modbus Modbus.Gen Modbus.GoEval Modbus.Lifecycle

/-- the transport types with a TCP listener -/
theorem C10S_tcp_types : const_modbusTCP = 4 ∧ const_modbusTCPOverTLS = 5 := by decide

/-! ## Stop -/

/-- the term that is evaluated: the generated `Stop` with (1) the index-dependent leaf
    `ms.tcpClients[#i]` re-bound from the client list and the VALUE of `#i` at the head of every loop
    round (probe `#ms.tcpClients[#i]`), (2) the receiver variable of `sock.Close()` passed as an
    argument, so that the call log shows WHICH socket is closed. Both are removed again by
    `stripRecv` / `stripProbe`: nothing else differs from the generated term. -/
theorem C10S_stop_instr :
    sGs = withRecv "sock.Close" "sock"
      (withProbe "ms.tcpClients[#i]" "#ms.tcpClients[#i]" "#i" gs_ModbusServer_Stop) ∧
    stripProbe "#ms.tcpClients[#i]" (stripRecv "sock.Close" sGs) = gs_ModbusServer_Stop ∧
    sGs = stopWith (.loop stopBody) :=
  ⟨rfl, strip_sGs, sGs_eq⟩

/-- not started: returns at once, whatever the oracle; environment and call history UNCHANGED -/
theorem stop_not_started (o : Oracle) (env : Env) (cs : Calls)
    (hst : Env.read? env "ms.started" = some (Val.ofBool false)) (fuel : Nat) (hf : 4 ≤ fuel) :
    execFrom o fuel sGs env cs = ⟨env, .returned, cs⟩ := by
  have h : execFrom o 4 sGs env cs = ⟨env, .returned, cs⟩ := by
    rw [sGs_eq]
    go_eval [stopWith, hst]
  exact execFrom_ge _ h (fun h => nomatch h) fuel hf

/-- the same on the generated term itself -/
theorem stop_not_started_gs (o : Oracle) (env : Env) (cs : Calls)
    (hst : Env.read? env "ms.started" = some (Val.ofBool false)) (fuel : Nat) (hf : 4 ≤ fuel) :
    execFrom o fuel gs_ModbusServer_Stop env cs = ⟨env, .returned, cs⟩ := by
  have h : execFrom o 4 gs_ModbusServer_Stop env cs = ⟨env, .returned, cs⟩ := by
    go_eval [gs_ModbusServer_Stop, hst]
  exact execFrom_ge _ h (fun h => nomatch h) fuel hf

/-- started, not a TCP transport type: `ms.started = false`, return; nothing called -/
theorem stop_other (o : Oracle) (tt : Int) (h4 : tt ≠ 4) (h5 : tt ≠ 5) (env : Env) (cs : Calls)
    (hst : Env.read? env "ms.started" = some (Val.ofBool true))
    (htt : Env.read? env "ms.transportType" = some (.int tt)) (fuel : Nat) (hf : 5 ≤ fuel) :
    execFrom o fuel sGs env cs = ⟨Env.write env "ms.started" (.int 0), .returned, cs⟩ := by
  have h : execFrom o 5 sGs env cs = ⟨Env.write env "ms.started" (.int 0), .returned, cs⟩ := by
    rw [sGs_eq]
    go_eval [stopWith, hst, htt, h4, h5, decide_false, Bool.or_false, or_self]
  exact execFrom_ge _ h (fun h => nomatch h) fuel hf

/-- the keys `Stop` may bind: every other key keeps its value and its number of bindings -/
def StopFrame (env env' : Env) : Prop :=
  ∀ x, x ≠ "ms.started" → x ≠ "err" → x ≠ "#len(ms.tcpClients)" → x ≠ "#i" → x ≠ "sock" →
    x ≠ "ms.tcpClients[#i]" → Env.read? env' x = Env.read? env x ∧ writes x env' = writes x env

/-- the call `sock.Close()` made while `sock` = `c` -/
def closeCall (c : ConnId) : String × List Val := ("sock.Close", [.int (c : Nat)])

/-- **`Stop` closes every registered connection.** Server started, TCP transport type (4 or 5),
    client list `l` (shorter than 2^62: `len(ms.tcpClients)` = `l.length`, `ms.tcpClients[#i]` = `l[#i]`),
    from ANY such environment, every fuel ≥ `l.length + 15`: the run RETURNS; `ms.started` is false
    (cleared first), `err` is the result of `ms.tcpListener.Close()`; the calls are
    `ms.tcpListener.Close()` followed — probes aside — by exactly one `sock.Close()` per element of
    `l`, in list order, the k-th made while `sock` = `l[k]` (with the probes: `stopTrace`: index k is
    inspected, `l[k]` closed, …, the final probe of index `len` ends the loop): every registered
    connection is closed, each once, none skipped, nothing else is closed. `ms.tcpClients` itself
    is NOT assigned (`StopFrame` covers it: same value, same number of bindings): the list is
    left as it is. -/
theorem C10S_stop_closes_all (l : List ConnId) (hn : l.length < 2^62) (cerr : Val) (tt : Int)
    (h45 : tt = 4 ∨ tt = 5) (env : Env) (cs : Calls)
    (hst : Env.read? env "ms.started" = some (Val.ofBool true))
    (htt : Env.read? env "ms.transportType" = some (.int tt))
    (hlen : Env.read? env "len(ms.tcpClients)" = some (.int (l.length : Int)))
    (fuel : Nat) (hf : l.length + 15 ≤ fuel) :
    ∃ env', execFrom (stopOracleL l cerr) fuel sGs env cs =
        ⟨env', .returned, cs ++ ("ms.tcpListener.Close", []) :: stopTrace l 0 l.length⟩ ∧
      realCalls "#ms.tcpClients[#i]" (cs ++ ("ms.tcpListener.Close", []) :: stopTrace l 0 l.length) =
        realCalls "#ms.tcpClients[#i]" cs ++ ("ms.tcpListener.Close", []) :: l.map closeCall ∧
      Env.read? env' "ms.started" = some (.int 0) ∧ Env.read? env' "err" = some cerr ∧
      Env.read? env' "ms.tcpClients" = Env.read? env "ms.tcpClients" ∧
      writes "ms.tcpClients" env' = writes "ms.tcpClients" env ∧
      StopFrame env env' := by
  obtain ⟨g, rfl⟩ : ∃ g, fuel = g + 8 := ⟨fuel - 8, by omega⟩
  have inv : StopInv l 0 (Env.write (Env.write (Env.write (Env.write env "ms.started" (.int 0)) "err" cerr)
      "#len(ms.tcpClients)" (.int (l.length : Int))) "#i" (.int 0)) := by
    constructor
    · simp only [read?_write, ↓reduceIte]; rfl
    · simp only [read?_write, String.reduceEq, ↓reduceIte]
  obtain ⟨env', hrun, hout⟩ := stop_loop l cerr hn l.length 0 _ (cs ++ [("ms.tcpListener.Close", [])])
    (by omega) inv (g + 1) (by omega)
  have hwhole := stopWith_tcp (stopOracleL l cerr) cerr (fun _ => by simp only [stopOracleL, String.reduceEq, ↓reduceIte])
    (.loop stopBody) g tt h45 env cs l.length hst htt hlen env' _ hrun
  refine ⟨env', ?_, ?_, ?_, ?_, ?_, ?_, ?_⟩
  · rw [sGs_eq, hwhole, List.append_assoc]; rfl
  · rw [realCalls_append, show ∀ (x : String × List Val) (xs : Calls), x :: xs = [x] ++ xs from
      fun _ _ => rfl, realCalls_append, realCalls_stopTrace l l.length 0 (by omega), List.drop_zero]
    simp only [realCalls, List.filter_cons, List.filter_nil, String.reduceBNe,
      ↓reduceIte, List.cons_append, List.nil_append]
    rfl
  · rw [(hout "ms.started" (by decide) (by decide) (by decide)).1]
    simp only [read?_write, String.reduceEq, ↓reduceIte]
  · rw [(hout "err" (by decide) (by decide) (by decide)).1]
    simp only [read?_write, String.reduceEq, ↓reduceIte]
  · rw [(hout "ms.tcpClients" (by decide) (by decide) (by decide)).1]
    simp only [read?_write, String.reduceEq, ↓reduceIte]
  · rw [(hout "ms.tcpClients" (by decide) (by decide) (by decide)).2]
    simp only [writes_write, String.reduceEq, ↓reduceIte, Nat.add_zero]
  · intro x h1 h2 h3 h4 h5 h6
    obtain ⟨a, b⟩ := hout x h6 h5 h4
    rw [a, b]
    simp only [read?_write, writes_write, Ne.symm h1, Ne.symm h2, Ne.symm h3, Ne.symm h4, ↓reduceIte,
      Nat.add_zero, and_self]

/-- **`Stop`**, all cases at once: from any environment in which `ms.started` = `st`,
    `ms.transportType` = `tt`, `len(ms.tcpClients)` = `l.length`, every fuel ≥ `l.length + 15`:
    the run RETURNS (no opaque statement is left: `C10S_stop_static`), `ms.started` is false
    afterwards, and only the keys of `StopFrame` may have been bound; moreover

    * not started: environment and call history are UNCHANGED (nothing assigned, nothing called);
    * started, other transport type: `ms.started = false` is the only assignment, nothing called;
    * started, TCP type: `C10S_stop_closes_all`. -/
theorem C10S_stop (l : List ConnId) (hn : l.length < 2^62) (cerr : Val) (st : Bool) (tt : Int)
    (env : Env) (cs : Calls)
    (hst : Env.read? env "ms.started" = some (Val.ofBool st))
    (htt : Env.read? env "ms.transportType" = some (.int tt))
    (hlen : Env.read? env "len(ms.tcpClients)" = some (.int (l.length : Int)))
    (fuel : Nat) (hf : l.length + 15 ≤ fuel) :
    let r := execFrom (stopOracleL l cerr) fuel sGs env cs
    r.how = .returned ∧ Env.read? r.env "ms.started" = some (Val.ofBool false) ∧
    StopFrame env r.env ∧
    (st = false → r = ⟨env, .returned, cs⟩) ∧
    (st = true → ¬(tt = 4 ∨ tt = 5) → r = ⟨Env.write env "ms.started" (.int 0), .returned, cs⟩) ∧
    (st = true → (tt = 4 ∨ tt = 5) →
      r.calls = cs ++ ("ms.tcpListener.Close", []) :: stopTrace l 0 l.length ∧
      realCalls "#ms.tcpClients[#i]" r.calls =
        realCalls "#ms.tcpClients[#i]" cs ++ ("ms.tcpListener.Close", []) :: l.map closeCall ∧
      Env.read? r.env "err" = some cerr) := by
  intro r
  cases st
  · have hr : r = ⟨env, .returned, cs⟩ := stop_not_started _ env cs hst fuel (by omega)
    rw [hr]
    exact ⟨rfl, hst, fun x _ _ _ _ _ _ => ⟨rfl, rfl⟩, fun _ => rfl, (fun h => nomatch h),
      (fun h => nomatch h)⟩
  · by_cases h45 : tt = 4 ∨ tt = 5
    · obtain ⟨env', hrun, hreal, h1, h2, _, _, hfr⟩ :=
        C10S_stop_closes_all l hn cerr tt h45 env cs hst htt hlen fuel hf
      have hr : r = _ := hrun
      rw [hr]
      exact ⟨rfl, h1, hfr, (fun h => nomatch h), fun _ hn => absurd h45 hn, fun _ _ => ⟨rfl, hreal, h2⟩⟩
    · have hr : r = ⟨Env.write env "ms.started" (.int 0), .returned, cs⟩ :=
        stop_other _ tt (fun h => h45 (Or.inl h)) (fun h => h45 (Or.inr h)) env cs hst htt fuel (by omega)
      rw [hr]
      refine ⟨rfl, ?_, ?_, (fun h => nomatch h), fun _ _ => rfl, fun _ h => absurd h h45⟩
      · simp only [read?_write, ↓reduceIte]; rfl
      · intro x h1 _ _ _ _ _
        simp only [read?_write, writes_write, Ne.symm h1, ↓reduceIte, Nat.add_zero, and_self]

/-- **static**: `Stop` has NO opaque statement any more; the only value assigned to `ms.started` is
    the literal `false`; `ms.tcpClients` is assigned nowhere and bound by no call (the calls bind
    `err` resp. nothing); `sock` is only ever assigned the leaf `ms.tcpClients[#i]`; the bound is
    `len(ms.tcpClients)`, evaluated once; the index starts at 0 and is only incremented -/
theorem C10S_stop_static :
    opaques gs_ModbusServer_Stop = [] ∧
    assignedTo "ms.started" gs_ModbusServer_Stop = [.lit 0 .bool] ∧
    assignedTo "ms.tcpClients" gs_ModbusServer_Stop = [] ∧
    (bindCalls gs_ModbusServer_Stop).map (fun b => (b.1, b.2.1, b.2.2.map leafText?)) =
      [(["err"], "ms.tcpListener.Close", []), ([], "sock.Close", [])] ∧
    assignedTexts "sock" gs_ModbusServer_Stop = [some "ms.tcpClients[#i]"] ∧
    assignedTexts "#len(ms.tcpClients)" gs_ModbusServer_Stop = [some "len(ms.tcpClients)"] ∧
    (assignedTo "#i" gs_ModbusServer_Stop).map (fun e => (varTexts e, callTexts e)) =
      [([], []), (["#i"], [])] :=
  ⟨by decide +kernel, rfl, rfl, by decide +kernel, by decide +kernel, by decide +kernel,
    by decide +kernel⟩

/-- **`Stop` is idempotent**: a second `Stop` (any oracle), run from the environment and call
    history the first one left, returns at once: no assignment, no call — on the instrumented
    and on the generated term -/
theorem C10S_stop_idempotent (l : List ConnId) (hn : l.length < 2^62) (cerr : Val) (st : Bool)
    (tt : Int) (env : Env) (cs : Calls)
    (hst : Env.read? env "ms.started" = some (Val.ofBool st))
    (htt : Env.read? env "ms.transportType" = some (.int tt))
    (hlen : Env.read? env "len(ms.tcpClients)" = some (.int (l.length : Int)))
    (fuel : Nat) (hf : l.length + 15 ≤ fuel) (o' : Oracle) (fuel' : Nat) (hf' : 4 ≤ fuel') :
    let r := execFrom (stopOracleL l cerr) fuel sGs env cs
    execFrom o' fuel' sGs r.env r.calls = ⟨r.env, .returned, r.calls⟩ ∧
    execFrom o' fuel' gs_ModbusServer_Stop r.env r.calls = ⟨r.env, .returned, r.calls⟩ := by
  intro r
  have h1 := (C10S_stop l hn cerr st tt env cs hst htt hlen fuel hf).2.1
  exact ⟨stop_not_started o' r.env r.calls h1 fuel' hf', stop_not_started_gs o' r.env r.calls h1 fuel' hf'⟩

theorem stop_clients (s : State) : (step s .stop).clients = s.clients := by
  show (doStop s).clients = s.clients
  unfold doStop; split <;> rfl

/-- `Stop` touches no connection outside `clients` (and the accept queue of the listener) -/
theorem stop_other_conns (s : State) (c : ConnId) (hc : c ∉ s.clients)
    (hb : (s.conn c).phase ≠ .backlog) : (step s .stop).conn c = s.conn c := by
  show (doStop s).conn c = s.conn c
  unfold doStop; split
  · simp only [State.conn, find_stop]
    cases hf : find s.conns c with
    | none => rfl
    | some k =>
      have hk : s.conn c = k := by simp [State.conn, hf]
      rw [hk] at hb
      simp [stopConn, hc, hb]
  · rfl

/-- **= the model's `stop`** (TCP types; `ms.tcpClients` = the model's `clients`, `s` reachable).

    * `started` after the Go run is `started` after `doStop` (false);
    * the list is KEPT on both sides: Go does not assign `ms.tcpClients`, `doStop` leaves `clients`
      (the entries leave through their own removal steps — the reason why sessions of a previous
      run still occupy slots right after a restart, `C10_restart_may_reject`);
    * started: the listener is closed where the model sets `listenerOpen = false`; Go calls
      `sock.Close()` exactly once on each element of `clients`, in order, and on nothing else, where
      the model's `stopConn` marks exactly the connections in `clients` as `sockClosed` (every
      connection outside `clients` that is not queued on the listener is untouched);
    * not started: both change nothing at all (`C10_noop`). -/
theorem C10S_stop_model (s : State) (hs : Reachable s) (hn : s.clients.length < 2^62)
    (cerr : Val) (tt : Int) (htcp : tt = 4 ∨ tt = 5) (env : Env) (cs : Calls)
    (hst : Env.read? env "ms.started" = some (Val.ofBool s.started))
    (htt : Env.read? env "ms.transportType" = some (.int tt))
    (hlen : Env.read? env "len(ms.tcpClients)" = some (.int (s.clients.length : Int)))
    (fuel : Nat) (hf : s.clients.length + 15 ≤ fuel) :
    let r := execFrom (stopOracleL s.clients cerr) fuel sGs env cs
    let s' := step s .stop
    r.how = .returned ∧
    Env.read? r.env "ms.started" = some (Val.ofBool s'.started) ∧
    (s'.clients = s.clients ∧ Env.read? r.env "ms.tcpClients" = Env.read? env "ms.tcpClients" ∧
      writes "ms.tcpClients" r.env = writes "ms.tcpClients" env) ∧
    (s.started = true →
      s'.listenerOpen = false ∧
      realCalls "#ms.tcpClients[#i]" r.calls =
        realCalls "#ms.tcpClients[#i]" cs ++ ("ms.tcpListener.Close", []) :: s.clients.map closeCall ∧
      (∀ c ∈ s.clients, (s'.conn c).sockClosed = true) ∧
      (∀ c, c ∉ s.clients → (s.conn c).phase ≠ .backlog → s'.conn c = s.conn c)) ∧
    (s.started = false → s' = s ∧ r = ⟨env, .returned, cs⟩) := by
  intro r s'
  obtain ⟨h0, h1, hfr, hA, _, hC⟩ := C10S_stop s.clients hn cerr s.started tt env cs hst htt hlen fuel hf
  have hstop : s'.started = false := (C10_stop_post hs).1
  have hkeep := hfr "ms.tcpClients" (by decide) (by decide) (by decide) (by decide) (by decide) (by decide)
  refine ⟨h0, by rw [hstop]; exact h1, ⟨stop_clients s, hkeep.1, hkeep.2⟩, fun hst' => ?_, fun hst' => ?_⟩
  · obtain ⟨_, hreal, _⟩ := hC hst' htcp
    refine ⟨(C10_stop_post hs).2.1, hreal, fun c hc => ?_, fun c hc hb => stop_other_conns s c hc hb⟩
    exact (C10_stop_post hs).2.2.2.1 c (by rw [stop_clients s]; exact hc)
  · exact ⟨(C10_noop s).2 hst', hA hst'⟩

/-! ## Start -/

/-- `net.Listen` returns `(lst, lerr)`; the go statement is performed (and logged) -/
def startOracle (lst lerr : Val) : Oracle := fun f _ =>
  if f = "net.Listen" then some [lst, lerr]
  else if f = "go ms.acceptTCPClients" then some []
  else none

theorem start_10 (lst url : Val) (e : String) (st : Bool) (tt : Int) (env : Env) (cs : Calls)
    (hnil : Env.read? env "nil" = none) (hcfg : Env.read? env "ErrConfigurationError" = none)
    (htcp : Env.read? env "\"tcp\"" = some (.sym "\"tcp\""))
    (hurl : Env.read? env "ms.conf.URL" = some url)
    (hst : Env.read? env "ms.started" = some (Val.ofBool st))
    (htt : Env.read? env "ms.transportType" = some (.int tt)) :
    execFrom (startOracle lst (.sym e)) 10 gs_ModbusServer_Start env cs =
      if st = true then ⟨env, .returned, cs⟩
      else if tt = 4 ∨ tt = 5 then
        if e = "nil" then
          ⟨Env.write (Env.write (Env.write env "ms.tcpListener" lst) "err" (.sym "nil"))
              "ms.started" (.int 1), .returned,
            cs ++ [("net.Listen", [.sym "\"tcp\"", url]), ("go ms.acceptTCPClients", [lst])]⟩
        else
          ⟨Env.write (Env.write env "ms.tcpListener" lst) "err" (.sym e), .returned,
            cs ++ [("net.Listen", [.sym "\"tcp\"", url])]⟩
      else ⟨Env.write env "err" (.sym "ErrConfigurationError"), .returned, cs⟩ := by
  cases st
  · by_cases h : tt = 4 ∨ tt = 5
    · by_cases he : e = "nil"
      · subst he
        rcases h with h | h <;> subst h <;>
          go_eval [gs_ModbusServer_Start, startOracle, hnil, hcfg, htcp, hurl, hst, htt, Int.reduceEq,
            decide_true, decide_false, Bool.or_false, Bool.or_true, or_true, true_or, ne_eq,
            not_true_eq_false, List.append_assoc]
      · rcases h with h | h <;> subst h <;>
          go_eval [gs_ModbusServer_Start, startOracle, hnil, hcfg, htcp, hurl, hst, htt, Int.reduceEq,
            decide_true, decide_false, Bool.or_false, Bool.or_true, or_true, true_or, ne_eq, he,
            not_false_eq_true, List.append_assoc]
    · have h4 : ¬ tt = 4 := fun h' => h (Or.inl h')
      have h5 : ¬ tt = 5 := fun h' => h (Or.inr h')
      go_eval [gs_ModbusServer_Start, startOracle, hnil, hcfg, htcp, hurl, hst, htt, h4, h5,
        decide_false, Bool.or_false, or_self]
  · go_eval [gs_ModbusServer_Start, hst]

/-- **`Start`**, from any environment `env` (call history `cs`) in which `ms.started` = `st`,
    `ms.transportType` = `tt`, `ms.conf.URL` = `url`; `net.Listen` returning `(lst, e)` (`e = "nil"`:
    no error); every fuel ≥ 10:

    * started: returns at once (the named result `err` keeps its zero value nil); environment and
      call history UNCHANGED;
    * TCP type, `Listen` ok: `net.Listen("tcp", ms.conf.URL)`, `ms.tcpListener` = its result, then the
      go statement `go ms.acceptTCPClients(lst)` with exactly that listener, then `ms.started = true`;
    * TCP type, `Listen` failed: the error is in `err`, `ms.started` is NOT assigned, no goroutine;
    * other type: `err = ErrConfigurationError`, `ms.started` not assigned, nothing called. -/
theorem C10S_start (lst url : Val) (e : String) (st : Bool) (tt : Int) (env : Env) (cs : Calls)
    (hnil : Env.read? env "nil" = none) (hcfg : Env.read? env "ErrConfigurationError" = none)
    (htcp : Env.read? env "\"tcp\"" = some (.sym "\"tcp\""))
    (hurl : Env.read? env "ms.conf.URL" = some url)
    (hst : Env.read? env "ms.started" = some (Val.ofBool st))
    (htt : Env.read? env "ms.transportType" = some (.int tt)) (fuel : Nat) (hf : 10 ≤ fuel) :
    execFrom (startOracle lst (.sym e)) fuel gs_ModbusServer_Start env cs =
      if st = true then ⟨env, .returned, cs⟩
      else if tt = 4 ∨ tt = 5 then
        if e = "nil" then
          ⟨Env.write (Env.write (Env.write env "ms.tcpListener" lst) "err" (.sym "nil"))
              "ms.started" (.int 1), .returned,
            cs ++ [("net.Listen", [.sym "\"tcp\"", url]), ("go ms.acceptTCPClients", [lst])]⟩
        else
          ⟨Env.write (Env.write env "ms.tcpListener" lst) "err" (.sym e), .returned,
            cs ++ [("net.Listen", [.sym "\"tcp\"", url])]⟩
      else ⟨Env.write env "err" (.sym "ErrConfigurationError"), .returned, cs⟩ :=
  execFrom_ge _ (start_10 lst url e st tt env cs hnil hcfg htcp hurl hst htt)
    (by repeat' split
        all_goals exact fun h => nomatch h) fuel hf

/-- **static**: `Start` has no opaque statement; the only value assigned to `ms.started` is the
    literal `true`; `err` is assigned `ErrConfigurationError` (default case) or bound by `net.Listen`;
    the go statement passes `ms.tcpListener` -/
theorem C10S_start_static :
    opaques gs_ModbusServer_Start = [] ∧
    assignedTo "ms.started" gs_ModbusServer_Start = [.lit 1 .bool] ∧
    assignedTexts "err" gs_ModbusServer_Start = [some "ErrConfigurationError"] ∧
    bindCalls gs_ModbusServer_Start =
      [(["ms.tcpListener", "err"], "net.Listen", [.call "\"tcp\"" .other, .var "ms.conf.URL" .other]),
       ([], "go ms.acceptTCPClients", [.var "ms.tcpListener" .other])] :=
  ⟨by decide +kernel, rfl, by decide +kernel, rfl⟩

/-- **`Start` is idempotent**: after a successful `Start` a second one (whatever `Listen` would
    return) returns at once: nothing assigned, nothing called — in particular no second listener
    and no second accept goroutine -/
theorem C10S_start_idempotent (lst url lst' : Val) (e' : String) (tt : Int) (h45 : tt = 4 ∨ tt = 5)
    (env : Env) (cs : Calls)
    (hnil : Env.read? env "nil" = none) (hcfg : Env.read? env "ErrConfigurationError" = none)
    (htcp : Env.read? env "\"tcp\"" = some (.sym "\"tcp\""))
    (hurl : Env.read? env "ms.conf.URL" = some url)
    (hst : Env.read? env "ms.started" = some (Val.ofBool false))
    (htt : Env.read? env "ms.transportType" = some (.int tt)) (fuel fuel' : Nat) (hf : 10 ≤ fuel)
    (hf' : 10 ≤ fuel') :
    let r := execFrom (startOracle lst (.sym "nil")) fuel gs_ModbusServer_Start env cs
    Env.read? r.env "ms.started" = some (Val.ofBool true) ∧
    execFrom (startOracle lst' (.sym e')) fuel' gs_ModbusServer_Start r.env r.calls =
      ⟨r.env, .returned, r.calls⟩ := by
  intro r
  have hr : r = _ := C10S_start lst url "nil" false tt env cs hnil hcfg htcp hurl hst htt fuel hf
  simp only [Bool.false_eq_true, ↓reduceIte, h45] at hr
  have h1 : Env.read? r.env "ms.started" = some (Val.ofBool true) := by
    rw [hr]; simp only [read?_write, ↓reduceIte]; rfl
  refine ⟨h1, ?_⟩
  have rd : ∀ k, k ≠ "ms.started" → k ≠ "err" → k ≠ "ms.tcpListener" →
      Env.read? r.env k = Env.read? env k := by
    intro k h1 h2 h3
    rw [hr]
    simp only [read?_write, Ne.symm h1, Ne.symm h2, Ne.symm h3, ↓reduceIte]
  rw [C10S_start lst' url e' true tt r.env r.calls
    (by rw [rd _ (by decide) (by decide) (by decide)]; exact hnil)
    (by rw [rd _ (by decide) (by decide) (by decide)]; exact hcfg)
    (by rw [rd _ (by decide) (by decide) (by decide)]; exact htcp)
    (by rw [rd _ (by decide) (by decide) (by decide)]; exact hurl) h1
    (by rw [rd _ (by decide) (by decide) (by decide)]; exact htt) fuel' hf']
  rfl

/-- **= the model's `start`** (TCP types, `Listen` succeeds — the model has no failing `Listen`).
    `started` after the Go run is `started` after `doStart` (true). On a stopped server Go binds
    ONE new listener and launches ONE accept goroutine on exactly that listener, where the model
    opens generation `gen + 1` and appends one acceptor bound to it; on a started server both change
    nothing at all (`C10_noop`). -/
theorem C10S_start_model (s : State) (lst url : Val) (tt : Int) (h45 : tt = 4 ∨ tt = 5)
    (env : Env) (cs : Calls)
    (hnil : Env.read? env "nil" = none) (hcfg : Env.read? env "ErrConfigurationError" = none)
    (htcp : Env.read? env "\"tcp\"" = some (.sym "\"tcp\""))
    (hurl : Env.read? env "ms.conf.URL" = some url)
    (hst : Env.read? env "ms.started" = some (Val.ofBool s.started))
    (htt : Env.read? env "ms.transportType" = some (.int tt)) (fuel : Nat) (hf : 10 ≤ fuel) :
    let r := execFrom (startOracle lst (.sym "nil")) fuel gs_ModbusServer_Start env cs
    r.how = .returned ∧
    Env.read? r.env "ms.started" = some (Val.ofBool (step s .start).started) ∧
    (s.started = false →
      r.calls = cs ++ [("net.Listen", [.sym "\"tcp\"", url]), ("go ms.acceptTCPClients", [lst])] ∧
      Env.read? r.env "ms.tcpListener" = some lst ∧
      (step s .start).acceptors = s.acceptors ++ [⟨s.gen + 1, .accepting⟩] ∧
      (step s .start).gen = s.gen + 1 ∧ (step s .start).listenerOpen = true) ∧
    (s.started = true → step s .start = s ∧ r = ⟨env, .returned, cs⟩) := by
  intro r
  have hr : r = _ := C10S_start lst url "nil" s.started tt env cs hnil hcfg htcp hurl hst htt fuel hf
  simp only [↓reduceIte, h45] at hr
  cases hs : s.started
  · simp only [hs, Bool.false_eq_true, ↓reduceIte] at hr
    have hm : step s .start = doStart s := rfl
    have hd : doStart s = { s with started := true, gen := s.gen + 1, listenerOpen := true, acceptors := s.acceptors ++ [⟨s.gen + 1, .accepting⟩] } := by
      simp [doStart, hs]
    rw [hd] at hm
    rw [hr, hm]
    refine ⟨rfl, ?_, fun _ => ⟨rfl, ?_, rfl, rfl, rfl⟩, (fun h => nomatch h)⟩
    · simp only [read?_write, ↓reduceIte]; rfl
    · simp only [read?_write, String.reduceEq, ↓reduceIte]
  · simp only [hs, ↓reduceIte] at hr
    have hm := (C10_noop s).1 hs
    rw [hr, hm]
    exact ⟨rfl, by rw [hs] at hst; rw [hs]; exact hst, (fun h => nomatch h), fun _ => ⟨rfl, rfl⟩⟩

/-! ## after Stop no connection is admitted -/

/-- from the environment `Stop` leaves (the flag is cleared FIRST, before the listener and the
    sockets are closed) a round of the accept loop on a connection `sk` that `Accept` still
    delivered REJECTS it, whatever `len(ms.tcpClients)` and `MaxClients` are: `accepted = false`,
    `ms.tcpClients` not assigned (neither by `Stop` nor by the round), `sock.Close()`, no go statement.
    (`Stop`'s critical section and the admission critical section exclude each other:
    Props/C10Flow, C10Locks.) -/
theorem C10S_no_admission_after_stop (l : List ConnId) (hn : l.length < 2^62) (cerr sk : Val)
    (st : Bool) (tt : Int) (maxc : Nat) (hm : maxc < 2^64) (env : Env) (cs : Calls)
    (hst : Env.read? env "ms.started" = some (Val.ofBool st))
    (htt : Env.read? env "ms.transportType" = some (.int tt))
    (hnil : Env.read? env "nil" = none)
    (hlen : Env.read? env "len(ms.tcpClients)" = some (.int (l.length : Int)))
    (hmax : Env.read? env "ms.conf.MaxClients" = some (.int (maxc : Int)))
    (happ : Env.read? env "append(ms.tcpClients, sock)" = some (.sym "append(ms.tcpClients, sock)"))
    (fuel fuel' : Nat) (hf : l.length + 15 ≤ fuel) (hf' : 8 ≤ fuel') :
    let stopped := execFrom (stopOracleL l cerr) fuel sGs env cs
    let r := execFrom (C09.accOracle [sk, .sym "nil"]) fuel' C09.accBody stopped.env stopped.calls
    stopped.how = .returned ∧
    r.how = .fell ∧ Env.read r.env "accepted" = .int 0 ∧
    Env.read? r.env "ms.tcpClients" = Env.read? env "ms.tcpClients" ∧
    writes "ms.tcpClients" r.env = writes "ms.tcpClients" env ∧
    r.calls = stopped.calls ++ [("listener.Accept", []), ("sock.Close", [])] := by
  intro stopped r
  obtain ⟨h0, h1, hfr, _⟩ := C10S_stop l hn cerr st tt env cs hst htt hlen fuel hf
  have h0 : stopped.how = .returned := h0
  have h1 : Env.read? stopped.env "ms.started" = some (Val.ofBool false) := h1
  have hfr : StopFrame env stopped.env := hfr
  have rd := fun x a b c d e f => (hfr x a b c d e f).1
  have h := C09.C09S_admission sk false l.length maxc (by omega) hm stopped.env stopped.calls
    (by rw [rd _ (by decide) (by decide) (by decide) (by decide) (by decide) (by decide)]; exact hnil) h1
    (by rw [rd _ (by decide) (by decide) (by decide) (by decide) (by decide) (by decide)]; exact hlen)
    (by rw [rd _ (by decide) (by decide) (by decide) (by decide) (by decide) (by decide)]; exact hmax)
    (by rw [rd _ (by decide) (by decide) (by decide) (by decide) (by decide) (by decide)]; exact happ)
    fuel' hf'
  simp only [Bool.false_eq_true, false_and, ↓reduceIte] at h
  obtain ⟨g0, g1, g2, g3, g4⟩ := h
  have hk := hfr "ms.tcpClients" (by decide) (by decide) (by decide) (by decide) (by decide) (by decide)
  exact ⟨h0, g0, g1, by rw [g2, hk.1], by rw [g3, hk.2], g4⟩

/-! ## concrete runs -/

def lifeEnv (st : Bool) (tt : Int) : Env :=
  [("ms.started", Val.ofBool st), ("ms.transportType", .int tt), ("\"tcp\"", .sym "\"tcp\""),
   ("ms.conf.URL", .sym "ms.conf.URL")]

example : exec (startOracle (.sym "L1") (.sym "nil")) 10 gs_ModbusServer_Start (lifeEnv false 4) =
    ⟨("ms.started", .int 1) :: ("err", .sym "nil") :: ("ms.tcpListener", .sym "L1") :: lifeEnv false 4,
      .returned,
      [("net.Listen", [.sym "\"tcp\"", .sym "ms.conf.URL"]), ("go ms.acceptTCPClients", [.sym "L1"])]⟩ := by
  decide +kernel
example : exec (startOracle (.sym "L1") (.sym "nil")) 10 gs_ModbusServer_Start (lifeEnv true 4) =
    ⟨lifeEnv true 4, .returned, []⟩ := by decide +kernel
example : (exec (startOracle (.sym "nil") (.sym "bind: address already in use")) 10
    gs_ModbusServer_Start (lifeEnv false 5)).calls = [("net.Listen", [.sym "\"tcp\"", .sym "ms.conf.URL"])] := by
  decide +kernel
/-- RTU server (type 1): configuration error, not started -/
example : exec (startOracle (.sym "L1") (.sym "nil")) 10 gs_ModbusServer_Start (lifeEnv false 1) =
    ⟨("err", .sym "ErrConfigurationError") :: lifeEnv false 1, .returned, []⟩ := by decide +kernel
/-- the environment of `Stop`: client list `l` -/
def stopEnv (st : Bool) (tt : Int) (l : List ConnId) : Env :=
  ("len(ms.tcpClients)", .int (l.length : Int)) :: lifeEnv st tt

example : exec (stopOracleL [7, 9] (.sym "nil")) 20 sGs (stopEnv false 4 [7, 9]) =
    ⟨stopEnv false 4 [7, 9], .returned, []⟩ := by decide +kernel
/-- two clients: the listener, then socket 7, then socket 9 -/
example : (exec (stopOracleL [7, 9] (.sym "nil")) 20 sGs (stopEnv true 5 [7, 9])).calls =
    [("ms.tcpListener.Close", []), ("#ms.tcpClients[#i]", [.int 0]), ("sock.Close", [.int 7]),
     ("#ms.tcpClients[#i]", [.int 1]), ("sock.Close", [.int 9]), ("#ms.tcpClients[#i]", [.int 2])] := by
  decide +kernel
example : let r := exec (stopOracleL [7, 9] (.sym "nil")) 20 sGs (stopEnv true 5 [7, 9])
    r.how = .returned ∧ Env.read r.env "ms.started" = .int 0 ∧ Env.read? r.env "ms.tcpClients" = none := by
  decide +kernel
/-- no client: only the listener is closed -/
example : realCalls "#ms.tcpClients[#i]"
    (exec (stopOracleL [] (.sym "nil")) 20 sGs (stopEnv true 4 [])).calls = [("ms.tcpListener.Close", [])] := by
  decide +kernel
/-- WITHOUT the probe the leaf `ms.tcpClients[#i]` has one value for the whole run: the generated
    loop would "close" the same socket `len` times — the reason for the instrumentation -/
example : (exec (stopOracleL [7, 9] (.sym "nil")) 20 (withRecv "sock.Close" "sock" gs_ModbusServer_Stop)
    (("ms.tcpClients[#i]", .int 7) :: stopEnv true 5 [7, 9])).calls =
    [("ms.tcpListener.Close", []), ("sock.Close", [.int 7]), ("sock.Close", [.int 7])] := by decide +kernel
/-- sensitivity: a loop that starts at index 1 skips the first client -/
example : realCalls "#ms.tcpClients[#i]" (exec (stopOracleL [7, 9] (.sym "nil")) 20
    (.seq (.assign "#len(ms.tcpClients)" (.var "len(ms.tcpClients)" .int))
      (.seq (.assign "#i" (.lit 1 .int)) (.loop stopBody))) (stopEnv true 5 [7, 9])).calls =
    [("sock.Close", [.int 9])] := by decide +kernel
/-- sensitivity: a `Stop` without the early return closes the listener again on every call -/
example : (exec (stopOracleL [] (.sym "nil")) 20
    (.seq (.assign "ms.started" (.lit 0 .bool))
      (.seq (.ite (.or (.cmp "==" (.var "ms.transportType" .uint) (.lit (4) .uint)) (.cmp "==" (.var "ms.transportType" .uint) (.lit (5) .uint))) (.bindCall ["err"] "ms.tcpListener.Close" []) .skip) .ret))
    (stopEnv false 4 [])).calls = [("ms.tcpListener.Close", [])] := by decide +kernel
/-- sensitivity: a `Start` that sets the flag before `Listen` is started after a failed bind -/
example : Env.read (exec (startOracle (.sym "nil") (.sym "bind: address already in use")) 10
    (.seq (.ite (.var "ms.started" .bool) .ret .skip) (.seq (.assign "ms.started" (.lit 1 .bool))
      (.seq (.bindCall ["ms.tcpListener", "err"] "net.Listen" [(.call "\"tcp\"" .other), (.var "ms.conf.URL" .other)])
        (.seq (.ite (.cmp "!=" (.var "err" .other) (.var "nil" .other)) .ret .skip) .ret))))
    (lifeEnv false 4)).env "ms.started" = .int 1 ∧
    Env.read (exec (startOracle (.sym "nil") (.sym "bind: address already in use")) 10
      gs_ModbusServer_Start (lifeEnv false 4)).env "ms.started" = .int 0 := by decide +kernel

end Modbus.Props.C10

#print axioms Modbus.Props.C10.C10S_tcp_types
#print axioms Modbus.Props.C10.C10S_stop_instr
#print axioms Modbus.Props.C10.C10S_stop_closes_all
#print axioms Modbus.Props.C10.C10S_stop
#print axioms Modbus.Props.C10.C10S_stop_static
#print axioms Modbus.Props.C10.C10S_stop_idempotent
#print axioms Modbus.Props.C10.C10S_stop_model
#print axioms Modbus.Props.C10.C10S_start
#print axioms Modbus.Props.C10.C10S_start_static
#print axioms Modbus.Props.C10.C10S_start_idempotent
#print axioms Modbus.Props.C10.C10S_start_model
#print axioms Modbus.Props.C10.C10S_no_admission_after_stop
