import ModbusVerif.Lemmas.GoEvalLifeLemmas
import ModbusVerif.Props.C10
import ModbusVerif.Props.C09Src
/-
  C10, source tie: `ModbusServer.Start` and `ModbusServer.Stop` of the CURRENT server.go, as rendered
  by the translator (`Gen.gs_ModbusServer_Start`, `Gen.gs_ModbusServer_Stop`, regenerated from /repo
  on every run), are EVALUATED by `Modbus.GoEval` for every value of `ms.started`, every transport
  type and every result of `net.Listen` / `ms.tcpListener.Close`, from ANY environment, and related
  to `Lifecycle.doStart` / `doStop` (`C10_idempotent_*`, `C10_noop` of Props/C10.lean).

  * `C10S_stop`: `!ms.started` → return at once, nothing touched; otherwise `ms.started = false`, then
    for the TCP transport types (4 = modbusTCP, 5 = modbusTCPOverTLS) `ms.tcpListener.Close()`, its
    result assigned to `err`, and the loop over the client sockets. That loop has a value variable
    (`for _, sock := range ms.tcpClients`), which the translator renders as
    `opaque "range ms.tcpClients"`: the run is STUCK there. `C10S_stop_static` proves on the term
    that this is the only opaque statement, that it is exactly that range, and that once it falls
    through nothing but `return` follows. What the loop body does (`sock.Close()` on every element)
    is NOT in the generated term: see the report at the end of this header.
  * `C10S_stop_idempotent`: a second `Stop` — from the environment the first one left, wherever it
    ended — returns at once and touches nothing. `C10S_stop_model`: = `doStop` on `started` and the
    listener.
  * `C10S_start`: started → return (nil) at once; TCP types → `net.Listen("tcp", ms.conf.URL)`; on an
    error the function returns it with `ms.started` unchanged and no goroutine; otherwise
    `go ms.acceptTCPClients(ms.tcpListener)` on exactly the listener just bound, then
    `ms.started = true`; any other type → `err = ErrConfigurationError`, not started, nothing called.
  * `C10S_start_idempotent`, `C10S_start_model`: = `doStart`.
  * `C10S_no_admission_after_stop`: from the environment `Stop` leaves (even at the stuck point: the
    flag is cleared BEFORE the listener and the sockets are closed) a round of the accept loop
    rejects: `sock.Close()`, no go statement, no append (`C09S_admission` with `started = false`).

  Not derived from the generated terms:
  * the model has no failing `Listen`: `doStart` always succeeds. The Go failure path (error
    returned, `started` unchanged, no goroutine) corresponds to NO model step; `ms.tcpListener` is
    overwritten with the (nil) result, which nothing reads while `started` is false;
  * MISSING in the rendering: the body of `for _, sock := range ms.tcpClients { sock.Close() }` in
    `Stop`. Neither `gs_ModbusServer_Stop` (opaque), nor `flow_ModbusServer_Stop`
    (`.block (.loop .skip)`: a call on a local variable is no receiver access), nor a skeleton
    (there is none for `Stop`) contains the `sock.Close()` call. The model's `stopConn` (every socket
    in `clients` is closed) is therefore NOT tied to the source here; it is covered by the
    run-time checks of C10 only. A translator extension that renders a value-range over a slice as
    a counted loop with the leaf `X[i]` bound to the value variable would close this gap with the
    probe technique of Lemmas/GoEvalLifeLemmas.lean.
  * locks, logging and `verifYield` are dropped by the translator (Props/C10Flow, C10Locks).
-/
set_option linter.unusedSimpArgs false
set_option linter.unusedVariables false

namespace Modbus.Props.C10
open Modbus Modbus.Gen Modbus.GoEval Modbus.Lifecycle

/-- the transport types with a TCP listener -/
theorem C10S_tcp_types : const_modbusTCP = 4 ∧ const_modbusTCPOverTLS = 5 := by decide

/-! ## Stop -/

/-- `ms.tcpListener.Close()` returns `cerr` -/
def stopOracle (cerr : Val) : Oracle := fun f _ =>
  if f = "ms.tcpListener.Close" then some [cerr] else none

theorem stop_8 (cerr : Val) (st : Bool) (tt : Int) (env : Env) (cs : Calls)
    (hst : Env.read? env "ms.started" = some (Val.ofBool st))
    (htt : Env.read? env "ms.transportType" = some (.int tt)) :
    execFrom (stopOracle cerr) 8 gs_ModbusServer_Stop env cs =
      if st = false then ⟨env, .returned, cs⟩
      else if tt = 4 ∨ tt = 5 then
        ⟨Env.write (Env.write env "ms.started" (.int 0)) "err" cerr,
          .stuckAt "range ms.tcpClients", cs ++ [("ms.tcpListener.Close", [])]⟩
      else ⟨Env.write env "ms.started" (.int 0), .returned, cs⟩ := by
  cases st
  · go_eval [gs_ModbusServer_Stop, hst]
  · by_cases h : tt = 4 ∨ tt = 5
    · rcases h with h | h <;> subst h <;>
        go_eval [gs_ModbusServer_Stop, stopOracle, hst, htt, Int.reduceEq, decide_true, decide_false,
          Bool.or_false, Bool.or_true, or_true, true_or]
    · have h4 : ¬ tt = 4 := fun h' => h (Or.inl h')
      have h5 : ¬ tt = 5 := fun h' => h (Or.inr h')
      go_eval [gs_ModbusServer_Stop, stopOracle, hst, htt, h4, h5, decide_false, Bool.or_false, or_self]

/-- **`Stop`**, from any environment `env` (call history `cs`) in which `ms.started` = `st` and
    `ms.transportType` = `tt`, `ms.tcpListener.Close()` returning `cerr`, every fuel ≥ 8:

    * not started: returns at once; environment and call history are UNCHANGED (nothing assigned,
      nothing called);
    * started, TCP type: `ms.started = false` first, then `ms.tcpListener.Close()` (its result goes to
      `err`), then the run is stuck at the loop over `ms.tcpClients` (`C10S_stop_static`: only
      `return` follows it);
    * started, other type: `ms.started = false`, return; nothing called. -/
theorem C10S_stop (cerr : Val) (st : Bool) (tt : Int) (env : Env) (cs : Calls)
    (hst : Env.read? env "ms.started" = some (Val.ofBool st))
    (htt : Env.read? env "ms.transportType" = some (.int tt)) (fuel : Nat) (hf : 8 ≤ fuel) :
    execFrom (stopOracle cerr) fuel gs_ModbusServer_Stop env cs =
      if st = false then ⟨env, .returned, cs⟩
      else if tt = 4 ∨ tt = 5 then
        ⟨Env.write (Env.write env "ms.started" (.int 0)) "err" cerr,
          .stuckAt "range ms.tcpClients", cs ++ [("ms.tcpListener.Close", [])]⟩
      else ⟨Env.write env "ms.started" (.int 0), .returned, cs⟩ :=
  execFrom_ge _ (stop_8 cerr st tt env cs hst htt)
    (by repeat' split
        all_goals exact fun h => nomatch h) fuel hf

/-- **static**: the only opaque statement of `Stop` is the range over `ms.tcpClients`; once it falls
    through, `return` is all that follows; the only value assigned to `ms.started` is the
    literal `false`; the only call is `err = ms.tcpListener.Close()` -/
theorem C10S_stop_static :
    opaques gs_ModbusServer_Stop = ["range ms.tcpClients"] ∧
    afterOpaque "range ms.tcpClients" gs_ModbusServer_Stop [] = some [.ret] ∧
    assignedTo "ms.started" gs_ModbusServer_Stop = [.lit 0 .bool] ∧
    bindCalls gs_ModbusServer_Stop = [(["err"], "ms.tcpListener.Close", [])] :=
  ⟨by decide +kernel, rfl, rfl, rfl⟩

/-- in the environment `Stop` leaves — wherever it ended — `ms.started` is false -/
theorem stop_clears (cerr : Val) (st : Bool) (tt : Int) (env : Env) (cs : Calls)
    (hst : Env.read? env "ms.started" = some (Val.ofBool st))
    (htt : Env.read? env "ms.transportType" = some (.int tt)) (fuel : Nat) (hf : 8 ≤ fuel) :
    Env.read? (execFrom (stopOracle cerr) fuel gs_ModbusServer_Stop env cs).env "ms.started" =
      some (Val.ofBool false) := by
  rw [C10S_stop cerr st tt env cs hst htt fuel hf]
  cases st
  · simpa using hst
  · by_cases h : tt = 4 ∨ tt = 5
    · simp only [h, Bool.true_eq_false, ↓reduceIte, read?_write, String.reduceEq]; rfl
    · simp only [h, Bool.true_eq_false, ↓reduceIte, read?_write]; rfl

/-- **`Stop` is idempotent**: a second `Stop`, run from the environment and call history the first
    one left (also when the first is still at the loop over the clients), returns at once: no
    assignment, no call -/
theorem C10S_stop_idempotent (cerr cerr' : Val) (st : Bool) (tt : Int) (env : Env) (cs : Calls)
    (hst : Env.read? env "ms.started" = some (Val.ofBool st))
    (htt : Env.read? env "ms.transportType" = some (.int tt)) (fuel fuel' : Nat) (hf : 8 ≤ fuel)
    (hf' : 8 ≤ fuel') :
    let r := execFrom (stopOracle cerr) fuel gs_ModbusServer_Stop env cs
    execFrom (stopOracle cerr') fuel' gs_ModbusServer_Stop r.env r.calls =
      ⟨r.env, .returned, r.calls⟩ := by
  intro r
  have h1 := stop_clears cerr st tt env cs hst htt fuel hf
  have htt' : ∃ v, Env.read? r.env "ms.transportType" = some (.int v) := by
    show ∃ v, Env.read? (execFrom (stopOracle cerr) fuel gs_ModbusServer_Stop env cs).env _ = _
    rw [C10S_stop cerr st tt env cs hst htt fuel hf]
    refine ⟨tt, ?_⟩
    repeat' split
    all_goals simp only [read?_write, String.reduceEq, ↓reduceIte]; exact htt
  obtain ⟨v, hv⟩ := htt'
  rw [C10S_stop cerr' false v r.env r.calls h1 hv fuel' hf']
  rfl

/-- **= the model's `stop`** (TCP types). `started` after the Go run is `started` after `doStop`
    (false); the listener is closed by Go exactly when the model closes it (the server was
    started); on a stopped server both change nothing at all (`C10_noop`) -/
theorem C10S_stop_model (s : State) (cerr : Val) (tt : Int) (htcp : tt = 4 ∨ tt = 5)
    (env : Env) (cs : Calls)
    (hst : Env.read? env "ms.started" = some (Val.ofBool s.started))
    (htt : Env.read? env "ms.transportType" = some (.int tt)) (fuel : Nat) (hf : 8 ≤ fuel) :
    let r := execFrom (stopOracle cerr) fuel gs_ModbusServer_Stop env cs
    Env.read? r.env "ms.started" = some (Val.ofBool (step s .stop).started) ∧
    (s.started = true → (step s .stop).listenerOpen = false ∧
      r.calls = cs ++ [("ms.tcpListener.Close", [])] ∧ r.how = .stuckAt "range ms.tcpClients") ∧
    (s.started = false → step s .stop = s ∧ r = ⟨env, .returned, cs⟩) := by
  intro r
  have hr : r = _ := C10S_stop cerr s.started tt env cs hst htt fuel hf
  have hstop : (step s .stop).started = false := by
    show (doStop s).started = false
    unfold doStop; split
    · rfl
    · next h => simpa using h
  refine ⟨by rw [hstop]; exact stop_clears cerr s.started tt env cs hst htt fuel hf, ?_, ?_⟩
  · intro hs
    rw [hr]
    simp only [hs, Bool.true_eq_false, ↓reduceIte, htcp, and_self, and_true]
    show (doStop s).listenerOpen = false
    simp [doStop, hs]
  · intro hs
    rw [hr]
    simp only [hs, ↓reduceIte, and_true]
    exact (C10_noop s).2 hs

/-! ## Start -/

/-- `net.Listen` returns `(lst, lerr)`; the go statement is performed (and logged) -/
def startOracle (lst lerr : Val) : Oracle := fun f _ =>
  if f = "net.Listen" then some [lst, lerr]
  else if f = "go ms.acceptTCPClients" then some []
  else none

theorem start_10 (lst url : Val) (e : String) (st : Bool) (tt : Int) (env : Env) (cs : Calls)
    (hnil : Env.read? env "nil" = none) (hcfg : Env.read? env "ErrConfigurationError" = none)
    (htcp : Env.read? env "\"tcp\"" = some (.sym "\"tcp\""))
    (hurl : Env.read? env "ms.conf.URL" = some url)
    (hst : Env.read? env "ms.started" = some (Val.ofBool st))
    (htt : Env.read? env "ms.transportType" = some (.int tt)) :
    execFrom (startOracle lst (.sym e)) 10 gs_ModbusServer_Start env cs =
      if st = true then ⟨env, .returned, cs⟩
      else if tt = 4 ∨ tt = 5 then
        if e = "nil" then
          ⟨Env.write (Env.write (Env.write env "ms.tcpListener" lst) "err" (.sym "nil"))
              "ms.started" (.int 1), .returned,
            cs ++ [("net.Listen", [.sym "\"tcp\"", url]), ("go ms.acceptTCPClients", [lst])]⟩
        else
          ⟨Env.write (Env.write env "ms.tcpListener" lst) "err" (.sym e), .returned,
            cs ++ [("net.Listen", [.sym "\"tcp\"", url])]⟩
      else ⟨Env.write env "err" (.sym "ErrConfigurationError"), .returned, cs⟩ := by
  cases st
  · by_cases h : tt = 4 ∨ tt = 5
    · by_cases he : e = "nil"
      · subst he
        rcases h with h | h <;> subst h <;>
          go_eval [gs_ModbusServer_Start, startOracle, hnil, hcfg, htcp, hurl, hst, htt, Int.reduceEq,
            decide_true, decide_false, Bool.or_false, Bool.or_true, or_true, true_or, ne_eq,
            not_true_eq_false, List.append_assoc]
      · rcases h with h | h <;> subst h <;>
          go_eval [gs_ModbusServer_Start, startOracle, hnil, hcfg, htcp, hurl, hst, htt, Int.reduceEq,
            decide_true, decide_false, Bool.or_false, Bool.or_true, or_true, true_or, ne_eq, he,
            not_false_eq_true, List.append_assoc]
    · have h4 : ¬ tt = 4 := fun h' => h (Or.inl h')
      have h5 : ¬ tt = 5 := fun h' => h (Or.inr h')
      go_eval [gs_ModbusServer_Start, startOracle, hnil, hcfg, htcp, hurl, hst, htt, h4, h5,
        decide_false, Bool.or_false, or_self]
  · go_eval [gs_ModbusServer_Start, hst]

/-- **`Start`**, from any environment `env` (call history `cs`) in which `ms.started` = `st`,
    `ms.transportType` = `tt`, `ms.conf.URL` = `url`; `net.Listen` returning `(lst, e)` (`e = "nil"`:
    no error); every fuel ≥ 10:

    * started: returns at once (the named result `err` keeps its zero value nil); environment and
      call history UNCHANGED;
    * TCP type, `Listen` ok: `net.Listen("tcp", ms.conf.URL)`, `ms.tcpListener` = its result, then the
      go statement `go ms.acceptTCPClients(lst)` with exactly that listener, then `ms.started = true`;
    * TCP type, `Listen` failed: the error is in `err`, `ms.started` is NOT assigned, no goroutine;
    * other type: `err = ErrConfigurationError`, `ms.started` not assigned, nothing called. -/
theorem C10S_start (lst url : Val) (e : String) (st : Bool) (tt : Int) (env : Env) (cs : Calls)
    (hnil : Env.read? env "nil" = none) (hcfg : Env.read? env "ErrConfigurationError" = none)
    (htcp : Env.read? env "\"tcp\"" = some (.sym "\"tcp\""))
    (hurl : Env.read? env "ms.conf.URL" = some url)
    (hst : Env.read? env "ms.started" = some (Val.ofBool st))
    (htt : Env.read? env "ms.transportType" = some (.int tt)) (fuel : Nat) (hf : 10 ≤ fuel) :
    execFrom (startOracle lst (.sym e)) fuel gs_ModbusServer_Start env cs =
      if st = true then ⟨env, .returned, cs⟩
      else if tt = 4 ∨ tt = 5 then
        if e = "nil" then
          ⟨Env.write (Env.write (Env.write env "ms.tcpListener" lst) "err" (.sym "nil"))
              "ms.started" (.int 1), .returned,
            cs ++ [("net.Listen", [.sym "\"tcp\"", url]), ("go ms.acceptTCPClients", [lst])]⟩
        else
          ⟨Env.write (Env.write env "ms.tcpListener" lst) "err" (.sym e), .returned,
            cs ++ [("net.Listen", [.sym "\"tcp\"", url])]⟩
      else ⟨Env.write env "err" (.sym "ErrConfigurationError"), .returned, cs⟩ :=
  execFrom_ge _ (start_10 lst url e st tt env cs hnil hcfg htcp hurl hst htt)
    (by repeat' split
        all_goals exact fun h => nomatch h) fuel hf

/-- **static**: `Start` has no opaque statement; the only value assigned to `ms.started` is the
    literal `true`; `err` is assigned `ErrConfigurationError` (default case) or bound by `net.Listen`;
    the go statement passes `ms.tcpListener` -/
theorem C10S_start_static :
    opaques gs_ModbusServer_Start = [] ∧
    assignedTo "ms.started" gs_ModbusServer_Start = [.lit 1 .bool] ∧
    assignedTexts "err" gs_ModbusServer_Start = [some "ErrConfigurationError"] ∧
    bindCalls gs_ModbusServer_Start =
      [(["ms.tcpListener", "err"], "net.Listen", [.call "\"tcp\"" .other, .var "ms.conf.URL" .other]),
       ([], "go ms.acceptTCPClients", [.var "ms.tcpListener" .other])] :=
  ⟨by decide +kernel, rfl, by decide +kernel, rfl⟩

/-- **`Start` is idempotent**: after a successful `Start` a second one (whatever `Listen` would
    return) returns at once: nothing assigned, nothing called — in particular no second listener
    and no second accept goroutine -/
theorem C10S_start_idempotent (lst url lst' : Val) (e' : String) (tt : Int) (h45 : tt = 4 ∨ tt = 5)
    (env : Env) (cs : Calls)
    (hnil : Env.read? env "nil" = none) (hcfg : Env.read? env "ErrConfigurationError" = none)
    (htcp : Env.read? env "\"tcp\"" = some (.sym "\"tcp\""))
    (hurl : Env.read? env "ms.conf.URL" = some url)
    (hst : Env.read? env "ms.started" = some (Val.ofBool false))
    (htt : Env.read? env "ms.transportType" = some (.int tt)) (fuel fuel' : Nat) (hf : 10 ≤ fuel)
    (hf' : 10 ≤ fuel') :
    let r := execFrom (startOracle lst (.sym "nil")) fuel gs_ModbusServer_Start env cs
    Env.read? r.env "ms.started" = some (Val.ofBool true) ∧
    execFrom (startOracle lst' (.sym e')) fuel' gs_ModbusServer_Start r.env r.calls =
      ⟨r.env, .returned, r.calls⟩ := by
  intro r
  have hr : r = _ := C10S_start lst url "nil" false tt env cs hnil hcfg htcp hurl hst htt fuel hf
  simp only [Bool.false_eq_true, ↓reduceIte, h45] at hr
  have h1 : Env.read? r.env "ms.started" = some (Val.ofBool true) := by
    rw [hr]; simp only [read?_write, ↓reduceIte]; rfl
  refine ⟨h1, ?_⟩
  have rd : ∀ k, k ≠ "ms.started" → k ≠ "err" → k ≠ "ms.tcpListener" →
      Env.read? r.env k = Env.read? env k := by
    intro k h1 h2 h3
    rw [hr]
    simp only [read?_write, Ne.symm h1, Ne.symm h2, Ne.symm h3, ↓reduceIte]
  rw [C10S_start lst' url e' true tt r.env r.calls
    (by rw [rd _ (by decide) (by decide) (by decide)]; exact hnil)
    (by rw [rd _ (by decide) (by decide) (by decide)]; exact hcfg)
    (by rw [rd _ (by decide) (by decide) (by decide)]; exact htcp)
    (by rw [rd _ (by decide) (by decide) (by decide)]; exact hurl) h1
    (by rw [rd _ (by decide) (by decide) (by decide)]; exact htt) fuel' hf']
  rfl

/-- **= the model's `start`** (TCP types, `Listen` succeeds — the model has no failing `Listen`).
    `started` after the Go run is `started` after `doStart` (true). On a stopped server Go binds
    ONE new listener and launches ONE accept goroutine on exactly that listener, where the model
    opens generation `gen + 1` and appends one acceptor bound to it; on a started server both change
    nothing at all (`C10_noop`). -/
theorem C10S_start_model (s : State) (lst url : Val) (tt : Int) (h45 : tt = 4 ∨ tt = 5)
    (env : Env) (cs : Calls)
    (hnil : Env.read? env "nil" = none) (hcfg : Env.read? env "ErrConfigurationError" = none)
    (htcp : Env.read? env "\"tcp\"" = some (.sym "\"tcp\""))
    (hurl : Env.read? env "ms.conf.URL" = some url)
    (hst : Env.read? env "ms.started" = some (Val.ofBool s.started))
    (htt : Env.read? env "ms.transportType" = some (.int tt)) (fuel : Nat) (hf : 10 ≤ fuel) :
    let r := execFrom (startOracle lst (.sym "nil")) fuel gs_ModbusServer_Start env cs
    r.how = .returned ∧
    Env.read? r.env "ms.started" = some (Val.ofBool (step s .start).started) ∧
    (s.started = false →
      r.calls = cs ++ [("net.Listen", [.sym "\"tcp\"", url]), ("go ms.acceptTCPClients", [lst])] ∧
      Env.read? r.env "ms.tcpListener" = some lst ∧
      (step s .start).acceptors = s.acceptors ++ [⟨s.gen + 1, .accepting⟩] ∧
      (step s .start).gen = s.gen + 1 ∧ (step s .start).listenerOpen = true) ∧
    (s.started = true → step s .start = s ∧ r = ⟨env, .returned, cs⟩) := by
  intro r
  have hr : r = _ := C10S_start lst url "nil" s.started tt env cs hnil hcfg htcp hurl hst htt fuel hf
  simp only [↓reduceIte, h45] at hr
  cases hs : s.started
  · simp only [hs, Bool.false_eq_true, ↓reduceIte] at hr
    have hm : step s .start = doStart s := rfl
    have hd : doStart s = { s with started := true, gen := s.gen + 1, listenerOpen := true, acceptors := s.acceptors ++ [⟨s.gen + 1, .accepting⟩] } := by
      simp [doStart, hs]
    rw [hd] at hm
    rw [hr, hm]
    refine ⟨rfl, ?_, fun _ => ⟨rfl, ?_, rfl, rfl, rfl⟩, (fun h => nomatch h)⟩
    · simp only [read?_write, ↓reduceIte]; rfl
    · simp only [read?_write, String.reduceEq, ↓reduceIte]
  · simp only [hs, ↓reduceIte] at hr
    have hm := (C10_noop s).1 hs
    rw [hr, hm]
    exact ⟨rfl, by rw [hs] at hst; rw [hs]; exact hst, (fun h => nomatch h), fun _ => ⟨rfl, rfl⟩⟩

/-! ## after Stop no connection is admitted -/

/-- from the environment `Stop` leaves — returned, or still at the loop over the clients: the flag
    is cleared before the listener and the sockets are closed — a round of the accept loop on a
    connection `sk` that `Accept` still delivered REJECTS it, whatever `len(ms.tcpClients)` and
    `MaxClients` are: `accepted = false`, `ms.tcpClients` not assigned, `sock.Close()`, no go
    statement. (`Stop`'s critical section and the admission critical section exclude each other:
    Props/C10Flow, C10Locks.) -/
theorem C10S_no_admission_after_stop (cerr sk : Val) (st : Bool) (tt : Int) (len maxc : Nat)
    (hl : len < 2^63) (hm : maxc < 2^64) (env : Env) (cs : Calls)
    (hst : Env.read? env "ms.started" = some (Val.ofBool st))
    (htt : Env.read? env "ms.transportType" = some (.int tt))
    (hnil : Env.read? env "nil" = none)
    (hlen : Env.read? env "len(ms.tcpClients)" = some (.int (len : Int)))
    (hmax : Env.read? env "ms.conf.MaxClients" = some (.int (maxc : Int)))
    (happ : Env.read? env "append(ms.tcpClients, sock)" = some (.sym "append(ms.tcpClients, sock)"))
    (fuel fuel' : Nat) (hf : 8 ≤ fuel) (hf' : 8 ≤ fuel') :
    let stopped := execFrom (stopOracle cerr) fuel gs_ModbusServer_Stop env cs
    let r := execFrom (C09.accOracle [sk, .sym "nil"]) fuel' C09.accBody stopped.env stopped.calls
    r.how = .fell ∧ Env.read r.env "accepted" = .int 0 ∧
    Env.read? r.env "ms.tcpClients" = Env.read? env "ms.tcpClients" ∧
    writes "ms.tcpClients" r.env = writes "ms.tcpClients" env ∧
    r.calls = stopped.calls ++ [("listener.Accept", []), ("sock.Close", [])] := by
  intro stopped r
  have h1 : Env.read? stopped.env "ms.started" = some (Val.ofBool false) :=
    stop_clears cerr st tt env cs hst htt fuel hf
  have hs : stopped = _ := C10S_stop cerr st tt env cs hst htt fuel hf
  have rd : ∀ k, k ≠ "ms.started" → k ≠ "err" → Env.read? stopped.env k = Env.read? env k := by
    intro k h1 h2
    rw [hs]
    repeat' split
    all_goals simp only [read?_write, Ne.symm h1, Ne.symm h2, ↓reduceIte]
  have hwr : writes "ms.tcpClients" stopped.env = writes "ms.tcpClients" env := by
    rw [hs]
    repeat' split
    all_goals simp only [writes_write, String.reduceEq, ↓reduceIte, Nat.add_zero]
  have h := C09.C09S_admission sk false len maxc hl hm stopped.env stopped.calls
    (by rw [rd _ (by decide) (by decide)]; exact hnil) h1
    (by rw [rd _ (by decide) (by decide)]; exact hlen)
    (by rw [rd _ (by decide) (by decide)]; exact hmax)
    (by rw [rd _ (by decide) (by decide)]; exact happ) fuel' hf'
  simp only [Bool.false_eq_true, false_and, ↓reduceIte] at h
  obtain ⟨g0, g1, g2, g3, g4⟩ := h
  exact ⟨g0, g1, by rw [g2, rd _ (by decide) (by decide)], by rw [g3, hwr], g4⟩

/-! ## concrete runs -/

def lifeEnv (st : Bool) (tt : Int) : Env :=
  [("ms.started", Val.ofBool st), ("ms.transportType", .int tt), ("\"tcp\"", .sym "\"tcp\""),
   ("ms.conf.URL", .sym "ms.conf.URL")]

example : exec (startOracle (.sym "L1") (.sym "nil")) 10 gs_ModbusServer_Start (lifeEnv false 4) =
    ⟨("ms.started", .int 1) :: ("err", .sym "nil") :: ("ms.tcpListener", .sym "L1") :: lifeEnv false 4,
      .returned,
      [("net.Listen", [.sym "\"tcp\"", .sym "ms.conf.URL"]), ("go ms.acceptTCPClients", [.sym "L1"])]⟩ := by
  decide +kernel
example : exec (startOracle (.sym "L1") (.sym "nil")) 10 gs_ModbusServer_Start (lifeEnv true 4) =
    ⟨lifeEnv true 4, .returned, []⟩ := by decide +kernel
example : (exec (startOracle (.sym "nil") (.sym "bind: address already in use")) 10
    gs_ModbusServer_Start (lifeEnv false 5)).calls = [("net.Listen", [.sym "\"tcp\"", .sym "ms.conf.URL"])] := by
  decide +kernel
/-- RTU server (type 1): configuration error, not started -/
example : exec (startOracle (.sym "L1") (.sym "nil")) 10 gs_ModbusServer_Start (lifeEnv false 1) =
    ⟨("err", .sym "ErrConfigurationError") :: lifeEnv false 1, .returned, []⟩ := by decide +kernel
example : exec (stopOracle (.sym "nil")) 8 gs_ModbusServer_Stop (lifeEnv false 4) =
    ⟨lifeEnv false 4, .returned, []⟩ := by decide +kernel
example : exec (stopOracle (.sym "nil")) 8 gs_ModbusServer_Stop (lifeEnv true 5) =
    ⟨("err", .sym "nil") :: ("ms.started", .int 0) :: lifeEnv true 5, .stuckAt "range ms.tcpClients",
      [("ms.tcpListener.Close", [])]⟩ := by decide +kernel
/-- sensitivity: a `Stop` without the early return closes the listener again on every call -/
example : (exec (stopOracle (.sym "nil")) 8
    (.seq (.assign "ms.started" (.lit 0 .bool))
      (.seq (.ite (.or (.cmp "==" (.var "ms.transportType" .uint) (.lit (4) .uint)) (.cmp "==" (.var "ms.transportType" .uint) (.lit (5) .uint))) (.seq (.bindCall ["err"] "ms.tcpListener.Close" []) (.opaque "range ms.tcpClients")) .skip) .ret))
    (lifeEnv false 4)).calls = [("ms.tcpListener.Close", [])] := by decide +kernel
/-- sensitivity: a `Start` that sets the flag before `Listen` is started after a failed bind -/
example : Env.read (exec (startOracle (.sym "nil") (.sym "bind: address already in use")) 10
    (.seq (.ite (.var "ms.started" .bool) .ret .skip) (.seq (.assign "ms.started" (.lit 1 .bool))
      (.seq (.bindCall ["ms.tcpListener", "err"] "net.Listen" [(.call "\"tcp\"" .other), (.var "ms.conf.URL" .other)])
        (.seq (.ite (.cmp "!=" (.var "err" .other) (.var "nil" .other)) .ret .skip) .ret))))
    (lifeEnv false 4)).env "ms.started" = .int 1 ∧
    Env.read (exec (startOracle (.sym "nil") (.sym "bind: address already in use")) 10
      gs_ModbusServer_Start (lifeEnv false 4)).env "ms.started" = .int 0 := by decide +kernel

end Modbus.Props.C10

#print axioms Modbus.Props.C10.C10S_tcp_types
#print axioms Modbus.Props.C10.C10S_stop
#print axioms Modbus.Props.C10.C10S_stop_static
#print axioms Modbus.Props.C10.C10S_stop_idempotent
#print axioms Modbus.Props.C10.C10S_stop_model
#print axioms Modbus.Props.C10.C10S_start
#print axioms Modbus.Props.C10.C10S_start_static
#print axioms Modbus.Props.C10.C10S_start_idempotent
#print axioms Modbus.Props.C10.C10S_start_model
#print axioms Modbus.Props.C10.C10S_no_admission_after_stop
