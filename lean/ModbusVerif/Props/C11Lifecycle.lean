import ModbusVerif.Lemmas.LifecycleLemmas
/-
  C11 (life-cycle part) — "a connection that stalls mid-frame, or whose handler call is blocked,
  does not delay requests on other connections."

  In the model a stalled / handler-blocked session is a connection that stays in phase `serving`
  and takes no step.  The theorems say that nothing another connection wants to do is enabled or
  disabled by that: the enabling of every connection-level step (admission, launch, request
  handling, session end, removal, close) is a function of that connection's own record only, and
  steps of one connection do not modify the record of another.  The only shared state a session
  touches is `tcpClients`, inside its `remove` critical section, and there only its own entry
  (C09_remove_exact).  Whether the Go scheduler actually gives CPU time to the other goroutines
  is outside the model.  (Per-connection framing / handler isolation is the other part of C11,
  in the Server model.)
-/
namespace Modbus.Props.C11
open Modbus.Lifecycle

/-- whether a connection-level step of `c'` is enabled, and whether a request on `c'` is served,
    depends only on the record of `c'` — not on the lock, the list, the listener, or any other
    connection -/
theorem C11_enabled_local (s₁ s₂ : State) (c' : ConnId) (h : s₁.conn c' = s₂.conn c')
    (st' : Step) (hl : st'.isLocal = true) (hc : st'.connOf = some c') :
    enabled s₁ st' = enabled s₂ st' ∧ s₁.wouldServe c' = s₂.wouldServe c' :=
  ⟨enabled_local s₁ s₂ st' c' hl hc h, wouldServe_local s₁ s₂ c' h⟩

/-- any step of connection `c` (its peer sending, its session ending, its removal, …; enabled
    or not) leaves the record of every other connection unchanged, hence changes neither which
    steps of `c'` are enabled nor whether a request on `c'` is served -/
theorem C11_independent_progress (s : State) (c c' : ConnId) (hne : c ≠ c')
    (st : Step) (hst : st.connOf = some c)
    (st' : Step) (hl : st'.isLocal = true) (hc : st'.connOf = some c') :
    (step s st).conn c' = s.conn c' ∧
      enabled (step s st) st' = enabled s st' ∧
      (step s st).wouldServe c' = s.wouldServe c' := by
  have hstop : st ≠ .stop := by intro e; rw [e] at hst; cases hst
  have hcn : st.connOf ≠ some c' := by rw [hst]; simpa using hne
  have h := conn_step_of_ne s st c' hstop hcn
  exact ⟨h, enabled_local _ _ st' c' hl hc h, wouldServe_local _ _ c' h⟩

/-- the two instances named in the property: `c` receiving requests (served or stalled) and
    `c`'s session ending or not ending do not change what `c'` can do -/
theorem C11_session_steps (s : State) (c c' : ConnId) (hne : c ≠ c') (r r' : Reason) :
    (∀ st ∈ [Step.request c, .finish c r],
      enabled (step s st) (.request c') = enabled s (.request c') ∧
      enabled (step s st) (.finish c' r') = enabled s (.finish c' r') ∧
      enabled (step s st) (.remove c') = enabled s (.remove c') ∧
      enabled (step s st) (.close c') = enabled s (.close c') ∧
      (step s st).wouldServe c' = s.wouldServe c') := by
  intro st hst
  have hco : st.connOf = some c := by
    simp only [List.mem_cons, List.not_mem_nil, or_false] at hst
    rcases hst with e | e <;> rw [e] <;> rfl
  exact ⟨(C11_independent_progress s c c' hne st hco _ rfl rfl).2.1,
    (C11_independent_progress s c c' hne st hco _ rfl rfl).2.1,
    (C11_independent_progress s c c' hne st hco _ rfl rfl).2.1,
    (C11_independent_progress s c c' hne st hco _ rfl rfl).2.1,
    (C11_independent_progress s c c' hne st hco (.request c') rfl rfl).2.2⟩

/-- over whole schedules: however long the other connections run (no Stop), `c'` stays exactly
    as it was — in particular a `serving` session with an open socket keeps being served -/
theorem C11_untouched_by_others (s : State) (c' : ConnId) (steps : List Step)
    (h : ∀ st ∈ steps, st ≠ .stop ∧ st.connOf ≠ some c') :
    (run s steps).conn c' = s.conn c' ∧ (run s steps).wouldServe c' = s.wouldServe c' := by
  have := conn_run_of_ne s steps c' h
  exact ⟨this, wouldServe_local _ _ c' this⟩

/-- a serving session can run to its end by itself, from ANY state (whatever the other
    connections are stuck in): its request is handled if its socket is open, then finish,
    remove, close are enabled one after the other -/
theorem C11_session_completes (s : State) (c' : ConnId) (h : (s.conn c').phase = .serving) :
    let s' := run s [.request c', .finish c' .peerClosed, .remove c', .close c']
    (s'.conn c').phase = .closed ∧
      ((s.conn c').sockClosed = false → s'.log = s.log ++ [.served c']) ∧
      ((s.conn c').sockClosed = true → s'.log = s.log) :=
  session_completes s c' h

/-! ### non-vacuity: connection 1 stays `serving` forever; 2 is served, ends, frees its slot, 3 is served -/

def stalled : List Step :=
  [.start, .arrive 1, .accept 0 1, .decide 1, .launch 1,
   .arrive 2, .accept 0 2, .decide 2, .launch 2, .request 2, .request 2,
   .finish 2 .protocolError, .remove 2, .close 2,
   .arrive 3, .accept 0 3, .decide 3, .launch 3, .request 3]

example : ((run (init 2) stalled).conn 1).phase = .serving := by decide +kernel
example : (run (init 2) stalled).log =
    [.admit 1, .admit 2, .served 2, .served 2, .admit 3, .served 3] := by decide +kernel
example : (run (init 2) stalled).clients = [1, 3] := by decide +kernel

#print axioms C11_enabled_local
#print axioms C11_independent_progress
#print axioms C11_session_steps
#print axioms C11_untouched_by_others
#print axioms C11_session_completes

end Modbus.Props.C11
