import ModbusVerif.Props.C05
import ModbusVerif.Props.C02
import ModbusVerif.Lemmas.HistoryLemmas
/-
  C05, history form — closes the gap between the per-exchange theorems of Props/C05.lean and the
  property text:

  "Over MBAP transports a reply frame that carries a transaction id other than that of the
   outstanding request ... is never returned as that request's result, however frames are
   delayed, duplicated or reordered ... Consecutive requests use distinct transaction ids, so a
   late reply to a timed-out request cannot satisfy any of the following 65535 requests."

  In Props/C05.lean `txnOf t0 n = t0 + n` is a free definition. Here it is DERIVED from the client
  model run over a history of calls.

  Definitions (Lemmas/HistoryLemmas.lean, restated below as `rfl` theorems):

    structure Call        := op : Client.Op, arrivals : Bytes, ending : Ending
                             one public call + ANY byte string the peer delivers while the call is
                             outstanding (late replies, duplicates, frames with other protocol
                             ids, garbage, in any order) + how the stream ends after those bytes
    runHistory cfg st calls : List Client.Result × TState
                             `Client.Op.run` folded over the calls, the transport state
                             (`lastTxn`, `pending`) threaded from call to call. `cfg` is FIXED
                             over a history (the transport kind is fixed when a client is built).
    stateBefore cfg st calls i := (runHistory cfg st (calls.take i)).2
                             transport state before call i (0-based) = after the first i calls
    sends cfg op : Bool      the call passes the local checks, i.e. writes a request
                             (`C05H_sends_iff_written`)
    sentCount cfg calls      number of calls in the list that send
    idAt cfg st calls i := Mbap.txnOf st.lastTxn (sentCount cfg (calls.take (i+1)))
                             = st.lastTxn + (number of requests sent by calls 0..i inclusive)

  MBAP kind: `cfg.kind.isRtu = false` (tcp, tcp+tls, udp).
  The proofs are in Lemmas/HistoryLemmas.lean; what is proved here are short corollaries.
-/
namespace Modbus.Props.C05
open Modbus Modbus.Client Modbus.Mbap Modbus.History

/-! ### the definitions, unfolded -/

theorem C05H_runHistory_nil (cfg : Cfg) (st : TState) : runHistory cfg st [] = ([], st) := rfl

theorem C05H_runHistory_cons (cfg : Cfg) (st : TState) (c : Call) (cs : List Call) :
    runHistory cfg st (c :: cs) =
      (c.op.run cfg st c.arrivals c.ending ::
        (runHistory cfg (c.op.run cfg st c.arrivals c.ending).state cs).1,
       (runHistory cfg (c.op.run cfg st c.arrivals c.ending).state cs).2) := rfl

theorem C05H_stateBefore_def (cfg : Cfg) (st : TState) (calls : List Call) (i : Nat) :
    stateBefore cfg st calls i = (runHistory cfg st (calls.take i)).2 := rfl

theorem C05H_idAt_def (cfg : Cfg) (st : TState) (calls : List Call) (i : Nat) :
    idAt cfg st calls i =
      st.lastTxn + BitVec.ofNat 16 ((calls.take (i + 1)).countP (fun c => sends cfg c.op)) := rfl

/-- one result per call -/
theorem C05H_results_length (cfg : Cfg) (st : TState) (calls : List Call) :
    (runHistory cfg st calls).1.length = calls.length :=
  runHistory_length cfg st calls

/-- `sends` is "a request frame is written", whatever the state, the arrivals and the ending -/
theorem C05H_sends_iff_written (cfg : Cfg) (op : Op) (st : TState) (arrivals : Bytes) (e : Ending) :
    sends cfg op = true ↔ (op.run cfg st arrivals e).written ≠ none :=
  sends_iff_written st arrivals e

/-- ... and "the call passes the typed wrapper and the local checks of its core call" -/
theorem C05H_sends_iff_accepted (cfg : Cfg) (op : Op) :
    sends cfg op = true ↔ ∃ c fc p, op.core cfg = some c ∧ c.request = .ok (fc, p) :=
  sends_true_iff

/-! ### 1. every sent request advances the counter by one, whatever the outcome -/

/-- core call on an MBAP kind. If the request passes the local checks, the frame written starts
    with `lastTxn + 1` and the counter afterwards is `lastTxn + 1` — for EVERY arrival stream and
    ending, i.e. whether the exchange succeeds, times out, or ends in any transport / protocol /
    validation error. If the request is rejected locally nothing is written and the state is
    unchanged. -/
theorem C05H_txn_advances {c : Core} {cfg : Cfg} (st : TState) (arrivals : Bytes) (e : Ending)
    (hk : cfg.kind.isRtu = false) :
    (∀ fc p, c.request = .ok (fc, p) →
      (c.exchange cfg st arrivals e).state.lastTxn = st.lastTxn + 1 ∧
      (c.exchange cfg st arrivals e).written =
        some (Mbap.assemble (st.lastTxn + 1) ⟨cfg.unitId, fc, p⟩)) ∧
    (∀ err, c.request = .error err →
      (c.exchange cfg st arrivals e).state = st ∧ (c.exchange cfg st arrivals e).written = none) := by
  refine ⟨fun fc p hreq => ?_, fun err hreq => ?_⟩
  · obtain ⟨h1, h2⟩ := exchange_mbap_sent st arrivals e hk hreq
    exact ⟨by rw [h2], h1⟩
  · rw [exchange_rejected cfg st arrivals e hreq]
    exact ⟨rfl, rfl⟩

/-- the transaction id field of an MBAP frame: bytes 0–1, high byte first -/
theorem C05H_frame_id (txn : U16) (p : Pdu) :
    (Mbap.assemble txn p).take 2 = be16 txn ∧
    mk16 ((Mbap.assemble txn p).getD 0 0) ((Mbap.assemble txn p).getD 1 0) = txn :=
  ⟨take2_assemble txn p, txn_of_frame txn p⟩

/-- the same for the 30 public methods -/
theorem C05H_txn_advances_run {cfg : Cfg} (op : Op) (st : TState) (arrivals : Bytes) (e : Ending)
    (hk : cfg.kind.isRtu = false) :
    (sends cfg op = true →
      (op.run cfg st arrivals e).state.lastTxn = st.lastTxn + 1 ∧
      ∃ c fc p, op.core cfg = some c ∧ c.request = .ok (fc, p) ∧
        (op.run cfg st arrivals e).written =
          some (Mbap.assemble (st.lastTxn + 1) ⟨cfg.unitId, fc, p⟩)) ∧
    (sends cfg op = false →
      (op.run cfg st arrivals e).state = st ∧ (op.run cfg st arrivals e).written = none) := by
  refine ⟨fun hs => ?_, fun hs => ?_⟩
  · obtain ⟨c, fc, p, hc, hreq, hw, hst⟩ := run_mbap_sent st arrivals e hk hs
    exact ⟨by rw [hst], c, fc, p, hc, hreq, hw⟩
  · obtain ⟨h1, h2, _⟩ := run_not_sent st arrivals e hs
    exact ⟨h2, h1⟩

/-! ### 4. (stated first: it is the definition of the fold) unread input carries over -/

/-- the state before the first call is the initial one; the state after all calls is the final one -/
theorem C05H_state_ends (cfg : Cfg) (st : TState) (calls : List Call) :
    stateBefore cfg st calls 0 = st ∧
    stateBefore cfg st calls calls.length = (runHistory cfg st calls).2 :=
  ⟨rfl, stateBefore_all cfg st calls⟩

/-- call `i` runs from the state left by the calls before it -/
theorem C05H_result_at (cfg : Cfg) (st : TState) {calls : List Call} {i : Nat} {call : Call}
    (h : calls[i]? = some call) :
    (runHistory cfg st calls).1[i]? =
      some (call.op.run cfg (stateBefore cfg st calls i) call.arrivals call.ending) :=
  result_at cfg st h

/-- the transport state call `i` leaves — transaction counter AND the unread input `pending` — is
    exactly the state call `i+1` starts from: call `i+1` is `Op.run` from that state, so (see
    `Core.exchange`) the byte stream it parses is `pending_i ++ arrivals_{i+1}`. A reply that
    arrives "late" is therefore modelled both by the arrivals of any later call and by whatever
    an earlier call left unread. -/
theorem C05H_pending_carries_over (cfg : Cfg) (st : TState) {calls : List Call} {i : Nat}
    {ci cj : Call} (hi : calls[i]? = some ci) (hj : calls[i + 1]? = some cj) :
    ∃ ri, (runHistory cfg st calls).1[i]? = some ri ∧
      stateBefore cfg st calls (i + 1) = ri.state ∧
      (runHistory cfg st calls).1[i + 1]? = some (cj.op.run cfg ri.state cj.arrivals cj.ending) := by
  refine ⟨_, result_at cfg st hi, stateBefore_succ cfg st hi, ?_⟩
  rw [result_at cfg st hj, stateBefore_succ cfg st hi]

/-- ... explicitly for an MBAP kind: a sending call `i+1` scans `pending_i ++ arrivals_{i+1}` for
    its reply and leaves what it did not read -/
theorem C05H_next_call_reads_leftovers {cfg : Cfg} (hk : cfg.kind.isRtu = false) (st : TState)
    {calls : List Call} {i : Nat} {ci cj : Call}
    (hi : calls[i]? = some ci) (hj : calls[i + 1]? = some cj) (hs : sends cfg cj.op = true) :
    ∃ ri, (runHistory cfg st calls).1[i]? = some ri ∧
      stateBefore cfg st calls (i + 2) =
        ⟨ri.state.lastTxn + 1,
         (Mbap.readResponse (ri.state.lastTxn + 1) (ri.state.pending ++ cj.arrivals) cj.ending).2⟩ := by
  refine ⟨_, result_at cfg st hi, ?_⟩
  rw [stateBefore_succ cfg st hj, stateBefore_succ cfg st hi]
  obtain ⟨_, _, _, _, _, _, h⟩ := run_mbap_sent
    (ci.op.run cfg (stateBefore cfg st calls i) ci.arrivals ci.ending).state cj.arrivals cj.ending hk hs
  exact h

/-! ### 2. the ids of the requests of a history -/

/-- the transaction counter before call `i` is the initial one plus the number of requests the
    calls before it SENT (locally rejected calls do not consume an id) -/
theorem C05H_counter {cfg : Cfg} (hk : cfg.kind.isRtu = false) (st : TState) (calls : List Call)
    (i : Nat) :
    (stateBefore cfg st calls i).lastTxn = Mbap.txnOf st.lastTxn (sentCount cfg (calls.take i)) :=
  stateBefore_lastTxn hk st calls i

/-- a call `i` of a history that sends writes one frame whose transaction id field is
    `idAt cfg st calls i = txnOf st.lastTxn k`, `k` = number of requests sent by calls 0..i
    inclusive — so `Mbap.txnOf st.lastTxn k` IS the id of the k-th sent request of the model —
    and it leaves the counter at that id; a call that does not send writes nothing and leaves the
    state untouched -/
theorem C05H_request_ids {cfg : Cfg} (hk : cfg.kind.isRtu = false) (st : TState)
    {calls : List Call} {i : Nat} {call : Call} (h : calls[i]? = some call) :
    (sends cfg call.op = true →
      ∃ r c fc p, (runHistory cfg st calls).1[i]? = some r ∧
        call.op.core cfg = some c ∧ c.request = .ok (fc, p) ∧
        r.written = some (Mbap.assemble (idAt cfg st calls i) ⟨cfg.unitId, fc, p⟩) ∧
        (Mbap.assemble (idAt cfg st calls i) ⟨cfg.unitId, fc, p⟩).take 2 = be16 (idAt cfg st calls i) ∧
        r.state.lastTxn = idAt cfg st calls i) ∧
    (sends cfg call.op = false →
      ∃ r, (runHistory cfg st calls).1[i]? = some r ∧ r.written = none ∧
        r.state = stateBefore cfg st calls i ∧ idAt cfg st calls i = (stateBefore cfg st calls i).lastTxn) := by
  refine ⟨fun hs => ?_, fun hs => ?_⟩
  · obtain ⟨r, c, fc, p, h1, h2, h3, h4, h5⟩ := request_ids hk st h hs
    exact ⟨r, c, fc, p, h1, h2, h3, h4, rfl, h5⟩
  · obtain ⟨h1, h2, _⟩ := run_not_sent (stateBefore cfg st calls i) call.arrivals call.ending hs
    refine ⟨_, result_at cfg st h, h1, h2, ?_⟩
    unfold idAt
    rw [sentCount_take_succ cfg h, hs, stateBefore_lastTxn hk]
    simp

/-- hence (with `C05_ids_distinct` / `C05_txnOf_distinct`): two sent requests of a history that
    are fewer than 65536 sends apart carry different ids -/
theorem C05H_request_ids_distinct (cfg : Cfg) (st : TState) {calls : List Call} {m i : Nat}
    {ci : Call} (hmi : m < i) (hi : calls[i]? = some ci) (hsi : sends cfg ci.op = true)
    (hlt : sentCount cfg (calls.take (i + 1)) - sentCount cfg (calls.take (m + 1)) < 65536) :
    0 < sentCount cfg (calls.take (i + 1)) - sentCount cfg (calls.take (m + 1)) ∧
    idAt cfg st calls i ≠ idAt cfg st calls m := by
  have hpos := sends_between_pos cfg (m := m) hmi hi hsi
  refine ⟨by omega, ?_⟩
  exact C05_txnOf_distinct st.lastTxn (Or.inr ⟨by omega, hlt⟩)

/-- in particular: in a history with fewer than 65536 calls all sent requests carry pairwise
    distinct ids -/
theorem C05H_short_history_ids_distinct (cfg : Cfg) (st : TState) {calls : List Call}
    (hlen : calls.length < 65536) {m i : Nat} {ci : Call}
    (hmi : m < i) (hi : calls[i]? = some ci) (hsi : sends cfg ci.op = true) :
    idAt cfg st calls i ≠ idAt cfg st calls m := by
  refine (C05H_request_ids_distinct cfg st hmi hi hsi ?_).2
  have h1 : sentCount cfg (calls.take (i + 1)) ≤ (calls.take (i + 1)).length := List.countP_le_length
  have h2 : (calls.take (i + 1)).length ≤ calls.length := by
    rw [List.length_take]; exact Nat.min_le_right _ _
  omega

/-! ### 3. the history theorem -/

/-- for EVERY history — any number of calls, any operations, arbitrary byte strings as arrivals
    (late replies, duplicates, foreign-protocol frames, garbage, in any order), any endings — and
    every call `i` of it: if call `i` returns values `v`, then
      * call `i` sent a request (its id is `idAt cfg st calls i`),
      * the stream it parsed (`pending_i ++ arrivals_i`) is `pre ++ frame ++ post` where `pre`
        consists of whole frames the skip loop discards (other transaction id, or non-zero
        protocol id) and `frame` carries EXACTLY the id of call `i`'s own request,
      * `frame` holds a well-formed positive reply to call `i`'s own request, `v` is decoded
        from it, and
      * `post` is left unread for the following calls. -/
theorem C05H_history {cfg : Cfg} (he : cfg.endian ≠ .invalid) (hw : cfg.word ≠ .invalid)
    (hk : cfg.kind.isRtu = false) (st : TState) {calls : List Call} {i : Nat}
    {call : Call} {r : Result} {v : Val} (h : calls[i]? = some call)
    (hr : (runHistory cfg st calls).1[i]? = some r) (hv : r.result = some (.ok v)) :
    sends cfg call.op = true ∧
    ∃ pre res post,
      (stateBefore cfg st calls i).pending ++ call.arrivals =
        pre ++ Mbap.assemble (idAt cfg st calls i) res ++ post ∧
      Mbap.Skippable (idAt cfg st calls i) pre ∧
      Spec.PositiveReply cfg call.op res ∧ v = Spec.decodeReply cfg call.op res ∧
      stateBefore cfg st calls (i + 1) = ⟨idAt cfg st calls i, post⟩ :=
  history_sound he hw hk st h hr hv

/-- the transaction-id part alone needs no assumption on the encoding settings -/
theorem C05H_history_id {cfg : Cfg} (hk : cfg.kind.isRtu = false) (st : TState)
    {calls : List Call} {i : Nat} {call : Call} {r : Result} {v : Val} (h : calls[i]? = some call)
    (hr : (runHistory cfg st calls).1[i]? = some r) (hv : r.result = some (.ok v)) :
    sends cfg call.op = true ∧
    ∃ pre res post,
      (stateBefore cfg st calls i).pending ++ call.arrivals =
        pre ++ Mbap.assemble (idAt cfg st calls i) res ++ post ∧
      Mbap.Skippable (idAt cfg st calls i) pre ∧
      stateBefore cfg st calls (i + 1) = ⟨idAt cfg st calls i, post⟩ :=
  history_id hk st h hr hv

/-- the property in its own words. Call `m` sent a request; a later call `i`, at least one and
    fewer than 65536 sent requests later, returns values. Then the frame call `i` took its values
    from (the decomposition of `C05H_history`) does not carry the id of request `m`: a late or
    duplicated reply `Mbap.assemble (idAt .. m) res'` to request `m` is never the frame call `i`
    returns — it is one of the skipped frames in `pre`, or it stays in `post` for the calls after
    `i`, to which the same applies. -/
theorem C05H_late_reply_never_returned {cfg : Cfg} (hk : cfg.kind.isRtu = false) (st : TState)
    {calls : List Call} {m i : Nat} {ci : Call} {r : Result} {v : Val}
    (hmi : m < i) (hi : calls[i]? = some ci)
    (hr : (runHistory cfg st calls).1[i]? = some r) (hv : r.result = some (.ok v))
    (hlt : sentCount cfg (calls.take (i + 1)) - sentCount cfg (calls.take (m + 1)) < 65536) :
    ∃ pre res post,
      (stateBefore cfg st calls i).pending ++ ci.arrivals =
        pre ++ Mbap.assemble (idAt cfg st calls i) res ++ post ∧
      Mbap.Skippable (idAt cfg st calls i) pre ∧
      idAt cfg st calls i ≠ idAt cfg st calls m ∧
      ∀ res', Mbap.assemble (idAt cfg st calls i) res ≠ Mbap.assemble (idAt cfg st calls m) res' := by
  obtain ⟨hs, pre, res, post, h1, h2, _⟩ := history_id hk st hi hr hv
  have hne := ids_distinct cfg st hmi hi hs hlt
  refine ⟨pre, res, post, h1, h2, hne, fun res' heq => hne ?_⟩
  have := congrArg (fun f => mk16 (f.getD 0 0) (f.getD 1 0)) heq
  simpa only [txn_of_frame] using this

/-- the operational form: a late (or duplicated) reply to an earlier request `m`, delivered during
    call `i` (in its arrivals or left pending by the calls before) behind frames that call `i`
    skips, is skipped too — call `i` behaves in every respect (result, request written, state
    left) as if its input started right behind that frame. `late` is any PDU that fits an MBAP
    frame (payload ≤ 252 bytes); the bound on the distance is that of the property. -/
theorem C05H_late_reply_skipped {cfg : Cfg} (hk : cfg.kind.isRtu = false) (st : TState)
    {calls : List Call} {m i : Nat} {ci : Call} {late : Pdu} {pre post : Bytes}
    (hmi : m < i) (hi : calls[i]? = some ci) (hsi : sends cfg ci.op = true)
    (hlt : sentCount cfg (calls.take (i + 1)) - sentCount cfg (calls.take (m + 1)) < 65536)
    (hlate : late.payload.length ≤ 252)
    (hpre : Mbap.Skippable (idAt cfg st calls i) pre)
    (hstream : (stateBefore cfg st calls i).pending ++ ci.arrivals =
      pre ++ Mbap.assemble (idAt cfg st calls m) late ++ post) :
    (runHistory cfg st calls).1[i]? =
      some (ci.op.run cfg ⟨(stateBefore cfg st calls i).lastTxn, []⟩ post ci.ending) := by
  rw [result_at cfg st hi]
  congr 1
  have hne := ids_distinct cfg st hmi hi hsi hlt
  have hsk : Mbap.Skippable (idAt cfg st calls i) (pre ++ Mbap.assemble (idAt cfg st calls m) late) := by
    refine hpre.append ?_
    have := Mbap.Skippable.foreignTxn (txn := idAt cfg st calls i) (idAt cfg st calls m) late []
      (fun h => hne h.symm) hlate .nil
    rwa [List.append_nil] at this
  rw [idAt_eq hk st hi hsi] at hsk
  exact run_skip hk ci.ending hsi hsk hstream

/-- replies to earlier requests `m_j < i` (each at least one and fewer than 65536 sent requests
    older than request `i`), in any order and with any repetitions, form a stream that call `i`
    skips frame by frame -/
theorem C05H_late_replies_skippable (cfg : Cfg) (st : TState) {calls : List Call} {i : Nat}
    {ci : Call} (hi : calls[i]? = some ci) (hsi : sends cfg ci.op = true)
    (late : List (Nat × Pdu))
    (h : ∀ mp ∈ late, mp.1 < i ∧
      sentCount cfg (calls.take (i + 1)) - sentCount cfg (calls.take (mp.1 + 1)) < 65536 ∧
      mp.2.payload.length ≤ 252) :
    Mbap.Skippable (idAt cfg st calls i)
      (late.map (fun mp => Mbap.assemble (idAt cfg st calls mp.1) mp.2)).flatten := by
  induction late with
  | nil => exact .nil
  | cons mp late ih =>
    obtain ⟨h1, h2, h3⟩ := h mp List.mem_cons_self
    simp only [List.map_cons, List.flatten_cons]
    exact .foreignTxn _ _ _ (fun heq => ids_distinct cfg st h1 hi hsi h2 heq.symm) h3
      (ih (fun g hg => h g (List.mem_cons_of_mem _ hg)))

/-- with nothing but frames that call `i` skips on the line — e.g. late and duplicated replies to
    earlier requests, `C05H_late_replies_skippable` — call `i` returns the error of the stream
    ending (ErrRequestTimedOut after a timeout), never a value: "a late reply to a timed-out
    request cannot satisfy any of the following 65535 requests" -/
theorem C05H_only_late_replies {cfg : Cfg} (hk : cfg.kind.isRtu = false) (st : TState)
    {calls : List Call} {i : Nat} {ci : Call}
    (hi : calls[i]? = some ci) (hsi : sends cfg ci.op = true)
    (hpre : Mbap.Skippable (idAt cfg st calls i) ((stateBefore cfg st calls i).pending ++ ci.arrivals)) :
    ∃ r, (runHistory cfg st calls).1[i]? = some r ∧
      r.result = some (.error (if ci.ending = .timeout then .requestTimedOut else ci.ending.err)) ∧
      r.state = ⟨idAt cfg st calls i, []⟩ := by
  refine ⟨_, result_at cfg st hi, ?_⟩
  have hrun := run_skip hk (op := ci.op) (st := stateBefore cfg st calls i) (arr := ci.arrivals)
    (post := []) ci.ending hsi (by rw [← idAt_eq hk st hi hsi]; exact hpre) (by rw [List.append_nil])
  rw [hrun, idAt_eq hk st hi hsi]
  obtain ⟨c, fc, p, hc, hreq⟩ := sends_true_iff.mp hsi
  rw [ClientResp.run_accepted _ _ _ hc hreq]
  simp only [ClientResp.frameFor_mbap hk, ClientResp.transportRead_mbap hk, List.append_nil,
    Mbap.readResponse_nil]
  refine ⟨?_, trivial⟩
  cases ci.ending <;> rfl

/-! ### non-vacuity: concrete histories, evaluated -/

/-- TCP client, unit 1 -/
def hCfg : Cfg := ⟨.tcp, 1, .big, .highFirst⟩
/-- the counter is about to wrap: the next ids are ffff, 0000, 0001 -/
def hSt : TState := ⟨0xFFFE, []⟩
/-- ReadRegister-style call: one holding register at 0x10 -/
def hRead : Op := .readRegisters 0x10 1 0

-- replies to the requests ffff, 0000, 0001 with register values dead, 000a, 000b
example : Mbap.assemble 0xFFFF (rsp03 0xDE 0xAD) = [0xFF, 0xFF, 0, 0, 0, 5, 1, 3, 2, 0xDE, 0xAD] := by decide
example : Mbap.assemble 0x0000 (rsp03 0x00 0x0A) = [0x00, 0x00, 0, 0, 0, 5, 1, 3, 2, 0x00, 0x0A] := by decide
example : Mbap.assemble 0x0001 (rsp03 0x00 0x0B) = [0x00, 0x01, 0, 0, 0, 5, 1, 3, 2, 0x00, 0x0B] := by decide

/-- call 0 times out (nothing arrives); call 1 receives [late reply to call 0] ++ [own reply];
    call 2 receives [duplicate of the reply to call 1] ++ [own reply] -/
def hist3 : List Call :=
  [ ⟨hRead, [], .timeout⟩,
    ⟨hRead, [0xFF, 0xFF, 0, 0, 0, 5, 1, 3, 2, 0xDE, 0xAD] ++ [0x00, 0x00, 0, 0, 0, 5, 1, 3, 2, 0x00, 0x0A],
      .timeout⟩,
    ⟨hRead, [0x00, 0x00, 0, 0, 0, 5, 1, 3, 2, 0x00, 0x0A] ++ [0x00, 0x01, 0, 0, 0, 5, 1, 3, 2, 0x00, 0x0B],
      .eof⟩ ]

/-- call 0: ErrRequestTimedOut; call 1 returns ITS value 000a (not dead); call 2 returns ITS
    value 000b (not 000a); the requests carry the ids ffff, 0000, 0001 -/
example : runHistory hCfg hSt hist3 =
    ([ { written := some [0xFF, 0xFF, 0, 0, 0, 6, 1, 3, 0x00, 0x10, 0x00, 0x01],
         result := some (.error .requestTimedOut), state := ⟨0xFFFF, []⟩ },
       { written := some [0x00, 0x00, 0, 0, 0, 6, 1, 3, 0x00, 0x10, 0x00, 0x01],
         result := some (.ok (.u16s [0x000A])), state := ⟨0x0000, []⟩ },
       { written := some [0x00, 0x01, 0, 0, 0, 6, 1, 3, 0x00, 0x10, 0x00, 0x01],
         result := some (.ok (.u16s [0x000B])), state := ⟨0x0001, []⟩ } ],
     ⟨0x0001, []⟩) := by decide

example : idAt hCfg hSt hist3 0 = 0xFFFF ∧ idAt hCfg hSt hist3 1 = 0x0000 ∧
    idAt hCfg hSt hist3 2 = 0x0001 := by decide

-- the hypotheses of `C05H_history` / `C05H_late_reply_never_returned` hold for call 1 / calls 0, 1
example : ∃ pre res post,
    (stateBefore hCfg hSt hist3 1).pending ++ [0xFF, 0xFF, 0, 0, 0, 5, 1, 3, 2, 0xDE, 0xAD] ++
        [0x00, 0x00, 0, 0, 0, 5, 1, 3, 2, 0x00, 0x0A] =
      pre ++ Mbap.assemble (idAt hCfg hSt hist3 1) res ++ post ∧
    Mbap.Skippable (idAt hCfg hSt hist3 1) pre ∧
    idAt hCfg hSt hist3 1 ≠ idAt hCfg hSt hist3 0 := by
  obtain ⟨pre, res, post, h1, h2, h3, _⟩ :=
    C05H_late_reply_never_returned (cfg := hCfg) rfl hSt (calls := hist3) (m := 0) (i := 1)
      (ci := ⟨hRead, [0xFF, 0xFF, 0, 0, 0, 5, 1, 3, 2, 0xDE, 0xAD] ++
        [0x00, 0x00, 0, 0, 0, 5, 1, 3, 2, 0x00, 0x0A], .timeout⟩)
      (r := { written := some [0x00, 0x00, 0, 0, 0, 6, 1, 3, 0x00, 0x10, 0x00, 0x01],
              result := some (.ok (.u16s [0x000A])), state := ⟨0x0000, []⟩ })
      (v := .u16s [0x000A]) (by decide) (by decide) (by decide) rfl (by decide)
  exact ⟨pre, res, post, by simpa using h1, h2, h3⟩

/-- leftovers and local rejections: call 0 times out; call 1 receives [own reply] ++ [late reply
    to call 0] — the late reply stays pending; call 2 is rejected locally (quantity 0): nothing is
    written, no id is consumed, the pending bytes stay; call 3 starts with the late reply pending,
    skips it and returns its own value; a foreign-protocol frame and trailing garbage follow -/
def hist4 : List Call :=
  [ ⟨hRead, [], .timeout⟩,
    ⟨hRead, [0x00, 0x00, 0, 0, 0, 5, 1, 3, 2, 0x00, 0x0A] ++ [0xFF, 0xFF, 0, 0, 0, 5, 1, 3, 2, 0xDE, 0xAD],
      .timeout⟩,
    ⟨.readRegisters 0x10 0 0, [], .timeout⟩,
    ⟨hRead, [0x00, 0x01, 0, 7, 0, 5, 1, 3, 2, 0x66, 0x66] ++ [0x00, 0x01, 0, 0, 0, 5, 1, 3, 2, 0x00, 0x0B] ++
      [0x99], .reset⟩ ]

example : runHistory hCfg hSt hist4 =
    ([ { written := some [0xFF, 0xFF, 0, 0, 0, 6, 1, 3, 0x00, 0x10, 0x00, 0x01],
         result := some (.error .requestTimedOut), state := ⟨0xFFFF, []⟩ },
       { written := some [0x00, 0x00, 0, 0, 0, 6, 1, 3, 0x00, 0x10, 0x00, 0x01],
         result := some (.ok (.u16s [0x000A])),
         state := ⟨0x0000, [0xFF, 0xFF, 0, 0, 0, 5, 1, 3, 2, 0xDE, 0xAD]⟩ },
       { written := none, result := some (.error .unexpectedParameters),
         state := ⟨0x0000, [0xFF, 0xFF, 0, 0, 0, 5, 1, 3, 2, 0xDE, 0xAD]⟩ },
       { written := some [0x00, 0x01, 0, 0, 0, 6, 1, 3, 0x00, 0x10, 0x00, 0x01],
         result := some (.ok (.u16s [0x000B])), state := ⟨0x0001, [0x99]⟩ } ],
     ⟨0x0001, [0x99]⟩) := by decide

example : sends hCfg hRead = true ∧ sends hCfg (.readRegisters 0x10 0 0) = false ∧
    sentCount hCfg hist4 = 3 ∧ idAt hCfg hSt hist4 2 = 0x0000 ∧ idAt hCfg hSt hist4 3 = 0x0001 := by
  decide

/-- only late replies and a duplicate on the line: the call times out -/
example : (runHistory hCfg hSt
    [ ⟨hRead, [], .timeout⟩,
      ⟨hRead, [0xFF, 0xFF, 0, 0, 0, 5, 1, 3, 2, 0xDE, 0xAD] ++ [0xFF, 0xFF, 0, 0, 0, 5, 1, 3, 2, 0xDE, 0xAD],
        .timeout⟩ ]).1.map (·.result) =
    [some (.error .requestTimedOut), some (.error .requestTimedOut)] := by decide

-- ... as `C05H_late_replies_skippable` + `C05H_only_late_replies` predict (late replies to call 0, twice)
example : Mbap.Skippable (idAt hCfg hSt hist3 1)
    ([(0, rsp03 0xDE 0xAD), (0, rsp03 0xDE 0xAD)].map
      (fun mp => Mbap.assemble (idAt hCfg hSt hist3 mp.1) mp.2)).flatten :=
  C05H_late_replies_skippable hCfg hSt (calls := hist3) (i := 1)
    (ci := ⟨hRead, [0xFF, 0xFF, 0, 0, 0, 5, 1, 3, 2, 0xDE, 0xAD] ++
      [0x00, 0x00, 0, 0, 0, 5, 1, 3, 2, 0x00, 0x0A], .timeout⟩) (by decide) (by decide) _ (by decide)

/-- the bound is sharp at the level of ids: 65536 sends later the id repeats -/
example : Mbap.txnOf hSt.lastTxn (1 + 65536) = Mbap.txnOf hSt.lastTxn 1 := by decide

end Modbus.Props.C05

#print axioms Modbus.Props.C05.C05H_results_length
#print axioms Modbus.Props.C05.C05H_sends_iff_written
#print axioms Modbus.Props.C05.C05H_sends_iff_accepted
#print axioms Modbus.Props.C05.C05H_txn_advances
#print axioms Modbus.Props.C05.C05H_frame_id
#print axioms Modbus.Props.C05.C05H_txn_advances_run
#print axioms Modbus.Props.C05.C05H_state_ends
#print axioms Modbus.Props.C05.C05H_result_at
#print axioms Modbus.Props.C05.C05H_pending_carries_over
#print axioms Modbus.Props.C05.C05H_next_call_reads_leftovers
#print axioms Modbus.Props.C05.C05H_counter
#print axioms Modbus.Props.C05.C05H_request_ids
#print axioms Modbus.Props.C05.C05H_request_ids_distinct
#print axioms Modbus.Props.C05.C05H_short_history_ids_distinct
#print axioms Modbus.Props.C05.C05H_history
#print axioms Modbus.Props.C05.C05H_history_id
#print axioms Modbus.Props.C05.C05H_late_reply_never_returned
#print axioms Modbus.Props.C05.C05H_late_reply_skipped
#print axioms Modbus.Props.C05.C05H_late_replies_skippable
#print axioms Modbus.Props.C05.C05H_only_late_replies
