import ModbusVerif.Lemmas.RoleLemmas
/-
  C15 — the client role is taken faithfully from the certificate.

  "Handlers of a TLS session see a role equal to the UTF-8 string in the client leaf certificate's
  Modbus Role extension (OID 1.3.6.1.4.1.50316.802.1) when exactly one such extension with a
  well-formed UTF8String value is present, and an empty role otherwise (absent, duplicated, other
  string types, malformed encodings). Role extraction never panics, whatever the extension
  content."

  Model: `Role.extractRole` (server.go `extractRole` + Go 1.23 `asn1.Unmarshal` into a string on a
  UTF8String TLV + `utf8.Valid`), `Model/Role.lean`. Specification: `Spec.derUTF8`,
  `Spec.validUtf8` (Unicode Table 3-7), `Spec.HasRole`, `Spec.roleOf`, `Spec/RoleSpec.lean`.

  All theorems are unbounded: any number and order of extensions, any byte string as extension
  value, any role string. The one numeric side condition is `s.length < 2^31`
  (`Spec.maxRoleLen`): Go's `parseTagAndLength` shifts the length in octet by octet and refuses to
  shift once `ret.length >= 1<<23`, so exactly the lengths `< 2^31` are accepted (a 4-octet
  length `≥ 0x80000000` and every 5-octet length give "length too large").

  Not in this file: "plain TCP sessions always have an empty role" is a fact about
  `handleTCPClient` (the `clientRole` variable stays `""` unless `startTLS` ran), not about
  `extractRole`.
-/
namespace Modbus.Props.C15
open Modbus Modbus.Role Modbus.Spec

-- the `decide` examples evaluate look-ups in the 256-entry table `first`
set_option maxRecDepth 100000

/-- "operator" -/
abbrev operator : Bytes := [0x6f, 0x70, 0x65, 0x72, 0x61, 0x74, 0x6f, 0x72]
/-- a role extension with the given value -/
abbrev roleExt (v : Bytes) : Ext := ⟨modbusRoleOID, v⟩
/-- some unrelated extensions: keyUsage 2.5.29.15 and a neighbour OID of the role OID -/
abbrev keyUsage : Ext := ⟨[2, 5, 29, 15], [0x03, 0x02, 0x05, 0xa0]⟩
abbrev otherOid : Ext := ⟨[1, 3, 6, 1, 4, 1, 50316, 802, 2], [0x0c, 0x01, 0x41]⟩

/-! ### 1–3: Go's decoder against DER and Unicode -/

/-- 1. `asn1.Unmarshal` decodes the DER UTF8String of any valid UTF-8 string `s` shorter than 2^31
    bytes, followed by anything, to `s` and returns what follows as `rest`. -/
theorem unmarshal_der_roundtrip (s rest : Bytes) (hv : validUtf8 s = true) (hl : s.length < 2^31) :
    unmarshalUtf8String (derUTF8 s ++ rest) = .ok (s, rest) := by
  simp [unmarshalUtf8String, unmarshalChecked_der s rest hv hl]

example : derUTF8 operator = [0x0c, 0x08, 0x6f, 0x70, 0x65, 0x72, 0x61, 0x74, 0x6f, 0x72] := by decide
example : validUtf8 operator = true := by decide
example : unmarshalUtf8String (derUTF8 operator ++ [0xde, 0xad]) = .ok (operator, [0xde, 0xad]) := by
  decide
example : derUTF8 (List.replicate 128 0x41) = 0x0c :: 0x81 :: 0x80 :: List.replicate 128 0x41 := by
  decide
example : derUTF8 (List.replicate 300 0x41) = 0x0c :: 0x82 :: 0x01 :: 0x2c :: List.replicate 300 0x41 := by
  decide

/-- 2. Whatever `asn1.Unmarshal` accepts from a value starting with the UTF8String identifier
    octet is exactly a DER UTF8String TLV of valid UTF-8 (shorter than 2^31) followed by `rest`:
    no other length form, no other content gets through. -/
theorem unmarshal_ok_inv (v s rest : Bytes) (h : unmarshalUtf8String v = .ok (s, rest))
    (hh : v.head? = some 0x0c) :
    v = derUTF8 s ++ rest ∧ validUtf8 s = true ∧ s.length < 2^31 := by
  cases v with
  | nil => cases hh
  | cons v0 t =>
    simp only [List.head?_cons, Option.some.injEq] at hh
    subst hh
    unfold unmarshalUtf8String at h
    cases hc : unmarshalChecked (0x0c :: t) with
    | error e => rw [hc] at h; cases h
    | ok r =>
      rw [hc] at h
      simp only [Except.ok.injEq] at h
      subst h
      exact unmarshalChecked_ok_inv _ _ _ hc

/-- the length bound is the one of the Go code: 2^31 - 1 passes the length parser (the value is
    then "data truncated"), 2^31 and any 5-octet length are "length too large" -/
example : parseLength [0x84, 0x7f, 0xff, 0xff, 0xff, 0x41] = .ok (2^31 - 1, [0x41]) := by decide
example : parseLength [0x84, 0x80, 0x00, 0x00, 0x00, 0x41] = .error .err := by decide
example : parseLength [0x85, 0x01, 0x00, 0x00, 0x00, 0x00, 0x41] = .error .err := by decide

/-- 3. Go's `utf8.Valid` (fast path, `first` / `acceptRanges` tables) decides exactly well-formed
    UTF-8 as defined by Table 3-7 of the Unicode Standard, for every byte string. -/
theorem utf8Valid_eq_spec (bs : Bytes) : utf8Valid bs = validUtf8 bs := utf8Valid_eq bs

/-- ... and `Spec.validUtf8` is "a concatenation of well-formed byte sequences" -/
theorem validUtf8_iff (bs : Bytes) : validUtf8 bs = true ↔ WellFormedUtf8 bs :=
  validUtf8_iff_wellFormed bs

example : utf8Valid [0xf4, 0x8f, 0xbf, 0xbf, 0xed, 0x9f, 0xbf, 0xe0, 0xa0, 0x80, 0xc2, 0x80, 0x7f] = true := by
  decide
example : utf8Valid [0xf4, 0x90, 0x80, 0x80] = false := by decide   -- > U+10FFFF
example : utf8Valid [0xed, 0xa0, 0x80] = false := by decide         -- surrogate U+D800
example : utf8Valid [0xc0, 0xaf] = false := by decide               -- overlong '/'
example : utf8Valid [0xe0, 0x9f, 0xbf] = false := by decide         -- overlong 3-byte
example : utf8Valid [0xf0, 0x8f, 0xbf, 0xbf] = false := by decide   -- overlong 4-byte
example : utf8Valid [0x41, 0x41, 0x41, 0x41, 0x41, 0x41, 0x41, 0x41, 0xc2] = false := by decide -- truncated after the fast path

/-! ### 4–5: the role seen by handlers -/

/-- 4. Exactly one role extension — at any position, with any other extensions around it — whose
    value is the DER UTF8String of a valid UTF-8 string `s`: the role is `s`. -/
theorem C15_faithful (pre post : List Ext) (e : Ext) (s : Bytes)
    (hpre : ∀ x ∈ pre, x.id ≠ roleOID) (hpost : ∀ x ∈ post, x.id ≠ roleOID)
    (hid : e.id = roleOID) (hval : e.value = derUTF8 s)
    (hv : validUtf8 s = true) (hl : s.length < 2^31) :
    extractRole (pre ++ e :: post) = s :=
  extractRole_faithful _ e s
    ((roleExts_single_iff _ e).mpr ⟨pre, post, rfl, hid, hpre, hpost⟩) ⟨hval, hv, hl⟩

/-- 4'. the same with "exactly one" written as `roleExts exts = [e]` -/
theorem C15_faithful' (exts : List Ext) (s : Bytes) (h : HasRole exts s) : extractRole exts = s := by
  obtain ⟨e, he, hv⟩ := h
  exact extractRole_faithful exts e s he hv

/-- "exactly one role extension" in the two forms -/
theorem exactly_one_iff (exts : List Ext) (e : Ext) :
    roleExts exts = [e] ↔
      ∃ pre post, exts = pre ++ e :: post ∧ e.id = roleOID ∧
        (∀ x ∈ pre, x.id ≠ roleOID) ∧ (∀ x ∈ post, x.id ≠ roleOID) :=
  roleExts_single_iff exts e

/-- 5. In every other case the role is empty: unless there is exactly one role extension and its
    value is `derUTF8 s` for some valid UTF-8 `s` (shorter than 2^31), `extractRole` returns "".
    (`HasRole exts s` unfolds to `∃ e, roleExts exts = [e] ∧ e.value = derUTF8 s ∧
    validUtf8 s = true ∧ s.length < 2^31`.) -/
theorem C15_empty_otherwise (exts : List Ext) (h : ¬ ∃ s, HasRole exts s) : extractRole exts = [] :=
  extractRole_empty exts h

/-- 4+5 as one equation against the executable specification -/
theorem C15_eq_spec (exts : List Ext) : extractRole exts = roleOf exts := extractRole_eq_roleOf exts

/-- the specification function means what it says -/
theorem roleOf_spec (exts : List Ext) (s : Bytes) (h : HasRole exts s) : roleOf exts = s := by
  rw [← C15_eq_spec]; exact C15_faithful' exts s h
theorem roleOf_spec_empty (exts : List Ext) (h : ¬ ∃ s, HasRole exts s) : roleOf exts = [] := by
  rw [← C15_eq_spec]; exact C15_empty_otherwise exts h

/-! the named cases of 5 -/

/-- absent -/
theorem C15_absent (exts : List Ext) (h : ∀ x ∈ exts, x.id ≠ roleOID) : extractRole exts = [] := by
  apply C15_empty_otherwise
  rintro ⟨s, e, he, -⟩
  have : e ∈ roleExts exts := by rw [he]; simp
  simp only [roleExts, List.mem_filter, beq_iff_eq] at this
  exact h e this.1 this.2

/-- duplicated: two or more role extensions, wherever they are, whatever their values -/
theorem C15_duplicated (exts : List Ext) (h : 2 ≤ (roleExts exts).length) : extractRole exts = [] := by
  apply C15_empty_otherwise
  rintro ⟨s, e, he, -⟩
  rw [he] at h; simp at h

/-- other string types / any other first octet, and values shorter than 2 bytes -/
theorem C15_other_tag (exts : List Ext) (e : Ext) (he : roleExts exts = [e])
    (h : e.value.head? ≠ some 0x0c ∨ e.value.length < 2) : extractRole exts = [] := by
  apply C15_empty_otherwise
  rintro ⟨s, e', he', hv⟩
  rw [he] at he'
  simp only [List.cons.injEq, and_true] at he'
  subst he'
  rcases h with h | h
  · exact h (isRoleValue_head hv)
  · have := isRoleValue_length hv; omega

/-- malformed encodings: whatever `asn1.Unmarshal` rejects, or accepts with bytes left over -/
theorem C15_malformed (exts : List Ext) (e : Ext) (he : roleExts exts = [e])
    (h : ∀ s, unmarshalUtf8String e.value ≠ .ok (s, [])) : extractRole exts = [] := by
  apply C15_empty_otherwise
  rintro ⟨s, e', he', hv⟩
  rw [he] at he'
  simp only [List.cons.injEq, and_true] at he'
  subst he'
  exact h s ((isRoleValue_iff_unmarshal _ _).mp hv).2

/-- trailing bytes after a well-formed TLV -/
theorem C15_trailing_bytes (exts : List Ext) (e : Ext) (he : roleExts exts = [e]) (s extra : Bytes)
    (hval : e.value = derUTF8 s ++ extra) (hne : extra ≠ [])
    (hv : validUtf8 s = true) (hl : s.length < 2^31) : extractRole exts = [] := by
  apply C15_empty_otherwise
  rintro ⟨s', e', he', hv'⟩
  rw [he] at he'
  simp only [List.cons.injEq, and_true] at he'
  subst he'
  rw [hval] at hv'
  exact not_isRoleValue_trailing hv hl hne hv'

/-- invalid UTF-8 content in an otherwise well-formed TLV -/
theorem C15_invalid_utf8 (exts : List Ext) (e : Ext) (he : roleExts exts = [e]) (s : Bytes)
    (hval : e.value = derUTF8 s) (hv : validUtf8 s = false) (hl : s.length < 2^31) :
    extractRole exts = [] := by
  apply C15_empty_otherwise
  rintro ⟨s', e', he', hv'⟩
  rw [he] at he'
  simp only [List.cons.injEq, and_true] at he'
  subst he'
  rw [hval] at hv'
  exact not_isRoleValue_invalid hv hl hv'

/-! ### 6: totality, no panic -/

/-- 6. `extractRole` is a total function, and the checked transcription — in which every Go index
    and slice expression (`ext.Value[0]`, `bytes[offset]`, `bytes[offset:offset+length]`,
    `b[offset:]`, `p[i+1]`, `p[i+2]`, `p[i+3]`) yields the fault `panic` when out of range and
    is guarded only where the Go code guards it — never produces a fault: no panic, no fuel
    exhaustion, and nothing outside the modelled fragment of encoding/asn1 is reached. -/
theorem C15_total (exts : List Ext) : extractRoleChecked exts = .ok (extractRole exts) :=
  extractRoleChecked_ok exts

/-- the same for `utf8.Valid` on any input -/
theorem C15_total_utf8 (p : Bytes) : utf8ValidChecked p = .ok (utf8Valid p) := by
  rw [utf8ValidChecked_ok, utf8Valid_eq]

/-- ... and for `asn1.Unmarshal` on any value that starts with 0x0c: a result or a Go error -/
theorem C15_total_unmarshal (t : Bytes) :
    (∃ r, unmarshalChecked (0x0c :: t) = .ok r) ∨ unmarshalChecked (0x0c :: t) = .error .err := by
  cases h : unmarshalChecked (0x0c :: t) with
  | ok r => exact .inl ⟨r, rfl⟩
  | error e => rw [unmarshalChecked_0c_error t e h]; exact .inr rfl

/-- the two table look-ups are in range -/
theorem C15_tables (b x : Byte) :
    b.toNat < firstTable.size ∧ (x >>> 4).toNat < acceptRangesTable.size :=
  ⟨first_index_lt b, acceptRanges_index_lt x⟩

/-! ### non-vacuity -/

-- the hypotheses of 4 are satisfiable, in each position
example : HasRole [roleExt (derUTF8 operator)] operator := ⟨_, rfl, rfl, by decide, by decide⟩
example : HasRole [keyUsage, roleExt (derUTF8 operator), otherOid] operator :=
  ⟨roleExt (derUTF8 operator), by decide, rfl, by decide, by decide⟩

-- role "operator" alone; with unrelated extensions before / after / both
example : extractRole [roleExt [0x0c, 0x08, 0x6f, 0x70, 0x65, 0x72, 0x61, 0x74, 0x6f, 0x72]] = operator := by
  decide
example : extractRole [roleExt (derUTF8 operator)] = operator := by decide
example : extractRole [keyUsage, otherOid, roleExt (derUTF8 operator)] = operator := by decide
example : extractRole [roleExt (derUTF8 operator), keyUsage, otherOid] = operator := by decide
example : extractRole [keyUsage, roleExt (derUTF8 operator), otherOid] = operator := by decide
-- absent
example : extractRole [] = [] := by decide
example : extractRole [keyUsage, otherOid] = [] := by decide
-- duplicated (same value, different values, second one malformed, far apart)
example : extractRole [roleExt (derUTF8 operator), roleExt (derUTF8 operator)] = [] := by decide
example : extractRole [roleExt (derUTF8 operator), keyUsage, roleExt [0x0c, 0x01, 0x41]] = [] := by decide
example : extractRole [roleExt (derUTF8 operator), keyUsage, otherOid, roleExt []] = [] := by decide
-- trailing bytes after the TLV (finding F6 on the unfixed tree)
example : extractRole [roleExt [0x0c, 0x01, 0x41, 0x00, 0x00]] = [] := by decide
-- other string types: PrintableString 0x13, IA5String 0x16, constructed UTF8String 0x2c
example : extractRole [roleExt [0x13, 0x01, 0x41]] = [] := by decide
example : extractRole [roleExt [0x16, 0x01, 0x41]] = [] := by decide
example : extractRole [roleExt [0x2c, 0x01, 0x41]] = [] := by decide
-- long form: 0x81 0x80 + 128 bytes accepted
example : extractRole [roleExt (0x0c :: 0x81 :: 0x80 :: List.replicate 128 0x41)] =
    List.replicate 128 0x41 := by decide
-- non-minimal long form, leading zero, indefinite length
example : extractRole [roleExt [0x0c, 0x81, 0x05, 0x41, 0x42, 0x43, 0x44, 0x45]] = [] := by decide
example : extractRole [roleExt [0x0c, 0x82, 0x00, 0x80, 0x41]] = [] := by decide
example : extractRole [roleExt [0x0c, 0x80, 0x41, 0x00, 0x00]] = [] := by decide
-- truncated content, truncated length, value shorter than 2 bytes
example : extractRole [roleExt [0x0c, 0x05, 0x41, 0x42]] = [] := by decide
example : extractRole [roleExt [0x0c, 0x82, 0x01]] = [] := by decide
example : extractRole [roleExt [0x0c]] = [] := by decide
example : extractRole [roleExt []] = [] := by decide
-- the empty string is a well-formed role value; its role is ""
example : HasRole [roleExt [0x0c, 0x00]] [] := ⟨_, rfl, rfl, by decide, by decide⟩
example : extractRole [roleExt [0x0c, 0x00]] = [] := by decide
-- invalid UTF-8: overlong, surrogate, above U+10FFFF, stray continuation byte
example : extractRole [roleExt [0x0c, 0x02, 0xc0, 0xaf]] = [] := by decide
example : extractRole [roleExt [0x0c, 0x03, 0xed, 0xa0, 0x80]] = [] := by decide
example : extractRole [roleExt [0x0c, 0x04, 0xf4, 0x90, 0x80, 0x80]] = [] := by decide
example : extractRole [roleExt [0x0c, 0x01, 0x80]] = [] := by decide
-- valid multi-byte UTF-8 is kept byte for byte ("é€😀")
example : extractRole [roleExt [0x0c, 0x09, 0xc3, 0xa9, 0xe2, 0x82, 0xac, 0xf0, 0x9f, 0x98, 0x80]] =
    [0xc3, 0xa9, 0xe2, 0x82, 0xac, 0xf0, 0x9f, 0x98, 0x80] := by decide
-- the specification function on the same inputs
example : roleOf [keyUsage, roleExt (derUTF8 operator), otherOid] = operator := by decide
example : roleOf [roleExt [0x0c, 0x01, 0x41, 0x00, 0x00]] = [] := by decide
example : roleOf [roleExt (derUTF8 operator), roleExt (derUTF8 operator)] = [] := by decide
-- no fault on any of these
example : extractRoleChecked [roleExt [0x0c, 0x84, 0xff]] = .ok [] := by decide

#print axioms unmarshal_der_roundtrip
#print axioms unmarshal_ok_inv
#print axioms utf8Valid_eq_spec
#print axioms validUtf8_iff
#print axioms C15_faithful
#print axioms C15_faithful'
#print axioms exactly_one_iff
#print axioms C15_empty_otherwise
#print axioms C15_eq_spec
#print axioms roleOf_spec
#print axioms roleOf_spec_empty
#print axioms C15_absent
#print axioms C15_duplicated
#print axioms C15_other_tag
#print axioms C15_malformed
#print axioms C15_trailing_bytes
#print axioms C15_invalid_utf8
#print axioms C15_total
#print axioms C15_total_utf8
#print axioms C15_total_unmarshal
#print axioms C15_tables

end Modbus.Props.C15
