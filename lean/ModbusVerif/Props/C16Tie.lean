import ModbusVerif.Lemmas.ConfigTieLemmas
import ModbusVerif.Props.C16
import ModbusVerif.Generated.Facts
/-
  C16 (source tie): the defaulting / refusal logic of `NewClient`, `NewServer`, `SetEncoding`,
  `SetUnitId`, as the translator extracts it from /repo's CURRENT source (`Gen.skeleton_*`,
  regenerated on every run), computes the hand-written model `Config.newClient`, `Config.newServer`,
  `Config.setEncoding`, `Config.setUnitId`.

  Three steps per function:
   (a) the skeleton is executed by `Skel.execCondT` for every combination of the booleans its
       conditions test and every relevant switch value; the conditions are answered from a table
       keyed by the exact condition TEXT (an unknown text gives `none`). From the executed tokens
       the EFFECT is read off: field assignments with their constant values, local assignments,
       calls, the error assigned, the first tokens.
   (b) `expected…Effect`, written from the model, is rendered to the same form and compared by
       the kernel (`decide +kernel`)                                    — `…_source_effect`
   (c) for EVERY configuration (all numbers, all URL strings) applying `expected…Effect` to the Go
       object gives the model's result; plain proof by cases            — `…_agrees`
  and (a)+(b)+(c) are put together in `…_source_computes_model`.
-/
namespace Modbus.Props.C16
open Modbus Skel Config
open Modbus.Client (Kind)

set_option maxRecDepth 100000

/-! ## the effect of one execution -/

/-- what an execution did, as far as the configuration logic is concerned -/
structure Effect where
  /-- the first executed tokens (after `params` / `results`) -/
  head     : List Tok
  /-- field assignments after the head, in order: (target, constant value if it has one, else the
      right-hand side text) -/
  sets     : List (String × String)
  /-- assignments to local variables other than `err`: (variable, right-hand side) -/
  locals   : List (String × String)
  /-- names called / deferred / started after the head -/
  calls    : List String
  /-- the last value assigned to `err` -/
  err      : Option String
  /-- a `return` statement ended the execution -/
  returned : Bool
  deriving DecidableEq, Repr

def notSig (t : Tok) : Bool := !(t.1 == "params" || t.1 == "results")

def setOf (t : Tok) : String × String :=
  match t.2.2 with
  | [rhs, cv] => (t.2.1, if cv == "" then rhs else cv)
  | _ => (t.2.1, "?")

/-- `n`: length of the head; `ignore`: assigned fields that are not modelled (the logger) -/
def effectOf (n : Nat) (ignore : List String) (r : List Tok × Bool) : Effect :=
  let tr := r.1.filter notSig
  let body := tr.drop n
  { head := tr.take n
    sets := (body.filter (fun t => t.1 == "set" && !ignore.contains t.2.1)).map setOf
    locals := (body.filter (fun t => t.1 == "assign" && t.2.1 != "err")).map
                (fun t => (t.2.1, t.2.2.headD "?"))
    calls := (body.filter (fun t => t.1 == "call" || t.1 == "defer" || t.1 == "go")).map (·.2.1)
    err := ((body.filter (fun t => t.1 == "assign" && t.2.1 == "err")).getLast?).map
                (fun t => t.2.2.headD "?")
    returned := r.2 }

/-- the declared parameter names -/
def paramsOf (toks : List Tok) : Option (List String) := (toks.find? (fun t => t.1 == "params")).map (·.2.2)

/-- a numeric constant of the Go package, from the generated facts -/
def constNat (n : String) : Option Nat := (Gen.intConsts.lookup n).map Int.toNat

/-! ## typed effects and their rendering -/

inductive Val
  | nat (n : Nat)            -- a constant
  | rest                     -- `splitURL[1]`
  | param (name : String)    -- a parameter of the function
  deriving DecidableEq, Repr

def Val.render : Val → String
  | .nat n => Nat.repr n
  | .rest => "splitURL[1]"
  | .param p => p

structure TEffect (F : Type) where
  /-- `clientType = splitURL[0]` / `serverType = splitURL[0]` was executed -/
  typeVar : Bool
  sets    : List (F × Val)
  refusal : Option Err

def errName : Err → String
  | .configuration => "ErrConfigurationError"
  | .unexpectedParameters => "ErrUnexpectedParameters"
  | _ => "?"

def TEffect.render {F : Type} (e : TEffect F) (head : List Tok) (name : F → String) (typeVar : String)
    (calls : List String) : Effect :=
  { head := head
    sets := e.sets.map (fun p => (name p.1, p.2.render))
    locals := if e.typeVar then [(typeVar, "splitURL[0]")] else []
    calls := calls
    err := e.refusal.map errName
    returned := true }

def dflt {F : Type} (b : Bool) (f : F) (v : Nat) : List (F × Val) := if b then [(f, .nat v)] else []

/-- a condition on a field is answered from the INITIAL configuration only as long as the field
    has not been assigned in this execution -/
def fresh (tr : List Tok) (field : String) (b : Bool) : Option Bool :=
  if assigned tr field then none else some b

/-- `splitURL` is what `strings.SplitN(<recv>.conf.URL, "://", 2)` returned -/
def splitKnown (recvURL : String) (tr : List Tok) (b : Bool) : Option Bool :=
  if tr.filter (fun t => t.2.1 == "strings.SplitN") ==
      [("call", "strings.SplitN", [recvURL, "\"://\"", "2"]), ("bind", "strings.SplitN", ["splitURL"])]
  then some b else none

/-! ## NewClient -/

/-- the booleans `NewClient`'s conditions test (besides "the URL contains ://") -/
structure AbsClient where
  speed0     : Bool
  dataBits0  : Bool
  stopBits0  : Bool
  parityNone : Bool
  timeout0   : Bool
  certNil    : Bool
  rootsNil   : Bool
  deriving DecidableEq, Repr

/-- condition table of `NewClient`. `scheme = none`: no "://" in the URL (`len(splitURL) = 1`). -/
def clientCond (scheme : Option String) (a : AbsClient) (tr : List Tok) (s : String) : Option Bool :=
  if s == "len(splitURL) == 2" then splitKnown "mc.conf.URL" tr scheme.isSome
  else if s == "len(splitURL) != 2" then splitKnown "mc.conf.URL" tr (!scheme.isSome)
  else if s == "mc.conf.Speed == 0" then fresh tr "mc.conf.Speed" a.speed0
  else if s == "mc.conf.DataBits == 0" then fresh tr "mc.conf.DataBits" a.dataBits0
  else if s == "mc.conf.StopBits == 0" then fresh tr "mc.conf.StopBits" a.stopBits0
  else if s == "mc.conf.Parity == PARITY_NONE" then
    (if constNat "PARITY_NONE" = some 0 then fresh tr "mc.conf.Parity" a.parityNone else none)
  else if s == "mc.conf.Timeout == 0" then fresh tr "mc.conf.Timeout" a.timeout0
  else if s == "mc.conf.TLSClientCert == nil" then fresh tr "mc.conf.TLSClientCert" a.certNil
  else if s == "mc.conf.TLSRootCAs == nil" then fresh tr "mc.conf.TLSRootCAs" a.rootsNil
  else none

/-- effect of `NewClient`'s skeleton; the switch value is the scheme ("" when there is none:
    `var clientType string` keeps its zero value) -/
def clientEffect (toks : List Tok) (scheme : Option String) (a : AbsClient) : Option Effect :=
  (execCondT toks (scheme.getD "") (clientCond scheme a)).map (effectOf 3 ["mc.logger"])

inductive CField
  | url | speed | dataBits | stopBits | timeout | transportType | unitId | endianness | wordOrder
  deriving DecidableEq, Repr

def CField.name : CField → String
  | .url => "mc.conf.URL" | .speed => "mc.conf.Speed" | .dataBits => "mc.conf.DataBits"
  | .stopBits => "mc.conf.StopBits" | .timeout => "mc.conf.Timeout"
  | .transportType => "mc.transportType" | .unitId => "mc.unitId"
  | .endianness => "mc.endianness" | .wordOrder => "mc.wordOrder"

/-- `transportType` numbers (client.go `const ( modbusRTU transportType = 1 … )`) -/
def kindNum : Kind → Nat
  | .rtu => 1 | .rtuOverTcp => 2 | .rtuOverUdp => 3 | .tcp => 4 | .tcpTls => 5 | .udp => 6
def kindOfNum (n : Nat) : Option Kind :=
  if n = 1 then some .rtu else if n = 2 then some .rtuOverTcp else if n = 3 then some .rtuOverUdp
  else if n = 4 then some .tcp else if n = 5 then some .tcpTls else if n = 6 then some .udp else none
def endianNum : Endian → Nat | .big => 1 | .little => 2 | .invalid => 0
def wordNum : WordOrder → Nat | .highFirst => 1 | .lowFirst => 2 | .invalid => 0

/-- What the MODEL `Config.newClient` says `NewClient` does to the freshly copied configuration,
    as assignments: URL := rest when there is a scheme; per scheme the defaults of the zero fields
    (19200 / 8 / 2 or 1 / 300 ms or 1 s); refusal for a missing or unknown scheme and for tcp+tls
    without certificate / without roots (the timeout default is applied before those two tests);
    on success the transport type and unit id 1, big endian, high word first. -/
def expectedClientEffect (scheme : Option String) (a : AbsClient) : TEffect CField :=
  match scheme with
  | none => { typeVar := false, sets := [], refusal := some .configuration }
  | some s =>
    let pre : List (CField × Val) := [(.url, .rest)]
    let post (k : Kind) : List (CField × Val) :=
      [(.transportType, .nat (kindNum k)), (.unitId, .nat 1), (.endianness, .nat (endianNum .big)),
       (.wordOrder, .nat (wordNum .highFirst))]
    let ok (mid : List (CField × Val)) (k : Kind) : TEffect CField :=
      { typeVar := true, sets := pre ++ mid ++ post k, refusal := none }
    let no (mid : List (CField × Val)) : TEffect CField :=
      { typeVar := true, sets := pre ++ mid, refusal := some .configuration }
    if s = "rtu" then
      ok (dflt a.speed0 .speed 19200 ++ dflt a.dataBits0 .dataBits 8 ++
          (if a.stopBits0 then [(.stopBits, .nat (if a.parityNone then 2 else 1))] else []) ++
          dflt a.timeout0 .timeout (300 * ms)) .rtu
    else if s = "rtuovertcp" then
      ok (dflt a.speed0 .speed 19200 ++ dflt a.timeout0 .timeout second) .rtuOverTcp
    else if s = "rtuoverudp" then
      ok (dflt a.speed0 .speed 19200 ++ dflt a.timeout0 .timeout second) .rtuOverUdp
    else if s = "tcp" then ok (dflt a.timeout0 .timeout second) .tcp
    else if s = "tcp+tls" then
      if a.certNil then no (dflt a.timeout0 .timeout second)
      else if a.rootsNil then no (dflt a.timeout0 .timeout second)
      else ok (dflt a.timeout0 .timeout second) .tcpTls
    else if s = "udp" then ok (dflt a.timeout0 .timeout second) .udp
    else no []

/-- the first three executed tokens: the object is a copy of `*conf` with every other field zero,
    and `splitURL` is the URL split at the first "://" -/
def clientHead : List Tok :=
  [("assign", "mc", ["&ModbusClient{ conf: *conf, }"]),
   ("call", "strings.SplitN", ["mc.conf.URL", "\"://\"", "2"]),
   ("bind", "strings.SplitN", ["splitURL"])]

def renderClient (e : TEffect CField) : Effect :=
  e.render clientHead CField.name "clientType" ["newLogger", "fmt.Sprintf"]

/-- the switch values tried: no scheme, the empty scheme ("://x"), the six schemes, the word
    "default" (which the skeleton also uses to mark the default clause) and an unknown scheme -/
def clientSchemeCases : List (Option String) :=
  [none, some "", some "rtu", some "rtuovertcp", some "rtuoverudp", some "tcp", some "tcp+tls",
   some "udp", some "default", some "xyz"]

/-- the check the kernel evaluates: every given scheme case × every combination of the seven booleans -/
def clientCheckOn (cases : List (Option String)) (toks : List Tok) : Bool :=
  decide (∀ s ∈ cases, ∀ b1 b2 b3 b4 b5 b6 b7 : Bool,
    clientEffect toks s ⟨b1, b2, b3, b4, b5, b6, b7⟩ =
      some (renderClient (expectedClientEffect s ⟨b1, b2, b3, b4, b5, b6, b7⟩)))
def clientCheck (toks : List Tok) : Bool := clientCheckOn clientSchemeCases toks

/-- failing on some of the cases is failing the check -/
theorem clientCheck_false_of_sub {toks : List Tok} (cs : List (Option String))
    (hsub : ∀ s ∈ cs, s ∈ clientSchemeCases) (h : clientCheckOn cs toks = false) :
    clientCheck toks = false := by
  cases hc : clientCheck toks with
  | false => rfl
  | true =>
    have hc' : clientCheckOn clientSchemeCases toks = true := hc
    unfold clientCheckOn at hc'
    have hall := of_decide_eq_true hc'
    have : clientCheckOn cs toks = true := decide_eq_true (fun s hs => hall s (hsub s hs))
    rw [h] at this; cases this

theorem C16T_newClient_check : clientCheck Gen.skeleton_NewClient = true := by decide +kernel

/-- (3) the effect computed from the CURRENT source of `NewClient` is the one the model predicts,
    for every scheme case and every combination of the seven tested booleans -/
theorem C16T_newClient_source_effect :
    ∀ s ∈ clientSchemeCases, ∀ a : AbsClient,
      clientEffect Gen.skeleton_NewClient s a = some (renderClient (expectedClientEffect s a)) := by
  intro s hs a
  obtain ⟨b1, b2, b3, b4, b5, b6, b7⟩ := a
  have h : clientCheckOn clientSchemeCases Gen.skeleton_NewClient = true := C16T_newClient_check
  unfold clientCheckOn at h
  exact of_decide_eq_true h s hs b1 b2 b3 b4 b5 b6 b7

/-- the only switch of `NewClient` is on `clientType`, its case lists are the six schemes -/
theorem C16T_newClient_switch :
    switchTags Gen.skeleton_NewClient = ["clientType"] ∧
    labelsNodes (parse Gen.skeleton_NewClient) =
      ["rtu", "rtuovertcp", "rtuoverudp", "tcp", "tcp+tls", "udp", "default"] ∧
    paramsOf Gen.skeleton_NewClient = some ["conf"] := by decide +kernel

/-- the constants of the generated facts the tables rely on -/
theorem C16T_constants :
    constNat "modbusRTU" = some (kindNum .rtu) ∧ constNat "modbusRTUOverTCP" = some (kindNum .rtuOverTcp) ∧
    constNat "modbusRTUOverUDP" = some (kindNum .rtuOverUdp) ∧ constNat "modbusTCP" = some (kindNum .tcp) ∧
    constNat "modbusTCPOverTLS" = some (kindNum .tcpTls) ∧ constNat "modbusTCPOverUDP" = some (kindNum .udp) ∧
    constNat "BIG_ENDIAN" = some (endianNum .big) ∧ constNat "LITTLE_ENDIAN" = some (endianNum .little) ∧
    constNat "HIGH_WORD_FIRST" = some (wordNum .highFirst) ∧ constNat "LOW_WORD_FIRST" = some (wordNum .lowFirst) ∧
    constNat "PARITY_NONE" = some Spec.Config.defaultParity := by decide +kernel

def Effect.setsField (e : Effect) (f : String) : Bool := e.sets.any (fun p => p.1 == f)

/-- a refused `NewClient` never executed `mc.transportType = …`: the object that is returned
    together with the error keeps transport type 0 (no valid type), and a successful one executed
    it (exactly once, see `C16T_newClient_source_effect`) -/
theorem C16T_refused_client_has_no_transport_type :
    ∀ s ∈ clientSchemeCases, ∀ a : AbsClient, ∀ e, clientEffect Gen.skeleton_NewClient s a = some e →
      (e.err = some "ErrConfigurationError" ∨ e.err = none) ∧
      (e.err = some "ErrConfigurationError" → e.setsField "mc.transportType" = false) ∧
      (e.err = none → e.setsField "mc.transportType" = true) := by
  intro s hs a e he
  rw [C16T_newClient_source_effect s hs a] at he
  cases he
  obtain ⟨b1, b2, b3, b4, b5, b6, b7⟩ := a
  revert s b1 b2 b3 b4 b5 b6 b7
  decide +kernel

/-! ### (4) the bridge to the concrete model -/

/-- the Go object `*ModbusClient` as far as the model looks at it (numbers as in Go) -/
structure ClientObj where
  url           : String
  speed         : Nat
  dataBits      : Nat
  parity        : Nat
  stopBits      : Nat
  timeoutNs     : Nat
  transportType : Nat
  unitId        : Nat
  endianness    : Nat
  wordOrder     : Nat
  deriving DecidableEq, Repr

/-- `mc = &ModbusClient{ conf: *conf }`: the configuration copied, every other field zero -/
def clientObj0 (c : ClientConf) : ClientObj :=
  { url := c.url, speed := c.speed, dataBits := c.dataBits, parity := c.parity, stopBits := c.stopBits
    timeoutNs := c.timeoutNs, transportType := 0, unitId := 0, endianness := 0, wordOrder := 0 }

/-- one assignment; `rest` is `splitURL[1]` when there is one -/
def applyClientSet (rest : Option String) (o : ClientObj) : CField × Val → Option ClientObj
  | (.url, .rest) => rest.map (fun r => { o with url := r })
  | (.speed, .nat n) => some { o with speed := n }
  | (.dataBits, .nat n) => some { o with dataBits := n }
  | (.stopBits, .nat n) => some { o with stopBits := n }
  | (.timeout, .nat n) => some { o with timeoutNs := n }
  | (.transportType, .nat n) => some { o with transportType := n }
  | (.unitId, .nat n) => some { o with unitId := n }
  | (.endianness, .nat n) => some { o with endianness := n }
  | (.wordOrder, .nat n) => some { o with wordOrder := n }
  | _ => none

def applyClientSets (rest : Option String) : List (CField × Val) → ClientObj → Option ClientObj
  | [], o => some o
  | s :: ss, o => (applyClientSet rest o s).bind (applyClientSets rest ss)

/-- the model's view of a successfully configured object; `none` when the transport type is not
    one of the six -/
def clientStateOf (o : ClientObj) : Option ClientState :=
  (kindOfNum o.transportType).map fun k =>
    { kind := k, url := o.url, speed := o.speed, dataBits := o.dataBits, parity := o.parity
      stopBits := o.stopBits, timeoutNs := o.timeoutNs, unitId := BitVec.ofNat 8 o.unitId
      endian := endianOf o.endianness, word := wordOf o.wordOrder }

/-- the result of a constructor whose effect is `e`, started on configuration `c` -/
def interpClient (e : TEffect CField) (c : ClientConf) : Option (Except Err ClientState) :=
  match applyClientSets ((splitScheme c.url).map (·.2)) e.sets (clientObj0 c) with
  | none => none
  | some o =>
    match e.refusal with
    | some err => some (.error err)
    | none => (clientStateOf o).map .ok

/-- the abstraction of a concrete configuration -/
def schemeOfURL (url : String) : Option String := (splitScheme url).map (·.1)
def absClient (c : ClientConf) : AbsClient :=
  { speed0 := c.speed == 0, dataBits0 := c.dataBits == 0, stopBits0 := c.stopBits == 0
    parityNone := c.parity == 0, timeout0 := c.timeoutNs == 0
    certNil := !c.hasCert, rootsNil := !c.hasRoots }

local macro "client_pre" : tactic => `(tactic|
  (simp only [expectedClientEffect, Option.map_some, absClient, dflt, orDefault]; simp))
local macro "client_post" : tactic => `(tactic|
  simp [applyClientSets, applyClientSet, clientObj0, clientStateOf, kindOfNum, kindNum, endianNum,
        wordNum, endianOf, wordOf, *])

/-- (4) for EVERY configuration — all numbers, every URL string — applying the expected effect
    (for the scheme and the booleans abstracted from `c`) to the copied configuration gives exactly
    `Config.newClient c`: same refusals, same state -/
theorem C16T_newClient_agrees (c : ClientConf) :
    interpClient (expectedClientEffect (schemeOfURL c.url) (absClient c)) c = some (newClient c) := by
  unfold interpClient schemeOfURL newClient
  cases hs : splitScheme c.url with
  | none => simp [expectedClientEffect, applyClientSets]
  | some p =>
    obtain ⟨scheme, rest⟩ := p
    rcases scheme_cases scheme with h | h | h | h | h | h | h
    · subst h; client_pre
      by_cases h1 : c.speed = 0 <;> by_cases h2 : c.dataBits = 0 <;> by_cases h3 : c.stopBits = 0 <;>
        by_cases h5 : c.timeoutNs = 0 <;> client_post
    · subst h; client_pre
      by_cases h1 : c.speed = 0 <;> by_cases h5 : c.timeoutNs = 0 <;> client_post
    · subst h; client_pre
      by_cases h1 : c.speed = 0 <;> by_cases h5 : c.timeoutNs = 0 <;> client_post
    · subst h; client_pre
      by_cases h5 : c.timeoutNs = 0 <;> client_post
    · subst h; client_pre
      by_cases h5 : c.timeoutNs = 0 <;> cases h6 : c.hasCert <;> cases h7 : c.hasRoots <;> client_post
    · subst h; client_pre
      by_cases h5 : c.timeoutNs = 0 <;> client_post
    simp only [Spec.Config.clientSchemes, List.mem_cons, List.not_mem_nil, or_false, not_or] at h
    obtain ⟨h1, h2, h3, h4, h5, h6⟩ := h
    simp [expectedClientEffect, applyClientSets, applyClientSet, clientObj0, *]

/-! ### every scheme string, and (3)+(4) together -/

theorem clientCond_some (s s' : String) (a : AbsClient) :
    clientCond (some s) a = clientCond (some s') a := rfl

theorem expectedClientEffect_unknown (s : String) (a : AbsClient)
    (h : s ∉ Spec.Config.clientSchemes) :
    expectedClientEffect (some s) a = expectedClientEffect (some "xyz") a := by
  simp only [Spec.Config.clientSchemes, List.mem_cons, List.not_mem_nil, or_false, not_or] at h
  obtain ⟨h1, h2, h3, h4, h5, h6⟩ := h
  simp [expectedClientEffect, *]

/-- (3) for EVERY scheme string: a scheme outside the tried cases occurs in no `case` list and is
    therefore executed like "xyz" (`Skel.execCondT_kind_irrel`) -/
theorem C16T_newClient_source_effect_all (scheme : Option String) (a : AbsClient) :
    clientEffect Gen.skeleton_NewClient scheme a = some (renderClient (expectedClientEffect scheme a)) := by
  by_cases hm : scheme ∈ clientSchemeCases
  · exact C16T_newClient_source_effect _ hm a
  · cases scheme with
    | none => exact absurd (by simp [clientSchemeCases]) hm
    | some s =>
      simp only [clientSchemeCases, List.mem_cons, Option.some.injEq, List.not_mem_nil, or_false,
        not_or, reduceCtorEq, false_or] at hm
      have hne : s ∉ labelsNodes (parse Gen.skeleton_NewClient) := by
        obtain ⟨_, h1, h2, h3, h4, h5, h6, h7, _⟩ := hm
        rw [C16T_newClient_switch.2.1]; simp [*]
      have hx : "xyz" ∉ labelsNodes (parse Gen.skeleton_NewClient) := by
        rw [C16T_newClient_switch.2.1]; decide
      have hxyz := C16T_newClient_source_effect (some "xyz") (by simp [clientSchemeCases]) a
      unfold clientEffect at hxyz ⊢
      simp only [Option.getD_some] at hxyz ⊢
      rw [execCondT_kind_irrel _ s "xyz" _ hne hx, clientCond_some s "xyz", hxyz,
        expectedClientEffect_unknown s a (by
          obtain ⟨_, h1, h2, h3, h4, h5, h6, h7, _⟩ := hm
          simp [Spec.Config.clientSchemes, *])]

/-- (3)+(4): for every configuration, the effect the kernel computes from the current source of
    `NewClient` is (the rendering of) a typed effect whose application to the copied configuration
    is exactly the model's `newClient` -/
theorem C16T_newClient_source_computes_model (c : ClientConf) :
    ∃ e : TEffect CField,
      clientEffect Gen.skeleton_NewClient (schemeOfURL c.url) (absClient c) = some (renderClient e) ∧
      interpClient e c = some (newClient c) :=
  ⟨_, C16T_newClient_source_effect_all _ _, C16T_newClient_agrees c⟩

/-! ### the refused object, for every configuration -/

theorem applyClientSets_keeps_type {rest : Option String} {l : List (CField × Val)} {o o' : ClientObj}
    (h : applyClientSets rest l o = some o') (hl : ∀ p ∈ l, p.1 ≠ .transportType) :
    o'.transportType = o.transportType := by
  induction l generalizing o with
  | nil => simp [applyClientSets] at h; rw [← h]
  | cons p ps ih =>
    rw [applyClientSets] at h
    cases h1 : applyClientSet rest o p with
    | none => simp [h1] at h
    | some o1 =>
      rw [h1] at h
      have := ih h (fun q hq => hl q (List.mem_cons_of_mem _ hq))
      rw [this]
      have hp := hl p (List.mem_cons_self ..)
      obtain ⟨f, v⟩ := p
      cases f <;> cases v <;> simp [applyClientSet] at h1 hp <;>
        first | (rw [← h1]) | (obtain ⟨r, _, h2⟩ := h1; rw [← h2])

theorem expectedClientEffect_refusal_sets (scheme : Option String) (a : AbsClient)
    (hr : (expectedClientEffect scheme a).refusal ≠ none) :
    ∀ p ∈ (expectedClientEffect scheme a).sets, p.1 ≠ .transportType := by
  obtain ⟨b1, b2, b3, b4, b5, b6, b7⟩ := a
  unfold expectedClientEffect at hr ⊢
  cases scheme with
  | none => simp
  | some s =>
    simp only at hr ⊢
    repeat' split at hr
    all_goals first
      | (exfalso; exact hr rfl)
      | (cases b5 <;> simp_all [dflt])

/-- for EVERY configuration: the object a refused `NewClient` returns next to the error still has
    transport type 0 -/
theorem C16T_refused_client_object (c : ClientConf) (e : Err) (h : newClient c = .error e) :
    ∃ o, applyClientSets ((splitScheme c.url).map (·.2))
           (expectedClientEffect (schemeOfURL c.url) (absClient c)).sets (clientObj0 c) = some o ∧
         o.transportType = 0 := by
  have hag := C16T_newClient_agrees c
  unfold interpClient at hag
  rw [h] at hag
  cases ha : applyClientSets ((splitScheme c.url).map (·.2))
           (expectedClientEffect (schemeOfURL c.url) (absClient c)).sets (clientObj0 c) with
  | none => simp [ha] at hag
  | some o =>
    refine ⟨o, rfl, ?_⟩
    rw [ha] at hag
    have hr : (expectedClientEffect (schemeOfURL c.url) (absClient c)).refusal ≠ none := by
      intro hn
      simp only [hn] at hag
      cases hk : clientStateOf o <;> simp [hk] at hag
    rw [applyClientSets_keeps_type ha (expectedClientEffect_refusal_sets _ _ hr)]
    rfl

/-! ## NewServer -/

/-- the booleans `NewServer`'s conditions test. `restEmpty`: the URL AFTER the replacement by the
    part behind "://" (the whole URL when there is no "://") is empty. -/
structure AbsServer where
  restEmpty   : Bool
  timeout0    : Bool
  maxClients0 : Bool
  certNil     : Bool
  casNil      : Bool
  deriving DecidableEq, Repr

/-- condition table of `NewServer`. The empty-URL test is answered by `restEmpty` only when the
    URL field was replaced exactly when there is a scheme. -/
def serverCond (scheme : Option String) (a : AbsServer) (tr : List Tok) (s : String) : Option Bool :=
  if s == "len(splitURL) == 2" then splitKnown "ms.conf.URL" tr scheme.isSome
  else if s == "ms.conf.URL == \"\"" then
    (if assigned tr "ms.conf.URL" == scheme.isSome then some a.restEmpty else none)
  else if s == "ms.conf.Timeout == 0" then fresh tr "ms.conf.Timeout" a.timeout0
  else if s == "ms.conf.MaxClients == 0" then fresh tr "ms.conf.MaxClients" a.maxClients0
  else if s == "ms.conf.TLSServerCert == nil" then fresh tr "ms.conf.TLSServerCert" a.certNil
  else if s == "ms.conf.TLSClientCAs == nil" then fresh tr "ms.conf.TLSClientCAs" a.casNil
  else none

def serverEffect (toks : List Tok) (scheme : Option String) (a : AbsServer) : Option Effect :=
  (execCondT toks (scheme.getD "") (serverCond scheme a)).map (effectOf 3 ["ms.logger"])

inductive SField | url | timeout | maxClients | transportType
  deriving DecidableEq, Repr

def SField.name : SField → String
  | .url => "ms.conf.URL" | .timeout => "ms.conf.Timeout" | .maxClients => "ms.conf.MaxClients"
  | .transportType => "ms.transportType"

/-- What the MODEL `Config.newServer` says: URL := rest when there is a scheme; empty rest refused
    BEFORE the scheme is looked at; tcp and tcp+tls default the idle timeout to 120 s and the
    client limit to 10; tcp+tls needs certificate and client CAs (tested after the defaults);
    every other scheme (and no scheme) is refused. -/
def expectedServerEffect (scheme : Option String) (a : AbsServer) : TEffect SField :=
  let pre : List (SField × Val) := if scheme.isSome then [(.url, .rest)] else []
  let dfl : List (SField × Val) :=
    dflt a.timeout0 .timeout (120 * second) ++ dflt a.maxClients0 .maxClients 10
  let no (mid : List (SField × Val)) : TEffect SField :=
    { typeVar := scheme.isSome, sets := pre ++ mid, refusal := some .configuration }
  let ok (k : Kind) : TEffect SField :=
    { typeVar := scheme.isSome, sets := pre ++ dfl ++ [(.transportType, .nat (kindNum k))], refusal := none }
  if a.restEmpty then no []
  else match scheme with
    | none => no []
    | some s =>
      if s = "tcp" then ok .tcp
      else if s = "tcp+tls" then
        if a.certNil then no dfl else if a.casNil then no dfl else ok .tcpTls
      else no []

/-- the composite literal `&ModbusServer{ conf: *conf, handler: reqHandler, }` is longer than the
    translator keeps verbatim, it appears as "_" -/
def serverHead : List Tok :=
  [("assign", "ms", ["_"]),
   ("call", "strings.SplitN", ["ms.conf.URL", "\"://\"", "2"]),
   ("bind", "strings.SplitN", ["splitURL"])]

def renderServer (e : TEffect SField) : Effect :=
  e.render serverHead SField.name "serverType" ["newLogger", "fmt.Sprintf"]

def serverSchemeCases : List (Option String) :=
  [none, some "", some "tcp", some "tcp+tls", some "udp", some "default", some "xyz"]

def serverCheck (toks : List Tok) : Bool :=
  decide (∀ s ∈ serverSchemeCases, ∀ b1 b2 b3 b4 b5 : Bool,
    serverEffect toks s ⟨b1, b2, b3, b4, b5⟩ =
      some (renderServer (expectedServerEffect s ⟨b1, b2, b3, b4, b5⟩)))

theorem C16T_newServer_check : serverCheck Gen.skeleton_NewServer = true := by decide +kernel

/-- (5) the effect computed from the CURRENT source of `NewServer` is the one the model predicts -/
theorem C16T_newServer_source_effect :
    ∀ s ∈ serverSchemeCases, ∀ a : AbsServer,
      serverEffect Gen.skeleton_NewServer s a = some (renderServer (expectedServerEffect s a)) := by
  intro s hs a
  obtain ⟨b1, b2, b3, b4, b5⟩ := a
  exact of_decide_eq_true C16T_newServer_check s hs b1 b2 b3 b4 b5

theorem C16T_newServer_switch :
    switchTags Gen.skeleton_NewServer = ["serverType"] ∧
    labelsNodes (parse Gen.skeleton_NewServer) = ["tcp", "tcp+tls", "default"] ∧
    paramsOf Gen.skeleton_NewServer = some ["conf", "reqHandler"] := by decide +kernel

/-- a refused `NewServer` never executed `ms.transportType = …` (so `Start` on the object returned
    with the error runs into its `default:` → ErrConfigurationError), a successful one did -/
theorem C16T_refused_server_has_no_transport_type :
    ∀ s ∈ serverSchemeCases, ∀ a : AbsServer, ∀ e, serverEffect Gen.skeleton_NewServer s a = some e →
      (e.err = some "ErrConfigurationError" ∨ e.err = none) ∧
      (e.err = some "ErrConfigurationError" → e.setsField "ms.transportType" = false) ∧
      (e.err = none → e.setsField "ms.transportType" = true) := by
  intro s hs a e he
  rw [C16T_newServer_source_effect s hs a] at he
  cases he
  obtain ⟨b1, b2, b3, b4, b5⟩ := a
  revert s b1 b2 b3 b4 b5
  decide +kernel

structure ServerObj where
  url           : String
  timeoutNs     : Nat
  maxClients    : Nat
  transportType : Nat
  deriving DecidableEq, Repr

/-- `ms = &ModbusServer{ conf: *conf, handler: reqHandler }` -/
def serverObj0 (c : ServerConf) : ServerObj :=
  { url := c.url, timeoutNs := c.timeoutNs, maxClients := c.maxClients, transportType := 0 }

def applyServerSet (rest : Option String) (o : ServerObj) : SField × Val → Option ServerObj
  | (.url, .rest) => rest.map (fun r => { o with url := r })
  | (.timeout, .nat n) => some { o with timeoutNs := n }
  | (.maxClients, .nat n) => some { o with maxClients := n }
  | (.transportType, .nat n) => some { o with transportType := n }
  | _ => none

def applyServerSets (rest : Option String) : List (SField × Val) → ServerObj → Option ServerObj
  | [], o => some o
  | s :: ss, o => (applyServerSet rest o s).bind (applyServerSets rest ss)

/-- modbusTCP (4) ↦ plain, modbusTCPOverTLS (5) ↦ TLS; nothing else is a server transport -/
def serverStateOf (o : ServerObj) : Option ServerState :=
  if o.transportType = kindNum .tcp then
    some { tls := false, url := o.url, timeoutNs := o.timeoutNs, maxClients := o.maxClients }
  else if o.transportType = kindNum .tcpTls then
    some { tls := true, url := o.url, timeoutNs := o.timeoutNs, maxClients := o.maxClients }
  else none

def interpServer (e : TEffect SField) (c : ServerConf) : Option (Except Err ServerState) :=
  match applyServerSets ((splitScheme c.url).map (·.2)) e.sets (serverObj0 c) with
  | none => none
  | some o =>
    match e.refusal with
    | some err => some (.error err)
    | none => (serverStateOf o).map .ok

def absServer (c : ServerConf) : AbsServer :=
  { restEmpty := (match splitScheme c.url with | some (_, b) => b | none => c.url) == ""
    timeout0 := c.timeoutNs == 0, maxClients0 := c.maxClients == 0
    certNil := !c.hasCert, casNil := !c.hasCAs }

theorem C16T_newServer_agrees (c : ServerConf) :
    interpServer (expectedServerEffect (schemeOfURL c.url) (absServer c)) c = some (newServer c) := by
  unfold interpServer schemeOfURL newServer absServer
  cases hs : splitScheme c.url with
  | none =>
    by_cases hu : c.url = "" <;>
      simp [expectedServerEffect, applyServerSets, hu]
  | some p =>
    obtain ⟨scheme, rest⟩ := p
    by_cases hr : rest = ""
    · simp [expectedServerEffect, applyServerSets, applyServerSet, hr]
    · by_cases h1 : scheme = "tcp"
      · subst h1
        by_cases h5 : c.timeoutNs = 0 <;> by_cases h6 : c.maxClients = 0 <;>
        simp [expectedServerEffect, applyServerSets, applyServerSet, serverObj0, serverStateOf, dflt,
              kindNum, orDefault, *]
      · by_cases h2 : scheme = "tcp+tls"
        · subst h2
          by_cases h5 : c.timeoutNs = 0 <;> by_cases h6 : c.maxClients = 0 <;>
          cases h7 : c.hasCert <;> cases h8 : c.hasCAs <;>
          simp [expectedServerEffect, applyServerSets, applyServerSet, serverObj0, serverStateOf, dflt,
                kindNum, orDefault, *]
        · simp [expectedServerEffect, applyServerSets, applyServerSet, *]

theorem serverCond_some (s s' : String) (a : AbsServer) :
    serverCond (some s) a = serverCond (some s') a := rfl

theorem expectedServerEffect_unknown (s : String) (a : AbsServer)
    (h : s ∉ Spec.Config.serverSchemes) :
    expectedServerEffect (some s) a = expectedServerEffect (some "xyz") a := by
  simp only [Spec.Config.serverSchemes, List.mem_cons, List.not_mem_nil, or_false, not_or] at h
  obtain ⟨h1, h2⟩ := h
  simp [expectedServerEffect, *]

theorem C16T_newServer_source_effect_all (scheme : Option String) (a : AbsServer) :
    serverEffect Gen.skeleton_NewServer scheme a = some (renderServer (expectedServerEffect scheme a)) := by
  by_cases hm : scheme ∈ serverSchemeCases
  · exact C16T_newServer_source_effect _ hm a
  · cases scheme with
    | none => exact absurd (by simp [serverSchemeCases]) hm
    | some s =>
      simp only [serverSchemeCases, List.mem_cons, Option.some.injEq, List.not_mem_nil, or_false,
        not_or, reduceCtorEq, false_or] at hm
      obtain ⟨_, h1, h2, _, h3, _⟩ := hm
      have hne : s ∉ labelsNodes (parse Gen.skeleton_NewServer) := by
        rw [C16T_newServer_switch.2.1]; simp [*]
      have hx : "xyz" ∉ labelsNodes (parse Gen.skeleton_NewServer) := by
        rw [C16T_newServer_switch.2.1]; decide
      have hxyz := C16T_newServer_source_effect (some "xyz") (by simp [serverSchemeCases]) a
      unfold serverEffect at hxyz ⊢
      simp only [Option.getD_some] at hxyz ⊢
      rw [execCondT_kind_irrel _ s "xyz" _ hne hx, serverCond_some s "xyz", hxyz,
        expectedServerEffect_unknown s a (by simp [Spec.Config.serverSchemes, *])]

theorem C16T_newServer_source_computes_model (c : ServerConf) :
    ∃ e : TEffect SField,
      serverEffect Gen.skeleton_NewServer (schemeOfURL c.url) (absServer c) = some (renderServer e) ∧
      interpServer e c = some (newServer c) :=
  ⟨_, C16T_newServer_source_effect_all _ _, C16T_newServer_agrees c⟩

/-! ## SetEncoding, SetUnitId -/

/-- both setters start with `mc.lock.Lock()` and `defer mc.lock.Unlock()` -/
def setterHead : List Tok := [("call", "mc.lock.Lock", []), ("defer", "mc.lock.Unlock", [])]

/-- the two conditions of `SetEncoding`, evaluated from the numeric arguments with the constants
    looked up in the generated facts (`none` when a constant is missing) -/
def encCond (e w : Nat) (s : String) : Option Bool :=
  if s == "endianness != BIG_ENDIAN && endianness != LITTLE_ENDIAN" then
    match constNat "BIG_ENDIAN", constNat "LITTLE_ENDIAN" with
    | some b, some l => some (e != b && e != l)
    | _, _ => none
  else if s == "wordOrder != HIGH_WORD_FIRST && wordOrder != LOW_WORD_FIRST" then
    match constNat "HIGH_WORD_FIRST", constNat "LOW_WORD_FIRST" with
    | some h, some l => some (w != h && w != l)
    | _, _ => none
  else none

/-- the same table with the two outcomes given -/
def encCondB (badE badW : Bool) (s : String) : Option Bool :=
  if s == "endianness != BIG_ENDIAN && endianness != LITTLE_ENDIAN" then some badE
  else if s == "wordOrder != HIGH_WORD_FIRST && wordOrder != LOW_WORD_FIRST" then some badW
  else none

def setterEffect (toks : List Tok) (cond : String → Option Bool) : Option Effect :=
  (execCond toks "" cond).map (effectOf 2 [])

def encEffect (toks : List Tok) (e w : Nat) : Option Effect := setterEffect toks (encCond e w)

def renderSetter (e : TEffect CField) : Effect := e.render setterHead CField.name "" []

/-- What the MODEL `Config.setEncoding` says: refusal (nothing assigned) when the endianness is not
    one of the two selectors, else when the word order is not; otherwise both fields are assigned
    the arguments. -/
def expectedEncEffect (badE badW : Bool) : TEffect CField :=
  if badE then { typeVar := false, sets := [], refusal := some .unexpectedParameters }
  else if badW then { typeVar := false, sets := [], refusal := some .unexpectedParameters }
  else { typeVar := false, refusal := none
         sets := [(.endianness, .param "endianness"), (.wordOrder, .param "wordOrder")] }

def expectedUnitIdEffect : TEffect CField :=
  { typeVar := false, sets := [(.unitId, .param "id")], refusal := none }

theorem C16T_setEncoding_source_effect :
    (∀ badE badW : Bool,
      setterEffect Gen.skeleton_ModbusClient_SetEncoding (encCondB badE badW) =
        some (renderSetter (expectedEncEffect badE badW))) ∧
    paramsOf Gen.skeleton_ModbusClient_SetEncoding = some ["endianness", "wordOrder"] ∧
    switchTags Gen.skeleton_ModbusClient_SetEncoding = [] := by decide +kernel

/-- `SetUnitId`: no condition at all (the empty table suffices); under the lock with deferred
    unlock it assigns `mc.unitId = id` and returns without an error -/
theorem C16T_setUnitId_source_effect :
    setterEffect Gen.skeleton_ModbusClient_SetUnitId (fun _ => none) =
      some (renderSetter expectedUnitIdEffect) ∧
    paramsOf Gen.skeleton_ModbusClient_SetUnitId = some ["id"] ∧
    switchTags Gen.skeleton_ModbusClient_SetUnitId = [] := by decide +kernel

/-- the first two executed tokens of both setters are Lock and deferred Unlock -/
theorem C16T_setters_locked :
    (∀ badE badW : Bool, ∀ e,
      setterEffect Gen.skeleton_ModbusClient_SetEncoding (encCondB badE badW) = some e →
        e.head = [("call", "mc.lock.Lock", []), ("defer", "mc.lock.Unlock", [])]) ∧
    (∀ e, setterEffect Gen.skeleton_ModbusClient_SetUnitId (fun _ => none) = some e →
        e.head = [("call", "mc.lock.Lock", []), ("defer", "mc.lock.Unlock", [])]) := by
  constructor
  · intro badE badW e he
    rw [C16T_setEncoding_source_effect.1 badE badW] at he
    cases he; rfl
  · intro e he
    rw [C16T_setUnitId_source_effect.1] at he
    cases he; rfl

/-- a setter's assignments applied to the model state; `env` gives the numeric arguments -/
def applyStateSet (env : String → Option Nat) (st : ClientState) : CField × Val → Option ClientState
  | (.endianness, .param p) => (env p).map fun n => { st with endian := endianOf n }
  | (.wordOrder, .param p) => (env p).map fun n => { st with word := wordOf n }
  | (.unitId, .param p) => (env p).map fun n => { st with unitId := BitVec.ofNat 8 n }
  | _ => none

def applyStateSets (env : String → Option Nat) : List (CField × Val) → ClientState → Option ClientState
  | [], st => some st
  | s :: ss, st => (applyStateSet env st s).bind (applyStateSets env ss)

def interpSetter (env : String → Option Nat) (e : TEffect CField) (st : ClientState) :
    Option (Except Err ClientState) :=
  match e.refusal with
  | some err => if e.sets = [] then some (.error err) else none
  | none => (applyStateSets env e.sets st).map .ok

def encEnv (e w : Nat) (p : String) : Option Nat :=
  if p = "endianness" then some e else if p = "wordOrder" then some w else none

def badSel (x : Nat) : Bool := x != 1 && x != 2

theorem encCond_eq (e w : Nat) : encCond e w = encCondB (badSel e) (badSel w) := by
  have h1 : constNat "BIG_ENDIAN" = some 1 := C16T_constants.2.2.2.2.2.2.1
  have h2 : constNat "LITTLE_ENDIAN" = some 2 := C16T_constants.2.2.2.2.2.2.2.1
  have h3 : constNat "HIGH_WORD_FIRST" = some 1 := C16T_constants.2.2.2.2.2.2.2.2.1
  have h4 : constNat "LOW_WORD_FIRST" = some 2 := C16T_constants.2.2.2.2.2.2.2.2.2.1
  funext s
  simp only [encCond, encCondB, h1, h2, h3, h4, badSel]

/-- (6) for ALL argument values: the effect of `SetEncoding`'s current source, with its two
    conditions evaluated on the arguments, is a typed effect whose application to the state is the
    model's `setEncoding` (refusal with ErrUnexpectedParameters assigns NOTHING) -/
theorem C16T_setEncoding_agrees (st : ClientState) (e w : Nat) :
    encEffect Gen.skeleton_ModbusClient_SetEncoding e w =
      some (renderSetter (expectedEncEffect (badSel e) (badSel w))) ∧
    interpSetter (encEnv e w) (expectedEncEffect (badSel e) (badSel w)) st = some (setEncoding st e w) := by
  constructor
  · rw [encEffect, encCond_eq]
    exact C16T_setEncoding_source_effect.1 _ _
  · unfold expectedEncEffect setEncoding interpSetter badSel
    by_cases he1 : e = 1 <;> by_cases he2 : e = 2 <;> by_cases hw1 : w = 1 <;> by_cases hw2 : w = 2 <;>
      simp [applyStateSets, applyStateSet, encEnv, endianOf, wordOf, *] <;> omega

/-- `SetUnitId` for every id: the model's `setUnitId`, never refused -/
theorem C16T_setUnitId_agrees (st : ClientState) (id : Byte) :
    interpSetter (fun p => if p = "id" then some id.toNat else none) expectedUnitIdEffect st =
      some (.ok (setUnitId st id)) := by
  simp [interpSetter, expectedUnitIdEffect, applyStateSets, applyStateSet, setUnitId]

/-! ## sensitivity: modified skeletons are rejected -/

def replaceTok (old new : Tok) (l : List Tok) : List Tok := l.map (fun t => if t == old then new else t)
def removeFrom (start : Tok) (n : Nat) (l : List Tok) : List Tok :=
  let i := l.findIdx (· == start)
  l.take i ++ l.drop (i + n)
def insertAfter (after : Tok) (ins : List Tok) (l : List Tok) : List Tok :=
  let i := l.findIdx (· == after)
  l.take (i + 1) ++ ins ++ l.drop (i + 1)

/-- the rtu timeout default changed from 300 ms to 1 s -/
def mutRtuTimeout : List Tok :=
  replaceTok ("set", "mc.conf.Timeout", ["300 * time.Millisecond", "300000000"])
             ("set", "mc.conf.Timeout", ["1 * time.Second", "1000000000"]) Gen.skeleton_NewClient

/-- the tcp+tls test for the root CAs removed (`if … == nil { err = …; return }`: 4 tokens) -/
def mutNoRootsCheck : List Tok :=
  removeFrom ("if", "mc.conf.TLSRootCAs == nil", []) 4 Gen.skeleton_NewClient

/-- an additional statement with a condition the table does not know -/
def mutExtraCond : List Tok :=
  insertAfter ("bind", "strings.SplitN", ["splitURL"])
    [("if", "mc.conf.Speed > 115200", []), ("set", "mc.conf.Speed", ["115200", "115200"]), ("end", "", [])]
    Gen.skeleton_NewClient

/-- the transport type assigned BEFORE the tcp+tls credential tests (a refused client would keep it) -/
def mutEarlyTransportType : List Tok :=
  insertAfter ("case", "", ["tcp+tls"]) [("set", "mc.transportType", ["modbusTCPOverTLS", "5"])]
    (removeFrom ("set", "mc.transportType", ["modbusTCPOverTLS", "5"]) 1 Gen.skeleton_NewClient)

/-- the server's empty-host test removed -/
def mutServerNoHostCheck : List Tok :=
  removeFrom ("if", "ms.conf.URL == \"\"", []) 4 Gen.skeleton_NewServer

/-- the server's client limit default changed to 100 -/
def mutServerMaxClients : List Tok :=
  replaceTok ("set", "ms.conf.MaxClients", ["10", "10"]) ("set", "ms.conf.MaxClients", ["100", "100"])
    Gen.skeleton_NewServer

/-- SetEncoding without the word order test -/
def mutEncNoWordCheck : List Tok :=
  removeFrom ("if", "wordOrder != HIGH_WORD_FIRST && wordOrder != LOW_WORD_FIRST", []) 4
    Gen.skeleton_ModbusClient_SetEncoding

/-- SetUnitId without the lock -/
def mutUnitIdNoLock : List Tok :=
  removeFrom ("call", "mc.lock.Lock", []) 2 Gen.skeleton_ModbusClient_SetUnitId

example : clientCheck mutRtuTimeout = false :=
  clientCheck_false_of_sub [some "rtu"] (by decide) (by decide +kernel)
example : clientEffect mutRtuTimeout (some "rtu") ⟨false, false, false, false, true, false, false⟩ ≠
    clientEffect Gen.skeleton_NewClient (some "rtu") ⟨false, false, false, false, true, false, false⟩ := by
  decide +kernel

example : clientCheck mutNoRootsCheck = false :=
  clientCheck_false_of_sub [some "tcp+tls"] (by decide) (by decide +kernel)
/-- without the test, tcp+tls without roots is accepted: no error, transport type 5 assigned -/
example : (clientEffect mutNoRootsCheck (some "tcp+tls") ⟨false, false, false, false, false, false, true⟩).map
    (fun e => (e.err, e.setsField "mc.transportType")) = some (none, true) := by decide +kernel
example : (clientEffect Gen.skeleton_NewClient (some "tcp+tls") ⟨false, false, false, false, false, false, true⟩).map
    (fun e => (e.err, e.setsField "mc.transportType")) = some (some "ErrConfigurationError", false) := by
  decide +kernel

example : clientCheck mutExtraCond = false := by decide +kernel
example : clientEffect mutExtraCond (some "tcp") ⟨false, false, false, false, false, false, false⟩ = none := by
  decide +kernel

example : clientCheck mutEarlyTransportType = false :=
  clientCheck_false_of_sub [some "tcp+tls"] (by decide) (by decide +kernel)

example : serverCheck mutServerNoHostCheck = false := by decide +kernel
example : serverCheck mutServerMaxClients = false := by decide +kernel

example : (∀ badE badW : Bool, setterEffect mutEncNoWordCheck (encCondB badE badW) =
    some (renderSetter (expectedEncEffect badE badW))) = False := by
  simp only [eq_iff_iff, iff_false]; decide +kernel
example : setterEffect mutUnitIdNoLock (fun _ => none) ≠ some (renderSetter expectedUnitIdEffect) := by
  decide +kernel

/-- the field-freshness guard: a condition on a field that was already assigned is not answered -/
example : clientEffect
    (insertAfter ("bind", "strings.SplitN", ["splitURL"]) [("set", "mc.conf.Timeout", ["0", "0"])]
      Gen.skeleton_NewClient)
    (some "tcp") ⟨false, false, false, false, false, false, false⟩ = none := by decide +kernel

#print axioms Skel.execCondT_kind_irrel
#print axioms C16T_newClient_check
#print axioms C16T_newClient_source_effect
#print axioms C16T_newClient_switch
#print axioms C16T_constants
#print axioms C16T_refused_client_has_no_transport_type
#print axioms C16T_newClient_agrees
#print axioms C16T_newClient_source_effect_all
#print axioms C16T_newClient_source_computes_model
#print axioms C16T_refused_client_object
#print axioms C16T_newServer_check
#print axioms C16T_newServer_source_effect
#print axioms C16T_newServer_switch
#print axioms C16T_refused_server_has_no_transport_type
#print axioms C16T_newServer_agrees
#print axioms C16T_newServer_source_effect_all
#print axioms C16T_newServer_source_computes_model
#print axioms C16T_setEncoding_source_effect
#print axioms C16T_setUnitId_source_effect
#print axioms C16T_setters_locked
#print axioms C16T_setEncoding_agrees
#print axioms C16T_setUnitId_agrees
#print axioms clientCheck_false_of_sub

end Modbus.Props.C16
