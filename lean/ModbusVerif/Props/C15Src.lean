import ModbusVerif.Lemmas.GoEvalRoleLemmas
import ModbusVerif.Lemmas.GoEvalTransportLemmas
import ModbusVerif.Props.C15
/-
  C15, source tie: `(*ModbusServer).extractRole` of the CURRENT server.go, as rendered by the
  translator (`Gen.gs_ModbusServer_extractRole`, regenerated from /repo on every run), is EVALUATED
  by `Modbus.GoEval` for EVERY list of extensions — any length (within Go's `int`), any mix of role
  and other extensions, any value bytes — and related to the hand-written model `Role.roleLoop` /
  `Role.extractRole` (Model/Role.lean) and, through `C15_eq_spec`, to the specification
  `Spec.roleOf` (Spec/RoleSpec.lean).

  What is evaluated (`C15S_instr`): `GoEval.rGs` = the generated term with three instrumentations,
  each removed again by its `strip…` function (nothing else differs from the generated term):
    * `withProbes … "#ext" "#i"`: the loop `for _, ext := range cert.Extensions` is rendered as a
      counted loop (`#len(cert.Extensions)`, `#i`, `ext := cert.Extensions[#i]`). Leaves are keyed by
      their TEXT; the leaves of the current extension — `cert.Extensions[#i]`,
      `ext.Id.Equal(modbusRoleOID)`, `len(ext.Value)`, `ext.Value[0]`, `ext.Value` — are re-bound at
      the head of every round from the list of extensions and the VALUE of `#i` (one pseudo-call
      `#ext(#i)`, logged: the log shows which extensions are inspected). These are exactly the
      leaves `staleReads` reports plus the indexed one (`C15S_static`). `ext.Value[0]` of an EMPTY
      value is bound to `unk` = absent (the Go index expression panics): a condition that needs it
      is stuck.
    * out-parameter of `rest, err = asn1.Unmarshal(ext.Value, &role)`: the translator renders `&role`
      as an opaque argument leaf; the write through the pointer is not in the term. `withOut` adds
      the targets `len(rest)` and `role` to that call, `withRecv` passes the current `role` in: the
      oracle answers `[rest, err, len(rest), role']`, computed by the model's
      `Role.unmarshalChecked` on the value bytes of the extension (`unmRow`): on success
      `[rest, nil, |rest|, decoded string]`, on a Go error `[nil, err, 0, role unchanged]`; any other
      fault of the model (panic / fuel / outside the modelled fragment) is NOT answered — the run
      would stop at the call; `C15S_no_panic` shows it never does (the call is only made behind
      `len(ext.Value) >= 2 && ext.Value[0] == 0x0c`, where the model has no such fault).
  Values: an extension / its value is denoted by its index; a string by `encRole` (injective:
  `C15S_encRole_inj`; `encRole "operator"` is the symbol `operator`); `""` is `encRole []`.

  * `C15S_loop`: from ANY entry environment (`RoleEntry`: the length leaf, zero values of the
    locals), any call history, every fuel ≥ len + 20: the run RETURNS; `found`, `badCert` and the
    returned `role` are those of `Role.roleLoop` on the list (`""` when `badCert`), the returned role
    is `Role.extractRole exts`; the calls are `roleTrace`. `C15S_loop_exit`: the state at the loop
    exit, before the blanking.
    One round, case by case, from any environment (GoEvalRoleLemmas): `role_round_other` (not a role
    extension: next index), `role_round_dup` (`found` already set — whatever `role` is — : `badCert`,
    break), `role_round_short` (`len(ext.Value) < 2`: `badCert`, break; `ext.Value[0]` may be absent,
    the `||` short-circuits), `role_round_tag` (first byte ≠ 0x0c), `role_round_err` (`err != nil`),
    `role_round_trail` (`len(rest) != 0`), `role_round_ok` (role set, loop goes on), `role_round_end`.
  * `C15S_break_at_once`: once `badCert` is set no later extension is inspected (the calls are
    those of the prefix; every probed index lies in the prefix).
  * `C15S_returns`, `C15S_eq_spec`: the returned role is `Role.extractRole exts` = `Spec.roleOf exts`;
    `C15S_faithful`, `C15S_empty_otherwise` and the named cases (`C15S_absent`, `C15S_duplicated`,
    `C15S_other_tag`, `C15S_malformed`, `C15S_trailing_bytes`, `C15S_invalid_utf8`).
  * `C15S_no_panic`: no list of extensions, no fuel makes the run stuck or stop at a call.
  * sensitivity (variants DERIVED from the instrumented generated term by `mapCond`):
    `C15S_sensitive_dupByRole` (duplicate test keyed on `role != ""`, a previously seeded bug: first
    role = empty string), `C15S_sensitive_noTrailing` (without the `len(rest) != 0` test, the state
    before an earlier repair), `C15S_sensitive_noLenGuard` (without `len(ext.Value) < 2 ||` the empty
    value is stuck: the Go panic), `C15S_sensitive_noProbe`.

  Not derived from the generated term:
  * `len(cert.Extensions)` = `exts.length`, the leaves of the k-th extension (probe oracle
    `extAnswer`), in particular `ext.Id.Equal(modbusRoleOID)` = `decide (e.id = Role.modbusRoleOID)`
    (the value of the Go variable `modbusRoleOID` is tied by `Tie/C15.lean` `fp_var_modbusRoleOID`);
  * what `asn1.Unmarshal` does (`Role.unmarshalChecked`, transcribed from encoding/asn1; Props/C15)
    and that it writes `role` only on success;
  * `exts.length < 2^63`: `len(cert.Extensions)` is a Go `int`;
  * logging statements are dropped by the translator.
-/
set_option linter.unusedSimpArgs false
set_option linter.unusedVariables false
set_option maxRecDepth 100000

namespace Modbus.Props.C15
open Modbus Modbus.Gen Modbus.GoEval Modbus.Role Modbus.Spec

/-! ## the term that is evaluated -/

/-- `rGs` is the generated term with the three instrumentations; stripping them gives the generated
    term back; literally: bound, index, the loop `roleBody`, the blanking, `return`. `stripOut` /
    `stripRecv` undo `withOut` / `withRecv` on EVERY term. -/
theorem C15S_instr :
    rGs = withOut "asn1.Unmarshal" ["len(rest)", "role"]
      (withRecv "asn1.Unmarshal" "role"
        (withProbes extLeaves "#ext" "#i" gs_ModbusServer_extractRole)) ∧
    stripProbe "#ext" (stripRecv "asn1.Unmarshal" (stripOut "asn1.Unmarshal" 2 rGs)) =
      gs_ModbusServer_extractRole ∧
    rGs = roleWith (.loop roleBody) ∧
    (∀ callee outs s, stripOut callee outs.length (withOut callee outs s) = s) ∧
    (∀ callee recv s, stripRecv callee (withRecv callee recv s) = s) :=
  ⟨rfl, strip_rGs, rGs_eq, stripOut_withOut, stripRecv_withRecv⟩

/-- no opaque statement; one call (`asn1.Unmarshal`, targets `rest`, `err`); the compound leaves read
    after their base variable is assigned are exactly the ones the instrumentation re-binds
    (`len(rest)` by the call, the others by the probe) -/
theorem C15S_static :
    opaques gs_ModbusServer_extractRole = [] ∧
    callTextsOf gs_ModbusServer_extractRole =
      [("asn1.Unmarshal", [some "ext.Value", some "&role"])] ∧
    (bindCalls gs_ModbusServer_extractRole).map (·.1) = [["rest", "err"]] ∧
    staleReads gs_ModbusServer_extractRole =
      ["ext.Id.Equal(modbusRoleOID)", "len(ext.Value)", "ext.Value[0]", "ext.Value", "len(rest)"] ∧
    extLeaves = ["cert.Extensions[#i]", "ext.Id.Equal(modbusRoleOID)", "len(ext.Value)",
      "ext.Value[0]", "ext.Value"] := by
  refine ⟨by decide +kernel, by decide +kernel, by decide +kernel, by decide +kernel, rfl⟩

/-- strings are embedded injectively -/
theorem C15S_encRole_inj (s t : Bytes) (h : encRole s = encRole t) : s = t := encRole_inj h

/-! ## 1. the loop = `Role.roleLoop` -/

/-- `extractRole` of the model in terms of its loop -/
theorem extractRole_of_roleLoop (exts : List Ext) (st : St) (h : roleLoop exts st0 = .ok st) :
    Role.extractRole exts = if st.badCert then [] else st.role := by
  have h' : roleLoop exts { role := [], found := false, badCert := false } = .ok st := h
  simp only [Role.extractRole, extractRoleChecked, h']

/-- **the evaluated source = the model's loop**, for every list of extensions. From any entry
    environment and call history, every fuel ≥ len + 20: the run RETURNS (not stuck, not stopped);
    `st` being the final state of `Role.roleLoop` (which exists: the model's loop has no fault),
    the final `found` and `badCert` are `st.found`, `st.badCert`; the returned `role` is `st.role`,
    blanked when `badCert`; that is `Role.extractRole exts`; the calls are `roleTrace 0 exts st0`. -/
theorem C15S_loop (exts : List Ext) (hn : exts.length < 2^63) (env : Env) (cs : Calls)
    (he : RoleEntry exts env) (fuel : Nat) (hf : exts.length + 20 ≤ fuel) :
    ∃ st env', roleLoop exts st0 = .ok st ∧
      execFrom (roleOracle exts) fuel rGs env cs = ⟨env', .returned, cs ++ roleTrace 0 exts st0⟩ ∧
      Env.read? env' "found" = some (Val.ofBool st.found) ∧
      Env.read? env' "badCert" = some (Val.ofBool st.badCert) ∧
      Env.read? env' "role" = some (encRole (if st.badCert then [] else st.role)) ∧
      Env.read? env' "role" = some (encRole (Role.extractRole exts)) := by
  obtain ⟨envL, st, hm, hout, hrun⟩ := role_run exts hn env cs he fuel hf
  refine ⟨st, _, hm, hrun, ?_, ?_, ?_, ?_⟩
  · cases hb : st.badCert
    · simp only [Bool.false_eq_true, ↓reduceIte]; exact hout.hfound
    · simp only [↓reduceIte, read?_write, String.reduceEq]; exact hout.hfound
  · cases hb : st.badCert
    · simp only [Bool.false_eq_true, ↓reduceIte]; rw [← hb]; exact hout.hbad
    · simp only [↓reduceIte, read?_write, String.reduceEq]; rw [← hb]; exact hout.hbad
  · cases hb : st.badCert
    · simp only [Bool.false_eq_true, ↓reduceIte]; exact hout.hrole
    · simp only [↓reduceIte, read?_write]
  · rw [extractRole_of_roleLoop exts st hm]
    cases hb : st.badCert
    · simp only [Bool.false_eq_true, ↓reduceIte]; exact hout.hrole
    · simp only [↓reduceIte, read?_write]

/-- the state at the loop exit (before `if badCert { role = "" }`): bound, index and loop fall
    through with `found`, `badCert`, `role` as `Role.roleLoop` leaves them -/
theorem C15S_loop_exit (exts : List Ext) (hn : exts.length < 2^63) (env : Env) (cs : Calls)
    (he : RoleEntry exts env) (fuel : Nat) (hf : exts.length + 19 ≤ fuel) :
    ∃ st envL, roleLoop exts st0 = .ok st ∧
      execFrom (roleOracle exts) fuel (roleLoopPart (.loop roleBody)) env cs =
        ⟨envL, .fell, cs ++ roleTrace 0 exts st0⟩ ∧
      Env.read? envL "found" = some (Val.ofBool st.found) ∧
      Env.read? envL "badCert" = some (Val.ofBool st.badCert) ∧
      Env.read? envL "role" = some (encRole st.role) := by
  obtain ⟨envL, st, hm, hrun, hout⟩ := role_loop_part exts hn env cs he fuel hf
  exact ⟨st, envL, hm, hrun, hout.hfound, hout.hbad, hout.hrole⟩

/-- **after `badCert` the loop breaks at once.** If the model's loop sets `badCert` on a prefix `l`
    of the extensions, the calls of the run on `l ++ post` are those for `l` alone, whatever `post`
    is, and every index probed (= every extension whose leaves are bound) lies in `l`: the
    extensions after the offending one are not inspected. -/
theorem C15S_break_at_once (l post : List Ext) (st : St) (hl : roleLoop l st0 = .ok st)
    (hb : st.badCert = true) (hn : (l ++ post).length < 2^63) (env : Env) (cs : Calls)
    (he : RoleEntry (l ++ post) env) (fuel : Nat) (hf : (l ++ post).length + 20 ≤ fuel) :
    (execFrom (roleOracle (l ++ post)) fuel rGs env cs).calls = cs ++ roleTrace 0 l st0 ∧
    (execFrom (roleOracle (l ++ post)) fuel rGs env cs).how = .returned ∧
    ∀ j, probeCall j ∈ roleTrace 0 l st0 → j < l.length := by
  obtain ⟨st', env', _, hrun, _⟩ := C15S_loop (l ++ post) hn env cs he fuel hf
  obtain ⟨h1, h2⟩ := roleTrace_of_bad l 0 st0 st post hl rfl hb
  refine ⟨by rw [hrun, h1], by rw [hrun], fun j hj => ?_⟩
  have := h2 j hj
  omega

/-! ## 2. the returned role = the model = the specification -/

/-- the run on the entry environment `roleEnv exts` (nothing bound but the length leaf, the zero
    values, `""`, `&role`) -/
def srcRun (exts : List Ext) (fuel : Nat) : Res := exec (roleOracle exts) fuel rGs (roleEnv exts)

/-- the role it returns -/
def srcRole (exts : List Ext) (fuel : Nat) : Val := Env.read (srcRun exts fuel).env "role"

/-- the evaluated source returns, and returns the role of the model -/
theorem C15S_returns (exts : List Ext) (hn : exts.length < 2^63) (fuel : Nat)
    (hf : exts.length + 20 ≤ fuel) :
    (srcRun exts fuel).how = .returned ∧ srcRole exts fuel = encRole (Role.extractRole exts) := by
  obtain ⟨st, env', _, hrun, _, _, _, hr⟩ := C15S_loop exts hn (roleEnv exts) [] (roleEnv_entry exts) fuel hf
  have hrun' : srcRun exts fuel = ⟨env', .returned, [] ++ roleTrace 0 exts st0⟩ := hrun
  refine ⟨by rw [hrun'], ?_⟩
  simp only [srcRole, hrun', Env.read, hr, Option.getD_some]

/-- **the evaluated source returns `Spec.roleOf` of the extension list** -/
theorem C15S_eq_spec (exts : List Ext) (hn : exts.length < 2^63) (fuel : Nat)
    (hf : exts.length + 20 ≤ fuel) :
    (srcRun exts fuel).how = .returned ∧ srcRole exts fuel = encRole (roleOf exts) := by
  rw [← C15_eq_spec]
  exact C15S_returns exts hn fuel hf

/-- the same from any entry environment and call history -/
theorem C15S_eq_spec' (exts : List Ext) (hn : exts.length < 2^63) (env : Env) (cs : Calls)
    (he : RoleEntry exts env) (fuel : Nat) (hf : exts.length + 20 ≤ fuel) :
    (execFrom (roleOracle exts) fuel rGs env cs).how = .returned ∧
    Env.read? (execFrom (roleOracle exts) fuel rGs env cs).env "role" = some (encRole (roleOf exts)) := by
  obtain ⟨st, env', _, hrun, _, _, _, hr⟩ := C15S_loop exts hn env cs he fuel hf
  rw [hrun, ← C15_eq_spec]
  exact ⟨rfl, hr⟩

/-- exactly one role extension, at any position, whose value is the DER UTF8String of a valid UTF-8
    string `s`: the source returns `s` -/
theorem C15S_faithful (exts : List Ext) (hn : exts.length < 2^63) (fuel : Nat)
    (hf : exts.length + 20 ≤ fuel) (s : Bytes) (h : HasRole exts s) :
    srcRole exts fuel = encRole s := by
  rw [(C15S_returns exts hn fuel hf).2, C15_faithful' exts s h]

/-- in every other case the source returns `""` -/
theorem C15S_empty_otherwise (exts : List Ext) (hn : exts.length < 2^63) (fuel : Nat)
    (hf : exts.length + 20 ≤ fuel) (h : ¬ ∃ s, HasRole exts s) :
    srcRole exts fuel = encRole [] := by
  rw [(C15S_returns exts hn fuel hf).2, C15_empty_otherwise exts h]

/-- absent -/
theorem C15S_absent (exts : List Ext) (hn : exts.length < 2^63) (fuel : Nat)
    (hf : exts.length + 20 ≤ fuel) (h : ∀ x ∈ exts, x.id ≠ roleOID) :
    srcRole exts fuel = encRole [] := by
  rw [(C15S_returns exts hn fuel hf).2, C15_absent exts h]

/-- duplicated: two or more role extensions, wherever they are, whatever their values -/
theorem C15S_duplicated (exts : List Ext) (hn : exts.length < 2^63) (fuel : Nat)
    (hf : exts.length + 20 ≤ fuel) (h : 2 ≤ (roleExts exts).length) :
    srcRole exts fuel = encRole [] := by
  rw [(C15S_returns exts hn fuel hf).2, C15_duplicated exts h]

/-- other string types / any other first octet, values shorter than 2 bytes -/
theorem C15S_other_tag (exts : List Ext) (hn : exts.length < 2^63) (fuel : Nat)
    (hf : exts.length + 20 ≤ fuel) (e : Ext) (he : roleExts exts = [e])
    (h : e.value.head? ≠ some 0x0c ∨ e.value.length < 2) :
    srcRole exts fuel = encRole [] := by
  rw [(C15S_returns exts hn fuel hf).2, C15_other_tag exts e he h]

/-- malformed encodings: whatever `asn1.Unmarshal` rejects, or accepts with bytes left over -/
theorem C15S_malformed (exts : List Ext) (hn : exts.length < 2^63) (fuel : Nat)
    (hf : exts.length + 20 ≤ fuel) (e : Ext) (he : roleExts exts = [e])
    (h : ∀ s, unmarshalUtf8String e.value ≠ .ok (s, [])) :
    srcRole exts fuel = encRole [] := by
  rw [(C15S_returns exts hn fuel hf).2, C15_malformed exts e he h]

/-- trailing bytes after a well-formed TLV -/
theorem C15S_trailing_bytes (exts : List Ext) (hn : exts.length < 2^63) (fuel : Nat)
    (hf : exts.length + 20 ≤ fuel) (e : Ext) (he : roleExts exts = [e]) (s extra : Bytes)
    (hval : e.value = derUTF8 s ++ extra) (hne : extra ≠ [])
    (hv : validUtf8 s = true) (hl : s.length < 2^31) :
    srcRole exts fuel = encRole [] := by
  rw [(C15S_returns exts hn fuel hf).2, C15_trailing_bytes exts e he s extra hval hne hv hl]

/-- invalid UTF-8 content in an otherwise well-formed TLV -/
theorem C15S_invalid_utf8 (exts : List Ext) (hn : exts.length < 2^63) (fuel : Nat)
    (hf : exts.length + 20 ≤ fuel) (e : Ext) (he : roleExts exts = [e]) (s : Bytes)
    (hval : e.value = derUTF8 s) (hv : validUtf8 s = false) (hl : s.length < 2^31) :
    srcRole exts fuel = encRole [] := by
  rw [(C15S_returns exts hn fuel hf).2, C15_invalid_utf8 exts e he s hval hv hl]

/-! ## 3. no panic -/

/-- **no list of extensions makes the run stuck**: for every fuel the run neither gets stuck (an
    absent index leaf `ext.Value[0]` / `cert.Extensions[#i]` needed by a condition, an integer
    panic) nor stops at a call the oracle does not answer (`asn1.Unmarshal` on a value for which
    the model has a fault other than a Go error); with fuel ≥ len + 20 it returns. The index
    leaves are only read behind their length tests: `cert.Extensions[#i]` behind
    `#i < #len(cert.Extensions)`, `ext.Value[0]` behind `len(ext.Value) < 2 ||`
    (`role_round_short` holds for ANY value of that leaf, `unk` included). -/
theorem C15S_no_panic (exts : List Ext) (hn : exts.length < 2^63) (env : Env) (cs : Calls)
    (he : RoleEntry exts env) (fuel : Nat) :
    (∀ t, (execFrom (roleOracle exts) fuel rGs env cs).how ≠ .stuckAt t) ∧
    (∀ f a, (execFrom (roleOracle exts) fuel rGs env cs).how ≠ .stoppedAt f a) ∧
    (exts.length + 20 ≤ fuel → (execFrom (roleOracle exts) fuel rGs env cs).how = .returned) := by
  have hbig : ∀ m, exts.length + 20 ≤ m →
      (execFrom (roleOracle exts) m rGs env cs).how = .returned := by
    intro m hm
    obtain ⟨st, env', _, hrun, _⟩ := C15S_loop exts hn env cs he m hm
    rw [hrun]
  have key : ∀ e : End, e ≠ .outOfFuel → e ≠ .returned →
      (execFrom (roleOracle exts) fuel rGs env cs).how ≠ e := by
    intro e h1 h2 h
    have hm := execFrom_mono (roleOracle exts) fuel (max fuel (exts.length + 20)) rGs env cs
      (Nat.le_max_left _ _) (by rw [h]; exact h1)
    have := hbig (max fuel (exts.length + 20)) (Nat.le_max_right _ _)
    rw [hm, h] at this
    exact h2 this
  exact ⟨fun t => key _ (fun h => nomatch h) (fun h => nomatch h),
    fun f a => key _ (fun h => nomatch h) (fun h => nomatch h), hbig fuel⟩

/-! ## 4. sensitivity: variants derived from the instrumented generated term -/

/-- apply `f` to the condition of every `ite` -/
def mapCond (f : GExpr → GExpr) : GStmt → GStmt
  | .seq a b => .seq (mapCond f a) (mapCond f b)
  | .ite c t e => .ite (f c) (mapCond f t) (mapCond f e)
  | .loop b => .loop (mapCond f b)
  | s => s

/-- the previously seeded bug: the duplicate test `if found` keyed on the decoded value,
    `if role != ""` -/
def dupByRole : GExpr → GExpr
  | .var "found" .bool => .cmp "!=" (.var "role" .other) (.call "\"\"" .other)
  | c => c

/-- the state before an earlier repair: no `len(rest) != 0` test (the condition made `false`) -/
def noTrailing : GExpr → GExpr
  | .cmp "!=" (.var "len(rest)" .int) _ => .lit 0 .bool
  | c => c

/-- without the `len(ext.Value) < 2 ||` guard -/
def noLenGuard : GExpr → GExpr
  | .or (.cmp "<" (.var "len(ext.Value)" .int) _) b => b
  | c => c

/-- the variants differ from `rGs` in conditions only: same calls, the same four `badCert = true` -/
theorem C15S_variants :
    mapCond id rGs = rGs ∧
    bindCalls (mapCond dupByRole rGs) = bindCalls rGs ∧
    (assignedTo "badCert" (mapCond dupByRole rGs)).length = 4 ∧
    (assignedTo "badCert" (mapCond noTrailing rGs)).length = 4 ∧
    (assignedTo "badCert" rGs).length = 4 := by
  refine ⟨?_, ?_, ?_, ?_, ?_⟩ <;>
    simp only [rGs_eq, roleWith, roleLoopPart, roleTail, roleBody, mapCond, dupByRole, noTrailing, id,
      bindCalls, assignedTo, List.append_nil, List.nil_append, List.cons_append, List.length_cons,
      List.length_nil, String.reduceEq, ↓reduceIte, Nat.zero_add, Nat.reduceAdd]

/-- first role extension = the EMPTY string (a well-formed role value), a second role extension
    "operator" -/
def twoRoles : List Ext := [roleExt [0x0c, 0x00], roleExt (derUTF8 operator)]

/-- sensitivity (duplicate test): on `twoRoles` the generated term sets `badCert` at the second role
    extension (`found` was set at the first, whatever it decoded to) and returns `""` — as the
    specification demands —; the variant keyed on `role != ""` takes the second extension for the
    first one and returns "operator" -/
theorem C15S_sensitive_dupByRole :
    srcRole twoRoles 30 = encRole [] ∧
    Env.read (srcRun twoRoles 30).env "badCert" = .int 1 ∧
    roleOf twoRoles = [] ∧
    Env.read (exec (roleOracle twoRoles) 30 (mapCond dupByRole rGs) (roleEnv twoRoles)).env "role" =
      encRole operator ∧
    Env.read (exec (roleOracle twoRoles) 30 (mapCond dupByRole rGs) (roleEnv twoRoles)).env "badCert" =
      .int 0 := by
  decide +kernel

/-- "A" followed by two trailing bytes -/
def trailing : List Ext := [roleExt [0x0c, 0x01, 0x41, 0x00, 0x00]]

/-- sensitivity (trailing bytes): the generated term returns `""`, the variant without the
    `len(rest) != 0` test returns "A" -/
theorem C15S_sensitive_noTrailing :
    srcRole trailing 30 = encRole [] ∧
    Env.read (srcRun trailing 30).env "badCert" = .int 1 ∧
    roleOf trailing = [] ∧
    (exec (roleOracle trailing) 30 (mapCond noTrailing rGs) (roleEnv trailing)).how = .returned ∧
    Env.read (exec (roleOracle trailing) 30 (mapCond noTrailing rGs) (roleEnv trailing)).env "role" =
      encRole [0x41] := by
  decide +kernel

/-- sensitivity (`C15S_no_panic` is about the guard): a role extension with an EMPTY value. The
    generated term sets `badCert` without reading `ext.Value[0]`; without the `len(ext.Value) < 2 ||`
    guard the condition needs the absent leaf and the run is stuck (Go: index out of range) -/
theorem C15S_sensitive_noLenGuard :
    (srcRun [roleExt []] 30).how = .returned ∧ srcRole [roleExt []] 30 = encRole [] ∧
    Env.read? (srcRun [roleExt []] 30).env "ext.Value[0]" = some .unk ∧
    (exec (roleOracle [roleExt []]) 30 (mapCond noLenGuard rGs) (roleEnv [roleExt []])).how =
      .stuckAt "cond" := by
  decide +kernel

/-- WITHOUT the probe the leaves of `ext` have one value for the whole run: with the leaves of the
    first extension (keyUsage: not a role extension) bound once, the generated loop never sees the
    role extension behind it — the reason for the instrumentation -/
theorem C15S_sensitive_noProbe :
    srcRole [keyUsage, roleExt (derUTF8 operator)] 30 = encRole operator ∧
    Env.read (exec (roleOracle [keyUsage, roleExt (derUTF8 operator)]) 30
      (withOut "asn1.Unmarshal" ["len(rest)", "role"]
        (withRecv "asn1.Unmarshal" "role" gs_ModbusServer_extractRole))
      (("ext.Id.Equal(modbusRoleOID)", .int 0) :: roleEnv [keyUsage, roleExt (derUTF8 operator)])).env "role" =
      encRole [] := by
  decide +kernel

/-! ## 5. concrete runs (kernel evaluation) -/

example : encRole operator = .sym "operator" := by decide +kernel

/-- role "operator" between unrelated extensions: all four indexes are probed (the last one ends
    the loop), `asn1.Unmarshal` is called once, with `role = ""` and the value of extension 1 -/
example : srcRun [keyUsage, roleExt (derUTF8 operator), otherOid] 30 =
    ⟨(srcRun [keyUsage, roleExt (derUTF8 operator), otherOid] 30).env, .returned,
      [("#ext", [.int 0]), ("#ext", [.int 1]),
       ("asn1.Unmarshal", [.sym "", .int 1, .sym "&role"]),
       ("#ext", [.int 2]), ("#ext", [.int 3])]⟩ ∧
    srcRole [keyUsage, roleExt (derUTF8 operator), otherOid] 30 = .sym "operator" ∧
    Env.read (srcRun [keyUsage, roleExt (derUTF8 operator), otherOid] 30).env "badCert" = .int 0 ∧
    Env.read (srcRun [keyUsage, roleExt (derUTF8 operator), otherOid] 30).env "found" = .int 1 := by
  decide +kernel
/-- absent -/
example : srcRole [keyUsage, otherOid] 30 = .sym "" ∧
    (srcRun [keyUsage, otherOid] 30).calls = [("#ext", [.int 0]), ("#ext", [.int 1]), ("#ext", [.int 2])] := by
  decide +kernel
example : srcRun [] 30 = ⟨(srcRun [] 30).env, .returned, [("#ext", [.int 0])]⟩ ∧ srcRole [] 30 = .sym "" := by
  decide +kernel
/-- duplicated, far apart, second one malformed: break at index 3, index 4 is not probed -/
example : (srcRun [roleExt (derUTF8 operator), keyUsage, otherOid, roleExt [], keyUsage] 30).calls =
    [("#ext", [.int 0]), ("asn1.Unmarshal", [.sym "", .int 0, .sym "&role"]),
     ("#ext", [.int 1]), ("#ext", [.int 2]), ("#ext", [.int 3])] ∧
    srcRole [roleExt (derUTF8 operator), keyUsage, otherOid, roleExt [], keyUsage] 30 = .sym "" := by
  decide +kernel
/-- other string types (PrintableString): no call to `asn1.Unmarshal` -/
example : (srcRun [roleExt [0x13, 0x01, 0x41], keyUsage] 30).calls = [("#ext", [.int 0])] ∧
    srcRole [roleExt [0x13, 0x01, 0x41], keyUsage] 30 = .sym "" := by decide +kernel
/-- truncated content: `asn1.Unmarshal` returns an error -/
example : Env.read (srcRun [roleExt [0x0c, 0x05, 0x41, 0x42]] 30).env "err" = .sym "asn1.error" ∧
    srcRole [roleExt [0x0c, 0x05, 0x41, 0x42]] 30 = .sym "" := by decide +kernel
/-- too little fuel: out of fuel, not stuck -/
example : (srcRun [keyUsage, otherOid] 10).how = .outOfFuel := by decide +kernel

end Modbus.Props.C15

#print axioms Modbus.Props.C15.C15S_instr
#print axioms Modbus.Props.C15.C15S_static
#print axioms Modbus.Props.C15.C15S_encRole_inj
#print axioms Modbus.Props.C15.C15S_loop
#print axioms Modbus.Props.C15.C15S_loop_exit
#print axioms Modbus.Props.C15.C15S_break_at_once
#print axioms Modbus.Props.C15.C15S_returns
#print axioms Modbus.Props.C15.C15S_eq_spec
#print axioms Modbus.Props.C15.C15S_eq_spec'
#print axioms Modbus.Props.C15.C15S_faithful
#print axioms Modbus.Props.C15.C15S_empty_otherwise
#print axioms Modbus.Props.C15.C15S_absent
#print axioms Modbus.Props.C15.C15S_duplicated
#print axioms Modbus.Props.C15.C15S_other_tag
#print axioms Modbus.Props.C15.C15S_malformed
#print axioms Modbus.Props.C15.C15S_trailing_bytes
#print axioms Modbus.Props.C15.C15S_invalid_utf8
#print axioms Modbus.Props.C15.C15S_no_panic
#print axioms Modbus.Props.C15.C15S_variants
#print axioms Modbus.Props.C15.C15S_sensitive_dupByRole
#print axioms Modbus.Props.C15.C15S_sensitive_noTrailing
#print axioms Modbus.Props.C15.C15S_sensitive_noLenGuard
#print axioms Modbus.Props.C15.C15S_sensitive_noProbe
#print axioms Modbus.GoEval.role_loop
#print axioms Modbus.GoEval.role_round_short
#print axioms Modbus.GoEval.role_round_dup
#print axioms Modbus.GoEval.roleTrace_of_bad
