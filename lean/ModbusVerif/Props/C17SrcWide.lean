import ModbusVerif.Lemmas.GoEvalWideLemmas
import ModbusVerif.Props.C17
/-
  C17, source tie for the 32 / 64-bit codecs (WORK IN PROGRESS HEADER)
-/
set_option linter.unusedSimpArgs false
set_option linter.unusedVariables false
set_option maxRecDepth 100000

namespace Modbus.Props.C17
open Modbus Modbus.Gen Modbus.GoEval

/-! ## 1. `uint32ToBytes` -/

/-- the element leaves of `out` -/
def wideOut4 : List String := ["out[0]", "out[1]", "out[2]", "out[3]"]
def wideOut8 : List String :=
  ["out[0]", "out[1]", "out[2]", "out[3]", "out[4]", "out[5]", "out[6]", "out[7]"]

/-- `encoding/binary`: `Put…(out, v)` answers with the bytes it stores (transcriptions `putBE32` …) -/
def widePutOracle : Oracle := fun f args =>
  if f = "binary.BigEndian.PutUint32" then putAns putBE32 args
  else if f = "binary.LittleEndian.PutUint32" then putAns putLE32 args
  else if f = "binary.BigEndian.PutUint64" then putAns putBE64 args
  else if f = "binary.LittleEndian.PutUint64" then putAns putLE64 args
  else none

/-- `gsp_uint32ToBytes` with the stores of the two `PutUint32` calls made visible: the four stored bytes are
    bound to `out[0]` … `out[3]` -/
def wideEnc32Gs : GStmt :=
  withStoreTargets "binary.BigEndian.PutUint32" wideOut4
    (withStoreTargets "binary.LittleEndian.PutUint32" wideOut4 gsp_uint32ToBytes)

theorem C17W_enc32_instr :
    stripStoreTargets "binary.BigEndian.PutUint32"
      (stripStoreTargets "binary.LittleEndian.PutUint32" wideEnc32Gs) = gsp_uint32ToBytes := by
  rfl

/-- entry environment: the parameters, the allocation leaf (a symbol), and the four ZERO bytes of
    `make([]byte, 4)` as the initial values of the element leaves -/
def wideEnc32Env (e w v : Int) : Env :=
  [("endianness", .int e), ("wordOrder", .int w), ("in", .int v),
   ("make([]byte, 4)", .sym "make([]byte, 4)"),
   ("out[0]", .int 0), ("out[1]", .int 0), ("out[2]", .int 0), ("out[3]", .int 0)]

def wideEnc64Gs : GStmt :=
  withStoreTargets "binary.BigEndian.PutUint64" wideOut8
    (withStoreTargets "binary.LittleEndian.PutUint64" wideOut8 gsp_uint64ToBytes)

theorem C17W_enc64_instr :
    stripStoreTargets "binary.BigEndian.PutUint64"
      (stripStoreTargets "binary.LittleEndian.PutUint64" wideEnc64Gs) = gsp_uint64ToBytes := by
  rfl

def wideEnc64Env (e w v : Int) : Env :=
  [("endianness", .int e), ("wordOrder", .int w), ("in", .int v),
   ("make([]byte, 8)", .sym "make([]byte, 8)"),
   ("out[0]", .int 0), ("out[1]", .int 0), ("out[2]", .int 0), ("out[3]", .int 0),
   ("out[4]", .int 0), ("out[5]", .int 0), ("out[6]", .int 0), ("out[7]", .int 0)]

/-- the values of a list of leaves -/
def wideReadAll (env : Env) (keys : List String) : List Val := keys.map (Env.read env)

theorem wideReadAll_cons (env k ks) : wideReadAll env (k :: ks) = Env.read env k :: wideReadAll env ks := by
  exact id rfl
theorem wideReadAll_nil (env) : wideReadAll env [] = [] := by exact id rfl

theorem wide_word_ne2 {w : Int} (h : ¬ w = 2) : ¬ wordOfInt w = .lowFirst := by
  unfold wordOfInt
  by_cases h1 : w = 1
  · rw [if_pos h1]; exact fun h => nomatch h
  · rw [if_neg h1, if_neg h]; exact fun h => nomatch h
theorem wide_word_ne1 {w : Int} (h : ¬ w = 1) : ¬ wordOfInt w = .highFirst := by
  unfold wordOfInt
  rw [if_neg h]
  by_cases h2 : w = 2
  · rw [if_pos h2]; exact fun h => nomatch h
  · rw [if_neg h2]; exact fun h => nomatch h
theorem wide_endian_invalid {e : Int} (h1 : ¬ e = 1) (h2 : ¬ e = 2) : endianOfInt e = .invalid := by
  unfold endianOfInt; rw [if_neg h1, if_neg h2]

/-- symbolic evaluation of the encoder runs (`go_eval` with the definitions of this section) -/
local macro "wide_enc_eval" " [" ls:Lean.Parser.Tactic.simpLemma,* "]" : tactic =>
  `(tactic| go_eval [wideEnc32Gs, wideEnc64Gs, withStoreTargets, gsp_uint32ToBytes, gsp_uint64ToBytes, wideOut4,
      wideOut8, wideEnc32Env, wideEnc64Env, widePutOracle, putAns_int, eq_self, and_false, false_and,
      Enc.be32, Enc.le32, Enc.be64, Enc.le64, wideReadAll_cons, wideReadAll_nil, endianOfInt_1, endianOfInt_2,
      wordOfInt_1, wordOfInt_2, Enc.uint32ToBytes, Enc.uint64ToBytes, write_def, Int.reduceEq, $ls,*])

/-- **`uint32ToBytes` = `Enc.uint32ToBytes`**, every value `v`, EVERY pair of selector values `e`, `w` (not only
    the four valid ones), every fuel ≥ 20. The run of the generated function returns; `out` is the allocation
    `make([]byte, 4)`; the final values of its four element leaves are the model's bytes; the only call is the
    `PutUint32` of the byte order (none when `e` is neither constant: the zero bytes of `make` are returned,
    which is what the model's `.invalid` case says). -/
theorem C17W_uint32ToBytes (e w : Int) (v : U32) (fuel : Nat) (hf : 20 ≤ fuel) :
    let r := exec widePutOracle fuel wideEnc32Gs (wideEnc32Env e w (v.toNat : Int))
    r.how = .returned ∧ Env.read r.env "out" = .sym "make([]byte, 4)" ∧
    wideReadAll r.env wideOut4 = (Enc.uint32ToBytes (endianOfInt e) (wordOfInt w) v).map byteVal ∧
    r.calls =
      (if e = 1 then [("binary.BigEndian.PutUint32", [.sym "make([]byte, 4)", .int (v.toNat : Int)])]
       else if e = 2 then [("binary.LittleEndian.PutUint32", [.sym "make([]byte, 4)", .int (v.toNat : Int)])]
       else []) := by
  obtain ⟨m, rfl⟩ : ∃ m, fuel = m + 20 := ⟨fuel - 20, by omega⟩
  have hbe := putBE32_eq v
  have hle := putLE32_eq v
  by_cases h1 : e = 1
  · subst h1
    by_cases h2 : w = 2
    · subst h2
      wide_enc_eval [hbe, hle]
    · wide_enc_eval [hbe, hle, h2, wide_word_ne2 h2]
  · by_cases h2 : e = 2
    · subst h2
      by_cases h3 : w = 1
      · subst h3
        wide_enc_eval [hbe, hle]
      · wide_enc_eval [hbe, hle, h3, wide_word_ne1 h3]
    · wide_enc_eval [hbe, hle, h1, h2, wide_endian_invalid h1 h2, byteVal_zero]

/-- the four valid selector pairs, with the model's own names -/
theorem C17W_uint32ToBytes_valid (e : Endian) (w : WordOrder) (he : e ≠ .invalid) (hw : w ≠ .invalid)
    (v : U32) (fuel : Nat) (hf : 20 ≤ fuel) :
    let r := exec widePutOracle fuel wideEnc32Gs (wideEnc32Env (intOfEndian e) (intOfWord w) (v.toNat : Int))
    r.how = .returned ∧ wideReadAll r.env wideOut4 = (Enc.uint32ToBytes e w v).map byteVal := by
  have h := C17W_uint32ToBytes (intOfEndian e) (intOfWord w) v fuel hf
  rw [endianOfInt_intOfEndian, wordOfInt_intOfWord] at h
  exact ⟨h.1, h.2.2.1⟩

/-! ## 2. `uint64ToBytes` -/

theorem C17W_uint64ToBytes (e w : Int) (v : U64) (fuel : Nat) (hf : 30 ≤ fuel) :
    let r := exec widePutOracle fuel wideEnc64Gs (wideEnc64Env e w (v.toNat : Int))
    r.how = .returned ∧ Env.read r.env "out" = .sym "make([]byte, 8)" ∧
    wideReadAll r.env wideOut8 = (Enc.uint64ToBytes (endianOfInt e) (wordOfInt w) v).map byteVal ∧
    r.calls =
      (if e = 1 then [("binary.BigEndian.PutUint64", [.sym "make([]byte, 8)", .int (v.toNat : Int)])]
       else if e = 2 then [("binary.LittleEndian.PutUint64", [.sym "make([]byte, 8)", .int (v.toNat : Int)])]
       else []) := by
  obtain ⟨m, rfl⟩ : ∃ m, fuel = m + 30 := ⟨fuel - 30, by omega⟩
  have hbe := putBE64_eq v
  have hle := putLE64_eq v
  by_cases h1 : e = 1
  · subst h1
    by_cases h2 : w = 2
    · subst h2
      wide_enc_eval [hbe, hle]
    · wide_enc_eval [hbe, hle, h2, wide_word_ne2 h2]
  · by_cases h2 : e = 2
    · subst h2
      by_cases h3 : w = 1
      · subst h3
        wide_enc_eval [hbe, hle]
      · wide_enc_eval [hbe, hle, h3, wide_word_ne1 h3]
    · wide_enc_eval [hbe, hle, h1, h2, wide_endian_invalid h1 h2, byteVal_zero]

theorem C17W_uint64ToBytes_valid (e : Endian) (w : WordOrder) (he : e ≠ .invalid) (hw : w ≠ .invalid)
    (v : U64) (fuel : Nat) (hf : 30 ≤ fuel) :
    let r := exec widePutOracle fuel wideEnc64Gs (wideEnc64Env (intOfEndian e) (intOfWord w) (v.toNat : Int))
    r.how = .returned ∧ wideReadAll r.env wideOut8 = (Enc.uint64ToBytes e w v).map byteVal := by
  have h := C17W_uint64ToBytes (intOfEndian e) (intOfWord w) v fuel hf
  rw [endianOfInt_intOfEndian, wordOfInt_intOfWord] at h
  exact ⟨h.1, h.2.2.1⟩

end Modbus.Props.C17
