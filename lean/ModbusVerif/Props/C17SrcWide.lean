import ModbusVerif.Lemmas.GoEvalWideLemmas
import ModbusVerif.Props.C17
/-
  C17, source tie for the 32 / 64-bit codecs of encoding.go. `uint32ToBytes`, `uint64ToBytes`, `float32ToBytes`,
  `float64ToBytes`, `bytesToUint32s`, `bytesToUint64s`, `bytesToFloat32s`, `bytesToFloat64s`, as rendered by the
  translator (`Gen.gsp_*`, regenerated from /repo on every run), are EVALUATED by `Modbus.GoEval` and proved equal,
  for every input, to the hand-written models `Enc.*` (Model/Encoding.lean), about which Props/C17.lean proves the
  property (exact inverses, documented layout). Before this file the wide codecs were tied to the source by
  fingerprint and differential testing only. Helpers: Lemmas/GoEvalWideLemmas.lean.

  ## What is proved (selector values: 1 = BIG_ENDIAN / HIGH_WORD_FIRST, 2 = LITTLE_ENDIAN / LOW_WORD_FIRST,
  ## `endianOfInt`, `wordOfInt` map every other value to `.invalid`)
  1. `C17W_uint32ToBytes`   every `v : U32`, EVERY pair of integers `(e, w)` — the four valid pairs and all others —,
                            fuel ≥ 20: the run returns, `out` is the allocation, the final values of `out[0..3]` are
                            `Enc.uint32ToBytes (endianOfInt e) (wordOfInt w) v`, the only call is the `PutUint32` of the
                            byte order. Invalid selectors: for `e ∉ {1,2}` nothing is stored, the four zero bytes of
                            `make` are returned = the model's `.invalid` case; for `w ∉ {1,2}` the source's
                            `wordOrder == LOW_WORD_FIRST` (big-endian) / `== HIGH_WORD_FIRST` (little-endian) tests
                            fail, no swap = the model's `if w = .lowFirst` / `if w = .highFirst` on `.invalid`: source
                            and model AGREE on every selector value (the public API lets only valid ones through:
                            `SetEncoding`, C16). `C17W_uint32ToBytes_valid`: the same with the model's own names.
  2. `C17W_uint64ToBytes`   the same for 8 bytes (sixteen temporaries), fuel ≥ 30. `C17W_twins`: the plain renderings
                            `gs_uint32ToBytes` / `gs_uint64ToBytes` ARE the richer ones.
  3. `C17W_floatToBytes`    (`C17W_float32ToBytes`, `C17W_float64ToBytes`) every bit pattern, every `(e, w)`: the run
                            calls `math.Float32bits(in)` then `uint32ToBytes(endianness, wordOrder, that)` and returns
                            its result; the integer codec run on THOSE argument values gives the model's bytes.
  4. `C17W_bytesToUint32s`  every byte string of length < 2^62, `e ∈ {1,2}`, EVERY integer `w`, fuel ≥ len/4 + 20:
                            length a multiple of 4: the run returns having appended exactly the model's list, in order;
                            otherwise the model says `none` and the run STOPS in its last round — at the slice
                            expression `in[i:i+4]` (Go: slice bounds out of range) or at the byte literal that needs
                            `in[i+3]` (Go: index out of range) — after ⌊len/4⌋ values. `C17W_dec32_instr`: the
                            evaluated term is the generated one + the probe. `C17W_bytesToUint32s_invalid`: `e ∉ {1,2}`,
                            see "findings".
  5. `C17W_bytesToUint64s`  the same with 8 (`C17W_dec64_instr`, `C17W_bytesToUint64s_invalid`).
  6. `C17W_bytesToFloats`   (`C17W_bytesToFloat32s`, `C17W_bytesToFloat64s`, `C17W_decF32_instr`, `C17W_decF64_instr`)
                            the wrapper calls the integer decoder once, with `(endianness, wordOrder, in)`, and appends
                            `math.Float32frombits` of every element of ITS result, in order (value-range loop over `#i`);
                            composed with 4/5: the appended patterns are the model's.
  7. `C17W_roundtrip_src`   all four valid pairs, every value: the decoder run on the bytes the encoder run left in
                            `out[0..]` returns having appended exactly the value (items 1/2, 4/5 and the model's
                            `u32_roundtrip` / `u64_roundtrip`).
  8. sensitivity            `C17W_layouts32/64` (0x11223344 ↦ `11 22 33 44`, `33 44 11 22`, `44 33 22 11`,
                            `22 11 44 33`; 64 bit likewise), `C17W_decode_samples`, `C17W_sensitive` (four variants
                            DERIVED from the generated terms: swap for the wrong word order, another permutation,
                            decoder literal with two bytes exchanged, 64-bit halves exchanged, each gives other
                            bytes / another value), `C17W_sensitive_noProbe` (why the probes), all by `decide +kernel`.

  ## Findings
  * None within the contract. OUT OF CONTRACT (`C17W_bytesToUint32s_invalid`, `…64s_invalid`,
    `C17W_decode_invalid_endianness`): with a byte order that is neither constant the decoders read no element and
    append ⌈len/n⌉ zeros for EVERY length, while the model returns `none` when the length is not a multiple of n
    (e.g. `e = 3`, 6 bytes: source `[0, 0]`, model `none`). This is the divergence already documented at the head of
    Model/Encoding.lean ("with an invalid endianness the 32/64-bit decoders never index"); not reachable through
    the public API (C16: `SetEncoding` rejects other values; client and server check the byte count first).

  ## What is MODELLED rather than derived from the generated terms
  * encoding/binary, transcribed (Lemmas/GoEvalWideLemmas §2): `putBE32 v = [byte(v>>24), byte(v>>16), byte(v>>8),
    byte(v)]`, `putLE32`, `putBE64`, `putLE64` (what `PutUint32/64` STORE), `beU32 b = b[3] | b[2]<<8 | b[1]<<16 |
    b[0]<<24` after the bounds check `_ = b[3]`, `leU32`, `beU64`, `leU64` (what `Uint32/64` READ). Their equality with
    the model's `be32`, `mk32` … is proved (`putBE32_eq`, `beU32_four`, …).
  * THE STORE MODEL of the encoders. `binary.….PutUint32(out, in)` is a call statement without results that stores
    through its first argument. The removable instrumentation `withStoreTargets` gives the call the targets
    `out[0]`, …, `out[3]`: the oracle's answer — the four stored bytes — is bound to the element leaves
    (`C17W_enc32_instr`: `stripStoreTargets` gives the generated term back). The word swap is the generated term's own
    eight assignments through `#tmp0..3` on these text-keyed leaves (constant indices). The entry environment binds
    `out[0..3]` to 0: the elements of `make([]byte, 4)`; `out` is assigned once, first, to the allocation leaf (a
    symbol), so these are the elements of the slice the function returns. The result is read off the final values
    of `out[0..]` (`wideReadAll`). NOT represented: the identity of the stored-to array with `out`.
  * THE WORLD of the decoders (`wideWorld bs`, history-dependent: `execFromW`). A byte slice is a HANDLE = the
    position in the call log of the `slice` / `bytes` call that made it; `slice [in, lo, hi]` denotes `bs[lo:hi]` and is
    refused (Go: panic) unless `0 ≤ lo ≤ hi ≤ len(bs)` (convention `cap(in) = len(in)`, as in the model); `bytes
    [a, …]` denotes its arguments and is refused when one has no value; `binary.….Uint32 [h]` is the transcription on the
    object of `h`; `append [out, v]` is answered with the opaque symbol `out` when `v` is an integer, the appended values
    are read off the log (`wideAppended`).
  * PROBES. `in[i+k]` is ONE text key whatever `i` is: the removable instrumentation `withLeaves` inserts, at the head
    of every loop body (the `for` loop and the translator's one-shot `switch` loop), the pseudo-call
    `in[i+0], …, in[i+3] := #in[i+0..3](i)`, answered from `bs` and the VALUE of `i` (`probeAt`: `unk` outside the
    input). `stripLeaves` removes it (`C17W_dec32_instr`). Same for `u32s[#i]` in the float wrappers.
  * entry environments: `len(in)` is the length of `bs`; `u32` / `u64` start at 0 (Go's `var u32 uint32`, not rendered);
    `in`, `out` are opaque symbols; in the float wrappers `len(u32s)` (read after `u32s` is assigned) is bound to the
    length of the integer decoder's result, and the integer codec calls are answered with opaque symbols — their runs
    are items 1, 2, 4, 5, composed through the logged argument values.
  * FLOATS are their IEEE-754 bit patterns (as in Props/C17 and `Client.Op`): `math.Float32bits`, `Float32frombits`,
    `Float64bits`, `Float64frombits` are bit-exact, i.e. the identity on the representation (`bitsAns`).
  * Bounds: lengths < 2^62 (`i += 4` must not wrap in `int`).
-/
set_option linter.unusedSimpArgs false
set_option linter.unusedVariables false
set_option maxRecDepth 100000

namespace Modbus.Props.C17
open Modbus Modbus.Gen Modbus.GoEval

/-! ## 1. `uint32ToBytes` -/

/-- the element leaves of `out` -/
def wideOut4 : List String := ["out[0]", "out[1]", "out[2]", "out[3]"]
def wideOut8 : List String :=
  ["out[0]", "out[1]", "out[2]", "out[3]", "out[4]", "out[5]", "out[6]", "out[7]"]

/-- `encoding/binary`: `Put…(out, v)` answers with the bytes it stores (transcriptions `putBE32` …) -/
def widePutOracle : Oracle := fun f args =>
  if f = "binary.BigEndian.PutUint32" then putAns putBE32 args
  else if f = "binary.LittleEndian.PutUint32" then putAns putLE32 args
  else if f = "binary.BigEndian.PutUint64" then putAns putBE64 args
  else if f = "binary.LittleEndian.PutUint64" then putAns putLE64 args
  else none

/-- `gsp_uint32ToBytes` with the stores of the two `PutUint32` calls made visible: the four stored bytes are
    bound to `out[0]` … `out[3]` -/
def wideEnc32Gs : GStmt :=
  withStoreTargets "binary.BigEndian.PutUint32" wideOut4
    (withStoreTargets "binary.LittleEndian.PutUint32" wideOut4 gsp_uint32ToBytes)

/-- the evaluated term is the generated one with targets on the two `PutUint32` calls; `out` is assigned once,
    to the allocation leaf -/
theorem C17W_enc32_instr :
    stripStoreTargets "binary.BigEndian.PutUint32"
      (stripStoreTargets "binary.LittleEndian.PutUint32" wideEnc32Gs) = gsp_uint32ToBytes ∧
    assignedTexts "out" wideEnc32Gs = [some "make([]byte, 4)"] :=
  ⟨rfl, rfl⟩

/-- entry environment: the parameters, the allocation leaf (a symbol), and the four ZERO bytes of
    `make([]byte, 4)` as the initial values of the element leaves -/
def wideEnc32Env (e w v : Int) : Env :=
  [("endianness", .int e), ("wordOrder", .int w), ("in", .int v),
   ("make([]byte, 4)", .sym "make([]byte, 4)"),
   ("out[0]", .int 0), ("out[1]", .int 0), ("out[2]", .int 0), ("out[3]", .int 0)]

def wideEnc64Gs : GStmt :=
  withStoreTargets "binary.BigEndian.PutUint64" wideOut8
    (withStoreTargets "binary.LittleEndian.PutUint64" wideOut8 gsp_uint64ToBytes)

theorem C17W_enc64_instr :
    stripStoreTargets "binary.BigEndian.PutUint64"
      (stripStoreTargets "binary.LittleEndian.PutUint64" wideEnc64Gs) = gsp_uint64ToBytes ∧
    assignedTexts "out" wideEnc64Gs = [some "make([]byte, 8)"] :=
  ⟨rfl, rfl⟩

def wideEnc64Env (e w v : Int) : Env :=
  [("endianness", .int e), ("wordOrder", .int w), ("in", .int v),
   ("make([]byte, 8)", .sym "make([]byte, 8)"),
   ("out[0]", .int 0), ("out[1]", .int 0), ("out[2]", .int 0), ("out[3]", .int 0),
   ("out[4]", .int 0), ("out[5]", .int 0), ("out[6]", .int 0), ("out[7]", .int 0)]

/-- the values of a list of leaves -/
def wideReadAll (env : Env) (keys : List String) : List Val := keys.map (Env.read env)

theorem wideReadAll_cons (env k ks) : wideReadAll env (k :: ks) = Env.read env k :: wideReadAll env ks := by
  exact id rfl
theorem wideReadAll_nil (env) : wideReadAll env [] = [] := by exact id rfl

/-- symbolic evaluation of the encoder runs (`go_eval` with the definitions of this section) -/
local macro "wide_enc_eval" " [" ls:Lean.Parser.Tactic.simpLemma,* "]" : tactic =>
  `(tactic| go_eval [wideEnc32Gs, wideEnc64Gs, withStoreTargets, gsp_uint32ToBytes, gsp_uint64ToBytes, wideOut4,
      wideOut8, wideEnc32Env, wideEnc64Env, widePutOracle, putAns_int, eq_self, and_false, false_and,
      Enc.be32, Enc.le32, Enc.be64, Enc.le64, wideReadAll_cons, wideReadAll_nil, endianOfInt_1, endianOfInt_2,
      wordOfInt_1, wordOfInt_2, Enc.uint32ToBytes, Enc.uint64ToBytes, write_def, Int.reduceEq, $ls,*])

/-- **`uint32ToBytes` = `Enc.uint32ToBytes`**, every value `v`, EVERY pair of selector values `e`, `w` (not only
    the four valid ones), every fuel ≥ 20. The run of the generated function returns; `out` is the allocation
    `make([]byte, 4)`; the final values of its four element leaves are the model's bytes; the only call is the
    `PutUint32` of the byte order (none when `e` is neither constant: the zero bytes of `make` are returned,
    which is what the model's `.invalid` case says). -/
theorem C17W_uint32ToBytes (e w : Int) (v : U32) (fuel : Nat) (hf : 20 ≤ fuel) :
    let r := exec widePutOracle fuel wideEnc32Gs (wideEnc32Env e w (v.toNat : Int))
    r.how = .returned ∧ Env.read r.env "out" = .sym "make([]byte, 4)" ∧
    wideReadAll r.env wideOut4 = (Enc.uint32ToBytes (endianOfInt e) (wordOfInt w) v).map byteVal ∧
    r.calls =
      (if e = 1 then [("binary.BigEndian.PutUint32", [.sym "make([]byte, 4)", .int (v.toNat : Int)])]
       else if e = 2 then [("binary.LittleEndian.PutUint32", [.sym "make([]byte, 4)", .int (v.toNat : Int)])]
       else []) := by
  obtain ⟨m, rfl⟩ : ∃ m, fuel = m + 20 := ⟨fuel - 20, by omega⟩
  have hbe := putBE32_eq v
  have hle := putLE32_eq v
  by_cases h1 : e = 1
  · subst h1
    by_cases h2 : w = 2
    · subst h2
      wide_enc_eval [hbe, hle]
    · wide_enc_eval [hbe, hle, h2, wide_word_ne2 h2]
  · by_cases h2 : e = 2
    · subst h2
      by_cases h3 : w = 1
      · subst h3
        wide_enc_eval [hbe, hle]
      · wide_enc_eval [hbe, hle, h3, wide_word_ne1 h3]
    · wide_enc_eval [hbe, hle, h1, h2, wide_endian_invalid h1 h2, byteVal_zero]

/-- the four valid selector pairs, with the model's own names -/
theorem C17W_uint32ToBytes_valid (e : Endian) (w : WordOrder) (he : e ≠ .invalid) (hw : w ≠ .invalid)
    (v : U32) (fuel : Nat) (hf : 20 ≤ fuel) :
    let r := exec widePutOracle fuel wideEnc32Gs (wideEnc32Env (intOfEndian e) (intOfWord w) (v.toNat : Int))
    r.how = .returned ∧ wideReadAll r.env wideOut4 = (Enc.uint32ToBytes e w v).map byteVal := by
  have h := C17W_uint32ToBytes (intOfEndian e) (intOfWord w) v fuel hf
  rw [endianOfInt_intOfEndian, wordOfInt_intOfWord] at h
  exact ⟨h.1, h.2.2.1⟩

/-- the plain rendering `gs_…` of the two integer encoders coincides with the richer one (no `append`, no call in
    argument position, no literal): the theorems are about both -/
theorem C17W_twins : gs_uint32ToBytes = gsp_uint32ToBytes ∧ gs_uint64ToBytes = gsp_uint64ToBytes := ⟨rfl, rfl⟩

/-! ## 2. `uint64ToBytes` -/

/-- **`uint64ToBytes` = `Enc.uint64ToBytes`**, every value, every pair of selector values, fuel ≥ 30 -/
theorem C17W_uint64ToBytes (e w : Int) (v : U64) (fuel : Nat) (hf : 30 ≤ fuel) :
    let r := exec widePutOracle fuel wideEnc64Gs (wideEnc64Env e w (v.toNat : Int))
    r.how = .returned ∧ Env.read r.env "out" = .sym "make([]byte, 8)" ∧
    wideReadAll r.env wideOut8 = (Enc.uint64ToBytes (endianOfInt e) (wordOfInt w) v).map byteVal ∧
    r.calls =
      (if e = 1 then [("binary.BigEndian.PutUint64", [.sym "make([]byte, 8)", .int (v.toNat : Int)])]
       else if e = 2 then [("binary.LittleEndian.PutUint64", [.sym "make([]byte, 8)", .int (v.toNat : Int)])]
       else []) := by
  obtain ⟨m, rfl⟩ : ∃ m, fuel = m + 30 := ⟨fuel - 30, by omega⟩
  have hbe := putBE64_eq v
  have hle := putLE64_eq v
  by_cases h1 : e = 1
  · subst h1
    by_cases h2 : w = 2
    · subst h2
      wide_enc_eval [hbe, hle]
    · wide_enc_eval [hbe, hle, h2, wide_word_ne2 h2]
  · by_cases h2 : e = 2
    · subst h2
      by_cases h3 : w = 1
      · subst h3
        wide_enc_eval [hbe, hle]
      · wide_enc_eval [hbe, hle, h3, wide_word_ne1 h3]
    · wide_enc_eval [hbe, hle, h1, h2, wide_endian_invalid h1 h2, byteVal_zero]

theorem C17W_uint64ToBytes_valid (e : Endian) (w : WordOrder) (he : e ≠ .invalid) (hw : w ≠ .invalid)
    (v : U64) (fuel : Nat) (hf : 30 ≤ fuel) :
    let r := exec widePutOracle fuel wideEnc64Gs (wideEnc64Env (intOfEndian e) (intOfWord w) (v.toNat : Int))
    r.how = .returned ∧ wideReadAll r.env wideOut8 = (Enc.uint64ToBytes e w v).map byteVal := by
  have h := C17W_uint64ToBytes (intOfEndian e) (intOfWord w) v fuel hf
  rw [endianOfInt_intOfEndian, wordOfInt_intOfWord] at h
  exact ⟨h.1, h.2.2.1⟩

/-! ## 3. `float32ToBytes`, `float64ToBytes` -/

/-- entry environment of `uint32ToBytes` formed from the argument values of a call to it -/
def wideEnc32EnvOfArgs (args : List Val) : Env :=
  match args with
  | [.int e, .int w, .int v] => wideEnc32Env e w v
  | _ => []

/-- `float32ToBytes`: `math.Float32bits(in)` (the pattern), then `uint32ToBytes(endianness, wordOrder, pattern)`,
    whose result is returned; the integer codec run on the argument values of that call gives the model's bytes -/
theorem C17W_float32ToBytes (e w : Int) (p : U32) (fuel : Nat) (hf : 30 ≤ fuel) :
    let r := execFromW (wideFloatWorld []) fuel gsp_float32ToBytes
      [("endianness", .int e), ("wordOrder", .int w), ("in", .int (p.toNat : Int))] []
    r.how = .returned ∧
    r.calls = [("math.Float32bits", [.int (p.toNat : Int)]),
               ("uint32ToBytes", [.int e, .int w, .int (p.toNat : Int)])] ∧
    Env.read r.env "out" = .sym "uint32ToBytes" ∧
    ∀ args, r.argsOf "uint32ToBytes" = [args] →
      let r2 := exec widePutOracle fuel wideEnc32Gs (wideEnc32EnvOfArgs args)
      r2.how = .returned ∧
      wideReadAll r2.env wideOut4 = (Enc.uint32ToBytes (endianOfInt e) (wordOfInt w) p).map byteVal := by
  obtain ⟨m, rfl⟩ : ∃ m, fuel = m + 30 := ⟨fuel - 30, by omega⟩
  have hrun : execFromW (wideFloatWorld []) (m + 30) gsp_float32ToBytes
      [("endianness", .int e), ("wordOrder", .int w), ("in", .int (p.toNat : Int))] [] =
      ⟨Env.write (Env.write [("endianness", .int e), ("wordOrder", .int w), ("in", .int (p.toNat : Int))]
          "#arg0" (.int (p.toNat : Int))) "out" (.sym "uint32ToBytes"), .returned,
        [("math.Float32bits", [.int (p.toNat : Int)]),
         ("uint32ToBytes", [.int e, .int w, .int (p.toNat : Int)])]⟩ := by
    go_evalW [gsp_float32ToBytes, wideFloatWorld_bits32, wideFloatWorld_enc32, bitsAns_int]
  dsimp only
  rw [hrun]
  refine ⟨rfl, rfl, rfl, ?_⟩
  intro args hargs
  have ha : args = [.int e, .int w, .int (p.toNat : Int)] := by
    have : [[Val.int e, Val.int w, Val.int (p.toNat : Int)]] = [args] := hargs
    simp only [List.cons.injEq, and_true] at this
    exact this.symm
  subst ha
  have h := C17W_uint32ToBytes e w p (m + 30) (by omega)
  exact ⟨h.1, h.2.2.1⟩

/-- entry environment of `uint64ToBytes` formed from the argument values of a call to it -/
def wideEnc64EnvOfArgs (args : List Val) : Env :=
  match args with
  | [.int e, .int w, .int v] => wideEnc64Env e w v
  | _ => []

/-- `float64ToBytes`, likewise -/
theorem C17W_float64ToBytes (e w : Int) (p : U64) (fuel : Nat) (hf : 30 ≤ fuel) :
    let r := execFromW (wideFloatWorld []) fuel gsp_float64ToBytes
      [("endianness", .int e), ("wordOrder", .int w), ("in", .int (p.toNat : Int))] []
    r.how = .returned ∧
    r.calls = [("math.Float64bits", [.int (p.toNat : Int)]),
               ("uint64ToBytes", [.int e, .int w, .int (p.toNat : Int)])] ∧
    Env.read r.env "out" = .sym "uint64ToBytes" ∧
    ∀ args, r.argsOf "uint64ToBytes" = [args] →
      let r2 := exec widePutOracle fuel wideEnc64Gs (wideEnc64EnvOfArgs args)
      r2.how = .returned ∧
      wideReadAll r2.env wideOut8 = (Enc.uint64ToBytes (endianOfInt e) (wordOfInt w) p).map byteVal := by
  obtain ⟨m, rfl⟩ : ∃ m, fuel = m + 30 := ⟨fuel - 30, by omega⟩
  have hrun : execFromW (wideFloatWorld []) (m + 30) gsp_float64ToBytes
      [("endianness", .int e), ("wordOrder", .int w), ("in", .int (p.toNat : Int))] [] =
      ⟨Env.write (Env.write [("endianness", .int e), ("wordOrder", .int w), ("in", .int (p.toNat : Int))]
          "#arg0" (.int (p.toNat : Int))) "out" (.sym "uint64ToBytes"), .returned,
        [("math.Float64bits", [.int (p.toNat : Int)]),
         ("uint64ToBytes", [.int e, .int w, .int (p.toNat : Int)])]⟩ := by
    go_evalW [gsp_float64ToBytes, wideFloatWorld_bits64, wideFloatWorld_enc64, bitsAns_int]
  dsimp only
  rw [hrun]
  refine ⟨rfl, rfl, rfl, ?_⟩
  intro args hargs
  have ha : args = [.int e, .int w, .int (p.toNat : Int)] := by
    have : [[Val.int e, Val.int w, Val.int (p.toNat : Int)]] = [args] := hargs
    simp only [List.cons.injEq, and_true] at this
    exact this.symm
  subst ha
  have h := C17W_uint64ToBytes e w p (m + 30) (by omega)
  exact ⟨h.1, h.2.2.1⟩

/-- **the float encoders** are `math.Float32bits` / `Float64bits` (bit-exact: the float IS its pattern in this
    rendering) followed by the integer codec with the same byte and word order -/
theorem C17W_floatToBytes (e w : Int) (fuel : Nat) (hf : 30 ≤ fuel) :
    (∀ p : U32,
      let r := execFromW (wideFloatWorld []) fuel gsp_float32ToBytes
        [("endianness", .int e), ("wordOrder", .int w), ("in", .int (p.toNat : Int))] []
      r.how = .returned ∧ r.argsOf "math.Float32bits" = [[.int (p.toNat : Int)]] ∧
      r.argsOf "uint32ToBytes" = [[.int e, .int w, .int (p.toNat : Int)]] ∧
      wideReadAll (exec widePutOracle fuel wideEnc32Gs (wideEnc32EnvOfArgs [.int e, .int w, .int (p.toNat : Int)])).env
        wideOut4 = (Enc.uint32ToBytes (endianOfInt e) (wordOfInt w) p).map byteVal) ∧
    (∀ p : U64,
      let r := execFromW (wideFloatWorld []) fuel gsp_float64ToBytes
        [("endianness", .int e), ("wordOrder", .int w), ("in", .int (p.toNat : Int))] []
      r.how = .returned ∧ r.argsOf "math.Float64bits" = [[.int (p.toNat : Int)]] ∧
      r.argsOf "uint64ToBytes" = [[.int e, .int w, .int (p.toNat : Int)]] ∧
      wideReadAll (exec widePutOracle fuel wideEnc64Gs (wideEnc64EnvOfArgs [.int e, .int w, .int (p.toNat : Int)])).env
        wideOut8 = (Enc.uint64ToBytes (endianOfInt e) (wordOfInt w) p).map byteVal) := by
  constructor
  · intro p
    obtain ⟨h1, h2, _, h4⟩ := C17W_float32ToBytes e w p fuel hf
    dsimp only at h1 h2 h4 ⊢
    have ha : (execFromW (wideFloatWorld []) fuel gsp_float32ToBytes
        [("endianness", .int e), ("wordOrder", .int w), ("in", .int (p.toNat : Int))] []).argsOf "uint32ToBytes" =
        [[.int e, .int w, .int (p.toNat : Int)]] := by
      rw [Res.argsOf, h2]; rfl
    refine ⟨h1, ?_, ha, (h4 _ ha).2⟩
    rw [Res.argsOf, h2]; rfl
  · intro p
    obtain ⟨h1, h2, _, h4⟩ := C17W_float64ToBytes e w p fuel hf
    dsimp only at h1 h2 h4 ⊢
    have ha : (execFromW (wideFloatWorld []) fuel gsp_float64ToBytes
        [("endianness", .int e), ("wordOrder", .int w), ("in", .int (p.toNat : Int))] []).argsOf "uint64ToBytes" =
        [[.int e, .int w, .int (p.toNat : Int)]] := by
      rw [Res.argsOf, h2]; rfl
    refine ⟨h1, ?_, ha, (h4 _ ha).2⟩
    rw [Res.argsOf, h2]; rfl

/-! ## 4. `bytesToUint32s` -/

/-- entry environment of the decoders: the selectors, the input slice and the (nil) named result as opaque
    symbols, the length leaf, the zero value of `var u32 uint32` / `var u64 uint64` -/
def wideDecEnv (e w : Int) (n : Nat) : Env :=
  [("endianness", .int e), ("wordOrder", .int w), ("in", .sym "in"), ("len(in)", .int (n : Int)),
   ("out", .sym "out"), ("u32", .int 0), ("u64", .int 0)]

theorem wideDecEnv_inv (e w : Int) (n : Nat) :
    DecInv (Env.write (wideDecEnv e w n) "i" (.int 0)) ([] : Bytes).length n e w :=
  ⟨rfl, rfl, rfl, rfl, rfl, rfl⟩

/-- the evaluated term is the generated one plus the probe at the head of the two loop bodies -/
theorem C17W_dec32_instr :
    stripLeaves "#in[i+0..3]" dec32Gs = gsp_bytesToUint32s ∧
    dec32Gs = .seq (.seq (.assign "i" (.lit (0) .int)) (.loop dec32Body)) .ret :=
  ⟨strip_dec32Gs, dec32Gs_eq⟩

/-- **the loop of `bytesToUint32s` computes `Enc.bytesToUint32s`**: every byte string of length < 2^62, byte order
    1 or 2, every word-order value, fuel ≥ len/4 + 20. Length a multiple of 4: the model returns `some vs`, the run
    returns having appended exactly `vs`, in order. Otherwise the model returns `none` and the run stops in the round
    after the ⌊len/4⌋ complete ones, at the slice expression or the byte literal that runs off the input (Go: slice
    bounds / index out of range panic), having appended the ⌊len/4⌋ complete values. -/
theorem C17W_bytesToUint32s (e w : Int) (he : e = 1 ∨ e = 2) (bs : Bytes) (hn : bs.length < 2^62)
    (fuel : Nat) (hf : bs.length / 4 + 20 ≤ fuel) :
    let r := execFromW (wideWorld bs) fuel dec32Gs (wideDecEnv e w bs.length) []
    (bs.length % 4 = 0 → ∃ vs, Enc.bytesToUint32s (endianOfInt e) (wordOfInt w) bs = some vs ∧
      r.how = .returned ∧ wideAppended r.calls = vs.map u32Val) ∧
    (bs.length % 4 ≠ 0 → Enc.bytesToUint32s (endianOfInt e) (wordOfInt w) bs = none ∧
      (∃ args, r.how = .stoppedAt "slice" args ∨ r.how = .stoppedAt "bytes" args) ∧
      ∃ vs : List U32, vs.length = bs.length / 4 ∧ wideAppended r.calls = vs.map u32Val) := by
  obtain ⟨f, rfl⟩ : ∃ f, fuel = f + 3 := ⟨fuel - 3, by omega⟩
  dsimp only
  rw [dec32Gs_eq, dec_whole]
  obtain ⟨l1, l2, l3⟩ := dec32_loop bs hn e w he (bs.length / 4) [] bs
    (Env.write (wideDecEnv e w bs.length) "i" (.int 0)) [] (f + 1) rfl rfl (wideDecEnv_inv e w bs.length)
    (by omega)
  rw [wideAppended_nil, List.nil_append] at l1
  have hm := bytesToUint32s_chunks (endianOfInt e) (wordOfInt w) bs
  constructor
  · intro h4
    rw [seqKW_ret_fell _ _ _ (l2 h4)]
    exact ⟨_, by rw [hm, if_pos h4], rfl, l1⟩
  · intro h4
    obtain ⟨args, ha⟩ := l3 h4
    have hnf : (execFromW (wideWorld bs) (f + 1) (.loop dec32Body)
        (Env.write (wideDecEnv e w bs.length) "i" (.int 0)) []).how ≠ .fell := by
      rcases ha with ha | ha <;> rw [ha] <;> exact fun h => nomatch h
    rw [seqKW_of_not_fell _ _ _ _ hnf]
    exact ⟨by rw [hm, if_neg h4], ⟨args, ha⟩, _, wideChunks32_length _ _ bs, l1⟩

/-! ## 5. `bytesToUint64s` -/

theorem C17W_dec64_instr :
    stripLeaves "#in[i+0..7]" dec64Gs = gsp_bytesToUint64s ∧
    dec64Gs = .seq (.seq (.assign "i" (.lit (0) .int)) (.loop dec64Body)) .ret :=
  ⟨strip_dec64Gs, dec64Gs_eq⟩

/-- **the loop of `bytesToUint64s` computes `Enc.bytesToUint64s`**, likewise with 8 -/
theorem C17W_bytesToUint64s (e w : Int) (he : e = 1 ∨ e = 2) (bs : Bytes) (hn : bs.length < 2^62)
    (fuel : Nat) (hf : bs.length / 8 + 20 ≤ fuel) :
    let r := execFromW (wideWorld bs) fuel dec64Gs (wideDecEnv e w bs.length) []
    (bs.length % 8 = 0 → ∃ vs, Enc.bytesToUint64s (endianOfInt e) (wordOfInt w) bs = some vs ∧
      r.how = .returned ∧ wideAppended r.calls = vs.map u64Val) ∧
    (bs.length % 8 ≠ 0 → Enc.bytesToUint64s (endianOfInt e) (wordOfInt w) bs = none ∧
      (∃ args, r.how = .stoppedAt "slice" args ∨ r.how = .stoppedAt "bytes" args) ∧
      ∃ vs : List U64, vs.length = bs.length / 8 ∧ wideAppended r.calls = vs.map u64Val) := by
  obtain ⟨f, rfl⟩ : ∃ f, fuel = f + 3 := ⟨fuel - 3, by omega⟩
  dsimp only
  rw [dec64Gs_eq, dec_whole]
  obtain ⟨l1, l2, l3⟩ := dec64_loop bs hn e w he (bs.length / 8) [] bs
    (Env.write (wideDecEnv e w bs.length) "i" (.int 0)) [] (f + 1) rfl rfl (wideDecEnv_inv e w bs.length)
    (by omega)
  rw [wideAppended_nil, List.nil_append] at l1
  have hm := bytesToUint64s_chunks (endianOfInt e) (wordOfInt w) bs.length bs rfl
  constructor
  · intro h8
    rw [seqKW_ret_fell _ _ _ (l2 h8)]
    exact ⟨_, by rw [hm, if_pos h8], rfl, l1⟩
  · intro h8
    obtain ⟨args, ha⟩ := l3 h8
    have hnf : (execFromW (wideWorld bs) (f + 1) (.loop dec64Body)
        (Env.write (wideDecEnv e w bs.length) "i" (.int 0)) []).how ≠ .fell := by
      rcases ha with ha | ha <;> rw [ha] <;> exact fun h => nomatch h
    rw [seqKW_of_not_fell _ _ _ _ hnf]
    exact ⟨by rw [hm, if_neg h8], ⟨args, ha⟩, _, wideChunks64_length _ _ bs.length bs rfl, l1⟩

/-! ## 5b. the decoders with an invalid byte order -/

/-- **a byte order that is neither constant** (out of contract: `SetEncoding` rejects it, C16): no `case` matches,
    no element of `in` is read, every round appends the zero value of `u32` — ⌈len/4⌉ zeros, for EVERY length, and
    the function returns. The model agrees when the length is a multiple of 4 (`len/4` zeros) and says `none`
    otherwise: on those inputs (e.g. 6 bytes, `C17W_decode_invalid_endianness`) source and model DIFFER; this is
    the divergence documented at the head of Model/Encoding.lean, not reachable through the public API. -/
theorem C17W_bytesToUint32s_invalid (e w : Int) (h1 : ¬ e = 1) (h2 : ¬ e = 2) (bs : Bytes)
    (hn : bs.length < 2^62) (fuel : Nat) (hf : bs.length / 4 + 21 ≤ fuel) :
    let r := execFromW (wideWorld bs) fuel dec32Gs (wideDecEnv e w bs.length) []
    r.how = .returned ∧ wideAppended r.calls = List.replicate ((bs.length + (4 - 1)) / 4) (.int 0) ∧
    Enc.bytesToUint32s (endianOfInt e) (wordOfInt w) bs =
      (if bs.length % 4 = 0 then some (List.replicate (bs.length / 4) 0) else none) := by
  obtain ⟨f, rfl⟩ : ∃ f, fuel = f + 3 := ⟨fuel - 3, by omega⟩
  dsimp only
  rw [dec32Gs_eq, dec_whole]
  obtain ⟨l1, l2⟩ := dec32_loop_invalid bs bs.length hn e w h1 h2 ((bs.length + (4 - 1)) / 4) 0
    (Env.write (wideDecEnv e w bs.length) "i" (.int 0)) [] (f + 1) (by rw [Nat.sub_zero])
    (wideDecEnv_inv e w bs.length) rfl (by omega)
  rw [seqKW_ret_fell _ _ _ l1]
  refine ⟨rfl, by rw [l2, wideAppended_nil, List.nil_append], ?_⟩
  rw [bytesToUint32s_chunks, wide_endian_invalid h1 h2, wideChunks32_invalid]

/-- **a byte order that is neither constant** (out of contract: `SetEncoding` rejects it, C16): no `case` matches,
    no element of `in` is read, every round appends the zero value of `u64` — ⌈len/8⌉ zeros, for EVERY length, and
    the function returns. The model agrees when the length is a multiple of 8 (`len/8` zeros) and says `none`
    otherwise: on those inputs (e.g. 6 bytes, `C17W_decode_invalid_endianness`) source and model DIFFER; this is
    the divergence documented at the head of Model/Encoding.lean, not reachable through the public API. -/
theorem C17W_bytesToUint64s_invalid (e w : Int) (h1 : ¬ e = 1) (h2 : ¬ e = 2) (bs : Bytes)
    (hn : bs.length < 2^62) (fuel : Nat) (hf : bs.length / 8 + 21 ≤ fuel) :
    let r := execFromW (wideWorld bs) fuel dec64Gs (wideDecEnv e w bs.length) []
    r.how = .returned ∧ wideAppended r.calls = List.replicate ((bs.length + (8 - 1)) / 8) (.int 0) ∧
    Enc.bytesToUint64s (endianOfInt e) (wordOfInt w) bs =
      (if bs.length % 8 = 0 then some (List.replicate (bs.length / 8) 0) else none) := by
  obtain ⟨f, rfl⟩ : ∃ f, fuel = f + 3 := ⟨fuel - 3, by omega⟩
  dsimp only
  rw [dec64Gs_eq, dec_whole]
  obtain ⟨l1, l2⟩ := dec64_loop_invalid bs bs.length hn e w h1 h2 ((bs.length + (8 - 1)) / 8) 0
    (Env.write (wideDecEnv e w bs.length) "i" (.int 0)) [] (f + 1) (by rw [Nat.sub_zero])
    (wideDecEnv_inv e w bs.length) rfl (by omega)
  rw [seqKW_ret_fell _ _ _ l1]
  refine ⟨rfl, by rw [l2, wideAppended_nil, List.nil_append], ?_⟩
  rw [bytesToUint64s_chunks _ _ bs.length bs rfl, wide_endian_invalid h1 h2, wideChunks64_invalid _ bs.length bs rfl]

/-! ## 6. `bytesToFloat32s`, `bytesToFloat64s` -/

/-- entry environment of `bytesToFloat32s`: the parameters, the (nil) result, and the leaf `len(u32s)` bound to the
    length of the integer decoder's result (the meaning of the leaf; it is read after `u32s` is assigned) -/
def wideFloatDec32Env (e w : Int) (n : Nat) : Env :=
  [("endianness", .int e), ("wordOrder", .int w), ("in", .sym "in"), ("len(u32s)", .int (n : Int)),
   ("out", .sym "out")]

theorem C17W_decF32_instr :
    stripLeaves "#u32s[#i]" decF32Gs = gsp_bytesToFloat32s ∧ decF32Gs = decF32With (.loop decF32Body) :=
  ⟨strip_decF32Gs, decF32Gs_eq⟩

/-- the wrapper on a decoder result `vs` (every list, every selector pair): one call to the integer decoder with
    `(endianness, wordOrder, in)`, then `math.Float32frombits` of every element appended in order -/
theorem C17W_bytesToFloat32s (e w : Int) (vs : List U32) (hn : vs.length < 2^62) (fuel : Nat)
    (hf : vs.length + 20 ≤ fuel) :
    let r := execFromW (wideFloatWorld (vs.map (fun v => (v.toNat : Int)))) fuel decF32Gs
      (wideFloatDec32Env e w vs.length) []
    r.how = .returned ∧ r.argsOf "bytesToUint32s" = [[.int e, .int w, .sym "in"]] ∧
    wideAppended r.calls = vs.map u32Val := by
  obtain ⟨f, rfl⟩ : ∃ f, fuel = f + 5 := ⟨fuel - 5, by omega⟩
  dsimp only
  have hl : (vs.map (fun v => (v.toNat : Int))).length = vs.length := List.length_map _
  rw [decF32Gs_eq, decF32_whole _ _ (wideFloatDec32Env e w vs.length) f e w vs.length rfl rfl rfl rfl]
  obtain ⟨l1, l2, l3⟩ := decF32_loop (vs.map (fun v => (v.toNat : Int))) (by rw [hl]; exact hn) vs.length 0
    (Env.write (Env.write (Env.write (wideFloatDec32Env e w vs.length) "u32s" (.sym "u32s")) "#len(u32s)"
      (.int (vs.length : Int))) "#i" (.int 0))
    [("bytesToUint32s", [.int e, .int w, .sym "in"])] (f + 1) (by rw [hl]; omega)
    (by rw [hl]; exact ⟨rfl, rfl, rfl⟩) (by omega)
  rw [seqKW_ret_fell _ _ _ l1]
  refine ⟨rfl, ?_, ?_⟩
  · rw [← wideArgs_eq_argsOf]; exact l3
  · rw [l2, List.drop_zero, List.map_map]; rfl

/-- entry environment of `bytesToFloat64s`: the parameters, the (nil) result, and the leaf `len(u64s)` bound to the
    length of the integer decoder's result (the meaning of the leaf; it is read after `u64s` is assigned) -/
def wideFloatDec64Env (e w : Int) (n : Nat) : Env :=
  [("endianness", .int e), ("wordOrder", .int w), ("in", .sym "in"), ("len(u64s)", .int (n : Int)),
   ("out", .sym "out")]

theorem C17W_decF64_instr :
    stripLeaves "#u64s[#i]" decF64Gs = gsp_bytesToFloat64s ∧ decF64Gs = decF64With (.loop decF64Body) :=
  ⟨strip_decF64Gs, decF64Gs_eq⟩

/-- likewise for 64 bits -/
theorem C17W_bytesToFloat64s (e w : Int) (vs : List U64) (hn : vs.length < 2^62) (fuel : Nat)
    (hf : vs.length + 20 ≤ fuel) :
    let r := execFromW (wideFloatWorld (vs.map (fun v => (v.toNat : Int)))) fuel decF64Gs
      (wideFloatDec64Env e w vs.length) []
    r.how = .returned ∧ r.argsOf "bytesToUint64s" = [[.int e, .int w, .sym "in"]] ∧
    wideAppended r.calls = vs.map u64Val := by
  obtain ⟨f, rfl⟩ : ∃ f, fuel = f + 5 := ⟨fuel - 5, by omega⟩
  dsimp only
  have hl : (vs.map (fun v => (v.toNat : Int))).length = vs.length := List.length_map _
  rw [decF64Gs_eq, decF64_whole _ _ (wideFloatDec64Env e w vs.length) f e w vs.length rfl rfl rfl rfl]
  obtain ⟨l1, l2, l3⟩ := decF64_loop (vs.map (fun v => (v.toNat : Int))) (by rw [hl]; exact hn) vs.length 0
    (Env.write (Env.write (Env.write (wideFloatDec64Env e w vs.length) "u64s" (.sym "u64s")) "#len(u64s)"
      (.int (vs.length : Int))) "#i" (.int 0))
    [("bytesToUint64s", [.int e, .int w, .sym "in"])] (f + 1) (by rw [hl]; omega)
    (by rw [hl]; exact ⟨rfl, rfl, rfl⟩) (by omega)
  rw [seqKW_ret_fell _ _ _ l1]
  refine ⟨rfl, ?_, ?_⟩
  · rw [← wideArgs_eq_argsOf]; exact l3
  · rw [l2, List.drop_zero, List.map_map]; rfl

/-- **the float decoders are the integer decoder followed by `math.Float32frombits` / `Float64frombits` per element,
    in order**: for every input of a length that is a multiple of the element size and every valid selector pair,
    the integer decoder's run appends the model's values `vs` (`C17W_bytesToUint32s`), and the float wrapper, run
    with `u32s` denoting that list, calls the integer decoder exactly once, with `(endianness, wordOrder, in)`,
    and appends the same bit patterns in the same order -/
theorem C17W_bytesToFloats (e w : Int) (he : e = 1 ∨ e = 2) (bs : Bytes) (hn : bs.length < 2^62) (fuel : Nat)
    (hf : bs.length + 20 ≤ fuel) :
    (bs.length % 4 = 0 → ∃ vs : List U32,
      Enc.bytesToUint32s (endianOfInt e) (wordOfInt w) bs = some vs ∧
      wideAppended (execFromW (wideWorld bs) fuel dec32Gs (wideDecEnv e w bs.length) []).calls = vs.map u32Val ∧
      let r := execFromW (wideFloatWorld (vs.map (fun v => (v.toNat : Int)))) fuel decF32Gs
        (wideFloatDec32Env e w vs.length) []
      r.how = .returned ∧ r.argsOf "bytesToUint32s" = [[.int e, .int w, .sym "in"]] ∧
      wideAppended r.calls = vs.map u32Val) ∧
    (bs.length % 8 = 0 → ∃ vs : List U64,
      Enc.bytesToUint64s (endianOfInt e) (wordOfInt w) bs = some vs ∧
      wideAppended (execFromW (wideWorld bs) fuel dec64Gs (wideDecEnv e w bs.length) []).calls = vs.map u64Val ∧
      let r := execFromW (wideFloatWorld (vs.map (fun v => (v.toNat : Int)))) fuel decF64Gs
        (wideFloatDec64Env e w vs.length) []
      r.how = .returned ∧ r.argsOf "bytesToUint64s" = [[.int e, .int w, .sym "in"]] ∧
      wideAppended r.calls = vs.map u64Val) := by
  constructor
  · intro h4
    obtain ⟨vs, hm, _, ha⟩ := (C17W_bytesToUint32s e w he bs hn fuel (by omega)).1 h4
    have hch := bytesToUint32s_chunks (endianOfInt e) (wordOfInt w) bs
    rw [if_pos h4, hm] at hch
    have hlen : vs.length = bs.length / 4 := by
      rw [Option.some.inj hch]; exact wideChunks32_length _ _ bs
    exact ⟨vs, hm, ha, C17W_bytesToFloat32s e w vs (by omega) fuel (by omega)⟩
  · intro h8
    obtain ⟨vs, hm, _, ha⟩ := (C17W_bytesToUint64s e w he bs hn fuel (by omega)).1 h8
    have hch := bytesToUint64s_chunks (endianOfInt e) (wordOfInt w) bs.length bs rfl
    rw [if_pos h8, hm] at hch
    have hlen : vs.length = bs.length / 8 := by
      rw [Option.some.inj hch]; exact wideChunks64_length _ _ bs.length bs rfl
    exact ⟨vs, hm, ha, C17W_bytesToFloat64s e w vs (by omega) fuel (by omega)⟩

/-! ## 7. round trip of the evaluated source -/

theorem wide_map_byteVal_inj : ∀ (a b : Bytes), a.map byteVal = b.map byteVal → a = b
  | [], [], _ => rfl
  | [], _ :: _, h => nomatch h
  | _ :: _, [], h => nomatch h
  | x :: a, y :: b, h => by
    simp only [List.map_cons, List.cons.injEq, byteVal, Val.int.injEq, Int.natCast_inj] at h
    rw [BitVec.eq_of_toNat_eq h.1, wide_map_byteVal_inj a b h.2]

theorem wide_enc32_length (e : Endian) (w : WordOrder) (v : U32) : (Enc.uint32ToBytes e w v).length = 4 := by
  cases e <;> cases w <;> rfl
theorem wide_enc64_length (e : Endian) (w : WordOrder) (v : U64) : (Enc.uint64ToBytes e w v).length = 8 := by
  cases e <;> cases w <;> rfl

theorem wide_endian_valid {e : Int} (he : e = 1 ∨ e = 2) : endianOfInt e ≠ .invalid := by
  rcases he with rfl | rfl <;> exact fun h => nomatch h
theorem wide_word_valid {w : Int} (hw : w = 1 ∨ w = 2) : wordOfInt w ≠ .invalid := by
  rcases hw with rfl | rfl <;> exact fun h => nomatch h

/-- **round trip**: for all four valid selector pairs and every value, the decoder run on the bytes that the
    encoder run leaves in `out[0..]` returns, having appended exactly the value (from items 1/2, 4/5 and the
    model's `u32_roundtrip` / `u64_roundtrip` of Props/C17) -/
theorem C17W_roundtrip_src (e w : Int) (he : e = 1 ∨ e = 2) (hw : w = 1 ∨ w = 2) (fuel : Nat) (hf : 40 ≤ fuel) :
    (∀ (v : U32) (bs : Bytes),
      wideReadAll (exec widePutOracle fuel wideEnc32Gs (wideEnc32Env e w (v.toNat : Int))).env wideOut4 =
        bs.map byteVal →
      let dec := execFromW (wideWorld bs) fuel dec32Gs (wideDecEnv e w bs.length) []
      bs = Enc.uint32ToBytes (endianOfInt e) (wordOfInt w) v ∧ dec.how = .returned ∧
      wideAppended dec.calls = [u32Val v]) ∧
    (∀ (v : U64) (bs : Bytes),
      wideReadAll (exec widePutOracle fuel wideEnc64Gs (wideEnc64Env e w (v.toNat : Int))).env wideOut8 =
        bs.map byteVal →
      let dec := execFromW (wideWorld bs) fuel dec64Gs (wideDecEnv e w bs.length) []
      bs = Enc.uint64ToBytes (endianOfInt e) (wordOfInt w) v ∧ dec.how = .returned ∧
      wideAppended dec.calls = [u64Val v]) := by
  constructor
  · intro v bs hbs
    have h1 := (C17W_uint32ToBytes e w v fuel (by omega)).2.2.1
    rw [hbs] at h1
    have hb := wide_map_byteVal_inj _ _ h1
    subst hb
    have hl := wide_enc32_length (endianOfInt e) (wordOfInt w) v
    obtain ⟨vs, hm, hr, ha⟩ := (C17W_bytesToUint32s e w he _ (by rw [hl]; decide) fuel (by rw [hl]; omega)).1
      (by rw [hl])
    rw [u32_roundtrip _ _ v (wide_endian_valid he) (wide_word_valid hw)] at hm
    rw [← Option.some.inj hm] at ha
    exact ⟨rfl, hr, ha⟩
  · intro v bs hbs
    have h1 := (C17W_uint64ToBytes e w v fuel (by omega)).2.2.1
    rw [hbs] at h1
    have hb := wide_map_byteVal_inj _ _ h1
    subst hb
    have hl := wide_enc64_length (endianOfInt e) (wordOfInt w) v
    obtain ⟨vs, hm, hr, ha⟩ := (C17W_bytesToUint64s e w he _ (by rw [hl]; decide) fuel (by rw [hl]; omega)).1
      (by rw [hl])
    rw [u64_roundtrip _ _ v (wide_endian_valid he) (wide_word_valid hw)] at hm
    rw [← Option.some.inj hm] at ha
    exact ⟨rfl, hr, ha⟩

/-! ## 8. sensitivity: concrete runs (evaluated by the kernel) and variants -/

section sensitivity

/-- the bytes the encoder run leaves in `out[0..3]` / `out[0..7]` -/
def wideEnc32Run (gs : GStmt) (e w v : Int) : List Val :=
  wideReadAll (exec widePutOracle 40 gs (wideEnc32Env e w v)).env wideOut4
def wideEnc64Run (gs : GStmt) (e w v : Int) : List Val :=
  wideReadAll (exec widePutOracle 60 gs (wideEnc64Env e w v)).env wideOut8
/-- how the decoder run ends and the values it appends -/
def wideDec32Run (gs : GStmt) (e w : Int) (bs : Bytes) : End × List Val :=
  let r := execFromW (wideWorld bs) 60 gs (wideDecEnv e w bs.length) []
  (r.how, wideAppended r.calls)

/-- the documented layouts of 0x11223344: big-endian high word first `11 22 33 44`, big-endian low word first
    `33 44 11 22`, little-endian low word first `44 33 22 11`, little-endian high word first `22 11 44 33` -/
theorem C17W_layouts32 :
    wideEnc32Run wideEnc32Gs 1 1 0x11223344 = [.int 0x11, .int 0x22, .int 0x33, .int 0x44] ∧
    wideEnc32Run wideEnc32Gs 1 2 0x11223344 = [.int 0x33, .int 0x44, .int 0x11, .int 0x22] ∧
    wideEnc32Run wideEnc32Gs 2 2 0x11223344 = [.int 0x44, .int 0x33, .int 0x22, .int 0x11] ∧
    wideEnc32Run wideEnc32Gs 2 1 0x11223344 = [.int 0x22, .int 0x11, .int 0x44, .int 0x33] ∧
    wideEnc32Run wideEnc32Gs 3 1 0x11223344 = [.int 0, .int 0, .int 0, .int 0] := by
  decide +kernel

theorem C17W_layouts64 :
    wideEnc64Run wideEnc64Gs 1 1 0x1122334455667788 =
      [.int 0x11, .int 0x22, .int 0x33, .int 0x44, .int 0x55, .int 0x66, .int 0x77, .int 0x88] ∧
    wideEnc64Run wideEnc64Gs 1 2 0x1122334455667788 =
      [.int 0x77, .int 0x88, .int 0x55, .int 0x66, .int 0x33, .int 0x44, .int 0x11, .int 0x22] ∧
    wideEnc64Run wideEnc64Gs 2 2 0x1122334455667788 =
      [.int 0x88, .int 0x77, .int 0x66, .int 0x55, .int 0x44, .int 0x33, .int 0x22, .int 0x11] ∧
    wideEnc64Run wideEnc64Gs 2 1 0x1122334455667788 =
      [.int 0x22, .int 0x11, .int 0x44, .int 0x33, .int 0x66, .int 0x55, .int 0x88, .int 0x77] := by
  decide +kernel

/-- the decoders on the documented layouts give the value back; two values in order; a 6-byte input stops in
    the second round (slice bounds / index out of range) after one value -/
theorem C17W_decode_samples :
    wideDec32Run dec32Gs 1 1 [0x11, 0x22, 0x33, 0x44] = (.returned, [.int 0x11223344]) ∧
    wideDec32Run dec32Gs 1 2 [0x33, 0x44, 0x11, 0x22] = (.returned, [.int 0x11223344]) ∧
    wideDec32Run dec32Gs 2 2 [0x44, 0x33, 0x22, 0x11] = (.returned, [.int 0x11223344]) ∧
    wideDec32Run dec32Gs 2 1 [0x22, 0x11, 0x44, 0x33] = (.returned, [.int 0x11223344]) ∧
    wideDec32Run dec32Gs 1 2 [0x33, 0x44, 0x11, 0x22, 0, 2, 0, 1] = (.returned, [.int 0x11223344, .int 0x00010002]) ∧
    wideDec32Run dec32Gs 1 1 [0x11, 0x22, 0x33, 0x44, 0x55, 0x66] =
      (.stoppedAt "slice" [.sym "in", .int 4, .int 8], [.int 0x11223344]) ∧
    wideDec32Run dec32Gs 2 1 [0x22, 0x11, 0x44, 0x33, 0x55, 0x66] =
      (.stoppedAt "bytes" [.unk, .unk, .int 0x55, .int 0x66], [.int 0x11223344]) ∧
    (let r := execFromW (wideWorld [0x77, 0x88, 0x55, 0x66, 0x33, 0x44, 0x11, 0x22]) 60 dec64Gs
        (wideDecEnv 1 2 8) []
     (r.how, wideAppended r.calls) = (.returned, [.int 0x1122334455667788])) := by
  decide +kernel

/-- invalid byte order in the decoder (outside the theorems above; not reachable through the public API, which
    validates the selectors): no `case` matches, `u32` keeps its zero value, no element is read, so the run
    does NOT stop on a length that is not a multiple of 4: 6 bytes give two zeros, where the model
    (`Enc.bytesToUint32s .invalid`) says `none`; on a multiple of 4 they agree -/
theorem C17W_decode_invalid_endianness :
    wideDec32Run dec32Gs 3 1 [1, 2, 3, 4, 5, 6] = (.returned, [.int 0, .int 0]) ∧
    Enc.bytesToUint32s (endianOfInt 3) (wordOfInt 1) [1, 2, 3, 4, 5, 6] = none ∧
    wideDec32Run dec32Gs 3 1 [1, 2, 3, 4, 5, 6, 7, 8] = (.returned, [.int 0, .int 0]) ∧
    Enc.bytesToUint32s (endianOfInt 3) (wordOfInt 1) [1, 2, 3, 4, 5, 6, 7, 8] = some [0, 0] := by
  decide +kernel

/-- apply `f` to the condition of every `if` -/
def wideMapCond (f : GExpr → GExpr) : GStmt → GStmt
  | .seq a b => .seq (wideMapCond f a) (wideMapCond f b)
  | .ite c t e => .ite (f c) (wideMapCond f t) (wideMapCond f e)
  | .loop b => .loop (wideMapCond f b)
  | s => s
/-- `wordOrder == k` ↦ `wordOrder == 3 - k` (the swap applied for the other word order) -/
def wideFlipWord : GExpr → GExpr
  | .cmp op (.var x t) (.lit v t') =>
    if op = "==" ∧ x = "wordOrder" then .cmp op (.var x t) (.lit (3 - v) t') else .cmp op (.var x t) (.lit v t')
  | e => e
/-- rename the leaf on the right-hand side of every assignment `x = leaf` -/
def wideRenRhs (f : String → String) : GStmt → GStmt
  | .assign x (.var y t) => .assign x (.var (f y) t)
  | .seq a b => .seq (wideRenRhs f a) (wideRenRhs f b)
  | .ite c t e => .ite c (wideRenRhs f t) (wideRenRhs f e)
  | .loop b => .loop (wideRenRhs f b)
  | s => s
def wideRenE (f : String → String) : GExpr → GExpr
  | .var y t => .var (f y) t
  | e => e
/-- rename the leaf arguments of the calls to `callee` -/
def wideRenArgs (callee : String) (f : String → String) : GStmt → GStmt
  | .bindCall ts g as => if g = callee then .bindCall ts g (as.map (wideRenE f)) else .bindCall ts g as
  | .seq a b => .seq (wideRenArgs callee f a) (wideRenArgs callee f b)
  | .ite c t e => .ite c (wideRenArgs callee f t) (wideRenArgs callee f e)
  | .loop b => .loop (wideRenArgs callee f b)
  | s => s
def wideSwapNames (a b : String) (x : String) : String := if x = a then b else if x = b then a else x

/-- variant 1: the word swap applied for the WRONG word order -/
def wideV1 : GStmt := wideMapCond wideFlipWord wideEnc32Gs
/-- variant 2: `out[0], out[1], out[2], out[3] = out[3], out[2], out[0], out[1]` -/
def wideV2 : GStmt := wideRenRhs (wideSwapNames "out[2]" "out[3]") wideEnc32Gs
/-- variant 3: the decoder's byte literal reads `in[i+2], in[i+3], in[i+1], in[i+0]` -/
def wideV3 : GStmt := wideRenArgs "bytes" (wideSwapNames "in[i+0]" "in[i+1]") dec32Gs
/-- variant 4 (64 bit): the swap exchanges 32-bit halves only: `out[0..3], out[4..7] = out[4..7], out[0..3]` -/
def wideV4 : GStmt :=
  wideRenRhs (fun x => if x = "out[6]" then "out[4]" else if x = "out[7]" then "out[5]" else
    if x = "out[4]" then "out[6]" else if x = "out[5]" then "out[7]" else
    if x = "out[2]" then "out[0]" else if x = "out[3]" then "out[1]" else
    if x = "out[0]" then "out[2]" else if x = "out[1]" then "out[3]" else x) wideEnc64Gs

/-- **the variants are told apart**: each gives bytes / a value different from the generated term's on
    0x11223344 (0x1122334455667788) -/
theorem C17W_sensitive :
    -- 1. wrong word order: the two layouts of a byte order are exchanged
    wideEnc32Run wideV1 1 1 0x11223344 = [.int 0x33, .int 0x44, .int 0x11, .int 0x22] ∧
    wideEnc32Run wideEnc32Gs 1 1 0x11223344 = [.int 0x11, .int 0x22, .int 0x33, .int 0x44] ∧
    wideEnc32Run wideV1 2 2 0x11223344 = [.int 0x22, .int 0x11, .int 0x44, .int 0x33] ∧
    wideEnc32Run wideEnc32Gs 2 2 0x11223344 = [.int 0x44, .int 0x33, .int 0x22, .int 0x11] ∧
    -- 2. another permutation
    wideEnc32Run wideV2 1 2 0x11223344 = [.int 0x44, .int 0x33, .int 0x11, .int 0x22] ∧
    wideEnc32Run wideEnc32Gs 1 2 0x11223344 = [.int 0x33, .int 0x44, .int 0x11, .int 0x22] ∧
    -- 3. decoder literal with two bytes exchanged
    wideDec32Run wideV3 1 2 [0x33, 0x44, 0x11, 0x22] = (.returned, [.int 0x11224433]) ∧
    wideDec32Run dec32Gs 1 2 [0x33, 0x44, 0x11, 0x22] = (.returned, [.int 0x11223344]) ∧
    -- 4. 64 bit, halves exchanged instead of the four words reversed
    wideEnc64Run wideV4 1 2 0x1122334455667788 =
      [.int 0x55, .int 0x66, .int 0x77, .int 0x88, .int 0x11, .int 0x22, .int 0x33, .int 0x44] ∧
    wideEnc64Run wideEnc64Gs 1 2 0x1122334455667788 =
      [.int 0x77, .int 0x88, .int 0x55, .int 0x66, .int 0x33, .int 0x44, .int 0x11, .int 0x22] := by
  decide +kernel

/-- why the probes: the generated term as it is (no probe) has no value for `in[i+2]` …: the low-word-first
    decoder stops at its byte literal in the first round; the high-word-first path does not read indexed leaves
    (it takes `in[i:i+4]`, answered from the VALUE of `i`) and runs without them -/
theorem C17W_sensitive_noProbe :
    wideDec32Run gsp_bytesToUint32s 1 2 [0x33, 0x44, 0x11, 0x22] =
      (.stoppedAt "bytes" [.unk, .unk, .unk, .unk], []) ∧
    wideDec32Run gsp_bytesToUint32s 1 1 [0x11, 0x22, 0x33, 0x44, 0, 0, 0, 1] =
      (.returned, [.int 0x11223344, .int 1]) := by
  decide +kernel

end sensitivity

end Modbus.Props.C17

#print axioms Modbus.Props.C17.C17W_enc32_instr
#print axioms Modbus.Props.C17.C17W_enc64_instr
#print axioms Modbus.Props.C17.C17W_uint32ToBytes
#print axioms Modbus.Props.C17.C17W_uint32ToBytes_valid
#print axioms Modbus.Props.C17.C17W_twins
#print axioms Modbus.Props.C17.C17W_uint64ToBytes
#print axioms Modbus.Props.C17.C17W_uint64ToBytes_valid
#print axioms Modbus.Props.C17.C17W_float32ToBytes
#print axioms Modbus.Props.C17.C17W_float64ToBytes
#print axioms Modbus.Props.C17.C17W_floatToBytes
#print axioms Modbus.Props.C17.C17W_dec32_instr
#print axioms Modbus.Props.C17.C17W_bytesToUint32s
#print axioms Modbus.Props.C17.C17W_dec64_instr
#print axioms Modbus.Props.C17.C17W_bytesToUint64s
#print axioms Modbus.Props.C17.C17W_bytesToUint32s_invalid
#print axioms Modbus.Props.C17.C17W_bytesToUint64s_invalid
#print axioms Modbus.Props.C17.C17W_decF32_instr
#print axioms Modbus.Props.C17.C17W_bytesToFloat32s
#print axioms Modbus.Props.C17.C17W_decF64_instr
#print axioms Modbus.Props.C17.C17W_bytesToFloat64s
#print axioms Modbus.Props.C17.C17W_bytesToFloats
#print axioms Modbus.Props.C17.C17W_roundtrip_src
#print axioms Modbus.Props.C17.C17W_layouts32
#print axioms Modbus.Props.C17.C17W_layouts64
#print axioms Modbus.Props.C17.C17W_decode_samples
#print axioms Modbus.Props.C17.C17W_decode_invalid_endianness
#print axioms Modbus.Props.C17.C17W_sensitive
#print axioms Modbus.Props.C17.C17W_sensitive_noProbe
