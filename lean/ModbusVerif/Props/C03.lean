import ModbusVerif.Model.Server
import ModbusVerif.Spec.ServerSpec
import ModbusVerif.Lemmas.ServerLemmas
/-
  Property C03.

  "For every byte sequence received on a connection the server handles complete frames strictly
   in order: a valid supported request causes exactly one invocation of the matching handler with
   the decoded unit id, address, quantity and values, followed by exactly one response that echoes
   transaction id, protocol id 0 and unit id and carries the handler's data, or the exception code
   mapped from the handler's error or from a wrong-sized result. Unsupported function codes are
   answered with an illegal-function exception and address ranges past 0xFFFF with an
   illegal-data-address exception without any handler call, while malformed input (MBAP length
   outside 2..254 or non-zero protocol id, zero or over-limit quantity, inconsistent byte count,
   invalid coil value) never reaches a handler: it is rejected by closing the connection, by an
   illegal-data-value exception or, for a foreign protocol id, by discarding the frame. No input
   makes the server process panic."

  Quantifiers: every byte string `s`, every stream ending `e`, every handler `h : Server.Handler σ`
  (four arbitrary functions over an arbitrary state type: any result, any length, any error).

  `Spec.serverEvents` (Spec/ServerSpec.lean) is the statement of what one complete frame must
  produce; `Spec.session` folds it over pipelined frames. Only statements live here; the proofs
  are in `Lemmas/ServerLemmas.lean`.

  KNOWN FINDING F8. The full-strength frame-step theorem

      theorem C03_frame_step (h : Handler σ) (st : σ) (txn : U16) (req : Pdu) (rest : Bytes)
          (e : Ending) (hp : req.payload.length ≤ 252) :
          Server.run h st (Mbap.assemble txn req ++ rest) e =
            if Spec.staysOpen req then
              ((Server.run h (Spec.serverEvents h st txn req).1 rest e).1,
               (Spec.serverEvents h st txn req).2 ++
                 (Server.run h (Spec.serverEvents h st txn req).1 rest e).2)
            else Spec.serverEvents h st txn req

  is FALSE for the code as it is: when the HANDLER returns `ErrProtocolError` for a valid request,
  the server closes the connection without any response, whereas `Spec.serverEvents` demands the
  exception response with code 04 (server device failure, the code of every undocumented error).
  `C03_handler_protocol_error_counterexample` is the concrete instance, `C03_frame_step_f8` the
  general one; `C03_frame_step_partial` is the theorem under the hypothesis `h.NoProtoErr`
  ("the handler never returns ErrProtocolError"), which is the only thing that has to be excluded.
-/
namespace Modbus.Props.C03
open Modbus Modbus.Server

variable {σ : Type}

/-! ## 3. no input makes the server panic -/

theorem C03_no_panic (h : Handler σ) (st : σ) (s : Bytes) (e : Ending) :
    Event.panic ∉ (Server.run h st s e).2 := by
  intro hm
  exact run_events h (P := fun ev => ev ≠ .panic) (by simp) (by simp) (by simp) (by simp) st s _ hm rfl

/-- the request step itself: no PDU and no handler behaviour yields the panic action
    (the `decodeBools` / `bytesToUint16s` calls are reached with validated lengths only) -/
theorem C03_handle_no_panic (h : Handler σ) (st : σ) (req : Pdu) :
    (Server.handle h st req).2.2 ≠ .panic :=
  handle_ne_panic h st req

/-! ## 2. whatever reaches a handler is in range -/

/-- every handler invocation in any session, for ANY input bytes: quantity in 1..limit, range
    within 0..0xFFFF, writes carry exactly `qty` values, reads none (`Spec.ArgsInRange`) -/
theorem C03_handler_args_in_range (h : Handler σ) (st : σ) (s : Bytes) (e : Ending) (r : HReq)
    (hm : Event.call r ∈ (Server.run h st s e).2) : Spec.ArgsInRange r := by
  have := run_events h (e := e)
    (P := fun ev => ∀ r, ev = .call r → Spec.ArgsInRange r)
    (by simp) (by simp)
    (by intro st req r _ hc r' hr; injection hr with hr; subst hr; exact handle_call_args h st hc)
    (by simp) st s _ hm
  exact this r rfl

/-- spelled out per table (the limits are the protocol's: 2000 / 1968 / 125 / 123) -/
theorem C03_args_coils_read {u : Byte} {addr qty : U16} {args : List Bool}
    (hr : Spec.ArgsInRange (.coils u addr qty false args)) :
    1 ≤ qty.toNat ∧ qty.toNat ≤ 2000 ∧ addr.toNat + qty.toNat - 1 ≤ 0xFFFF ∧ args = [] := hr
theorem C03_args_coils_write {u : Byte} {addr qty : U16} {args : List Bool}
    (hr : Spec.ArgsInRange (.coils u addr qty true args)) :
    1 ≤ qty.toNat ∧ qty.toNat ≤ 1968 ∧ addr.toNat + qty.toNat - 1 ≤ 0xFFFF ∧
      args.length = qty.toNat := hr
theorem C03_args_discrete {u : Byte} {addr qty : U16}
    (hr : Spec.ArgsInRange (.discrete u addr qty)) :
    1 ≤ qty.toNat ∧ qty.toNat ≤ 2000 ∧ addr.toNat + qty.toNat - 1 ≤ 0xFFFF := hr
theorem C03_args_holding_read {u : Byte} {addr qty : U16} {args : List U16}
    (hr : Spec.ArgsInRange (.holding u addr qty false args)) :
    1 ≤ qty.toNat ∧ qty.toNat ≤ 125 ∧ addr.toNat + qty.toNat - 1 ≤ 0xFFFF ∧ args = [] := hr
theorem C03_args_holding_write {u : Byte} {addr qty : U16} {args : List U16}
    (hr : Spec.ArgsInRange (.holding u addr qty true args)) :
    1 ≤ qty.toNat ∧ qty.toNat ≤ 123 ∧ addr.toNat + qty.toNat - 1 ≤ 0xFFFF ∧
      args.length = qty.toNat := hr
theorem C03_args_input {u : Byte} {addr qty : U16}
    (hr : Spec.ArgsInRange (.input u addr qty)) :
    1 ≤ qty.toNat ∧ qty.toNat ≤ 125 ∧ addr.toNat + qty.toNat - 1 ≤ 0xFFFF := hr

/-- and it is the decoded request: a call is made only for a PDU the specification classifies
    as valid, with exactly the specification's decoded arguments -/
theorem C03_call_is_decoded_request (h : Handler σ) (st : σ) (req : Pdu) (r : HReq)
    (hc : (Server.handle h st req).2.1 = some r) :
    Spec.classify req.unit req.fc req.payload = .valid r :=
  handle_call_valid h st hc

/-! ## 6. exception codes -/

theorem C03_exception_codes :
    Server.mapError .illegalFunction = 1 ∧ Server.mapError .illegalDataAddress = 2 ∧
    Server.mapError .illegalDataValue = 3 ∧ Server.mapError .serverDeviceFailure = 4 ∧
    Server.mapError .acknowledge = 5 ∧ Server.mapError .serverDeviceBusy = 6 ∧
    Server.mapError .memoryParityError = 8 ∧ Server.mapError .gwPathUnavailable = 10 ∧
    Server.mapError .gwTargetFailedToRespond = 11 ∧
    (∀ e : Err, e ≠ .illegalFunction → e ≠ .illegalDataAddress → e ≠ .illegalDataValue →
      e ≠ .serverDeviceFailure → e ≠ .acknowledge → e ≠ .serverDeviceBusy →
      e ≠ .memoryParityError → e ≠ .gwPathUnavailable → e ≠ .gwTargetFailedToRespond →
      Server.mapError e = 4) := by
  refine ⟨rfl, rfl, rfl, rfl, rfl, rfl, rfl, rfl, rfl, ?_⟩
  intro e h1 h2 h3 h4 h5 h6 h7 h8 h9
  cases e <;> first | rfl | contradiction

theorem C03_exception_codes_spec (e : Err) : Server.mapError e = Spec.exceptionCode e :=
  mapError_eq e

/-! ## 1. one complete frame; pipelined frames strictly in order, each exactly once -/

/-- frame step (see the header for the full-strength statement and F8) -/
theorem C03_frame_step_partial (h : Handler σ) (hn : h.NoProtoErr) (st : σ) (txn : U16)
    (req : Pdu) (rest : Bytes) (e : Ending) (hp : req.payload.length ≤ 252) :
    Server.run h st (Mbap.assemble txn req ++ rest) e =
      if Spec.staysOpen req then
        ((Server.run h (Spec.serverEvents h st txn req).1 rest e).1,
         (Spec.serverEvents h st txn req).2 ++
           (Server.run h (Spec.serverEvents h st txn req).1 rest e).2)
      else Spec.serverEvents h st txn req := by
  rw [run_frame h st txn req rest e hp, frameStep_spec h st txn req _ (fun r _ => hn.spec st r)]

/-- the same for the fuelled loop, with any sufficient fuel -/
theorem C03_frame_step_partial_runAux (h : Handler σ) (hn : h.NoProtoErr) (st : σ) (txn : U16)
    (req : Pdu) (rest : Bytes) (e : Ending) (hp : req.payload.length ≤ 252) (fuel : Nat)
    (hf : (Mbap.assemble txn req ++ rest).length < fuel) :
    Server.runAux h fuel st (Mbap.assemble txn req ++ rest) e =
      if Spec.staysOpen req then
        ((Server.run h (Spec.serverEvents h st txn req).1 rest e).1,
         (Spec.serverEvents h st txn req).2 ++
           (Server.run h (Spec.serverEvents h st txn req).1 rest e).2)
      else Spec.serverEvents h st txn req := by
  rw [runAux_eq_run h st hf, C03_frame_step_partial h hn st txn req rest e hp]

/-- the fuel of `Server.run` is enough: more changes nothing (the fuel-exhausted branch of
    `runAux` is unreachable, "the loop terminates on every finite stream") -/
theorem C03_fuel_suffices (h : Handler σ) (st : σ) (s : Bytes) (e : Ending) (k : Nat) :
    Server.runAux h (s.length + 1 + k) st s e = Server.run h st s e :=
  Server.fuel_suffices h st s e k

/-- the same step under the local hypothesis that THIS request is not answered with
    `ErrProtocolError` -/
theorem C03_frame_step_local (h : Handler σ) (st : σ) (txn : U16)
    (req : Pdu) (rest : Bytes) (e : Ending) (hp : req.payload.length ≤ 252)
    (hne : ∀ r, Spec.classify req.unit req.fc req.payload = .valid r →
      (Spec.invoke h st r).2 ≠ .error .protocolError) :
    Server.run h st (Mbap.assemble txn req ++ rest) e =
      if Spec.staysOpen req then
        ((Server.run h (Spec.serverEvents h st txn req).1 rest e).1,
         (Spec.serverEvents h st txn req).2 ++
           (Server.run h (Spec.serverEvents h st txn req).1 rest e).2)
      else Spec.serverEvents h st txn req := by
  rw [run_frame h st txn req rest e hp, frameStep_spec h st txn req _ hne]

/-- F8 in general: a handler answering a valid request with `ErrProtocolError` is called once,
    then the connection is closed with no response; the rest of the stream is not processed -/
theorem C03_frame_step_f8 (h : Handler σ) (st : σ) (txn : U16) (req : Pdu) (rest : Bytes)
    (e : Ending) (hp : req.payload.length ≤ 252) (r : HReq)
    (hv : Spec.classify req.unit req.fc req.payload = .valid r)
    (he : (Spec.invoke h st r).2 = .error .protocolError) :
    Server.run h st (Mbap.assemble txn req ++ rest) e =
      ((Spec.invoke h st r).1, [.call r, .closed]) := by
  rw [run_frame h st txn req rest e hp, frameStep_f8 h st txn req _ r hv he]

/-- any number of pipelined frames are processed strictly in order, each exactly once,
    followed by whatever the rest of the stream gives (`Spec.session` is the fold of
    `Spec.serverEvents`, stopping at the first frame that closes the connection) -/
theorem C03_pipelined (h : Handler σ) (hn : h.NoProtoErr) (e : Ending) (rest : Bytes) :
    ∀ (frames : List (U16 × Pdu)) (st : σ), (∀ f ∈ frames, f.2.payload.length ≤ 252) →
      Server.run h st (Spec.wire frames ++ rest) e =
        Spec.session h st frames (fun st' => Server.run h st' rest e) := by
  intro frames
  induction frames with
  | nil => intro st _; simp [Spec.wire, Spec.session]
  | cons f fs ih =>
    intro st hf
    obtain ⟨txn, req⟩ := f
    have hp : req.payload.length ≤ 252 := hf (txn, req) List.mem_cons_self
    have e1 : Spec.wire ((txn, req) :: fs) ++ rest = Mbap.assemble txn req ++ (Spec.wire fs ++ rest) := by
      simp [Spec.wire, mbapFrame_eq]
    rw [e1, C03_frame_step_partial h hn st txn req _ e hp, Spec.session]
    split
    · rw [ih _ (fun g hg => hf g (List.mem_cons_of_mem _ hg))]
    · rfl

/-- in particular, frames and then the end of the stream: the session ends with the read error
    of the ending -/
theorem C03_pipelined_end (h : Handler σ) (hn : h.NoProtoErr) (e : Ending)
    (frames : List (U16 × Pdu)) (st : σ) (hf : ∀ f ∈ frames, f.2.payload.length ≤ 252) :
    Server.run h st (Spec.wire frames) e =
      Spec.session h st frames (fun st' => (st', [.ended e.err])) := by
  have := C03_pipelined h hn e [] frames st hf
  simp only [List.append_nil, run_nil] at this
  exact this

/-- the wire format used by the specification is the transport's -/
theorem C03_wire (frames : List (U16 × Pdu)) :
    Spec.wire frames = (frames.map (fun f => Mbap.assemble f.1 f.2)).flatten :=
  wire_eq frames

/-! ## 4. every response fits -/

/-- every response ever written is a well-formed MBAP frame around a PDU of at most 253 bytes:
    at most 260 bytes long, length field exact and ≤ 254 -/
theorem C03_response_fits (h : Handler σ) (st : σ) (s : Bytes) (e : Ending) (f : Bytes)
    (hm : Event.respond f ∈ (Server.run h st s e).2) :
    f.length ≤ 260 ∧ ∃ txn p, f = Mbap.assemble txn p ∧ p.payload.length ≤ 252 ∧
      (Mbap.readFrame f e).1 = .ok p txn := by
  have := run_events h (e := e)
    (P := fun ev => ∀ f, ev = .respond f → f.length ≤ 260 ∧ ∃ txn p, f = Mbap.assemble txn p ∧
      p.payload.length ≤ 252 ∧ (Mbap.readFrame f e).1 = .ok p txn)
    (by simp) (by simp) (by simp)
    (by
      intro st req txn p _ hr f hf
      injection hf with hf; subst hf
      have hp := (handle_respond_fits h st hr).1
      refine ⟨by rw [Mbap.length_assemble]; omega, txn, p, rfl, hp, ?_⟩
      have := Mbap.readFrame_assemble txn p [] e hp
      rw [List.append_nil] at this
      rw [this])
    st s _ hm
  exact this f rfl

/-- the layout of every response frame: transaction id echoed, protocol id 0, an exact length
    field (it counts unit id, function code and payload: at most 254), then unit id and PDU -/
theorem C03_response_layout (txn : U16) (p : Pdu) (hp : p.payload.length ≤ 252) :
    ∃ l0 l1, Mbap.assemble txn p = hi txn :: lo txn :: 0 :: 0 :: l0 :: l1 :: p.unit :: p.fc :: p.payload ∧
      (mk16 l0 l1).toNat = 2 + p.payload.length ∧ (mk16 l0 l1).toNat ≤ 254 := by
  refine ⟨hi (u16OfNat (2 + p.payload.length)), lo (u16OfNat (2 + p.payload.length)), ?_, ?_, ?_⟩
  · simp [Mbap.assemble, be16]
  · rw [Mbap.mk16_hi_lo, Mbap.toNat_u16OfNat (by omega)]
  · rw [Mbap.mk16_hi_lo, Mbap.toNat_u16OfNat (by omega)]; omega

/-- a valid request, spelled out: exactly one call of the matching handler with the decoded
    arguments, then exactly one response carrying the unit id of the request; then the rest of
    the stream (handler not answering with `ErrProtocolError`, F8) -/
theorem C03_valid_request (h : Handler σ) (st : σ) (txn : U16) (req : Pdu) (rest : Bytes)
    (e : Ending) (hp : req.payload.length ≤ 252) (r : HReq)
    (hv : Spec.classify req.unit req.fc req.payload = .valid r)
    (hne : (Spec.invoke h st r).2 ≠ .error .protocolError) :
    Server.run h st (Mbap.assemble txn req ++ rest) e =
      ((Server.run h (Spec.invoke h st r).1 rest e).1,
        .call r :: .respond (Mbap.assemble txn (Spec.replyPdu req r (Spec.invoke h st r).2)) ::
          (Server.run h (Spec.invoke h st r).1 rest e).2) ∧
    (Spec.replyPdu req r (Spec.invoke h st r).2).unit = req.unit ∧
    (Spec.replyPdu req r (Spec.invoke h st r).2).payload.length ≤ 252 := by
  refine ⟨?_, replyPdu_unit _ _ _, reply_fits h st req r (classify_valid_args hv)⟩
  rw [C03_frame_step_local h st txn req rest e hp
    (by intro r' hr'; rw [hv] at hr'; injection hr' with hr'; subst hr'; exact hne)]
  simp [Spec.staysOpen, Spec.serverEvents, hv, mbapFrame_eq]

/-! ## 5. a bad MBAP header never reaches a handler -/

/-- MBAP length field outside 2..254: the session ends with a protocol error, no call -/
theorem C03_bad_length_no_call (h : Handler σ) (st : σ) (e : Ending)
    (t0 t1 p0 p1 l0 l1 u : Byte) (tl : Bytes)
    (hl : (mk16 l0 l1).toNat < 2 ∨ 254 < (mk16 l0 l1).toNat) :
    Server.run h st (t0 :: t1 :: p0 :: p1 :: l0 :: l1 :: u :: tl) e = (st, [.ended .protocolError]) :=
  run_of_err h st (Mbap.readFrame_cons7_badlen e (by omega))

/-- non-zero protocol id (length in range, body present): the session ends, no call -/
theorem C03_bad_proto_no_call (h : Handler σ) (st : σ) (e : Ending)
    (t0 t1 p0 p1 l0 l1 u : Byte) (tl : Bytes)
    (h2 : 2 ≤ (mk16 l0 l1).toNat) (h254 : (mk16 l0 l1).toNat ≤ 254)
    (hbody : (mk16 l0 l1).toNat - 1 ≤ tl.length) (hproto : mk16 p0 p1 ≠ 0) :
    Server.run h st (t0 :: t1 :: p0 :: p1 :: l0 :: l1 :: u :: tl) e =
      (st, [.ended .unknownProtocolId]) := by
  have hsplit : tl = tl.take ((mk16 l0 l1).toNat - 1) ++ tl.drop ((mk16 l0 l1).toNat - 1) :=
    (List.take_append_drop _ _).symm
  have hb : (tl.take ((mk16 l0 l1).toNat - 1)).length = (mk16 l0 l1).toNat - 1 := by
    rw [List.length_take]; omega
  have := Mbap.readFrame_cons7_ok (t0 := t0) (t1 := t1) (p0 := p0) (p1 := p1) (u := u)
    (rest := tl.drop ((mk16 l0 l1).toNat - 1)) e h2 h254 hb
  rw [← hsplit, if_pos hproto] at this
  exact run_of_err h st this

/-- both together, as in the property: no `call` event, the session has ended -/
theorem C03_bad_header_no_call (h : Handler σ) (st : σ) (e : Ending)
    (t0 t1 p0 p1 l0 l1 u : Byte) (tl : Bytes)
    (hbad : ((mk16 l0 l1).toNat < 2 ∨ 254 < (mk16 l0 l1).toNat) ∨
      ((mk16 l0 l1).toNat - 1 ≤ tl.length ∧ mk16 p0 p1 ≠ 0)) :
    ∃ err, Server.run h st (t0 :: t1 :: p0 :: p1 :: l0 :: l1 :: u :: tl) e = (st, [.ended err]) ∧
      ∀ r, Event.call r ∉ (Server.run h st (t0 :: t1 :: p0 :: p1 :: l0 :: l1 :: u :: tl) e).2 := by
  by_cases hl : (mk16 l0 l1).toNat < 2 ∨ 254 < (mk16 l0 l1).toNat
  · refine ⟨_, C03_bad_length_no_call h st e t0 t1 p0 p1 l0 l1 u tl hl, ?_⟩
    rw [C03_bad_length_no_call h st e t0 t1 p0 p1 l0 l1 u tl hl]; simp
  · rcases hbad with hbad | ⟨hb, hp⟩
    · exact absurd hbad hl
    · have e1 := C03_bad_proto_no_call h st e t0 t1 p0 p1 l0 l1 u tl (by omega) (by omega) hb hp
      refine ⟨_, e1, ?_⟩
      rw [e1]; simp

/-- a whole frame with a foreign protocol id is consumed and ends the session -/
theorem C03_foreign_proto_frame (h : Handler σ) (st : σ) (e : Ending) (proto txn : U16) (p : Pdu)
    (rest : Bytes) (hp : p.payload.length ≤ 252) (hproto : proto ≠ 0) :
    Server.run h st (Mbap.assembleProto proto txn p ++ rest) e = (st, [.ended .unknownProtocolId]) :=
  run_of_err h st (Mbap.readFrame_assembleProto_ne proto txn p rest e hp hproto)

/-- malformed PDUs (zero / over-limit quantity, inconsistent byte count, invalid coil value,
    wrong payload size): the connection is closed, no handler call, nothing after it is processed -/
theorem C03_malformed_closes (h : Handler σ) (st : σ) (txn : U16) (req : Pdu) (rest : Bytes)
    (e : Ending) (hp : req.payload.length ≤ 252)
    (hm : Spec.classify req.unit req.fc req.payload = .malformed) :
    Server.run h st (Mbap.assemble txn req ++ rest) e = (st, [.closed]) := by
  rw [C03_frame_step_local h st txn req rest e hp (by intro r hr; rw [hm] at hr; cases hr)]
  simp [Spec.staysOpen, Spec.serverEvents, hm]

/-- unsupported function code: illegal-function exception, no call, session goes on -/
theorem C03_unsupported (h : Handler σ) (st : σ) (txn : U16) (req : Pdu) (rest : Bytes)
    (e : Ending) (hp : req.payload.length ≤ 252)
    (hm : Spec.classify req.unit req.fc req.payload = .unsupported) :
    Server.run h st (Mbap.assemble txn req ++ rest) e =
      ((Server.run h st rest e).1,
        .respond (Mbap.assemble txn ⟨req.unit, req.fc ||| 0x80, [1]⟩) :: (Server.run h st rest e).2) := by
  rw [C03_frame_step_local h st txn req rest e hp (by intro r hr; rw [hm] at hr; cases hr)]
  simp [Spec.staysOpen, Spec.serverEvents, hm, mbapFrame_eq, Spec.excPdu]

/-- "unsupported" is exactly: a function code other than 01–06, 0F, 10 (whatever the payload) -/
theorem C03_unsupported_iff (u fc : Byte) (pl : Bytes) :
    Spec.classify u fc pl = .unsupported ↔
      (fc ≠ 1 ∧ fc ≠ 2 ∧ fc ≠ 3 ∧ fc ≠ 4 ∧ fc ≠ 5 ∧ fc ≠ 6 ∧ fc ≠ 15 ∧ fc ≠ 16) :=
  classify_unsupported_iff u fc pl

/-- address range past 0xFFFF: illegal-data-address exception, no call, session goes on -/
theorem C03_addr_range (h : Handler σ) (st : σ) (txn : U16) (req : Pdu) (rest : Bytes)
    (e : Ending) (hp : req.payload.length ≤ 252)
    (hm : Spec.classify req.unit req.fc req.payload = .addrRange) :
    Server.run h st (Mbap.assemble txn req ++ rest) e =
      ((Server.run h st rest e).1,
        .respond (Mbap.assemble txn ⟨req.unit, req.fc ||| 0x80, [2]⟩) :: (Server.run h st rest e).2) := by
  rw [C03_frame_step_local h st txn req rest e hp (by intro r hr; rw [hm] at hr; cases hr)]
  simp [Spec.staysOpen, Spec.serverEvents, hm, mbapFrame_eq, Spec.excPdu]

/-! ## non-vacuity, and the counterexample for F8 -/

-- `Server.constHandler bits regs` : a stateless handler answering every table with a fixed result

-- read holding registers 0..1 from unit 1: one call, one response with the handler's data
example :
    Server.run (constHandler (.ok []) (.ok [0x1234, 0x5678])) ()
      [0x00, 0x01, 0x00, 0x00, 0x00, 0x06, 0x01, 0x03, 0x00, 0x00, 0x00, 0x02] .eof =
    ((), [.call (.holding 0x01 0 2 false []),
          .respond [0x00, 0x01, 0x00, 0x00, 0x00, 0x07, 0x01, 0x03, 0x04, 0x12, 0x34, 0x56, 0x78],
          .ended .ioEOF]) := by decide

-- the same through the specification
example :
    Spec.serverEvents (constHandler (.ok []) (.ok [0x1234, 0x5678])) () 0x0001
      ⟨0x01, 0x03, [0x00, 0x00, 0x00, 0x02]⟩ =
    ((), [.call (.holding 0x01 0 2 false []),
          .respond [0x00, 0x01, 0x00, 0x00, 0x00, 0x07, 0x01, 0x03, 0x04, 0x12, 0x34, 0x56, 0x78]]) := by
  decide

-- read 10 coils (fc 01) from unit 0x11: packed LSB first, through `C03_frame_step_partial`
example :
    Server.run (constHandler (.ok [true, false, true, true, false, false, false, false, true, true])
        (.ok [])) ()
      (Mbap.assemble 0x0102 ⟨0x11, 0x01, [0x00, 0x13, 0x00, 0x0A]⟩) .timeout =
    ((), [.call (.coils 0x11 0x13 10 false []),
          .respond [0x01, 0x02, 0x00, 0x00, 0x00, 0x05, 0x11, 0x01, 0x02, 0x0D, 0x03],
          .ended .ioTimeout]) := by
  have := C03_frame_step_partial _
    (constHandler_noProtoErr (.ok [true, false, true, true, false, false, false, false, true, true])
      (.ok []) (by simp) (by simp)) () 0x0102 ⟨0x11, 0x01, [0x00, 0x13, 0x00, 0x0A]⟩ [] .timeout (by decide)
  rw [List.append_nil] at this
  rw [this]
  decide

-- wrong-sized result (3 registers for quantity 2): exception 04
example :
    Server.run (constHandler (.ok []) (.ok [1, 2, 3])) ()
      [0x00, 0x01, 0x00, 0x00, 0x00, 0x06, 0x01, 0x03, 0x00, 0x00, 0x00, 0x02] .eof =
    ((), [.call (.holding 0x01 0 2 false []),
          .respond [0x00, 0x01, 0x00, 0x00, 0x00, 0x03, 0x01, 0x83, 0x04], .ended .ioEOF]) := by decide

-- nil result: exception 04
example :
    Server.run (constHandler (.ok []) (.ok [])) ()
      [0x00, 0x01, 0x00, 0x00, 0x00, 0x06, 0x01, 0x04, 0x00, 0x00, 0x00, 0x02] .eof =
    ((), [.call (.input 0x01 0 2),
          .respond [0x00, 0x01, 0x00, 0x00, 0x00, 0x03, 0x01, 0x84, 0x04], .ended .ioEOF]) := by decide

-- documented handler error: its exception code (illegal data address = 02; gateway target = 0B)
example :
    Server.run (constHandler (.error .illegalDataAddress) (.ok [])) ()
      [0x00, 0x07, 0x00, 0x00, 0x00, 0x06, 0x09, 0x02, 0x00, 0x00, 0x00, 0x08] .eof =
    ((), [.call (.discrete 0x09 0 8),
          .respond [0x00, 0x07, 0x00, 0x00, 0x00, 0x03, 0x09, 0x82, 0x02], .ended .ioEOF]) := by decide
example :
    Server.run (constHandler (.ok []) (.error .gwTargetFailedToRespond)) ()
      [0x00, 0x07, 0x00, 0x00, 0x00, 0x06, 0x09, 0x06, 0x00, 0x10, 0xAB, 0xCD] .eof =
    ((), [.call (.holding 0x09 0x10 1 true [0xABCD]),
          .respond [0x00, 0x07, 0x00, 0x00, 0x00, 0x03, 0x09, 0x86, 0x0B], .ended .ioEOF]) := by decide

-- arbitrary (non-modbus) handler error: server device failure 04
example :
    Server.run (constHandler (.ok []) (.error .ioOther)) ()
      [0x00, 0x07, 0x00, 0x00, 0x00, 0x06, 0x09, 0x03, 0x00, 0x10, 0x00, 0x01] .eof =
    ((), [.call (.holding 0x09 0x10 1 false []),
          .respond [0x00, 0x07, 0x00, 0x00, 0x00, 0x03, 0x09, 0x83, 0x04], .ended .ioEOF]) := by decide

-- write single coil FF00: decoded `true`, echo; invalid value 1234: closed without a call
example :
    Server.run (constHandler (.ok []) (.ok [])) ()
      [0x00, 0x02, 0x00, 0x00, 0x00, 0x06, 0x01, 0x05, 0x00, 0xAC, 0xFF, 0x00] .reset =
    ((), [.call (.coils 0x01 0xAC 1 true [true]),
          .respond [0x00, 0x02, 0x00, 0x00, 0x00, 0x06, 0x01, 0x05, 0x00, 0xAC, 0xFF, 0x00],
          .ended .ioOther]) := by decide
example :
    Server.run (constHandler (.ok []) (.ok [])) ()
      [0x00, 0x02, 0x00, 0x00, 0x00, 0x06, 0x01, 0x05, 0x00, 0xAC, 0x12, 0x34] .reset =
    ((), [.closed]) := by decide

-- write 10 coils (fc 0F): bits LSB first; write 2 registers (fc 10): big-endian
example :
    Server.run (constHandler (.ok []) (.ok [])) ()
      [0x00, 0x03, 0x00, 0x00, 0x00, 0x09, 0x01, 0x0F, 0x00, 0x13, 0x00, 0x0A, 0x02, 0xCD, 0x01] .eof =
    ((), [.call (.coils 0x01 0x13 10 true
            [true, false, true, true, false, false, true, true, true, false]),
          .respond [0x00, 0x03, 0x00, 0x00, 0x00, 0x06, 0x01, 0x0F, 0x00, 0x13, 0x00, 0x0A],
          .ended .ioEOF]) := by decide
example :
    Server.run (constHandler (.ok []) (.ok [])) ()
      [0x00, 0x04, 0x00, 0x00, 0x00, 0x0B, 0x01, 0x10, 0x00, 0x01, 0x00, 0x02, 0x04, 0x00, 0x0A, 0x01, 0x02]
      .eof =
    ((), [.call (.holding 0x01 1 2 true [0x000A, 0x0102]),
          .respond [0x00, 0x04, 0x00, 0x00, 0x00, 0x06, 0x01, 0x10, 0x00, 0x01, 0x00, 0x02],
          .ended .ioEOF]) := by decide

-- unsupported function code 0x2B: exception 01, no call
example :
    Server.run (constHandler (.ok []) (.ok [])) ()
      [0x00, 0x05, 0x00, 0x00, 0x00, 0x04, 0x01, 0x2B, 0x0E, 0x01] .eof =
    ((), [.respond [0x00, 0x05, 0x00, 0x00, 0x00, 0x03, 0x01, 0xAB, 0x01], .ended .ioEOF]) := by decide

-- address range past 0xFFFF: exception 02, no call
example :
    Server.run (constHandler (.ok []) (.ok [])) ()
      [0x00, 0x06, 0x00, 0x00, 0x00, 0x06, 0x01, 0x03, 0xFF, 0xFF, 0x00, 0x02] .eof =
    ((), [.respond [0x00, 0x06, 0x00, 0x00, 0x00, 0x03, 0x01, 0x83, 0x02], .ended .ioEOF]) := by decide

-- precedence: fc 10 with good quantity, range past 0xFFFF AND wrong byte count: exception 02
example :
    Server.run (constHandler (.ok []) (.ok [])) ()
      [0x00, 0x06, 0x00, 0x00, 0x00, 0x09, 0x01, 0x10, 0xFF, 0xFF, 0x00, 0x02, 0x07, 0x00, 0x0A] .eof =
    ((), [.respond [0x00, 0x06, 0x00, 0x00, 0x00, 0x03, 0x01, 0x90, 0x02], .ended .ioEOF]) := by decide
example : Spec.classify 0x01 0x10 [0xFF, 0xFF, 0x00, 0x02, 0x07, 0x00, 0x0A] = .addrRange := by decide

-- precedence: quantity 0 with a range that would be fine / over-limit quantity with a bad range: malformed
example :
    Server.run (constHandler (.ok []) (.ok [])) ()
      [0x00, 0x06, 0x00, 0x00, 0x00, 0x06, 0x01, 0x03, 0x00, 0x00, 0x00, 0x00] .eof =
    ((), [.closed]) := by decide
example :
    Server.run (constHandler (.ok []) (.ok [])) ()
      [0x00, 0x06, 0x00, 0x00, 0x00, 0x06, 0x01, 0x03, 0xFF, 0xFF, 0x00, 0x7E] .eof =
    ((), [.closed]) := by decide

-- inconsistent byte count (fc 0F, 10 coils, byte count 3): closed, no call
example :
    Server.run (constHandler (.ok []) (.ok [])) ()
      [0x00, 0x03, 0x00, 0x00, 0x00, 0x0A, 0x01, 0x0F, 0x00, 0x13, 0x00, 0x0A, 0x03, 0xCD, 0x01, 0x00] .eof =
    ((), [.closed]) := by decide

-- MBAP length 1 / 255, foreign protocol id: session ended, no call
example :
    Server.run (constHandler (.ok []) (.ok [])) ()
      [0x00, 0x01, 0x00, 0x00, 0x00, 0x01, 0x01, 0x03, 0x00, 0x00, 0x00, 0x02] .eof =
    ((), [.ended .protocolError]) := by decide
example :
    Server.run (constHandler (.ok []) (.ok [])) ()
      [0x00, 0x01, 0x00, 0x00, 0x00, 0xFF, 0x01, 0x03, 0x00, 0x00, 0x00, 0x02] .eof =
    ((), [.ended .protocolError]) := by decide
example :
    Server.run (constHandler (.ok []) (.ok [])) ()
      [0x00, 0x01, 0x00, 0x07, 0x00, 0x06, 0x01, 0x03, 0x00, 0x00, 0x00, 0x02] .eof =
    ((), [.ended .unknownProtocolId]) := by decide

-- two pipelined requests and half of a third: answered in order, each once, then the read fails
example :
    Server.run (constHandler (.ok []) (.ok [0xBEEF])) ()
      ([0x00, 0x01, 0x00, 0x00, 0x00, 0x06, 0x01, 0x03, 0x00, 0x00, 0x00, 0x01] ++
       [0x00, 0x02, 0x00, 0x00, 0x00, 0x06, 0x02, 0x04, 0x00, 0x05, 0x00, 0x01] ++
       [0x00, 0x03, 0x00, 0x00, 0x00, 0x06, 0x01, 0x03]) .eof =
    ((), [.call (.holding 0x01 0 1 false []),
          .respond [0x00, 0x01, 0x00, 0x00, 0x00, 0x05, 0x01, 0x03, 0x02, 0xBE, 0xEF],
          .call (.input 0x02 5 1),
          .respond [0x00, 0x02, 0x00, 0x00, 0x00, 0x05, 0x02, 0x04, 0x02, 0xBE, 0xEF],
          .ended .ioUnexpectedEOF]) := by decide

/-- F8, concrete: the handler answers a valid read-holding-registers request with
    `ErrProtocolError`; the server calls it once and closes the connection — no response.
    `Spec.serverEvents` demands `[call …, respond (exception 04)]` (next example), so the
    full-strength `C03_frame_step` fails on this input. -/
theorem C03_handler_protocol_error_counterexample :
    Server.run (constHandler (.ok []) (.error .protocolError)) ()
      (Mbap.assemble 0x0001 ⟨0x01, 0x03, [0x00, 0x00, 0x00, 0x02]⟩) .eof =
    ((), [.call (.holding 0x01 0 2 false []), .closed]) := by decide

example :
    Spec.serverEvents (constHandler (.ok []) (.error .protocolError)) () 0x0001
      ⟨0x01, 0x03, [0x00, 0x00, 0x00, 0x02]⟩ =
    ((), [.call (.holding 0x01 0 2 false []),
          .respond [0x00, 0x01, 0x00, 0x00, 0x00, 0x03, 0x01, 0x83, 0x04]]) := by decide

/-- hence the full-strength frame-step statement is false -/
theorem C03_frame_step_false :
    ¬ ∀ (h : Handler Unit) (st : Unit) (txn : U16) (req : Pdu) (rest : Bytes) (e : Ending),
      req.payload.length ≤ 252 →
      Server.run h st (Mbap.assemble txn req ++ rest) e =
        if Spec.staysOpen req then
          ((Server.run h (Spec.serverEvents h st txn req).1 rest e).1,
           (Spec.serverEvents h st txn req).2 ++
             (Server.run h (Spec.serverEvents h st txn req).1 rest e).2)
        else Spec.serverEvents h st txn req := by
  intro hall
  have := hall (constHandler (.ok []) (.error .protocolError)) () 0x0001
    ⟨0x01, 0x03, [0x00, 0x00, 0x00, 0x02]⟩ [] .eof (by decide)
  revert this
  decide

#print axioms C03_no_panic
#print axioms C03_handle_no_panic
#print axioms C03_handler_args_in_range
#print axioms C03_args_coils_read
#print axioms C03_args_coils_write
#print axioms C03_args_discrete
#print axioms C03_args_holding_read
#print axioms C03_args_holding_write
#print axioms C03_args_input
#print axioms C03_call_is_decoded_request
#print axioms C03_exception_codes
#print axioms C03_exception_codes_spec
#print axioms C03_frame_step_partial
#print axioms C03_frame_step_partial_runAux
#print axioms C03_fuel_suffices
#print axioms C03_frame_step_local
#print axioms C03_frame_step_f8
#print axioms C03_pipelined
#print axioms C03_pipelined_end
#print axioms C03_wire
#print axioms C03_response_fits
#print axioms C03_response_layout
#print axioms C03_valid_request
#print axioms C03_bad_length_no_call
#print axioms C03_bad_proto_no_call
#print axioms C03_bad_header_no_call
#print axioms C03_foreign_proto_frame
#print axioms C03_malformed_closes
#print axioms C03_unsupported
#print axioms C03_unsupported_iff
#print axioms C03_addr_range
#print axioms C03_handler_protocol_error_counterexample
#print axioms C03_frame_step_false

end Modbus.Props.C03
