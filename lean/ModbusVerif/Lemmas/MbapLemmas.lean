import ModbusVerif.Model.Mbap
import ModbusVerif.Lemmas.StreamLemmas
/-
  Lemmas about the MBAP framing layer: `assemble`/`readFrame` round trip and inversion,
  progress, the fuel-free unfolding of the client's skip loop, prefix/cut, and the
  chunked (`readFullChunked`) variant of `readFrame` used by C12.
-/
namespace Modbus
namespace Mbap
open Strm

/-! ### 16-bit words and their bytes -/

theorem getLsbD_mk16 (a b : Byte) (i : Nat) :
    (mk16 a b).getLsbD i = if i < 8 then b.getLsbD i else a.getLsbD (i - 8) :=
  BitVec.getLsbD_append (x := a) (y := b) (i := i)

theorem hi_mk16 (a b : Byte) : hi (mk16 a b) = a := by
  apply BitVec.eq_of_getLsbD_eq
  intro i hi
  simp [Modbus.hi, getLsbD_mk16, hi]

theorem lo_mk16 (a b : Byte) : lo (mk16 a b) = b := by
  apply BitVec.eq_of_getLsbD_eq
  intro i hi
  simp [Modbus.lo, getLsbD_mk16, hi]

theorem mk16_hi_lo (v : U16) : mk16 (hi v) (lo v) = v := by
  apply BitVec.eq_of_getLsbD_eq
  intro i hi
  rw [getLsbD_mk16]
  simp [Modbus.hi, Modbus.lo, BitVec.getLsbD_extractLsb']
  split
  · simp [*]
  · have : 8 + (i - 8) = i := by omega
    simp [this]; omega

theorem toNat_u16OfNat {n : Nat} (h : n < 65536) : (u16OfNat n).toNat = n := by
  simp [u16OfNat, BitVec.toNat_ofNat, Nat.mod_eq_of_lt h]

theorem u16OfNat_toNat (v : U16) : u16OfNat v.toNat = v := by
  simp [u16OfNat]

/-! ### frames -/

/-- an MBAP frame with an arbitrary protocol id (the library only ever sends protocol id 0;
    peers may send anything) -/
def assembleProto (proto txn : U16) (p : Pdu) : Bytes :=
  be16 txn ++ be16 proto ++ be16 (u16OfNat (2 + p.payload.length)) ++ [p.unit] ++ [p.fc] ++ p.payload

theorem assemble_eq_assembleProto (txn : U16) (p : Pdu) : assemble txn p = assembleProto 0 txn p := by
  unfold assemble assembleProto
  rw [show be16 (0 : U16) = [0, 0] from by decide]

theorem assembleProto_eq (proto txn : U16) (p : Pdu) :
    assembleProto proto txn p =
      hi txn :: lo txn :: hi proto :: lo proto ::
      hi (u16OfNat (2 + p.payload.length)) :: lo (u16OfNat (2 + p.payload.length)) ::
      p.unit :: p.fc :: p.payload := by
  simp [assembleProto, be16]

theorem length_assembleProto (proto txn : U16) (p : Pdu) :
    (assembleProto proto txn p).length = 8 + p.payload.length := by
  simp [assembleProto_eq]; omega

theorem length_assemble (txn : U16) (p : Pdu) : (assemble txn p).length = 8 + p.payload.length := by
  rw [assemble_eq_assembleProto, length_assembleProto]

theorem shortErr_ne_unknownProtocolId (n : Nat) (e : Ending) : shortErr n e ≠ .unknownProtocolId := by
  unfold shortErr
  cases e <;> split <;> simp [Ending.err]

/-! ### `readFrame`, case by case on a stream with at least a full header -/

theorem readFrame_short7 {s : Bytes} (e : Ending) (h : s.length < 7) :
    readFrame s e = (.err (shortErr s.length e), []) := by
  unfold readFrame
  rw [readFull_short_of_lt (n := mbapHeaderLength) e h]

private theorem readFrame_hdr {t0 t1 p0 p1 l0 l1 u : Byte} {tl : Bytes} (e : Ending) :
    readFull mbapHeaderLength (t0 :: t1 :: p0 :: p1 :: l0 :: l1 :: u :: tl) e =
      .ok [t0, t1, p0, p1, l0, l1, u] tl :=
  readFull_append' (n := mbapHeaderLength) [t0, t1, p0, p1, l0, l1, u] tl e rfl

theorem readFrame_cons7_badlen {t0 t1 p0 p1 l0 l1 u : Byte} {tl : Bytes} (e : Ending)
    (h : 254 < (mk16 l0 l1).toNat ∨ (mk16 l0 l1).toNat ≤ 1) :
    readFrame (t0 :: t1 :: p0 :: p1 :: l0 :: l1 :: u :: tl) e = (.err .protocolError, tl) := by
  unfold readFrame
  rw [readFrame_hdr]
  simp only [List.getD_cons_zero, List.getD_cons_succ]
  by_cases c1 : (mk16 l0 l1).toNat + mbapHeaderLength > maxTCPFrameLength + 1
  · rw [if_pos c1]
  · have c2 : (mk16 l0 l1).toNat ≤ 1 := by
      simp only [mbapHeaderLength, maxTCPFrameLength] at c1; omega
    rw [if_neg c1, if_pos c2]

theorem readFrame_cons7_short {t0 t1 p0 p1 l0 l1 u : Byte} {tl : Bytes} (e : Ending)
    (h2 : 2 ≤ (mk16 l0 l1).toNat) (h254 : (mk16 l0 l1).toNat ≤ 254)
    (hs : tl.length < (mk16 l0 l1).toNat - 1) :
    readFrame (t0 :: t1 :: p0 :: p1 :: l0 :: l1 :: u :: tl) e = (.err (shortErr tl.length e), []) := by
  unfold readFrame
  rw [readFrame_hdr]
  simp only [List.getD_cons_zero, List.getD_cons_succ]
  have c1 : ¬ ((mk16 l0 l1).toNat + mbapHeaderLength > maxTCPFrameLength + 1) := by
    simp only [mbapHeaderLength, maxTCPFrameLength]; omega
  have c2 : ¬ ((mk16 l0 l1).toNat ≤ 1) := by omega
  rw [if_neg c1, if_neg c2, readFull_short_of_lt e hs]

theorem readFrame_cons7_ok {t0 t1 p0 p1 l0 l1 u : Byte} {body rest : Bytes} (e : Ending)
    (h2 : 2 ≤ (mk16 l0 l1).toNat) (h254 : (mk16 l0 l1).toNat ≤ 254)
    (hb : body.length = (mk16 l0 l1).toNat - 1) :
    readFrame (t0 :: t1 :: p0 :: p1 :: l0 :: l1 :: u :: (body ++ rest)) e =
      (if mk16 p0 p1 ≠ 0 then .err .unknownProtocolId
       else .ok ⟨u, body.getD 0 0, body.drop 1⟩ (mk16 t0 t1), rest) := by
  unfold readFrame
  rw [readFrame_hdr]
  simp only [List.getD_cons_zero, List.getD_cons_succ]
  have c1 : ¬ ((mk16 l0 l1).toNat + mbapHeaderLength > maxTCPFrameLength + 1) := by
    simp only [mbapHeaderLength, maxTCPFrameLength]; omega
  have c2 : ¬ ((mk16 l0 l1).toNat ≤ 1) := by omega
  rw [if_neg c1, if_neg c2, readFull_append' _ _ _ hb]
  simp only []
  split <;> rfl

/-! ### B1: round trip -/

/-- every frame (any protocol id) is consumed exactly; it is delivered iff its protocol id is 0 -/
theorem readFrame_assembleProto (proto txn : U16) (p : Pdu) (rest : Bytes) (e : Ending)
    (h : p.payload.length ≤ 252) :
    readFrame (assembleProto proto txn p ++ rest) e =
      (if proto ≠ 0 then .err .unknownProtocolId else .ok p txn, rest) := by
  have hl : (mk16 (hi (u16OfNat (2 + p.payload.length))) (lo (u16OfNat (2 + p.payload.length)))).toNat
      = 2 + p.payload.length := by
    rw [mk16_hi_lo, toNat_u16OfNat (by omega)]
  rw [assembleProto_eq]
  have := readFrame_cons7_ok (t0 := hi txn) (t1 := lo txn) (p0 := hi proto) (p1 := lo proto)
    (l0 := hi (u16OfNat (2 + p.payload.length))) (l1 := lo (u16OfNat (2 + p.payload.length)))
    (u := p.unit) (body := p.fc :: p.payload) (rest := rest) e
    (by rw [hl]; omega) (by rw [hl]; omega) (by rw [hl]; simp; omega)
  simp only [List.cons_append] at this ⊢
  rw [this, mk16_hi_lo, mk16_hi_lo]
  simp

/-- B1: every assembled frame parses back to itself and leaves exactly the rest. -/
theorem readFrame_assemble (txn : U16) (p : Pdu) (rest : Bytes) (e : Ending)
    (h : p.payload.length ≤ 252) :
    readFrame (assemble txn p ++ rest) e = (.ok p txn, rest) := by
  rw [assemble_eq_assembleProto, readFrame_assembleProto 0 txn p rest e h]
  simp

theorem readFrame_assembleProto_ne (proto txn : U16) (p : Pdu) (rest : Bytes) (e : Ending)
    (h : p.payload.length ≤ 252) (hp : proto ≠ 0) :
    readFrame (assembleProto proto txn p ++ rest) e = (.err .unknownProtocolId, rest) := by
  rw [readFrame_assembleProto proto txn p rest e h, if_pos hp]

/-! ### B2: inversion -/

/-- whatever `readFrame` consumes as a whole frame (delivered, or dropped for its protocol id)
    is exactly a well-formed frame followed by the unread rest -/
theorem readFrame_inv {s rest : Bytes} {e : Ending} {r : Frame}
    (h : readFrame s e = (r, rest))
    (hr : r = .err .unknownProtocolId ∨ ∃ p t, r = .ok p t) :
    ∃ proto t p, s = assembleProto proto t p ++ rest ∧ p.payload.length ≤ 252 ∧
      r = (if proto ≠ 0 then .err .unknownProtocolId else .ok p t) := by
  have hshort : ∀ n, r ≠ .err (shortErr n e) := by
    intro n hn
    rcases hr with hr | ⟨p, t, hr⟩
    · rw [hr] at hn; injection hn with hn; exact shortErr_ne_unknownProtocolId n e hn.symm
    · rw [hr] at hn; cases hn
  have hproto : r ≠ .err .protocolError := by
    intro hn
    rcases hr with hr | ⟨p, t, hr⟩
    · rw [hr] at hn; cases hn
    · rw [hr] at hn; cases hn
  by_cases h7 : s.length < 7
  · rw [readFrame_short7 e h7] at h
    injection h with h1 _
    exact absurd h1.symm (hshort _)
  · match s, h7 with
    | t0 :: t1 :: p0 :: p1 :: l0 :: l1 :: u :: tl, _ =>
      by_cases hbad : 254 < (mk16 l0 l1).toNat ∨ (mk16 l0 l1).toNat ≤ 1
      · rw [readFrame_cons7_badlen e hbad] at h
        injection h with h1 _
        exact absurd h1.symm hproto
      · have h2 : 2 ≤ (mk16 l0 l1).toNat := by omega
        have h254 : (mk16 l0 l1).toNat ≤ 254 := by omega
        by_cases hs : tl.length < (mk16 l0 l1).toNat - 1
        · rw [readFrame_cons7_short e h2 h254 hs] at h
          injection h with h1 _
          exact absurd h1.symm (hshort _)
        · have hsplit : tl = tl.take ((mk16 l0 l1).toNat - 1) ++ tl.drop ((mk16 l0 l1).toNat - 1) :=
            (List.take_append_drop _ _).symm
          have hb : (tl.take ((mk16 l0 l1).toNat - 1)).length = (mk16 l0 l1).toNat - 1 := by
            rw [List.length_take]; omega
          rw [hsplit, readFrame_cons7_ok e h2 h254 hb] at h
          injection h with h1 h2'
          -- the body is non-empty: function code + payload
          match hbody : tl.take ((mk16 l0 l1).toNat - 1), hb with
          | [], hb0 => simp at hb0; omega
          | fc :: payload, hb1 =>
            rw [hbody] at h1
            simp only [List.getD_cons_zero, List.drop_succ_cons, List.drop_zero] at h1
            simp only [List.length_cons] at hb1
            refine ⟨mk16 p0 p1, mk16 t0 t1, ⟨u, fc, payload⟩, ?_, by simp only []; omega, h1.symm⟩
            rw [assembleProto_eq, hi_mk16, lo_mk16, hi_mk16, lo_mk16]
            have hlen : u16OfNat (2 + payload.length) = mk16 l0 l1 := by
              rw [← u16OfNat_toNat (mk16 l0 l1)]; congr 1; omega
            simp only [hlen, hi_mk16, lo_mk16]
            rw [hsplit, hbody, h2']
            simp
    | [], h7 => simp at h7
    | [_], h7 => simp at h7
    | [_, _], h7 => simp at h7
    | [_, _, _], h7 => simp at h7
    | [_, _, _, _], h7 => simp at h7
    | [_, _, _, _, _], h7 => simp at h7
    | [_, _, _, _, _, _], h7 => simp at h7

/-- B2: anything accepted is exactly a well-formed frame with protocol id 0, followed by the rest. -/
theorem readFrame_ok_inv {s rest : Bytes} {e : Ending} {p : Pdu} {txn : U16}
    (h : readFrame s e = (.ok p txn, rest)) :
    s = assemble txn p ++ rest ∧ p.payload.length ≤ 252 := by
  obtain ⟨proto, t, p', hs, hp, hr⟩ := readFrame_inv h (Or.inr ⟨p, txn, rfl⟩)
  by_cases hz : proto = 0
  · subst hz
    simp at hr
    obtain ⟨rfl, rfl⟩ := hr
    exact ⟨by rw [assemble_eq_assembleProto]; exact hs, hp⟩
  · rw [if_pos hz] at hr; cases hr

/-- a frame dropped for its protocol id is a well-formed frame with a non-zero protocol id -/
theorem readFrame_unknownProto_inv {s rest : Bytes} {e : Ending}
    (h : readFrame s e = (.err .unknownProtocolId, rest)) :
    ∃ proto t p, proto ≠ 0 ∧ p.payload.length ≤ 252 ∧ s = assembleProto proto t p ++ rest := by
  obtain ⟨proto, t, p, hs, hp, hr⟩ := readFrame_inv h (Or.inl rfl)
  by_cases hz : proto = 0
  · subst hz; simp at hr
  · exact ⟨proto, t, p, hz, hp, hs⟩

/-! ### B3: progress -/

/-- the unread rest is never longer than the stream -/
theorem readFrame_rest_le {s rest : Bytes} {e : Ending} {r : Frame}
    (h : readFrame s e = (r, rest)) : rest.length ≤ s.length := by
  by_cases h7 : s.length < 7
  · rw [readFrame_short7 e h7] at h
    injection h with _ h2; subst h2; simp
  · match s, h7 with
    | t0 :: t1 :: p0 :: p1 :: l0 :: l1 :: u :: tl, _ =>
      by_cases hbad : 254 < (mk16 l0 l1).toNat ∨ (mk16 l0 l1).toNat ≤ 1
      · rw [readFrame_cons7_badlen e hbad] at h
        injection h with _ h2; subst h2; simp; omega
      · have h2 : 2 ≤ (mk16 l0 l1).toNat := by omega
        have h254 : (mk16 l0 l1).toNat ≤ 254 := by omega
        by_cases hs : tl.length < (mk16 l0 l1).toNat - 1
        · rw [readFrame_cons7_short e h2 h254 hs] at h
          injection h with _ h2; subst h2; simp
        · have hsplit : tl = tl.take ((mk16 l0 l1).toNat - 1) ++ tl.drop ((mk16 l0 l1).toNat - 1) :=
            (List.take_append_drop _ _).symm
          have hb : (tl.take ((mk16 l0 l1).toNat - 1)).length = (mk16 l0 l1).toNat - 1 := by
            rw [List.length_take]; omega
          rw [hsplit, readFrame_cons7_ok e h2 h254 hb] at h
          injection h with _ h2'; subst h2'
          simp only [List.length_cons, List.length_drop]
          omega
    | [], h7 => simp at h7
    | [_], h7 => simp at h7
    | [_, _], h7 => simp at h7
    | [_, _, _], h7 => simp at h7
    | [_, _, _, _], h7 => simp at h7
    | [_, _, _, _, _], h7 => simp at h7
    | [_, _, _, _, _, _], h7 => simp at h7

/-- a consumed frame (delivered or skipped) takes at least 8 bytes off the stream -/
theorem readFrame_progress {s rest : Bytes} {e : Ending} {r : Frame}
    (h : readFrame s e = (r, rest))
    (hr : r = .err .unknownProtocolId ∨ ∃ p t, r = .ok p t) : rest.length + 8 ≤ s.length := by
  obtain ⟨proto, t, p, hs, _, _⟩ := readFrame_inv h hr
  rw [hs, List.length_append, length_assembleProto]; omega

/-- B3 -/
theorem readFrame_progress_all {s rest : Bytes} {e : Ending} {r : Frame}
    (h : readFrame s e = (r, rest)) :
    rest.length ≤ s.length ∧
    ((r = .err .unknownProtocolId ∨ ∃ p t, r = .ok p t) → rest.length + 8 ≤ s.length) :=
  ⟨readFrame_rest_le h, readFrame_progress h⟩

/-! ### B4: the skip loop without fuel -/

theorem readResponseAux_skipProto {fuel : Nat} {txn : U16} {s rest : Bytes} {e : Ending}
    (h : readFrame s e = (.err .unknownProtocolId, rest)) :
    readResponseAux (fuel + 1) txn s e = readResponseAux fuel txn rest e := by
  rw [readResponseAux, h]

theorem readResponseAux_err {fuel : Nat} {txn : U16} {s rest : Bytes} {e : Ending} {err : Err}
    (h : readFrame s e = (.err err, rest)) (hne : err ≠ .unknownProtocolId) :
    readResponseAux (fuel + 1) txn s e = (.error err, rest) := by
  rw [readResponseAux, h]
  cases err <;> first | rfl | exact absurd rfl hne

theorem readResponseAux_ok {fuel : Nat} {txn t : U16} {s rest : Bytes} {e : Ending} {p : Pdu}
    (h : readFrame s e = (.ok p t, rest)) :
    readResponseAux (fuel + 1) txn s e =
      if t = txn then (.ok p, rest) else readResponseAux fuel txn rest e := by
  rw [readResponseAux, h]

/-- any fuel above the stream length gives the same result -/
theorem readResponseAux_fuel (txn : U16) (e : Ending) :
    ∀ (f1 f2 : Nat) (s : Bytes), s.length < f1 → s.length < f2 →
      readResponseAux f1 txn s e = readResponseAux f2 txn s e := by
  intro f1
  induction f1 with
  | zero => intro f2 s h; omega
  | succ f1 ih =>
    intro f2 s h1 h2
    cases f2 with
    | zero => omega
    | succ f2 =>
      cases hrf : readFrame s e with
      | mk r rest =>
        cases r with
        | ok p t =>
          have := readFrame_progress hrf (Or.inr ⟨p, t, rfl⟩)
          rw [readResponseAux_ok hrf, readResponseAux_ok hrf, ih f2 rest (by omega) (by omega)]
        | err err =>
          by_cases hu : err = .unknownProtocolId
          · subst hu
            have := readFrame_progress hrf (Or.inl rfl)
            rw [readResponseAux_skipProto hrf, readResponseAux_skipProto hrf,
              ih f2 rest (by omega) (by omega)]
          · rw [readResponseAux_err hrf hu, readResponseAux_err hrf hu]

/-- B4: more fuel than `length + 1` changes nothing -/
theorem fuel_suffices (txn : U16) (s : Bytes) (e : Ending) (k : Nat) :
    readResponseAux (s.length + 1 + k) txn s e = readResponseAux (s.length + 1) txn s e :=
  readResponseAux_fuel txn e _ _ s (by omega) (by omega)

theorem readResponseAux_eq_readResponse {fuel : Nat} {txn : U16} {s : Bytes} {e : Ending}
    (h : s.length < fuel) : readResponseAux fuel txn s e = readResponse txn s e :=
  readResponseAux_fuel txn e _ _ s h (by omega)

/-- skip-loop step: frame with a foreign protocol id -/
theorem readResponse_skipProto {txn : U16} {s rest : Bytes} {e : Ending}
    (h : readFrame s e = (.err .unknownProtocolId, rest)) :
    readResponse txn s e = readResponse txn rest e := by
  have := readFrame_progress h (Or.inl rfl)
  unfold readResponse
  rw [readResponseAux_skipProto h]
  exact readResponseAux_fuel txn e _ _ rest (by omega) (by omega)

/-- skip-loop step: any other framing / io error ends the call -/
theorem readResponse_err {txn : U16} {s rest : Bytes} {e : Ending} {err : Err}
    (h : readFrame s e = (.err err, rest)) (hne : err ≠ .unknownProtocolId) :
    readResponse txn s e = (.error err, rest) := by
  unfold readResponse
  rw [readResponseAux_err h hne]

/-- skip-loop step: a good frame is returned iff it carries the outstanding transaction id -/
theorem readResponse_ok {txn t : U16} {s rest : Bytes} {e : Ending} {p : Pdu}
    (h : readFrame s e = (.ok p t, rest)) :
    readResponse txn s e = if t = txn then (.ok p, rest) else readResponse txn rest e := by
  have := readFrame_progress h (Or.inr ⟨p, t, rfl⟩)
  unfold readResponse
  rw [readResponseAux_ok h]
  split
  · rfl
  · exact readResponseAux_fuel txn e _ _ rest (by omega) (by omega)

/-- B4: the unfolding equation of the skip loop without fuel: the fuel-exhausted branch of
    `readResponseAux` is unreachable from `readResponse` ("the loop terminates on every finite stream") -/
theorem readResponse_eq (txn : U16) (s : Bytes) (e : Ending) :
    readResponse txn s e =
      match readFrame s e with
      | (.err .unknownProtocolId, rest) => readResponse txn rest e
      | (.err err, rest) => (.error err, rest)
      | (.ok p t, rest) => if t = txn then (.ok p, rest) else readResponse txn rest e := by
  cases hrf : readFrame s e with
  | mk r rest =>
    cases r with
    | ok p t => exact readResponse_ok hrf
    | err err =>
      by_cases hu : err = .unknownProtocolId
      · subst hu; exact readResponse_skipProto hrf
      · rw [readResponse_err hrf hu]
        cases err <;> first | rfl | exact absurd rfl hu

/-! ### B5: strict prefixes of a frame are never accepted -/

/-- a strict prefix of a well-formed frame (any protocol id) makes `readFrame` end with the
    short-read error of the stream ending; nothing is delivered -/
theorem readFrame_strict_prefix {s t : Bytes} {proto txn : U16} {p : Pdu} (e : Ending)
    (hp : p.payload.length ≤ 252) (hst : s ++ t = assembleProto proto txn p) (ht : t ≠ []) :
    readFrame s e = (.err (shortErr (if s.length < 7 then s.length else s.length - 7) e), []) := by
  have htl : 0 < t.length := List.length_pos_iff.mpr ht
  have hlen : s.length + t.length = 8 + p.payload.length := by
    rw [← List.length_append, hst, length_assembleProto]
  have hl : (mk16 (hi (u16OfNat (2 + p.payload.length))) (lo (u16OfNat (2 + p.payload.length)))).toNat
      = 2 + p.payload.length := by
    rw [mk16_hi_lo, toNat_u16OfNat (by omega)]
  by_cases h7 : s.length < 7
  · rw [readFrame_short7 e h7, if_pos h7]
  · rw [if_neg h7]
    match s, h7 with
    | t0 :: t1 :: p0 :: p1 :: l0 :: l1 :: u :: tl, _ =>
      rw [assembleProto_eq] at hst
      simp only [List.cons_append, List.cons.injEq] at hst
      obtain ⟨_, _, _, _, rfl, rfl, _, _⟩ := hst
      simp only [List.length_cons] at hlen
      rw [readFrame_cons7_short e (by rw [hl]; omega) (by rw [hl]; omega) (by rw [hl]; omega)]
      simp
    | [], h7 => simp at h7
    | [_], h7 => simp at h7
    | [_, _], h7 => simp at h7
    | [_, _, _], h7 => simp at h7
    | [_, _, _, _], h7 => simp at h7
    | [_, _, _, _, _], h7 => simp at h7
    | [_, _, _, _, _, _], h7 => simp at h7

/-- B5: cutting a valid frame anywhere before its end never yields an accepted frame -/
theorem readFrame_take_assemble {k : Nat} (txn : U16) (p : Pdu) (e : Ending)
    (hp : p.payload.length ≤ 252) (hk : k < (assemble txn p).length) :
    ∃ err, (readFrame ((assemble txn p).take k) e).1 = .err err := by
  have hst : (assemble txn p).take k ++ (assemble txn p).drop k = assembleProto 0 txn p := by
    rw [List.take_append_drop, assemble_eq_assembleProto]
  have ht : (assemble txn p).drop k ≠ [] := by
    intro h
    have := congrArg List.length h
    simp only [List.length_drop, List.length_nil] at this
    omega
  rw [readFrame_strict_prefix e hp hst ht]
  exact ⟨_, rfl⟩

/-! ### skipped frames (C05) -/

/-- a concatenation of whole frames, each of which the skip loop for `txn` discards: a
    well-formed frame carrying another transaction id, or a frame with a non-zero protocol id -/
inductive Skippable (txn : U16) : Bytes → Prop
  | nil : Skippable txn []
  | foreignTxn (t : U16) (p : Pdu) (rest : Bytes) :
      t ≠ txn → p.payload.length ≤ 252 → Skippable txn rest → Skippable txn (assemble t p ++ rest)
  | foreignProto (proto t : U16) (p : Pdu) (rest : Bytes) :
      proto ≠ 0 → p.payload.length ≤ 252 → Skippable txn rest →
      Skippable txn (assembleProto proto t p ++ rest)

theorem Skippable.append {txn : U16} {a b : Bytes} (ha : Skippable txn a) (hb : Skippable txn b) :
    Skippable txn (a ++ b) := by
  induction ha with
  | nil => simpa using hb
  | foreignTxn t p rest ht hp _ ih =>
    rw [List.append_assoc]; exact .foreignTxn t p _ ht hp ih
  | foreignProto proto t p rest hpr hp _ ih =>
    rw [List.append_assoc]; exact .foreignProto proto t p _ hpr hp ih

/-- skipped frames in front are invisible to the caller -/
theorem readResponse_skip {txn : U16} {pre : Bytes} (post : Bytes) (e : Ending)
    (h : Skippable txn pre) : readResponse txn (pre ++ post) e = readResponse txn post e := by
  induction h with
  | nil => rfl
  | foreignTxn t p rest ht hp _ ih =>
    rw [List.append_assoc, readResponse_ok (readFrame_assemble t p (rest ++ post) e hp), if_neg ht, ih]
  | foreignProto proto t p rest hpr hp _ ih =>
    rw [List.append_assoc,
      readResponse_skipProto (readFrame_assembleProto_ne proto t p (rest ++ post) e hp hpr), ih]

theorem readResponse_nil (txn : U16) (e : Ending) : readResponse txn [] e = (.error e.err, []) := by
  have h : readFrame [] e = (.err e.err, []) := by
    rw [readFrame_short7 e (by simp)]; simp [shortErr]
  exact readResponse_err h (by cases e <;> simp [Ending.err])

/-- a returned PDU was parsed from a frame carrying the outstanding transaction id and
    protocol id 0, preceded only by skippable frames -/
theorem readResponse_ok_inv {txn : U16} {e : Ending} {p : Pdu} :
    ∀ (n : Nat) (s rest : Bytes), s.length ≤ n → readResponse txn s e = (.ok p, rest) →
      ∃ pre, Skippable txn pre ∧ p.payload.length ≤ 252 ∧ s = pre ++ assemble txn p ++ rest := by
  intro n
  induction n with
  | zero =>
    intro s rest hn h
    have : s = [] := List.length_eq_zero_iff.mp (by omega)
    subst this
    rw [readResponse_nil] at h; cases h
  | succ n ih =>
    intro s rest hn h
    cases hrf : readFrame s e with
    | mk r rest1 =>
      cases r with
      | ok p1 t =>
        have hprog := readFrame_progress hrf (Or.inr ⟨p1, t, rfl⟩)
        obtain ⟨hs, hp1⟩ := readFrame_ok_inv hrf
        rw [readResponse_ok hrf] at h
        by_cases ht : t = txn
        · rw [if_pos ht] at h
          injection h with h1 h2
          injection h1 with h1
          subst h1 h2 ht
          exact ⟨[], .nil, hp1, by simpa using hs⟩
        · rw [if_neg ht] at h
          obtain ⟨pre, hpre, hp, hs1⟩ := ih rest1 rest (by omega) h
          refine ⟨assemble t p1 ++ pre, .foreignTxn t p1 pre ht hp1 hpre, hp, ?_⟩
          rw [hs, hs1]; simp only [List.append_assoc]
      | err err =>
        by_cases hu : err = .unknownProtocolId
        · subst hu
          have hprog := readFrame_progress hrf (Or.inl rfl)
          obtain ⟨proto, t, p1, hpr, hp1, hs⟩ := readFrame_unknownProto_inv hrf
          rw [readResponse_skipProto hrf] at h
          obtain ⟨pre, hpre, hp, hs1⟩ := ih rest1 rest (by omega) h
          refine ⟨assembleProto proto t p1 ++ pre, .foreignProto proto t p1 pre hpr hp1 hpre, hp, ?_⟩
          rw [hs, hs1]; simp only [List.append_assoc]
        · rw [readResponse_err hrf hu] at h; cases h

/-! ### transaction ids of consecutive requests -/

/-- the id of the n-th request after one with id `t0` (`lastTxn++` wraps at 2^16) -/
def txnOf (t0 : U16) (n : Nat) : U16 := t0 + BitVec.ofNat 16 n

theorem add_ofNat_ne (t : U16) (k : Nat) (h0 : 0 < k) (hk : k < 65536) :
    t + BitVec.ofNat 16 k ≠ t := by
  intro h
  have := congrArg BitVec.toNat h
  simp only [BitVec.toNat_add, BitVec.toNat_ofNat] at this
  have := t.isLt
  omega

theorem txnOf_ne (t0 : U16) {m n : Nat}
    (h : (0 < n - m ∧ n - m < 65536) ∨ (0 < m - n ∧ m - n < 65536)) :
    txnOf t0 m ≠ txnOf t0 n := by
  intro heq
  have := congrArg BitVec.toNat heq
  simp only [txnOf, BitVec.toNat_add, BitVec.toNat_ofNat] at this
  have := t0.isLt
  omega

/-- an explicit list of foreign frames `(proto, t, p)`: non-zero protocol id or another
    transaction id, each with a payload that fits the MBAP length field -/
theorem skippable_of_frames {txn : U16} (fs : List (U16 × U16 × Pdu))
    (h : ∀ f ∈ fs, (f.1 ≠ 0 ∨ f.2.1 ≠ txn) ∧ f.2.2.payload.length ≤ 252) :
    Skippable txn (fs.map (fun f => assembleProto f.1 f.2.1 f.2.2)).flatten := by
  induction fs with
  | nil => exact .nil
  | cons f fs ih =>
    have hf := h f List.mem_cons_self
    have ih' := ih (fun g hg => h g (List.mem_cons_of_mem _ hg))
    simp only [List.map_cons, List.flatten_cons]
    by_cases hz : f.1 = 0
    · rw [hz, ← assemble_eq_assembleProto]
      refine .foreignTxn _ _ _ ?_ hf.2 ih'
      rcases hf.1 with h1 | h1
      · exact absurd hz h1
      · exact h1
    · exact .foreignProto _ _ _ _ hz hf.2 ih'

/-- replies to the requests number `m` (relative to a request with id `t0`), concatenated -/
def staleStream (t0 : U16) (stale : List (Nat × Pdu)) : Bytes :=
  (stale.map (fun mp => assemble (txnOf t0 mp.1) mp.2)).flatten

theorem skippable_staleStream (t0 : U16) (n : Nat) (stale : List (Nat × Pdu))
    (h : ∀ mp ∈ stale, ((0 < n - mp.1 ∧ n - mp.1 < 65536) ∨ (0 < mp.1 - n ∧ mp.1 - n < 65536)) ∧
      mp.2.payload.length ≤ 252) :
    Skippable (txnOf t0 n) (staleStream t0 stale) := by
  unfold staleStream
  induction stale with
  | nil => exact .nil
  | cons mp stale ih =>
    have hf := h mp List.mem_cons_self
    simp only [List.map_cons, List.flatten_cons]
    exact .foreignTxn _ _ _ (txnOf_ne t0 hf.1) hf.2 (ih (fun g hg => h g (List.mem_cons_of_mem _ hg)))

/-- sample PDU for the non-vacuity examples: a read-holding-registers (0x03) response from
    unit 1 with byte count 2 and one register `hi lo` -/
def rsp03 (hi lo : Byte) : Pdu := ⟨1, 3, [2, hi, lo]⟩

-- non-vacuity of the framing lemmas (B1, B2, B5) and sharpness of the 252-byte payload bound
example : readFrame (assemble 0x1235 (rsp03 0xAB 0xCD) ++ [0xFF]) .timeout =
    (.ok (rsp03 0xAB 0xCD) 0x1235, [0xFF]) := by decide
example : readFrame (assembleProto 7 0x1235 (rsp03 0xAB 0xCD) ++ [0xFF]) .timeout =
    (.err .unknownProtocolId, [0xFF]) := by decide
example : readFrame ((assemble 0x1235 (rsp03 0xAB 0xCD)).take 10) .eof =
    (.err .ioUnexpectedEOF, []) := by decide
example : readFrame ((assemble 0x1235 (rsp03 0xAB 0xCD)).take 3) .timeout =
    (.err .ioTimeout, []) := by decide
set_option maxRecDepth 8000 in
example : (readFrame (assemble 1 ⟨1, 3, List.replicate 252 0⟩) .timeout).1 =
    .ok ⟨1, 3, List.replicate 252 0⟩ 1 := by decide
set_option maxRecDepth 8000 in
example : (readFrame (assemble 1 ⟨1, 3, List.replicate 253 0⟩) .timeout).1 =
    .err .protocolError := by decide

/-! ### C12: `readFrame` and the skip loop over a chunked source -/

/-- `readMBAPFrame` performed with the `io.ReadFull` loop on a chunked source:
    same reads, same checks, same order as `readFrame` -/
def readFrameC (src : List Bytes) (e : Ending) : Frame × List Bytes :=
  match readFullC mbapHeaderLength src e with
  | .short _ err => (.err err, [])
  | .ok h rest =>
    let txn   := mk16 (h.getD 0 0) (h.getD 1 0)
    let proto := mk16 (h.getD 2 0) (h.getD 3 0)
    let len   := (mk16 (h.getD 4 0) (h.getD 5 0)).toNat
    let unit  := h.getD 6 0
    if len + mbapHeaderLength > maxTCPFrameLength + 1 then (.err .protocolError, rest)
    else if len ≤ 1 then (.err .protocolError, rest)
    else
      match readFullC (len - 1) rest e with
      | .short _ err => (.err err, [])
      | .ok body rest' =>
        if proto ≠ 0 then (.err .unknownProtocolId, rest')
        else (.ok { unit := unit, fc := body.getD 0 0, payload := body.drop 1 } txn, rest')

/-- A4: frame reading is independent of the segmentation of the byte stream -/
theorem readFrameC_flatten (src : List Bytes) (e : Ending) :
    (readFrameC src e).1 = (readFrame src.flatten e).1 ∧
    ((readFrameC src e).2).flatten = (readFrame src.flatten e).2 := by
  unfold readFrameC readFrame
  cases h1 : readFullC mbapHeaderLength src e with
  | short got err => rw [readFullC_short_inv h1]; exact ⟨rfl, rfl⟩
  | ok h rest =>
    rw [readFullC_ok_inv h1]
    simp only []
    by_cases c1 : (mk16 (h.getD 4 0) (h.getD 5 0)).toNat + mbapHeaderLength > maxTCPFrameLength + 1
    · rw [if_pos c1, if_pos c1]; exact ⟨rfl, rfl⟩
    · rw [if_neg c1, if_neg c1]
      by_cases c2 : (mk16 (h.getD 4 0) (h.getD 5 0)).toNat ≤ 1
      · rw [if_pos c2, if_pos c2]; exact ⟨rfl, rfl⟩
      · rw [if_neg c2, if_neg c2]
        cases h2 : readFullC ((mk16 (h.getD 4 0) (h.getD 5 0)).toNat - 1) rest e with
        | short got err => rw [readFullC_short_inv h2]; exact ⟨rfl, rfl⟩
        | ok body rest' =>
          rw [readFullC_ok_inv h2]
          simp only []
          by_cases c3 : mk16 (h.getD 2 0) (h.getD 3 0) ≠ 0
          · rw [if_pos c3, if_pos c3]; exact ⟨rfl, rfl⟩
          · rw [if_neg c3, if_neg c3]; exact ⟨rfl, rfl⟩

/-- the client's skip loop on a chunked source -/
def readResponseAuxC : Nat → U16 → List Bytes → Ending → (Except Err Pdu) × List Bytes
  | 0, _, src, _ => (.error .ioOther, src)
  | fuel+1, txn, src, e =>
    match readFrameC src e with
    | (.err .unknownProtocolId, rest) => readResponseAuxC fuel txn rest e
    | (.err err, rest) => (.error err, rest)
    | (.ok p t, rest) => if t = txn then (.ok p, rest) else readResponseAuxC fuel txn rest e

def readResponseC (txn : U16) (src : List Bytes) (e : Ending) : (Except Err Pdu) × List Bytes :=
  readResponseAuxC (src.flatten.length + 1) txn src e

theorem readResponseAuxC_flatten (txn : U16) (e : Ending) :
    ∀ (fuel : Nat) (src : List Bytes),
      (readResponseAuxC fuel txn src e).1 = (readResponseAux fuel txn src.flatten e).1 ∧
      ((readResponseAuxC fuel txn src e).2).flatten = (readResponseAux fuel txn src.flatten e).2 := by
  intro fuel
  induction fuel with
  | zero => intro src; exact ⟨rfl, rfl⟩
  | succ fuel ih =>
    intro src
    obtain ⟨hf1, hf2⟩ := readFrameC_flatten src e
    cases hc : readFrameC src e with
    | mk r restC =>
      rw [hc] at hf1 hf2
      have hflat : readFrame src.flatten e = (r, restC.flatten) := by
        exact Prod.ext hf1.symm hf2.symm
      cases r with
      | ok p t =>
        rw [readResponseAux_ok hflat, readResponseAuxC, hc]
        simp only []
        by_cases ht : t = txn
        · rw [if_pos ht, if_pos ht]; exact ⟨rfl, rfl⟩
        · rw [if_neg ht, if_neg ht]; exact ih restC
      | err err =>
        by_cases hu : err = .unknownProtocolId
        · subst hu
          rw [readResponseAux_skipProto hflat, readResponseAuxC, hc]
          exact ih restC
        · rw [readResponseAux_err hflat hu, readResponseAuxC, hc]
          cases err <;> first | exact ⟨rfl, rfl⟩ | exact absurd rfl hu

/-- the skip loop is independent of the segmentation of the byte stream -/
theorem readResponseC_flatten (txn : U16) (src : List Bytes) (e : Ending) :
    (readResponseC txn src e).1 = (readResponse txn src.flatten e).1 ∧
    ((readResponseC txn src e).2).flatten = (readResponse txn src.flatten e).2 :=
  readResponseAuxC_flatten txn e _ src

end Mbap
end Modbus
