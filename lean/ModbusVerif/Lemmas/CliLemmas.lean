import ModbusVerif.Model.Cli
import ModbusVerif.Spec.CliSpec
import ModbusVerif.Spec.Request
/-
  Proofs for property C20 (modbus-cli front end).  Statements live in Props/C20.lean.
-/
namespace Modbus.CliLemmas
open Modbus Modbus.Cli Modbus.Spec
open Modbus.Client (Op)

/-! ## A. digits -/

theorem digitsAux_small {b n : Nat} (h : n < b ∨ b < 2) : ∀ f, digitsAux b f n = [n]
  | 0 => rfl
  | f + 1 => by simp [digitsAux, h]

theorem digitsAux_indep {b : Nat} (hb : 2 ≤ b) :
    ∀ n f, n ≤ f → digitsAux b f n = digitsAux b n n := by
  intro n
  induction n using Nat.strongRecOn with
  | _ n ih =>
    intro f hf
    by_cases h : n < b ∨ b < 2
    · rw [digitsAux_small h, digitsAux_small h]
    · have hn : 0 < n := by omega
      have hdiv : n / b < n := Nat.div_lt_self hn (by omega)
      obtain ⟨f', rfl⟩ : ∃ f', f = f' + 1 := ⟨f - 1, by omega⟩
      obtain ⟨n', rfl⟩ : ∃ n', n = n' + 1 := ⟨n - 1, by omega⟩
      simp only [digitsAux, h, if_false]
      rw [ih _ hdiv f' (by omega), ih _ hdiv n' (by omega)]

theorem digits_small {b n : Nat} (h : n < b ∨ b < 2) : digits b n = [n] :=
  digitsAux_small h n

theorem digits_step {b n : Nat} (h : ¬ (n < b ∨ b < 2)) :
    digits b n = digits b (n / b) ++ [n % b] := by
  have hn : 0 < n := by omega
  have hdiv : n / b < n := Nat.div_lt_self hn (by omega)
  obtain ⟨n', rfl⟩ : ∃ n', n = n' + 1 := ⟨n - 1, by omega⟩
  unfold digits
  simp only [digitsAux, h, if_false]
  rw [digitsAux_indep (by omega) _ n' (by omega)]

theorem digits_lt {b : Nat} (hb : 2 ≤ b) : ∀ n, ∀ d ∈ digits b n, d < b := by
  intro n
  induction n using Nat.strongRecOn with
  | _ n ih =>
    by_cases h : n < b ∨ b < 2
    · rw [digits_small h]; intro d hd; simp at hd; omega
    · rw [digits_step h]
      intro d hd
      rcases List.mem_append.mp hd with hd | hd
      · exact ih (n / b) (Nat.div_lt_self (by omega) (by omega)) d hd
      · simp at hd; subst hd; exact Nat.mod_lt _ (by omega)

/-- value of a digit string read from accumulator `n` -/
def valFrom (b n : Nat) (ds : List Nat) : Nat := ds.foldl (fun a d => a * b + d) n

theorem valFrom_digits {b : Nat} (hb : 2 ≤ b) : ∀ n, valFrom b 0 (digits b n) = n := by
  intro n
  induction n using Nat.strongRecOn with
  | _ n ih =>
    by_cases h : n < b ∨ b < 2
    · rw [digits_small h]; simp [valFrom]
    · rw [digits_step h]
      have := ih (n / b) (Nat.div_lt_self (by omega) (by omega))
      unfold valFrom at this ⊢
      rw [List.foldl_append, this]
      simp only [List.foldl_cons, List.foldl_nil]
      rw [Nat.mul_comm]; exact Nat.div_add_mod n b

theorem digits_head {b : Nat} (hb : 2 ≤ b) :
    ∀ n, ∃ d rest, digits b n = d :: rest ∧ (0 < n → 0 < d) := by
  intro n
  induction n using Nat.strongRecOn with
  | _ n ih =>
    by_cases h : n < b ∨ b < 2
    · exact ⟨n, [], digits_small h, id⟩
    · obtain ⟨d, rest, he, hp⟩ := ih (n / b) (Nat.div_lt_self (by omega) (by omega))
      refine ⟨d, rest ++ [n % b], by rw [digits_step h, he]; rfl, fun _ => hp ?_⟩
      exact Nat.div_pos (by omega) (by omega)

theorem le_valFrom {b : Nat} (hb : 1 ≤ b) : ∀ (ds : List Nat) (n : Nat), n ≤ valFrom b n ds := by
  intro ds
  induction ds with
  | nil => intro n; exact Nat.le_refl _
  | cons d ds ih =>
    intro n
    have h1 := ih (n * b + d)
    have h2 : n ≤ n * b := Nat.le_mul_of_pos_right n hb
    show n ≤ valFrom b (n * b + d) ds
    omega

/-! ## B. the digit loop -/

theorem accum_eq {maxVal base n d : Nat} (hb : 1 ≤ base) (hd : d < two64)
    (hm : maxVal < two64) :
    accum maxVal base n d =
      if n * base + d ≤ maxVal then .ok (n * base + d) else .error .range := by
  unfold accum
  have hcut : n ≥ maxUint64 / base + 1 ↔ maxUint64 < n * base := by
    show maxUint64 / base < n ↔ _
    exact Nat.div_lt_iff_lt_mul (by omega)
  by_cases hc : n ≥ maxUint64 / base + 1
  · have := hcut.mp hc
    simp only [hc, if_true]
    unfold maxUint64 at this; unfold two64 at hm
    rw [if_neg (by omega)]
  · have hle : n * base ≤ maxUint64 := by
      have := mt hcut.mpr hc; omega
    simp only [hc, if_false]
    generalize n * base = m at hle ⊢
    unfold maxUint64 at hle; unfold two64 at hm hd ⊢
    by_cases hw : m + d < 18446744073709551616
    · rw [Nat.mod_eq_of_lt hw]
      by_cases hx : m + d ≤ maxVal
      · rw [if_neg (by omega), if_pos hx]
      · rw [if_pos (by omega), if_neg hx]
    · rw [if_pos (by omega), if_neg (by omega)]

theorem digitVal_digitChar : ∀ d, d < 16 → digitVal (digitChar d) = some d := by decide
theorem digitChar_ne_us : ∀ d, d < 16 → digitChar d ≠ '_' := by decide
theorem digitChar_eq_zero : ∀ d, d < 16 → (digitChar d = '0' ↔ d = 0) := by decide
theorem digitChar_not_sign : ∀ d, d < 16 → digitChar d ≠ '+' ∧ digitChar d ≠ '-' := by decide
theorem digitChar_not_sep : ∀ d, d < 16 → digitChar d ≠ ':' ∧ digitChar d ≠ '+' := by decide

theorem loop_spec {maxVal base : Nat} (hb1 : 2 ≤ base) (hb2 : base ≤ 16) (hm : maxVal < two64) :
    ∀ (ds : List Nat) (n : Nat) (us : Bool), (∀ d ∈ ds, d < base) → n ≤ maxVal →
      digitsLoop maxVal base n us (ds.map digitChar) =
        if valFrom base n ds ≤ maxVal then .ok (valFrom base n ds, us) else .error .range := by
  intro ds
  induction ds with
  | nil => intro n us _ hn; simp [digitsLoop, valFrom, hn]
  | cons d ds ih =>
    intro n us hds hn
    have hd : d < base := hds d (List.mem_cons_self ..)
    have hd16 : d < 16 := by omega
    simp only [List.map_cons, digitsLoop, digitChar_ne_us d hd16, if_false,
      digitVal_digitChar d hd16]
    rw [if_neg (by omega), accum_eq (by omega) (by unfold two64; omega) hm]
    show _ = if valFrom base (n * base + d) ds ≤ maxVal then
      Except.ok (valFrom base (n * base + d) ds, us) else Except.error NumErr.range
    by_cases hx : n * base + d ≤ maxVal
    · simp only [hx, if_true]
      exact ih (n * base + d) us (fun x hx' => hds x (List.mem_cons_of_mem _ hx')) hx
    · have := le_valFrom (b := base) (by omega) ds (n * base + d)
      simp only [hx, if_false]
      rw [if_neg (by omega)]

/-! ## C. ParseUint on rendered numerals -/

theorem pow_bits_le {bits : Nat} (h : bits ≤ 64) : 2 ^ bits - 1 < two64 := by
  have : 2 ^ bits ≤ 2 ^ 64 := Nat.pow_le_pow_right (by omega) h
  have : 0 < 2 ^ bits := Nat.pow_pos (by omega)
  unfold two64; omega

theorem parseUintE_dec {bits : Nat} (hbits : bits ≤ 64) (n : Nat) :
    parseUintE bits (toDecimalL n) = if n < 2 ^ bits then .ok n else .error .range := by
  have hpos : 0 < 2 ^ bits := Nat.pow_pos (by omega)
  obtain ⟨d, rest, he, hp⟩ := digits_head (b := 10) (by omega) n
  have hlt := digits_lt (b := 10) (by omega) n
  have hd : d < 10 := hlt d (by rw [he]; exact List.mem_cons_self ..)
  by_cases hn : n = 0
  · subst hn
    have : toDecimalL 0 = ['0'] := by
      unfold toDecimalL; rw [digits_small (by omega)]; rfl
    rw [this, if_pos hpos]; rfl
  · have hdp : 0 < d := hp (by omega)
    have hne : digitChar d ≠ '0' := fun h => by
      have := (digitChar_eq_zero d (by omega)).mp h; omega
    have hform : toDecimalL n = digitChar d :: rest.map digitChar := by
      unfold toDecimalL; rw [he]; rfl
    have hbp : basePrefix (toDecimalL n) = (10, toDecimalL n) := by
      rw [hform]; simp [basePrefix, hne]
    have hloop := loop_spec (maxVal := 2 ^ bits - 1) (base := 10) (by omega) (by omega)
      (pow_bits_le hbits) (digits 10 n) 0 false hlt (Nat.zero_le _)
    rw [valFrom_digits (by omega)] at hloop
    unfold parseUintE
    rw [hform]
    simp only
    rw [← hform, hbp]
    simp only
    unfold toDecimalL
    rw [hloop]
    by_cases hx : n < 2 ^ bits
    · rw [if_pos (by omega), if_pos hx]; rfl
    · rw [if_neg (by omega), if_neg hx]

theorem parseUintE_hex {bits : Nat} (hbits : bits ≤ 64) (n : Nat) :
    parseUintE bits (toHexL n) = if n < 2 ^ bits then .ok n else .error .range := by
  obtain ⟨d, rest, he, _⟩ := digits_head (b := 16) (by omega) n
  have hlt := digits_lt (b := 16) (by omega) n
  have hform : toHexL n = '0' :: 'x' :: digitChar d :: rest.map digitChar := by
    unfold toHexL; rw [he]; rfl
  have hbp : basePrefix (toHexL n) = (16, (digits 16 n).map digitChar) := by
    rw [hform, he]; simp [basePrefix]
  have hloop := loop_spec (maxVal := 2 ^ bits - 1) (base := 16) (by omega) (by omega)
    (pow_bits_le hbits) (digits 16 n) 0 false hlt (Nat.zero_le _)
  rw [valFrom_digits (by omega)] at hloop
  have hpos : 0 < 2 ^ bits := Nat.pow_pos (by omega)
  unfold parseUintE
  rw [hform]
  simp only
  rw [← hform, hbp]
  simp only
  rw [hloop]
  by_cases hx : n < 2 ^ bits
  · rw [if_pos (by omega), if_pos hx]; rfl
  · rw [if_neg (by omega), if_neg hx]

theorem parseUintE_num {bits : Nat} (hbits : bits ≤ 64) (f : NumFormat) (n : Nat) :
    parseUintE bits (natNumeral f n) = if n < 2 ^ bits then .ok n else .error .range := by
  cases f
  · exact parseUintE_dec hbits n
  · exact parseUintE_hex hbits n

/-! ## D. ParseInt on rendered numerals -/

theorem numeral_head (f : NumFormat) (n : Nat) :
    ∃ c cs, natNumeral f n = c :: cs ∧ c ≠ '+' ∧ c ≠ '-' := by
  cases f
  · obtain ⟨d, rest, he, _⟩ := digits_head (b := 10) (by omega) n
    have hd : d < 10 := digits_lt (b := 10) (by omega) n d (by rw [he]; exact List.mem_cons_self ..)
    refine ⟨digitChar d, rest.map digitChar, ?_, digitChar_not_sign d (by omega)⟩
    show toDecimalL n = _
    unfold toDecimalL; rw [he]; rfl
  · exact ⟨'0', _, rfl, by decide, by decide⟩

theorem parseIntE_nosign {bits : Nat} {c : Char} {cs : List Char} (h1 : c ≠ '+') (h2 : c ≠ '-') :
    parseIntE bits (c :: cs) =
      match parseUintE bits (c :: cs) with
      | .error .syntax => .error .syntax
      | .error .range =>
        if 2 ^ bits - 1 ≥ 2 ^ (bits - 1) then .error .range else .ok ((2 ^ bits - 1 : Nat) : Int)
      | .ok un => if un ≥ 2 ^ (bits - 1) then .error .range else .ok (un : Int) := by
  unfold parseIntE
  simp only [h1, h2, or_self, if_false, decide_false, Bool.not_false, Bool.true_and,
    Bool.false_and]
  split <;> simp_all

theorem parseIntE_minus {bits : Nat} {cs : List Char} :
    parseIntE bits ('-' :: cs) =
      match parseUintE bits cs with
      | .error .syntax => .error .syntax
      | .error .range =>
        if 2 ^ bits - 1 > 2 ^ (bits - 1) then .error .range
        else .ok (-((2 ^ bits - 1 : Nat) : Int))
      | .ok un => if un > 2 ^ (bits - 1) then .error .range else .ok (-(un : Int)) := by
  unfold parseIntE
  simp only [or_true, if_true, decide_true, Bool.not_true, Bool.false_and, Bool.true_and]
  split <;> simp_all

/-- (for bits = 1 Go's ParseInt itself is off: ParseInt("-5", 0, 1) returns -1 without error) -/
theorem parseIntE_num {bits : Nat} (h1 : 2 ≤ bits) (hbits : bits ≤ 64) (f : NumFormat) (z : Int) :
    parseIntE bits (intNumeral f z) =
      if -(2 ^ (bits - 1) : Int) ≤ z ∧ z < (2 ^ (bits - 1) : Int) then .ok z
      else .error .range := by
  obtain ⟨k, rfl⟩ : ∃ k, bits = k + 1 := ⟨bits - 1, by omega⟩
  have hP : 2 ≤ 2 ^ k := by
    have := Nat.pow_le_pow_right (n := 2) (by omega) (show 1 ≤ k by omega); omega
  have h2 : 2 ^ (k + 1) = 2 * 2 ^ k := by rw [Nat.pow_succ]; omega
  have hcast : ((2 ^ k : Nat) : Int) = (2 : Int) ^ k := by simp
  simp only [Nat.add_sub_cancel]
  rw [← hcast]
  generalize hPe : 2 ^ k = P at hP h2 ⊢
  have hnum : intNumeral f z = if z < 0 then '-' :: natNumeral f z.natAbs else natNumeral f z.natAbs := by
    cases f <;> rfl
  rw [hnum]
  by_cases hz : z < 0
  · rw [if_pos hz, parseIntE_minus, parseUintE_num hbits, h2]
    simp only [Nat.add_sub_cancel, hPe]
    by_cases hx : z.natAbs < 2 * P
    · rw [if_pos hx]
      simp only
      by_cases hy : z.natAbs > P
      · rw [if_pos hy, if_neg (by omega)]
      · rw [if_neg hy, if_pos (by omega)]
        congr 1; omega
    · rw [if_neg hx]
      simp only
      by_cases hy : 2 * P - 1 > P
      · rw [if_pos hy, if_neg (by omega)]
      · exfalso; omega
  · obtain ⟨c, cs, he, hc1, hc2⟩ := numeral_head f z.natAbs
    rw [if_neg hz, he, parseIntE_nosign hc1 hc2, ← he, parseUintE_num hbits, h2]
    simp only [Nat.add_sub_cancel, hPe]
    by_cases hx : z.natAbs < 2 * P
    · rw [if_pos hx]
      simp only
      by_cases hy : z.natAbs ≥ P
      · rw [if_pos hy, if_neg (by omega)]
      · rw [if_neg hy, if_pos (by omega)]
        congr 1; omega
    · rw [if_neg hx]
      simp only
      rw [if_pos (by omega), if_neg (by omega)]

/-! ## E. strings.Split -/

theorem splitOn_ne_nil (sep : Char) : ∀ l, splitOn sep l ≠ [] := by
  intro l
  induction l with
  | nil => simp [splitOn]
  | cons c cs ih =>
    unfold splitOn
    by_cases h : c = sep
    · simp [h]
    · simp only [h, if_false]
      split <;> simp

theorem splitOn_nosep {sep : Char} : ∀ {p : List Char}, sep ∉ p → splitOn sep p = [p] := by
  intro p
  induction p with
  | nil => intro _; rfl
  | cons c cs ih =>
    intro h
    have hc : c ≠ sep := fun e => h (by rw [e]; exact List.mem_cons_self ..)
    have := ih (fun m => h (List.mem_cons_of_mem _ m))
    simp [splitOn, hc, this]

theorem splitOn_append {sep : Char} (rest : List Char) :
    ∀ {p : List Char}, sep ∉ p → splitOn sep (p ++ sep :: rest) = p :: splitOn sep rest := by
  intro p
  induction p with
  | nil => intro _; simp [splitOn]
  | cons c cs ih =>
    intro h
    have hc : c ≠ sep := fun e => h (by rw [e]; exact List.mem_cons_self ..)
    have := ih (fun m => h (List.mem_cons_of_mem _ m))
    simp [splitOn, hc, this]

theorem splitOn_join {sep : Char} :
    ∀ parts : List (List Char), parts ≠ [] → (∀ p ∈ parts, sep ∉ p) →
      splitOn sep (joinWith sep parts) = parts := by
  intro parts
  induction parts with
  | nil => intro h; exact absurd rfl h
  | cons p rest ih =>
    intro _ hall
    cases rest with
    | nil => exact splitOn_nosep (hall p (List.mem_cons_self ..))
    | cons q rest' =>
      show splitOn sep (p ++ sep :: joinWith sep (q :: rest')) = _
      rw [splitOn_append _ (hall p (List.mem_cons_self ..)),
        ih (by simp) (fun x hx => hall x (List.mem_cons_of_mem _ hx))]

theorem natNumeral_nosep (f : NumFormat) (n : Nat) :
    ∀ c ∈ natNumeral f n, c ≠ ':' ∧ c ≠ '+' := by
  have hd : ∀ b, 2 ≤ b → b ≤ 16 → ∀ c ∈ (digits b n).map digitChar, c ≠ ':' ∧ c ≠ '+' := by
    intro b hb1 hb2 c hc
    obtain ⟨d, hd, rfl⟩ := List.mem_map.mp hc
    exact digitChar_not_sep d (by have := digits_lt hb1 n d hd; omega)
  intro c hc
  cases f
  · exact hd 10 (by omega) (by omega) c hc
  · change c ∈ '0' :: 'x' :: (digits 16 n).map digitChar at hc
    rcases List.mem_cons.mp hc with rfl | hc
    · decide
    · rcases List.mem_cons.mp hc with rfl | hc
      · decide
      · exact hd 16 (by omega) (by omega) c hc

theorem intNumeral_nosep (f : NumFormat) (z : Int) : ∀ c ∈ intNumeral f z, c ≠ ':' := by
  have hnum : intNumeral f z = if z < 0 then '-' :: natNumeral f z.natAbs else natNumeral f z.natAbs := by
    cases f <;> rfl
  intro c hc
  rw [hnum] at hc
  split at hc
  · rcases List.mem_cons.mp hc with rfl | hc
    · decide
    · exact (natNumeral_nosep f _ c hc).1
  · exact (natNumeral_nosep f _ c hc).1

/-! ## F. numerals of the widths the CLI uses -/

theorem parseUint16E_num (f : NumFormat) (a : U16) :
    parseUint16E (natNumeral f a.toNat) = .ok a := by
  unfold parseUint16E
  rw [parseUintE_num (by omega), if_pos a.isLt]
  simp [Except.map]

theorem parseUint32E_num (f : NumFormat) (a : U32) :
    parseUint32E (natNumeral f a.toNat) = .ok a := by
  unfold parseUint32E
  rw [parseUintE_num (by omega), if_pos a.isLt]
  simp [Except.map]

theorem parseUint64E_num (f : NumFormat) (a : U64) :
    parseUint64E (natNumeral f a.toNat) = .ok a := by
  unfold parseUint64E
  rw [parseUintE_num (by omega), if_pos a.isLt]
  simp [Except.map]

theorem parseUnitIdE_num (f : NumFormat) (a : Byte) :
    parseUnitIdE (natNumeral f a.toNat) = .ok a := by
  unfold parseUnitIdE
  rw [parseUintE_num (by omega), if_pos a.isLt]
  simp [Except.map]

theorem parseUint16E_range (f : NumFormat) (n : Nat) (h : 65536 ≤ n) :
    parseUint16E (natNumeral f n) = .error .range := by
  unfold parseUint16E
  rw [parseUintE_num (by omega), if_neg (by omega)]; rfl

theorem parseUint32E_range (f : NumFormat) (n : Nat) (h : 4294967296 ≤ n) :
    parseUint32E (natNumeral f n) = .error .range := by
  unfold parseUint32E
  rw [parseUintE_num (by omega), if_neg (by omega)]; rfl

theorem parseUint64E_range (f : NumFormat) (n : Nat) (h : 18446744073709551616 ≤ n) :
    parseUint64E (natNumeral f n) = .error .range := by
  unfold parseUint64E
  rw [parseUintE_num (by omega), if_neg (by omega)]; rfl

theorem parseUnitIdE_range (f : NumFormat) (n : Nat) (h : 256 ≤ n) :
    parseUnitIdE (natNumeral f n) = .error .range := by
  unfold parseUnitIdE
  rw [parseUintE_num (by omega), if_neg (by omega)]; rfl

theorem parseInt16E_num (f : NumFormat) (z : Int) (h : -32768 ≤ z ∧ z ≤ 32767) :
    parseInt16E (intNumeral f z) = .ok (BitVec.ofInt 16 z) := by
  unfold parseInt16E
  rw [parseIntE_num (by omega) (by omega), if_pos (by simp; omega)]; rfl

theorem parseInt32E_num (f : NumFormat) (z : Int) (h : -2147483648 ≤ z ∧ z ≤ 2147483647) :
    parseInt32E (intNumeral f z) = .ok (BitVec.ofInt 32 z) := by
  unfold parseInt32E
  rw [parseIntE_num (by omega) (by omega), if_pos (by simp; omega)]; rfl

theorem parseInt64E_num (f : NumFormat) (z : Int)
    (h : -9223372036854775808 ≤ z ∧ z ≤ 9223372036854775807) :
    parseInt64E (intNumeral f z) = .ok (BitVec.ofInt 64 z) := by
  unfold parseInt64E
  rw [parseIntE_num (by omega) (by omega), if_pos (by simp; omega)]; rfl

theorem parseInt16E_range (f : NumFormat) (z : Int) (h : z < -32768 ∨ 32767 < z) :
    parseInt16E (intNumeral f z) = .error .range := by
  unfold parseInt16E
  rw [parseIntE_num (by omega) (by omega), if_neg (by simp; omega)]; rfl

theorem parseInt32E_range (f : NumFormat) (z : Int) (h : z < -2147483648 ∨ 2147483647 < z) :
    parseInt32E (intNumeral f z) = .error .range := by
  unfold parseInt32E
  rw [parseIntE_num (by omega) (by omega), if_neg (by simp; omega)]; rfl

theorem parseInt64E_range (f : NumFormat) (z : Int)
    (h : z < -9223372036854775808 ∨ 9223372036854775807 < z) :
    parseInt64E (intNumeral f z) = .error .range := by
  unfold parseInt64E
  rw [parseIntE_num (by omega) (by omega), if_neg (by simp; omega)]; rfl

/-! ## G. the argument switch, clause by clause -/

/-- the argument is refused: a message is printed and the process exits with status 2 -/
def Refused {α : Type} (r : Except String α) : Prop := ∃ e, r = .error e

instance {α : Type} (r : Except String α) : Decidable (Refused r) :=
  match r with
  | .error e => isTrue ⟨e, rfl⟩
  | .ok _ => isFalse (fun ⟨_, h⟩ => by cases h)

@[simp] theorem refused_error {α : Type} (e : String) : Refused (.error e : Except String α) :=
  ⟨e, rfl⟩
@[simp] theorem refused_ok {α : Type} (x : α) : ¬ Refused (.ok x : Except String α) :=
  fun ⟨_, h⟩ => by cases h

theorem parts_rc_ok {nm a : List Char} {addr q : U16} (h : cmdOf nm = some .rc)
    (ha : parseAddressAndQuantityE a = .ok (addr, q)) :
    parseParts [nm, a] = .ok (.readBools true addr q) := by
  simp [parseParts, h, ha]

theorem parts_rdi_ok {nm a : List Char} {addr q : U16} (h : cmdOf nm = some .rdi)
    (ha : parseAddressAndQuantityE a = .ok (addr, q)) :
    parseParts [nm, a] = .ok (.readBools false addr q) := by
  simp [parseParts, h, ha]

theorem parts_rh_ok {nm t a : List Char} {ty : RegTy} {addr q : U16} (h : cmdOf nm = some .rh)
    (ht : regTyOf t = some ty) (ha : parseAddressAndQuantityE a = .ok (addr, q)) :
    parseParts [nm, t, a] = .ok (.readRegs ty true addr q) := by
  simp [parseParts, h, ha, ht]

theorem parts_ri_ok {nm t a : List Char} {ty : RegTy} {addr q : U16} (h : cmdOf nm = some .ri)
    (ht : regTyOf t = some ty) (ha : parseAddressAndQuantityE a = .ok (addr, q)) :
    parseParts [nm, t, a] = .ok (.readRegs ty false addr q) := by
  simp [parseParts, h, ha, ht]

theorem parts_wc_ok {nm a : List Char} {addr : U16} (b : Bool) (h : cmdOf nm = some .wc)
    (ha : parseUint16E a = .ok addr) :
    parseParts [nm, a, (if b then "true" else "false").toList] = .ok (.writeCoil addr b) := by
  cases b <;> simp [parseParts, h, ha, withNum, str]

theorem parts_wr {nm t a v : List Char} {ty : WrTy} {addr : U16} (h : cmdOf nm = some .wr)
    (ht : wrTyOf t = some ty) (ha : parseUint16E a = .ok addr) :
    parseParts [nm, t, a, v] = parseWrValue ty t addr v := by
  simp [parseParts, h, ha, ht, withNum]

theorem parts_sid_ok {nm u : List Char} {x : Byte} (h : cmdOf nm = some .sid)
    (hu : parseUnitIdE u = .ok x) : parseParts [nm, u] = .ok (.setUnitId x) := by
  simp [parseParts, h, hu]

/-! ### refusals -/

theorem refuse_unknown_cmd {nm : List Char} {args : List (List Char)} (h : cmdOf nm = none) :
    Refused (parseParts (nm :: args)) := by
  simp only [parseParts, h]
  split <;> simp

theorem refuse_no_parts : Refused (parseParts []) := by simp [parseParts]

theorem refuse_arity_rc {nm : List Char} {args : List (List Char)}
    (h : cmdOf nm = some .rc ∨ cmdOf nm = some .rdi) (hl : args.length ≠ 1) :
    Refused (parseParts (nm :: args)) := by
  simp only [parseParts]
  split
  · simp
  · rcases h with h | h <;> simp only [h] <;>
    match args, hl with
    | [], _ => simp
    | _ :: _ :: _, _ => simp

theorem refuse_arity_rh {nm : List Char} {args : List (List Char)}
    (h : cmdOf nm = some .rh ∨ cmdOf nm = some .ri) (hl : args.length ≠ 2) :
    Refused (parseParts (nm :: args)) := by
  simp only [parseParts]
  split
  · simp
  · rcases h with h | h <;> simp only [h] <;>
    match args, hl with
    | [], _ => simp
    | [_], _ => simp
    | _ :: _ :: _ :: _, _ => simp

theorem refuse_arity_wc {nm : List Char} {args : List (List Char)}
    (h : cmdOf nm = some .wc) (hl : args.length ≠ 2) :
    Refused (parseParts (nm :: args)) := by
  simp only [parseParts]
  split
  · simp
  · simp only [h]
    match args, hl with
    | [], _ => simp
    | [_], _ => simp
    | _ :: _ :: _ :: _, _ => simp

theorem refuse_arity_wr {nm : List Char} {args : List (List Char)}
    (h : cmdOf nm = some .wr) (hl : args.length ≠ 3) :
    Refused (parseParts (nm :: args)) := by
  simp only [parseParts]
  split
  · simp
  · simp only [h]
    match args, hl with
    | [], _ => simp
    | [_], _ => simp
    | [_, _], _ => simp
    | _ :: _ :: _ :: _ :: _, _ => simp

theorem refuse_arity_sid {nm : List Char} {args : List (List Char)}
    (h : cmdOf nm = some .sid) (hl : args.length ≠ 1) :
    Refused (parseParts (nm :: args)) := by
  simp only [parseParts]
  split
  · simp
  · simp only [h]
    match args, hl with
    | [], _ => simp
    | _ :: _ :: _, _ => simp

theorem refuse_type_rh {nm t a : List Char} (h : cmdOf nm = some .rh ∨ cmdOf nm = some .ri)
    (ht : regTyOf t = none) : Refused (parseParts [nm, t, a]) := by
  rcases h with h | h <;> simp [parseParts, h, ht]

theorem refuse_type_wr {nm t a v : List Char} (h : cmdOf nm = some .wr)
    (ht : wrTyOf t = none) : Refused (parseParts [nm, t, a, v]) := by
  simp only [parseParts, h]
  split
  · simp
  · cases hx : withNum "ParseUint" a (parseUint16E a) <;> simp [ht]

theorem refuse_aq_rc {nm a : List Char} (h : cmdOf nm = some .rc ∨ cmdOf nm = some .rdi)
    (ha : Refused (parseAddressAndQuantityE a)) : Refused (parseParts [nm, a]) := by
  obtain ⟨e, ha⟩ := ha
  rcases h with h | h <;> simp [parseParts, h, ha]

theorem refuse_aq_rh {nm t a : List Char} (h : cmdOf nm = some .rh ∨ cmdOf nm = some .ri)
    (ha : Refused (parseAddressAndQuantityE a)) : Refused (parseParts [nm, t, a]) := by
  obtain ⟨e, ha⟩ := ha
  rcases h with h | h <;> simp only [parseParts, h] <;> (split; simp) <;>
    cases ht : regTyOf t <;> simp [ha]

theorem refuse_addr_wc {nm a v : List Char} {e : NumErr} (h : cmdOf nm = some .wc)
    (ha : parseUint16E a = .error e) : Refused (parseParts [nm, a, v]) := by
  simp [parseParts, h, ha, withNum]

theorem refuse_addr_wr {nm t a v : List Char} {e : NumErr} (h : cmdOf nm = some .wr)
    (ha : parseUint16E a = .error e) : Refused (parseParts [nm, t, a, v]) := by
  simp [parseParts, h, ha, withNum]

theorem refuse_coil_value {nm a v : List Char} (h : cmdOf nm = some .wc)
    (hv : str v ≠ "true" ∧ str v ≠ "false") : Refused (parseParts [nm, a, v]) := by
  simp only [parseParts, h]
  split
  · simp
  · cases hx : withNum "ParseUint" a (parseUint16E a) <;> simp [hv.1, hv.2]

theorem refuse_sid {nm u : List Char} {e : NumErr} (h : cmdOf nm = some .sid)
    (hu : parseUnitIdE u = .error e) : Refused (parseParts [nm, u]) := by
  simp [parseParts, h, hu]

/-- a bad numeral in either position of `<addr>[+n]`, or more than one '+' -/
theorem refuse_aq_addr {a : List Char} {e : NumErr} (hp : '+' ∉ a)
    (h : parseUint16E a = .error e) : Refused (parseAddressAndQuantityE a) := by
  simp [parseAddressAndQuantityE, splitOn_nosep hp, h, withNum, Except.map]

theorem refuse_aq_first {p0 p1 : List Char} {e : NumErr} (h0 : '+' ∉ p0) (h1 : '+' ∉ p1)
    (h : parseUint16E p0 = .error e) : Refused (parseAddressAndQuantityE (p0 ++ '+' :: p1)) := by
  simp [parseAddressAndQuantityE, splitOn_append _ h0, splitOn_nosep h1, h, withNum]

theorem refuse_aq_second {p0 p1 : List Char} {a : U16} {e : NumErr} (h0 : '+' ∉ p0)
    (h1 : '+' ∉ p1) (ha : parseUint16E p0 = .ok a) (h : parseUint16E p1 = .error e) :
    Refused (parseAddressAndQuantityE (p0 ++ '+' :: p1)) := by
  simp [parseAddressAndQuantityE, splitOn_append _ h0, splitOn_nosep h1, h, ha, withNum,
    Except.map]

theorem refuse_aq_plus (p0 p1 rest : List Char) (h0 : '+' ∉ p0) (h1 : '+' ∉ p1) :
    Refused (parseAddressAndQuantityE (p0 ++ '+' :: (p1 ++ '+' :: rest))) := by
  unfold parseAddressAndQuantityE
  rw [splitOn_append _ h0, splitOn_append _ h1]
  have := splitOn_ne_nil '+' rest
  match hs : splitOn '+' rest, this with
  | x :: xs, _ => simp

/-- hex.DecodeString: odd length or a non-hex character -/
theorem hex_refuse_odd : ∀ (l : List Char), l.length % 2 = 1 → Refused (parseHexBytesE l)
  | [], h => by simp at h
  | [c], _ => by
    unfold parseHexBytesE; cases hexVal c <;> simp
  | p :: q :: rest, h => by
    have ih := hex_refuse_odd rest (by simp [List.length_cons] at h; omega)
    obtain ⟨e, ih⟩ := ih
    unfold parseHexBytesE
    cases hexVal p <;> cases hexVal q <;> simp [ih]

theorem hex_refuse_nonhex : ∀ (l : List Char) (c : Char), c ∈ l → hexVal c = none →
    Refused (parseHexBytesE l)
  | [], _, h, _ => by simp at h
  | [x], c, h, hc => by
    have : c = x := by simpa using h
    subst this
    unfold parseHexBytesE; simp [hc]
  | p :: q :: rest, c, h, hc => by
    unfold parseHexBytesE
    cases hp : hexVal p with
    | none => simp
    | some a =>
      cases hq : hexVal q with
      | none => simp
      | some b =>
        have hin : c ∈ rest := by
          rcases List.mem_cons.mp h with rfl | h
          · rw [hp] at hc; cases hc
          · rcases List.mem_cons.mp h with rfl | h
            · rw [hq] at hc; cases hc
            · exact h
        obtain ⟨e, ih⟩ := hex_refuse_nonhex rest c hin hc
        simp [ih]

theorem wr_refuse_bytes {t v : List Char} {addr : U16} (h : Refused (parseHexBytesE v)) :
    Refused (parseWrValue (.reg .bytes) t addr v) := by
  obtain ⟨e, h⟩ := h
  simp [parseWrValue, h]

theorem wr_refuse_uint16 {t v : List Char} {addr : U16} {e : NumErr}
    (h : parseUint16E v = .error e) : Refused (parseWrValue (.reg .uint16) t addr v) := by
  simp [parseWrValue, h]
theorem wr_refuse_int16 {t v : List Char} {addr : U16} {e : NumErr}
    (h : parseInt16E v = .error e) : Refused (parseWrValue (.reg .int16) t addr v) := by
  simp [parseWrValue, h]
theorem wr_refuse_uint32 {t v : List Char} {addr : U16} {e : NumErr}
    (h : parseUint32E v = .error e) : Refused (parseWrValue (.reg .uint32) t addr v) := by
  simp [parseWrValue, h]
theorem wr_refuse_int32 {t v : List Char} {addr : U16} {e : NumErr}
    (h : parseInt32E v = .error e) : Refused (parseWrValue (.reg .int32) t addr v) := by
  simp [parseWrValue, h]
theorem wr_refuse_uint64 {t v : List Char} {addr : U16} {e : NumErr}
    (h : parseUint64E v = .error e) : Refused (parseWrValue (.reg .uint64) t addr v) := by
  simp [parseWrValue, h]
theorem wr_refuse_int64 {t v : List Char} {addr : U16} {e : NumErr}
    (h : parseInt64E v = .error e) : Refused (parseWrValue (.reg .int64) t addr v) := by
  simp [parseWrValue, h]

/-! ## H. documented commands -/

def tyMap : CliType → RegTy
  | .uint16 => .uint16 | .int16 => .int16 | .uint32 => .uint32 | .int32 => .int32
  | .float32 => .float32 | .uint64 => .uint64 | .int64 => .int64 | .float64 => .float64
  | .bytes => .bytes

def cmdTag : Command → Cmd
  | .readCoils .. => .rc | .readDiscrete .. => .rdi | .readHolding .. => .rh
  | .readInput .. => .ri | .writeCoil .. => .wc | .writeReg .. => .wr | .setUnit _ => .sid

/-- the operation a documented command has to be parsed into -/
def expectedOp : Command → Operation
  | .readCoils a e => .readBools true a (e.getD 0)
  | .readDiscrete a e => .readBools false a (e.getD 0)
  | .readHolding ty a e => .readRegs (tyMap ty) true a (e.getD 0)
  | .readInput ty a e => .readRegs (tyMap ty) false a (e.getD 0)
  | .writeCoil a b => .writeCoil a b
  | .writeReg a (.uint16 v) => .writeU16 a v false
  | .writeReg a (.int16 z) => .writeU16 a (BitVec.ofInt 16 z) true
  | .writeReg a (.uint32 v) => .writeU32 a v false
  | .writeReg a (.int32 z) => .writeU32 a (BitVec.ofInt 32 z) true
  | .writeReg a (.float32 b) => .writeF32 a b
  | .writeReg a (.uint64 v) => .writeU64 a v false
  | .writeReg a (.int64 z) => .writeU64 a (BitVec.ofInt 64 z) true
  | .writeReg a (.float64 b) => .writeF64 a b
  | .writeReg a (.bytes bs) => .writeBytes a bs
  | .setUnit u => .setUnitId u

theorem regTyOf_name (t : CliType) : regTyOf t.name.toList = some (tyMap t) := by
  cases t <;> decide

theorem wrTyOf_name (t : CliType) : wrTyOf t.name.toList = some (.reg (tyMap t)) := by
  cases t <;> decide

theorem cmdOf_name (c : Command) (al : Alias) : cmdOf (c.name al).toList = some (cmdTag c) := by
  cases c <;> cases al <;> simp only [Command.name, cmdTag] <;> decide

theorem name_nosep (c : Command) (al : Alias) : ':' ∉ (c.name al).toList := by
  cases c <;> cases al <;> simp only [Command.name] <;> decide

theorem tyname_nosep (t : CliType) : ':' ∉ t.name.toList := by cases t <;> decide

theorem natNumeral_nocolon (f : NumFormat) (n : Nat) : ':' ∉ natNumeral f n :=
  fun h => (natNumeral_nosep f n _ h).1 rfl
theorem natNumeral_noplus (f : NumFormat) (n : Nat) : '+' ∉ natNumeral f n :=
  fun h => (natNumeral_nosep f n _ h).2 rfl
theorem intNumeral_nocolon (f : NumFormat) (z : Int) : ':' ∉ intNumeral f z :=
  fun h => intNumeral_nosep f z _ h rfl

theorem addrField_nocolon (st : Style) (a : U16) (e : Option U16) : ':' ∉ addrField st a e := by
  cases e with
  | none => exact natNumeral_nocolon _ _
  | some n =>
    intro h
    rcases List.mem_append.mp h with h | h
    · exact natNumeral_nocolon _ _ h
    · rcases List.mem_cons.mp h with h | h
      · cases h
      · exact natNumeral_nocolon _ _ h

theorem parseAQ_addrField (st : Style) (a : U16) (e : Option U16) :
    parseAddressAndQuantityE (addrField st a e) = .ok (a, e.getD 0) := by
  cases e with
  | none =>
    simp [addrField, parseAddressAndQuantityE, splitOn_nosep (natNumeral_noplus _ _),
      parseUint16E_num, withNum, Except.map]
  | some n =>
    simp [addrField, parseAddressAndQuantityE, splitOn_append _ (natNumeral_noplus _ _),
      splitOn_nosep (natNumeral_noplus _ _), parseUint16E_num, withNum, Except.map]

theorem hexVal_digitChar :
    ∀ d, d < 16 → hexVal (digitChar d) = some d ∧ hexVal (digitChar d).toUpper = some d := by
  decide

theorem hexChar_nocolon :
    ∀ d, d < 16 → digitChar d ≠ ':' ∧ (digitChar d).toUpper ≠ ':' := by decide

theorem parseHexBytesE_render (up : Bool) :
    ∀ bs : Bytes, parseHexBytesE (bs.flatMap (byteHex up)) = .ok bs := by
  intro bs
  induction bs with
  | nil => rfl
  | cons b rest ih =>
    have h1 : b.toNat / 16 < 16 := by have := b.isLt; omega
    have h2 : b.toNat % 16 < 16 := Nat.mod_lt _ (by omega)
    have hb : BitVec.ofNat 8 (b.toNat / 16 * 16 + b.toNat % 16) = b := by
      rw [Nat.div_add_mod']; apply BitVec.eq_of_toNat_eq; simp
    rw [List.flatMap_cons]
    cases up
    · simp only [byteHex, Bool.false_eq_true, if_false, List.cons_append, List.nil_append]
      unfold parseHexBytesE
      simp only [(hexVal_digitChar _ h1).1, (hexVal_digitChar _ h2).1, ih, hb]
    · simp only [byteHex, if_true, List.map_cons, List.map_nil, List.cons_append,
        List.nil_append]
      unfold parseHexBytesE
      simp only [(hexVal_digitChar _ h1).2, (hexVal_digitChar _ h2).2, ih, hb]

theorem bytes_nocolon (up : Bool) : ∀ bs : Bytes, ':' ∉ bs.flatMap (byteHex up) := by
  intro bs h
  obtain ⟨b, _, hb⟩ := List.mem_flatMap.mp h
  have h1 : b.toNat / 16 < 16 := by have := b.isLt; omega
  have h2 : b.toNat % 16 < 16 := Nat.mod_lt _ (by omega)
  cases up <;> simp [byteHex] at hb
  · rcases hb with hb | hb
    · exact (hexChar_nocolon _ h1).1 hb.symm
    · exact (hexChar_nocolon _ h2).1 hb.symm
  · rcases hb with hb | hb
    · exact (hexChar_nocolon _ h1).2 hb.symm
    · exact (hexChar_nocolon _ h2).2 hb.symm

theorem value_nocolon (st : Style) (v : CliValue) : ':' ∉ v.render st := by
  cases v <;> simp only [CliValue.render] <;>
    first
    | exact natNumeral_nocolon _ _
    | exact intNumeral_nocolon _ _
    | exact bytes_nocolon _ _

theorem parseWrValue_render (st : Style) (a : U16) (v : CliValue) (hr : v.inRange) :
    parseWrValue (.reg (tyMap v.ty)) v.ty.name.toList a (v.render st) =
      .ok (expectedOp (.writeReg a v)) := by
  cases v <;>
    simp [parseWrValue, CliValue.render, CliValue.ty, tyMap, expectedOp, parseUint16E_num,
      parseUint32E_num, parseUint64E_num, parseHexBytesE_render]
  · rw [parseInt16E_num _ _ hr]
  · rw [parseInt32E_num _ _ hr]
  · rw [parseInt64E_num _ _ hr]

theorem fields_ne_nil (c : Command) (st : Style) : c.fields st ≠ [] := by
  cases c <;> simp [Command.fields]

theorem fields_nocolon (c : Command) (st : Style) : ∀ p ∈ c.fields st, ':' ∉ p := by
  intro p hp
  cases c <;> simp only [Command.fields, List.mem_cons, List.not_mem_nil, or_false] at hp
  all_goals
    rcases hp with rfl | hp
    · exact name_nosep _ _
  · subst hp; exact addrField_nocolon _ _ _
  · subst hp; exact addrField_nocolon _ _ _
  · rcases hp with rfl | rfl
    · exact tyname_nosep _
    · exact addrField_nocolon _ _ _
  · rcases hp with rfl | rfl
    · exact tyname_nosep _
    · exact addrField_nocolon _ _ _
  · rcases hp with rfl | rfl
    · exact natNumeral_nocolon _ _
    · rename_i b; cases b <;> decide
  · rcases hp with rfl | rfl | rfl
    · exact tyname_nosep _
    · exact natNumeral_nocolon _ _
    · exact value_nocolon _ _
  · subst hp; exact natNumeral_nocolon _ _

/-- the values of a write fit their type (all that acceptance needs) -/
def valueOk : Command → Prop
  | .writeReg _ v => v.inRange
  | _ => True

theorem valueOk_of_documented {c : Command} (h : c.documented) : valueOk c := by
  cases c <;> first | exact h | trivial

theorem parseArgL_render (c : Command) (st : Style) (h : valueOk c) :
    parseArgL (renderL c st) = .ok (expectedOp c) := by
  unfold parseArgL renderL
  rw [splitOn_join _ (fields_ne_nil c st) (fields_nocolon c st)]
  cases c with
  | readCoils a e => exact parts_rc_ok (cmdOf_name _ _) (parseAQ_addrField st a e)
  | readDiscrete a e => exact parts_rdi_ok (cmdOf_name _ _) (parseAQ_addrField st a e)
  | readHolding ty a e =>
    exact parts_rh_ok (cmdOf_name _ _) (regTyOf_name ty) (parseAQ_addrField st a e)
  | readInput ty a e =>
    exact parts_ri_ok (cmdOf_name _ _) (regTyOf_name ty) (parseAQ_addrField st a e)
  | writeCoil a b => exact parts_wc_ok b (cmdOf_name _ _) (parseUint16E_num _ a)
  | writeReg a v =>
    show parseParts [_, _, _, _] = _
    rw [parts_wr (cmdOf_name _ _) (wrTyOf_name v.ty) (parseUint16E_num _ a)]
    exact parseWrValue_render st a v h
  | setUnit u => exact parts_sid_ok (cmdOf_name _ _) (parseUnitIdE_num _ u)

theorem add_one_eq (q : U16) : q + 1 = u16OfNat (q.toNat + 1) := by
  apply BitVec.eq_of_toNat_eq
  simp [u16OfNat, BitVec.toNat_add]

theorem execute_expected (c : Command) : execute (expectedOp c) = documentedOps c := by
  cases c with
  | readCoils a e => simp [expectedOp, execute, documentedOps, count]; exact add_one_eq _
  | readDiscrete a e => simp [expectedOp, execute, documentedOps, count]; exact add_one_eq _
  | readHolding ty a e =>
    cases ty <;>
      simp [expectedOp, execute, documentedOps, count, tyMap, readTyped, regTypeArg] <;>
      exact add_one_eq _
  | readInput ty a e =>
    cases ty <;>
      simp [expectedOp, execute, documentedOps, count, tyMap, readTyped, regTypeArg] <;>
      exact add_one_eq _
  | writeCoil a b => rfl
  | writeReg a v => cases v <;> rfl
  | setUnit u => rfl

/-! ## I. the argument loop -/

theorem runL_first : ∀ (pre : List (List Char)) (a : List Char) (post : List (List Char))
    (e : String), (∀ x ∈ pre, ¬ Refused (parseArgL x)) → parseArgL a = .error e →
    runL (pre ++ a :: post) = .error e := by
  intro pre
  induction pre with
  | nil => intro a post e _ ha; simp [runL, ha]
  | cons p pre ih =>
    intro a post e hpre ha
    have hp := hpre p (List.mem_cons_self ..)
    cases hx : parseArgL p with
    | error m => exact absurd ⟨m, hx⟩ hp
    | ok o =>
      have := ih a post e (fun x hx' => hpre x (List.mem_cons_of_mem _ hx')) ha
      simp [runL, hx, this]

theorem runL_refuse : ∀ (args : List (List Char)), (∃ a ∈ args, Refused (parseArgL a)) →
    Refused (runL args) := by
  intro args
  induction args with
  | nil => intro ⟨_, h, _⟩; simp at h
  | cons p rest ih =>
    intro ⟨a, hmem, hr⟩
    cases hx : parseArgL p with
    | error m => simp [runL, hx]
    | ok o =>
      rcases List.mem_cons.mp hmem with rfl | hmem
      · obtain ⟨e, hr⟩ := hr; rw [hx] at hr; cases hr
      · obtain ⟨e, he⟩ := ih ⟨a, hmem, hr⟩
        simp [runL, hx, he]

theorem runL_ok : ∀ (args : List (List Char)) (ops : List Operation),
    runL args = .ok ops → args.map parseArgL = ops.map .ok := by
  intro args
  induction args with
  | nil => intro ops h; simp [runL] at h; subst h; rfl
  | cons p rest ih =>
    intro ops h
    cases hx : parseArgL p with
    | error m => simp [runL, hx] at h
    | ok o =>
      cases hr : runL rest with
      | error m => simp [runL, hx, hr] at h
      | ok os =>
        simp [runL, hx, hr] at h
        subst h
        simp [hx, ih os hr]

theorem runL_render : ∀ (cs : List (Command × Style)), (∀ p ∈ cs, p.1.documented) →
    runL (cs.map (fun p => renderL p.1 p.2)) = .ok (cs.map (fun p => expectedOp p.1)) := by
  intro cs
  induction cs with
  | nil => intro _; rfl
  | cons p rest ih =>
    intro h
    have h1 := parseArgL_render p.1 p.2 (valueOk_of_documented (h p (List.mem_cons_self ..)))
    have h2 := ih (fun x hx => h x (List.mem_cons_of_mem _ hx))
    simp [runL, h1, h2]

theorem nextUnit_expected (u : Byte) (c : Command) :
    nextUnit u (expectedOp c) = documentedUnit u c := by
  cases c with
  | writeReg a v => cases v <;> rfl
  | _ => rfl

theorem trace_expected : ∀ (cs : List Command) (u : Byte),
    trace u (cs.map expectedOp) = documentedTrace u cs := by
  intro cs
  induction cs with
  | nil => intro _; rfl
  | cons c rest ih =>
    intro u
    simp only [List.map_cons, trace, documentedTrace, execute_expected, nextUnit_expected, ih]

theorem invoke_refuse (i : Invocation) (h : ∃ a ∈ i.args, Refused (parseArg a)) :
    (∃ m, invoke i = .usage m) ∨ (∃ m, invoke i = .refused m) := by
  have hne : i.args ≠ [] := by
    obtain ⟨a, hm, _⟩ := h; intro hn; rw [hn] at hm; cases hm
  have hr : Refused (run i.args) := by
    apply runL_refuse
    obtain ⟨a, hm, hr⟩ := h
    exact ⟨a.toList, List.mem_map.mpr ⟨a, hm, rfl⟩, hr⟩
  obtain ⟨e, hr⟩ := hr
  unfold invoke
  simp only
  split
  · exact .inl ⟨_, rfl⟩
  · split
    · exact .inl ⟨_, rfl⟩
    · rw [if_neg hne, hr]; exact .inr ⟨_, rfl⟩

/-! ## J. the `+n` idiom at the edge, and the protocol limits -/

set_option linter.unusedSimpArgs false in
theorem breaks_readTyped (ty : CliType) (a : U16) (e : Option U16) (rt : Nat)
    (hrt : rt = 0 ∨ rt = 1) :
    Spec.breaksLimits (readTyped ty a (count e) rt) = true ↔
      ty.regsFor (count e) > 125 ∨ a.toNat + ty.regsFor (count e) > 65536 := by
  have hq := (e.getD 0).isLt
  unfold count
  generalize (e.getD 0).toNat = q at hq
  have hmod : (u16OfNat (q + 1)).toNat = (q + 1) % 65536 := by simp [u16OfNat]
  have ha := a.isLt
  rcases hrt with rfl | rfl <;> cases ty <;>
    simp only [readTyped, Spec.breaksLimits, Spec.items, Spec.limit, Spec.fn, Spec.Fn.limit,
      Spec.addr, Spec.regTypeOk, Spec.regType?, Spec.regsForBytes, CliType.regsFor, hmod,
      Bool.or_eq_true, beq_iff_eq, decide_eq_true_eq, Bool.not_eq_true', Bool.or_false,
      Bool.or_self, beq_self_eq_true, Bool.true_or, Bool.or_true, Bool.not_true,
      Nat.reduceBEq, Bool.false_or] <;>
    omega

set_option linter.unusedSimpArgs false in
theorem breaks_readBools (coil : Bool) (a : U16) (e : Option U16) :
    Spec.breaksLimits (if coil then Op.readCoils a (u16OfNat (count e))
                       else Op.readDiscreteInputs a (u16OfNat (count e))) = true ↔
      count e > 2000 ∨ a.toNat + count e > 65536 := by
  have hq := (e.getD 0).isLt
  unfold count
  generalize (e.getD 0).toNat = q at hq
  have hmod : (u16OfNat (q + 1)).toNat = (q + 1) % 65536 := by simp [u16OfNat]
  have ha := a.isLt
  cases coil <;>
    simp only [Spec.breaksLimits, Spec.items, Spec.limit, Spec.fn, Spec.Fn.limit,
      Spec.addr, Spec.regTypeOk, Spec.regType?, hmod, if_true, Bool.false_eq_true, if_false,
      Bool.or_eq_true, beq_iff_eq, decide_eq_true_eq, Bool.not_eq_true', Bool.or_false,
      Bool.not_true] <;>
    omega

/-- no wrap: the quantity handed to the library is the documented number of values -/
theorem count_nowrap (e : Option U16) (h : count e ≤ 65535) :
    (u16OfNat (count e)).toNat = count e := by
  simp [u16OfNat]; omega

theorem items_readTyped (ty : CliType) (a : U16) (e : Option U16) (rt : Nat)
    (h : count e ≤ 65535) :
    Spec.items (readTyped ty a (count e) rt) = ty.regsFor (count e) := by
  have := count_nowrap e h
  cases ty <;> simp [readTyped, Spec.items, CliType.regsFor, this, Spec.regsForBytes]

/-! ## K. signed values -/

theorem fin_ok (neg : Bool) (un P : Nat) (z : Int)
    (h : (if (!neg && decide (un ≥ P)) = true then Except.error NumErr.range
          else if (neg && decide (un > P)) = true then Except.error NumErr.range
          else Except.ok (if neg = true then -(un : Int) else (un : Int))) = Except.ok z) :
    (z = (un : Int) ∧ un < P) ∨ (z = -(un : Int) ∧ un ≤ P) := by
  cases neg
  · simp only [Bool.not_false, Bool.true_and, decide_eq_true_eq, Bool.false_and,
      Bool.false_eq_true, if_false] at h
    split at h
    · cases h
    · injection h with h; exact .inl ⟨h.symm, by omega⟩
  · simp only [Bool.not_true, Bool.false_and, Bool.false_eq_true, if_false, Bool.true_and,
      decide_eq_true_eq, if_true] at h
    split at h
    · cases h
    · injection h with h; exact .inr ⟨h.symm, by omega⟩

/-- whatever numeral syntax was used (decimal, hex, octal, binary, underscores, sign): an accepted
    ParseInt result lies in the two's-complement range of the bit size -/
theorem parseIntE_range {bits : Nat} {s : List Char} {z : Int}
    (h : parseIntE bits s = .ok z) :
    -(2 ^ (bits - 1) : Int) ≤ z ∧ z < (2 ^ (bits - 1) : Int) := by
  have hc : ((2 ^ (bits - 1) : Nat) : Int) = (2 : Int) ^ (bits - 1) := by simp
  rw [← hc]
  have key : ∃ un : Nat, (z = (un : Int) ∧ un < 2 ^ (bits - 1)) ∨
      (z = -(un : Int) ∧ un ≤ 2 ^ (bits - 1)) := by
    cases s with
    | nil => simp [parseIntE] at h
    | cons c rest =>
      simp only [parseIntE] at h
      split at h
      · cases h
      · exact ⟨_, fin_ok _ _ _ _ h⟩
      · exact ⟨_, fin_ok _ _ _ _ h⟩
  obtain ⟨un, hk⟩ := key
  have hpos : 0 < 2 ^ (bits - 1) := Nat.pow_pos (by omega)
  generalize 2 ^ (bits - 1) = P at hk hpos ⊢
  omega

theorem toInt_ofInt_range {bits : Nat} (hb : 1 ≤ bits) {z : Int}
    (h : -(2 ^ (bits - 1) : Int) ≤ z ∧ z < (2 ^ (bits - 1) : Int)) :
    (BitVec.ofInt bits z).toInt = z := by
  rw [BitVec.toInt_ofInt]
  obtain ⟨k, rfl⟩ : ∃ k, bits = k + 1 := ⟨bits - 1, by omega⟩
  simp only [Nat.add_sub_cancel] at h
  have : ((2 ^ (k + 1) : Nat) : Int) = 2 * 2 ^ k := by rw [Nat.pow_succ]; push_cast; omega
  apply Int.bmod_eq_of_le <;> omega

/-! ## L. the name tables -/

theorem lookup_none {β : Type} (l : List (String × β)) (s : String) :
    l.lookup s = none ↔ s ∉ l.map Prod.fst := by
  induction l with
  | nil => simp
  | cons p rest ih =>
    by_cases h : s = p.1
    · simp [List.lookup, h]
    · have : (s == p.1) = false := by simp [h]
      simp [List.lookup, this, ih, h]

/-- every name the argument switch knows -/
def commandNames : List String :=
  ["rc", "readCoil", "readCoils", "rdi", "readDiscreteInput", "readDiscreteInputs",
   "rh", "readHoldingRegister", "readHoldingRegisters", "ri", "readInputRegister",
   "readInputRegisters", "wc", "writeCoil", "wr", "writeRegister", "sleep", "suid", "setUnitId",
   "sid", "repeat", "date", "scan", "ping"]

def typeNames : List String :=
  ["uint16", "int16", "uint32", "int32", "float32", "uint64", "int64", "float64", "bytes"]

theorem cmdOf_none_iff (nm : List Char) :
    cmdOf nm = none ↔ String.ofList nm ∉ commandNames := lookup_none _ _

theorem regTyOf_none_iff (t : List Char) :
    regTyOf t = none ↔ String.ofList t ∉ typeNames := lookup_none _ _

theorem wrTyOf_none_iff (t : List Char) :
    wrTyOf t = none ↔ String.ofList t ∉ typeNames ++ ["string"] := by
  unfold wrTyOf
  cases h : regTyOf t with
  | some r =>
    have : ¬ (String.ofList t ∉ typeNames) := fun hn => by
      rw [(regTyOf_none_iff t).mpr hn] at h; cases h
    simp at this
    simp [this]
  | none =>
    have := (regTyOf_none_iff t).mp h
    by_cases hs : String.ofList t = "string" <;> simp [hs, this]

/-! ## M. String-level wrappers -/

theorem render_toList (c : Command) (st : Style) : (render c st).toList = renderL c st :=
  String.toList_ofList

theorem parseArg_render (c : Command) (st : Style) (h : valueOk c) :
    parseArg (render c st) = .ok (expectedOp c) := by
  unfold parseArg; rw [render_toList]; exact parseArgL_render c st h

theorem run_render (cs : List (Command × Style)) (h : ∀ p ∈ cs, p.1.documented) :
    run (cs.map (fun p => render p.1 p.2)) = .ok (cs.map (fun p => expectedOp p.1)) := by
  unfold run
  rw [List.map_map]
  have : (String.toList ∘ fun p : Command × Style => render p.1 p.2) =
      fun p => renderL p.1 p.2 := by
    funext p; exact render_toList p.1 p.2
  rw [this]
  exact runL_render cs h

end Modbus.CliLemmas
