import ModbusVerif.Model.GoEval
/-
  Rewriting lemmas for `Modbus.GoEval`, the tactics `go_eval` / `go_eval_nowrap`, fuel monotonicity.

  How to evaluate a generated term for ALL inputs: state the run with symbolic values in the
  environment (`("quantity", .int ↑q)`, booleans as `Val.ofBool b`, named results `("err", .sym "nil")`),
  then

      go_eval [gs_ModbusClient_readBools, myOracle, myEnv]

  unfolds the run one node at a time (`execFrom_seq` → `seqK`, `execFrom_ite` → `iteK`, …; no
  continuation is ever put under a binder, so the part of the function behind a `stoppedAt` or a
  `return` is never touched) and leaves an `if`-tree over the integer conditions of the source
  with `Res` literals at the leaves. Push your observation through the tree with an
  `apply_ite`-style lemma (`f (if p then x else y) = if p then f x else f y`), then finish with
  `repeat' split` and `first | rfl | (exfalso; omega)`: `omega` understands the `% 65536`-style
  terms that `wrap` produces. For `/` and `%` give `tdiv_of_nonneg _ h` / `tmod_of_nonneg _ h`
  (or `tdiv_natCast_left`) in the list: `omega` does not know `Int.tdiv`.

  Rules that matter:
  * Oracles must be written `fun f _ => if f = "name" then … else …` (a string `match` does not
    reduce under `simp`).
  * A symbolic condition must be decided before a loop is entered, otherwise both branches are
    unrolled up to the fuel: `cases` on booleans, put `h : ¬ e = 2` in the list.
  * All lemmas here are deliberately NOT `@[defeq]` (`by exact id rfl`), and `go_eval` uses them
    instead of the compiler-generated equation lemmas: see the two notes below. Do the same
    for your own helper lemmas used with `go_eval` (`:= by exact id rfl`, not `:= rfl`).
  * When a wrapped SYMBOLIC value becomes a divisor / shift count use `go_eval_nowrap` with
    `wrap_i64 h0 h1`-style hypotheses in the list.
  * Closed runs (all inputs literals): `by decide +kernel`.
-/
set_option linter.unusedSimpArgs false

namespace Modbus.GoEval
open Modbus.Gen

variable (o : Oracle)

/- NOTE: the rewriting lemmas are deliberately NOT `@[defeq]` (`by exact id rfl` instead of `rfl`):
   `simp` must record each step in the proof term. With `rfl`-lemmas the steps are merged into one
   definitional cast and the KERNEL has to rediscover the evaluation order on the whole generated
   term (observed: minutes and `deep recursion` on `gs_ModbusClient_writeRegisters`). -/

/-! ### one node at a time -/

theorem execFrom_zero (s env cs) : execFrom o 0 s env cs = ⟨env, .outOfFuel, cs⟩ := by
  cases s <;> rfl
theorem execFrom_seq (n a b env cs) :
    execFrom o (n+1) (.seq a b) env cs = seqK o n b (execFrom o n a env cs) := by exact id rfl
theorem execFrom_loop (n body env cs) :
    execFrom o (n+1) (.loop body) env cs = loopK o n body (execFrom o n body env cs) := by exact id rfl
theorem execFrom_skip (n env cs) : execFrom o (n+1) .skip env cs = ⟨env, .fell, cs⟩ := by exact id rfl
theorem execFrom_ret (n env cs) : execFrom o (n+1) .ret env cs = ⟨env, .returned, cs⟩ := by exact id rfl
theorem execFrom_brk (n env cs) : execFrom o (n+1) .brk env cs = ⟨env, .broke, cs⟩ := by exact id rfl
theorem execFrom_cont (n env cs) : execFrom o (n+1) .cont env cs = ⟨env, .continued, cs⟩ := by exact id rfl
theorem execFrom_opaque (n t env cs) :
    execFrom o (n+1) (.opaque t) env cs = ⟨env, .stuckAt t, cs⟩ := by exact id rfl
theorem execFrom_assign (n x e env cs) :
    execFrom o (n+1) (.assign x e) env cs =
      if panics env e = true then ⟨env, .stuckAt "panic", cs⟩
      else ⟨Env.write env x (eval env e), .fell, cs⟩ := by exact id rfl
theorem execFrom_bindCall (n ts f as env cs) :
    execFrom o (n+1) (.bindCall ts f as) env cs =
      if as.any (panics env) = true then ⟨env, .stuckAt "panic", cs⟩
      else callK env cs ts f (as.map (eval env)) (o f (as.map (eval env))) := by exact id rfl
theorem execFrom_ite (n c t e env cs) :
    execFrom o (n+1) (.ite c t e) env cs =
      if panics env c = true then ⟨env, .stuckAt "panic", cs⟩
      else iteK (eval env c).truth (execFrom o n t env cs) (execFrom o n e env cs)
        ⟨env, .stuckAt "cond", cs⟩ := by exact id rfl

theorem seqK_fell (n b env cs) : seqK o n b ⟨env, .fell, cs⟩ = execFrom o n b env cs := by exact id rfl
theorem seqK_returned (n b env cs) : seqK o n b ⟨env, .returned, cs⟩ = ⟨env, .returned, cs⟩ := by exact id rfl
theorem seqK_broke (n b env cs) : seqK o n b ⟨env, .broke, cs⟩ = ⟨env, .broke, cs⟩ := by exact id rfl
theorem seqK_continued (n b env cs) :
    seqK o n b ⟨env, .continued, cs⟩ = ⟨env, .continued, cs⟩ := by exact id rfl
theorem seqK_stuck (n b env cs t) :
    seqK o n b ⟨env, .stuckAt t, cs⟩ = ⟨env, .stuckAt t, cs⟩ := by exact id rfl
theorem seqK_stopped (n b env cs f vs) :
    seqK o n b ⟨env, .stoppedAt f vs, cs⟩ = ⟨env, .stoppedAt f vs, cs⟩ := by exact id rfl
theorem seqK_oof (n b env cs) : seqK o n b ⟨env, .outOfFuel, cs⟩ = ⟨env, .outOfFuel, cs⟩ := by exact id rfl
theorem seqK_ite (n b) (p : Prop) [Decidable p] (x y : Res) :
    seqK o n b (if p then x else y) = if p then seqK o n b x else seqK o n b y := by
  split <;> exact id rfl
theorem seqK_of_not_fell (n b) (r : Res) (h : r.how ≠ .fell) : seqK o n b r = r := by
  unfold seqK; split
  · contradiction
  · rfl

theorem loopK_fell (n b env cs) :
    loopK o n b ⟨env, .fell, cs⟩ = execFrom o n (.loop b) env cs := by exact id rfl
theorem loopK_continued (n b env cs) :
    loopK o n b ⟨env, .continued, cs⟩ = execFrom o n (.loop b) env cs := by exact id rfl
theorem loopK_broke (n b env cs) : loopK o n b ⟨env, .broke, cs⟩ = ⟨env, .fell, cs⟩ := by exact id rfl
theorem loopK_returned (n b env cs) :
    loopK o n b ⟨env, .returned, cs⟩ = ⟨env, .returned, cs⟩ := by exact id rfl
theorem loopK_stuck (n b env cs t) :
    loopK o n b ⟨env, .stuckAt t, cs⟩ = ⟨env, .stuckAt t, cs⟩ := by exact id rfl
theorem loopK_stopped (n b env cs f vs) :
    loopK o n b ⟨env, .stoppedAt f vs, cs⟩ = ⟨env, .stoppedAt f vs, cs⟩ := by exact id rfl
theorem loopK_oof (n b env cs) : loopK o n b ⟨env, .outOfFuel, cs⟩ = ⟨env, .outOfFuel, cs⟩ := by exact id rfl
theorem loopK_ite (n b) (p : Prop) [Decidable p] (x y : Res) :
    loopK o n b (if p then x else y) = if p then loopK o n b x else loopK o n b y := by
  split <;> exact id rfl

theorem iteK_true (t e s : Res) : iteK (some true) t e s = t := by exact id rfl
theorem iteK_false (t e s : Res) : iteK (some false) t e s = e := by exact id rfl
theorem iteK_none (t e s : Res) : iteK none t e s = s := by exact id rfl
theorem iteK_decide (p : Prop) [Decidable p] (t e s : Res) :
    iteK (some (decide p)) t e s = if p then t else e := by
  by_cases h : p <;> simp [h, iteK]
theorem iteK_bool (b : Bool) (t e s : Res) :
    iteK (some b) t e s = if b = true then t else e := by
  cases b <;> exact id rfl

theorem callK_none (env cs ts f vs) :
    callK env cs ts f vs none = ⟨env, .stoppedAt f vs, cs⟩ := by exact id rfl
theorem callK_some (env cs ts f vs rs) :
    callK env cs ts f vs (some rs) = ⟨bindAll env ts rs, .fell, cs ++ [(f, vs)]⟩ := by exact id rfl
theorem callK_ite (env cs ts f vs) (p : Prop) [Decidable p] (x y : Option (List Val)) :
    callK env cs ts f vs (if p then x else y)
      = if p then callK env cs ts f vs x else callK env cs ts f vs y := by
  split <;> exact id rfl

theorem bindAll_nil (env rs) : bindAll env [] rs = env := by exact id rfl
theorem bindAll_cons (env t ts rs) :
    bindAll env (t :: ts) rs = bindAll (Env.write env t (rs.headD .unk)) ts rs.tail := by exact id rfl

/-! ### values -/

theorem isSome_some (b x : Bool) : isSome b (some x) = (x == b) := by exact id rfl
theorem isSome_none (b : Bool) : isSome b none = false := by exact id rfl

theorem truth_ofBool (b : Bool) : (Val.ofBool b).truth = some b := by cases b <;> exact id rfl
theorem truth_int (v : Int) : (Val.int v).truth = some (decide (v ≠ 0)) := by exact id rfl
theorem truth_sym (s) : (Val.sym s).truth = none := by exact id rfl
theorem truth_unk : Val.unk.truth = none := by exact id rfl
theorem ofBool_true : Val.ofBool true = .int 1 := by exact id rfl
theorem ofBool_false : Val.ofBool false = .int 0 := by exact id rfl
theorem ofBool_inj (a b : Bool) : (Val.ofBool a = Val.ofBool b) = (a = b) := by
  cases a <;> cases b <;> simp [Val.ofBool]

theorem notVal_ofBool (b : Bool) : notVal (.ofBool b) = .ofBool (!b) := by
  simp [notVal, truth_ofBool]
theorem andVal_ofBool (a b : Bool) : andVal (.ofBool a) (.ofBool b) = .ofBool (a && b) := by
  cases a <;> cases b <;> exact id rfl
theorem orVal_ofBool (a b : Bool) : orVal (.ofBool a) (.ofBool b) = .ofBool (a || b) := by
  cases a <;> cases b <;> exact id rfl
/-- short circuit: the right operand is not needed -/
theorem andVal_false (b : Val) : andVal (.ofBool false) b = .ofBool false := by exact id rfl
theorem orVal_true (b : Val) : orVal (.ofBool true) b = .ofBool true := by exact id rfl
theorem andVal_int_zero (b : Val) : andVal (.int 0) b = .ofBool false := by exact id rfl
theorem orVal_int_one (b : Val) : orVal (.int 1) b = .ofBool true := by exact id rfl
theorem andVal_true (b : Bool) : andVal (.ofBool true) (.ofBool b) = .ofBool b := by
  cases b <;> exact id rfl
theorem orVal_false (b : Bool) : orVal (.ofBool false) (.ofBool b) = .ofBool b := by
  cases b <;> exact id rfl

/-- comparing a 0/1 value with the literal `true` / `false` -/
theorem cmpop_eq_ofBool_one (b : Bool) : cmpop "==" (.ofBool b) (.int 1) = .ofBool b := by
  cases b <;> exact id rfl
theorem cmpop_eq_ofBool_zero (b : Bool) : cmpop "==" (.ofBool b) (.int 0) = .ofBool (!b) := by
  cases b <;> exact id rfl

theorem read?_nil (x) : Env.read? [] x = none := by exact id rfl
theorem read?_cons (k v r x) :
    Env.read? ((k, v) :: r) x = if k = x then some v else Env.read? r x := by exact id rfl
theorem read?_write (env k v x) :
    Env.read? (Env.write env k v) x = if k = x then some v else Env.read? env x := by exact id rfl
theorem read_write_same (env k v) : Env.read (Env.write env k v) k = v := by
  simp [Env.read, read?_write]
theorem read_write_ne (env k v x) (h : k ≠ x) : Env.read (Env.write env k v) x = Env.read env x := by
  simp [Env.read, read?_write, h]

theorem isConstSym_nil : isConstSym "nil" = true := by decide
theorem isConstSym_ErrUnexpectedParameters : isConstSym "ErrUnexpectedParameters" = true := by
  decide
theorem isConstSym_ErrProtocolError : isConstSym "ErrProtocolError" = true := by decide
theorem isConstSym_ErrRequestTimedOut : isConstSym "ErrRequestTimedOut" = true := by decide
theorem isConstSym_ErrBadCRC : isConstSym "ErrBadCRC" = true := by decide
theorem isConstSym_ErrShortFrame : isConstSym "ErrShortFrame" = true := by decide
theorem isConstSym_ErrBadUnitId : isConstSym "ErrBadUnitId" = true := by decide
theorem isConstSym_ErrBadTransactionId : isConstSym "ErrBadTransactionId" = true := by decide
theorem isConstSym_ErrUnknownProtocolId : isConstSym "ErrUnknownProtocolId" = true := by decide
theorem isConstSym_ErrConfigurationError : isConstSym "ErrConfigurationError" = true := by decide

/-- the constant symbols denote pairwise distinct Go values: the error constants are
    `Error` (string) constants with pairwise distinct texts, and none of them is `nil` -/
theorem strConsts_distinct :
    (strConsts.map (·.1)).Nodup ∧ (strConsts.map (·.2)).Nodup ∧
    strConsts.all (fun p => p.1 != "nil") = true := by decide

/-! ### explicit (non-`@[defeq]`) forms of the defining equations

  `simp only [eval]` would use the compiler-generated equation lemmas as `rfl`-steps: no proof term is
  recorded and the kernel re-checks the step by normalising both sides. For a term such as
  `binVal "/" t (.int a) (.int (wrap .i64 ↑r))` that normalisation evaluates the `Decidable` instance of
  `wrap .i64 ↑r = 0` on a symbolic `r` and does not come back (observed: `deep recursion` after minutes).
  The lemmas below carry their proof (`id rfl`), are checked once, generically, and are merely
  instantiated by `simp`. -/

theorem binop_add (a b : Int) : binop "+" a b = some (a + b) := by exact id rfl
theorem binop_sub (a b : Int) : binop "-" a b = some (a - b) := by exact id rfl
theorem binop_mul (a b : Int) : binop "*" a b = some (a * b) := by exact id rfl
theorem binop_div (a b : Int) : binop "/" a b = if b = 0 then none else some (a.tdiv b) := by exact id rfl
theorem binop_rem (a b : Int) : binop "%" a b = if b = 0 then none else some (a.tmod b) := by exact id rfl
theorem binop_and (a b : Int) : binop "&" a b = some (Int.ofNat (Nat.land (bits64 a) (bits64 b))) := by exact id rfl
theorem binop_or (a b : Int) : binop "|" a b = some (Int.ofNat (Nat.lor (bits64 a) (bits64 b))) := by exact id rfl
theorem binop_xor (a b : Int) : binop "^" a b = some (Int.ofNat (Nat.xor (bits64 a) (bits64 b))) := by exact id rfl
theorem binop_andNot (a b : Int) : binop "&^" a b = some (Int.ofNat (Nat.land (bits64 a) (18446744073709551615 - bits64 b))) := by exact id rfl
theorem binop_shl (a b : Int) : binop "<<" a b = if b < 0 then none else some (a * 2 ^ b.toNat) := by exact id rfl
theorem binop_shr (a b : Int) : binop ">>" a b = if b < 0 then none else some (a >>> b.toNat) := by exact id rfl
theorem cmpop_int_eq (a b : Int) : cmpop "==" (.int a) (.int b) = .ofBool (decide (a = b)) := by exact id rfl
theorem cmpop_int_ne (a b : Int) : cmpop "!=" (.int a) (.int b) = .ofBool (decide (a ≠ b)) := by exact id rfl
theorem cmpop_int_lt (a b : Int) : cmpop "<" (.int a) (.int b) = .ofBool (decide (a < b)) := by exact id rfl
theorem cmpop_int_le (a b : Int) : cmpop "<=" (.int a) (.int b) = .ofBool (decide (a ≤ b)) := by exact id rfl
theorem cmpop_int_gt (a b : Int) : cmpop ">" (.int a) (.int b) = .ofBool (decide (a > b)) := by exact id rfl
theorem cmpop_int_ge (a b : Int) : cmpop ">=" (.int a) (.int b) = .ofBool (decide (a ≥ b)) := by exact id rfl
theorem cmpop_sym_eq (a b : String) : cmpop "==" (.sym a) (.sym b) = .ofBool (decide (a = b)) := by exact id rfl
theorem cmpop_sym_ne (a b : String) : cmpop "!=" (.sym a) (.sym b) = .ofBool (decide (a ≠ b)) := by exact id rfl
theorem cmpop_int_sym (op a s) : cmpop op (.int a) (.sym s) = .unk := by exact id rfl
theorem cmpop_sym_int (op a s) : cmpop op (.sym s) (.int a) = .unk := by exact id rfl
theorem cmpop_unk_left (op v) : cmpop op .unk v = .unk := by cases v <;> exact id rfl
theorem cmpop_unk_right (op v) : cmpop op v .unk = .unk := by cases v <;> exact id rfl
theorem binVal_int (op t x y) : binVal op t (.int x) (.int y) =
    match binop op x y with | some z => .int (wrap t z) | none => .unk := by exact id rfl
theorem binVal_some (t : GTy) (z : Int) :
    (match (some z : Option Int) with | some z => Val.int (wrap t z) | none => Val.unk) = .int (wrap t z) := by
  exact id rfl
theorem binVal_none (t : GTy) :
    (match (none : Option Int) with | some z => Val.int (wrap t z) | none => Val.unk) = .unk := by
  exact id rfl
theorem binVal_sym_left (op t s v) : binVal op t (.sym s) v = .unk := by exact id rfl
theorem binVal_unk_left (op t v) : binVal op t .unk v = .unk := by exact id rfl
theorem binVal_sym_right (op t s x) : binVal op t (.int x) (.sym s) = .unk := by exact id rfl
theorem binVal_unk_right (op t x) : binVal op t (.int x) .unk = .unk := by exact id rfl
theorem convVal_int (t x) : convVal t (.int x) = .int (wrap t x) := by exact id rfl
theorem convVal_sym (t s) : convVal t (.sym s) = .unk := by exact id rfl
theorem convVal_unk (t) : convVal t .unk = .unk := by exact id rfl
theorem notVal_int (v : Int) : notVal (.int v) = .ofBool (!decide (v ≠ 0)) := by exact id rfl
theorem unboundVar_def (x t) :
    unboundVar x t = if t = .other ∧ isConstSym x = true then .sym x else .unk := by exact id rfl
theorem read_def (env x) : Env.read env x = (Env.read? env x).getD .unk := by exact id rfl
theorem write_def (env x v) : Env.write env x v = (x, v) :: env := by exact id rfl
theorem exec_def (n s env) : exec o n s env = execFrom o n s env [] := by exact id rfl

theorem eval_lit (env v t) : eval env (.lit v t) = .int v := by exact id rfl
theorem eval_var (env x t) : eval env (.var x t) =
    match Env.read? env x with | some v => v | none => unboundVar x t := by exact id rfl
theorem eval_var_some (x : String) (t : GTy) (v : Val) :
    (match (some v : Option Val) with | some v => v | none => unboundVar x t) = v := by exact id rfl
theorem eval_var_none (x : String) (t : GTy) :
    (match (none : Option Val) with | some v => v | none => unboundVar x t) = unboundVar x t := by
  exact id rfl
theorem eval_call (env x t) : eval env (.call x t) = Env.read env x := by exact id rfl
theorem eval_conv (env t e) : eval env (.conv t e) = convVal t (eval env e) := by exact id rfl
theorem eval_bin (env op t a b) :
    eval env (.bin op t a b) = binVal op t (eval env a) (eval env b) := by exact id rfl
theorem eval_cmp (env op a b) : eval env (.cmp op a b) = cmpop op (eval env a) (eval env b) := by
  exact id rfl
theorem eval_not (env e) : eval env (.not e) = notVal (eval env e) := by exact id rfl
theorem eval_and (env a b) : eval env (.and a b) = andVal (eval env a) (eval env b) := by exact id rfl
theorem eval_or (env a b) : eval env (.or a b) = orVal (eval env a) (eval env b) := by exact id rfl

/-- `(binop op x y).isNone` for two evaluated operands -/
def binPanics (op : String) : Val → Val → Bool
  | .int x, .int y => (binop op x y).isNone
  | _, _ => false
theorem binPanics_int (op x y) : binPanics op (.int x) (.int y) = (binop op x y).isNone := by exact id rfl
theorem binPanics_sym_left (op s v) : binPanics op (.sym s) v = false := by exact id rfl
theorem binPanics_unk_left (op v) : binPanics op .unk v = false := by exact id rfl
theorem binPanics_sym_right (op x s) : binPanics op (.int x) (.sym s) = false := by exact id rfl
theorem binPanics_unk_right (op x) : binPanics op (.int x) .unk = false := by exact id rfl
theorem panics_lit (env v t) : panics env (.lit v t) = false := by exact id rfl
theorem panics_var (env x t) : panics env (.var x t) = false := by exact id rfl
theorem panics_call (env x t) : panics env (.call x t) = false := by exact id rfl
theorem panics_conv (env t e) : panics env (.conv t e) = panics env e := by exact id rfl
theorem panics_not (env e) : panics env (.not e) = panics env e := by exact id rfl
theorem panics_bin (env op t a b) : panics env (.bin op t a b) =
    (panics env a || panics env b || binPanics op (eval env a) (eval env b)) := by
  show (panics env a || panics env b || _) = _
  unfold binPanics
  exact id rfl
theorem panics_cmp (env op a b) : panics env (.cmp op a b) = (panics env a || panics env b) := by
  exact id rfl
theorem panics_and (env a b) : panics env (.and a b) =
    (panics env a || (isSome true (eval env a).truth && panics env b)) := by exact id rfl
theorem panics_or (env a b) : panics env (.or a b) =
    (panics env a || (isSome false (eval env a).truth && panics env b)) := by exact id rfl

theorem wrap_u8_def (v : Int) : wrap .u8 v = v % 256 := by exact id rfl
theorem wrap_u16_def (v : Int) : wrap .u16 v = v % 65536 := by exact id rfl
theorem wrap_u32_def (v : Int) : wrap .u32 v = v % 4294967296 := by exact id rfl
theorem wrap_u64_def (v : Int) : wrap .u64 v = v % 18446744073709551616 := by exact id rfl
theorem wrap_uint_def (v : Int) : wrap .uint v = v % 18446744073709551616 := by exact id rfl
theorem wrap_i8_def (v : Int) : wrap .i8 v = (v + 128) % 256 - 128 := by exact id rfl
theorem wrap_i16_def (v : Int) : wrap .i16 v = (v + 32768) % 65536 - 32768 := by exact id rfl
theorem wrap_i32_def (v : Int) : wrap .i32 v = (v + 2147483648) % 4294967296 - 2147483648 := by exact id rfl
theorem wrap_i64_def (v : Int) : wrap .i64 v = (v + 9223372036854775808) % 18446744073709551616 - 9223372036854775808 := by exact id rfl
theorem wrap_int_def (v : Int) : wrap .int v = (v + 9223372036854775808) % 18446744073709551616 - 9223372036854775808 := by exact id rfl
theorem wrap_bool_def (v : Int) : wrap .bool v = if v = 0 then 0 else 1 := by exact id rfl
theorem wrap_other_def (v : Int) : wrap .other v = v := by exact id rfl

/-! ### integers -/

theorem tdiv_of_nonneg {a : Int} (b : Int) (h : 0 ≤ a) : a.tdiv b = a / b :=
  Int.tdiv_eq_ediv_of_nonneg h
theorem tmod_of_nonneg {a : Int} (b : Int) (h : 0 ≤ a) : a.tmod b = a % b :=
  Int.tmod_eq_emod_of_nonneg h
theorem tdiv_natCast_left (a : Nat) (b : Int) : (a : Int).tdiv b = (a : Int) / b :=
  Int.tdiv_eq_ediv_of_nonneg (Int.natCast_nonneg a)
theorem tmod_natCast_left (a : Nat) (b : Int) : (a : Int).tmod b = (a : Int) % b :=
  Int.tmod_eq_emod_of_nonneg (Int.natCast_nonneg a)
theorem tdiv_natCast (a b : Nat) : (a : Int).tdiv (b : Int) = ((a / b : Nat) : Int) := by
  rw [Int.tdiv_eq_ediv_of_nonneg (Int.natCast_nonneg a)]; rfl
theorem tmod_natCast (a b : Nat) : (a : Int).tmod (b : Int) = ((a % b : Nat) : Int) := by
  rw [Int.tmod_eq_emod_of_nonneg (Int.natCast_nonneg a)]; rfl

/-- `wrap` is the identity on values in range -/
theorem wrap_u8 {v : Int} (h0 : 0 ≤ v) (h1 : v < 256) : wrap .u8 v = v := by
  simp only [wrap_u8_def, wrap_u16_def, wrap_u32_def, wrap_u64_def, wrap_uint_def, wrap_i64_def, wrap_int_def]; omega
theorem wrap_u16 {v : Int} (h0 : 0 ≤ v) (h1 : v < 65536) : wrap .u16 v = v := by
  simp only [wrap_u8_def, wrap_u16_def, wrap_u32_def, wrap_u64_def, wrap_uint_def, wrap_i64_def, wrap_int_def]; omega
theorem wrap_u32 {v : Int} (h0 : 0 ≤ v) (h1 : v < 4294967296) : wrap .u32 v = v := by
  simp only [wrap_u8_def, wrap_u16_def, wrap_u32_def, wrap_u64_def, wrap_uint_def, wrap_i64_def, wrap_int_def]; omega
theorem wrap_u64 {v : Int} (h0 : 0 ≤ v) (h1 : v < 18446744073709551616) : wrap .u64 v = v := by
  simp only [wrap_u8_def, wrap_u16_def, wrap_u32_def, wrap_u64_def, wrap_uint_def, wrap_i64_def, wrap_int_def]; omega
theorem wrap_uint {v : Int} (h0 : 0 ≤ v) (h1 : v < 18446744073709551616) : wrap .uint v = v := by
  simp only [wrap_u8_def, wrap_u16_def, wrap_u32_def, wrap_u64_def, wrap_uint_def, wrap_i64_def, wrap_int_def]; omega
theorem wrap_i64 {v : Int} (h0 : -9223372036854775808 ≤ v) (h1 : v < 9223372036854775808) :
    wrap .i64 v = v := by
  simp only [wrap_u8_def, wrap_u16_def, wrap_u32_def, wrap_u64_def, wrap_uint_def, wrap_i64_def, wrap_int_def]; omega
theorem wrap_int {v : Int} (h0 : -9223372036854775808 ≤ v) (h1 : v < 9223372036854775808) :
    wrap .int v = v := by
  simp only [wrap_u8_def, wrap_u16_def, wrap_u32_def, wrap_u64_def, wrap_uint_def, wrap_i64_def, wrap_int_def]; omega

/-! ### fuel: a run that does not run out of fuel is the same with more fuel -/

theorem execFrom_succ : ∀ (n : Nat) (s : GStmt) (env : Env) (cs : Calls),
    (execFrom o n s env cs).how ≠ .outOfFuel →
    execFrom o (n+1) s env cs = execFrom o n s env cs := by
  intro n
  induction n with
  | zero => intro s env cs h; exact absurd (by rw [execFrom_zero]) h
  | succ n ih =>
    intro s env cs h
    cases s with
    | seq a b =>
      rw [execFrom_seq] at h ⊢
      rw [execFrom_seq o n]
      have h1 : (execFrom o n a env cs).how ≠ .outOfFuel := by
        intro h1
        apply h
        rw [seqK_of_not_fell _ _ _ _ (by rw [h1]; exact fun x => nomatch x)]
        exact h1
      rw [ih a env cs h1]
      generalize execFrom o n a env cs = r at h h1 ⊢
      obtain ⟨e, hw, c⟩ := r
      cases hw with
      | fell => exact ih b e c h
      | _ => rfl
    | ite c t e =>
      rw [execFrom_ite] at h ⊢
      rw [execFrom_ite o n]
      by_cases hp : panics env c = true
      · simp only [if_pos hp]
      · simp only [if_neg hp] at h ⊢
        cases hc : (eval env c).truth with
        | none => rfl
        | some bb =>
          rw [hc] at h
          cases bb with
          | true => exact ih t env cs h
          | false => exact ih e env cs h
    | loop body =>
      rw [execFrom_loop] at h ⊢
      rw [execFrom_loop o n]
      have h1 : (execFrom o n body env cs).how ≠ .outOfFuel := by
        intro h1
        apply h
        generalize execFrom o n body env cs = r at h1
        obtain ⟨e, hw, c⟩ := r
        cases h1
        rfl
      rw [ih body env cs h1]
      generalize execFrom o n body env cs = r at h h1 ⊢
      obtain ⟨e, hw, c⟩ := r
      cases hw with
      | fell => exact ih (.loop body) e c h
      | continued => exact ih (.loop body) e c h
      | _ => rfl
    | _ => rfl

theorem execFrom_mono (n m : Nat) (s : GStmt) (env : Env) (cs : Calls) (hm : n ≤ m)
    (h : (execFrom o n s env cs).how ≠ .outOfFuel) :
    execFrom o m s env cs = execFrom o n s env cs := by
  induction m with
  | zero => have : n = 0 := by omega
            rw [this]
  | succ m ih =>
    by_cases hn : n = m + 1
    · rw [hn]
    · have e := ih (by omega)
      rw [execFrom_succ o m s env cs (by rw [e]; exact h), e]

theorem exec_mono (n m : Nat) (s : GStmt) (env : Env) (hm : n ≤ m)
    (h : (exec o n s env).how ≠ .outOfFuel) : exec o m s env = exec o n s env :=
  execFrom_mono o n m s env [] hm h

end Modbus.GoEval

/-- `go_eval [extra lemmas / definitions to unfold]`: evaluate `exec` / `execFrom` / `eval` on a
    concrete statement with a (partly) symbolic environment. Give the `gs_…` term and the oracle
    in the list. -/
syntax "go_eval" (" [" Lean.Parser.Tactic.simpLemma,* "]")? : tactic
/-- `go_eval_nowrap […]`: the same, but `wrap t v` is left folded. Use it, with hypotheses of the
    form `wrap .i64 ↑r = ↑r` in the list, when a wrapped SYMBOLIC value becomes a divisor or a shift
    count: otherwise `binop`'s `if b = 0` is stated about `(↑r + 2^63) % 2^64 - 2^63`, and the
    kernel, comparing `Decidable` instances, may try to normalise `↑r + 9223372036854775808` by
    unary recursion on the literal (observed: `deep recursion` after minutes). -/
syntax "go_eval_nowrap" (" [" Lean.Parser.Tactic.simpLemma,* "]")? : tactic
macro_rules
  | `(tactic| go_eval) => `(tactic| go_eval [])
  | `(tactic| go_eval [$ls,*]) => `(tactic| go_eval_nowrap [Modbus.GoEval.wrap_u8_def,
      Modbus.GoEval.wrap_u16_def, Modbus.GoEval.wrap_u32_def, Modbus.GoEval.wrap_u64_def,
      Modbus.GoEval.wrap_uint_def, Modbus.GoEval.wrap_i8_def, Modbus.GoEval.wrap_i16_def,
      Modbus.GoEval.wrap_i32_def, Modbus.GoEval.wrap_i64_def, Modbus.GoEval.wrap_int_def,
      Modbus.GoEval.wrap_bool_def, Modbus.GoEval.wrap_other_def, $ls,*])
macro_rules
  | `(tactic| go_eval_nowrap) => `(tactic| go_eval_nowrap [])
  | `(tactic| go_eval_nowrap [$ls,*]) => `(tactic|
    simp only [Modbus.GoEval.exec_def, Modbus.GoEval.execFrom_seq, Modbus.GoEval.execFrom_loop,
      Modbus.GoEval.execFrom_skip, Modbus.GoEval.execFrom_ret, Modbus.GoEval.execFrom_brk,
      Modbus.GoEval.execFrom_cont, Modbus.GoEval.execFrom_opaque, Modbus.GoEval.execFrom_assign,
      Modbus.GoEval.execFrom_bindCall, Modbus.GoEval.execFrom_ite, Modbus.GoEval.execFrom_zero,
      Modbus.GoEval.seqK_fell, Modbus.GoEval.seqK_returned, Modbus.GoEval.seqK_broke,
      Modbus.GoEval.seqK_continued, Modbus.GoEval.seqK_stuck, Modbus.GoEval.seqK_stopped,
      Modbus.GoEval.seqK_oof, Modbus.GoEval.seqK_ite,
      Modbus.GoEval.loopK_fell, Modbus.GoEval.loopK_continued, Modbus.GoEval.loopK_broke,
      Modbus.GoEval.loopK_returned, Modbus.GoEval.loopK_stuck, Modbus.GoEval.loopK_stopped,
      Modbus.GoEval.loopK_oof, Modbus.GoEval.loopK_ite,
      Modbus.GoEval.iteK_true, Modbus.GoEval.iteK_false, Modbus.GoEval.iteK_none,
      Modbus.GoEval.iteK_decide, Modbus.GoEval.iteK_bool,
      Modbus.GoEval.callK_none, Modbus.GoEval.callK_some, Modbus.GoEval.callK_ite,
      Modbus.GoEval.bindAll_nil, Modbus.GoEval.bindAll_cons,
      Modbus.GoEval.eval_lit, Modbus.GoEval.eval_var, Modbus.GoEval.eval_var_some,
      Modbus.GoEval.eval_var_none, Modbus.GoEval.eval_call, Modbus.GoEval.eval_conv,
      Modbus.GoEval.eval_bin, Modbus.GoEval.eval_cmp, Modbus.GoEval.eval_not, Modbus.GoEval.eval_and,
      Modbus.GoEval.eval_or,
      Modbus.GoEval.cmpop_int_eq, Modbus.GoEval.cmpop_int_ne, Modbus.GoEval.cmpop_int_lt,
      Modbus.GoEval.cmpop_int_le, Modbus.GoEval.cmpop_int_gt, Modbus.GoEval.cmpop_int_ge,
      Modbus.GoEval.cmpop_sym_eq, Modbus.GoEval.cmpop_sym_ne, Modbus.GoEval.cmpop_int_sym,
      Modbus.GoEval.cmpop_sym_int, Modbus.GoEval.cmpop_unk_left, Modbus.GoEval.cmpop_unk_right,
      Modbus.GoEval.binVal_int, Modbus.GoEval.binVal_some, Modbus.GoEval.binVal_none,
      Modbus.GoEval.binVal_sym_left, Modbus.GoEval.binVal_unk_left, Modbus.GoEval.binVal_sym_right,
      Modbus.GoEval.binVal_unk_right,
      Modbus.GoEval.binop_add, Modbus.GoEval.binop_sub, Modbus.GoEval.binop_mul,
      Modbus.GoEval.binop_div, Modbus.GoEval.binop_rem, Modbus.GoEval.binop_and,
      Modbus.GoEval.binop_or, Modbus.GoEval.binop_xor, Modbus.GoEval.binop_andNot,
      Modbus.GoEval.binop_shl, Modbus.GoEval.binop_shr,
      Modbus.GoEval.convVal_int, Modbus.GoEval.convVal_sym, Modbus.GoEval.convVal_unk,
      Modbus.GoEval.notVal_int, Modbus.GoEval.unboundVar_def,
      Modbus.GoEval.panics_lit, Modbus.GoEval.panics_var, Modbus.GoEval.panics_call,
      Modbus.GoEval.panics_conv, Modbus.GoEval.panics_not, Modbus.GoEval.panics_bin,
      Modbus.GoEval.panics_cmp, Modbus.GoEval.panics_and, Modbus.GoEval.panics_or,
      Modbus.GoEval.binPanics_int, Modbus.GoEval.binPanics_sym_left,
      Modbus.GoEval.binPanics_unk_left, Modbus.GoEval.binPanics_sym_right,
      Modbus.GoEval.binPanics_unk_right,
      Modbus.GoEval.isSome_some, Modbus.GoEval.isSome_none,
      Option.isNone_some, Option.isNone_none, List.any_cons, List.any_nil, Bool.or_self,
      Bool.and_self, Bool.false_eq_true,
      Modbus.GoEval.truth_ofBool, Modbus.GoEval.truth_int, Modbus.GoEval.truth_sym,
      Modbus.GoEval.truth_unk,
      Modbus.GoEval.notVal_ofBool, Modbus.GoEval.andVal_ofBool, Modbus.GoEval.orVal_ofBool,
      Modbus.GoEval.andVal_false, Modbus.GoEval.orVal_true, Modbus.GoEval.andVal_int_zero,
      Modbus.GoEval.orVal_int_one,
      Modbus.GoEval.cmpop_eq_ofBool_one, Modbus.GoEval.cmpop_eq_ofBool_zero,
      Modbus.GoEval.read?_nil, Modbus.GoEval.read?_cons, Modbus.GoEval.read?_write,
      Modbus.GoEval.read_def,
      Modbus.GoEval.isConstSym_nil, Modbus.GoEval.isConstSym_ErrUnexpectedParameters,
      Modbus.GoEval.isConstSym_ErrProtocolError, Modbus.GoEval.isConstSym_ErrRequestTimedOut,
      Modbus.GoEval.isConstSym_ErrBadCRC, Modbus.GoEval.isConstSym_ErrShortFrame,
      Modbus.GoEval.isConstSym_ErrBadUnitId, Modbus.GoEval.isConstSym_ErrBadTransactionId,
      Modbus.GoEval.isConstSym_ErrUnknownProtocolId, Modbus.GoEval.isConstSym_ErrConfigurationError,
      List.map, List.headD_cons, List.headD_nil, List.tail_cons, List.tail_nil, List.nil_append,
      List.cons_append, Option.getD_some, Option.getD_none,
      String.reduceEq, ↓reduceIte, reduceCtorEq, and_true, true_and, and_self, decide_eq_true_eq,
      Bool.not_true, Bool.not_false, Bool.true_and, Bool.and_true, Bool.false_and, Bool.and_false,
      Bool.true_or, Bool.or_true, Bool.false_or, Bool.or_false,
      $ls,*])
