import ModbusVerif.Spec.Request
import ModbusVerif.Props.C17
import ModbusVerif.Props.C06
/-
  Lemmas for C01: the request side of every public client call against `Spec.request`.
-/
namespace Modbus.ClientReq
open Modbus Modbus.Client Modbus.Enc

/-! ### 16-bit narrowing -/

theorem toNat_u16OfNat (n : Nat) : (u16OfNat n).toNat = n % 65536 := by
  simp [u16OfNat]

theorem u16_eq_zero_iff (q : U16) : q = 0 ↔ q.toNat = 0 := by
  constructor
  · intro h; rw [h]; rfl
  · intro h; apply BitVec.eq_of_toNat_eq; simpa using h

theorem u16OfNat_toNat (q : U16) : u16OfNat q.toNat = q := by
  apply BitVec.eq_of_toNat_eq
  rw [toNat_u16OfNat]
  have := q.isLt
  omega

/-! ### the six core helpers, conditions in `Nat` -/

theorem readBools_request (di : Bool) (a q : U16) :
    Core.request (.readBools di a q) =
      if q.toNat = 0 ∨ q.toNat > 2000 ∨ a.toNat + q.toNat - 1 > 0xFFFF then perr
      else .ok (if di then 0x02 else 0x01, be16 a ++ be16 q) := by
  simp only [Core.request, u16_eq_zero_iff]
  by_cases h1 : q.toNat = 0
  · simp [h1]
  · by_cases h2 : q.toNat > 2000
    · simp [h1, h2]
    · by_cases h3 : a.toNat + q.toNat - 1 > 0xFFFF
      · simp [h1, h2, h3]
      · simp [h1, h2, h3]

theorem readRegs_request (a : U16) (n rt : Nat) :
    Core.request (.readRegs a n rt) =
      if n = 0 ∨ n > 125 ∨ a.toNat + n - 1 > 0xFFFF ∨ ¬ (rt = 0 ∨ rt = 1) then perr
      else .ok (if rt = 1 then 0x04 else 0x03, be16 a ++ be16 (u16OfNat n)) := by
  simp only [Core.request]
  by_cases h0 : rt = 0
  · subst h0
    by_cases h1 : n = 0
    · simp [h1]
    · by_cases h2 : n > 125
      · simp [h1, h2]
      · by_cases h3 : a.toNat + n - 1 > 0xFFFF
        · simp [h1, h2, h3]
        · simp [h1, h2, h3]
  · by_cases h0' : rt = 1
    · subst h0'
      by_cases h1 : n = 0
      · simp [h1]
      · by_cases h2 : n > 125
        · simp [h1, h2]
        · by_cases h3 : a.toNat + n - 1 > 0xFFFF
          · simp [h1, h2, h3]
          · simp [h1, h2, h3]
    · simp [h0, h0']

theorem writeCoils_request (a : U16) (vs : List Bool) :
    Core.request (.writeCoils a vs) =
      if vs.length = 0 ∨ vs.length > 1968 ∨ a.toNat + vs.length - 1 > 0xFFFF then perr
      else .ok (0x0f, be16 a ++ be16 (u16OfNat vs.length)
                  ++ [byteOfNat (Spec.packBools vs).length] ++ Spec.packBools vs) := by
  simp only [Core.request, u16_eq_zero_iff, toNat_u16OfNat, Props.C17.bools_layout]
  by_cases h2 : vs.length > 1968
  · by_cases h1 : vs.length % 65536 = 0
    · simp [h1, h2]
    · simp [h1, h2]
  · have hm : vs.length % 65536 = vs.length := by omega
    rw [hm]
    by_cases h1 : vs.length = 0
    · simp [h1]
    · by_cases h3 : a.toNat + vs.length - 1 > 0xFFFF
      · simp [h1, h2, h3]
      · simp [h1, h2, h3]

theorem writeRegs_request (a : U16) (payload : Bytes) (n : Nat) (hl : payload.length = 2 * n) :
    Core.request (.writeRegs a payload) =
      if n = 0 ∨ n > 123 ∨ a.toNat + n - 1 > 0xFFFF then perr
      else .ok (0x10, be16 a ++ be16 (u16OfNat n) ++ [byteOfNat payload.length] ++ payload) := by
  have hq : (u16OfNat payload.length / 2).toNat = (2 * n % 65536) / 2 := by
    rw [BitVec.toNat_udiv, toNat_u16OfNat, hl]; rfl
  simp only [Core.request, u16_eq_zero_iff, hq, toNat_u16OfNat]
  rw [hl]
  have hd : 2 * n / 2 = n := by omega
  rw [hd]
  by_cases h2 : n > 123
  · by_cases h1 : 2 * n % 65536 / 2 = 0
    · simp [h1, h2]
    · simp [h1, h2]
  · have hm : 2 * n % 65536 = 2 * n := by omega
    have hqq : u16OfNat (2 * n) / 2 = u16OfNat n := by
      apply BitVec.eq_of_toNat_eq
      rw [BitVec.toNat_udiv, toNat_u16OfNat, toNat_u16OfNat]
      show 2 * n % 65536 / 2 = n % 65536
      omega
    rw [hm, hd, hqq]
    by_cases h1 : n = 0
    · simp [h1]
    · by_cases h3 : a.toNat + n - 1 > 0xFFFF
      · simp [h1, h2, h3]
      · simp [h1, h2, h3]

/-! ### payload builders of the typed wrappers -/

theorem length_flatMap_const {α β : Type} (f : α → List β) (k : Nat) (h : ∀ v, (f v).length = k) :
    ∀ vs : List α, (vs.flatMap f).length = k * vs.length
  | [] => by simp
  | v :: vs => by
    rw [List.flatMap_cons, List.length_append, h, length_flatMap_const f k h vs, List.length_cons]
    rw [Nat.mul_succ, Nat.add_comm]

theorem length_regBytes (e : Endian) (r : U16) : (Spec.regBytes e r).length = 2 := by
  cases e <;> rfl

theorem length_layout16 (e : Endian) (v : U16) : (Spec.layout16 e v).length = 2 := by
  cases e <;> rfl

theorem length_layout32 (e : Endian) (w : WordOrder) (v : U32) : (Spec.layout32 e w v).length = 4 := by
  cases e <;> cases w <;> rfl

theorem length_layout64 (e : Endian) (w : WordOrder) (v : U64) : (Spec.layout64 e w v).length = 8 := by
  cases e <;> cases w <;> rfl

theorem flatMap_u16 (e : Endian) (vs : List U16) :
    vs.flatMap (uint16ToBytes e) = vs.flatMap (Spec.layout16 e) := by
  congr 1; funext v; exact Props.C17.u16_layout e v

theorem flatMap_u32 (e : Endian) (w : WordOrder) (he : e ≠ .invalid) (hw : w ≠ .invalid) (vs : List U32) :
    vs.flatMap (uint32ToBytes e w) = vs.flatMap (Spec.layout32 e w) := by
  congr 1; funext v; exact Props.C17.u32_layout e w v he hw

theorem flatMap_u64 (e : Endian) (w : WordOrder) (he : e ≠ .invalid) (hw : w ≠ .invalid) (vs : List U64) :
    vs.flatMap (uint64ToBytes e w) = vs.flatMap (Spec.layout64 e w) := by
  congr 1; funext v; exact Props.C17.u64_layout e w v he hw

/-- the raw (unswapped) register image of a byte string -/
def rawPairs (bs : Bytes) : Bytes := (Spec.bytePairs bs).flatMap (fun p => [p.1, p.2])
def swappedPairs (bs : Bytes) : Bytes := (Spec.bytePairs bs).flatMap (fun p => [p.2, p.1])

theorem length_bytePairs : ∀ bs : Bytes, (Spec.bytePairs bs).length = Spec.regsForBytes bs.length
  | [] => rfl
  | [_] => by simp [Spec.bytePairs, Spec.regsForBytes]
  | _ :: _ :: rest => by
    simp only [Spec.bytePairs, List.length_cons, length_bytePairs rest, Spec.regsForBytes]
    omega

theorem length_rawPairs (bs : Bytes) : (rawPairs bs).length = 2 * Spec.regsForBytes bs.length := by
  rw [rawPairs, length_flatMap_const _ 2 (fun _ => rfl), length_bytePairs]

theorem length_swappedPairs (bs : Bytes) : (swappedPairs bs).length = 2 * Spec.regsForBytes bs.length := by
  rw [swappedPairs, length_flatMap_const _ 2 (fun _ => rfl), length_bytePairs]

/-- copy + pad of `writeBytes` is the raw register image -/
theorem padded_eq_rawPairs : ∀ bs : Bytes,
    (if bs.length % 2 = 1 then bs ++ [0x00] else bs) = rawPairs bs
  | [] => rfl
  | [_] => rfl
  | a :: b :: rest => by
    have ih := padded_eq_rawPairs rest
    have hl : (a :: b :: rest).length % 2 = rest.length % 2 := by
      simp only [List.length_cons]; omega
    rw [hl]
    simp only [rawPairs, Spec.bytePairs, List.flatMap_cons] at ih ⊢
    rw [← ih]
    split <;> rfl

theorem swapPairs_flatMap : ∀ ps : List (Byte × Byte),
    swapPairs (ps.flatMap (fun p => [p.1, p.2])) = some (ps.flatMap (fun p => [p.2, p.1]))
  | [] => rfl
  | p :: ps => by
    simp only [List.flatMap_cons, List.cons_append, List.nil_append, swapPairs, swapPairs_flatMap ps]

theorem writeBytesPayload_raw (e : Endian) (bs : Bytes) :
    writeBytesPayload e false bs = some (rawPairs bs) := by
  simp only [writeBytesPayload, padded_eq_rawPairs]
  simp

theorem writeBytesPayload_observe (e : Endian) (bs : Bytes) :
    writeBytesPayload e true bs = some (if e = .little then swappedPairs bs else rawPairs bs) := by
  simp only [writeBytesPayload, padded_eq_rawPairs]
  by_cases h : e = .little
  · simp [h, rawPairs, swappedPairs, swapPairs_flatMap]
  · simp [h]

theorem spec_data_writeBytes (cfg : Cfg) (a : U16) (bs : Bytes) :
    Spec.data cfg (.writeBytes a bs) = if cfg.endian = .little then swappedPairs bs else rawPairs bs := by
  simp only [Spec.data, swappedPairs, rawPairs]
  by_cases h : cfg.endian = .little <;> simp [h]

/-! ### framing -/

theorem frameFor_eq_wrap (k : Kind) (st : TState) (u fc : Byte) (pl : Bytes) :
    (frameFor k st { unit := u, fc := fc, payload := pl }).1 = Spec.wrap k u st.lastTxn fc pl := by
  cases k <;>
    simp [frameFor, Kind.isRtu, Spec.wrap, Spec.wrapRtu, Spec.wrapMbap, Rtu.assemble, Mbap.assemble,
      Props.C06.frame_ends_with_crc]

/-! ### every public operation: wrapper + core helper = spec -/

theorem ite_perr {P : Prop} [Decidable P] {b : Bool} {x y : Byte × Bytes}
    (h1 : P ↔ b = true) (h2 : x = y) :
    (if P then (perr : Except Err (Byte × Bytes)) else .ok x)
      = (if b then .error .unexpectedParameters else .ok y) := by
  subst h2
  by_cases hp : P
  · rw [if_pos hp, if_pos (h1.mp hp)]; rfl
  · have hb : ¬ b = true := fun h => hp (h1.mpr h)
    rw [if_neg hp, if_neg hb]

theorem toNat_ceilHalf (q : U16) : ((q / 2) + (q % 2)).toNat = Spec.regsForBytes q.toNat := by
  rw [BitVec.toNat_add, BitVec.toNat_udiv, BitVec.toNat_umod]
  have := q.isLt
  show (q.toNat / 2 + q.toNat % 2) % 65536 = (q.toNat + 1) / 2
  omega

theorem u16OfNat_lit1 : u16OfNat 1 = 1#16 := rfl
theorem u16OfNat_lit2 : u16OfNat 2 = 2#16 := rfl
theorem u16OfNat_lit4 : u16OfNat 4 = 4#16 := rfl

/-- unfolding set for the limit side -/
macro "bl_simp" : tactic =>
  `(tactic| (simp [Spec.breaksLimits, Spec.items, Spec.limit, Spec.fn, Spec.Fn.limit, Spec.addr,
      Spec.regTypeOk, Spec.regType?, or_assoc] <;> try omega))

/-- unfolding set for the PDU side -/
macro "pdu_simp" : tactic =>
  `(tactic| simp [Spec.pdu, Spec.functionCode, Spec.fn, Spec.regType?, Spec.items, Spec.addr,
      Spec.data, u16OfNat_toNat, u16OfNat_lit1, u16OfNat_lit2, u16OfNat_lit4, Nat.mul_comm])

theorem core_spec (cfg : Cfg) (he : cfg.endian ≠ .invalid) (hw : cfg.word ≠ .invalid) (op : Op) :
    ∃ c, op.core cfg = some c ∧
      c.request = if Spec.breaksLimits op then .error .unexpectedParameters
                  else .ok (Spec.pdu cfg op) := by
  cases op with
  | readCoils a q =>
    refine ⟨_, rfl, ?_⟩; rw [readBools_request]; apply ite_perr
    · bl_simp
    · pdu_simp
  | readCoil a =>
    refine ⟨_, rfl, ?_⟩; rw [readBools_request]; apply ite_perr
    · have := a.isLt; bl_simp
    · pdu_simp
  | readDiscreteInputs a q =>
    refine ⟨_, rfl, ?_⟩; rw [readBools_request]; apply ite_perr
    · bl_simp
    · pdu_simp
  | readDiscreteInput a =>
    refine ⟨_, rfl, ?_⟩; rw [readBools_request]; apply ite_perr
    · have := a.isLt; bl_simp
    · pdu_simp
  | readRegisters a q rt =>
    refine ⟨_, rfl, ?_⟩; rw [readRegs_request]; apply ite_perr
    · bl_simp
    · pdu_simp
  | readRegister a rt =>
    refine ⟨_, rfl, ?_⟩; rw [readRegs_request]; apply ite_perr
    · have := a.isLt; bl_simp
    · pdu_simp
  | readUint32s a q rt =>
    refine ⟨_, rfl, ?_⟩; rw [readRegs_request]; apply ite_perr
    · bl_simp
    · pdu_simp
  | readUint32 a rt =>
    refine ⟨_, rfl, ?_⟩; rw [readRegs_request]; apply ite_perr
    · have := a.isLt; bl_simp
    · pdu_simp
  | readFloat32s a q rt =>
    refine ⟨_, rfl, ?_⟩; rw [readRegs_request]; apply ite_perr
    · bl_simp
    · pdu_simp
  | readFloat32 a rt =>
    refine ⟨_, rfl, ?_⟩; rw [readRegs_request]; apply ite_perr
    · have := a.isLt; bl_simp
    · pdu_simp
  | readUint64s a q rt =>
    refine ⟨_, rfl, ?_⟩; rw [readRegs_request]; apply ite_perr
    · bl_simp
    · pdu_simp
  | readUint64 a rt =>
    refine ⟨_, rfl, ?_⟩; rw [readRegs_request]; apply ite_perr
    · have := a.isLt; bl_simp
    · pdu_simp
  | readFloat64s a q rt =>
    refine ⟨_, rfl, ?_⟩; rw [readRegs_request]; apply ite_perr
    · bl_simp
    · pdu_simp
  | readFloat64 a rt =>
    refine ⟨_, rfl, ?_⟩; rw [readRegs_request]; apply ite_perr
    · have := a.isLt; bl_simp
    · pdu_simp
  | readBytes a q rt =>
    refine ⟨_, rfl, ?_⟩; rw [readRegs_request, toNat_ceilHalf]; apply ite_perr
    · bl_simp
    · pdu_simp
  | readRawBytes a q rt =>
    refine ⟨_, rfl, ?_⟩; rw [readRegs_request, toNat_ceilHalf]; apply ite_perr
    · bl_simp
    · pdu_simp
  | writeCoil a v =>
    refine ⟨_, rfl, ?_⟩
    have hb : Spec.breaksLimits (.writeCoil a v) = false := by have := a.isLt; bl_simp
    rw [hb]; simp only [Core.request]; pdu_simp
  | writeRegister a v =>
    refine ⟨_, rfl, ?_⟩
    have hb : Spec.breaksLimits (.writeRegister a v) = false := by have := a.isLt; bl_simp
    rw [hb]; simp only [Core.request, Props.C17.u16_layout]; pdu_simp
  | writeCoils a vs =>
    refine ⟨_, rfl, ?_⟩; rw [writeCoils_request]; apply ite_perr
    · bl_simp
    · pdu_simp
  | writeRegisters a vs =>
    refine ⟨_, rfl, ?_⟩
    rw [flatMap_u16, writeRegs_request a _ vs.length (length_flatMap_const _ 2 (length_layout16 _) vs)]
    apply ite_perr
    · bl_simp
    · pdu_simp
  | writeUint32s a vs =>
    refine ⟨_, rfl, ?_⟩
    rw [flatMap_u32 _ _ he hw, writeRegs_request a _ (2 * vs.length)
      (by rw [length_flatMap_const _ 4 (length_layout32 _ _) vs]; omega)]
    apply ite_perr
    · bl_simp
    · pdu_simp
  | writeFloat32s a vs =>
    refine ⟨_, rfl, ?_⟩
    rw [flatMap_u32 _ _ he hw, writeRegs_request a _ (2 * vs.length)
      (by rw [length_flatMap_const _ 4 (length_layout32 _ _) vs]; omega)]
    apply ite_perr
    · bl_simp
    · pdu_simp
  | writeUint64s a vs =>
    refine ⟨_, rfl, ?_⟩
    rw [flatMap_u64 _ _ he hw, writeRegs_request a _ (4 * vs.length)
      (by rw [length_flatMap_const _ 8 (length_layout64 _ _) vs]; omega)]
    apply ite_perr
    · bl_simp
    · pdu_simp
  | writeFloat64s a vs =>
    refine ⟨_, rfl, ?_⟩
    rw [flatMap_u64 _ _ he hw, writeRegs_request a _ (4 * vs.length)
      (by rw [length_flatMap_const _ 8 (length_layout64 _ _) vs]; omega)]
    apply ite_perr
    · bl_simp
    · pdu_simp
  | writeUint32 a v =>
    refine ⟨_, rfl, ?_⟩
    rw [Props.C17.u32_layout _ _ _ he hw, writeRegs_request a _ 2 (length_layout32 _ _ _)]
    apply ite_perr
    · have := a.isLt; bl_simp
    · pdu_simp
  | writeFloat32 a v =>
    refine ⟨_, rfl, ?_⟩
    rw [Props.C17.u32_layout _ _ _ he hw, writeRegs_request a _ 2 (length_layout32 _ _ _)]
    apply ite_perr
    · have := a.isLt; bl_simp
    · pdu_simp
  | writeUint64 a v =>
    refine ⟨_, rfl, ?_⟩
    rw [Props.C17.u64_layout _ _ _ he hw, writeRegs_request a _ 4 (length_layout64 _ _ _)]
    apply ite_perr
    · have := a.isLt; bl_simp
    · pdu_simp
  | writeFloat64 a v =>
    refine ⟨_, rfl, ?_⟩
    rw [Props.C17.u64_layout _ _ _ he hw, writeRegs_request a _ 4 (length_layout64 _ _ _)]
    apply ite_perr
    · have := a.isLt; bl_simp
    · pdu_simp
  | writeBytes a bs =>
    refine ⟨.writeRegs a (Spec.data cfg (.writeBytes a bs)), ?_, ?_⟩
    · simp only [Op.core, writeBytesPayload_observe, spec_data_writeBytes, Option.map_some]
    · rw [writeRegs_request a _ (Spec.regsForBytes bs.length)
        (by rw [spec_data_writeBytes]; split
            · exact length_swappedPairs bs
            · exact length_rawPairs bs)]
      apply ite_perr
      · bl_simp
      · simp only [Spec.pdu, Spec.functionCode, Spec.fn, Spec.items, Spec.addr]
  | writeRawBytes a bs =>
    refine ⟨.writeRegs a (rawPairs bs), ?_, ?_⟩
    · simp only [Op.core, writeBytesPayload_raw, Option.map_some]
    · rw [writeRegs_request a _ (Spec.regsForBytes bs.length) (length_rawPairs bs)]
      apply ite_perr
      · bl_simp
      · simp only [Spec.pdu, Spec.functionCode, Spec.fn, Spec.items, Spec.addr, Spec.data, rawPairs]

/-! ### the public statements -/

theorem requestFrame_eq_spec (op : Op) (cfg : Cfg) (st : TState)
    (he : cfg.endian ≠ .invalid) (hw : cfg.word ≠ .invalid) :
    op.requestFrame cfg st = some (Spec.request cfg st op) := by
  obtain ⟨c, hc, hr⟩ := core_spec cfg he hw op
  simp only [Op.requestFrame, hc, hr, Spec.request]
  by_cases hb : Spec.breaksLimits op = true
  · simp [hb]
  · simp [hb, frameFor_eq_wrap]

theorem request_error_iff (op : Op) (cfg : Cfg) (st : TState) (e : Err) :
    Spec.request cfg st op = .error e ↔ (Spec.breaksLimits op = true ∧ e = .unexpectedParameters) := by
  unfold Spec.request
  by_cases hb : Spec.breaksLimits op = true
  · simp [hb]; exact eq_comm
  · simp [hb]

theorem exchange_of_error (c : Core) (cfg : Cfg) (st : TState) (arrivals : Bytes) (e : Ending) (err : Err)
    (h : c.request = .error err) :
    c.exchange cfg st arrivals e = { written := none, result := some (.error err), state := st } := by
  simp only [Core.exchange, h]

theorem exchange_written_of_ok (c : Core) (cfg : Cfg) (st : TState) (arrivals : Bytes) (e : Ending)
    (fc : Byte) (pl : Bytes) (h : c.request = .ok (fc, pl)) :
    (c.exchange cfg st arrivals e).written
      = some (frameFor cfg.kind st { unit := cfg.unitId, fc := fc, payload := pl }).1 := by
  simp only [Core.exchange, h]
  split <;> rfl

theorem run_one_write_or_none (op : Op) (cfg : Cfg) (st : TState)
    (he : cfg.endian ≠ .invalid) (hw : cfg.word ≠ .invalid) (arrivals : Bytes) (e : Ending) :
    let r := op.run cfg st arrivals e
    (r.written = none ∧ r.result = some (.error .unexpectedParameters) ∧ r.state = st) ∨
    (∃ f, r.written = some f ∧ Spec.request cfg st op = .ok f) := by
  obtain ⟨c, hc, hr⟩ := core_spec cfg he hw op
  by_cases hb : Spec.breaksLimits op = true
  · left
    rw [if_pos hb] at hr
    simp only [Op.run, hc, exchange_of_error c cfg st arrivals e _ hr, and_self]
  · right
    rw [if_neg hb] at hr
    refine ⟨Spec.wrap cfg.kind cfg.unitId st.lastTxn (Spec.pdu cfg op).1 (Spec.pdu cfg op).2, ?_, ?_⟩
    · simp only [Op.run, hc]
      rw [exchange_written_of_ok c cfg st arrivals e _ _ hr, frameFor_eq_wrap]
      rfl
    · simp only [Spec.request, hb]; rfl

/-! ### sizes: nothing wraps around in an accepted request -/

/-- length of the data part, by function -/
def dataLen (op : Op) : Nat :=
  match Spec.fn op with
  | .readCoils | .readDiscreteInputs | .readRegisters => 0
  | .writeSingleCoil | .writeSingleRegister => 2
  | .writeMultipleCoils => (Spec.items op + 7) / 8
  | .writeMultipleRegisters => 2 * Spec.items op

theorem data_length (cfg : Cfg) (op : Op) : (Spec.data cfg op).length = dataLen op := by
  cases op with
  | writeCoil a v => cases v <;> rfl
  | writeCoils a vs => simp [Spec.data, dataLen, Spec.fn, Spec.items, Spec.packBools, Spec.coilLen]
  | writeRegister a v => exact length_layout16 _ _
  | writeRegisters a vs => exact length_flatMap_const _ 2 (length_layout16 _) vs
  | writeUint32s a vs | writeFloat32s a vs =>
    show (vs.flatMap (Spec.layout32 cfg.endian cfg.word)).length = 2 * (2 * vs.length)
    rw [length_flatMap_const _ 4 (length_layout32 _ _) vs]; omega
  | writeUint64s a vs | writeFloat64s a vs =>
    show (vs.flatMap (Spec.layout64 cfg.endian cfg.word)).length = 2 * (4 * vs.length)
    rw [length_flatMap_const _ 8 (length_layout64 _ _) vs]; omega
  | writeUint32 a v | writeFloat32 a v => exact length_layout32 _ _ _
  | writeUint64 a v | writeFloat64 a v => exact length_layout64 _ _ _
  | writeBytes a bs =>
    rw [spec_data_writeBytes]
    split
    · exact length_swappedPairs bs
    · exact length_rawPairs bs
  | writeRawBytes a bs => exact length_rawPairs bs
  | _ => rfl

theorem accepted_bounds (op : Op) (h : Spec.breaksLimits op = false) :
    1 ≤ Spec.items op ∧ Spec.items op ≤ Spec.limit op ∧ (Spec.addr op).toNat + Spec.items op ≤ 65536 := by
  simp [Spec.breaksLimits] at h
  omega

theorem payload_length (cfg : Cfg) (op : Op) :
    (Spec.pdu cfg op).2.length =
      match Spec.fn op with
      | .writeMultipleCoils | .writeMultipleRegisters => 5 + dataLen op
      | _ => 4 := by
  have hd := data_length cfg op
  simp only [Spec.pdu, dataLen] at hd ⊢
  generalize Spec.fn op = f at hd ⊢
  cases f <;> simp [be16, hd] <;> omega

theorem data_length_le (cfg : Cfg) (op : Op) (h : Spec.breaksLimits op = false) :
    (Spec.data cfg op).length ≤ 246 := by
  have hb := accepted_bounds op h
  rw [data_length]
  simp only [Spec.limit, dataLen] at hb ⊢
  generalize Spec.fn op = f at hb ⊢
  cases f <;> simp [Spec.Fn.limit] at hb ⊢ <;> omega

theorem payload_length_le (cfg : Cfg) (op : Op) (h : Spec.breaksLimits op = false) :
    (Spec.pdu cfg op).2.length ≤ 251 := by
  have hb := accepted_bounds op h
  rw [payload_length]
  simp only [Spec.limit, dataLen] at hb ⊢
  generalize Spec.fn op = f at hb ⊢
  cases f <;> simp [Spec.Fn.limit] at hb ⊢ <;> omega

theorem toNat_byteOfNat (n : Nat) : (byteOfNat n).toNat = n % 256 := by simp [byteOfNat]

/-- the quantity field holds the mathematical item count -/
theorem quantity_exact (op : Op) (h : Spec.breaksLimits op = false) :
    (u16OfNat (Spec.items op)).toNat = Spec.items op := by
  have hb := accepted_bounds op h
  have hl : Spec.limit op ≤ 2000 := by
    unfold Spec.limit; cases Spec.fn op <;> decide
  rw [toNat_u16OfNat]; omega

theorem mbap_length_field (u : Byte) (txn : U16) (fc : Byte) (pl : Bytes) (h : pl.length ≤ 65533) :
    let f := Spec.wrapMbap u txn fc pl
    f.length = 8 + pl.length ∧ (mk16 (f.getD 4 0) (f.getD 5 0)).toNat = 2 + pl.length := by
  simp only [Spec.wrapMbap, be16]
  refine ⟨by simp; omega, ?_⟩
  simp only [List.cons_append, List.nil_append, List.getD_cons_succ, List.getD_cons_zero,
    EncLemmas.mk16_hi_lo, toNat_u16OfNat]
  omega

theorem run_written_none_iff (op : Op) (cfg : Cfg) (st : TState)
    (he : cfg.endian ≠ .invalid) (hw : cfg.word ≠ .invalid) (arrivals : Bytes) (e : Ending) :
    (op.run cfg st arrivals e).written = none ↔ Spec.breaksLimits op = true := by
  obtain ⟨c, hc, hr⟩ := core_spec cfg he hw op
  by_cases hb : Spec.breaksLimits op = true
  · rw [if_pos hb] at hr
    simp only [Op.run, hc, exchange_of_error c cfg st arrivals e _ hr, hb]
  · rw [if_neg hb] at hr
    simp only [Op.run, hc, exchange_written_of_ok c cfg st arrivals e _ _ hr, hb]
    simp

theorem len_field_exact (op : Op) (cfg : Cfg) (st : TState)
    (he : cfg.endian ≠ .invalid) (hw : cfg.word ≠ .invalid)
    (hk : cfg.kind = .tcp ∨ cfg.kind = .tcpTls ∨ cfg.kind = .udp)
    (hacc : Spec.breaksLimits op = false) :
    let pl := (Spec.pdu cfg op).2
    pl.length ≤ 252 ∧
    ∃ f, op.requestFrame cfg st = some (.ok f) ∧ f.length = 8 + pl.length ∧
      (mk16 (f.getD 4 0) (f.getD 5 0)).toNat = 2 + pl.length ∧
      (mk16 (f.getD 4 0) (f.getD 5 0)).toNat = f.length - 6 := by
  have hle := payload_length_le cfg op hacc
  have hm := mbap_length_field cfg.unitId (st.lastTxn + 1) (Spec.pdu cfg op).1 (Spec.pdu cfg op).2
    (by omega)
  simp only at hm ⊢
  refine ⟨by omega, Spec.wrapMbap cfg.unitId (st.lastTxn + 1) (Spec.pdu cfg op).1 (Spec.pdu cfg op).2,
    ?_, hm.1, hm.2, by rw [hm.2, hm.1]; omega⟩
  rw [requestFrame_eq_spec op cfg st he hw, Spec.request, hacc]
  rcases hk with h | h | h <;> simp [Spec.wrap, h]

theorem count_fields_exact (op : Op) (cfg : Cfg) (hacc : Spec.breaksLimits op = false) :
    (u16OfNat (Spec.items op)).toNat = Spec.items op ∧
    (Spec.data cfg op).length ≤ 246 ∧
    (byteOfNat (Spec.data cfg op).length).toNat = (Spec.data cfg op).length ∧
    ((Spec.fn op = .writeMultipleCoils ∨ Spec.fn op = .writeMultipleRegisters) →
      (Spec.pdu cfg op).2 = be16 (Spec.addr op) ++ be16 (u16OfNat (Spec.items op))
        ++ [byteOfNat (Spec.data cfg op).length] ++ Spec.data cfg op) := by
  have hd := data_length_le cfg op hacc
  refine ⟨quantity_exact op hacc, hd, by rw [toNat_byteOfNat]; omega, ?_⟩
  intro hf
  rcases hf with h | h <;> simp [Spec.pdu, h]

theorem frame_fits (op : Op) (cfg : Cfg) (st : TState) (f : Bytes)
    (h : Spec.request cfg st op = .ok f) :
    f.length ≤ (if cfg.kind = .tcp ∨ cfg.kind = .tcpTls ∨ cfg.kind = .udp then 260 else 256) := by
  unfold Spec.request at h
  cases hacc : Spec.breaksLimits op
  · rw [hacc] at h
    have hle := payload_length_le cfg op hacc
    simp only [Bool.false_eq_true, if_false, Except.ok.injEq] at h
    subst h
    cases hk : cfg.kind <;> simp [Spec.wrap, Spec.wrapMbap, Spec.wrapRtu, be16] <;> omega
  · rw [hacc] at h; simp at h

end Modbus.ClientReq
