import ModbusVerif.Model.Skeleton
/-
  Lemma for the C16 source tie: the condition-table interpreter looks at the switch value only
  through the `case` lists, so two values that occur in no `case` list (and are not the word
  "default") are executed identically. This turns "a representative unknown scheme" into
  "every unknown scheme".
-/
namespace Modbus.Skel

theorem labelsCases_mem {cs : List (List String × List Node)} {c : List String × List Node}
    (hc : c ∈ cs) : (∀ l ∈ c.1, l ∈ labelsCases cs) ∧ (∀ l ∈ labelsNodes c.2, l ∈ labelsCases cs) := by
  induction cs with
  | nil => cases hc
  | cons d ds ih =>
    rw [labelsCases]
    rcases List.mem_cons.mp hc with rfl | h
    · constructor <;> intro l hl <;> simp [hl]
    · obtain ⟨h1, h2⟩ := ih h
      constructor <;> intro l hl
      · exact List.mem_append_right _ (h1 l hl)
      · exact List.mem_append_right _ (h2 l hl)

theorem find_contains_none {cs : List (List String × List Node)} {k : String}
    (hk : k ∉ labelsCases cs) : cs.find? (fun c => c.1.contains k) = none := by
  rw [List.find?_eq_none]
  intro c hc
  have := (labelsCases_mem hc).1 k
  simp only [List.contains_iff_mem]
  intro h
  exact hk (this h)

theorem cond_kind_irrel (k k' : String) : ∀ fuel,
    (∀ ns cond r, k ∉ labelsNodes ns → k' ∉ labelsNodes ns →
      condNodes fuel ns k cond r = condNodes fuel ns k' cond r) ∧
    (∀ n cond r, k ∉ labelsNode n → k' ∉ labelsNode n →
      condNode fuel n k cond r = condNode fuel n k' cond r) := by
  intro fuel
  induction fuel with
  | zero => constructor <;> intros <;> simp [condNodes, condNode]
  | succ f ih =>
    obtain ⟨ihs, ihn⟩ := ih
    constructor
    · intro ns cond r hk hk'
      cases ns with
      | nil => simp [condNodes]
      | cons n ns =>
        rw [labelsNodes, List.mem_append, not_or] at hk hk'
        rw [condNodes, condNodes, ihn n cond r hk.1 hk'.1]
        split
        · rfl
        · split
          · rfl
          · exact ihs _ _ _ hk.2 hk'.2
    · intro n cond r hk hk'
      cases n with
      | atom s => simp [condNode]
      | ret => simp [condNode]
      | loop b => simp [condNode]
      | ifN c thn els =>
        rw [labelsNode, List.mem_append, not_or] at hk hk'
        rw [condNode, condNode]
        split
        · rfl
        · rename_i b _
          cases b
          · exact ihs _ _ _ hk.2 hk'.2
          · exact ihs _ _ _ hk.1 hk'.1
      | sw cases =>
        rw [labelsNode] at hk hk'
        rw [condNode, condNode, find_contains_none hk, find_contains_none hk']
        simp only
        split
        · rename_i c hc
          have hm := List.mem_of_find?_eq_some hc
          exact ihs _ _ _ (fun h => hk ((labelsCases_mem hm).2 _ h)) (fun h => hk' ((labelsCases_mem hm).2 _ h))
        · rfl

/-- two switch values that occur in no `case` list are executed identically -/
theorem execCondT_kind_irrel (toks : List Tok) (k k' : String) (cond : List Tok → String → Option Bool)
    (hk : k ∉ labelsNodes (parse toks)) (hk' : k' ∉ labelsNodes (parse toks)) :
    execCondT toks k cond = execCondT toks k' cond := by
  unfold execCondT
  rw [(cond_kind_irrel k k' _).1 _ _ _ hk hk']

end Modbus.Skel
