import ModbusVerif.Model.Heap
import ModbusVerif.Lemmas.EncLemmas
/-
  Lemmas about the heap model (Model/Heap.lean) for property C18.
  * `Frame h0 h`: the heap only grew and every array of `h0` is unchanged in `h`.
  * `Own h0 h s`: additionally `s` is a valid slice of `h` on an array allocated after `h0`.
  Every primitive that writes through an owned slice keeps `Frame h0` (frame lemmas), and the
  `_spec` lemmas add the value-level result (`load`) of each transcribed Go function.
  Core Lean only.
-/
namespace Modbus.Heap
variable {α : Type}

/-! ### lists -/
theorem arrAt_set (h : GHeap α) (a b : Nat) (v : List α) :
    arrAt (h.set a v) b = if b = a ∧ a < h.length then v else arrAt h b := by
  simp only [arrAt, List.getD_eq_getElem?_getD, List.getElem?_set]
  by_cases hab : a = b
  · subst hab
    by_cases hl : a < h.length
    · simp [hl]
    · simp [hl]
  · have : ¬ b = a := fun e => hab e.symm
    simp [hab, this]

theorem arrAt_snoc (h : GHeap α) (A : List α) (b : Nat) :
    arrAt (h ++ [A]) b = if b < h.length then arrAt h b else if b = h.length then A else [] := by
  simp only [arrAt, List.getD_eq_getElem?_getD, List.getElem?_append]
  by_cases hb : b < h.length
  · simp [hb]
  · by_cases hb' : b = h.length
    · simp [hb']
    · have : b - h.length ≠ 0 := by omega
      obtain ⟨k, hk⟩ := Nat.exists_eq_succ_of_ne_zero this
      simp [hb, hb', hk]

/-- `h` extends `h0`: every array of `h0` is still there, same id, same contents -/
def Frame (h0 h : GHeap α) : Prop :=
  h0.length ≤ h.length ∧ ∀ a, a < h0.length → arrAt h a = arrAt h0 a

theorem Frame.refl (h : GHeap α) : Frame h h := ⟨Nat.le_refl _, fun _ _ => rfl⟩
theorem Frame.trans {h0 h1 h2 : GHeap α} (a : Frame h0 h1) (b : Frame h1 h2) : Frame h0 h2 :=
  ⟨Nat.le_trans a.1 b.1, fun x hx => (b.2 x (Nat.lt_of_lt_of_le hx a.1)).trans (a.2 x hx)⟩

theorem Frame.load_eq {h0 h : GHeap α} (F : Frame h0 h) {s : Slice} (hs : s.arr < h0.length) :
    load h s = load h0 s := by simp [load, F.2 _ hs]
theorem Frame.loadCap_eq {h0 h : GHeap α} (F : Frame h0 h) {s : Slice} (hs : s.arr < h0.length) :
    loadCap h s = loadCap h0 s := by simp [loadCap, F.2 _ hs]
theorem Frame.valid_of {h0 h : GHeap α} (F : Frame h0 h) {s : Slice} (hs : s.Valid h0) : s.Valid h :=
  ⟨Nat.lt_of_lt_of_le hs.1 F.1, hs.2.1, by rw [F.2 _ hs.1]; exact hs.2.2⟩

theorem load_length {h : GHeap α} {s : Slice} (hv : s.Valid h) : (load h s).length = s.len := by
  have := hv.2.1; have := hv.2.2
  simp [load]; omega

/-- the write primitives change one array only and keep the heap's length -/
theorem writeArr_length (h : GHeap α) (a i : Nat) (x : α) : (writeArr h a i x).length = h.length := by
  simp [writeArr]
theorem writeArr_other (h : GHeap α) (a i : Nat) (x : α) (b : Nat) (hb : b ≠ a) :
    arrAt (writeArr h a i x) b = arrAt h b := by
  simp [writeArr, arrAt_set, hb]
theorem writeArr_same (h : GHeap α) (a i : Nat) (x : α) (ha : a < h.length) :
    arrAt (writeArr h a i x) a = (arrAt h a).set i x := by
  simp [writeArr, arrAt_set, ha]

theorem writeArr_frame {h0 h : GHeap α} (F : Frame h0 h) {a : Nat} (ha : h0.length ≤ a) (i : Nat) (x : α) :
    Frame h0 (writeArr h a i x) :=
  ⟨by rw [writeArr_length]; exact F.1, fun b hb => by
    rw [writeArr_other _ _ _ _ _ (by omega)]; exact F.2 b hb⟩

theorem alloc_frame {h0 h : GHeap α} (F : Frame h0 h) (A : List α) : Frame h0 (alloc h A).1 :=
  ⟨by simp [alloc]; have := F.1; omega, fun b hb => by
    have := F.1
    simp only [alloc, arrAt_snoc, if_pos (show b < h.length by omega)]; exact F.2 b hb⟩

/-- `Own h0 h s`: `h` extends `h0` and `s` is a valid slice of `h` whose array was allocated
    after `h0` -/
structure Own (h0 h : GHeap α) (s : Slice) : Prop where
  frame : Frame h0 h
  fresh : h0.length ≤ s.arr
  valid : s.Valid h

theorem freshOf_spec {h0 h : GHeap α} (F : Frame h0 h) (xs : List α) :
    Own h0 (freshOf h xs).1 (freshOf h xs).2 ∧ load (freshOf h xs).1 (freshOf h xs).2 = xs := by
  refine ⟨⟨alloc_frame F xs, F.1, ?_⟩, ?_⟩
  · simp [freshOf, alloc, Slice.Valid, arrAt_snoc]
  · simp [freshOf, alloc, load, arrAt_snoc]

theorem makeSlice_spec [Inhabited α] {h0 h : GHeap α} (F : Frame h0 h) (l c : Nat) :
    Own h0 (makeSlice h l c).1 (makeSlice h l c).2 ∧
      load (makeSlice h l c).1 (makeSlice h l c).2 = List.replicate l default ∧
      (makeSlice h l c).2.len = l := by
  refine ⟨⟨alloc_frame F _, F.1, ?_⟩, ?_, rfl⟩
  · simp [makeSlice, alloc, Slice.Valid, arrAt_snoc]; omega
  · simp [makeSlice, alloc, load, arrAt_snoc, List.take_replicate]; omega

theorem setIdx_frame {h0 h : GHeap α} (F : Frame h0 h) {s : Slice} (hs : h0.length ≤ s.arr) (i : Nat) (x : α) :
    Frame h0 (setIdx h s i x) := writeArr_frame F hs _ _

theorem setIdx_valid {h : GHeap α} {s t : Slice} (hv : t.Valid h) (i : Nat) (x : α) :
    t.Valid (setIdx h s i x) := by
  refine ⟨by simp [setIdx, writeArr_length]; exact hv.1, hv.2.1, ?_⟩
  by_cases e : t.arr = s.arr
  · rw [setIdx, e, writeArr_same _ _ _ _ (e ▸ hv.1)]; simp; rw [← e]; exact hv.2.2
  · rw [setIdx, writeArr_other _ _ _ _ _ e]; exact hv.2.2

theorem load_setIdx {h : GHeap α} {s : Slice} (hv : s.Valid h) (i : Nat) (x : α) (_hi : i < s.len) :
    load (setIdx h s i x) s = (load h s).set i x := by
  simp only [load, setIdx, writeArr_same _ _ _ _ hv.1]
  rw [List.drop_set, if_neg (by omega), List.take_set]
  congr 2; omega

theorem appendByte_spec [Inhabited α] {h0 h : GHeap α} {s : Slice} (O : Own h0 h s) (x : α) :
    Own h0 (appendByte h s x).1 (appendByte h s x).2 ∧
      load (appendByte h s x).1 (appendByte h s x).2 = load h s ++ [x] ∧
      (appendByte h s x).2.len = s.len + 1 := by
  obtain ⟨F, hf, hv⟩ := O
  have hl := load_length hv
  unfold appendByte
  by_cases hc : s.len < s.cap
  · simp only [if_pos hc]
    refine ⟨⟨writeArr_frame F hf _ _, hf, ?_⟩, ?_, by simp⟩
    · refine ⟨by rw [writeArr_length]; exact hv.1, by simp; omega, ?_⟩
      simp only [writeArr_same _ _ _ _ hv.1, List.length_set]; exact hv.2.2
    · have h2 := hv.2.2
      simp only [load, writeArr_same _ _ _ _ hv.1]
      rw [List.drop_set, if_neg (by omega), List.take_set]
      apply List.ext_getElem?
      intro i
      simp only [List.getElem?_set, List.getElem?_take, List.getElem?_drop, List.getElem?_append,
        List.length_take, List.length_drop]
      have e1 : s.off + s.len - s.off = s.len := by omega
      have e2 : min s.len ((arrAt h s.arr).length - s.off) = s.len := by omega
      rw [e1, e2]
      by_cases hi : i < s.len
      · have : ¬ s.len = i := by omega
        have : i < s.len + 1 := by omega
        simp [*]
      · by_cases hi' : i = s.len
        · subst hi'; simp; omega
        · have : ¬ s.len = i := fun e => hi' e.symm
          have : ¬ i < s.len + 1 := by omega
          have : i - s.len ≠ 0 := by omega
          obtain ⟨k, hk⟩ := Nat.exists_eq_succ_of_ne_zero this
          simp [*]
  · simp only [if_neg hc]
    refine ⟨⟨alloc_frame F _, F.1, ?_⟩, ?_, by simp⟩
    · simp [alloc, Slice.Valid, arrAt_snoc, hl]; omega
    · simp only [alloc, load, arrAt_snoc]
      simp only [Nat.lt_irrefl, if_false, if_true, List.drop_zero, List.append_assoc]
      rw [← List.append_assoc]
      apply List.take_left'
      simpa [load] using hl

theorem appendBytes_cons [Inhabited α] (h : GHeap α) (s : Slice) (x : α) (xs : List α) :
    appendBytes h s (x :: xs) = appendBytes (appendByte h s x).1 (appendByte h s x).2 xs := rfl

theorem appendBytes_spec [Inhabited α] {h0 h : GHeap α} {s : Slice} (O : Own h0 h s) (xs : List α) :
    Own h0 (appendBytes h s xs).1 (appendBytes h s xs).2 ∧
      load (appendBytes h s xs).1 (appendBytes h s xs).2 = load h s ++ xs ∧
      (appendBytes h s xs).2.len = s.len + xs.length := by
  induction xs generalizing h s with
  | nil => exact ⟨O, by simp [appendBytes], by simp [appendBytes]⟩
  | cons x xs ih =>
    rw [appendBytes_cons]
    obtain ⟨O1, L1, N1⟩ := appendByte_spec O x
    obtain ⟨O2, L2, N2⟩ := ih O1
    exact ⟨O2, by rw [L2, L1]; simp, by rw [N2, N1]; simp; omega⟩


/-! ### sub-slices, element reads -/
theorem subslice_valid {h : GHeap α} {s : Slice} (hv : s.Valid h) {a b : Nat} (hab : a ≤ b) (hb : b ≤ s.cap) :
    (subslice s a b).Valid h := by
  obtain ⟨h1, h2, h3⟩ := hv
  exact ⟨h1, by simp [subslice]; omega, by simp [subslice]; omega⟩

theorem subslice_load {h : GHeap α} (s : Slice) (a b : Nat) (hb : b ≤ s.len) :
    load h (subslice s a b) = ((load h s).take b).drop a := by
  simp only [load, subslice, List.take_take, Nat.min_eq_left hb]
  rw [List.drop_take, List.drop_drop]

theorem getIdx_eq_load [Inhabited α] {h : GHeap α} {s : Slice} {i : Nat} (hi : i < s.len) :
    getIdx h s i = (load h s).getD i default := by
  simp [getIdx, load, List.getD_eq_getElem?_getD, hi, List.getElem?_drop]

/-! ### copy -/
theorem take_succ_set {A : List α} {k : Nat} (x : α) (hk : k < A.length) :
    (A.set k x).take (k + 1) = A.take k ++ [x] := by
  rw [List.set_eq_take_append_cons_drop, if_pos hk, List.take_append]
  simp [List.length_take, Nat.min_eq_left (Nat.le_of_lt hk), List.take_take]

theorem copyFrom_frame {h0 h : GHeap α} (F : Frame h0 h) {dst : Slice} (hd : h0.length ≤ dst.arr)
    (i : Nat) (xs : List α) : Frame h0 (copyFrom dst i xs h) := by
  induction xs generalizing i h with
  | nil => exact F
  | cons x xs ih =>
    simp only [copyFrom]
    split
    · exact ih (setIdx_frame F hd _ _) _
    · exact F

theorem copyFrom_valid {h : GHeap α} {dst t : Slice} (hv : t.Valid h) (i : Nat) (xs : List α) :
    t.Valid (copyFrom dst i xs h) := by
  induction xs generalizing i h with
  | nil => exact hv
  | cons x xs ih =>
    simp only [copyFrom]
    split
    · exact ih (setIdx_valid hv _ _) _
    · exact hv

theorem copyFrom_arr {h : GHeap α} {dst : Slice} (hv : dst.Valid h) (i : Nat) (xs : List α)
    (hi : i + xs.length ≤ dst.len) :
    arrAt (copyFrom dst i xs h) dst.arr =
      (arrAt h dst.arr).take (dst.off + i) ++ xs ++ (arrAt h dst.arr).drop (dst.off + i + xs.length) := by
  induction xs generalizing i h with
  | nil => simp [copyFrom]
  | cons x xs ih =>
    have h2 := hv.2.1; have h3 := hv.2.2
    simp only [List.length_cons] at hi
    simp only [copyFrom, if_pos (show i < dst.len by omega)]
    rw [ih (setIdx_valid hv _ _) (i + 1) (by omega), setIdx, writeArr_same _ _ _ _ hv.1]
    have e1 : dst.off + (i + 1) = (dst.off + i) + 1 := by omega
    rw [e1, take_succ_set x (by omega), List.drop_set_of_lt (by omega)]
    simp only [List.length_cons, List.append_assoc, List.singleton_append]
    congr 3; omega

theorem copyH_frame {h0 h : GHeap α} (F : Frame h0 h) {dst : Slice} (hd : h0.length ≤ dst.arr)
    (xs : List α) : Frame h0 (copyH h dst xs) := copyFrom_frame F hd 0 xs

/-! ### the swap loop -/
theorem swapFrom_own [Inhabited α] {h0 h : GHeap α} {s : Slice} (O : Own h0 h s) (fuel i : Nat) :
    ∀ h', swapFrom s fuel i h = some h' → Own h0 h' s := by
  induction fuel generalizing i h with
  | zero => intro h' e; simp only [swapFrom, Option.some.injEq] at e; exact e ▸ O
  | succ fuel ih =>
    intro h' e
    simp only [swapFrom] at e
    split at e
    · split at e
      · exact ih ⟨setIdx_frame (setIdx_frame O.frame O.fresh _ _) O.fresh _ _, O.fresh,
          setIdx_valid (setIdx_valid O.valid _ _) _ _⟩ _ _ e
      · cases e
    · simp only [Option.some.injEq] at e; exact e ▸ O

theorem swapPairs_cons2 (a b : Byte) (rest : Bytes) :
    Client.swapPairs (a :: b :: rest) = (Client.swapPairs rest).map (fun r => b :: a :: r) := by
  rw [Client.swapPairs]; cases Client.swapPairs rest <;> rfl

theorem swapFrom_load {h : Heap} {s : Slice} (hv : s.Valid h) (fuel : Nat) (pre rest : Bytes)
    (hl : load h s = pre ++ rest) (hf : rest.length / 2 + 1 ≤ fuel) :
    (swapFrom s fuel pre.length h).map (fun h' => load h' s) =
      (Client.swapPairs rest).map (fun r => pre ++ r) := by
  induction fuel generalizing pre rest h with
  | zero => omega
  | succ fuel ih =>
    have hlen := load_length hv
    rw [hl] at hlen
    simp only [List.length_append] at hlen
    match rest, hl, hf, hlen with
    | [], hl, hf, hlen =>
      simp only [List.length_nil] at hlen
      simp [swapFrom, Client.swapPairs, hl, show ¬ pre.length < s.len by omega]
    | [a], hl, hf, hlen =>
      simp only [List.length_cons, List.length_nil] at hlen
      simp [swapFrom, Client.swapPairs, show pre.length < s.len by omega,
        show ¬ pre.length + 1 < s.len by omega]
    | a :: b :: rest', hl, hf, hlen =>
      simp only [List.length_cons] at hlen hf
      have i0 : pre.length < s.len := by omega
      have i1 : pre.length + 1 < s.len := by omega
      simp only [swapFrom, if_pos i0, if_pos i1]
      have ga : getIdx h s pre.length = a := by
        rw [getIdx_eq_load i0, hl]; simp [List.getD_eq_getElem?_getD]
      have gb : getIdx h s (pre.length + 1) = b := by
        rw [getIdx_eq_load i1, hl]; simp [List.getD_eq_getElem?_getD]
      rw [ga, gb]
      have v1 := setIdx_valid (s := s) hv pre.length b
      have v2 := setIdx_valid (s := s) v1 (pre.length + 1) a
      have l1 : load (setIdx h s pre.length b) s = pre ++ b :: b :: rest' := by
        rw [load_setIdx hv _ _ i0, hl]; simp
      have l2 : load (setIdx (setIdx h s pre.length b) s (pre.length + 1) a) s
          = (pre ++ [b, a]) ++ rest' := by
        rw [load_setIdx v1 _ _ i1, l1]; simp
      have := ih v2 (pre ++ [b, a]) rest' l2 (by omega)
      simp only [List.length_append, List.length_cons, List.length_nil] at this
      rw [this, swapPairs_cons2]
      cases Client.swapPairs rest' <;> simp

theorem swapPairsInPlace_spec {h0 h : Heap} {s : Slice} (O : Own h0 h s) :
    (swapPairsInPlace h s).map (fun h' => load h' s) = Client.swapPairs (load h s) ∧
      ∀ h', swapPairsInPlace h s = some h' → Own h0 h' s := by
  refine ⟨?_, swapFrom_own O _ _⟩
  have := swapFrom_load O.valid (s.len + 1) [] (load h s) rfl
    (by rw [load_length O.valid]; omega)
  simpa [swapPairsInPlace] using this

theorem appendByte_frame [Inhabited α] {h0 h : GHeap α} (F : Frame h0 h) {s : Slice}
    (hs : h0.length ≤ s.arr) (x : α) :
    Frame h0 (appendByte h s x).1 ∧ h0.length ≤ (appendByte h s x).2.arr := by
  unfold appendByte
  split
  · exact ⟨writeArr_frame F hs _ _, hs⟩
  · exact ⟨alloc_frame F _, F.1⟩

theorem appendBytes_frame [Inhabited α] {h0 h : GHeap α} (F : Frame h0 h) {s : Slice}
    (hs : h0.length ≤ s.arr) (xs : List α) :
    Frame h0 (appendBytes h s xs).1 ∧ h0.length ≤ (appendBytes h s xs).2.arr := by
  induction xs generalizing h s with
  | nil => exact ⟨F, hs⟩
  | cons x xs ih =>
    rw [appendBytes_cons]
    obtain ⟨F1, S1⟩ := appendByte_frame F hs x
    exact ih F1 S1

/-! ### client.go: writeBytes -/
theorem Own.extend {h0 h h' : GHeap α} {s : Slice} (O : Own h0 h s) (F : Frame h h') : Own h0 h' s :=
  ⟨O.frame.trans F, O.fresh, F.valid_of O.valid⟩

theorem Own.weaken {h0 h1 h : GHeap α} {s : Slice} (O : Own h1 h s) (F : Frame h0 h1) : Own h0 h s :=
  ⟨F.trans O.frame, Nat.le_trans F.1 O.fresh, O.valid⟩

theorem swapPairs_even : (bs : Bytes) → bs.length % 2 = 0 → ∃ r, Client.swapPairs bs = some r
  | [], _ => ⟨[], rfl⟩
  | [_], h => by simp at h
  | a :: b :: rest, h => by
    obtain ⟨r, hr⟩ := swapPairs_even rest (by simp only [List.length_cons] at h; omega)
    exact ⟨b :: a :: r, by rw [swapPairs_cons2, hr]; rfl⟩

/-- value-level result of `writeBytes`' padding and swapping, with the endianness as a Bool -/
theorem writeBytesPayload_little (e : Endian) (observe : Bool) (bs : Bytes) :
    Client.writeBytesPayload e observe bs =
      (if (observe && decide (e = .little)) = true
        then Client.swapPairs (if bs.length % 2 = 1 then bs ++ [0x00] else bs)
        else some (if bs.length % 2 = 1 then bs ++ [0x00] else bs)) := by
  unfold Client.writeBytesPayload
  cases observe <;> by_cases he : e = .little <;> simp [he]

theorem padSwapH_spec {h0 h : Heap} {v : Slice} (O : Own h0 h v) (e : Endian) (observe : Bool) :
    ∃ h' out, padSwapH h v (decide (e = .little)) observe = some (h', out) ∧ Own h0 h' out ∧
      Client.writeBytesPayload e observe (load h v) = some (load h' out) := by
  have hl := load_length O.valid
  -- the padding step
  have pad : ∃ r : Heap × Slice,
      (if v.len % 2 = 1 then appendByte h v 0x00 else (h, v)) = r ∧ Own h0 r.1 r.2 ∧
      load r.1 r.2 = (if (load h v).length % 2 = 1 then load h v ++ [0x00] else load h v) ∧
      r.2.len % 2 = 0 := by
    by_cases hp : v.len % 2 = 1
    · obtain ⟨O1, L1, N1⟩ := appendByte_spec O (0x00 : Byte)
      exact ⟨_, by rw [if_pos hp], O1, by rw [L1, hl, if_pos hp], by rw [N1]; omega⟩
    · exact ⟨_, by rw [if_neg hp], O, by rw [hl, if_neg hp], by show v.len % 2 = 0; omega⟩
  obtain ⟨r, hr, O1, L1, N1⟩ := pad
  rw [writeBytesPayload_little, ← L1]
  unfold padSwapH
  simp only [hr]
  by_cases hc : (observe && decide (e = .little)) = true
  · simp only [hc, if_true]
    obtain ⟨S1, S2⟩ := swapPairsInPlace_spec O1
    obtain ⟨res, hres⟩ := swapPairs_even (load r.1 r.2) (by rw [load_length O1.valid]; exact N1)
    rw [hres] at S1
    cases hs : swapPairsInPlace r.1 r.2 with
    | none => rw [hs] at S1; cases S1
    | some h' =>
      rw [hs] at S1
      simp only [Option.map_some, Option.some.injEq] at S1
      exact ⟨h', r.2, rfl, S2 h' hs, by rw [hres, S1]⟩
  · simp only [hc]
    exact ⟨r.1, r.2, rfl, O1, rfl⟩

theorem writeBytesH_spec (h : Heap) (values : Slice) (hv : values.arr < h.length) (e : Endian)
    (observe : Bool) :
    ∃ h' out, writeBytesH h values (decide (e = .little)) observe = some (h', out) ∧ Own h h' out ∧
      Client.writeBytesPayload e observe (load h values) = some (load h' out) := by
  obtain ⟨O1, L1, _⟩ := makeSlice_spec (α := Byte) (Frame.refl h) 0 (values.len + 1)
  obtain ⟨O2, L2, _⟩ := appendBytes_spec O1 (load (makeSlice h 0 (values.len + 1)).1 values)
  conv at L2 => rhs; rw [L1, O1.frame.load_eq hv]; simp only [List.replicate_zero, List.nil_append]
  obtain ⟨h', out, E, O3, T⟩ := padSwapH_spec O2 e observe
  rw [L2] at T
  exact ⟨h', out, E, O3, T⟩

/-! ### typed list writers -/
theorem appendChunkH_spec {h0 : Heap} {st : Heap × Slice} (O : Own h0 st.1 st.2) (chunk : Bytes) :
    Own h0 (appendChunkH st chunk).1 (appendChunkH st chunk).2 ∧
      load (appendChunkH st chunk).1 (appendChunkH st chunk).2 = load st.1 st.2 ++ chunk := by
  obtain ⟨O1, L1⟩ := freshOf_spec (Frame.refl st.1) chunk
  obtain ⟨O2, L2, _⟩ := appendBytes_spec (O.extend O1.frame) (load (freshOf st.1 chunk).1 (freshOf st.1 chunk).2)
  conv at L2 => rhs; rw [L1, O1.frame.load_eq O.valid.1]
  exact ⟨O2, L2⟩

theorem foldChunks_spec {β : Type} {h0 : Heap} (enc : β → Bytes) (vs : List β) :
    ∀ (st : Heap × Slice), Own h0 st.1 st.2 →
      Own h0 (vs.foldl (fun st v => appendChunkH st (enc v)) st).1
             (vs.foldl (fun st v => appendChunkH st (enc v)) st).2 ∧
      load (vs.foldl (fun st v => appendChunkH st (enc v)) st).1
           (vs.foldl (fun st v => appendChunkH st (enc v)) st).2 = load st.1 st.2 ++ vs.flatMap enc := by
  induction vs with
  | nil => intro st O; exact ⟨O, by simp⟩
  | cons v vs ih =>
    intro st O
    obtain ⟨O1, L1⟩ := appendChunkH_spec O (enc v)
    obtain ⟨O2, L2⟩ := ih _ O1
    exact ⟨O2, by rw [List.foldl_cons, L2, L1]; simp⟩

theorem buildPayloadH_spec {β : Type} (hv : GHeap β) (h : Heap) (values : Slice) (enc : β → Bytes) :
    Own h (buildPayloadH hv h values enc).1 (buildPayloadH hv h values enc).2 ∧
      load (buildPayloadH hv h values enc).1 (buildPayloadH hv h values enc).2 =
        (load hv values).flatMap enc := by
  obtain ⟨O0, L0⟩ := freshOf_spec (Frame.refl h) ([] : Bytes)
  obtain ⟨O1, L1⟩ := foldChunks_spec enc (load hv values) (nilSlice h) O0
  refine ⟨O1, ?_⟩
  unfold buildPayloadH
  rw [L1]; unfold nilSlice; rw [L0]; rfl

/-! ### request assembly -/
theorem writeRegistersH_spec (h : Heap) (addr : U16) (values : Slice) :
    Own h (writeRegistersH h addr values).1 (writeRegistersH h addr values).2 ∧
      (values.arr < h.length →
        load (writeRegistersH h addr values).1 (writeRegistersH h addr values).2 =
          be16 addr ++ be16 (u16OfNat values.len / 2) ++ [byteOfNat (u16OfNat values.len).toNat]
            ++ load h values) := by
  obtain ⟨O0, L0⟩ := freshOf_spec (Frame.refl h) (be16 addr)
  obtain ⟨Oq, Lq⟩ := freshOf_spec (Frame.refl (freshOf h (be16 addr)).1) (be16 (u16OfNat values.len / 2))
  obtain ⟨O1, L1, _⟩ := appendBytes_spec (O0.extend Oq.frame) (load (freshOf (freshOf h (be16 addr)).1 (be16 (u16OfNat values.len / 2))).1 (freshOf (freshOf h (be16 addr)).1 (be16 (u16OfNat values.len / 2))).2)
  obtain ⟨O2, L2, _⟩ := appendByte_spec O1 (byteOfNat (u16OfNat values.len).toNat)
  obtain ⟨O3, L3, _⟩ := appendBytes_spec O2 (load (appendByte _ _ (byteOfNat (u16OfNat values.len).toNat)).1 values)
  refine ⟨O3, fun hv => ?_⟩
  conv at L1 => rhs; rw [Lq, Oq.frame.load_eq O0.valid.1, L0]
  conv at L2 => rhs; rw [L1]
  conv at L3 => rhs; rw [L2, O2.frame.load_eq hv]
  exact L3

theorem writeCoilsH_spec (h : Heap) (addr quantity : U16) (encoded : Slice) :
    Own h (writeCoilsH h addr quantity encoded).1 (writeCoilsH h addr quantity encoded).2 ∧
      (encoded.arr < h.length →
        load (writeCoilsH h addr quantity encoded).1 (writeCoilsH h addr quantity encoded).2 =
          be16 addr ++ be16 quantity ++ [byteOfNat encoded.len] ++ load h encoded) := by
  obtain ⟨O0, L0⟩ := freshOf_spec (Frame.refl h) (be16 addr)
  obtain ⟨Oq, Lq⟩ := freshOf_spec (Frame.refl (freshOf h (be16 addr)).1) (be16 quantity)
  obtain ⟨O1, L1, _⟩ := appendBytes_spec (O0.extend Oq.frame) (load (freshOf (freshOf h (be16 addr)).1 (be16 quantity)).1 (freshOf (freshOf h (be16 addr)).1 (be16 quantity)).2)
  obtain ⟨O2, L2, _⟩ := appendByte_spec O1 (byteOfNat encoded.len)
  obtain ⟨O3, L3, _⟩ := appendBytes_spec O2 (load (appendByte _ _ (byteOfNat encoded.len)).1 encoded)
  refine ⟨O3, fun hv => ?_⟩
  conv at L1 => rhs; rw [Lq, Oq.frame.load_eq O0.valid.1, L0]
  conv at L2 => rhs; rw [L1]
  conv at L3 => rhs; rw [L2, O2.frame.load_eq hv]
  exact L3

theorem twoWordsH_spec (h : Heap) (a b : Bytes) :
    Own h (twoWordsH h a b).1 (twoWordsH h a b).2 ∧
      load (twoWordsH h a b).1 (twoWordsH h a b).2 = a ++ b := by
  obtain ⟨O0, L0⟩ := freshOf_spec (Frame.refl h) a
  obtain ⟨Oq, Lq⟩ := freshOf_spec (Frame.refl (freshOf h a).1) b
  obtain ⟨O1, L1, _⟩ := appendBytes_spec (O0.extend Oq.frame) (load (freshOf (freshOf h a).1 b).1 (freshOf (freshOf h a).1 b).2)
  conv at L1 => rhs; rw [Lq, Oq.frame.load_eq O0.valid.1, L0]
  exact ⟨O1, L1⟩

/-! ### transports -/
theorem assembleMbapH_spec (h : Heap) (txn : U16) (unit fc : Byte) (payload : Slice) :
    Own h (assembleMbapH h txn unit fc payload).1 (assembleMbapH h txn unit fc payload).2 ∧
      (payload.arr < h.length →
        load (assembleMbapH h txn unit fc payload).1 (assembleMbapH h txn unit fc payload).2 =
          be16 txn ++ [0x00, 0x00] ++ be16 (u16OfNat (2 + payload.len)) ++ [unit] ++ [fc]
            ++ load h payload) := by
  obtain ⟨O0, L0⟩ := freshOf_spec (Frame.refl h) (be16 txn)
  obtain ⟨O1, L1, _⟩ := appendBytes_spec O0 [(0x00 : Byte), 0x00]
  obtain ⟨Ol, Ll⟩ := freshOf_spec (Frame.refl (appendBytes (freshOf h (be16 txn)).1 (freshOf h (be16 txn)).2 [(0x00 : Byte), 0x00]).1)
    (be16 (u16OfNat (2 + payload.len)))
  obtain ⟨O2, L2, _⟩ := appendBytes_spec (O1.extend Ol.frame)
    (load (freshOf (appendBytes (freshOf h (be16 txn)).1 (freshOf h (be16 txn)).2 [(0x00 : Byte), 0x00]).1 (be16 (u16OfNat (2 + payload.len)))).1
      (freshOf (appendBytes (freshOf h (be16 txn)).1 (freshOf h (be16 txn)).2 [(0x00 : Byte), 0x00]).1 (be16 (u16OfNat (2 + payload.len)))).2)
  obtain ⟨O3, L3, _⟩ := appendByte_spec O2 unit
  obtain ⟨O4, L4, _⟩ := appendByte_spec O3 fc
  obtain ⟨O5, L5, _⟩ := appendBytes_spec O4 (load (appendByte _ _ fc).1 payload)
  refine ⟨O5, fun hv => ?_⟩
  conv at L1 => rhs; rw [L0]
  conv at L2 => rhs; rw [Ll, Ol.frame.load_eq O1.valid.1, L1]
  conv at L3 => rhs; rw [L2]
  conv at L4 => rhs; rw [L3]
  conv at L5 => rhs; rw [L4, O4.frame.load_eq hv]
  exact L5

theorem assembleRtuH_spec (h : Heap) (unit fc : Byte) (payload : Slice) :
    Own h (assembleRtuH h unit fc payload).1 (assembleRtuH h unit fc payload).2 ∧
      (payload.arr < h.length →
        load (assembleRtuH h unit fc payload).1 (assembleRtuH h unit fc payload).2 =
          ([unit] ++ [fc] ++ load h payload) ++ Crc.crc16 ([unit] ++ [fc] ++ load h payload)) := by
  let a0 := nilSlice (α := Byte) h
  let a1 := appendByte a0.1 a0.2 unit
  let a2 := appendByte a1.1 a1.2 fc
  let a3 := appendBytes a2.1 a2.2 (load a2.1 payload)
  let c := freshOf a3.1 (Crc.value (Crc.add Crc.init (load a3.1 a3.2)))
  obtain ⟨O0, L0⟩ : Own h a0.1 a0.2 ∧ load a0.1 a0.2 = [] := freshOf_spec (Frame.refl h) ([] : Bytes)
  obtain ⟨O1, L1, _⟩ : Own h a1.1 a1.2 ∧ load a1.1 a1.2 = load a0.1 a0.2 ++ [unit] ∧ _ := appendByte_spec O0 unit
  obtain ⟨O2, L2, _⟩ : Own h a2.1 a2.2 ∧ load a2.1 a2.2 = load a1.1 a1.2 ++ [fc] ∧ _ := appendByte_spec O1 fc
  obtain ⟨O3, L3, _⟩ : Own h a3.1 a3.2 ∧ load a3.1 a3.2 = load a2.1 a2.2 ++ load a2.1 payload ∧ _ :=
    appendBytes_spec O2 (load a2.1 payload)
  obtain ⟨Oc, Lc⟩ : Own a3.1 c.1 c.2 ∧ load c.1 c.2 = Crc.value (Crc.add Crc.init (load a3.1 a3.2)) :=
    freshOf_spec (Frame.refl a3.1) _
  obtain ⟨O4, L4, _⟩ := appendBytes_spec (O3.extend Oc.frame) (load c.1 c.2)
  refine ⟨O4, fun hv => ?_⟩
  refine Eq.trans L4 ?_
  rw [Lc, Oc.frame.load_eq O3.valid.1, L3, L2, L1, L0, O2.frame.load_eq hv]
  rfl

/-! ### read side -/
theorem copyFrom_length {h : GHeap α} {dst : Slice} (i : Nat) (xs : List α) :
    (copyFrom dst i xs h).length = h.length := by
  induction xs generalizing i h with
  | nil => rfl
  | cons x xs ih =>
    simp only [copyFrom]
    split
    · rw [ih]; exact writeArr_length _ _ _ _
    · rfl

theorem makeSlice_arr [Inhabited α] (h : GHeap α) (l c : Nat) :
    arrAt (makeSlice h l c).1 h.length = List.replicate (max l c) default := by
  simp [makeSlice, alloc, arrAt_snoc]

theorem recvFrameH_frame (h : Heap) (wire : Bytes) :
    Frame h (recvFrameH h wire).1 ∧ (recvFrameH h wire).2.arr = h.length ∧
      h.length < (recvFrameH h wire).1.length := by
  obtain ⟨Om, _, _⟩ := makeSlice_spec (α := Byte) (Frame.refl h) wire.length wire.length
  refine ⟨copyH_frame Om.frame Om.fresh wire, rfl, ?_⟩
  show h.length < (copyFrom _ 0 wire _).length
  rw [copyFrom_length]; simp [makeSlice, alloc]

theorem recvFrameH_spec (h : Heap) (wire : Bytes) (hw : 1 ≤ wire.length) :
    Own h (recvFrameH h wire).1 (recvFrameH h wire).2 ∧
      load (recvFrameH h wire).1 (recvFrameH h wire).2 = wire.drop 1 := by
  let m := makeSlice (α := Byte) h wire.length wire.length
  obtain ⟨Om, _, _⟩ : Own h m.1 m.2 ∧ _ ∧ _ := makeSlice_spec (Frame.refl h) wire.length wire.length
  have hcap : m.2.cap = wire.length := by simp [m, makeSlice]
  have hlen : m.2.len = wire.length := rfl
  have hoff : m.2.off = 0 := rfl
  have harr : m.2.arr = h.length := rfl
  have A := copyFrom_arr Om.valid 0 wire (by rw [hlen]; omega)
  rw [harr, makeSlice_arr] at A
  simp only [hoff, Nat.max_self, Nat.add_zero, List.take_zero, List.nil_append, Nat.zero_add,
    List.drop_replicate, Nat.sub_self, List.replicate_zero, List.append_nil] at A
  refine ⟨⟨(recvFrameH_frame h wire).1, Nat.le_refl _, ?_⟩, ?_⟩
  · exact copyFrom_valid (subslice_valid Om.valid (by rw [hlen]; exact hw) (by rw [hlen, hcap]; omega)) _ _
  · show ((arrAt (copyFrom m.2 0 wire m.1) h.length).drop (0 + 1)).take (wire.length - 1) = wire.drop 1
    rw [A]
    apply List.take_of_length_le; simp

theorem recvRtuFrameH_frame (h : Heap) (wire : Bytes) :
    Frame h (recvRtuFrameH h wire).1 ∧ (recvRtuFrameH h wire).2.arr = h.length ∧
      h.length < (recvRtuFrameH h wire).1.length := by
  obtain ⟨Om, _, _⟩ := makeSlice_spec (α := Byte) (Frame.refl h) Rtu.maxRTUFrameLength Rtu.maxRTUFrameLength
  have f1 : h.length ≤ (subslice (makeSlice (α := Byte) h Rtu.maxRTUFrameLength Rtu.maxRTUFrameLength).2 0 3).arr := Om.fresh
  have f2 : h.length ≤ (subslice (makeSlice (α := Byte) h Rtu.maxRTUFrameLength Rtu.maxRTUFrameLength).2 3 wire.length).arr := Om.fresh
  refine ⟨copyH_frame (copyH_frame Om.frame f1 _) f2 _, rfl, ?_⟩
  show h.length < (copyFrom _ 0 _ (copyFrom _ 0 _ _)).length
  rw [copyFrom_length, copyFrom_length]; simp [makeSlice, alloc]

theorem mkValid {h : GHeap α} {a o l c : Nat} (ha : a < h.length) (hl : l ≤ c)
    (hc : o + c ≤ (arrAt h a).length) : Slice.Valid h ⟨a, o, l, c⟩ := ⟨ha, hl, hc⟩

theorem recvRtu_aux (h : Heap) (wire : Bytes) (N : Nat) (hw : 4 ≤ wire.length) (hN : wire.length ≤ N) :
    (subslice (makeSlice (α := Byte) h N N).2 2 (wire.length - 2)).Valid
        (copyH (copyH (makeSlice h N N).1 (subslice (makeSlice (α := Byte) h N N).2 0 3) (wire.take 3))
          (subslice (makeSlice (α := Byte) h N N).2 3 wire.length) (wire.drop 3)) ∧
      load (copyH (copyH (makeSlice h N N).1 (subslice (makeSlice (α := Byte) h N N).2 0 3) (wire.take 3))
          (subslice (makeSlice (α := Byte) h N N).2 3 wire.length) (wire.drop 3))
        (subslice (makeSlice (α := Byte) h N N).2 2 (wire.length - 2)) =
      (wire.drop 2).take (wire.length - 4) := by
  obtain ⟨Om, -, -⟩ := makeSlice_spec (α := Byte) (Frame.refl h) N N
  have hm : (makeSlice (α := Byte) h N N).2 = ⟨h.length, 0, N, N⟩ := by simp [makeSlice]
  have hA := makeSlice_arr (α := Byte) h N N
  rw [Nat.max_self] at hA
  rw [hm] at Om ⊢
  generalize (makeSlice (α := Byte) h N N).1 = m1 at *
  have e1 : subslice ⟨h.length, 0, N, N⟩ 0 3 = ⟨h.length, 0, 3, N⟩ := by simp [subslice]
  have e2 : subslice ⟨h.length, 0, N, N⟩ 3 wire.length = ⟨h.length, 3, wire.length - 3, N - 3⟩ := by
    simp [subslice]
  have e3 : subslice ⟨h.length, 0, N, N⟩ 2 (wire.length - 2) = ⟨h.length, 2, wire.length - 4, N - 2⟩ := by
    simp only [subslice, Slice.mk.injEq, true_and, and_true]; omega
  rw [e1, e2, e3]
  have v0 := Om.valid
  have ha : h.length < m1.length := v0.1
  have hN' : N ≤ (arrAt m1 h.length).length := by have := v0.2.2; simpa using this
  have v1 : Slice.Valid m1 ⟨h.length, 0, 3, N⟩ := mkValid ha (by omega) (by omega)
  have l3 : (wire.take 3).length = 3 := by simp; omega
  have A1 : arrAt (copyH m1 ⟨h.length, 0, 3, N⟩ (wire.take 3)) h.length
      = wire.take 3 ++ List.replicate (N - 3) 0 := by
    have := copyFrom_arr v1 0 (wire.take 3) (by rw [l3]; exact Nat.le_refl _)
    refine this.trans ?_
    simp only [hA, l3, Nat.add_zero, List.take_zero, List.nil_append, Nat.zero_add,
      List.drop_replicate]
    rfl
  have v2 : Slice.Valid (copyH m1 ⟨h.length, 0, 3, N⟩ (wire.take 3)) ⟨h.length, 3, wire.length - 3, N - 3⟩ := by
    exact copyFrom_valid (mkValid ha (by omega) (by omega)) _ _
  have A2 : arrAt (copyH (copyH m1 ⟨h.length, 0, 3, N⟩ (wire.take 3))
        ⟨h.length, 3, wire.length - 3, N - 3⟩ (wire.drop 3)) h.length
      = wire ++ List.replicate (N - wire.length) 0 := by
    have := copyFrom_arr v2 0 (wire.drop 3) (by simp)
    refine this.trans ?_
    simp only [A1, Nat.add_zero, List.length_drop]
    have t1 : List.take 3 (wire.take 3 ++ List.replicate (N - 3) (0 : Byte)) = wire.take 3 :=
      List.take_left' l3
    have t2 : List.drop (3 + (wire.length - 3)) (wire.take 3 ++ List.replicate (N - 3) (0 : Byte))
        = List.replicate (N - wire.length) 0 := by
      rw [List.drop_append, List.drop_of_length_le (l := wire.take 3) (by omega), l3,
        List.drop_replicate, List.nil_append]
      congr 1; omega
    rw [t1, t2, List.take_append_drop]
  refine ⟨copyFrom_valid (copyFrom_valid (mkValid ha (by omega) (by omega)) _ _) _ _, ?_⟩
  · show ((arrAt _ h.length).drop 2).take (wire.length - 4) = _
    rw [A2, List.drop_append, List.take_append_of_le_length (by simp; omega)]

theorem recvRtuFrameH_spec (h : Heap) (wire : Bytes) (hw : 4 ≤ wire.length)
    (hw' : wire.length ≤ Rtu.maxRTUFrameLength) :
    Own h (recvRtuFrameH h wire).1 (recvRtuFrameH h wire).2 ∧
      load (recvRtuFrameH h wire).1 (recvRtuFrameH h wire).2 = (wire.drop 2).take (wire.length - 4) := by
  obtain ⟨V, L⟩ := recvRtu_aux h wire Rtu.maxRTUFrameLength hw hw'
  exact ⟨⟨(recvRtuFrameH_frame h wire).1, Nat.le_refl _, V⟩, L⟩

theorem readBytesPostH_spec {h0 h : Heap} {v : Slice} (O : Own h0 h v) (e : Endian)
    (observe odd : Bool) :
    (∀ h' out, readBytesPostH h v (decide (e = .little)) observe odd = some (h', out) →
        Frame h0 h' ∧ out.arr = v.arr) ∧
      (readBytesPostH h v (decide (e = .little)) observe odd).map (fun r => load r.1 r.2) =
        (if (observe && decide (e = .little)) = true then Client.swapPairs (load h v)
          else some (load h v)).map (fun x => if odd = true then x.take (x.length - 1) else x) := by
  have key : ∀ h', Own h0 h' v →
      load h' (if odd = true then subslice v 0 (v.len - 1) else v) =
        (fun x : Bytes => if odd = true then x.take (x.length - 1) else x) (load h' v) := by
    intro h' O'
    cases odd
    · rfl
    · simp only [if_true]
      rw [subslice_load _ _ _ (by omega), load_length O'.valid]; rfl
  have harr : (if odd = true then subslice v 0 (v.len - 1) else v).arr = v.arr := by
    cases odd <;> rfl
  unfold readBytesPostH
  by_cases hc : (observe && decide (e = .little)) = true
  · simp only [hc, if_true]
    obtain ⟨S1, S2⟩ := swapPairsInPlace_spec O
    cases hs : swapPairsInPlace h v with
    | none => rw [hs] at S1; rw [← S1]; simp
    | some h' =>
      rw [hs] at S1
      refine ⟨?_, ?_⟩
      · intro h'' out eq
        simp only [Option.map_some, Option.some.injEq, Prod.mk.injEq] at eq
        obtain ⟨rfl, rfl⟩ := eq
        exact ⟨(S2 _ hs).frame, harr⟩
      · rw [← S1]; simp only [Option.map_some]; rw [key _ (S2 _ hs)]
  · simp only [hc, Bool.false_eq_true, if_false]
    refine ⟨?_, ?_⟩
    · intro h'' out eq
      simp only [Option.map_some, Option.some.injEq, Prod.mk.injEq] at eq
      obtain ⟨rfl, rfl⟩ := eq
      exact ⟨O.frame, harr⟩
    · simp only [Option.map_some]; rw [key _ O]

theorem decodeAppendH_spec {β : Type} [Inhabited β] (h : Heap) (src : Slice)
    (dec : Bytes → Option (List β)) (hv : GHeap β) :
    ∀ r, decodeAppendH h src dec hv = some r →
      Own hv r.1 r.2 ∧ dec (load h src) = some (load r.1 r.2) := by
  intro r hr
  unfold decodeAppendH at hr
  cases hd : dec (load h src) with
  | none => rw [hd] at hr; cases hr
  | some vs =>
    rw [hd] at hr
    simp only [Option.map_some, Option.some.injEq] at hr
    subst hr
    obtain ⟨O0, L0⟩ := freshOf_spec (Frame.refl hv) ([] : List β)
    obtain ⟨O1, L1, _⟩ := appendBytes_spec O0 vs
    refine ⟨O1, ?_⟩
    exact congrArg some (L1.trans (by rw [L0]; rfl)).symm

/-! ### encodeBools -/
theorem encodeBoolsLoop_own {h0 h : Heap} {out : Slice} (O : Own h0 h out) (i : Nat) (bs : List Bool) :
    Own h0 (encodeBoolsLoop out i bs h) out := by
  induction bs generalizing i h with
  | nil => exact O
  | cons b bs ih =>
    simp only [encodeBoolsLoop]
    cases b
    · exact ih O _
    · exact ih ⟨setIdx_frame O.frame O.fresh _ _, O.fresh, setIdx_valid O.valid _ _⟩ _

theorem getD_set_eq {l : List α} {a j : Nat} {v d : α} (ha : a < l.length) :
    (l.set a v).getD j d = if j = a then v else l.getD j d := by
  simp only [List.getD_eq_getElem?_getD, List.getElem?_set]
  by_cases e : a = j
  · subst e; simp [ha]
  · have : ¬ j = a := fun e' => e e'.symm
    simp [e, this]

theorem bit_or_one (x : Byte) (m k : Nat) (hk : k < 8) :
    (x ||| ((0x01 : Byte) <<< m)).getLsbD k = (x.getLsbD k || decide (k = m)) := by
  rw [BitVec.getLsbD_or, BitVec.getLsbD_shiftLeft]
  have : (0x01 : Byte) = 1#8 := rfl
  rw [this, BitVec.getLsbD_one]
  by_cases e : k = m
  · subst e; simp [hk]
  · by_cases l : k < m
    · simp [e, l]
    · have : k - m ≠ 0 := by omega
      simp [e, this]

theorem encodeBoolsLoop_bits {h : Heap} {out : Slice} (hv : out.Valid h) (i : Nat) (bs : List Bool)
    (hb : i + bs.length ≤ 8 * out.len) (j k : Nat) (hk : k < 8) :
    ((load (encodeBoolsLoop out i bs h) out).getD j 0).getLsbD k =
      (((load h out).getD j 0).getLsbD k || (decide (i ≤ 8 * j + k) && bs.getD (8 * j + k - i) false)) := by
  induction bs generalizing i h with
  | nil => simp [encodeBoolsLoop]
  | cons b bs ih =>
    simp only [List.length_cons] at hb
    simp only [encodeBoolsLoop]
    have hi : i / 8 < out.len := by omega
    have step : ((load (if b = true then setIdx h out (i / 8)
          (getIdx h out (i / 8) ||| ((0x01 : Byte) <<< (i % 8))) else h) out).getD j 0).getLsbD k
        = (((load h out).getD j 0).getLsbD k || (b && decide (8 * j + k = i))) := by
      cases b
      · simp
      · simp only [if_true, Bool.true_and]
        rw [load_setIdx hv _ _ hi, getD_set_eq (by rw [load_length hv]; exact hi), getIdx_eq_load hi]
        by_cases e : j = i / 8
        · subst e
          rw [if_pos rfl, bit_or_one _ _ _ hk]
          congr 1
          have : (k = i % 8) ↔ (8 * (i / 8) + k = i) := by omega
          exact decide_eq_decide.mpr this
        · rw [if_neg e]
          have : ¬ 8 * j + k = i := by omega
          simp [this]
    have v' : out.Valid (if b = true then setIdx h out (i / 8)
          (getIdx h out (i / 8) ||| ((0x01 : Byte) <<< (i % 8))) else h) := by
      cases b
      · exact hv
      · exact setIdx_valid hv _ _
    rw [ih v' (i + 1) (by omega), step]
    by_cases e : 8 * j + k = i
    · have l'' : ¬ i + 1 ≤ i := by omega
      simp [e, l'']
    · by_cases l : i ≤ 8 * j + k
      · have l' : i + 1 ≤ 8 * j + k := by omega
        obtain ⟨d, hd⟩ : ∃ d, 8 * j + k - i = d + 1 := ⟨8 * j + k - i - 1, by omega⟩
        have hd' : 8 * j + k - (i + 1) = d := by omega
        simp [e, l, l', hd, hd']
      · have l' : ¬ i + 1 ≤ 8 * j + k := by omega
        simp [e, l, l']

theorem ext_getD {l1 l2 : List α} (d : α) (hl : l1.length = l2.length)
    (hg : ∀ j, l1.getD j d = l2.getD j d) : l1 = l2 := by
  apply List.ext_getElem hl
  intro i h1 h2
  have := hg i
  simpa [List.getD_eq_getElem?_getD, h1, h2] using this

theorem encodeBoolsH_spec (hv : GHeap Bool) (h : Heap) (values : Slice) :
    Own h (encodeBoolsH hv h values).1 (encodeBoolsH hv h values).2 ∧
      (values.Valid hv →
        load (encodeBoolsH hv h values).1 (encodeBoolsH hv h values).2 =
          Enc.encodeBools (load hv values)) := by
  let n := values.len / 8 + (if values.len % 8 ≠ 0 then 1 else 0)
  obtain ⟨Om, Lm, Nm⟩ : Own h (makeSlice (α := Byte) h n n).1 (makeSlice (α := Byte) h n n).2 ∧ _ ∧ _ :=
    makeSlice_spec (Frame.refl h) n n
  have O1 := encodeBoolsLoop_own Om 0 (load hv values)
  refine ⟨O1, fun hval => ?_⟩
  have hl := load_length hval
  have hn : n = (values.len + 7) / 8 := by
    show values.len / 8 + (if values.len % 8 ≠ 0 then 1 else 0) = _
    split <;> omega
  apply ext_getD (0 : Byte)
  · refine (load_length O1.valid).trans ?_
    rw [EncLemmas.encodeBools_length, hl]; exact Nm.trans hn
  · intro j
    apply BitVec.eq_of_getLsbD_eq
    intro k hk
    have := encodeBoolsLoop_bits Om.valid 0 (load hv values) (by rw [hl, Nm]; omega) j k hk
    refine this.trans ?_
    rw [Lm, EncLemmas.encodeBools_bit _ _ _ hk]
    have z : ((List.replicate n (default : Byte)).getD j 0).getLsbD k = false := by
      have d0 : (default : Byte) = 0 := rfl
      simp only [List.getD_eq_getElem?_getD, List.getElem?_replicate, d0]
      split <;> simp
    rw [z]; simp


/-! ### frame-only versions (no validity assumptions on the slices involved) -/
theorem swapFrom_frame [Inhabited α] {h0 h : GHeap α} {s : Slice} (F : Frame h0 h)
    (hf : h0.length ≤ s.arr) (fuel i : Nat) :
    ∀ h', swapFrom s fuel i h = some h' → Frame h0 h' ∧ h'.length = h.length := by
  induction fuel generalizing i h with
  | zero => intro h' e; simp only [swapFrom, Option.some.injEq] at e; exact e ▸ ⟨F, rfl⟩
  | succ fuel ih =>
    intro h' e
    simp only [swapFrom] at e
    split at e
    · split at e
      · obtain ⟨F', L'⟩ := ih (setIdx_frame (setIdx_frame F hf _ _) hf _ _) _ _ e
        exact ⟨F', by rw [L']; simp [setIdx, writeArr_length]⟩
      · cases e
    · simp only [Option.some.injEq] at e; exact e ▸ ⟨F, rfl⟩

theorem readBytesPostH_frame {h0 h : Heap} {v : Slice} (F : Frame h0 h) (hf : h0.length ≤ v.arr)
    (little observe odd : Bool) :
    ∀ r, readBytesPostH h v little observe odd = some r →
      Frame h0 r.1 ∧ r.1.length = h.length ∧ r.2.arr = v.arr := by
  intro r hr
  have harr : (if odd = true then subslice v 0 (v.len - 1) else v).arr = v.arr := by
    cases odd <;> rfl
  unfold readBytesPostH at hr
  by_cases hc : (observe && little) = true
  · simp only [hc, if_true] at hr
    cases hs : swapPairsInPlace h v with
    | none => rw [hs] at hr; cases hr
    | some h' =>
      rw [hs] at hr
      simp only [Option.map_some, Option.some.injEq] at hr
      subst hr
      obtain ⟨F', L'⟩ := swapFrom_frame F hf _ _ _ hs
      exact ⟨F', L', harr⟩
  · simp only [hc, Bool.false_eq_true, if_false, Option.map_some, Option.some.injEq] at hr
    subst hr
    exact ⟨F, rfl, harr⟩

theorem writeBytesH_own (h : Heap) (values : Slice) (e : Endian) (observe : Bool) :
    ∃ h' out, writeBytesH h values (decide (e = .little)) observe = some (h', out) ∧ Own h h' out ∧
      Client.writeBytesPayload e observe (load (makeSlice (α := Byte) h 0 (values.len + 1)).1 values)
        = some (load h' out) := by
  obtain ⟨O1, L1, _⟩ := makeSlice_spec (α := Byte) (Frame.refl h) 0 (values.len + 1)
  obtain ⟨O2, L2, _⟩ := appendBytes_spec O1 (load (makeSlice h 0 (values.len + 1)).1 values)
  conv at L2 => rhs; rw [L1]; simp only [List.replicate_zero, List.nil_append]
  obtain ⟨h', out, E, O3, T⟩ := padSwapH_spec O2 e observe
  rw [L2] at T
  exact ⟨h', out, E, O3, T⟩

/-! ### call histories -/

/-- a slice handed out by a call: on an array allocated after `h`, inside `h'` -/
def NewIn (h h' : GHeap α) (o : Option Slice) : Prop :=
  ∀ s, o = some s → h.length ≤ s.arr ∧ s.arr < h'.length

theorem recvMbapAduH_frame (h : Heap) (adu : Bytes) :
    Frame h (recvMbapAduH h adu).1 ∧ h.length ≤ (recvMbapAduH h adu).2.arr ∧
      (recvMbapAduH h adu).2.arr < (recvMbapAduH h adu).1.length := by
  obtain ⟨Om, _, _⟩ := makeSlice_spec (α := Byte) (Frame.refl h) Mbap.mbapHeaderLength Mbap.mbapHeaderLength
  have F1 := copyH_frame Om.frame Om.fresh (adu.take Mbap.mbapHeaderLength)
  obtain ⟨F2, A2, L2⟩ := recvFrameH_frame
    (copyH (makeSlice h Mbap.mbapHeaderLength Mbap.mbapHeaderLength).1
      (makeSlice h Mbap.mbapHeaderLength Mbap.mbapHeaderLength).2 (adu.take Mbap.mbapHeaderLength))
    (adu.drop Mbap.mbapHeaderLength)
  refine ⟨F1.trans F2, ?_, ?_⟩
  · show h.length ≤ (recvFrameH _ _).2.arr
    rw [A2]; exact F1.1
  · show (recvFrameH _ _).2.arr < (recvFrameH _ _).1.length
    rw [A2]; exact L2

theorem exchangeH_frame (h : Heap) (env : Env) (fc : Byte) (payload : Slice) :
    Frame h (exchangeH h env fc payload).1 ∧
      NewIn h (exchangeH h env fc payload).1 (exchangeH h env fc payload).2 := by
  have fold : ∀ (frames : List Bytes) (acc : Heap × Option Slice), Frame h acc.1 → NewIn h acc.1 acc.2 →
      Frame h (frames.foldl (fun acc wire =>
        ((if env.rtu = true then recvRtuFrameH acc.1 wire else recvMbapAduH acc.1 wire).1,
          some (if env.rtu = true then recvRtuFrameH acc.1 wire else recvMbapAduH acc.1 wire).2)) acc).1 ∧
      NewIn h (frames.foldl (fun acc wire =>
        ((if env.rtu = true then recvRtuFrameH acc.1 wire else recvMbapAduH acc.1 wire).1,
          some (if env.rtu = true then recvRtuFrameH acc.1 wire else recvMbapAduH acc.1 wire).2)) acc).1
        (frames.foldl (fun acc wire =>
        ((if env.rtu = true then recvRtuFrameH acc.1 wire else recvMbapAduH acc.1 wire).1,
          some (if env.rtu = true then recvRtuFrameH acc.1 wire else recvMbapAduH acc.1 wire).2)) acc).2 := by
    intro frames
    induction frames with
    | nil => intro acc F N; exact ⟨F, N⟩
    | cons wire frames ih =>
      intro acc F N
      rw [List.foldl_cons]
      apply ih
      · cases env.rtu
        · exact F.trans (recvMbapAduH_frame _ _).1
        · exact F.trans (recvRtuFrameH_frame _ _).1
      · intro s hs
        simp only [Option.some.injEq] at hs
        subst hs
        cases env.rtu
        · obtain ⟨F', A, L⟩ := recvMbapAduH_frame acc.1 wire
          exact ⟨Nat.le_trans F.1 A, L⟩
        · obtain ⟨F', A, L⟩ := recvRtuFrameH_frame acc.1 wire
          exact ⟨by show h.length ≤ (recvRtuFrameH acc.1 wire).2.arr; rw [A]; exact F.1,
                 by show (recvRtuFrameH acc.1 wire).2.arr < _; rw [A]; exact L⟩
  have F0 : Frame h (if env.rtu = true then assembleRtuH h env.unit fc payload
      else assembleMbapH h env.txn env.unit fc payload).1 := by
    cases env.rtu
    · exact (assembleMbapH_spec h env.txn env.unit fc payload).1.frame
    · exact (assembleRtuH_spec h env.unit fc payload).1.frame
  exact fold env.frames (_, none) F0 (fun s hs => by cases hs)

theorem sendRegsH_frame (h : Heap) (env : Env) (addr : U16) (payload : Slice) :
    Frame h (sendRegsH h env addr payload) := by
  unfold sendRegsH
  cases env.checksPass
  · exact Frame.refl h
  · exact (writeRegistersH_spec h addr payload).1.frame.trans (exchangeH_frame _ env 0x10 _).1

theorem readCoreH_frame (h : Heap) (env : Env) (fc : Byte) (addr qty : U16) :
    Frame h (readCoreH h env fc addr qty).1 ∧
      NewIn h (readCoreH h env fc addr qty).1 (readCoreH h env fc addr qty).2 := by
  unfold readCoreH
  cases env.checksPass
  · exact ⟨Frame.refl h, fun s hs => by cases hs⟩
  · obtain ⟨O, _⟩ := twoWordsH_spec h (be16 addr) (be16 qty)
    obtain ⟨F, N⟩ := exchangeH_frame (twoWordsH h (be16 addr) (be16 qty)).1 env fc
      (twoWordsH h (be16 addr) (be16 qty)).2
    refine ⟨O.frame.trans F, ?_⟩
    intro s hs
    simp only [if_true] at hs
    by_cases ha : env.accepted = true
    · rw [if_pos ha] at hs
      cases hx : (exchangeH (twoWordsH h (be16 addr) (be16 qty)).1 env fc
          (twoWordsH h (be16 addr) (be16 qty)).2).2 with
      | none => rw [hx] at hs; cases hs
      | some t =>
        rw [hx] at hs
        simp only [Option.map_some, Option.some.injEq] at hs
        subst hs
        obtain ⟨a, b⟩ := N t hx
        exact ⟨Nat.le_trans O.frame.1 a, b⟩
    · rw [if_neg ha] at hs; cases hs

theorem decodeStep_frame {β : Type} [Inhabited β] (h : Heap) (src : Option Slice)
    (dec : Bytes → Option (List β)) (hv : GHeap β) :
    Frame hv (decodeStep h src dec hv).1 ∧
      ∀ s, (decodeStep h src dec hv).2 = some s → s.arr < (decodeStep h src dec hv).1.length := by
  unfold decodeStep
  split
  · exact ⟨Frame.refl hv, fun s hs => by cases hs⟩
  · split
    · exact ⟨Frame.refl hv, fun s hs => by cases hs⟩
    · rename_i r hd
      obtain ⟨O, _⟩ := decodeAppendH_spec h _ dec hv r hd
      refine ⟨O.frame, fun s hs => ?_⟩
      simp only [Option.some.injEq] at hs
      subst hs
      exact O.valid.1

/-- every array of every heap of `w` is still there in `w'`, unchanged -/
def WFrame (w w' : World) : Prop :=
  Frame w.bytes w'.bytes ∧ Frame w.u16s w'.u16s ∧ Frame w.u32s w'.u32s ∧
    Frame w.u64s w'.u64s ∧ Frame w.bools w'.bools

theorem WFrame.refl (w : World) : WFrame w w :=
  ⟨Frame.refl _, Frame.refl _, Frame.refl _, Frame.refl _, Frame.refl _⟩
theorem WFrame.trans {a b c : World} (x : WFrame a b) (y : WFrame b c) : WFrame a c :=
  ⟨x.1.trans y.1, x.2.1.trans y.2.1, x.2.2.1.trans y.2.2.1, x.2.2.2.1.trans y.2.2.2.1,
    x.2.2.2.2.trans y.2.2.2.2⟩

/-- the returned slice points into an existing array -/
def Ref.Live (w : World) : Ref → Prop
  | .none => True
  | .bytes s => s.arr < w.bytes.length
  | .u16s s => s.arr < w.u16s.length
  | .u32s s => s.arr < w.u32s.length
  | .u64s s => s.arr < w.u64s.length
  | .bools s => s.arr < w.bools.length

/-- the whole backing array of the returned slice is the same in both memories -/
def Ref.Same (w w' : World) : Ref → Prop
  | .none => True
  | .bytes s => arrAt w'.bytes s.arr = arrAt w.bytes s.arr
  | .u16s s => arrAt w'.u16s s.arr = arrAt w.u16s s.arr
  | .u32s s => arrAt w'.u32s s.arr = arrAt w.u32s s.arr
  | .u64s s => arrAt w'.u64s s.arr = arrAt w.u64s s.arr
  | .bools s => arrAt w'.bools s.arr = arrAt w.bools s.arr

theorem WFrame.same {w w' : World} (F : WFrame w w') {r : Ref} (hl : r.Live w) : r.Same w w' := by
  cases r with
  | none => trivial
  | bytes s => exact F.1.2 _ hl
  | u16s s => exact F.2.1.2 _ hl
  | u32s s => exact F.2.2.1.2 _ hl
  | u64s s => exact F.2.2.2.1.2 _ hl
  | bools s => exact F.2.2.2.2.2 _ hl

theorem Ref.Same.view {w w' : World} {r : Ref} (hs : r.Same w w') : r.view w' = r.view w := by
  cases r <;> simp only [Ref.view, load] <;> first | rfl | (rw [show arrAt _ _ = arrAt _ _ from hs])

theorem step_frame (w : World) (env : Env) (c : Call) :
    WFrame w (step w env c).1 ∧ (step w env c).2.Live (step w env c).1 := by
  have R := WFrame.refl w
  cases c with
  | writeBytes values observe addr =>
    obtain ⟨h', out, E, O, _⟩ := writeBytesH_own w.bytes values env.endian observe
    simp only [step, E]
    exact ⟨⟨O.frame.trans (sendRegsH_frame _ _ _ _), R.2⟩, trivial⟩
  | writeU16s values addr =>
    exact ⟨⟨(buildPayloadH_spec _ _ _ _).1.frame.trans (sendRegsH_frame _ _ _ _), R.2⟩, trivial⟩
  | writeU32s values addr =>
    exact ⟨⟨(buildPayloadH_spec _ _ _ _).1.frame.trans (sendRegsH_frame _ _ _ _), R.2⟩, trivial⟩
  | writeU64s values addr =>
    exact ⟨⟨(buildPayloadH_spec _ _ _ _).1.frame.trans (sendRegsH_frame _ _ _ _), R.2⟩, trivial⟩
  | writeCoils values addr =>
    simp only [step]
    cases env.checksPass
    · exact ⟨R, trivial⟩
    · exact ⟨⟨((encodeBoolsH_spec _ _ _).1.frame.trans (writeCoilsH_spec _ _ _ _).1.frame).trans
        (exchangeH_frame _ _ _ _).1, R.2⟩, trivial⟩
  | writeScalarRegs chunk addr =>
    exact ⟨⟨(freshOf_spec (Frame.refl _) chunk).1.frame.trans (sendRegsH_frame _ _ _ _), R.2⟩, trivial⟩
  | writeSingle fc a b =>
    exact ⟨⟨(twoWordsH_spec _ a b).1.frame.trans (exchangeH_frame _ _ _ _).1, R.2⟩, trivial⟩
  | readBytes fc addr qty observe =>
    obtain ⟨F, N⟩ := readCoreH_frame w.bytes env fc addr ((qty / 2) + (qty % 2))
    simp only [step]
    split
    · exact ⟨⟨F, R.2⟩, trivial⟩
    · rename_i s hr
      obtain ⟨a, b⟩ := N s hr
      split
      · exact ⟨⟨F, R.2⟩, trivial⟩
      · rename_i p hp
        obtain ⟨F', L', A'⟩ := readBytesPostH_frame F a _ _ _ p hp
        exact ⟨⟨F', R.2⟩, by show p.2.arr < p.1.length; rw [A', L']; exact b⟩
  | readU16s fc addr qty =>
    obtain ⟨F, _⟩ := readCoreH_frame w.bytes env fc addr qty
    obtain ⟨D, L⟩ := decodeStep_frame (readCoreH w.bytes env fc addr qty).1
      (readCoreH w.bytes env fc addr qty).2 (Enc.bytesToUint16s env.endian) w.u16s
    refine ⟨⟨F, D, R.2.2⟩, ?_⟩
    simp only [step]
    cases hd : (decodeStep (readCoreH w.bytes env fc addr qty).1 (readCoreH w.bytes env fc addr qty).2
      (Enc.bytesToUint16s env.endian) w.u16s).2 with
    | none => trivial
    | some s => exact L s hd
  | readU32s fc addr qty =>
    obtain ⟨F, _⟩ := readCoreH_frame w.bytes env fc addr (qty * 2)
    obtain ⟨D, L⟩ := decodeStep_frame (readCoreH w.bytes env fc addr (qty * 2)).1
      (readCoreH w.bytes env fc addr (qty * 2)).2 (Enc.bytesToUint32s env.endian env.word) w.u32s
    refine ⟨⟨F, R.2.1, D, R.2.2.2⟩, ?_⟩
    simp only [step]
    cases hd : (decodeStep (readCoreH w.bytes env fc addr (qty * 2)).1 (readCoreH w.bytes env fc addr (qty * 2)).2
      (Enc.bytesToUint32s env.endian env.word) w.u32s).2 with
    | none => trivial
    | some s => exact L s hd
  | readU64s fc addr qty =>
    obtain ⟨F, _⟩ := readCoreH_frame w.bytes env fc addr (qty * 4)
    obtain ⟨D, L⟩ := decodeStep_frame (readCoreH w.bytes env fc addr (qty * 4)).1
      (readCoreH w.bytes env fc addr (qty * 4)).2 (Enc.bytesToUint64s env.endian env.word) w.u64s
    refine ⟨⟨F, R.2.1, R.2.2.1, D, R.2.2.2.2⟩, ?_⟩
    simp only [step]
    cases hd : (decodeStep (readCoreH w.bytes env fc addr (qty * 4)).1 (readCoreH w.bytes env fc addr (qty * 4)).2
      (Enc.bytesToUint64s env.endian env.word) w.u64s).2 with
    | none => trivial
    | some s => exact L s hd
  | readBools fc addr qty =>
    obtain ⟨F, _⟩ := readCoreH_frame w.bytes env fc addr qty
    obtain ⟨D, L⟩ := decodeStep_frame (readCoreH w.bytes env fc addr qty).1
      (readCoreH w.bytes env fc addr qty).2 (Enc.decodeBools qty.toNat) w.bools
    refine ⟨⟨F, R.2.1, R.2.2.1, R.2.2.2.1, D⟩, ?_⟩
    simp only [step]
    cases hd : (decodeStep (readCoreH w.bytes env fc addr qty).1 (readCoreH w.bytes env fc addr qty).2
      (Enc.decodeBools qty.toNat) w.bools).2 with
    | none => trivial
    | some s => exact L s hd

theorem run_frame (w : World) (cs : List (Env × Call)) : WFrame w (run w cs) := by
  induction cs generalizing w with
  | nil => exact WFrame.refl w
  | cons c cs ih =>
    obtain ⟨env, c⟩ := c
    exact (step_frame w env c).1.trans (ih _)

theorem run_append (w : World) (a b : List (Env × Call)) : run w (a ++ b) = run (run w a) b := by
  induction a generalizing w with
  | nil => rfl
  | cons c a ih => obtain ⟨env, c⟩ := c; exact ih _

end Modbus.Heap
