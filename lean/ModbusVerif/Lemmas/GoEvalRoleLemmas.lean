import ModbusVerif.Lemmas.GoEvalLifeLemmas
import ModbusVerif.Lemmas.RoleLemmas
/-
  Helpers for the source tie of `(*ModbusServer).extractRole` (Props/C15Src.lean): the generated term
  `Gen.gs_ModbusServer_extractRole` evaluated by `Modbus.GoEval` for EVERY list of extensions and
  related to `Role.roleLoop` / `Role.extractRole` (Model/Role.lean).

  1. INSTRUMENTATIONS (all three are removed again by a `strip…` function: `strip_rGs`).
     * `withProbes leaves probe idx` (= `withProbe` of GoEvalLifeLemmas for SEVERAL leaves:
       `withProbes_single`): at the head of every loop body the pseudo-call

           bindCall ["cert.Extensions[#i]", "ext.Id.Equal(modbusRoleOID)", "len(ext.Value)",
                     "ext.Value[0]", "ext.Value"] "#ext" [var "#i"]

       re-binds the text-keyed leaves of the CURRENT extension from the list of extensions and the
       VALUE of `#i` (`extAnswer`). An index outside the list binds `unk` everywhere (never read:
       the loop test comes first); an EMPTY value binds `unk` to `ext.Value[0]` (Go: the index
       expression would panic; a condition that needs it is `stuckAt "cond"`).
     * `withRecv "asn1.Unmarshal" "role"` (GoEvalLifeLemmas): the current value of the out-parameter
       target `role` is passed to the call as an extra first argument.
     * `withOut "asn1.Unmarshal" ["len(rest)", "role"]`: OUT-PARAMETERS. The translator renders
       `rest, err = asn1.Unmarshal(ext.Value, &role)` as `bindCall ["rest","err"] … [ext.Value, &role]`
       with `&role` an opaque leaf: the write through the pointer is not rendered, and `bindCall`
       binds its targets only. `withOut` appends further TARGETS to the calls of one callee, here
       `len(rest)` (the text-keyed length leaf of the result `rest`) and `role` (the variable the
       pointer argument points to). The oracle answers with four values
       `[rest, err, len(rest), role']`; on an error `role'` is the value passed in (Go: `role` is
       left alone unless the whole value parses; encoding/asn1 `parseField` sets the string after
       `parseUTF8String` succeeded, and `Unmarshal` returns `nil, err`).
  2. VALUES. An extension is denoted by its index (`.int k`); the decoded role by `encRole s`, an
     injective (`decRole_encRole`) embedding of byte strings into symbols; `""` is `encRole []`.
  3. the oracle `roleOracle exts` (probe: `extAnswer`; `asn1.Unmarshal`: `unmAnswer`, computed by
     `Role.unmarshalChecked` on the value bytes of the extension the argument denotes; a fault of the
     model other than "Go returns an error" is NOT answered: the run would stop there).
  4. one round of the loop, case by case (`role_round_*`), from ANY environment satisfying `RoleInv`.
  5. the expected call log `roleTrace` (which extensions are inspected, where `asn1.Unmarshal` is
     called) and the loop by induction on the remaining extensions (`role_loop`).
  6. `roleTrace_of_bad`: once the model's loop has set `badCert` on a prefix, the calls do not depend
     on what follows, and every probed index lies in the prefix.
  7. the whole function from any entry environment (`RoleEntry`): `role_loop_part`, `role_tail`,
     `role_run`; the minimal entry environment `roleEnv`.
-/
set_option linter.unusedSimpArgs false
set_option linter.unusedVariables false

namespace Modbus.GoEval
open Modbus Modbus.Gen Modbus.Role

/-! ### 1. instrumentations -/

/-- insert `leaves := probe(idx)` (one pseudo-call with several targets) at the head of every loop
    body -/
def withProbes (leaves : List String) (probe idx : String) : GStmt → GStmt
  | .seq a b => .seq (withProbes leaves probe idx a) (withProbes leaves probe idx b)
  | .ite c t e => .ite c (withProbes leaves probe idx t) (withProbes leaves probe idx e)
  | .loop b => .loop (.seq (.bindCall leaves probe [.var idx .int]) (withProbes leaves probe idx b))
  | s => s

/-- with one leaf this is `withProbe` -/
theorem withProbes_single (leaf probe idx : String) (s : GStmt) :
    withProbes [leaf] probe idx s = withProbe leaf probe idx s := by
  induction s with
  | seq a b iha ihb => simp only [withProbes, withProbe, iha, ihb]
  | ite c t e iht ihe => simp only [withProbes, withProbe, iht, ihe]
  | loop b ih => simp only [withProbes, withProbe, ih]
  | _ => rfl

/-- out-parameters: append the targets `outs` to every call of `callee` -/
def withOut (callee : String) (outs : List String) : GStmt → GStmt
  | .seq a b => .seq (withOut callee outs a) (withOut callee outs b)
  | .ite c t e => .ite c (withOut callee outs t) (withOut callee outs e)
  | .loop b => .loop (withOut callee outs b)
  | .bindCall ts f as => if f = callee then .bindCall (ts ++ outs) f as else .bindCall ts f as
  | s => s

/-- drop the last `n` targets of every call of `callee` -/
def stripOut (callee : String) (n : Nat) : GStmt → GStmt
  | .seq a b => .seq (stripOut callee n a) (stripOut callee n b)
  | .ite c t e => .ite c (stripOut callee n t) (stripOut callee n e)
  | .loop b => .loop (stripOut callee n b)
  | .bindCall ts f as =>
    if f = callee then .bindCall (ts.take (ts.length - n)) f as else .bindCall ts f as
  | s => s

/-- `stripOut` undoes `withOut`, on every term -/
theorem stripOut_withOut (callee : String) (outs : List String) (s : GStmt) :
    stripOut callee outs.length (withOut callee outs s) = s := by
  induction s with
  | seq a b iha ihb => simp only [withOut, stripOut, iha, ihb]
  | ite c t e iht ihe => simp only [withOut, stripOut, iht, ihe]
  | loop b ih => simp only [withOut, stripOut, ih]
  | bindCall ts f as =>
    by_cases h : f = callee
    · simp [withOut, stripOut, h]
    · simp [withOut, stripOut, h]
  | _ => rfl

/-- `stripRecv` undoes `withRecv`, on every term -/
theorem stripRecv_withRecv (callee recv : String) (s : GStmt) :
    stripRecv callee (withRecv callee recv s) = s := by
  induction s with
  | seq a b iha ihb => simp only [withRecv, stripRecv, iha, ihb]
  | ite c t e iht ihe => simp only [withRecv, stripRecv, iht, ihe]
  | loop b ih => simp only [withRecv, stripRecv, ih]
  | bindCall ts f as =>
    by_cases h : f = callee
    · simp [withRecv, stripRecv, h]
    · simp [withRecv, stripRecv, h]
  | _ => rfl

/-- the leaves of the current extension -/
def extLeaves : List String :=
  ["cert.Extensions[#i]", "ext.Id.Equal(modbusRoleOID)", "len(ext.Value)", "ext.Value[0]", "ext.Value"]

/-- the term that is evaluated -/
def rGs : GStmt :=
  withOut "asn1.Unmarshal" ["len(rest)", "role"]
    (withRecv "asn1.Unmarshal" "role"
      (withProbes extLeaves "#ext" "#i" gs_ModbusServer_extractRole))

/-- one round of the loop over `cert.Extensions`, instrumented -/
def roleBody : GStmt :=
  (.seq (.bindCall ["cert.Extensions[#i]", "ext.Id.Equal(modbusRoleOID)", "len(ext.Value)", "ext.Value[0]", "ext.Value"] "#ext" [.var "#i" .int])
    (.ite (.cmp "<" (.var "#i" .int) (.var "#len(cert.Extensions)" .int)) (.seq (.assign "ext" (.var "cert.Extensions[#i]" .other)) (.seq (.ite (.call "ext.Id.Equal(modbusRoleOID)" .bool) (.seq (.ite (.var "found" .bool) (.seq (.assign "badCert" (.lit 1 .bool)) .brk) .skip) (.seq (.assign "found" (.lit 1 .bool)) (.seq (.ite (.or (.cmp "<" (.var "len(ext.Value)" .int) (.lit (2) .int)) (.cmp "!=" (.var "ext.Value[0]" .u8) (.lit (12) .u8))) (.seq (.assign "badCert" (.lit 1 .bool)) .brk) .skip) (.seq (.bindCall ["rest", "err", "len(rest)", "role"] "asn1.Unmarshal" [(.var "role" .other), (.var "ext.Value" .other), (.call "&role" .other)]) (.seq (.ite (.cmp "!=" (.var "err" .other) (.var "nil" .other)) (.seq (.assign "badCert" (.lit 1 .bool)) .brk) .skip) (.ite (.cmp "!=" (.var "len(rest)" .int) (.lit (0) .int)) (.seq (.assign "badCert" (.lit 1 .bool)) .brk) .skip)))))) .skip) (.assign "#i" (.bin "+" .int (.var "#i" .int) (.lit 1 .int))))) .brk))

/-- bound, index, loop -/
def roleLoopPart (L : GStmt) : GStmt :=
  (.seq (.assign "#len(cert.Extensions)" (.var "len(cert.Extensions)" .int)) (.seq (.assign "#i" (.lit 0 .int)) L))

/-- `if badCert { role = "" }; return` -/
def roleTail : GStmt :=
  (.seq (.ite (.var "badCert" .bool) (.assign "role" (.call "\"\"" .other)) .skip) .ret)

/-- the function around its loop -/
def roleWith (L : GStmt) : GStmt := .seq (roleLoopPart L) roleTail

theorem rGs_eq : rGs = roleWith (.loop roleBody) := by
  simp only [rGs, withOut, withRecv, withProbes, gs_ModbusServer_extractRole, roleWith, roleLoopPart,
    roleTail, roleBody, extLeaves, String.reduceEq, ↓reduceIte, List.cons_append, List.nil_append]

theorem strip_rGs :
    stripProbe "#ext" (stripRecv "asn1.Unmarshal" (stripOut "asn1.Unmarshal" 2 rGs)) =
      gs_ModbusServer_extractRole := by
  simp only [rGs_eq, roleWith, roleLoopPart, roleTail, roleBody, stripOut, stripRecv, stripProbe,
    gs_ModbusServer_extractRole, String.reduceEq, ↓reduceIte, List.tail_cons, List.length_cons,
    List.length_nil, List.take_succ_cons, List.take_zero, Nat.reduceAdd, Nat.reduceSub]

/-! ### 2. values -/

/-- a byte string as a symbol: one character per byte -/
def encRole (s : Bytes) : Val := .sym (String.ofList (s.map (fun b => Char.ofNat b.toNat)))

/-- reading it back -/
def decRole : Val → Option Bytes
  | .sym t => some (t.toList.map (fun c => BitVec.ofNat 8 c.toNat))
  | _ => none

theorem decRole_encRole (s : Bytes) : decRole (encRole s) = some s := by
  simp only [decRole, encRole, String.toList_ofList, List.map_map, Option.some.injEq]
  have h : ∀ b : Byte, BitVec.ofNat 8 (Char.ofNat b.toNat).toNat = b := forall_byte (by decide +kernel)
  induction s with
  | nil => rfl
  | cons b t ih => simp only [List.map_cons, Function.comp_apply, h, ih]

theorem encRole_inj {s t : Bytes} (h : encRole s = encRole t) : s = t := by
  have := congrArg decRole h
  simpa only [decRole_encRole, Option.some.injEq] using this

theorem encRole_nil : encRole [] = .sym "" := by decide

/-- `ext.Value[0]`: absent for an empty value -/
def v0Val : Bytes → Val
  | [] => .unk
  | b :: _ => .int (b.toNat : Int)

/-! ### 3. the oracle -/

/-- the leaves of the extension at the VALUE of the index: handle, `ext.Id.Equal(modbusRoleOID)`,
    `len(ext.Value)`, `ext.Value[0]`, handle of the value; nothing outside the list -/
def extRow (k : Int) (e : Ext) : List Val :=
  [.int k, Val.ofBool (decide (e.id = modbusRoleOID)), .int (e.value.length : Int), v0Val e.value, .int k]

def extAnswer (exts : List Ext) : Val → List Val
  | .int v => if 0 ≤ v then (match exts[v.toNat]? with | some e => extRow v e | none => []) else []
  | _ => []

theorem extAnswer_lt (exts : List Ext) (k : Nat) (h : k < exts.length) :
    extAnswer exts (.int (k : Int)) = extRow (k : Int) exts[k] := by
  simp [extAnswer, List.getElem?_eq_getElem h]

theorem extAnswer_ge (exts : List Ext) (k : Nat) (h : exts.length ≤ k) :
    extAnswer exts (.int (k : Int)) = [] := by
  simp [extAnswer, List.getElem?_eq_none h]

/-- `asn1.Unmarshal(ext.Value, &role)` on the value bytes: `[rest, err, len(rest), role']` -/
def unmRow (old : Val) : M (Bytes × Bytes) → Option (List Val)
  | .ok (s, rest) => some [.sym "rest", .sym "nil", .int (rest.length : Int), encRole s]
  | .error .err => some [.sym "nil", .sym "asn1.error", .int 0, old]
  | .error _ => none

def unmAnswer (exts : List Ext) (old : Val) : Val → Option (List Val)
  | .int v => if 0 ≤ v then (match exts[v.toNat]? with
      | some e => unmRow old (unmarshalChecked e.value)
      | none => none) else none
  | _ => none

theorem unmAnswer_lt (exts : List Ext) (old : Val) (k : Nat) (h : k < exts.length) :
    unmAnswer exts old (.int (k : Int)) = unmRow old (unmarshalChecked exts[k].value) := by
  simp [unmAnswer, List.getElem?_eq_getElem h]

/-- the probe is answered from the list and the value of the index, `asn1.Unmarshal` from the
    current `role` (first argument, `withRecv`) and the handle of the value (second argument) -/
def roleOracle (exts : List Ext) : Oracle := fun f args =>
  if f = "#ext" then some (extAnswer exts (args.headD .unk))
  else if f = "asn1.Unmarshal" then unmAnswer exts (args.headD .unk) (args.tail.headD .unk)
  else none

/-! ### 4. one round of the loop -/

structure RoleInv (exts : List Ext) (k : Nat) (fnd : Bool) (rv : Val) (env : Env) : Prop where
  hi : Env.read? env "#i" = some (.int (k : Int))
  hlen : Env.read? env "#len(cert.Extensions)" = some (.int (exts.length : Int))
  hfound : Env.read? env "found" = some (Val.ofBool fnd)
  hbad : Env.read? env "badCert" = some (Val.ofBool false)
  hrole : Env.read? env "role" = some rv
  hnil : Env.read? env "nil" = none
  haddr : Env.read? env "&role" = some (.sym "&role")
  hempty : Env.read? env "\"\"" = some (encRole [])

def envExt (env : Env) (k : Nat) (e : Ext) : Env :=
  Env.write (bindAll env extLeaves (extRow (k : Int) e)) "ext" (.int (k : Int))

theorem role_round_end (exts : List Ext) (fnd : Bool) (rv : Val) (env : Env) (cs : Calls)
    (inv : RoleInv exts exts.length fnd rv env) :
    execFrom (roleOracle exts) 16 roleBody env cs =
      ⟨bindAll env extLeaves [], .broke, cs ++ [("#ext", [.int (exts.length : Int)])]⟩ := by
  have h1 := inv.hi
  have h2 := inv.hlen
  have hp := extAnswer_ge exts exts.length (Nat.le_refl _)
  go_eval_nowrap [roleBody, roleOracle, extLeaves, h1, h2, hp, Int.lt_irrefl]

theorem role_round_other (exts : List Ext) (k : Nat) (fnd : Bool) (rv : Val) (env : Env) (cs : Calls)
    (hn : exts.length < 2^63) (hk : k < exts.length) (hid : exts[k].id ≠ modbusRoleOID)
    (inv : RoleInv exts k fnd rv env) :
    execFrom (roleOracle exts) 16 roleBody env cs =
      ⟨Env.write (envExt env k exts[k]) "#i" (.int ((k + 1 : Nat) : Int)), .fell,
        cs ++ [("#ext", [.int (k : Int)])]⟩ := by
  have h1 := inv.hi
  have h2 := inv.hlen
  have hp := extAnswer_lt exts k hk
  have hlt : (k : Int) < (exts.length : Int) := by omega
  have hw : wrap .int ((k : Int) + 1) = ((k + 1 : Nat) : Int) := by
    rw [wrap_int (by omega) (by omega)]; omega
  have hd : decide (exts[k].id = modbusRoleOID) = false := by simp [hid]
  go_eval_nowrap [roleBody, roleOracle, extLeaves, envExt, extRow, h1, h2, hp, hlt, hw, hd]

theorem role_round_dup (exts : List Ext) (k : Nat) (rv : Val) (env : Env) (cs : Calls)
    (hk : k < exts.length) (hid : exts[k].id = modbusRoleOID)
    (inv : RoleInv exts k true rv env) :
    execFrom (roleOracle exts) 16 roleBody env cs =
      ⟨Env.write (envExt env k exts[k]) "badCert" (.int 1), .broke,
        cs ++ [("#ext", [.int (k : Int)])]⟩ := by
  have h1 := inv.hi
  have h2 := inv.hlen
  have h3 := inv.hfound
  have hp := extAnswer_lt exts k hk
  have hlt : (k : Int) < (exts.length : Int) := by omega
  have hd : decide (exts[k].id = modbusRoleOID) = true := by simp [hid]
  go_eval_nowrap [roleBody, roleOracle, extLeaves, envExt, extRow, h1, h2, h3, hp, hlt, hd]

/-- the environment after `found = true` -/
def envFound (env : Env) (k : Nat) (e : Ext) : Env := Env.write (envExt env k e) "found" (.int 1)

theorem role_round_short (exts : List Ext) (k : Nat) (rv : Val) (env : Env) (cs : Calls)
    (hk : k < exts.length) (hid : exts[k].id = modbusRoleOID) (hs : exts[k].value.length < 2)
    (inv : RoleInv exts k false rv env) :
    execFrom (roleOracle exts) 16 roleBody env cs =
      ⟨Env.write (envFound env k exts[k]) "badCert" (.int 1), .broke,
        cs ++ [("#ext", [.int (k : Int)])]⟩ := by
  have h1 := inv.hi
  have h2 := inv.hlen
  have h3 := inv.hfound
  have hp := extAnswer_lt exts k hk
  have hlt : (k : Int) < (exts.length : Int) := by omega
  have hd : decide (exts[k].id = modbusRoleOID) = true := by simp [hid]
  have hs' : ((exts[k].value.length : Nat) : Int) < 2 := by omega
  go_eval_nowrap [roleBody, roleOracle, extLeaves, envExt, envFound, extRow, h1, h2, h3, hp, hlt, hd, hs',
    decide_true, decide_false, ne_eq, not_true_eq_false, not_false_eq_true]

theorem role_round_tag (exts : List Ext) (k : Nat) (rv : Val) (env : Env) (cs : Calls)
    (hk : k < exts.length) (hid : exts[k].id = modbusRoleOID) (hs : ¬ exts[k].value.length < 2)
    (b : Nat) (hv0 : v0Val exts[k].value = .int (b : Int)) (hb : b ≠ 12)
    (inv : RoleInv exts k false rv env) :
    execFrom (roleOracle exts) 16 roleBody env cs =
      ⟨Env.write (envFound env k exts[k]) "badCert" (.int 1), .broke,
        cs ++ [("#ext", [.int (k : Int)])]⟩ := by
  have h1 := inv.hi
  have h2 := inv.hlen
  have h3 := inv.hfound
  have hp := extAnswer_lt exts k hk
  have hlt : (k : Int) < (exts.length : Int) := by omega
  have hd : decide (exts[k].id = modbusRoleOID) = true := by simp [hid]
  have hs' : ¬ ((exts[k].value.length : Nat) : Int) < 2 := by omega
  have hb' : ¬ ((b : Int) = 12) := by omega
  go_eval_nowrap [roleBody, roleOracle, extLeaves, envExt, envFound, extRow, h1, h2, h3, hp, hlt, hd, hs', hv0, hb',
    decide_true, decide_false, ne_eq, not_true_eq_false, not_false_eq_true]

/-- the environment after the call -/
def envCall (env : Env) (k : Nat) (e : Ext) (rs : List Val) : Env :=
  bindAll (envFound env k e) ["rest", "err", "len(rest)", "role"] rs

def unmCall (old : Val) (k : Nat) : String × List Val :=
  ("asn1.Unmarshal", [old, .int (k : Int), .sym "&role"])

theorem role_round_err (exts : List Ext) (k : Nat) (rv : Val) (env : Env) (cs : Calls)
    (hk : k < exts.length) (hid : exts[k].id = modbusRoleOID) (hs : ¬ exts[k].value.length < 2)
    (hv0 : v0Val exts[k].value = .int 12)
    (hu : unmarshalChecked exts[k].value = .error .err)
    (inv : RoleInv exts k false rv env) :
    execFrom (roleOracle exts) 16 roleBody env cs =
      ⟨Env.write (envCall env k exts[k] [.sym "nil", .sym "asn1.error", .int 0, rv]) "badCert" (.int 1), .broke,
        cs ++ [("#ext", [.int (k : Int)]), unmCall rv k]⟩ := by
  have h1 := inv.hi
  have h2 := inv.hlen
  have h3 := inv.hfound
  have h4 := inv.hrole
  have h5 := inv.hnil
  have h6 := inv.haddr
  have hp := extAnswer_lt exts k hk
  have hq : unmAnswer exts rv (.int (k : Int)) = some [.sym "nil", .sym "asn1.error", .int 0, rv] := by
    rw [unmAnswer_lt exts rv k hk, hu]; rfl
  have hlt : (k : Int) < (exts.length : Int) := by omega
  have hd : decide (exts[k].id = modbusRoleOID) = true := by simp [hid]
  have hs' : ¬ ((exts[k].value.length : Nat) : Int) < 2 := by omega
  go_eval_nowrap [roleBody, roleOracle, extLeaves, envExt, envFound, envCall, unmCall, extRow, h1, h2, h3, h4, h5, h6, hp, hq, hlt, hd, hs', hv0,
    decide_true, decide_false, ne_eq, not_true_eq_false, not_false_eq_true, List.append_assoc]

theorem role_round_trail (exts : List Ext) (k : Nat) (rv : Val) (env : Env) (cs : Calls)
    (hk : k < exts.length) (hid : exts[k].id = modbusRoleOID) (hs : ¬ exts[k].value.length < 2)
    (hv0 : v0Val exts[k].value = .int 12) (s rest : Bytes)
    (hu : unmarshalChecked exts[k].value = .ok (s, rest)) (hr : rest ≠ [])
    (inv : RoleInv exts k false rv env) :
    execFrom (roleOracle exts) 16 roleBody env cs =
      ⟨Env.write (envCall env k exts[k] [.sym "rest", .sym "nil", .int (rest.length : Int), encRole s])
          "badCert" (.int 1), .broke,
        cs ++ [("#ext", [.int (k : Int)]), unmCall rv k]⟩ := by
  have h1 := inv.hi
  have h2 := inv.hlen
  have h3 := inv.hfound
  have h4 := inv.hrole
  have h5 := inv.hnil
  have h6 := inv.haddr
  have hp := extAnswer_lt exts k hk
  have hq : unmAnswer exts rv (.int (k : Int)) =
      some [.sym "rest", .sym "nil", .int (rest.length : Int), encRole s] := by
    rw [unmAnswer_lt exts rv k hk, hu]; rfl
  have hlt : (k : Int) < (exts.length : Int) := by omega
  have hd : decide (exts[k].id = modbusRoleOID) = true := by simp [hid]
  have hs' : ¬ ((exts[k].value.length : Nat) : Int) < 2 := by omega
  have hr' : ¬ ((rest.length : Nat) : Int) = 0 := by
    cases rest with
    | nil => exact absurd rfl hr
    | cons a t => simp only [List.length_cons]; omega
  go_eval_nowrap [roleBody, roleOracle, extLeaves, envExt, envFound, envCall, unmCall, extRow, h1, h2, h3, h4, h5, h6, hp, hq, hlt, hd, hs', hv0, hr',
    decide_true, decide_false, ne_eq, not_true_eq_false, not_false_eq_true, List.append_assoc]

theorem role_round_ok (exts : List Ext) (k : Nat) (rv : Val) (env : Env) (cs : Calls)
    (hn : exts.length < 2^63)
    (hk : k < exts.length) (hid : exts[k].id = modbusRoleOID) (hs : ¬ exts[k].value.length < 2)
    (hv0 : v0Val exts[k].value = .int 12) (s : Bytes)
    (hu : unmarshalChecked exts[k].value = .ok (s, []))
    (inv : RoleInv exts k false rv env) :
    execFrom (roleOracle exts) 16 roleBody env cs =
      ⟨Env.write (envCall env k exts[k] [.sym "rest", .sym "nil", .int 0, encRole s])
          "#i" (.int ((k + 1 : Nat) : Int)), .fell,
        cs ++ [("#ext", [.int (k : Int)]), unmCall rv k]⟩ := by
  have h1 := inv.hi
  have h2 := inv.hlen
  have h3 := inv.hfound
  have h4 := inv.hrole
  have h5 := inv.hnil
  have h6 := inv.haddr
  have hp := extAnswer_lt exts k hk
  have hq : unmAnswer exts rv (.int (k : Int)) = some [.sym "rest", .sym "nil", .int 0, encRole s] := by
    rw [unmAnswer_lt exts rv k hk, hu]; rfl
  have hlt : (k : Int) < (exts.length : Int) := by omega
  have hd : decide (exts[k].id = modbusRoleOID) = true := by simp [hid]
  have hs' : ¬ ((exts[k].value.length : Nat) : Int) < 2 := by omega
  have hw : wrap .int ((k : Int) + 1) = ((k + 1 : Nat) : Int) := by
    rw [wrap_int (by omega) (by omega)]; omega
  go_eval_nowrap [roleBody, roleOracle, extLeaves, envExt, envFound, envCall, unmCall, extRow, h1, h2, h3, h4, h5, h6, hp, hq, hlt, hd, hs', hv0, hw,
    decide_true, decide_false, ne_eq, not_true_eq_false, not_false_eq_true, List.append_assoc]



/-! ### 5. the call log, the loop -/

def probeCall (k : Nat) : String × List Val := ("#ext", [.int (k : Int)])

/-- the calls of the loop entered at index `k` with the extensions `l` still to come and the state
    `st`: every round starts with the probe of its index (the leaves of that extension are bound);
    `asn1.Unmarshal` is called for the first role extension if its value has two bytes or more and
    starts with 0x0c; a round that sets `badCert` is the last one; otherwise the final probe (of
    `len`) ends the loop. Follows `Role.roleLoop` case by case. -/
def roleTrace : Nat → List Ext → St → Calls
  | k, [], _ => [probeCall k]
  | k, e :: more, st =>
    if e.id = modbusRoleOID then
      if st.found then [probeCall k]
      else if shorterThan e.value 2 then [probeCall k]
      else
        match idx e.value 0 with
        | .error _ => [probeCall k]
        | .ok v0 =>
          if v0 != 0x0c then [probeCall k]
          else
            match unmarshalChecked e.value with
            | .ok (role, rest) =>
              probeCall k :: unmCall (encRole st.role) k ::
                (if !rest.isEmpty then [] else roleTrace (k+1) more { st with found := true, role := role })
            | .error _ => [probeCall k, unmCall (encRole st.role) k]
    else probeCall k :: roleTrace (k+1) more st

/-- what the loop leaves behind -/
structure RoleOut (st : St) (env : Env) : Prop where
  hfound : Env.read? env "found" = some (Val.ofBool st.found)
  hbad : Env.read? env "badCert" = some (Val.ofBool st.badCert)
  hrole : Env.read? env "role" = some (encRole st.role)
  hempty : Env.read? env "\"\"" = some (encRole [])

theorem v0Val_cons (b : Byte) (t : Bytes) : v0Val (b :: t) = .int ((b.toNat : Nat) : Int) := rfl

theorem byte_ne_0c {b : Byte} (h : b ≠ 0x0c) : b.toNat ≠ 12 := by
  intro hh; apply h; apply BitVec.eq_of_toNat_eq; simpa using hh

/-- reads through the environments of section 4 -/
macro "role_reads" : tactic => `(tactic| simp only [envExt, envFound, envCall, extLeaves, extRow,
  bindAll_cons, bindAll_nil, read?_write, String.reduceEq, ↓reduceIte, List.headD_cons, List.tail_cons])

/-- **the loop over `cert.Extensions`**, entered with `#i = k`, `badCert` false, `found` / `role` as in
    `st`: it falls through (never returns, never gets stuck, never stops at a call), its final
    `found` / `badCert` / `role` are those of `Role.roleLoop` on the remaining extensions, and its
    calls are `roleTrace` -/
theorem role_loop (exts : List Ext) (hn : exts.length < 2^63) :
    ∀ (d k : Nat) (env : Env) (cs : Calls) (st : St), k + d = exts.length → st.badCert = false →
      RoleInv exts k st.found (encRole st.role) env → ∀ fuel, d + 17 ≤ fuel →
      ∃ env' st', roleLoop (exts.drop k) st = .ok st' ∧
        execFrom (roleOracle exts) fuel (.loop roleBody) env cs =
          ⟨env', .fell, cs ++ roleTrace k (exts.drop k) st⟩ ∧ RoleOut st' env' := by
  intro d
  induction d with
  | zero =>
    intro k env cs st hkd hbc inv fuel hf
    have hk : k = exts.length := by omega
    subst hk
    obtain ⟨f, rfl⟩ : ∃ f, fuel = f + 1 := ⟨fuel - 1, by omega⟩
    have hb := execFrom_ge _ (role_round_end exts st.found _ env cs inv) (fun h => nomatch h) f (by omega)
    refine ⟨bindAll env extLeaves [], st, ?_, ?_, ?_⟩
    · rw [List.drop_length]; rfl
    · rw [execFrom_loop_of_broke _ hb, List.drop_length]; rfl
    · constructor
      · simp only [extLeaves, bindAll_cons, bindAll_nil, read?_write, String.reduceEq, ↓reduceIte]; exact inv.hfound
      · simp only [extLeaves, bindAll_cons, bindAll_nil, read?_write, String.reduceEq, ↓reduceIte]; rw [hbc]; exact inv.hbad
      · simp only [extLeaves, bindAll_cons, bindAll_nil, read?_write, String.reduceEq, ↓reduceIte]; exact inv.hrole
      · simp only [extLeaves, bindAll_cons, bindAll_nil, read?_write, String.reduceEq, ↓reduceIte]; exact inv.hempty
  | succ d ih =>
    intro k env cs st hkd hbc inv fuel hf
    have hk : k < exts.length := by omega
    obtain ⟨f, rfl⟩ : ∃ f, fuel = f + 1 := ⟨fuel - 1, by omega⟩
    have hdrop : exts.drop k = exts[k] :: exts.drop (k + 1) := List.drop_eq_getElem_cons hk
    rw [hdrop]
    by_cases hid : exts[k].id = modbusRoleOID
    · cases hfd : st.found with
      | true =>
        -- a second role extension
        have inv' : RoleInv exts k true (encRole st.role) env := by rw [← hfd]; exact inv
        have hb := execFrom_ge _ (role_round_dup exts k _ env cs hk hid inv') (fun h => nomatch h) f (by omega)
        refine ⟨Env.write (envExt env k exts[k]) "badCert" (.int 1), { st with badCert := true }, ?_, ?_, ?_⟩
        · simp [roleLoop, hid, hfd]
        · rw [execFrom_loop_of_broke _ hb]; simp [roleTrace, hid, hfd, probeCall]
        · constructor
          · role_reads; exact inv.hfound
          · role_reads <;> rfl
          · role_reads; exact inv.hrole
          · role_reads; exact inv.hempty
      | false =>
        have inv' : RoleInv exts k false (encRole st.role) env := by rw [← hfd]; exact inv
        by_cases hs : exts[k].value.length < 2
        · -- value shorter than 2 bytes: `ext.Value[0]` is not read
          have hb := execFrom_ge _ (role_round_short exts k _ env cs hk hid hs inv') (fun h => nomatch h) f (by omega)
          refine ⟨Env.write (envFound env k exts[k]) "badCert" (.int 1),
            { st with found := true, badCert := true }, ?_, ?_, ?_⟩
          · simp [roleLoop, hid, hfd, shorterThan_eq, hs]
          · rw [execFrom_loop_of_broke _ hb]; simp [roleTrace, hid, hfd, shorterThan_eq, hs, probeCall]
          · constructor
            · role_reads <;> rfl
            · role_reads <;> rfl
            · role_reads; exact inv.hrole
            · role_reads; exact inv.hempty
        · rcases hv : exts[k].value with _ | ⟨b0, t⟩
          · rw [hv] at hs; exact absurd (by decide) hs
          · have hi0 : idx exts[k].value 0 = .ok b0 := by rw [hv]; rfl
            have hv0 : v0Val exts[k].value = .int ((b0.toNat : Nat) : Int) := by rw [hv]; rfl
            by_cases hb0 : b0 = 0x0c
            · subst hb0
              cases hu : unmarshalChecked exts[k].value with
              | error e =>
                -- `asn1.Unmarshal` returns an error
                have he : e = .err := unmarshalChecked_0c_error t e (by rw [← hv]; exact hu)
                subst he
                have hb := execFrom_ge _ (role_round_err exts k _ env cs hk hid hs hv0 hu inv')
                  (fun h => nomatch h) f (by omega)
                refine ⟨Env.write (envCall env k exts[k] [.sym "nil", .sym "asn1.error", .int 0, encRole st.role])
                  "badCert" (.int 1), { st with found := true, badCert := true }, ?_, ?_, ?_⟩
                · simp [roleLoop, hid, hfd, shorterThan_eq, hs, hi0, hu]
                · rw [execFrom_loop_of_broke _ hb]
                  simp [roleTrace, hid, hfd, shorterThan_eq, hs, hi0, hu, probeCall]
                · constructor
                  · role_reads <;> rfl
                  · role_reads <;> rfl
                  · role_reads <;> rfl
                  · role_reads; exact inv.hempty
              | ok p =>
                obtain ⟨s, rest⟩ := p
                cases rest with
                | cons r0 rt =>
                  -- trailing bytes
                  have hb := execFrom_ge _ (role_round_trail exts k _ env cs hk hid hs hv0 s (r0 :: rt) hu
                    (fun h => nomatch h) inv') (fun h => nomatch h) f (by omega)
                  refine ⟨Env.write (envCall env k exts[k]
                      [.sym "rest", .sym "nil", .int ((r0 :: rt).length : Int), encRole s]) "badCert" (.int 1),
                    { st with found := true, role := s, badCert := true }, ?_, ?_, ?_⟩
                  · simp [roleLoop, hid, hfd, shorterThan_eq, hs, hi0, hu]
                  · rw [execFrom_loop_of_broke _ hb]
                    simp [roleTrace, hid, hfd, shorterThan_eq, hs, hi0, hu, probeCall]
                  · constructor
                    · role_reads <;> rfl
                    · role_reads <;> rfl
                    · role_reads <;> rfl
                    · role_reads; exact inv.hempty
                | nil =>
                  -- the one good case: the loop goes on with `found`, `role = s`
                  have hb := execFrom_ge _ (role_round_ok exts k _ env cs hn hk hid hs hv0 s hu inv')
                    (fun h => nomatch h) f (by omega)
                  have inv2 : RoleInv exts (k + 1) true (encRole s)
                      (Env.write (envCall env k exts[k] [.sym "rest", .sym "nil", .int 0, encRole s])
                        "#i" (.int ((k + 1 : Nat) : Int))) := by
                    constructor
                    · role_reads
                    · role_reads; exact inv.hlen
                    · role_reads <;> rfl
                    · role_reads; exact inv.hbad
                    · role_reads
                    · role_reads; exact inv.hnil
                    · role_reads; exact inv.haddr
                    · role_reads; exact inv.hempty
                  obtain ⟨env', st', hm, hrun, hout⟩ := ih (k + 1) _
                    (cs ++ [("#ext", [.int (k : Int)]), unmCall (encRole st.role) k])
                    { st with found := true, role := s } (by omega) hbc inv2 f (by omega)
                  refine ⟨env', st', ?_, ?_, hout⟩
                  · simp [roleLoop, hid, hfd, shorterThan_eq, hs, hi0, hu]
                    exact hm
                  · rw [execFrom_loop_of_fell _ hb, hrun]
                    simp [roleTrace, hid, hfd, shorterThan_eq, hs, hi0, hu, probeCall]
            · -- first byte is not the UTF8String tag
              have hb := execFrom_ge _ (role_round_tag exts k _ env cs hk hid hs b0.toNat hv0
                (byte_ne_0c hb0) inv') (fun h => nomatch h) f (by omega)
              refine ⟨Env.write (envFound env k exts[k]) "badCert" (.int 1),
                { st with found := true, badCert := true }, ?_, ?_, ?_⟩
              · simp [roleLoop, hid, hfd, shorterThan_eq, hs, hi0]
                intro h; exact absurd h hb0
              · rw [execFrom_loop_of_broke _ hb]
                simp [roleTrace, hid, hfd, shorterThan_eq, hs, hi0, probeCall]
                intro h; exact absurd h hb0
              · constructor
                · role_reads <;> rfl
                · role_reads <;> rfl
                · role_reads; exact inv.hrole
                · role_reads; exact inv.hempty
    · -- not a role extension
      have hb := execFrom_ge _ (role_round_other exts k _ _ env cs hn hk hid inv) (fun h => nomatch h) f (by omega)
      have inv2 : RoleInv exts (k + 1) st.found (encRole st.role)
          (Env.write (envExt env k exts[k]) "#i" (.int ((k + 1 : Nat) : Int))) := by
        constructor
        · role_reads
        · role_reads; exact inv.hlen
        · role_reads; exact inv.hfound
        · role_reads; exact inv.hbad
        · role_reads; exact inv.hrole
        · role_reads; exact inv.hnil
        · role_reads; exact inv.haddr
        · role_reads; exact inv.hempty
      obtain ⟨env', st', hm, hrun, hout⟩ := ih (k + 1) _ (cs ++ [("#ext", [.int (k : Int)])]) st
        (by omega) hbc inv2 f (by omega)
      refine ⟨env', st', ?_, ?_, hout⟩
      · rw [roleLoop_skip _ _ _ hid]; exact hm
      · rw [execFrom_loop_of_fell _ hb, hrun]
        simp [roleTrace, hid, probeCall]

/-! ### 6. after `badCert` nothing more is inspected -/

theorem probeCall_ne_unmCall (j k : Nat) (v : Val) : probeCall j ≠ unmCall v k := by
  intro h; simp [probeCall, unmCall] at h

theorem probeCall_inj {j k : Nat} (h : probeCall j = probeCall k) : j = k := by
  simp [probeCall] at h; omega

theorem roleTrace_of_bad : ∀ (l : List Ext) (k : Nat) (st st' : St) (post : List Ext),
    roleLoop l st = .ok st' → st.badCert = false → st'.badCert = true →
    roleTrace k (l ++ post) st = roleTrace k l st ∧
      ∀ j, probeCall j ∈ roleTrace k l st → k ≤ j ∧ j < k + l.length := by
  intro l
  induction l with
  | nil =>
    intro k st st' post h hb hb'
    simp only [roleLoop, Except.ok.injEq] at h
    subst h
    rw [hb] at hb'; cases hb'
  | cons e more ih =>
    intro k st st' post h hb hb'
    simp only [List.cons_append, roleTrace, List.length_cons]
    simp only [roleLoop] at h
    split
    · rename_i hid
      simp only [hid, ↓reduceIte] at h
      split
      · simp [probeCall]; omega
      · rename_i hf
        simp only [hf] at h
        split
        · simp [probeCall]; omega
        · rename_i hs
          simp only [hs] at h
          split
          · simp [probeCall]; omega
          · rename_i v0 hv0
            simp only [hv0] at h
            split
            · simp [probeCall]; omega
            · rename_i hb0
              simp only [hb0] at h
              split
              · rename_i role rest hu
                simp only [hu] at h
                split
                · simp [probeCall, unmCall]; omega
                · rename_i hr
                  simp only [hr] at h
                  simp only [Bool.false_eq_true, ↓reduceIte] at h
                  obtain ⟨h1, h2⟩ := ih (k + 1) _ st' post h hb hb'
                  refine ⟨by rw [h1], ?_⟩
                  intro j hj
                  simp only [List.mem_cons] at hj
                  rcases hj with hj | hj | hj
                  · have := probeCall_inj hj; omega
                  · exact absurd hj (probeCall_ne_unmCall _ _ _)
                  · have := h2 j hj; omega
              · simp [probeCall, unmCall]; omega
    · rename_i hid
      simp only [hid, ↓reduceIte] at h
      obtain ⟨h1, h2⟩ := ih (k + 1) st st' post h hb hb'
      refine ⟨by rw [h1], ?_⟩
      intro j hj
      simp only [List.mem_cons] at hj
      rcases hj with hj | hj
      · have := probeCall_inj hj; omega
      · have := h2 j hj; omega


/-! ### 7. the whole function -/

/-- what `extractRole` needs of the environment it is entered with: the length leaf, the zero values
    of `role`, `found`, `badCert`, the literal `""`, the address leaf; `nil` is the constant -/
structure RoleEntry (exts : List Ext) (env : Env) : Prop where
  hlen : Env.read? env "len(cert.Extensions)" = some (.int (exts.length : Int))
  hfound : Env.read? env "found" = some (Val.ofBool false)
  hbad : Env.read? env "badCert" = some (Val.ofBool false)
  hrole : Env.read? env "role" = some (encRole [])
  hnil : Env.read? env "nil" = none
  haddr : Env.read? env "&role" = some (.sym "&role")
  hempty : Env.read? env "\"\"" = some (encRole [])

/-- the state `extractRole` starts with -/
def st0 : St := { role := [], found := false, badCert := false }

/-- bound, index, loop: falls through with the state of `Role.roleLoop` -/
theorem role_loop_part (exts : List Ext) (hn : exts.length < 2^63) (env : Env) (cs : Calls)
    (he : RoleEntry exts env) (fuel : Nat) (hf : exts.length + 19 ≤ fuel) :
    ∃ envL st, roleLoop exts st0 = .ok st ∧
      execFrom (roleOracle exts) fuel (roleLoopPart (.loop roleBody)) env cs =
        ⟨envL, .fell, cs ++ roleTrace 0 exts st0⟩ ∧ RoleOut st envL := by
  obtain ⟨g, rfl⟩ : ∃ g, fuel = g + 3 := ⟨fuel - 3, by omega⟩
  have inv : RoleInv exts 0 st0.found (encRole st0.role)
      (Env.write (Env.write env "#len(cert.Extensions)" (.int (exts.length : Int))) "#i" (.int 0)) := by
    constructor
    · simp only [read?_write, ↓reduceIte]; rfl
    · simp only [read?_write, String.reduceEq, ↓reduceIte]
    · simp only [read?_write, String.reduceEq, ↓reduceIte]; exact he.hfound
    · simp only [read?_write, String.reduceEq, ↓reduceIte]; exact he.hbad
    · simp only [read?_write, String.reduceEq, ↓reduceIte]; exact he.hrole
    · simp only [read?_write, String.reduceEq, ↓reduceIte]; exact he.hnil
    · simp only [read?_write, String.reduceEq, ↓reduceIte]; exact he.haddr
    · simp only [read?_write, String.reduceEq, ↓reduceIte]; exact he.hempty
  obtain ⟨envL, st, hm, hrun, hout⟩ := role_loop exts hn exts.length 0 _ cs st0 (by omega) rfl inv (g + 1) (by omega)
  rw [List.drop_zero] at hm hrun
  refine ⟨envL, st, hm, ?_, hout⟩
  rw [← hrun]
  have hlen := he.hlen
  simp only [roleLoopPart, execFrom_seq, execFrom_assign, panics_var, panics_lit, eval_var, eval_lit, hlen,
    eval_var_some, seqK_fell, Bool.false_eq_true, ↓reduceIte]

/-- `if badCert { role = "" }; return` from what the loop left -/
theorem role_tail (o : Oracle) (st : St) (env : Env) (cs : Calls) (hout : RoleOut st env)
    (fuel : Nat) (hf : 3 ≤ fuel) :
    execFrom o fuel roleTail env cs =
      ⟨if st.badCert = true then Env.write env "role" (encRole []) else env, .returned, cs⟩ := by
  have h : execFrom o 3 roleTail env cs =
      ⟨if st.badCert = true then Env.write env "role" (encRole []) else env, .returned, cs⟩ := by
    have h1 := hout.hbad
    have h2 := hout.hempty
    cases hb : st.badCert <;> rw [hb] at h1 <;> go_eval [roleTail, h1, h2]
  refine execFrom_ge _ h ?_ fuel hf
  split <;> exact fun h => nomatch h

/-- **the whole (instrumented) function** -/
theorem role_run (exts : List Ext) (hn : exts.length < 2^63) (env : Env) (cs : Calls)
    (he : RoleEntry exts env) (fuel : Nat) (hf : exts.length + 20 ≤ fuel) :
    ∃ envL st, roleLoop exts st0 = .ok st ∧ RoleOut st envL ∧
      execFrom (roleOracle exts) fuel rGs env cs =
        ⟨if st.badCert = true then Env.write envL "role" (encRole []) else envL, .returned,
          cs ++ roleTrace 0 exts st0⟩ := by
  obtain ⟨g, rfl⟩ : ∃ g, fuel = g + 1 := ⟨fuel - 1, by omega⟩
  obtain ⟨envL, st, hm, hrun, hout⟩ := role_loop_part exts hn env cs he g (by omega)
  refine ⟨envL, st, hm, hout, ?_⟩
  rw [rGs_eq, roleWith, execFrom_seq_of_fell _ _ hrun]
  exact role_tail _ st envL _ hout g (by omega)

/-- an entry environment: nothing but the length leaf, the zero values, `""` and `&role` -/
def roleEnv (exts : List Ext) : Env :=
  [("len(cert.Extensions)", .int (exts.length : Int)), ("role", encRole []), ("found", Val.ofBool false),
   ("badCert", Val.ofBool false), ("\"\"", encRole []), ("&role", .sym "&role")]

theorem roleEnv_entry (exts : List Ext) : RoleEntry exts (roleEnv exts) := by
  constructor <;> simp only [roleEnv, read?_cons, read?_nil, String.reduceEq, ↓reduceIte]

end Modbus.GoEval
