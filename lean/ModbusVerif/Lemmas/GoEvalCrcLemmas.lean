import ModbusVerif.Lemmas.GoEvalLifeLemmas
import ModbusVerif.Lemmas.CrcLemmas
import ModbusVerif.Tie.C06
/-
  Helpers for the source tie of crc.go (Props/C06Src.lean): the generated terms `Gen.gs_crc_init`,
  `Gen.gs_crc_add`, `Gen.gs_crc_value`, `Gen.gs_crc_isEqual` (and the two encoding.go helpers they
  call, `Gen.gs_uint16ToBytes`, `Gen.gs_bytesToUint16`) evaluated by `Modbus.GoEval` for EVERY input
  and related to the hand-written model `Modbus.Crc` (Model/Crc.lean).

  1. INTEGERS OF ONE ROUND: the `Int`-level results of the evaluator (operands taken as 64-bit
     patterns, `wrap` after every `bin` / `conv`) are the bit-vector operations of the model:
     `crc_index_eq` (`b ^ byte(c.crc & 0xff)` = `b ^^^ lo s`), `crc_shr_eq` (`c.crc >> 8`),
     `crc_xor16_eq` (`c.crc ^ t`), for all 65536 × 256 states and bytes (no case split).
  2. THE TABLE: `genTable_eq`: entry `n < 256` of the EXTRACTED table `Gen.crcTable` is the model's
     `Crc.table[n]!` (from `Tie.C06.crc_table`).
  3. SHAPE: `gs_crc_add = crcAddWith (.loop crcAddBody)` (`rfl`); the instrumented term
     `crcGs = withProbe "in[#i]" "#in[#i]" "#i" gs_crc_add` (`withProbe` of GoEvalLifeLemmas: one
     pseudo-call `in[#i] := #in[#i](#i)` at the head of the loop body), `strip_crcGs`: `stripProbe`
     gives the generated term back.
  4. THE ORACLE `crcOracle bs`: the probe is answered from the byte list and the VALUE of `#i`
     (`crcByteAt`; `unk` outside the list); `index crcTable` from the extracted table and the VALUE
     of `index` (`crcTableAnswer`; refused outside 0..255); `uint16ToBytes` by an opaque symbol;
     `binary.LittleEndian.PutUint16` by no result.
  5. ONE ROUND: `crc_add_round` (the generated body, any oracle that answers the table),
     `crc_round_step` / `crc_round_end` (instrumented body).
  6. THE LOOP by induction on the remaining bytes (`crc_loop`), the whole function (`crc_run`), the
     expected call log `crcTrace` and the table indices in it (`crcTrace_tableArgs`).
  7. `crc.value`, `crc.isEqual`, `uint16ToBytes`, `bytesToUint16` (straight-line runs), and the
     meaning of the two `encoding/binary` calls (`putLE16`, `leU16`: transcribed, not derived).
-/
set_option linter.unusedSimpArgs false
set_option linter.unusedVariables false

namespace Modbus.GoEval
open Modbus Modbus.Gen

/-! ### 1. integers of one round -/

theorem crc_bits64_nat (x : Nat) (h : x < 18446744073709551616) : bits64 (x : Int) = x := by
  unfold bits64
  have : ((x : Int) % 18446744073709551616) = (x : Int) := by omega
  rw [this]; rfl

theorem crc_bits64_255 : bits64 255 = 255 := by decide

theorem crc_lo_toNat (s : U16) : (lo s).toNat = s.toNat % 256 := by
  simp [lo, BitVec.extractLsb'_toNat]

theorem crc_hi_toNat (s : U16) : (hi s).toNat = s.toNat / 256 := by
  have hs := s.isLt
  simp only [hi, BitVec.extractLsb'_toNat, Nat.shiftRight_eq_div_pow]
  omega

theorem crc_land_255 (n : Nat) : Nat.land n 255 = n % 256 := by
  have := Nat.and_two_pow_sub_one_eq_mod n 8
  simpa using this

/-- `index = b ^ byte(c.crc & 0xff)` evaluated in `uint16` / `uint8`: the `Int`-level result of
    `GoEval` is `b ^^^ lo s`, for every state and byte -/
theorem crc_index_eq (s : U16) (b : Byte) :
    wrap .u8 (Int.ofNat (Nat.xor (bits64 (b.toNat : Int))
      (bits64 (wrap .u8 (wrap .u16 (Int.ofNat (Nat.land (bits64 (s.toNat : Int)) (bits64 255))))))))
      = ((b ^^^ lo s).toNat : Int) := by
  have hs := s.isLt
  have hb := b.isLt
  rw [crc_bits64_nat s.toNat (by omega), crc_bits64_255, crc_land_255]
  have e1 : wrap .u16 (Int.ofNat (s.toNat % 256)) = ((s.toNat % 256 : Nat) : Int) := by
    show wrap .u16 ((s.toNat % 256 : Nat) : Int) = _
    exact wrap_u16 (by omega) (by omega)
  rw [e1]
  have e2 : wrap .u8 ((s.toNat % 256 : Nat) : Int) = ((s.toNat % 256 : Nat) : Int) :=
    wrap_u8 (by omega) (by omega)
  rw [e2, crc_bits64_nat _ (by omega), crc_bits64_nat _ (by omega)]
  have e3 : (b ^^^ lo s).toNat = b.toNat ^^^ (s.toNat % 256) := by
    rw [BitVec.toNat_xor, crc_lo_toNat]
  rw [e3]
  have hl : b.toNat ^^^ (s.toNat % 256) < 2 ^ 8 := Nat.xor_lt_two_pow hb (by omega)
  show wrap .u8 ((b.toNat ^^^ (s.toNat % 256) : Nat) : Int) = _
  exact wrap_u8 (by omega) (by omega)

/-- `c.crc >>= 8` in `uint16` -/
theorem crc_shr_eq (s : U16) : wrap .u16 ((s.toNat : Int) >>> 8) = ((s >>> 8).toNat : Int) := by
  have hs := s.isLt
  have e0 : (s.toNat : Int) >>> 8 = ((s.toNat >>> 8 : Nat) : Int) := rfl
  rw [e0, BitVec.toNat_ushiftRight]
  have hle : s.toNat >>> 8 ≤ s.toNat := by
    rw [Nat.shiftRight_eq_div_pow]; exact Nat.div_le_self _ _
  exact wrap_u16 (by omega) (by omega)

/-- `x ^ y` in `uint16` -/
theorem crc_xor16_eq (x y : U16) :
    wrap .u16 (Int.ofNat (Nat.xor (bits64 (x.toNat : Int)) (bits64 (y.toNat : Int))))
      = ((x ^^^ y).toNat : Int) := by
  have hx := x.isLt
  have hy := y.isLt
  rw [crc_bits64_nat _ (by omega), crc_bits64_nat _ (by omega), BitVec.toNat_xor]
  have hl : x.toNat ^^^ y.toNat < 2 ^ 16 := Nat.xor_lt_two_pow hx hy
  show wrap .u16 ((x.toNat ^^^ y.toNat : Nat) : Int) = _
  exact wrap_u16 (by omega) (by omega)

/-! ### 2. the table -/

set_option maxRecDepth 100000 in
theorem crcTable_size : Crc.table.size = 256 := by decide +kernel

/-- entry `n < 256` of the extracted table is the model's -/
theorem genTable_eq (n : Nat) (h : n < 256) : Gen.crcTable[n]! = (Crc.table[n]!).toNat := by
  have hs := crcTable_size
  have h1 : n < Crc.table.size := by omega
  rw [Tie.C06.crc_table]
  generalize Crc.table = t at hs h1 ⊢
  rw [getElem!_pos t n h1]
  have h2 : n < (List.map BitVec.toNat t.toList).length := by simpa using h1
  rw [getElem!_pos _ n h2]
  simp

/-! ### 3. shape, instrumentation -/

/-- the body of the loop of `crc.add`:
    `if #i < #len(in) { b := in[#i]; index = b ^ byte(c.crc & 0xff); c.crc >>= 8;
       #crcTable[index] := crcTable[index]; c.crc ^= #crcTable[index]; #i++ } else break` -/
def crcAddBody : GStmt :=
  (.ite (.cmp "<" (.var "#i" .int) (.var "#len(in)" .int))
    (.seq (.assign "b" (.var "in[#i]" .u8))
      (.seq
        (.seq (.assign "index" (.bin "^" .u8 (.var "b" .u8)
                (.conv .u8 (.bin "&" .u16 (.var "c.crc" .u16) (.lit (255) .u16)))))
          (.seq (.assign "c.crc" (.bin ">>" .u16 (.var "c.crc" .u16) (.lit (8) .int)))
            (.seq (.bindCall ["#crcTable[index]"] "index crcTable" [(.var "index" .u8)])
              (.assign "c.crc" (.bin "^" .u16 (.var "c.crc" .u16) (.var "#crcTable[index]" .u16))))))
        (.assign "#i" (.bin "+" .int (.var "#i" .int) (.lit 1 .int)))))
    .brk)

/-- `crc.add` around its loop: bound, index, loop, `return` -/
def crcAddWith (L : GStmt) : GStmt :=
  (.seq (.seq (.assign "#len(in)" (.var "len(in)" .int)) (.seq (.assign "#i" (.lit 0 .int)) L)) .ret)

/-- the generated term IS bound, index, `loop crcAddBody`, `return` -/
theorem gs_crc_add_eq : gs_crc_add = crcAddWith (.loop crcAddBody) := rfl

/-- the pseudo-call `in[#i] := #in[#i](#i)` -/
def crcProbeStmt : GStmt := .bindCall ["in[#i]"] "#in[#i]" [.var "#i" .int]

/-- the instrumented loop body -/
def crcBody : GStmt := .seq crcProbeStmt crcAddBody

/-- the term that is evaluated -/
def crcGs : GStmt := withProbe "in[#i]" "#in[#i]" "#i" gs_crc_add

theorem crcGs_eq : crcGs = crcAddWith (.loop crcBody) := rfl

theorem strip_crcGs : stripProbe "#in[#i]" crcGs = gs_crc_add := by
  simp only [crcGs_eq, crcAddWith, crcBody, crcProbeStmt, crcAddBody, stripProbe, gs_crc_add,
    String.reduceEq, ↓reduceIte]

/-! ### 4. the oracle -/

/-- element of the input at the VALUE of the index; `unk` outside the list (Go: the index expression
    would panic; the loop test `#i < #len(in)` comes first, the value is never read) -/
def crcByteAt (bs : Bytes) : Val → Val
  | .int v => if 0 ≤ v then (match bs[v.toNat]? with | some b => .int (b.toNat : Int) | none => .unk) else .unk
  | _ => .unk

theorem crcByteAt_lt (bs : Bytes) (k : Nat) (h : k < bs.length) :
    crcByteAt bs (.int (k : Int)) = .int ((bs[k].toNat : Nat) : Int) := by
  simp [crcByteAt, List.getElem?_eq_getElem h]

theorem crcByteAt_ge (bs : Bytes) (k : Nat) (h : bs.length ≤ k) :
    crcByteAt bs (.int (k : Int)) = .unk := by
  simp [crcByteAt, List.getElem?_eq_none h]

/-- `crcTable[index]` from the EXTRACTED table (`Gen.crcTable`), by the value of the index; refused
    outside 0..255 (Go: `index` is a `byte`, the array has 256 entries) -/
def crcTableAnswer : List Val → Option (List Val)
  | [.int v] => if 0 ≤ v ∧ v < 256 then some [.int ((Gen.crcTable[v.toNat]! : Nat) : Int)] else none
  | _ => none

theorem crcTableAnswer_int (v : Int) :
    crcTableAnswer [.int v] =
      if 0 ≤ v ∧ v < 256 then some [.int ((Gen.crcTable[v.toNat]! : Nat) : Int)] else none := rfl

theorem crcTableAnswer_nat (n : Nat) (h : n < 256) :
    crcTableAnswer [.int (n : Int)] = some [.int (((Crc.table[n]!).toNat : Nat) : Int)] := by
  have h0 : (0 : Int) ≤ (n : Int) ∧ (n : Int) < 256 := by omega
  simp only [crcTableAnswer, h0, and_self, ↓reduceIte, Int.toNat_natCast, genTable_eq n h]

def crcOracle (bs : Bytes) : Oracle := fun f args =>
  if f = "#in[#i]" then some [crcByteAt bs (args.headD .unk)]
  else if f = "index crcTable" then crcTableAnswer args
  else if f = "uint16ToBytes" then some [.sym "uint16ToBytes(LITTLE_ENDIAN, c.crc)"]
  else if f = "binary.LittleEndian.PutUint16" then some []
  else none

theorem crcOracle_table (bs : Bytes) (n : Nat) (h : n < 256) :
    crcOracle bs "index crcTable" [.int (n : Int)] = some [.int (((Crc.table[n]!).toNat : Nat) : Int)] := by
  simp only [crcOracle, String.reduceEq, ↓reduceIte, crcTableAnswer_nat n h]

def crcTableCall (n : Nat) : String × List Val := ("index crcTable", [.int (n : Int)])
def crcProbeCall (k : Nat) : String × List Val := ("#in[#i]", [.int (k : Int)])

/-! ### 5. one round -/

/-- the environment after one round of the generated body -/
def crcEnvRound (env : Env) (k : Nat) (b : Byte) (s : U16) : Env :=
  Env.write (Env.write (Env.write (Env.write (Env.write (Env.write env
    "b" (.int (b.toNat : Int)))
    "index" (.int ((b ^^^ lo s).toNat : Int)))
    "c.crc" (.int ((s >>> 8).toNat : Int)))
    "#crcTable[index]" (.int ((Crc.table[(b ^^^ lo s).toNat]!).toNat : Int)))
    "c.crc" (.int ((Crc.step s b).toNat : Int)))
    "#i" (.int ((k + 1 : Nat) : Int))

/-- **one round of the generated loop body**, for every state `s`, byte `b`, index `k < n < 2^63`, from
    any environment holding them, with any oracle that answers the table look-up from the table -/
theorem crc_add_round (o : Oracle)
    (ho : ∀ n : Nat, n < 256 → o "index crcTable" [.int (n : Int)] =
      some [.int (((Crc.table[n]!).toNat : Nat) : Int)])
    (n k : Nat) (s : U16) (b : Byte) (env : Env) (cs : Calls)
    (hn : n < 2^63) (hk : k < n)
    (h1 : Env.read? env "#i" = some (.int (k : Int)))
    (h2 : Env.read? env "#len(in)" = some (.int (n : Int)))
    (h3 : Env.read? env "c.crc" = some (.int (s.toNat : Int)))
    (h4 : Env.read? env "in[#i]" = some (.int (b.toNat : Int))) :
    execFrom o 10 crcAddBody env cs =
      ⟨crcEnvRound env k b s, .fell, cs ++ [crcTableCall (b ^^^ lo s).toNat]⟩ := by
  have hlt : (k : Int) < (n : Int) := by omega
  have hw : wrap .int ((k : Int) + 1) = ((k + 1 : Nat) : Int) := by
    rw [wrap_int (by omega) (by omega)]; omega
  have hq := ho (b ^^^ lo s).toNat (b ^^^ lo s).isLt
  have h8 : ¬ ((8 : Int) < 0) := by decide
  have h8t : (8 : Int).toNat = 8 := rfl
  have e1 := crc_index_eq s b
  have e2 := crc_shr_eq s
  have e3 := crc_xor16_eq (s >>> 8) (Crc.table[(b ^^^ lo s).toNat]!)
  go_eval_nowrap [crcAddBody, crcEnvRound, crcTableCall, h1, h2, h3, h4, hlt, hw, hq, h8, h8t, e1, e2, e3,
    Crc.step]

/-- the exit round of the generated body: `#i = #len(in)`: `break`, nothing assigned, no call -/
theorem crc_add_round_exit (o : Oracle) (n : Nat) (env : Env) (cs : Calls)
    (h1 : Env.read? env "#i" = some (.int (n : Int)))
    (h2 : Env.read? env "#len(in)" = some (.int (n : Int))) :
    execFrom o 10 crcAddBody env cs = ⟨env, .broke, cs⟩ := by
  go_eval_nowrap [crcAddBody, h1, h2, Int.lt_irrefl]

structure CrcInv (bs : Bytes) (k : Nat) (s : U16) (env : Env) : Prop where
  hi : Env.read? env "#i" = some (.int (k : Int))
  hlen : Env.read? env "#len(in)" = some (.int (bs.length : Int))
  hcrc : Env.read? env "c.crc" = some (.int (s.toNat : Int))

theorem crc_probe_step (bs : Bytes) (k : Nat) (env : Env) (cs : Calls) (n : Nat)
    (h1 : Env.read? env "#i" = some (.int (k : Int))) :
    execFrom (crcOracle bs) (n + 1) crcProbeStmt env cs =
      ⟨Env.write env "in[#i]" (crcByteAt bs (.int (k : Int))), .fell, cs ++ [crcProbeCall k]⟩ := by
  go_eval_nowrap [crcProbeStmt, crcOracle, crcProbeCall, h1]

/-- one round of the instrumented body at an index inside the list -/
theorem crc_round_step (bs : Bytes) (k : Nat) (s : U16) (env : Env) (cs : Calls)
    (hn : bs.length < 2^63) (hk : k < bs.length) (inv : CrcInv bs k s env) :
    execFrom (crcOracle bs) 11 crcBody env cs =
      ⟨crcEnvRound (Env.write env "in[#i]" (.int ((bs[k].toNat : Nat) : Int))) k bs[k] s, .fell,
        cs ++ [crcProbeCall k, crcTableCall (bs[k] ^^^ lo s).toNat]⟩ := by
  have hp := crc_probe_step bs k env cs 9 inv.hi
  rw [crcByteAt_lt bs k hk] at hp
  rw [crcBody, execFrom_seq_of_fell _ _ hp]
  rw [crc_add_round (crcOracle bs) (crcOracle_table bs) bs.length k s bs[k] _ _ hn hk
    (by simp only [read?_write, String.reduceEq, ↓reduceIte]; exact inv.hi)
    (by simp only [read?_write, String.reduceEq, ↓reduceIte]; exact inv.hlen)
    (by simp only [read?_write, String.reduceEq, ↓reduceIte]; exact inv.hcrc)
    (by simp only [read?_write, ↓reduceIte])]
  simp only [List.append_assoc, List.cons_append, List.nil_append]

/-- the round at `#i = len`: the probe binds `unk` (never read), the loop breaks -/
theorem crc_round_end (bs : Bytes) (s : U16) (env : Env) (cs : Calls)
    (inv : CrcInv bs bs.length s env) :
    execFrom (crcOracle bs) 11 crcBody env cs =
      ⟨Env.write env "in[#i]" .unk, .broke, cs ++ [crcProbeCall bs.length]⟩ := by
  have hp := crc_probe_step bs bs.length env cs 9 inv.hi
  rw [crcByteAt_ge bs bs.length (Nat.le_refl _)] at hp
  rw [crcBody, execFrom_seq_of_fell _ _ hp]
  exact crc_add_round_exit _ bs.length _ _
    (by simp only [read?_write, String.reduceEq, ↓reduceIte]; exact inv.hi)
    (by simp only [read?_write, String.reduceEq, ↓reduceIte]; exact inv.hlen)

/-! ### 6. the call log, the loop, the whole function -/

/-- the calls of the loop entered at index `k` in state `s` with `bs` still to come: every round
    starts with the probe of its index, then looks up `crcTable[b ^ lo s]`; the final probe (of
    `len`) ends the loop -/
def crcTrace : Nat → Bytes → U16 → Calls
  | k, [], _ => [crcProbeCall k]
  | k, b :: rest, s =>
    crcProbeCall k :: crcTableCall (b ^^^ lo s).toNat :: crcTrace (k + 1) rest (Crc.step s b)

/-- the table indices of the MODEL's fold: `Crc.step s b` reads `table[(b ^^^ lo s).toNat]` -/
def crcIndices : U16 → Bytes → List Nat
  | _, [] => []
  | s, b :: rest => (b ^^^ lo s).toNat :: crcIndices (Crc.step s b) rest

/-- arguments of the table look-ups in a call log -/
def crcTableArgs (cs : Calls) : List (List Val) :=
  (cs.filter (fun c => c.1 == "index crcTable")).map (·.2)

theorem crcTrace_tableArgs : ∀ (bs : Bytes) (k : Nat) (s : U16),
    crcTableArgs (crcTrace k bs s) = (crcIndices s bs).map (fun (i : Nat) => [Val.int (i : Int)]) := by
  intro bs
  induction bs with
  | nil => intro k s; rfl
  | cons b rest ih =>
    intro k s
    have := ih (k + 1) (Crc.step s b)
    simp only [crcTableArgs] at this
    have e1 : ("#in[#i]" == "index crcTable") = false := by decide
    have e2 : ("index crcTable" == "index crcTable") = true := by decide
    simp only [crcTableArgs, crcTrace, crcIndices, crcProbeCall, crcTableCall, List.filter_cons, e1, e2,
      Bool.false_eq_true, ↓reduceIte, List.map_cons, this]

theorem crcIndices_length : ∀ (bs : Bytes) (s : U16), (crcIndices s bs).length = bs.length := by
  intro bs
  induction bs with
  | nil => intro s; rfl
  | cons b rest ih => intro s; simp only [crcIndices, List.length_cons, ih]

theorem crcIndices_lt : ∀ (bs : Bytes) (s : U16), ∀ i ∈ crcIndices s bs, i < 256 := by
  intro bs
  induction bs with
  | nil => intro s i hi; cases hi
  | cons b rest ih =>
    intro s i hi
    simp only [crcIndices, List.mem_cons] at hi
    rcases hi with hi | hi
    · rw [hi]; exact (b ^^^ lo s).isLt
    · exact ih _ i hi

/-- keys the loop writes -/
def crcWritten : List String := ["in[#i]", "b", "index", "c.crc", "#crcTable[index]", "#i"]

/-- **the loop of `crc.add`**, entered with `#i = k` and `c.crc = s`: it falls through (never stuck,
    never stopped at a call), `c.crc` is `Crc.add s` of the remaining bytes, the calls are
    `crcTrace`; nothing but `crcWritten` is touched -/
theorem crc_loop (bs : Bytes) (hn : bs.length < 2^63) :
    ∀ (d k : Nat) (env : Env) (cs : Calls) (s : U16), k + d = bs.length → CrcInv bs k s env →
      ∀ fuel, d + 12 ≤ fuel →
      ∃ env', execFrom (crcOracle bs) fuel (.loop crcBody) env cs =
          ⟨env', .fell, cs ++ crcTrace k (bs.drop k) s⟩ ∧
        Env.read? env' "c.crc" = some (.int ((Crc.add s (bs.drop k)).toNat : Int)) ∧
        Env.read? env' "#i" = some (.int (bs.length : Int)) ∧
        (∀ x, x ∉ crcWritten → Env.read? env' x = Env.read? env x) := by
  intro d
  induction d with
  | zero =>
    intro k env cs s hkd inv fuel hf
    have hk : k = bs.length := by omega
    subst hk
    obtain ⟨f, rfl⟩ : ∃ f, fuel = f + 1 := ⟨fuel - 1, by omega⟩
    have hb := execFrom_ge _ (crc_round_end bs s env cs inv) (fun h => nomatch h) f (by omega)
    refine ⟨Env.write env "in[#i]" .unk, ?_, ?_, ?_, ?_⟩
    · rw [execFrom_loop_of_broke _ hb, List.drop_length]; rfl
    · rw [List.drop_length]
      simp only [read?_write, String.reduceEq, ↓reduceIte]; exact inv.hcrc
    · simp only [read?_write, String.reduceEq, ↓reduceIte]; exact inv.hi
    · intro x hx
      have : ¬ "in[#i]" = x := by intro h; apply hx; rw [← h]; simp [crcWritten]
      simp only [read?_write, this, ↓reduceIte]
  | succ d ih =>
    intro k env cs s hkd inv fuel hf
    have hk : k < bs.length := by omega
    obtain ⟨f, rfl⟩ : ∃ f, fuel = f + 1 := ⟨fuel - 1, by omega⟩
    have hdrop : bs.drop k = bs[k] :: bs.drop (k + 1) := List.drop_eq_getElem_cons hk
    rw [hdrop]
    have hb := execFrom_ge _ (crc_round_step bs k s env cs hn hk inv) (fun h => nomatch h) f (by omega)
    have inv2 : CrcInv bs (k + 1) (Crc.step s bs[k])
        (crcEnvRound (Env.write env "in[#i]" (.int ((bs[k].toNat : Nat) : Int))) k bs[k] s) := by
      constructor
      · simp only [crcEnvRound, read?_write, ↓reduceIte]
      · simp only [crcEnvRound, read?_write, String.reduceEq, ↓reduceIte]; exact inv.hlen
      · simp only [crcEnvRound, read?_write, String.reduceEq, ↓reduceIte]
    obtain ⟨env', hrun, hc, hi, hfr⟩ := ih (k + 1) _
      (cs ++ [crcProbeCall k, crcTableCall (bs[k] ^^^ lo s).toNat]) (Crc.step s bs[k]) (by omega) inv2 f
      (by omega)
    refine ⟨env', ?_, ?_, hi, ?_⟩
    · rw [execFrom_loop_of_fell _ hb, hrun]
      simp only [crcTrace, List.append_assoc, List.cons_append, List.nil_append]
    · rw [hc]; rfl
    · intro x hx
      rw [hfr x hx]
      have n1 : ¬ "in[#i]" = x := by intro h; apply hx; rw [← h]; simp [crcWritten]
      have n2 : ¬ "b" = x := by intro h; apply hx; rw [← h]; simp [crcWritten]
      have n3 : ¬ "index" = x := by intro h; apply hx; rw [← h]; simp [crcWritten]
      have n4 : ¬ "c.crc" = x := by intro h; apply hx; rw [← h]; simp [crcWritten]
      have n5 : ¬ "#crcTable[index]" = x := by intro h; apply hx; rw [← h]; simp [crcWritten]
      have n6 : ¬ "#i" = x := by intro h; apply hx; rw [← h]; simp [crcWritten]
      simp only [crcEnvRound, read?_write, n1, n2, n3, n4, n5, n6, ↓reduceIte]

/-- **the whole (instrumented) `crc.add`**, from any environment holding `len(in)` and `c.crc`, any
    call history, every fuel ≥ len + 16 -/
theorem crc_run (bs : Bytes) (hn : bs.length < 2^63) (s : U16) (env : Env) (cs : Calls)
    (hlen : Env.read? env "len(in)" = some (.int (bs.length : Int)))
    (hcrc : Env.read? env "c.crc" = some (.int (s.toNat : Int)))
    (fuel : Nat) (hf : bs.length + 16 ≤ fuel) :
    ∃ env', execFrom (crcOracle bs) fuel crcGs env cs = ⟨env', .returned, cs ++ crcTrace 0 bs s⟩ ∧
      Env.read? env' "c.crc" = some (.int ((Crc.add s bs).toNat : Int)) ∧
      (∀ x, x ∉ crcWritten → x ≠ "#len(in)" → Env.read? env' x = Env.read? env x) := by
  obtain ⟨g, rfl⟩ : ∃ g, fuel = g + 4 := ⟨fuel - 4, by omega⟩
  have inv : CrcInv bs 0 s
      (Env.write (Env.write env "#len(in)" (.int (bs.length : Int))) "#i" (.int 0)) := by
    constructor
    · simp only [read?_write, ↓reduceIte]; rfl
    · simp only [read?_write, String.reduceEq, ↓reduceIte]
    · simp only [read?_write, String.reduceEq, ↓reduceIte]; exact hcrc
  obtain ⟨env', hrun, hc, hi, hfr⟩ := crc_loop bs hn bs.length 0 _ cs s (by omega) inv (g + 1) (by omega)
  rw [List.drop_zero] at hrun hc
  refine ⟨env', ?_, hc, ?_⟩
  · simp only [crcGs_eq, crcAddWith, execFrom_seq, execFrom_assign, panics_var, panics_lit, eval_var,
      eval_lit, hlen, eval_var_some, seqK_fell, Bool.false_eq_true, ↓reduceIte, hrun, execFrom_ret]
  · intro x hx hx2
    rw [hfr x hx]
    have n1 : ¬ "#i" = x := by intro h; apply hx; rw [← h]; simp [crcWritten]
    have n2 : ¬ "#len(in)" = x := fun h => hx2 h.symm
    simp only [read?_write, n1, n2, ↓reduceIte]

/-! ### 7. `init`, `value`, `isEqual`, and the two encoding.go helpers -/

theorem crc_init_run (o : Oracle) (env : Env) (cs : Calls) (fuel : Nat) (hf : 2 ≤ fuel) :
    execFrom o fuel gs_crc_init env cs = ⟨Env.write env "c.crc" (.int 65535), .returned, cs⟩ := by
  have h : execFrom o 2 gs_crc_init env cs = ⟨Env.write env "c.crc" (.int 65535), .returned, cs⟩ := by
    go_eval_nowrap [gs_crc_init]
  exact execFrom_ge _ h (fun h => nomatch h) fuel hf

theorem crc_value_run (o : Oracle) (v : Int) (rs : List Val) (env : Env) (cs : Calls)
    (ho : o "uint16ToBytes" [.int 2, .int v] = some rs)
    (hcrc : Env.read? env "c.crc" = some (.int v)) (fuel : Nat) (hf : 2 ≤ fuel) :
    execFrom o fuel gs_crc_value env cs =
      ⟨Env.write env "value" (rs.headD .unk), .returned, cs ++ [("uint16ToBytes", [.int 2, .int v])]⟩ := by
  have h : execFrom o 2 gs_crc_value env cs =
      ⟨Env.write env "value" (rs.headD .unk), .returned, cs ++ [("uint16ToBytes", [.int 2, .int v])]⟩ := by
    go_eval_nowrap [gs_crc_value, hcrc, ho]
  exact execFrom_ge _ h (fun h => nomatch h) fuel hf

/-- `uint16ToBytes(LITTLE_ENDIAN, v)`: the `switch` takes the `LITTLE_ENDIAN` (= 2) case: exactly one
    call, `binary.LittleEndian.PutUint16(out, v)` on the fresh `make([]byte, 2)`, which is returned -/
theorem crc_uint16ToBytes_le (o : Oracle) (v mk : Val) (env : Env) (cs : Calls)
    (ho : o "binary.LittleEndian.PutUint16" [mk, v] = some [])
    (he : Env.read? env "endianness" = some (.int 2))
    (hin : Env.read? env "in" = some v)
    (hmk : Env.read? env "make([]byte, 2)" = some mk) (fuel : Nat) (hf : 8 ≤ fuel) :
    execFrom o fuel gs_uint16ToBytes env cs =
      ⟨Env.write env "out" mk, .returned, cs ++ [("binary.LittleEndian.PutUint16", [mk, v])]⟩ := by
  have h : execFrom o 8 gs_uint16ToBytes env cs =
      ⟨Env.write env "out" mk, .returned, cs ++ [("binary.LittleEndian.PutUint16", [mk, v])]⟩ := by
    go_eval_nowrap [gs_uint16ToBytes, he, hin, hmk, ho, Int.reduceEq]
  exact execFrom_ge _ h (fun h => nomatch h) fuel hf

/-- `bytesToUint16(LITTLE_ENDIAN, in)`: exactly one call, `binary.LittleEndian.Uint16(in)`, whose
    result is returned in `out` -/
theorem crc_bytesToUint16_le (o : Oracle) (a r : Val) (env : Env) (cs : Calls)
    (ho : o "binary.LittleEndian.Uint16" [a] = some [r])
    (he : Env.read? env "endianness" = some (.int 2))
    (hin : Env.read? env "in" = some a) (fuel : Nat) (hf : 8 ≤ fuel) :
    execFrom o fuel gs_bytesToUint16 env cs =
      ⟨Env.write env "out" r, .returned, cs ++ [("binary.LittleEndian.Uint16", [a])]⟩ := by
  have h : execFrom o 8 gs_bytesToUint16 env cs =
      ⟨Env.write env "out" r, .returned, cs ++ [("binary.LittleEndian.Uint16", [a])]⟩ := by
    go_eval_nowrap [gs_bytesToUint16, he, hin, ho, Int.reduceEq]
  exact execFrom_ge _ h (fun h => nomatch h) fuel hf

/-- `encoding/binary` `littleEndian.PutUint16(b, v)`: `b[0] = byte(v); b[1] = byte(v >> 8)`
    (transcribed from the standard library; not derived) -/
def putLE16 (v : Nat) : Bytes := [byteOfNat v, byteOfNat (v >>> 8)]

/-- `encoding/binary` `littleEndian.Uint16(b)`: `uint16(b[0]) | uint16(b[1])<<8` (transcribed) -/
def leU16 (b0 b1 : Byte) : Nat := b0.toNat ||| (b1.toNat <<< 8)

theorem putLE16_eq (s : U16) : putLE16 s.toNat = Crc.value s := by
  have hs := s.isLt
  simp only [putLE16, Crc.value, le16, byteOfNat, List.cons.injEq, and_true]
  constructor
  · apply BitVec.eq_of_toNat_eq
    rw [crc_lo_toNat, BitVec.toNat_ofNat]
  · apply BitVec.eq_of_toNat_eq
    rw [crc_hi_toNat, BitVec.toNat_ofNat, Nat.shiftRight_eq_div_pow]
    omega

theorem leU16_eq (low high : Byte) : leU16 low high = (mk16 high low).toNat := by
  simp only [leU16, mk16, BitVec.toNat_append]
  exact Nat.or_comm _ _

theorem crc_isEqual_decide (s : U16) (low high : Byte) :
    decide ((((mk16 high low).toNat : Nat) : Int) = ((s.toNat : Nat) : Int)) = Crc.isEqual s low high := by
  unfold Crc.isEqual
  by_cases h : mk16 high low = s
  · rw [h]; simp
  · have h' : ¬ (mk16 high low).toNat = s.toNat := fun e => h (BitVec.eq_of_toNat_eq e)
    have h'' : ¬ (((mk16 high low).toNat : Nat) : Int) = ((s.toNat : Nat) : Int) := by omega
    simp [h, h'']

/-- `crc.isEqual`: `yes` is the comparison of the leaf `bytesToUint16(LITTLE_ENDIAN, []byte{low, high})`
    with `c.crc` -/
theorem crc_isEqual_run (o : Oracle) (w v : Int) (env : Env) (cs : Calls)
    (hleaf : Env.read? env "bytesToUint16(LITTLE_ENDIAN, []byte{low, high})" = some (.int w))
    (hcrc : Env.read? env "c.crc" = some (.int v)) (fuel : Nat) (hf : 2 ≤ fuel) :
    execFrom o fuel gs_crc_isEqual env cs =
      ⟨Env.write env "yes" (Val.ofBool (decide (w = v))), .returned, cs⟩ := by
  have h : execFrom o 2 gs_crc_isEqual env cs =
      ⟨Env.write env "yes" (Val.ofBool (decide (w = v))), .returned, cs⟩ := by
    go_eval_nowrap [gs_crc_isEqual, hleaf, hcrc]
  exact execFrom_ge _ h (fun h => nomatch h) fuel hf

end Modbus.GoEval
