import ModbusVerif.Model.Chunked
/-
  C12, whole calls / whole sessions: the chunked client call, the datagram-adapter client call,
  the chunked history and the chunked server session compute what the flat model computes on
  the concatenated stream.
-/
namespace Modbus.Chunked

namespace Client
open Modbus Modbus.Client

/-! ### the transport read -/

theorem transportReadC_flat (k : Kind) (txn : U16) (src : List Bytes) (e : Ending) :
    (transportReadC k txn src e).1 = (transportRead k txn src.flatten e).1 ∧
    ((transportReadC k txn src e).2).flatten = (transportRead k txn src.flatten e).2 := by
  unfold transportReadC transportRead
  cases k.isRtu with
  | true => exact Rtu.afterReadC_readFrameC_flatten src e
  | false => exact Mbap.readResponseC_flatten txn src e

theorem transportReadC_eq (k : Kind) (txn : U16) (src : List Bytes) (e : Ending) :
    transportRead k txn src.flatten e =
      ((transportReadC k txn src e).1, ((transportReadC k txn src e).2).flatten) :=
  Prod.ext (transportReadC_flat k txn src e).1.symm (transportReadC_flat k txn src e).2.symm

theorem transportReadU_flat (k : Kind) (txn : U16) (s : Udp.State) (e : Ending) :
    (transportReadU k txn s e).1 = (transportRead k txn s.pendingBytes e).1 ∧
    (transportReadU k txn s e).2.pendingBytes = (transportRead k txn s.pendingBytes e).2 := by
  unfold transportReadU transportRead
  cases k.isRtu with
  | true => exact Rtu.afterReadU_readFrameU_pending s e
  | false => exact Mbap.readResponseU_pending txn s e

theorem transportReadU_eq (k : Kind) (txn : U16) (s : Udp.State) (e : Ending) :
    transportRead k txn s.pendingBytes e =
      ((transportReadU k txn s e).1, (transportReadU k txn s e).2.pendingBytes) :=
  Prod.ext (transportReadU_flat k txn s e).1.symm (transportReadU_flat k txn s e).2.symm

/-- datagrams queued behind the socket's content extend the pending byte stream -/
theorem pendingBytes_enqueue (s : Udp.State) (dgrams : List Bytes) :
    (enqueue s dgrams).pendingBytes = s.pendingBytes ++ dgramBytes dgrams := by
  simp [enqueue, Udp.State.pendingBytes, dgramBytes, List.append_assoc]

/-- datagrams that fit the receive buffer arrive unchanged -/
theorem dgramBytes_of_small {dgrams : List Bytes} (h : ∀ d ∈ dgrams, d.length ≤ Udp.rxbufLen) :
    dgramBytes dgrams = dgrams.flatten := by
  have := Udp.pendingBytes_fresh h
  simpa [Udp.State.pendingBytes, dgramBytes] using this

/-! ### one core call -/

theorem exchangeC_flat (c : Core) (cfg : Cfg) (st : TStateC) (src : List Bytes) (e : Ending) :
    (Core.exchangeC c cfg st src e).flat = c.exchange cfg st.flat src.flatten e := by
  unfold Core.exchangeC Core.exchange
  cases c.request with
  | error err => rfl
  | ok fp =>
    obtain ⟨fc, payload⟩ := fp
    simp only []
    have hp : st.flat.pending ++ src.flatten = (st.pending ++ src).flatten := by
      simp [TStateC.flat]
    rw [hp, transportReadC_eq]
    simp only []
    cases unitCheck cfg.unitId
      (transportReadC cfg.kind (frameFor cfg.kind st.flat ⟨cfg.unitId, fc, payload⟩).2
        (st.pending ++ src) e).1 <;> rfl

theorem exchangeU_flat (c : Core) (cfg : Cfg) (st : TStateU) (dgrams : List Bytes) (e : Ending) :
    (Core.exchangeU c cfg st dgrams e).flat = c.exchange cfg st.flat (dgramBytes dgrams) e := by
  unfold Core.exchangeU Core.exchange
  cases c.request with
  | error err => rfl
  | ok fp =>
    obtain ⟨fc, payload⟩ := fp
    simp only []
    have hp : st.flat.pending ++ dgramBytes dgrams = (enqueue st.sock dgrams).pendingBytes := by
      rw [pendingBytes_enqueue]; rfl
    rw [hp, transportReadU_eq]
    simp only []
    cases unitCheck cfg.unitId
      (transportReadU cfg.kind (frameFor cfg.kind st.flat ⟨cfg.unitId, fc, payload⟩).2
        (enqueue st.sock dgrams) e).1 <;> rfl

/-! ### one public call -/

theorem runC_flat (op : Op) (cfg : Cfg) (st : TStateC) (src : List Bytes) (e : Ending) :
    (Op.runC op cfg st src e).flat = op.run cfg st.flat src.flatten e := by
  unfold Op.runC Op.run
  cases op.core cfg with
  | none => rfl
  | some c =>
    simp only []
    rw [← exchangeC_flat]
    rfl

theorem runU_flat (op : Op) (cfg : Cfg) (st : TStateU) (dgrams : List Bytes) (e : Ending) :
    (Op.runU op cfg st dgrams e).flat = op.run cfg st.flat (dgramBytes dgrams) e := by
  unfold Op.runU Op.run
  cases op.core cfg with
  | none => rfl
  | some c =>
    simp only []
    rw [← exchangeU_flat]
    rfl

/-! ### histories -/

theorem historyC_flat (calls : List CallC) :
    ∀ st : TStateC,
      (historyC st calls).1 = (history st.flat (calls.map CallC.flat)).1 ∧
      (historyC st calls).2.flat = (history st.flat (calls.map CallC.flat)).2 := by
  induction calls with
  | nil => intro st; exact ⟨rfl, rfl⟩
  | cons c cs ih =>
    intro st
    have h := runC_flat c.op c.cfg st c.arrivals c.ending
    have hw : (Op.runC c.op c.cfg st c.arrivals c.ending).written =
        (c.op.run c.cfg st.flat c.arrivals.flatten c.ending).written := congrArg Result.written h
    have hr : (Op.runC c.op c.cfg st c.arrivals c.ending).result =
        (c.op.run c.cfg st.flat c.arrivals.flatten c.ending).result := congrArg Result.result h
    have hs : (Op.runC c.op c.cfg st c.arrivals c.ending).state.flat =
        (c.op.run c.cfg st.flat c.arrivals.flatten c.ending).state := congrArg Result.state h
    obtain ⟨i1, i2⟩ := ih (Op.runC c.op c.cfg st c.arrivals c.ending).state
    simp only [historyC, history, List.map_cons, CallC.flat]
    rw [hs] at i1 i2
    exact ⟨by rw [hw, hr, i1], i2⟩

end Client

/-! ### the server session -/
namespace Server
open Modbus Modbus.Server

theorem runAuxC_eq {σ : Type} (h : Handler σ) (e : Ending) :
    ∀ (fuel : Nat) (st : σ) (src : List Bytes),
      runAuxC h fuel st src e = runAux h fuel st src.flatten e := by
  intro fuel
  induction fuel with
  | zero => intro st src; rfl
  | succ fuel ih =>
    intro st src
    have hf : Mbap.readFrame src.flatten e =
        ((Mbap.readFrameC src e).1, ((Mbap.readFrameC src e).2).flatten) :=
      Prod.ext (Mbap.readFrameC_flatten src e).1.symm (Mbap.readFrameC_flatten src e).2.symm
    unfold runAuxC runAux
    rw [hf]
    cases hc : Mbap.readFrameC src e with
    | mk r rest =>
      cases r with
      | err err => rfl
      | ok req txn =>
        simp only []
        rw [ih]
        cases (handle h st req).2.snd <;> rfl

theorem runC_eq {σ : Type} (h : Handler σ) (st : σ) (src : List Bytes) (e : Ending) :
    runC h st src e = run h st src.flatten e :=
  runAuxC_eq h e _ st src

end Server
end Modbus.Chunked
