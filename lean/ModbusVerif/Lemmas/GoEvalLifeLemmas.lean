import ModbusVerif.Lemmas.GoEvalFrameLemmas
import ModbusVerif.Lemmas.LifecycleLemmas
/-
  Helpers for the source tie of the server's LIFE-CYCLE functions (Props/C09Src.lean,
  Props/C10Src.lean): `ModbusServer.Start`, `Stop`, `acceptTCPClients`, `handleTCPClient` as
  rendered by /verif/extract/gstmt.go (`Gen.gs_ModbusServer_*`).

  1. composition: running `seq a b` / `loop b` when the run of the first part is known
     (`execFrom_seq_of_fell`, `execFrom_loop_of_*`, `execFrom_ge`), so that a function can be
     evaluated piece by piece, every piece for all sufficiently large fuels.
  2. static helpers: `afterOpaque` (what is executed after an `opaque` statement falls through).
  3. INDEX-DEPENDENT LEAVES. The removal loop of `handleTCPClient` is rendered as a counted loop
     over `i` whose body reads the leaf `ms.tcpClients[i]`. Leaves are keyed by their TEXT, the
     index `i` inside the text is not evaluated: in ONE environment the leaf has ONE value, whatever
     `i` is. `withProbe leaf probe idx` is a syntactic instrumentation: at the head of every loop
     body it inserts the pseudo-call

         bindCall [leaf] probe [var idx .int]          (`ms.tcpClients[i] := probe(i)`)

     which the oracle answers FROM THE VALUE of the index (`probeVal l`: the element `l[i]` of the
     client list, `unk` outside the list). So the leaf is re-bound from the list and the current `i`
     before every round; nothing else of the generated term is changed (`stripProbe` removes the
     pseudo-calls again: `strip_hGs` on the term at hand). The pseudo-calls are logged
     in `Res.calls` (they record which indexes were inspected); `realCalls` filters them out.
     This is faithful as long as the list is not assigned between two rounds: the loop lemma
     shows that the round that assigns `ms.tcpClients` / `ms.tcpClients[i]` ends with `break`.
  4. `handleTCPClient`: the instrumented term `hGs` and its parts (`hGs_eq`: one-shot `switch` loop
     `dispBody`, then `tailPart` = bound, index, removal loop `remBody`, `sock.Close`, `return`);
     the removal loop: one round (`rem_round_miss` / `_hit` / `_end`), the whole loop by induction
     on the number of remaining elements (`rem_loop`: any entry environment satisfying `RemInv`,
     any call history, every fuel ≥ remaining + 9).
  6. `Stop`: `withRecv` (the receiver of `sock.Close()` made visible in the call log), the
     instrumented term `sGs` = `stopWith (.loop stopBody)`, the prefix (`stopWith_tcp`), one round
     (`stop_round_step` / `_end`), the loop (`stop_loop`), its calls (`stopTrace`,
     `realCalls_stopTrace`).
  5. the reading of the final environment as a list (`clientsAfter`) = `Lifecycle.swapRemove`
     (`clientsAfter_of_RemOut`); the part after the dispatch (`handle_tail`) and the whole function
     given the run of its dispatch part (`handle_compose`, `handle_final`).
-/
set_option linter.unusedSimpArgs false
set_option linter.unusedVariables false

namespace Modbus.GoEval
open Modbus Modbus.Gen Modbus.Lifecycle

/-! ### 1. composition -/

/-- a run that did not run out of fuel is the same for every larger fuel -/
theorem execFrom_ge (o : Oracle) {n : Nat} {s : GStmt} {env : Env} {cs : Calls} {r : Res}
    (h : execFrom o n s env cs = r) (hr : r.how ≠ .outOfFuel) (m : Nat) (hm : n ≤ m) :
    execFrom o m s env cs = r := by
  rw [execFrom_mono o n m s env cs hm (by rw [h]; exact hr), h]

theorem execFrom_seq_of_fell (o : Oracle) {n : Nat} {a : GStmt} (b : GStmt) {env env' : Env}
    {cs cs' : Calls} (h : execFrom o n a env cs = ⟨env', .fell, cs'⟩) :
    execFrom o (n+1) (.seq a b) env cs = execFrom o n b env' cs' := by
  rw [execFrom_seq, h, seqK_fell]

theorem execFrom_seq_of_end (o : Oracle) {n : Nat} {a : GStmt} (b : GStmt) {env : Env}
    {cs : Calls} {r : Res} (h : execFrom o n a env cs = r) (hr : r.how ≠ .fell) :
    execFrom o (n+1) (.seq a b) env cs = r := by
  rw [execFrom_seq, h, seqK_of_not_fell _ _ _ _ hr]

theorem execFrom_loop_of_fell (o : Oracle) {n : Nat} {b : GStmt} {env env' : Env}
    {cs cs' : Calls} (h : execFrom o n b env cs = ⟨env', .fell, cs'⟩) :
    execFrom o (n+1) (.loop b) env cs = execFrom o n (.loop b) env' cs' := by
  rw [execFrom_loop, h, loopK_fell]

theorem execFrom_loop_of_continued (o : Oracle) {n : Nat} {b : GStmt} {env env' : Env}
    {cs cs' : Calls} (h : execFrom o n b env cs = ⟨env', .continued, cs'⟩) :
    execFrom o (n+1) (.loop b) env cs = execFrom o n (.loop b) env' cs' := by
  rw [execFrom_loop, h, loopK_continued]

theorem execFrom_loop_of_broke (o : Oracle) {n : Nat} {b : GStmt} {env env' : Env}
    {cs cs' : Calls} (h : execFrom o n b env cs = ⟨env', .broke, cs'⟩) :
    execFrom o (n+1) (.loop b) env cs = ⟨env', .fell, cs'⟩ := by
  rw [execFrom_loop, h, loopK_broke]

theorem execFrom_loop_of_returned (o : Oracle) {n : Nat} {b : GStmt} {env env' : Env}
    {cs cs' : Calls} (h : execFrom o n b env cs = ⟨env', .returned, cs'⟩) :
    execFrom o (n+1) (.loop b) env cs = ⟨env', .returned, cs'⟩ := by
  rw [execFrom_loop, h, loopK_returned]

/-! ### 2. static helpers -/

/-- `afterOpaque t s k`: the statements that run, in order, once `opaque t` inside `s` falls
    through (the pending right-hand sides of the enclosing `seq`s; an enclosing loop is entered
    again), `k` being what follows `s`. `none`: no such statement. First occurrence. -/
def afterOpaque (t : String) : GStmt → List GStmt → Option (List GStmt)
  | .opaque x, k => if x = t then some k else none
  | .seq a b, k =>
    match afterOpaque t a (b :: k) with
    | some r => some r
    | none => afterOpaque t b k
  | .ite _ a b, k =>
    match afterOpaque t a k with
    | some r => some r
    | none => afterOpaque t b k
  | .loop b, k => afterOpaque t b (.loop b :: k)
  | _, _ => none

/-- the statements of a `seq` chain, in order -/
def seqList : GStmt → List GStmt
  | .seq a b => seqList a ++ seqList b
  | s => [s]

/-! ### 3. index-dependent leaves: the probe instrumentation -/

/-- insert `leaf := probe(idx)` at the head of every loop body -/
def withProbe (leaf probe idx : String) : GStmt → GStmt
  | .seq a b => .seq (withProbe leaf probe idx a) (withProbe leaf probe idx b)
  | .ite c t e => .ite c (withProbe leaf probe idx t) (withProbe leaf probe idx e)
  | .loop b => .loop (.seq (.bindCall [leaf] probe [.var idx .int]) (withProbe leaf probe idx b))
  | s => s

/-- remove the pseudo-calls again -/
def stripProbe (probe : String) : GStmt → GStmt
  | .seq (.bindCall ts f as) b =>
    if f = probe then stripProbe probe b else .seq (.bindCall ts f as) (stripProbe probe b)
  | .seq a b => .seq (stripProbe probe a) (stripProbe probe b)
  | .ite c t e => .ite c (stripProbe probe t) (stripProbe probe e)
  | .loop b => .loop (stripProbe probe b)
  | s => s

/-- the element of the client list at the VALUE of the index; `unk` outside the list (Go: the
    index expression would panic; the loop test `i < len` comes first, the value is never read) -/
def probeVal (l : List ConnId) : Val → Val
  | .int v => if 0 ≤ v then (match l[v.toNat]? with | some c => .int c | none => .unk) else .unk
  | _ => .unk

theorem probeVal_nat (l : List ConnId) (k : Nat) :
    probeVal l (.int (k : Int)) = (match l[k]? with | some c => .int c | none => .unk) := by
  simp [probeVal]

theorem probeVal_lt (l : List ConnId) (k : Nat) (h : k < l.length) :
    probeVal l (.int (k : Int)) = .int (l[k] : Nat) := by
  rw [probeVal_nat, List.getElem?_eq_getElem h]

theorem probeVal_ge (l : List ConnId) (k : Nat) (h : l.length ≤ k) :
    probeVal l (.int (k : Int)) = .unk := by
  rw [probeVal_nat, List.getElem?_eq_none h]

theorem probeVal_unk (l : List ConnId) : probeVal l .unk = .unk := by exact id rfl

/-- the calls of a run without the probes -/
def realCalls (probe : String) (cs : Calls) : Calls := cs.filter (fun c => c.1 != probe)

theorem realCalls_append (p : String) (a b : Calls) :
    realCalls p (a ++ b) = realCalls p a ++ realCalls p b := by
  simp [realCalls]

/-- the probes of the indexes `k, k+1, …` (`cnt` of them) -/
def probeCalls (probe : String) (k cnt : Nat) : Calls :=
  (List.range' k cnt).map (fun (j : Nat) => (probe, [Val.int (j : Int)]))

theorem probeCalls_succ (p : String) (k cnt : Nat) :
    probeCalls p k (cnt + 1) = (p, [Val.int (k : Int)]) :: probeCalls p (k + 1) cnt := by
  simp [probeCalls, List.range'_succ]

theorem realCalls_probeCalls (p : String) (k cnt : Nat) : realCalls p (probeCalls p k cnt) = [] := by
  simp only [realCalls, probeCalls, List.filter_eq_nil_iff, List.mem_map]
  rintro ⟨a, b⟩ ⟨x, _, hx⟩
  cases hx
  simp

/-- number of bindings of key `x` in an environment. `Env.write` only ever prepends, so this
    counts the assignments / bindings made to `x` (plus the initial bindings). -/
def writes (x : String) (env : Env) : Nat := (env.filter (fun p => p.1 == x)).length

theorem writes_write (x k : String) (v : Val) (env : Env) :
    writes x (Env.write env k v) = writes x env + (if k = x then 1 else 0) := by
  simp only [writes, Env.write, List.filter_cons]
  by_cases h : k = x <;> simp [h]


/-! ### 4. `handleTCPClient`: the instrumented term, its parts -/

/-- `handleTCPClient` with the leaf `ms.tcpClients[i]` re-bound from the probe `#ms.tcpClients[i]`
    (argument: the current value of `i`) at the head of every loop round -/
def hGs : GStmt := withProbe "ms.tcpClients[i]" "#ms.tcpClients[i]" "i" gs_ModbusServer_handleTCPClient

/-- the inserted pseudo-call -/
def probeStmt : GStmt := .bindCall ["ms.tcpClients[i]"] "#ms.tcpClients[i]" [.var "i" .int]

/-- the `switch ms.transportType` (body of its one-shot loop), with the probe -/
def dispBody : GStmt :=
  (.seq probeStmt (.seq (.ite (.cmp "==" (.var "ms.transportType" .uint) (.lit (4) .uint)) (.bindCall [] "ms.handleTransport" [(.call "newTCPTransport(sock, ms.conf.Timeout, ms.conf.Logger)" .other), (.call "sock.RemoteAddr().String()" .other), (.call "\"\"" .other)]) (.ite (.cmp "==" (.var "ms.transportType" .uint) (.lit (5) .uint)) (.seq (.bindCall ["tlsSock", "clientRole", "err"] "ms.startTLS" [(.var "sock" .other)]) (.ite (.cmp "!=" (.var "err" .other) (.var "nil" .other)) .skip (.bindCall [] "ms.handleTransport" [(.call "newTCPTransport(tlsSock, ms.conf.Timeout, ms.conf.Logger)" .other), (.call "sock.RemoteAddr().String()" .other), (.var "clientRole" .other)]))) .skip)) .brk))

/-- one round of the removal loop, with the probe -/
def remBody : GStmt :=
  (.seq probeStmt (.ite (.cmp "<" (.var "i" .int) (.var "#len(ms.tcpClients)" .int)) (.seq (.ite (.cmp "==" (.var "ms.tcpClients[i]" .other) (.var "sock" .other)) (.seq (.assign "ms.tcpClients[i]" (.var "ms.tcpClients[len(ms.tcpClients)-1]" .other)) (.seq (.assign "ms.tcpClients" (.call "ms.tcpClients[:len(ms.tcpClients)-1]" .other)) .brk)) .skip) (.assign "i" (.bin "+" .int (.var "i" .int) (.lit 1 .int)))) .brk))

/-- the instrumented term, literally (checked against the generated term by `rfl`) -/
theorem hGs_eq : hGs = .seq (.loop dispBody)
    (.seq (.seq (.assign "#len(ms.tcpClients)" (.var "len(ms.tcpClients)" .int))
            (.seq (.assign "i" (.lit 0 .int)) (.loop remBody)))
          (.seq (.bindCall [] "sock.Close" []) .ret)) := by rfl

theorem strip_hGs : stripProbe "#ms.tcpClients[i]" hGs = gs_ModbusServer_handleTCPClient := by rfl

theorem remBody_loopFree : loopFree remBody = true ∧ depth remBody = 7 := by decide
theorem dispBody_loopFree : loopFree dispBody = true ∧ depth dispBody = 7 := by decide

/-- the probe is answered from the client list `l` and the VALUE of the index; `ms.startTLS`
    returns `tls` = `[tlsSock, clientRole, err]`; `ms.handleTransport` and `sock.Close` are
    performed (and logged) -/
def handleOracle (l : List ConnId) (tls : List Val) : Oracle := fun f args =>
  if f = "#ms.tcpClients[i]" then some [probeVal l (args.headD .unk)]
  else if f = "ms.handleTransport" then some []
  else if f = "ms.startTLS" then some tls
  else if f = "sock.Close" then some []
  else none

/-- the leaf `ms.tcpClients[len(ms.tcpClients)-1]`: the last element (`unk` for an empty list: Go
    would panic; never read then) -/
def lastVal (l : List ConnId) : Val :=
  match l.getLast? with
  | some x => .int (x : Nat)
  | none => .unk

/-- what the removal loop needs of its environment when a round starts with `i = k`: the bound,
    the socket, the two leaves of the swap-remove -/
structure RemInv (l : List ConnId) (c : ConnId) (k : Nat) (env : Env) : Prop where
  hi : Env.read? env "i" = some (.int (k : Int))
  hlen : Env.read? env "#len(ms.tcpClients)" = some (.int (l.length : Int))
  hsock : Env.read? env "sock" = some (.int (c : Nat))
  hlast : Env.read? env "ms.tcpClients[len(ms.tcpClients)-1]" = some (lastVal l)
  hslice : Env.read? env "ms.tcpClients[:len(ms.tcpClients)-1]" =
    some (.sym "ms.tcpClients[:len(ms.tcpClients)-1]")

/-- a round at an index holding another socket: the leaf is bound to `l[k]`, `i` is incremented -/
theorem rem_round_miss (l : List ConnId) (tls : List Val) (c : ConnId) (k : Nat) (env : Env) (cs : Calls)
    (hn : l.length < 2^62) (hk : k < l.length) (hne : l[k] ≠ c) (inv : RemInv l c k env) :
    execFrom (handleOracle l tls) 8 remBody env cs =
      ⟨Env.write (Env.write env "ms.tcpClients[i]" (.int (l[k] : Nat))) "i" (.int ((k + 1 : Nat) : Int)),
        .fell, cs ++ [("#ms.tcpClients[i]", [.int (k : Int)])]⟩ := by
  have h1 := inv.hi
  have h2 := inv.hlen
  have h3 := inv.hsock
  have hp := probeVal_lt l k hk
  have hlt : (k : Int) < (l.length : Int) := by omega
  have hne' : ¬ (((l[k] : Nat) : Int) = ((c : Nat) : Int)) := fun h => hne (Int.ofNat_inj.mp h)
  have hw : wrap .int ((k : Int) + 1) = ((k + 1 : Nat) : Int) := by
    rw [wrap_int (by omega) (by omega)]; omega
  go_eval_nowrap [remBody, probeStmt, handleOracle, h1, h2, h3, hp, hlt, hne', hw]


/-- a round at an index holding `c`: the two assignments, in that order, then `break` -/
theorem rem_round_hit (l : List ConnId) (tls : List Val) (c : ConnId) (k : Nat) (env : Env) (cs : Calls)
    (hk : k < l.length) (he : l[k] = c) (inv : RemInv l c k env) :
    execFrom (handleOracle l tls) 8 remBody env cs =
      ⟨Env.write (Env.write (Env.write env "ms.tcpClients[i]" (.int (l[k] : Nat)))
          "ms.tcpClients[i]" (lastVal l)) "ms.tcpClients" (.sym "ms.tcpClients[:len(ms.tcpClients)-1]"),
        .broke, cs ++ [("#ms.tcpClients[i]", [.int (k : Int)])]⟩ := by
  have h1 := inv.hi
  have h2 := inv.hlen
  have h3 := inv.hsock
  have h4 := inv.hlast
  have h5 := inv.hslice
  have hp := probeVal_lt l k hk
  have hlt : (k : Int) < (l.length : Int) := by omega
  have he' : (((l[k] : Nat) : Int) = ((c : Nat) : Int)) := by rw [he]
  go_eval_nowrap [remBody, probeStmt, handleOracle, h1, h2, h3, h4, h5, hp, hlt, he']

/-- the round with `i = len`: the loop test fails, `break`; nothing assigned (the probe, out of
    range, binds `unk`, which is never read) -/
theorem rem_round_end (l : List ConnId) (tls : List Val) (c : ConnId) (env : Env) (cs : Calls)
    (inv : RemInv l c l.length env) :
    execFrom (handleOracle l tls) 8 remBody env cs =
      ⟨Env.write env "ms.tcpClients[i]" .unk, .broke,
        cs ++ [("#ms.tcpClients[i]", [.int (l.length : Int)])]⟩ := by
  have h1 := inv.hi
  have h2 := inv.hlen
  have hp := probeVal_ge l l.length (Nat.le_refl _)
  go_eval_nowrap [remBody, probeStmt, handleOracle, h1, h2, hp, Int.lt_irrefl]

/-- what the removal loop, entered with `i = k`, leaves behind -/
def RemOut (l : List ConnId) (c : ConnId) (k : Nat) (env env' : Env) (cnt : Nat) : Prop :=
  match l.findIdx? (· == c) with
  | some p =>
    k ≤ p ∧ cnt = p - k + 1 ∧ Env.read? env' "i" = some (.int (p : Int)) ∧
      Env.read? env' "ms.tcpClients[i]" = some (lastVal l) ∧
      Env.read? env' "ms.tcpClients" = some (.sym "ms.tcpClients[:len(ms.tcpClients)-1]") ∧
      writes "ms.tcpClients" env' = writes "ms.tcpClients" env + 1 ∧
      writes "ms.tcpClients[i]" env' = writes "ms.tcpClients[i]" env + cnt + 1
  | none =>
    cnt = l.length - k + 1 ∧ Env.read? env' "i" = some (.int (l.length : Int)) ∧
      Env.read? env' "ms.tcpClients" = Env.read? env "ms.tcpClients" ∧
      writes "ms.tcpClients" env' = writes "ms.tcpClients" env ∧
      writes "ms.tcpClients[i]" env' = writes "ms.tcpClients[i]" env + cnt

theorem findIdx?_none_of_all_ne (l : List ConnId) (c : ConnId)
    (h : ∀ j (hj : j < l.length), l[j] ≠ c) : l.findIdx? (· == c) = none := by
  rw [List.findIdx?_eq_none_iff]
  intro x hx
  obtain ⟨j, hj, rfl⟩ := List.getElem_of_mem hx
  simpa using h j hj

theorem findIdx?_some_of_first (l : List ConnId) (c : ConnId) (k : Nat) (hk : k < l.length)
    (he : l[k] = c) (hpre : ∀ j (hj : j < l.length), j < k → l[j] ≠ c) :
    l.findIdx? (· == c) = some k := by
  rw [List.findIdx?_eq_some_iff_getElem]
  refine ⟨hk, by simpa using he, fun j hjk => ?_⟩
  simpa using hpre j (by omega) hjk

/-- **the removal loop**, entered with `i = k`, no element before `k` being `c`: it falls through
    (never returns, never gets stuck), performs no real call, probes the indexes `k, k+1, …`
    (`cnt` of them) and leaves `RemOut` -/
theorem rem_loop (l : List ConnId) (tls : List Val) (c : ConnId) (hn : l.length < 2^62) :
    ∀ (d k : Nat) (env : Env) (cs : Calls), k + d = l.length → RemInv l c k env →
      (∀ j (hj : j < l.length), j < k → l[j] ≠ c) → ∀ fuel, d + 9 ≤ fuel →
      ∃ env' cnt, execFrom (handleOracle l tls) fuel (.loop remBody) env cs =
          ⟨env', .fell, cs ++ probeCalls "#ms.tcpClients[i]" k cnt⟩ ∧ RemOut l c k env env' cnt := by
  intro d
  induction d with
  | zero =>
    intro k env cs hkd inv hpre fuel hf
    have hk : k = l.length := by omega
    subst hk
    obtain ⟨f, rfl⟩ : ∃ f, fuel = f + 1 := ⟨fuel - 1, by omega⟩
    have hb := execFrom_ge _ (rem_round_end l tls c env cs inv) (fun h => nomatch h) f (by omega)
    refine ⟨Env.write env "ms.tcpClients[i]" .unk, 1, ?_, ?_⟩
    · rw [execFrom_loop_of_broke _ hb]; rfl
    · have hnone := findIdx?_none_of_all_ne l c (fun j hj => hpre j hj hj)
      simp only [RemOut, hnone, Nat.sub_self, Nat.zero_add, true_and]
      refine ⟨?_, ?_, ?_, ?_⟩
      · simp only [read?_write, String.reduceEq, ↓reduceIte]; exact inv.hi
      · simp only [read?_write, String.reduceEq, ↓reduceIte]
      · simp only [writes_write, String.reduceEq, ↓reduceIte, Nat.add_zero]
      · simp only [writes_write, ↓reduceIte]
  | succ d ih =>
    intro k env cs hkd inv hpre fuel hf
    have hk : k < l.length := by omega
    obtain ⟨f, rfl⟩ : ∃ f, fuel = f + 1 := ⟨fuel - 1, by omega⟩
    by_cases he : l[k] = c
    · have hb := execFrom_ge _ (rem_round_hit l tls c k env cs hk he inv) (fun h => nomatch h) f (by omega)
      refine ⟨Env.write (Env.write (Env.write env "ms.tcpClients[i]" (.int (l[k] : Nat)))
          "ms.tcpClients[i]" (lastVal l)) "ms.tcpClients" (.sym "ms.tcpClients[:len(ms.tcpClients)-1]"),
        1, ?_, ?_⟩
      · rw [execFrom_loop_of_broke _ hb]; rfl
      · have hsome := findIdx?_some_of_first l c k hk he hpre
        simp only [RemOut, hsome, Nat.sub_self, Nat.zero_add, Nat.le_refl, true_and]
        refine ⟨?_, ?_, ?_, ?_, ?_⟩
        · simp only [read?_write, String.reduceEq, ↓reduceIte]; exact inv.hi
        · simp only [read?_write, String.reduceEq, ↓reduceIte]
        · simp only [read?_write, String.reduceEq, ↓reduceIte]
        · simp only [writes_write, String.reduceEq, ↓reduceIte, Nat.add_zero]
        · simp only [writes_write, String.reduceEq, ↓reduceIte, Nat.add_zero]
    · have hb := execFrom_ge _ (rem_round_miss l tls c k env cs hn hk he inv) (fun h => nomatch h) f (by omega)
      have inv' : RemInv l c (k + 1)
          (Env.write (Env.write env "ms.tcpClients[i]" (.int (l[k] : Nat))) "i" (.int ((k + 1 : Nat) : Int))) := by
        constructor
        · simp only [read?_write, ↓reduceIte]
        · simp only [read?_write, String.reduceEq, ↓reduceIte]; exact inv.hlen
        · simp only [read?_write, String.reduceEq, ↓reduceIte]; exact inv.hsock
        · simp only [read?_write, String.reduceEq, ↓reduceIte]; exact inv.hlast
        · simp only [read?_write, String.reduceEq, ↓reduceIte]; exact inv.hslice
      have hpre' : ∀ j (hj : j < l.length), j < k + 1 → l[j] ≠ c := by
        intro j hj hjk
        by_cases hjk' : j = k
        · subst hjk'; exact he
        · exact hpre j hj (by omega)
      obtain ⟨env', cnt, hrun, hout⟩ := ih (k + 1) _ (cs ++ [("#ms.tcpClients[i]", [.int (k : Int)])])
        (by omega) inv' hpre' f (by omega)
      refine ⟨env', cnt + 1, ?_, ?_⟩
      · rw [execFrom_loop_of_fell _ hb, hrun, probeCalls_succ, List.append_assoc]; rfl
      · revert hout
        simp only [RemOut]
        cases l.findIdx? (· == c) with
        | none =>
          simp only [read?_write, writes_write, String.reduceEq, ↓reduceIte, Nat.add_zero]
          rintro ⟨h1, h2, h3, h4, h5⟩
          exact ⟨by omega, h2, h3, h4, by omega⟩
        | some p =>
          simp only [read?_write, writes_write, String.reduceEq, ↓reduceIte, Nat.add_zero]
          rintro ⟨h0, h1, h2, h3, h4, h5, h6⟩
          exact ⟨by omega, by omega, h2, h3, h4, h5, by omega⟩

/-! ### 5. reading the final environment as a list; the part after the dispatch -/

/-- `RemOut` only looks at the keys `ms.tcpClients`, `ms.tcpClients[i]` of the entry environment -/
theorem RemOut_congr (l : List ConnId) (c : ConnId) (k : Nat) (env₁ env₂ env' : Env) (cnt : Nat)
    (h1 : Env.read? env₁ "ms.tcpClients" = Env.read? env₂ "ms.tcpClients")
    (h2 : writes "ms.tcpClients" env₁ = writes "ms.tcpClients" env₂)
    (h3 : writes "ms.tcpClients[i]" env₁ = writes "ms.tcpClients[i]" env₂)
    (h : RemOut l c k env₁ env' cnt) : RemOut l c k env₂ env' cnt := by
  revert h
  simp only [RemOut, h1, h2, h3]
  exact id

/-- the client list denoted by the environment after the removal part, `l` being the list before:
    `ms.tcpClients` not assigned: `l`; assigned the leaf `ms.tcpClients[:len(ms.tcpClients)-1]`:
    `l` with the element at (the final value of) `i` replaced by the final value of
    `ms.tcpClients[i]`, then without its last element. (The element assignment does not change the
    length, so `len(ms.tcpClients)` inside the slice text is still `l.length`.) -/
def clientsAfter (l : List ConnId) (env : Env) : Option (List ConnId) :=
  if Env.read? env "ms.tcpClients" = some (.sym "ms.tcpClients[:len(ms.tcpClients)-1]") then
    match Env.read? env "i", Env.read? env "ms.tcpClients[i]" with
    | some (.int i), some (.int v) =>
      if 0 ≤ i ∧ 0 ≤ v then some ((l.set i.toNat v.toNat).dropLast) else none
    | _, _ => none
  else if Env.read? env "ms.tcpClients" = none then some l
  else none

/-- **the removal loop = `Lifecycle.swapRemove`** -/
theorem clientsAfter_of_RemOut (l : List ConnId) (c : ConnId) (env env' : Env) (cnt : Nat)
    (hfield : Env.read? env "ms.tcpClients" = none) (h : RemOut l c 0 env env' cnt) :
    clientsAfter l env' = some (swapRemove l c) := by
  revert h
  simp only [RemOut, swapRemove]
  cases hfi : l.findIdx? (· == c) with
  | none =>
    rintro ⟨_, _, h3, _, _⟩
    simp [clientsAfter, h3, hfield]
  | some p =>
    rintro ⟨_, _, h2, h3, h4, _, _⟩
    have hp : p < l.length := by
      obtain ⟨hp, _⟩ := List.findIdx?_eq_some_iff_getElem.mp hfi
      exact hp
    cases hl : l.getLast? with
    | none =>
      have : l = [] := List.getLast?_eq_none_iff.mp hl
      subst this
      simp at hp
    | some x =>
      have hlv : lastVal l = .int (x : Nat) := by simp only [lastVal, hl]
      rw [hlv] at h3
      simp only [clientsAfter, h4, h2, h3, ↓reduceIte]
      simp

/-- `#len := len(ms.tcpClients); i := 0; loop; sock.Close(); return` -/
def tailPart : GStmt :=
  (.seq (.seq (.assign "#len(ms.tcpClients)" (.var "len(ms.tcpClients)" .int))
            (.seq (.assign "i" (.lit 0 .int)) (.loop remBody)))
        (.seq (.bindCall [] "sock.Close" []) .ret))

theorem hGs_eq' : hGs = .seq (.loop dispBody) tailPart := hGs_eq

/-- the part of `handleTCPClient` after the dispatch, from ANY environment in which the leaves of
    the removal part denote the list `l` and the socket `c`: the loop inspects the indexes
    `0 … p` (p = first index holding `c`) resp. `0 … len`, assigns as `RemOut` says, then
    `sock.Close()` is called and the function returns. -/
theorem handle_tail (l : List ConnId) (tls : List Val) (c : ConnId) (hn : l.length < 2^62)
    (env : Env) (cs : Calls)
    (hlen : Env.read? env "len(ms.tcpClients)" = some (.int (l.length : Int)))
    (hsock : Env.read? env "sock" = some (.int (c : Nat)))
    (hlast : Env.read? env "ms.tcpClients[len(ms.tcpClients)-1]" = some (lastVal l))
    (hslice : Env.read? env "ms.tcpClients[:len(ms.tcpClients)-1]" =
      some (.sym "ms.tcpClients[:len(ms.tcpClients)-1]"))
    (fuel : Nat) (hf : l.length + 12 ≤ fuel) :
    ∃ env' cnt, execFrom (handleOracle l tls) fuel tailPart env cs =
        ⟨env', .returned, cs ++ probeCalls "#ms.tcpClients[i]" 0 cnt ++ [("sock.Close", [])]⟩ ∧
      RemOut l c 0 env env' cnt := by
  obtain ⟨g, rfl⟩ : ∃ g, fuel = (g + 3) + 1 := ⟨fuel - 4, by omega⟩
  have inv : RemInv l c 0 (Env.write (Env.write env "#len(ms.tcpClients)" (.int (l.length : Int)))
      "i" (.int 0)) := by
    constructor
    · simp only [read?_write, ↓reduceIte]; rfl
    · simp only [read?_write, String.reduceEq, ↓reduceIte]
    · simp only [read?_write, String.reduceEq, ↓reduceIte]; exact hsock
    · simp only [read?_write, String.reduceEq, ↓reduceIte]; exact hlast
    · simp only [read?_write, String.reduceEq, ↓reduceIte]; exact hslice
  obtain ⟨env', cnt, hrun, hout⟩ := rem_loop l tls c hn l.length 0 _ cs (by omega) inv
    (fun j hj h0 => absurd h0 (Nat.not_lt_zero j)) (g + 1) (by omega)
  refine ⟨env', cnt, ?_, ?_⟩
  · have ha : execFrom (handleOracle l tls) (g + 3)
        (.seq (.assign "#len(ms.tcpClients)" (.var "len(ms.tcpClients)" .int))
          (.seq (.assign "i" (.lit 0 .int)) (.loop remBody))) env cs =
        ⟨env', .fell, cs ++ probeCalls "#ms.tcpClients[i]" 0 cnt⟩ := by
      rw [← hrun]
      simp only [execFrom_seq, execFrom_assign, panics_var, panics_lit, eval_var, eval_lit, hlen,
        eval_var_some, seqK_fell, Bool.false_eq_true, ↓reduceIte]
    rw [tailPart, execFrom_seq_of_fell _ _ ha]
    go_eval [handleOracle]
  · refine RemOut_congr l c 0 _ env env' cnt ?_ ?_ ?_ hout
    · simp only [read?_write, String.reduceEq, ↓reduceIte]
    · simp only [writes_write, String.reduceEq, ↓reduceIte, Nat.add_zero]
    · simp only [writes_write, String.reduceEq, ↓reduceIte, Nat.add_zero]

/-- the whole (instrumented) function, given the run of its dispatch part -/
theorem handle_compose (l : List ConnId) (tls : List Val) (c : ConnId) (hn : l.length < 2^62)
    (env0 envD : Env) (csD : Calls)
    (hd : execFrom (handleOracle l tls) 9 (.loop dispBody) env0 [] = ⟨envD, .fell, csD⟩)
    (hlen : Env.read? envD "len(ms.tcpClients)" = some (.int (l.length : Int)))
    (hsock : Env.read? envD "sock" = some (.int (c : Nat)))
    (hlast : Env.read? envD "ms.tcpClients[len(ms.tcpClients)-1]" = some (lastVal l))
    (hslice : Env.read? envD "ms.tcpClients[:len(ms.tcpClients)-1]" =
      some (.sym "ms.tcpClients[:len(ms.tcpClients)-1]"))
    (fuel : Nat) (hf : l.length + 13 ≤ fuel) :
    ∃ env' cnt, exec (handleOracle l tls) fuel hGs env0 =
        ⟨env', .returned, csD ++ probeCalls "#ms.tcpClients[i]" 0 cnt ++ [("sock.Close", [])]⟩ ∧
      RemOut l c 0 envD env' cnt := by
  obtain ⟨g, rfl⟩ : ∃ g, fuel = g + 1 := ⟨fuel - 1, by omega⟩
  have hd' := execFrom_ge _ hd (fun h => nomatch h) g (by omega)
  rw [exec_def, hGs_eq', execFrom_seq_of_fell _ _ hd']
  exact handle_tail l tls c hn envD csD hlen hsock hlast hslice g (by omega)

/-- what the removal part has done, `cnt` = number of indexes inspected (probes of the removal
    loop); `writes "ms.tcpClients[i]"` counts the one probe of the `switch` wrapper, the `cnt`
    probes of the removal loop and the real assignments (one, or none) -/
def Removed (l : List ConnId) (c : ConnId) (env : Env) (cnt : Nat) : Prop :=
  match l.findIdx? (· == c) with
  | some p =>
    cnt = p + 1 ∧ Env.read? env "i" = some (.int (p : Int)) ∧
      Env.read? env "ms.tcpClients[i]" = some (lastVal l) ∧
      Env.read? env "ms.tcpClients" = some (.sym "ms.tcpClients[:len(ms.tcpClients)-1]") ∧
      writes "ms.tcpClients" env = 1 ∧ writes "ms.tcpClients[i]" env = (1 + cnt) + 1
  | none =>
    cnt = l.length + 1 ∧ Env.read? env "i" = some (.int (l.length : Int)) ∧
      Env.read? env "ms.tcpClients" = none ∧
      writes "ms.tcpClients" env = 0 ∧ writes "ms.tcpClients[i]" env = 1 + cnt

theorem handle_final (l : List ConnId) (tls : List Val) (c : ConnId) (hn : l.length < 2^62)
    (env0 envD : Env) (csD : Calls)
    (hd : execFrom (handleOracle l tls) 9 (.loop dispBody) env0 [] = ⟨envD, .fell, csD⟩)
    (hlen : Env.read? envD "len(ms.tcpClients)" = some (.int (l.length : Int)))
    (hsock : Env.read? envD "sock" = some (.int (c : Nat)))
    (hlast : Env.read? envD "ms.tcpClients[len(ms.tcpClients)-1]" = some (lastVal l))
    (hslice : Env.read? envD "ms.tcpClients[:len(ms.tcpClients)-1]" =
      some (.sym "ms.tcpClients[:len(ms.tcpClients)-1]"))
    (hfield : Env.read? envD "ms.tcpClients" = none)
    (hw1 : writes "ms.tcpClients" envD = 0) (hw2 : writes "ms.tcpClients[i]" envD = 1)
    (fuel : Nat) (hf : l.length + 13 ≤ fuel) :
    ∃ env' cnt, exec (handleOracle l tls) fuel hGs env0 =
        ⟨env', .returned, csD ++ probeCalls "#ms.tcpClients[i]" 0 cnt ++ [("sock.Close", [])]⟩ ∧
      Removed l c env' cnt ∧ clientsAfter l env' = some (swapRemove l c) := by
  obtain ⟨env', cnt, hrun, hout⟩ :=
    handle_compose l tls c hn env0 envD csD hd hlen hsock hlast hslice fuel hf
  refine ⟨env', cnt, hrun, ?_, clientsAfter_of_RemOut l c envD env' cnt hfield hout⟩
  revert hout
  simp only [RemOut, Removed, hfield, hw1, hw2]
  cases l.findIdx? (· == c) with
  | none =>
    rintro ⟨h1, h2, h3, h4, h5⟩
    exact ⟨by omega, h2, h3, h4, by omega⟩
  | some p =>
    rintro ⟨h0, h1, h2, h3, h4, h5, h6⟩
    exact ⟨by omega, h2, h3, h4, by omega, by omega⟩

/-! ### 6. `Stop`: the loop over the client sockets

  `for _, sock := range ms.tcpClients { sock.Close() }` is rendered as a counted loop over `#i` whose
  body assigns `sock := ms.tcpClients[#i]` (index-dependent leaf: probe instrumentation as above) and
  then performs `bindCall [] "sock.Close" []`. The call has no receiver argument; `withRecv` passes
  the receiver VARIABLE as an argument, so that the call log records the value `sock` has at the
  moment of the call. Both instrumentations are removed again by `stripRecv` / `stripProbe`
  (`strip_sGs`). -/

/-- pass the receiver variable `recv` as an extra (first) argument to every call of `callee`: the
    call log then records the VALUE the receiver has when the call is made -/
def withRecv (callee recv : String) : GStmt → GStmt
  | .seq a b => .seq (withRecv callee recv a) (withRecv callee recv b)
  | .ite c t e => .ite c (withRecv callee recv t) (withRecv callee recv e)
  | .loop b => .loop (withRecv callee recv b)
  | .bindCall ts f as => if f = callee then .bindCall ts f (.var recv .other :: as) else .bindCall ts f as
  | s => s

def stripRecv (callee : String) : GStmt → GStmt
  | .seq a b => .seq (stripRecv callee a) (stripRecv callee b)
  | .ite c t e => .ite c (stripRecv callee t) (stripRecv callee e)
  | .loop b => .loop (stripRecv callee b)
  | .bindCall ts f as => if f = callee then .bindCall ts f as.tail else .bindCall ts f as
  | s => s

def sGs : GStmt := withRecv "sock.Close" "sock"
  (withProbe "ms.tcpClients[#i]" "#ms.tcpClients[#i]" "#i" gs_ModbusServer_Stop)

def stopBody : GStmt :=
  (.seq (.bindCall ["ms.tcpClients[#i]"] "#ms.tcpClients[#i]" [.var "#i" .int])
    (.ite (.cmp "<" (.var "#i" .int) (.var "#len(ms.tcpClients)" .int)) (.seq (.assign "sock" (.var "ms.tcpClients[#i]" .other)) (.seq (.bindCall [] "sock.Close" [.var "sock" .other]) (.assign "#i" (.bin "+" .int (.var "#i" .int) (.lit 1 .int))))) .brk))

def stopWith (L : GStmt) : GStmt :=
  (.seq (.ite (.not (.var "ms.started" .bool)) .ret .skip) (.seq (.assign "ms.started" (.lit 0 .bool)) (.seq (.ite (.or (.cmp "==" (.var "ms.transportType" .uint) (.lit (4) .uint)) (.cmp "==" (.var "ms.transportType" .uint) (.lit (5) .uint))) (.seq (.bindCall ["err"] "ms.tcpListener.Close" []) (.seq (.assign "#len(ms.tcpClients)" (.var "len(ms.tcpClients)" .int)) (.seq (.assign "#i" (.lit 0 .int)) L))) .skip) .ret)))

theorem sGs_eq : sGs = stopWith (.loop stopBody) := by
  simp only [sGs, withRecv, withProbe, gs_ModbusServer_Stop, stopWith, stopBody, String.reduceEq, ↓reduceIte]
theorem strip_sGs : stripProbe "#ms.tcpClients[#i]" (stripRecv "sock.Close" sGs) = gs_ModbusServer_Stop := by
  simp only [sGs_eq, stopWith, stopBody, stripRecv, stripProbe, gs_ModbusServer_Stop, String.reduceEq, ↓reduceIte, List.tail_cons]

def stopOracleL (l : List ConnId) (cerr : Val) : Oracle := fun f args =>
  if f = "#ms.tcpClients[#i]" then some [probeVal l (args.headD .unk)]
  else if f = "ms.tcpListener.Close" then some [cerr]
  else if f = "sock.Close" then some []
  else none

theorem stopWith_tcp (o : Oracle) (cerr : Val) (ho : ∀ a, o "ms.tcpListener.Close" a = some [cerr])
    (L : GStmt) (n : Nat) (tt : Int) (h45 : tt = 4 ∨ tt = 5)
    (env : Env) (cs : Calls) (len : Int)
    (hst : Env.read? env "ms.started" = some (Val.ofBool true))
    (htt : Env.read? env "ms.transportType" = some (.int tt))
    (hlen : Env.read? env "len(ms.tcpClients)" = some (.int len))
    (envL : Env) (csL : Calls)
    (hL : execFrom o (n + 1) L (Env.write (Env.write (Env.write (Env.write env "ms.started" (.int 0)) "err" cerr)
        "#len(ms.tcpClients)" (.int len)) "#i" (.int 0)) (cs ++ [("ms.tcpListener.Close", [])]) =
      ⟨envL, .fell, csL⟩) :
    execFrom o (n + 8) (stopWith L) env cs = ⟨envL, .returned, csL⟩ := by
  rcases h45 with h | h <;> subst h <;>
    go_eval [stopWith, ho, hst, htt, hlen, hL, Int.reduceEq, decide_true, decide_false,
      Bool.or_false, Bool.or_true, or_true, true_or]

/-- what a round of the `Stop` loop needs when it starts with `#i = k` -/
structure StopInv (l : List ConnId) (k : Nat) (env : Env) : Prop where
  hi : Env.read? env "#i" = some (.int (k : Int))
  hlen : Env.read? env "#len(ms.tcpClients)" = some (.int (l.length : Int))

/-- a round at an index inside the list: `sock` is assigned the element, `sock.Close()` is called
    while `sock` has that value, the index is incremented -/
theorem stop_round_step (l : List ConnId) (cerr : Val) (k : Nat) (env : Env) (cs : Calls)
    (hn : l.length < 2^62) (hk : k < l.length) (inv : StopInv l k env) :
    execFrom (stopOracleL l cerr) 6 stopBody env cs =
      ⟨Env.write (Env.write (Env.write env "ms.tcpClients[#i]" (.int (l[k] : Nat))) "sock" (.int (l[k] : Nat)))
          "#i" (.int ((k + 1 : Nat) : Int)), .fell,
        cs ++ [("#ms.tcpClients[#i]", [.int (k : Int)]), ("sock.Close", [.int (l[k] : Nat)])]⟩ := by
  have h1 := inv.hi
  have h2 := inv.hlen
  have hp := probeVal_lt l k hk
  have hlt : (k : Int) < (l.length : Int) := by omega
  have hw : wrap .int ((k : Int) + 1) = ((k + 1 : Nat) : Int) := by
    rw [wrap_int (by omega) (by omega)]; omega
  go_eval_nowrap [stopBody, stopOracleL, h1, h2, hp, hlt, hw, List.append_assoc]

/-- the round with `#i = len`: the loop test fails, `break`; no call but the probe -/
theorem stop_round_end (l : List ConnId) (cerr : Val) (env : Env) (cs : Calls)
    (inv : StopInv l l.length env) :
    execFrom (stopOracleL l cerr) 6 stopBody env cs =
      ⟨Env.write env "ms.tcpClients[#i]" .unk, .broke,
        cs ++ [("#ms.tcpClients[#i]", [.int (l.length : Int)])]⟩ := by
  have h1 := inv.hi
  have h2 := inv.hlen
  have hp := probeVal_ge l l.length (Nat.le_refl _)
  go_eval_nowrap [stopBody, stopOracleL, h1, h2, hp, Int.lt_irrefl]

/-- the calls of the loop from index `k` on, `d` elements remaining: probe, close, probe, close, …,
    final probe (of `len`) -/
def stopTrace (l : List ConnId) : Nat → Nat → Calls
  | k, 0 => [("#ms.tcpClients[#i]", [Val.int (k : Int)])]
  | k, d + 1 => ("#ms.tcpClients[#i]", [Val.int (k : Int)]) ::
      ("sock.Close", [probeVal l (.int (k : Int))]) :: stopTrace l (k + 1) d

/-- without the probes: one `sock.Close` per element, in list order, made with `sock` = that element -/
theorem realCalls_stopTrace (l : List ConnId) : ∀ (d k : Nat), k + d = l.length →
    realCalls "#ms.tcpClients[#i]" (stopTrace l k d) =
      (l.drop k).map (fun c => ("sock.Close", [Val.int (c : Nat)])) := by
  intro d
  induction d with
  | zero =>
    intro k hk
    have : l.drop k = [] := List.drop_eq_nil_of_le (by omega)
    simp only [stopTrace, realCalls, this, List.filter_cons, List.filter_nil, String.reduceBNe,
      Bool.false_eq_true, ↓reduceIte, List.map_nil]
  | succ d ih =>
    intro k hk
    have hlt : k < l.length := by omega
    rw [List.drop_eq_getElem_cons hlt]
    simp only [stopTrace, probeVal_lt l k hlt, List.map_cons]
    rw [← ih (k + 1) (by omega)]
    simp only [realCalls, List.filter_cons, String.reduceBNe, Bool.false_eq_true, ↓reduceIte]

/-- what the loop of `Stop`, entered with `#i = k`, leaves behind: every key other than the leaf,
    `sock` and `#i` is neither re-bound nor changed -/
def StopOut (env env' : Env) : Prop :=
  ∀ x, x ≠ "ms.tcpClients[#i]" → x ≠ "sock" → x ≠ "#i" →
    Env.read? env' x = Env.read? env x ∧ writes x env' = writes x env

/-- **the loop of `Stop`**, entered with `#i = k`: falls through, having made the calls
    `stopTrace l k (len - k)` -/
theorem stop_loop (l : List ConnId) (cerr : Val) (hn : l.length < 2^62) :
    ∀ (d k : Nat) (env : Env) (cs : Calls), k + d = l.length → StopInv l k env →
      ∀ fuel, d + 7 ≤ fuel →
      ∃ env', execFrom (stopOracleL l cerr) fuel (.loop stopBody) env cs =
          ⟨env', .fell, cs ++ stopTrace l k d⟩ ∧ StopOut env env' := by
  intro d
  induction d with
  | zero =>
    intro k env cs hkd inv fuel hf
    have hk : k = l.length := by omega
    subst hk
    obtain ⟨f, rfl⟩ : ∃ f, fuel = f + 1 := ⟨fuel - 1, by omega⟩
    have hb := execFrom_ge _ (stop_round_end l cerr env cs inv) (fun h => nomatch h) f (by omega)
    refine ⟨Env.write env "ms.tcpClients[#i]" .unk, ?_, ?_⟩
    · rw [execFrom_loop_of_broke _ hb]; rfl
    · intro x h1 h2 h3
      simp only [read?_write, writes_write, Ne.symm h1, ↓reduceIte, Nat.add_zero, and_self]
  | succ d ih =>
    intro k env cs hkd inv fuel hf
    have hk : k < l.length := by omega
    obtain ⟨f, rfl⟩ : ∃ f, fuel = f + 1 := ⟨fuel - 1, by omega⟩
    have hb := execFrom_ge _ (stop_round_step l cerr k env cs hn hk inv) (fun h => nomatch h) f (by omega)
    have inv' : StopInv l (k + 1)
        (Env.write (Env.write (Env.write env "ms.tcpClients[#i]" (.int (l[k] : Nat))) "sock" (.int (l[k] : Nat)))
          "#i" (.int ((k + 1 : Nat) : Int))) := by
      constructor
      · simp only [read?_write, ↓reduceIte]
      · simp only [read?_write, String.reduceEq, ↓reduceIte]; exact inv.hlen
    obtain ⟨env', hrun, hout⟩ := ih (k + 1) _
      (cs ++ [("#ms.tcpClients[#i]", [.int (k : Int)]), ("sock.Close", [.int (l[k] : Nat)])])
      (by omega) inv' f (by omega)
    refine ⟨env', ?_, ?_⟩
    · rw [execFrom_loop_of_fell _ hb, hrun]
      simp only [stopTrace, probeVal_lt l k hk, List.append_assoc, List.cons_append, List.nil_append]
    · intro x h1 h2 h3
      have := hout x h1 h2 h3
      simpa only [read?_write, writes_write, Ne.symm h1, Ne.symm h2, Ne.symm h3, ↓reduceIte,
        Nat.add_zero] using this

end Modbus.GoEval
