import ModbusVerif.Lemmas.GoEvalFrameLemmas
import ModbusVerif.Lemmas.LifecycleLemmas
/-
  Helpers for the source tie of the server's LIFE-CYCLE functions (Props/C09Src.lean,
  Props/C10Src.lean): `ModbusServer.Start`, `Stop`, `acceptTCPClients`, `handleTCPClient` as
  rendered by /verif/extract/gstmt.go (`Gen.gs_ModbusServer_*`).

  1. composition: running `seq a b` / `loop b` when the run of the first part is known
     (`execFrom_seq_of_fell`, `execFrom_loop_of_*`, `execFrom_ge`), so that a function can be
     evaluated piece by piece, every piece for all sufficiently large fuels.
  2. static helpers: `afterOpaque` (what is executed after an `opaque` statement falls through).
  3. INDEX-DEPENDENT LEAVES. The removal loop of `handleTCPClient` is rendered as a counted loop
     over `i` whose body reads the leaf `ms.tcpClients[i]`. Leaves are keyed by their TEXT, the
     index `i` inside the text is not evaluated: in ONE environment the leaf has ONE value, whatever
     `i` is. `withProbe leaf probe idx` is a syntactic instrumentation: at the head of every loop
     body it inserts the pseudo-call

         bindCall [leaf] probe [var idx .int]          (`ms.tcpClients[i] := probe(i)`)

     which the oracle answers FROM THE VALUE of the index (`probeVal l`: the element `l[i]` of the
     client list, `unk` outside the list). So the leaf is re-bound from the list and the current `i`
     before every round; nothing else of the generated term is changed (`stripProbe` removes the
     pseudo-calls again: `stripProbe_withProbe` on the term at hand). The pseudo-calls are logged
     in `Res.calls` (they record which indexes were inspected); `realCalls` filters them out.
     This is faithful as long as the list is not assigned between two rounds: the loop lemma
     shows that the round that assigns `ms.tcpClients` / `ms.tcpClients[i]` ends with `break`.
  4. the removal loop: one round (`rem_round_*`), the whole loop by induction on the number of
     remaining elements (`rem_loop`), the reading of its final environment as a list
     (`clientsAfter`) = `Lifecycle.swapRemove`.
-/
set_option linter.unusedSimpArgs false
set_option linter.unusedVariables false

namespace Modbus.GoEval
open Modbus Modbus.Gen Modbus.Lifecycle

/-! ### 1. composition -/

/-- a run that did not run out of fuel is the same for every larger fuel -/
theorem execFrom_ge (o : Oracle) {n : Nat} {s : GStmt} {env : Env} {cs : Calls} {r : Res}
    (h : execFrom o n s env cs = r) (hr : r.how ≠ .outOfFuel) (m : Nat) (hm : n ≤ m) :
    execFrom o m s env cs = r := by
  rw [execFrom_mono o n m s env cs hm (by rw [h]; exact hr), h]

theorem execFrom_seq_of_fell (o : Oracle) {n : Nat} {a : GStmt} (b : GStmt) {env env' : Env}
    {cs cs' : Calls} (h : execFrom o n a env cs = ⟨env', .fell, cs'⟩) :
    execFrom o (n+1) (.seq a b) env cs = execFrom o n b env' cs' := by
  rw [execFrom_seq, h, seqK_fell]

theorem execFrom_seq_of_end (o : Oracle) {n : Nat} {a : GStmt} (b : GStmt) {env : Env}
    {cs : Calls} {r : Res} (h : execFrom o n a env cs = r) (hr : r.how ≠ .fell) :
    execFrom o (n+1) (.seq a b) env cs = r := by
  rw [execFrom_seq, h, seqK_of_not_fell _ _ _ _ hr]

theorem execFrom_loop_of_fell (o : Oracle) {n : Nat} {b : GStmt} {env env' : Env}
    {cs cs' : Calls} (h : execFrom o n b env cs = ⟨env', .fell, cs'⟩) :
    execFrom o (n+1) (.loop b) env cs = execFrom o n (.loop b) env' cs' := by
  rw [execFrom_loop, h, loopK_fell]

theorem execFrom_loop_of_continued (o : Oracle) {n : Nat} {b : GStmt} {env env' : Env}
    {cs cs' : Calls} (h : execFrom o n b env cs = ⟨env', .continued, cs'⟩) :
    execFrom o (n+1) (.loop b) env cs = execFrom o n (.loop b) env' cs' := by
  rw [execFrom_loop, h, loopK_continued]

theorem execFrom_loop_of_broke (o : Oracle) {n : Nat} {b : GStmt} {env env' : Env}
    {cs cs' : Calls} (h : execFrom o n b env cs = ⟨env', .broke, cs'⟩) :
    execFrom o (n+1) (.loop b) env cs = ⟨env', .fell, cs'⟩ := by
  rw [execFrom_loop, h, loopK_broke]

theorem execFrom_loop_of_returned (o : Oracle) {n : Nat} {b : GStmt} {env env' : Env}
    {cs cs' : Calls} (h : execFrom o n b env cs = ⟨env', .returned, cs'⟩) :
    execFrom o (n+1) (.loop b) env cs = ⟨env', .returned, cs'⟩ := by
  rw [execFrom_loop, h, loopK_returned]

/-! ### 2. static helpers -/

/-- `afterOpaque t s k`: the statements that run, in order, once `opaque t` inside `s` falls
    through (the pending right-hand sides of the enclosing `seq`s; an enclosing loop is entered
    again), `k` being what follows `s`. `none`: no such statement. First occurrence. -/
def afterOpaque (t : String) : GStmt → List GStmt → Option (List GStmt)
  | .opaque x, k => if x = t then some k else none
  | .seq a b, k =>
    match afterOpaque t a (b :: k) with
    | some r => some r
    | none => afterOpaque t b k
  | .ite _ a b, k =>
    match afterOpaque t a k with
    | some r => some r
    | none => afterOpaque t b k
  | .loop b, k => afterOpaque t b (.loop b :: k)
  | _, _ => none

/-- the statements of a `seq` chain, in order -/
def seqList : GStmt → List GStmt
  | .seq a b => seqList a ++ seqList b
  | s => [s]

/-! ### 3. index-dependent leaves: the probe instrumentation -/

/-- insert `leaf := probe(idx)` at the head of every loop body -/
def withProbe (leaf probe idx : String) : GStmt → GStmt
  | .seq a b => .seq (withProbe leaf probe idx a) (withProbe leaf probe idx b)
  | .ite c t e => .ite c (withProbe leaf probe idx t) (withProbe leaf probe idx e)
  | .loop b => .loop (.seq (.bindCall [leaf] probe [.var idx .int]) (withProbe leaf probe idx b))
  | s => s

/-- remove the pseudo-calls again -/
def stripProbe (probe : String) : GStmt → GStmt
  | .seq (.bindCall ts f as) b =>
    if f = probe then stripProbe probe b else .seq (.bindCall ts f as) (stripProbe probe b)
  | .seq a b => .seq (stripProbe probe a) (stripProbe probe b)
  | .ite c t e => .ite c (stripProbe probe t) (stripProbe probe e)
  | .loop b => .loop (stripProbe probe b)
  | s => s

/-- the element of the client list at the VALUE of the index; `unk` outside the list (Go: the
    index expression would panic; the loop test `i < len` comes first, the value is never read) -/
def probeVal (l : List ConnId) : Val → Val
  | .int v => if 0 ≤ v then (match l[v.toNat]? with | some c => .int c | none => .unk) else .unk
  | _ => .unk

theorem probeVal_nat (l : List ConnId) (k : Nat) :
    probeVal l (.int (k : Int)) = (match l[k]? with | some c => .int c | none => .unk) := by
  simp [probeVal]

theorem probeVal_lt (l : List ConnId) (k : Nat) (h : k < l.length) :
    probeVal l (.int (k : Int)) = .int (l[k] : Nat) := by
  rw [probeVal_nat, List.getElem?_eq_getElem h]

theorem probeVal_ge (l : List ConnId) (k : Nat) (h : l.length ≤ k) :
    probeVal l (.int (k : Int)) = .unk := by
  rw [probeVal_nat, List.getElem?_eq_none h]

theorem probeVal_unk (l : List ConnId) : probeVal l .unk = .unk := by exact id rfl

/-- the calls of a run without the probes -/
def realCalls (probe : String) (cs : Calls) : Calls := cs.filter (fun c => c.1 != probe)

theorem realCalls_append (p : String) (a b : Calls) :
    realCalls p (a ++ b) = realCalls p a ++ realCalls p b := by
  simp [realCalls]

/-- the probes of the indexes `k, k+1, …` (`cnt` of them) -/
def probeCalls (probe : String) (k cnt : Nat) : Calls :=
  (List.range' k cnt).map (fun j => (probe, [Val.int (j : Int)]))

theorem probeCalls_succ (p : String) (k cnt : Nat) :
    probeCalls p k (cnt + 1) = (p, [Val.int (k : Int)]) :: probeCalls p (k + 1) cnt := by
  simp [probeCalls, List.range'_succ]

theorem realCalls_probeCalls (p : String) (k cnt : Nat) : realCalls p (probeCalls p k cnt) = [] := by
  simp [realCalls, probeCalls]

/-- number of bindings of key `x` in an environment. `Env.write` only ever prepends, so this
    counts the assignments / bindings made to `x` (plus the initial bindings). -/
def writes (x : String) (env : Env) : Nat := (env.filter (fun p => p.1 == x)).length

theorem writes_write (x k : String) (v : Val) (env : Env) :
    writes x (Env.write env k v) = writes x env + (if k = x then 1 else 0) := by
  simp only [writes, Env.write, List.filter_cons]
  by_cases h : k = x <;> simp [h]

end Modbus.GoEval
