import ModbusVerif.Lemmas.GoEvalLifeLemmas
/-
  Helpers for the source tie of the Modbus/TLS gate (Props/C14Src.lean): `ModbusServer.startTLS`,
  the TLS branch of `ModbusClient.Open` and its plain branches, as rendered by
  /verif/extract/gstmt.go (`Gen.gs_ModbusServer_startTLS`, `Gen.gs_ModbusClient_Open`).

  1. the oracles (`if f = "…"` chains), parameterised by EVERY outcome of the external calls;
  2. the runs at a fixed fuel, from ANY environment that binds the leaves the function reads, as one
     `if`-tree over the outcomes (`tlsSrv_run`, `tlsCli_run`, `tlsPlain_run_*`);
  3. `tlsDropIte`: a syntactic transformer (the k-th `if` in program order replaced by its else
     branch) used to derive the sensitivity variants from the generated terms;
  4. list helpers for reading call logs (`filter_realCalls`).
-/
set_option linter.unusedSimpArgs false
set_option linter.unusedVariables false

namespace Modbus.GoEval
open Modbus Modbus.Gen

/-! ### 1. oracles -/

/-- the external calls of `startTLS`. `dl` / `hs`: the error `tcpSock.SetDeadline` /
    `tlsSock.Handshake` returns (`"nil"`: success); `tsock`: what `tls.Server` returns; `cstate`: what
    `tlsSock.ConnectionState` returns; `enew`: the error `errors.New` builds; `role`: what
    `ms.extractRole` returns. Every other callee: `none` (the run would stop there). -/
def tlsSrvOracle (dl hs : String) (tsock cstate : Val) (enew : String) (role : Val) : Oracle :=
  fun f _ =>
    if f = "tcpSock.SetDeadline" then some [.sym dl]
    else if f = "tls.Server" then some [tsock]
    else if f = "tlsSock.Handshake" then some [.sym hs]
    else if f = "tlsSock.ConnectionState" then some [cstate]
    else if f = "errors.New" then some [.sym enew]
    else if f = "ms.extractRole" then some [role]
    else none

/-- the external calls of the TLS branch of `Open`. `tls.DialWithDialer` returns `(sk, dial)`,
    `sock.(*tls.Conn).Handshake` returns `hs` (`"nil"`: success), `newTCPTransport` returns `tr`;
    `sock.Close` is performed. Every other callee: `none`. -/
def tlsCliOracle (sk : Val) (dial hs : String) (tr : Val) : Oracle :=
  fun f _ =>
    if f = "tls.DialWithDialer" then some [sk, .sym dial]
    else if f = "sock.(*tls.Conn).Handshake" then some [.sym hs]
    else if f = "sock.Close" then some []
    else if f = "newTCPTransport" then some [tr]
    else none

/-- the external calls of the PLAIN branches of `Open`: serial port, `net.DialTimeout`, the
    transport constructors. The two TLS callees (`tls.DialWithDialer`, `sock.(*tls.Conn).Handshake`)
    and `sock.Close` are NOT answered: a run that reached one of them would end `stoppedAt`. -/
def tlsPlainOracle (spw sk : Val) (e : String) (tr : Val) : Oracle :=
  fun f _ =>
    if f = "newSerialPortWrapper" then some [spw]
    else if f = "spw.Open" then some [.sym e]
    else if f = "net.DialTimeout" then some [sk, .sym e]
    else if f = "discard" then some []
    else if f = "newRTUTransport" then some [tr]
    else if f = "newTCPTransport" then some [tr]
    else none

/-! ### 2. runs -/

/-- the text of the server's `tls.Config` literal (one opaque `.call` leaf of the rendering) -/
def tlsSrvConfigText : String :=
  "&tls.Config{ Certificates: []tls.Certificate{ *ms.conf.TLSServerCert, }, ClientCAs: ms.conf.TLSClientCAs, ClientAuth: tls.RequireAndVerifyClientCert, MinVersion: tls.VersionTLS12, }"

/-- the text of the client's `tls.Config` literal -/
def tlsCliConfigText : String :=
  "&tls.Config{ Certificates: []tls.Certificate{ *mc.conf.TLSClientCert, }, RootCAs: mc.conf.TLSRootCAs, MinVersion: tls.VersionTLS12, }"

/-- what `startTLS` reads of its entry environment -/
structure TlsSrvEnv (env : Env) (tcp cfg dlArg : Val) (n : Int) (cert0 msg : Val) : Prop where
  hnil : Env.read? env "nil" = none
  htcp : Env.read? env "tcpSock" = some tcp
  hcfg : Env.read? env tlsSrvConfigText = some cfg
  hdl : Env.read? env "time.Now().Add(30 * time.Second)" = some dlArg
  hlen : Env.read? env "len(connState.PeerCertificates)" = some (.int n)
  hcert : Env.read? env "connState.PeerCertificates[0]" = some cert0
  hmsg : Env.read? env "\"no client certificate received\"" = some msg

/-- **`startTLS`, every outcome**, fuel 11, from any environment `env` and call history `cs` -/
theorem tlsSrv_run (dl hs : String) (tsock cstate : Val) (enew : String) (role : Val)
    (env : Env) (cs : Calls) (tcp cfg dlArg : Val) (n : Int) (cert0 msg : Val)
    (he : TlsSrvEnv env tcp cfg dlArg n cert0 msg) :
    execFrom (tlsSrvOracle dl hs tsock cstate enew role) 11 gs_ModbusServer_startTLS env cs =
      if dl ≠ "nil" then
        ⟨Env.write env "err" (.sym dl), .returned, cs ++ [("tcpSock.SetDeadline", [dlArg])]⟩
      else if hs ≠ "nil" then
        ⟨Env.write (Env.write (Env.write env "err" (.sym dl)) "tlsSock" tsock) "err" (.sym hs), .returned,
          cs ++ [("tcpSock.SetDeadline", [dlArg]), ("tls.Server", [tcp, cfg]), ("tlsSock.Handshake", [])]⟩
      else if n = 0 then
        ⟨Env.write (Env.write (Env.write (Env.write (Env.write env "err" (.sym dl)) "tlsSock" tsock)
            "err" (.sym hs)) "connState" cstate) "err" (.sym enew), .returned,
          cs ++ [("tcpSock.SetDeadline", [dlArg]), ("tls.Server", [tcp, cfg]), ("tlsSock.Handshake", []),
            ("tlsSock.ConnectionState", []), ("errors.New", [msg])]⟩
      else
        ⟨Env.write (Env.write (Env.write (Env.write (Env.write env "err" (.sym dl)) "tlsSock" tsock)
            "err" (.sym hs)) "connState" cstate) "clientRole" role, .returned,
          cs ++ [("tcpSock.SetDeadline", [dlArg]), ("tls.Server", [tcp, cfg]), ("tlsSock.Handshake", []),
            ("tlsSock.ConnectionState", []), ("ms.extractRole", [cert0])]⟩ := by
  have h1 := he.hnil
  have h2 := he.htcp
  have h3 : Env.read? env "&tls.Config{ Certificates: []tls.Certificate{ *ms.conf.TLSServerCert, }, ClientCAs: ms.conf.TLSClientCAs, ClientAuth: tls.RequireAndVerifyClientCert, MinVersion: tls.VersionTLS12, }" = some cfg := he.hcfg
  have h4 := he.hdl
  have h5 := he.hlen
  have h6 := he.hcert
  have h7 := he.hmsg
  by_cases hd : dl = "nil"
  · subst hd
    by_cases hh : hs = "nil"
    · subst hh
      by_cases hn : n = 0
      · subst hn
        go_eval [gs_ModbusServer_startTLS, tlsSrvOracle, h1, h2, h3, h4, h5, h6, h7, ne_eq,
          not_true_eq_false, List.append_assoc]
      · go_eval [gs_ModbusServer_startTLS, tlsSrvOracle, h1, h2, h3, h4, h5, h6, h7, hn, ne_eq,
          not_true_eq_false, List.append_assoc]
    · go_eval [gs_ModbusServer_startTLS, tlsSrvOracle, h1, h2, h3, h4, h5, h6, h7, hh, ne_eq,
        not_true_eq_false, not_false_eq_true, List.append_assoc]
  · go_eval [gs_ModbusServer_startTLS, tlsSrvOracle, h1, h2, h3, h4, h5, h6, h7, hd, ne_eq,
      not_false_eq_true, List.append_assoc]

/-- what the TLS branch of `Open` reads of its entry environment -/
structure TlsCliEnv (env : Env) (dlr tcpS url cfg w tmo lg : Val) : Prop where
  hnil : Env.read? env "nil" = none
  htt : Env.read? env "mc.transportType" = some (.int 5)
  hdlr : Env.read? env "&net.Dialer{ Deadline: time.Now().Add(15 * time.Second), }" = some dlr
  htcp : Env.read? env "\"tcp\"" = some tcpS
  hurl : Env.read? env "mc.conf.URL" = some url
  hcfg : Env.read? env tlsCliConfigText = some cfg
  hwrap : Env.read? env "newTLSSockWrapper(sock)" = some w
  htmo : Env.read? env "mc.conf.Timeout" = some tmo
  hlg : Env.read? env "mc.conf.Logger" = some lg

/-- **`Open`, transport type 5 (Modbus/TLS), every outcome**, fuel 16, from any environment -/
theorem tlsCli_run (sk : Val) (dial hs : String) (tr : Val) (env : Env) (cs : Calls)
    (dlr tcpS url cfg w tmo lg : Val) (he : TlsCliEnv env dlr tcpS url cfg w tmo lg) :
    execFrom (tlsCliOracle sk dial hs tr) 16 gs_ModbusClient_Open env cs =
      if dial ≠ "nil" then
        ⟨Env.write (Env.write env "sock" sk) "err" (.sym dial), .returned,
          cs ++ [("tls.DialWithDialer", [dlr, tcpS, url, cfg])]⟩
      else if hs ≠ "nil" then
        ⟨Env.write (Env.write (Env.write env "sock" sk) "err" (.sym dial)) "err" (.sym hs), .returned,
          cs ++ [("tls.DialWithDialer", [dlr, tcpS, url, cfg]), ("sock.(*tls.Conn).Handshake", []),
            ("sock.Close", [])]⟩
      else
        ⟨Env.write (Env.write (Env.write (Env.write env "sock" sk) "err" (.sym dial)) "err" (.sym hs))
            "mc.transport" tr, .returned,
          cs ++ [("tls.DialWithDialer", [dlr, tcpS, url, cfg]), ("sock.(*tls.Conn).Handshake", []),
            ("newTCPTransport", [w, tmo, lg])]⟩ := by
  have h1 := he.hnil
  have h2 := he.htt
  have h3 := he.hdlr
  have h4 := he.htcp
  have h5 := he.hurl
  have h6 : Env.read? env "&tls.Config{ Certificates: []tls.Certificate{ *mc.conf.TLSClientCert, }, RootCAs: mc.conf.TLSRootCAs, MinVersion: tls.VersionTLS12, }" = some cfg := he.hcfg
  have h7 := he.hwrap
  have h8 := he.htmo
  have h9 := he.hlg
  by_cases hd : dial = "nil"
  · subst hd
    by_cases hh : hs = "nil"
    · subst hh
      go_eval [gs_ModbusClient_Open, tlsCliOracle, h1, h2, h3, h4, h5, h6, h7, h8, h9, ne_eq,
        not_true_eq_false, List.append_assoc, Int.reduceEq, decide_false, decide_true]
    · go_eval [gs_ModbusClient_Open, tlsCliOracle, h1, h2, h3, h4, h5, h6, h7, h8, h9, hh, ne_eq,
        not_true_eq_false, not_false_eq_true, List.append_assoc, Int.reduceEq, decide_false, decide_true]
  · go_eval [gs_ModbusClient_Open, tlsCliOracle, h1, h2, h3, h4, h5, h6, h7, h8, h9, hd, ne_eq,
      not_false_eq_true, List.append_assoc, Int.reduceEq, decide_false, decide_true]

/-- the callees of a plain branch of `Open`, in order; `ok`: the open / dial succeeded -/
def tlsPlainCallees (tt : Int) (ok : Bool) : List String :=
  if tt = 1 then
    (if ok then ["newSerialPortWrapper", "spw.Open", "discard", "newRTUTransport"]
     else ["newSerialPortWrapper", "spw.Open"])
  else if tt = 2 then
    (if ok then ["net.DialTimeout", "discard", "newRTUTransport"] else ["net.DialTimeout"])
  else if tt = 3 then
    (if ok then ["net.DialTimeout", "newRTUTransport"] else ["net.DialTimeout"])
  else if tt = 4 then
    (if ok then ["net.DialTimeout", "newTCPTransport"] else ["net.DialTimeout"])
  else if tt = 6 then
    (if ok then ["net.DialTimeout", "newTCPTransport"] else ["net.DialTimeout"])
  else []

/-- **`Open`, the plain transport types 1, 2, 3, 4, 6, every outcome**: the run returns — although
    the oracle answers NO TLS callee — and the callees are `tlsPlainCallees`; `mc.transport` is
    bound (to the transport just built) iff the open / dial succeeded -/
theorem tlsPlain_run (spw sk : Val) (e : String) (tr : Val) (tt : Int)
    (htt : tt = 1 ∨ tt = 2 ∨ tt = 3 ∨ tt = 4 ∨ tt = 6) (env : Env) (cs : Calls)
    (hnil : Env.read? env "nil" = none)
    (ht : Env.read? env "mc.transportType" = some (.int tt)) :
    (execFrom (tlsPlainOracle spw sk e tr) 16 gs_ModbusClient_Open env cs).how = .returned ∧
    (execFrom (tlsPlainOracle spw sk e tr) 16 gs_ModbusClient_Open env cs).calls.map (·.1) =
      cs.map (·.1) ++ tlsPlainCallees tt (decide (e = "nil")) ∧
    Env.read? (execFrom (tlsPlainOracle spw sk e tr) 16 gs_ModbusClient_Open env cs).env "mc.transport" =
      (if e = "nil" then some tr else Env.read? env "mc.transport") ∧
    Env.read? (execFrom (tlsPlainOracle spw sk e tr) 16 gs_ModbusClient_Open env cs).env "err" =
      some (.sym e) := by
  by_cases he : e = "nil"
  · subst he
    rcases htt with h | h | h | h | h <;> subst h <;>
      go_eval [gs_ModbusClient_Open, tlsPlainOracle, tlsPlainCallees, hnil, ht, ne_eq,
        not_true_eq_false, Int.reduceEq, decide_false, decide_true, List.map_append, List.map_cons,
        List.map_nil, List.append_assoc]
  · rcases htt with h | h | h | h | h <;> subst h <;>
      go_eval [gs_ModbusClient_Open, tlsPlainOracle, tlsPlainCallees, hnil, ht, he, ne_eq,
        not_true_eq_false, not_false_eq_true, Int.reduceEq, decide_false, decide_true, List.map_append,
        List.map_cons, List.map_nil, List.append_assoc]

/-- **`Open`, any other transport type**: `err = ErrConfigurationError`, nothing called (whatever
    the oracle), `mc.transport` not bound -/
theorem tlsOther_run (o : Oracle) (tt : Int) (h1 : tt ≠ 1) (h2 : tt ≠ 2) (h3 : tt ≠ 3) (h4 : tt ≠ 4)
    (h5 : tt ≠ 5) (h6 : tt ≠ 6) (env : Env) (cs : Calls)
    (hcfg : Env.read? env "ErrConfigurationError" = none)
    (ht : Env.read? env "mc.transportType" = some (.int tt)) :
    execFrom o 16 gs_ModbusClient_Open env cs =
      ⟨Env.write env "err" (.sym "ErrConfigurationError"), .returned, cs⟩ := by
  go_eval [gs_ModbusClient_Open, hcfg, ht, h1, h2, h3, h4, h5, h6, decide_false]

/-! ### 3. sensitivity variants derived from a generated term -/

/-- `tlsDropIte s (some k)`: the `if` number `k` of `s` (0-based, program order: condition first,
    then-branch, else-branch) replaced by its ELSE branch — the test is gone, the code that followed
    it runs unconditionally; everything else is the term as generated. Second component: `none`
    once the replacement is done. -/
def tlsDropIte : GStmt → Option Nat → GStmt × Option Nat
  | .ite c t e, k =>
    match k with
    | none => (.ite c t e, none)
    | some 0 => (e, none)
    | some (j + 1) =>
      let (t', k1) := tlsDropIte t (some j)
      let (e', k2) := tlsDropIte e k1
      (.ite c t' e', k2)
  | .seq a b, k =>
    let (a', k1) := tlsDropIte a k
    let (b', k2) := tlsDropIte b k1
    (.seq a' b', k2)
  | .loop b, k =>
    let (b', k1) := tlsDropIte b k
    (.loop b', k1)
  | s, k => (s, k)

/-- the conditions of the `if`s of a statement, in the order `tlsDropIte` counts them -/
def tlsIteConds : GStmt → List GExpr
  | .ite c t e => c :: (tlsIteConds t ++ tlsIteConds e)
  | .seq a b => tlsIteConds a ++ tlsIteConds b
  | .loop b => tlsIteConds b
  | _ => []

/-! ### 4. reading call logs -/

theorem tls_filter_probeCalls (p f : String) (h : f ≠ p) (k cnt : Nat) :
    (probeCalls p k cnt).filter (fun c => c.1 == f) = [] := by
  simp only [probeCalls, List.filter_eq_nil_iff, List.mem_map]
  rintro ⟨a, b⟩ ⟨x, _, hx⟩
  cases hx
  simpa using Ne.symm h

theorem tls_any_probeCalls (p f : String) (h : f ≠ p) (k cnt : Nat) :
    (probeCalls p k cnt).any (fun c => c.1 == f) = false := by
  rw [List.any_eq_false]
  intro c hc
  simp only [probeCalls, List.mem_map] at hc
  obtain ⟨x, _, hx⟩ := hc
  cases hx
  simpa using Ne.symm h

end Modbus.GoEval
