import ModbusVerif.Lemmas.GoEvalFrameLemmas
/-
  Helpers for evaluating the three LINK ADAPTERS (`tlsSockWrapper`, `udpSockWrapper`,
  `serialPortWrapper`) and `discard` with `Modbus.GoEval`
  (used by `Props/C07Wrappers.lean` and `Props/C12UdpSrc.lean`).

  1. `stmtLeaves`: every leaf text a statement can read (conditions, right-hand sides, call
     arguments) - to state "this function never consults leaf X".
  2. Reading constants back from the TEXT of opaque leaves (all functions work on `List Char`, are
     structurally recursive and are evaluated on closed texts by `decide +kernel`):
       `goDurText?  "500 * time.Microsecond"` = some 500000      (ns; units of Go's `time` package)
       `addArg?     "time.Now().Add(X)"`      = some "X"
       `makeLen?    "make([]byte, X)"`        = some "X"
       `goIntText?  "1024"` / `"maxTCPFrameLength"` = the numeral / `Gen.intConsts`
       `parseSlice  "b[lo:hi]"`               = some ("b", "lo", "hi")
     The four unit constants of Go's standard library package `time` (`time.Nanosecond` = 1,
     `time.Microsecond` = 1000, `time.Millisecond` = 1000000, `time.Second` = 1000000000, in ns)
     are NOT generated facts (they are not constants of the package under verification): they are
     written down in `goTimeUnit?`.
  3. The builtin `copy(dst, src)` as a STAGED oracle (the technique of `GoEvalFrameLemmas`):
     stage k answers the first k `copy` calls (keyed by their two argument values; every slice leaf
     is bound to the symbol of its own source text) and stops at the (k+1)-th; its answer
     `min (len dst) (len src)` is computed from the environment AT THE STOP (`lenOfVal`):
       * a whole slice (`buf`, `usw.rxbuf`) has the length given in the table `lens`;
       * `b[lo:hi]` has length `hi - lo`, `lo` / `hi` being numerals or the CURRENT values of the
         variables of that name; Go panics unless `0 ≤ lo ≤ hi ≤ cap(b)` (`sliceLen` = `none`, the
         run stays stopped at that `copy`). `cap(b)` = `len(b)` for a `make([]byte, n)` slice that
         is never re-sliced.
     So neither the stale-leaf caveat of `GoEval` (a slice leaf read after `rlen` / `copied` were
     assigned) nor the order of the `copy` calls is assumed.
  4. `substCond`: replace one condition of a generated term (variants for sensitivity examples
     are DERIVED from the generated term).
  All rewriting lemmas are non-`@[defeq]` (`by exact id rfl`), see `GoEvalLemmas.lean`.
-/
set_option linter.unusedSimpArgs false
set_option linter.unusedVariables false

namespace Modbus.GoEval
open Modbus Modbus.Gen

/-! ### 1. leaves read by a statement -/

/-- every leaf text (`.var` / `.call`) read by some expression of the statement, all paths -/
def stmtLeaves : GStmt → List String
  | .assign _ e => leaves e
  | .bindCall _ _ as => (as.map leaves).flatten
  | .ite c t e => leaves c ++ stmtLeaves t ++ stmtLeaves e
  | .seq a b => stmtLeaves a ++ stmtLeaves b
  | .loop b => stmtLeaves b
  | _ => []

/-- every assignment / call target of the statement, all paths -/
def stmtTargets : GStmt → List String
  | .assign x _ => [x]
  | .bindCall ts _ _ => ts
  | .ite _ t e => stmtTargets t ++ stmtTargets e
  | .seq a b => stmtTargets a ++ stmtTargets b
  | .loop b => stmtTargets b
  | _ => []

/-- callee and argument leaf texts of every `bindCall`, in program order -/
def callTextsOfW (s : GStmt) : List (List String × String × List (Option String)) :=
  (bindCalls s).map (fun c => (c.1, c.2.1, c.2.2.map leafText?))

/-! ### 2. constants in leaf texts -/

def digitVal (c : Char) : Option Nat :=
  if 48 ≤ c.toNat ∧ c.toNat ≤ 57 then some (c.toNat - 48) else none

def natOfCharsAux : Nat → List Char → Option Nat
  | acc, [] => some acc
  | acc, c :: cs =>
    match digitVal c with
    | some d => natOfCharsAux (10 * acc + d) cs
    | none => none

/-- a non-empty decimal numeral -/
def natOfChars : List Char → Option Nat
  | [] => none
  | cs => natOfCharsAux 0 cs

def stripPrefix? (p cs : List Char) : Option (List Char) :=
  if p.isPrefixOf cs then some (cs.drop p.length) else none

def stripSuffix? (p cs : List Char) : Option (List Char) :=
  (stripPrefix? p.reverse cs.reverse).map List.reverse

/-- split at the first occurrence of `p` -/
def splitOn? (p : List Char) : List Char → Option (List Char × List Char)
  | [] => if p.isEmpty then some ([], []) else none
  | c :: cs =>
    if p.isPrefixOf (c :: cs) then some ([], (c :: cs).drop p.length)
    else (splitOn? p cs).map (fun ab => (c :: ab.1, ab.2))

/-- the duration units of Go's standard library package `time`, in nanoseconds
    (`time.Duration` counts nanoseconds; `const ( Nanosecond Duration = 1; Microsecond = 1000 *
    Nanosecond; Millisecond = 1000 * Microsecond; Second = 1000 * Millisecond )`) -/
def goTimeUnit? (u : String) : Option Nat :=
  if u = "time.Nanosecond" then some 1
  else if u = "time.Microsecond" then some 1000
  else if u = "time.Millisecond" then some 1000000
  else if u = "time.Second" then some 1000000000
  else none

/-- `"<k> * time.<Unit>"` in nanoseconds -/
def goDurText? (t : String) : Option Nat :=
  match splitOn? " * ".toList t.toList with
  | some (a, b) =>
    match natOfChars a, goTimeUnit? (String.ofList b) with
    | some k, some u => some (k * u)
    | _, _ => none
  | none => none

/-- `"time.Now().Add(X)"` ↦ `"X"` -/
def addArg? (t : String) : Option String :=
  ((stripPrefix? "time.Now().Add(".toList t.toList).bind (stripSuffix? ")".toList)).map String.ofList

/-- `"make([]byte, X)"` ↦ `"X"` -/
def makeLen? (t : String) : Option String :=
  ((stripPrefix? "make([]byte, ".toList t.toList).bind (stripSuffix? ")".toList)).map String.ofList

/-- a numeral, or a named integer constant of the package (`Gen.intConsts`) -/
def goIntText? (t : String) : Option Int :=
  match natOfChars t.toList with
  | some k => some k
  | none => intConst? t

/-- `"b[lo:hi]"` ↦ `("b", "lo", "hi")` (one pair of brackets, one colon) -/
def parseSlice (t : String) : Option (String × String × String) :=
  match splitOn? "[".toList t.toList with
  | some (b, r) =>
    match splitOn? ":".toList r with
    | some (lo, r2) =>
      match stripSuffix? "]".toList r2 with
      | some hi =>
        if b.isEmpty ∨ b.contains ':' ∨ hi.contains '[' ∨ hi.contains ']' ∨ hi.contains ':' ∨ lo.contains ']'
        then none
        else some (String.ofList b, String.ofList lo, String.ofList hi)
      | none => none
    | none => none
  | none => none

/-! ### 3. `copy` as a staged oracle -/

/-- answers to the `copy` calls performed so far, keyed by the two argument values -/
abbrev CopyAns := List (List Val × List Val)

def argsLookup : CopyAns → List Val → Option (List Val)
  | [], _ => none
  | (k, r) :: t, x => if k = x then some r else argsLookup t x

theorem argsLookup_nil (x) : argsLookup [] x = none := by exact id rfl
theorem argsLookup_cons (k r t x) :
    argsLookup ((k, r) :: t) x = if k = x then some r else argsLookup t x := by exact id rfl

/-- `copy(dst, src)` is answered from `ans` (unanswered: the run stops there); every other call
    goes to `pure` -/
def copyOracle (pure : Oracle) (ans : CopyAns) : Oracle := fun f args =>
  if f = "copy" then argsLookup ans args else pure f args

theorem copyOracle_def (pure ans f args) :
    copyOracle pure ans f args = if f = "copy" then argsLookup ans args else pure f args := by
  exact id rfl

/-- table lookup with `if k = x` (evaluates under `simp`) -/
def lenLookup : List (String × Nat) → String → Option Nat
  | [], _ => none
  | (k, n) :: t, x => if k = x then some n else lenLookup t x

theorem lenLookup_nil (x) : lenLookup [] x = none := by exact id rfl
theorem lenLookup_cons (k n t x) :
    lenLookup ((k, n) :: t) x = if k = x then some n else lenLookup t x := by exact id rfl

/-- `len(b[lo:hi])` for `cap(b) = cap`; `none`: slice bounds out of range (Go panics) -/
def sliceLen (lo hi : Int) (cap : Nat) : Option Nat :=
  if 0 ≤ lo ∧ lo ≤ hi ∧ hi ≤ (cap : Int) then some (hi - lo).toNat else none

theorem sliceLen_def (lo hi cap) : sliceLen lo hi cap =
    if 0 ≤ lo ∧ lo ≤ hi ∧ hi ≤ (cap : Int) then some (hi - lo).toNat else none := by exact id rfl

/-- value of a slice bound: a numeral, or the CURRENT value of the variable of that name -/
def boundVal (env : Env) (t : String) : Option Int :=
  match natOfChars t.toList with
  | some k => some k
  | none =>
    match Env.read env t with
    | .int v => some v
    | _ => none

def intOf? : Val → Option Int
  | .int v => some v
  | _ => none
theorem intOf?_int (v) : intOf? (.int v) = some v := by exact id rfl
theorem intOf?_sym (s) : intOf? (.sym s) = none := by exact id rfl
theorem intOf?_unk : intOf? .unk = none := by exact id rfl

theorem boundVal_num (env : Env) (t : String) (k : Nat) (h : natOfChars t.toList = some k) :
    boundVal env t = some (k : Int) := by
  unfold boundVal; rw [h]
theorem boundVal_var (env : Env) (t : String) (h : natOfChars t.toList = none) :
    boundVal env t = intOf? (Env.read env t) := by
  unfold boundVal; rw [h]
  cases Env.read env t <;> rfl

/-- the length of a slice VALUE in the environment `env`: a symbol naming a whole slice of the
    table `lens`, or a slice expression `b[lo:hi]` of such a slice (`cap(b) = len(b)`) -/
def lenOfText (lens : List (String × Nat)) (env : Env) (t : String) : Option Nat :=
  match lenLookup lens t with
  | some n => some n
  | none =>
    match parseSlice t with
    | some (b, lo, hi) =>
      match lenLookup lens b, boundVal env lo, boundVal env hi with
      | some cap, some l, some h => sliceLen l h cap
      | _, _, _ => none
    | none => none

def lenOfVal (lens : List (String × Nat)) (env : Env) : Val → Option Nat
  | .sym t => lenOfText lens env t
  | _ => none

theorem lenOfVal_sym (lens env t) : lenOfVal lens env (.sym t) = lenOfText lens env t := by
  exact id rfl
theorem lenOfVal_int (lens env v) : lenOfVal lens env (.int v) = none := by exact id rfl
theorem lenOfVal_unk (lens env) : lenOfVal lens env .unk = none := by exact id rfl

theorem lenOfText_whole (lens env t n) (h : lenLookup lens t = some n) :
    lenOfText lens env t = some n := by
  unfold lenOfText; rw [h]

/-- `len(b[lo:hi])` from the two bounds, once evaluated -/
def slice2 (lo hi : Option Int) (cap : Nat) : Option Nat :=
  match lo, hi with
  | some l, some h => sliceLen l h cap
  | _, _ => none

theorem slice2_some (l h : Int) (cap : Nat) : slice2 (some l) (some h) cap = sliceLen l h cap := by
  exact id rfl
theorem slice2_none_left (h : Option Int) (cap : Nat) : slice2 none h cap = none := by
  cases h <;> exact id rfl
theorem slice2_none_right (l : Option Int) (cap : Nat) : slice2 l none cap = none := by
  cases l <;> exact id rfl

theorem lenOfText_slice (lens env t b lo hi cap) (h0 : lenLookup lens t = none)
    (hp : parseSlice t = some (b, lo, hi)) (hb : lenLookup lens b = some cap) :
    lenOfText lens env t = slice2 (boundVal env lo) (boundVal env hi) cap := by
  unfold lenOfText; rw [h0, hp]; simp only [hb]
  cases boundVal env lo <;> cases boundVal env hi <;> rfl

/-- the `copy` at which a run stopped, with its answer `min (len dst) (len src)` computed in the
    environment at the stop; `none`: not stopped at a `copy`, or a length is undefined (panic) -/
def copyCount (len : Env → Val → Option Nat) (env : Env) (args : List Val) : Option Nat :=
  match len env (args.getD 0 .unk), len env (args.getD 1 .unk) with
  | some a, some b => some (min a b)
  | _, _ => none

theorem copyCount_some (len : Env → Val → Option Nat) (env args a b)
    (ha : len env (args.getD 0 .unk) = some a) (hb : len env (args.getD 1 .unk) = some b) :
    copyCount len env args = some (min a b) := by
  unfold copyCount; rw [ha, hb]

def nextCopy (len : Env → Val → Option Nat) (r : Res) : Option (List Val × Nat) :=
  match r.how with
  | .stoppedAt f args =>
    if f = "copy" then (copyCount len r.env args).map (fun c => (args, c)) else none
  | _ => none

theorem nextCopy_stopped (len env f args cs) :
    nextCopy len ⟨env, .stoppedAt f args, cs⟩ =
      if f = "copy" then (copyCount len env args).map (fun c => (args, c)) else none := by
  exact id rfl
theorem nextCopy_returned (len env cs) : nextCopy len ⟨env, .returned, cs⟩ = none := by exact id rfl
theorem nextCopy_fell (len env cs) : nextCopy len ⟨env, .fell, cs⟩ = none := by exact id rfl
theorem nextCopy_stuck (len env t cs) : nextCopy len ⟨env, .stuckAt t, cs⟩ = none := by exact id rfl

/-- at most `k` further `copy` calls are answered; `stage ans` is the run of the function with the
    `copy` calls in `ans` answered -/
def stagedCopy (stage : CopyAns → Res) (len : Env → Val → Option Nat) : Nat → CopyAns → Res
  | 0, ans => stage ans
  | k + 1, ans =>
    match nextCopy len (stage ans) with
    | none => stage ans
    | some (args, c) => stagedCopy stage len k (ans ++ [(args, [.int c])])

theorem stagedCopy_zero (stage len ans) : stagedCopy stage len 0 ans = stage ans := by exact id rfl
theorem stagedCopy_done (stage len k ans) (h : nextCopy len (stage ans) = none) :
    stagedCopy stage len (k + 1) ans = stage ans := by
  simp only [stagedCopy, h]
theorem stagedCopy_next (stage len k ans args c) (h : nextCopy len (stage ans) = some (args, c)) :
    stagedCopy stage len (k + 1) ans = stagedCopy stage len k (ans ++ [(args, [.int c])]) := by
  simp only [stagedCopy, h]

/-! ### 4. variants of a generated term -/

def tyEq : GTy → GTy → Bool
  | .u8, .u8 | .u16, .u16 | .u32, .u32 | .u64, .u64 | .uint, .uint | .i8, .i8 | .i16, .i16
  | .i32, .i32 | .i64, .i64 | .int, .int | .bool, .bool | .other, .other => true
  | _, _ => false

def exprEq : GExpr → GExpr → Bool
  | .lit a s, .lit b t => a == b && tyEq s t
  | .var a s, .var b t => a == b && tyEq s t
  | .call a s, .call b t => a == b && tyEq s t
  | .conv s a, .conv t b => tyEq s t && exprEq a b
  | .bin o s a b, .bin p t c d => o == p && tyEq s t && exprEq a c && exprEq b d
  | .cmp o a b, .cmp p c d => o == p && exprEq a c && exprEq b d
  | .not a, .not b => exprEq a b
  | .and a b, .and c d => exprEq a c && exprEq b d
  | .or a b, .or c d => exprEq a c && exprEq b d
  | _, _ => false

/-- replace every `ite` condition equal to `old` by `new` -/
def substCond (old new : GExpr) : GStmt → GStmt
  | .ite c t e => .ite (if exprEq c old then new else c) (substCond old new t) (substCond old new e)
  | .seq a b => .seq (substCond old new a) (substCond old new b)
  | .loop b => .loop (substCond old new b)
  | s => s

/-- number of `ite` conditions equal to `old` -/
def countCond (old : GExpr) : GStmt → Nat
  | .ite c t e => (if exprEq c old then 1 else 0) + countCond old t + countCond old e
  | .seq a b => countCond old a + countCond old b
  | .loop b => countCond old b
  | _ => 0

/-- replace the callee of every `bindCall` named `old` by `new` -/
def renameCallee (old new : String) : GStmt → GStmt
  | .bindCall ts f as => .bindCall ts (if f = old then new else f) as
  | .ite c t e => .ite c (renameCallee old new t) (renameCallee old new e)
  | .seq a b => .seq (renameCallee old new a) (renameCallee old new b)
  | .loop b => .loop (renameCallee old new b)
  | s => s

/-! ### 5. closed evaluations (kernel) -/

theorem goDur_500us : goDurText? "500 * time.Microsecond" = some 500000 := by decide +kernel
theorem goDur_10ms : goDurText? "10 * time.Millisecond" = some 10000000 := by decide +kernel

end Modbus.GoEval
