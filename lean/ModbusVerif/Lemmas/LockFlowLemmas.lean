/-
  LockFlowLemmas — soundness of the control-flow-sensitive lock analysis of
  `ModbusVerif/Model/LockFlow.lean`.

    `analyze_sound_flow`   one piece of a body: the abstract state sets over-approximate the concrete
                           (holding, #deferred) state after EVERY `Exec` trace, and the trace is
                           well-locked from the state it starts in (`WL`)
    `exitHeld_sound`       a whole method body, deferred unlocks included
    `calleeOf_sound`       call inlining, any depth (induction on the fuel of the ANALYSIS; `Exec` has
                           no fuel)
    `analyze_sound`        MAIN THEOREM: analysis accepts from {not held, nothing deferred} and every
                           exit state is not holding ⇒ every complete execution trace of the body
                           satisfies `Locking.entryOk`
    `flows_no_race`, `flows_mutex_exclusive`, `flows_sections_contiguous`
                           … hence the generic theorems of `LockingLemmas` apply to threads whose
                           work is any concatenation of such traces
    `go_in_trace`          every `go m` in a trace comes from a `go m` in the table
-/
import ModbusVerif.Model.LockFlow
import ModbusVerif.Lemmas.LockingLemmas

namespace Modbus.LockFlow
open Modbus.Locking

/-! ### steps of traces -/

theorem steps_nil : steps [] = [] := rfl

theorem steps_append (a b : List Act) : steps (a ++ b) = steps a ++ steps b := by
  simp [steps]

/-- `steps` is the existing flattening with no call depth left -/
theorem steps_eq_flatten (prog : Program) (tr : List Act) : steps tr = Locking.flatten prog 0 tr :=
  rfl

/-! ### well-locked trace segments -/

/-- `tr` is well-locked when started in holding state `h`, and leaves holding state `h'`:
    whatever well-locked continuation follows, the whole passes `Locking.wellLocked` -/
def WL (mf : List String) (h : Bool) (tr : List Act) (h' : Bool) : Prop :=
  ∀ rest, wellLocked mf h' rest = true → wellLocked mf h (steps tr ++ rest) = true

theorem WL.nil {mf : List String} {h : Bool} : WL mf h [] h := by
  intro rest hr; simpa [steps] using hr

theorem WL.append {mf : List String} {h h' h'' : Bool} {a b : List Act}
    (h1 : WL mf h a h') (h2 : WL mf h' b h'') : WL mf h (a ++ b) h'' := by
  intro rest hr
  rw [steps_append, List.append_assoc]
  exact h1 _ (h2 _ hr)

theorem WL.acq {mf : List String} {n : String} : WL mf false [⟨.acq, n⟩] true := by
  intro rest hr
  show wellLocked mf false (.acq :: rest) = true
  exact wellLocked_acq.mpr ⟨rfl, hr⟩

theorem WL.rel {mf : List String} {n : String} : WL mf true [⟨.rel, n⟩] false := by
  intro rest hr
  show wellLocked mf true (.rel :: rest) = true
  exact wellLocked_rel.mpr ⟨rfl, hr⟩

theorem WL.rd {mf : List String} {f : String} {h : Bool} (hf : f ∈ mf → h = true) :
    WL mf h [⟨.rd, f⟩] h := by
  intro rest hr
  show wellLocked mf h (.rd f :: rest) = true
  exact wellLocked_rd.mpr ⟨hf, hr⟩

theorem WL.wr {mf : List String} {f : String} {h : Bool} (hf : f ∈ mf → h = true) :
    WL mf h [⟨.wr, f⟩] h := by
  intro rest hr
  show wellLocked mf h (.wr f :: rest) = true
  exact wellLocked_wr.mpr ⟨hf, hr⟩

theorem WL.go {mf : List String} {m : String} {h : Bool} : WL mf h [⟨.go, m⟩] h := by
  intro rest hr
  exact hr

theorem WL.toEntryOk {mf : List String} {tr : List Act} (h : WL mf false tr false) :
    Locking.entryOk mf (steps tr) = true := by
  have := h [] (by simp [wellLocked])
  simpa [Locking.entryOk] using this

/-! ### state sets -/

namespace SSet

/-- inclusion -/
def le (a b : SSet) : Prop := ∀ h d, a.mem h d = true → b.mem h d = true

theorem mem_union (a b : SSet) (h d : Bool) :
    (a.union b).mem h d = (a.mem h d || b.mem h d) := by
  cases h <;> cases d <;> rfl

theorem mem_empty (h d : Bool) : empty.mem h d = false := by
  cases h <;> cases d <;> rfl

theorem mem_single {h d h' d' : Bool} : (single h d).mem h' d' = true ↔ h' = h ∧ d' = d := by
  cases h <;> cases d <;> cases h' <;> cases d' <;> simp [single, mem]

theorem mem_of_isEmpty {s : SSet} (he : s.isEmpty = true) (h d : Bool) : s.mem h d = false := by
  cases s
  cases h <;> cases d <;> simp_all [isEmpty, mem]

theorem ext' {a b : SSet} (h : ∀ x y, a.mem x y = b.mem x y) : a = b := by
  have h1 := h false false
  have h2 := h false true
  have h3 := h true false
  have h4 := h true true
  cases a; cases b
  simp only [mem] at h1 h2 h3 h4
  simp [h1, h2, h3, h4]

theorem union_absorb {a b : SSet} (hle : b.le a) : a.union b = a := by
  apply ext'
  intro x y
  rw [mem_union]
  cases hb : b.mem x y with
  | false => simp
  | true => simp [hle x y hb]

theorem le_refl (a : SSet) : a.le a := fun _ _ h => h

theorem le_of_union_eq {s0 x f c : SSet} (he : ((s0.union x).union f).union c = x) :
    s0.le x ∧ f.le x ∧ c.le x := by
  refine ⟨?_, ?_, ?_⟩ <;> intro h d hm <;> rw [← he] <;> simp [mem_union, hm]

end SSet

/-! ### transfer functions -/

theorem doAcq_spec {s s' : SSet} {h d : Bool} (ha : doAcq s = some s') (hm : s.mem h d = true) :
    h = false ∧ s'.mem true d = true := by
  unfold doAcq at ha
  split at ha
  · cases ha
  · cases ha
    cases h <;> cases d <;> simp_all [SSet.mem]

theorem doRel_spec {s s' : SSet} {h d : Bool} (ha : doRel s = some s') (hm : s.mem h d = true) :
    h = true ∧ s'.mem false d = true := by
  unfold doRel at ha
  split at ha
  · cases ha
  · cases ha
    cases h <;> cases d <;> simp_all [SSet.mem]

theorem doAccess_spec {mf : List String} {f : String} {s s' : SSet} {h d : Bool}
    (ha : doAccess mf f s = some s') (hm : s.mem h d = true) :
    (f ∈ mf → h = true) ∧ s'.mem h d = true := by
  unfold doAccess at ha
  split at ha
  · cases ha
  · cases ha
    refine ⟨fun hf => ?_, hm⟩
    cases h <;> cases d <;> simp_all [SSet.mem]

theorem doDefer_spec {s s' : SSet} {h d : Bool} (ha : doDefer s = some s')
    (hm : s.mem h d = true) : d = false ∧ s'.mem h true = true := by
  unfold doDefer at ha
  split at ha
  · cases ha
  · cases ha
    cases h <;> cases d <;> simp_all [SSet.mem]

theorem doCall_spec {cf : Bool → Option HSet} {s s' : SSet} {h d : Bool}
    (ha : doCall cf s = some s') (hm : s.mem h d = true) :
    ∃ r, cf h = some r ∧ ∀ h', r.mem h' = true → s'.mem h' d = true := by
  unfold doCall at ha
  split at ha
  · rename_i rn rh hn hh
    cases ha
    cases h
    · -- the caller is not holding: the callee was analysed from `false`
      have hp : (s.nn || s.nd) = true := by cases d <;> simp_all [SSet.mem]
      rw [if_pos hp] at hn
      refine ⟨rn, hn, ?_⟩
      intro h' hr
      cases h' <;> cases d <;> simp_all [SSet.mem, HSet.mem]
    · have hp : (s.hn || s.hd) = true := by cases d <;> simp_all [SSet.mem]
      rw [if_pos hp] at hh
      refine ⟨rh, hh, ?_⟩
      intro h' hr
      cases h' <;> cases d <;> simp_all [SSet.mem, HSet.mem]
  · cases ha

/-! ### loops -/

theorem loopFix_spec {F : SSet → Option AbsOut} {s0 : SSet} :
    ∀ {n : Nat} {x x' : SSet} {o : AbsOut}, loopFix F s0 n x = some (x', o) →
      F x' = some o ∧ s0.le x' ∧ o.fall.le x' ∧ o.cont.le x' := by
  intro n
  induction n with
  | zero => intro x x' o h; simp [loopFix] at h
  | succ n ih =>
    intro x x' o h
    unfold loopFix at h
    cases hF : F x with
    | none => simp [hF] at h
    | some o1 =>
      simp only [hF] at h
      split at h
      · rename_i heq
        cases h
        exact ⟨hF, SSet.le_of_union_eq heq⟩
      · exact ih h

/-- the loop invariant found by the analysis of `loop b`: it contains the entry set, it is closed
    under one more iteration of `b`, and the analysis of the loop restarted from it gives the same
    result -/
theorem analyze_loop_inv {c : String → Option (Bool → Option HSet)} {mf : List String}
    {b : Flow} {S : SSet} {out : AbsOut} (ha : analyze c mf (.loop b) S = some out) :
    ∃ ob, analyze c mf b out.fall = some ob ∧ S.le out.fall ∧ ob.fall.le out.fall ∧
      ob.cont.le out.fall ∧ out.ret = ob.ret ∧ out.brk = ob.brk ∧
      analyze c mf (.loop b) out.fall = some out := by
  simp only [analyze] at ha
  cases hL : loopFix (analyze c mf b) S loopRounds S with
  | none => simp [hL] at ha
  | some p =>
    obtain ⟨x, ob⟩ := p
    simp only [hL] at ha
    cases ha
    obtain ⟨hF, h0, hf, hcn⟩ := loopFix_spec hL
    refine ⟨ob, hF, h0, hf, hcn, rfl, rfl, ?_⟩
    have hfix : ((x.union x).union ob.fall).union ob.cont = x := by
      rw [SSet.union_absorb (SSet.le_refl x), SSet.union_absorb hf, SSet.union_absorb hcn]
    show analyze c mf (.loop b) x = _
    simp only [analyze, loopRounds, loopFix, hF, hfix, if_true]

/-! ### soundness of the analysis of a piece of a body -/

/-- what the analysis assumes about callees: a successful exit analysis of `m` from holding state
    `h` covers every complete execution of `m`'s body (in particular `m` is in the table) -/
def CalleeSound (tbl : Table) (mf : List String)
    (c : String → Option (Bool → Option HSet)) : Prop :=
  ∀ m cf, c m = some cf → ∃ b, lookupF tbl m = some b ∧
    ∀ h r, cf h = some r → ∀ o d t, Exec tbl b 0 o d t →
      ∃ h', r.mem h' = true ∧ WL mf h (t ++ List.replicate d relAct) h'

theorem sel_seq_right {oa ob : AbsOut} {o : Out} {h d : Bool}
    (hm : (ob.sel o).mem h d = true) :
    ((⟨ob.fall, oa.ret.union ob.ret, oa.brk.union ob.brk, oa.cont.union ob.cont⟩ : AbsOut).sel
      o).mem h d = true := by
  cases o <;> simp_all [AbsOut.sel, SSet.mem_union]

theorem sel_seq_left {oa ob : AbsOut} {o : Out} {h d : Bool} (ho : o ≠ .fall)
    (hm : (oa.sel o).mem h d = true) :
    ((⟨ob.fall, oa.ret.union ob.ret, oa.brk.union ob.brk, oa.cont.union ob.cont⟩ : AbsOut).sel
      o).mem h d = true := by
  cases o <;> simp_all [AbsOut.sel, SSet.mem_union]

theorem sel_alt {oa ob : AbsOut} {o : Out} {h d : Bool}
    (hm : (oa.sel o).mem h d = true ∨ (ob.sel o).mem h d = true) :
    ((⟨oa.fall.union ob.fall, oa.ret.union ob.ret, oa.brk.union ob.brk,
        oa.cont.union ob.cont⟩ : AbsOut).sel o).mem h d = true := by
  cases o <;> simp_all [AbsOut.sel, SSet.mem_union]

/-- the core lemma, by induction on the execution: if the analysis of `f` from the set `S` succeeds
    and the execution starts in a state of `S`, then the state it ends in is in the set the analysis
    gives for its outcome, and its trace is well-locked between the two holding states -/
theorem analyze_sound_flow {tbl : Table} {mf : List String}
    {c : String → Option (Bool → Option HSet)} (hc : CalleeSound tbl mf c)
    {f : Flow} {d : Nat} {o : Out} {d' : Nat} {tr : List Act} (hx : Exec tbl f d o d' tr) :
    ∀ {S : SSet} {out : AbsOut} {h df : Bool}, analyze c mf f S = some out →
      S.mem h df = true → d = df.toNat →
      ∃ h' df', d' = df'.toNat ∧ (out.sel o).mem h' df' = true ∧ WL mf h tr h' := by
  induction hx with
  | skip =>
    intro S out h df ha hm hd
    simp only [analyze, Option.some.injEq] at ha
    subst ha
    exact ⟨h, df, hd, hm, WL.nil⟩
  | @prim k n d hk =>
    intro S out h df ha hm hd
    simp only [analyze, Option.map_eq_some_iff] at ha
    obtain ⟨s', hs, rfl⟩ := ha
    cases k with
    | acq =>
      obtain ⟨rfl, hm'⟩ := doAcq_spec hs hm
      exact ⟨true, df, hd, hm', WL.acq⟩
    | rel =>
      obtain ⟨rfl, hm'⟩ := doRel_spec hs hm
      exact ⟨false, df, hd, hm', WL.rel⟩
    | rd =>
      obtain ⟨hf, hm'⟩ := doAccess_spec hs hm
      exact ⟨h, df, hd, hm', WL.rd hf⟩
    | wr =>
      obtain ⟨hf, hm'⟩ := doAccess_spec hs hm
      exact ⟨h, df, hd, hm', WL.wr hf⟩
    | call => exact absurd rfl hk
    | go =>
      simp only [analyzeAct] at hs
      split at hs
      · cases hs
      · cases hs
        exact ⟨h, df, hd, hm, WL.go⟩
  | @call m b d o d₁ t hl hb _ =>
    intro S out h df ha hm hd
    simp only [analyze, Option.map_eq_some_iff] at ha
    obtain ⟨s', hs, rfl⟩ := ha
    simp only [analyzeAct] at hs
    cases hcm : c m with
    | none => simp [hcm] at hs
    | some cf =>
      simp only [hcm] at hs
      obtain ⟨b', hl', hcs⟩ := hc m cf hcm
      rw [hl] at hl'
      cases hl'
      obtain ⟨r, hr, hmem⟩ := doCall_spec hs hm
      obtain ⟨h', hrm, hw⟩ := hcs h r hr o d₁ t hb
      exact ⟨h', df, hd, hmem h' hrm, hw⟩
  | @callUnknown m d hl =>
    intro S out h df ha hm hd
    simp only [analyze, Option.map_eq_some_iff] at ha
    obtain ⟨s', hs, rfl⟩ := ha
    simp only [analyzeAct] at hs
    cases hcm : c m with
    | none => simp [hcm] at hs
    | some cf =>
      obtain ⟨b', hl', _⟩ := hc m cf hcm
      rw [hl] at hl'
      cases hl'
  | @seqFall a b d d₁ d₂ o t₁ t₂ _ _ iha ihb =>
    intro S out h df han hm hd
    cases hA : analyze c mf a S with
    | none => simp [analyze, hA] at han
    | some oa =>
      cases hB : analyze c mf b oa.fall with
      | none => simp [analyze, hA, hB] at han
      | some ob =>
        simp only [analyze, hA, hB, Option.some.injEq] at han
        subst han
        obtain ⟨h1, df1, e1, m1, w1⟩ := iha hA hm hd
        obtain ⟨h2, df2, e2, m2, w2⟩ := ihb hB m1 e1
        exact ⟨h2, df2, e2, sel_seq_right m2, w1.append w2⟩
  | @seqExit a b d d₁ o t₁ _ ho iha =>
    intro S out h df han hm hd
    cases hA : analyze c mf a S with
    | none => simp [analyze, hA] at han
    | some oa =>
      cases hB : analyze c mf b oa.fall with
      | none => simp [analyze, hA, hB] at han
      | some ob =>
        simp only [analyze, hA, hB, Option.some.injEq] at han
        subst han
        obtain ⟨h1, df1, e1, m1, w1⟩ := iha hA hm hd
        exact ⟨h1, df1, e1, sel_seq_left ho m1, w1⟩
  | @altL a b d d₁ o t _ iha =>
    intro S out h df han hm hd
    cases hA : analyze c mf a S with
    | none => simp [analyze, hA] at han
    | some oa =>
      cases hB : analyze c mf b S with
      | none => simp [analyze, hA, hB] at han
      | some ob =>
        simp only [analyze, hA, hB, Option.some.injEq] at han
        subst han
        obtain ⟨h1, df1, e1, m1, w1⟩ := iha hA hm hd
        exact ⟨h1, df1, e1, sel_alt (Or.inl m1), w1⟩
  | @altR a b d d₁ o t _ ihb =>
    intro S out h df han hm hd
    cases hA : analyze c mf a S with
    | none => simp [analyze, hA] at han
    | some oa =>
      cases hB : analyze c mf b S with
      | none => simp [analyze, hA, hB] at han
      | some ob =>
        simp only [analyze, hA, hB, Option.some.injEq] at han
        subst han
        obtain ⟨h1, df1, e1, m1, w1⟩ := ihb hB hm hd
        exact ⟨h1, df1, e1, sel_alt (Or.inr m1), w1⟩
  | @loopDone b d =>
    intro S out h df han hm hd
    obtain ⟨ob, _, h0, _⟩ := analyze_loop_inv han
    exact ⟨h, df, hd, h0 h df hm, WL.nil⟩
  | @loopIter b d d₁ d₂ o o' t₁ t₂ _ ho _ ihb ihr =>
    intro S out h df han hm hd
    obtain ⟨ob, hob, h0, hf, hcn, _, _, hre⟩ := analyze_loop_inv han
    obtain ⟨h1, df1, e1, m1, w1⟩ := ihb hob (h0 h df hm) hd
    have m1' : out.fall.mem h1 df1 = true := by
      rcases ho with rfl | rfl
      · exact hf h1 df1 m1
      · exact hcn h1 df1 m1
    obtain ⟨h2, df2, e2, m2, w2⟩ := ihr hre m1' e1
    exact ⟨h2, df2, e2, m2, w1.append w2⟩
  | @loopExit b d d₁ o t₁ _ ho ihb =>
    intro S out h df han hm hd
    obtain ⟨ob, hob, h0, _, _, hret, hbrk, _⟩ := analyze_loop_inv han
    obtain ⟨h1, df1, e1, m1, w1⟩ := ihb hob (h0 h df hm) hd
    refine ⟨h1, df1, e1, ?_, w1⟩
    rcases ho with rfl | rfl
    · show out.brk.mem h1 df1 = true
      rw [hbrk]; exact m1
    · show out.ret.mem h1 df1 = true
      rw [hret]; exact m1
  | @blockBrk b d d₁ t _ ihb =>
    intro S out h df han hm hd
    cases hB : analyze c mf b S with
    | none => simp [analyze, hB] at han
    | some ob =>
      simp only [analyze, hB, Option.some.injEq] at han
      subst han
      obtain ⟨h1, df1, e1, m1, w1⟩ := ihb hB hm hd
      refine ⟨h1, df1, e1, ?_, w1⟩
      show (ob.fall.union ob.brk).mem h1 df1 = true
      rw [SSet.mem_union]
      simp only [AbsOut.sel] at m1
      simp [m1]
  | @blockOther b d d₁ o t _ ho ihb =>
    intro S out h df han hm hd
    cases hB : analyze c mf b S with
    | none => simp [analyze, hB] at han
    | some ob =>
      simp only [analyze, hB, Option.some.injEq] at han
      subst han
      obtain ⟨h1, df1, e1, m1, w1⟩ := ihb hB hm hd
      refine ⟨h1, df1, e1, ?_, w1⟩
      cases o <;> simp_all [AbsOut.sel, SSet.mem_union]
  | ret =>
    intro S out h df ha hm hd
    simp only [analyze, Option.some.injEq] at ha
    subst ha
    exact ⟨h, df, hd, hm, WL.nil⟩
  | brk =>
    intro S out h df ha hm hd
    simp only [analyze, Option.some.injEq] at ha
    subst ha
    exact ⟨h, df, hd, hm, WL.nil⟩
  | cont =>
    intro S out h df ha hm hd
    simp only [analyze, Option.some.injEq] at ha
    subst ha
    exact ⟨h, df, hd, hm, WL.nil⟩
  | @deferRel d =>
    intro S out h df ha hm hd
    simp only [analyze, Option.map_eq_some_iff] at ha
    obtain ⟨s', hs, rfl⟩ := ha
    obtain ⟨rfl, hm'⟩ := doDefer_spec hs hm
    refine ⟨h, true, ?_, hm', WL.nil⟩
    subst hd
    rfl
  | stuck =>
    intro S out h df ha hm hd
    simp [analyze] at ha

/-! ### whole methods, calls -/

/-- a whole method body, entered in holding state `h`: every complete execution (any path, any
    outcome, deferred unlocks appended) is well-locked from `h` and exits in one of the holding
    states the analysis reports -/
theorem exitHeld_sound {tbl : Table} {mf : List String}
    {c : String → Option (Bool → Option HSet)} (hc : CalleeSound tbl mf c)
    {b : Flow} {h : Bool} {r : HSet} (he : exitHeld c mf b h = some r)
    {o : Out} {d : Nat} {t : List Act} (hx : Exec tbl b 0 o d t) :
    ∃ h', r.mem h' = true ∧ WL mf h (t ++ List.replicate d relAct) h' := by
  unfold exitHeld at he
  cases hA : analyze c mf b (.single h false) with
  | none => simp [hA] at he
  | some out =>
    simp only [hA] at he
    split at he
    · cases he
    · rename_i hbc
      split at he
      · cases he
      · rename_i hnd
        cases he
        have hbe : out.brk.isEmpty = true ∧ out.cont.isEmpty = true := by
          simpa using hbc
        obtain ⟨h', df', e, m, w⟩ :=
          analyze_sound_flow hc hx hA (SSet.mem_single.mpr ⟨rfl, rfl⟩) (rfl : 0 = false.toNat)
        have hfin : (out.fall.union out.ret).mem h' df' = true := by
          rw [SSet.mem_union]
          cases o with
          | fall => simp only [AbsOut.sel] at m; simp [m]
          | ret => simp only [AbsOut.sel] at m; simp [m]
          | brk =>
            simp only [AbsOut.sel] at m
            rw [SSet.mem_of_isEmpty hbe.1] at m; cases m
          | cont =>
            simp only [AbsOut.sel] at m
            rw [SSet.mem_of_isEmpty hbe.2] at m; cases m
        cases h' <;> cases df'
        · -- not holding, nothing deferred
          have e0 : d = 0 := e
          subst e0
          refine ⟨false, ?_, by simpa using w⟩
          simp only [SSet.mem] at hfin
          simp [HSet.mem, hfin]
        · -- not holding, unlock deferred: rejected
          simp only [SSet.mem] at hfin
          exact absurd hfin hnd
        · -- holding, nothing deferred: exits holding
          have e0 : d = 0 := e
          subst e0
          refine ⟨true, ?_, by simpa using w⟩
          simp only [SSet.mem] at hfin
          simp [HSet.mem, hfin]
        · -- holding, unlock deferred: the deferred unlock releases
          have e1 : d = 1 := e
          subst e1
          refine ⟨false, ?_, w.append WL.rel⟩
          simp only [SSet.mem] at hfin
          simp [HSet.mem, hfin]

/-- call inlining is sound at every analysis fuel (the executions nest to ANY depth: whenever the
    analysis, with its bounded depth, succeeds, it has followed every call chain to its end) -/
theorem calleeOf_sound (tbl : Table) (mf : List String) :
    ∀ fuel, CalleeSound tbl mf (calleeOf tbl mf fuel) := by
  intro fuel
  induction fuel with
  | zero => intro m cf h; simp [calleeOf] at h
  | succ fuel ih =>
    intro m cf hcm
    simp only [calleeOf] at hcm
    cases hl : lookupF tbl m with
    | none => simp [hl] at hcm
    | some b =>
      simp only [hl, Option.some.injEq] at hcm
      subst hcm
      exact ⟨b, rfl, fun h r he o d t hx => exitHeld_sound ih he hx⟩

/-! ### the main theorem -/

/-- SOUNDNESS.  If the analysis of `body`, started in the single state "not holding, nothing
    deferred", succeeds, no `break`/`continue` escapes, and no return / fall-through state is holding
    without a deferred unlock (`hn`) or has an unlock deferred without holding (`nd`) — i.e. every
    exit is not holding once the deferred unlock has run — then EVERY execution of the body (any
    branch choices, any number of iterations of every loop, calls followed to any depth, whatever
    outcome ends it), followed by its deferred unlocks, passes the linear checker. -/
theorem analyze_sound {tbl : Table} {mf : List String} {fuel : Nat} {body : Flow} {out : AbsOut}
    (ha : analyzeT tbl mf fuel body (SSet.single false false) = some out)
    (hbrk : out.brk.isEmpty = true) (hcont : out.cont.isEmpty = true)
    (hheld : (out.fall.union out.ret).hn = false)
    (hdef : (out.fall.union out.ret).nd = false)
    {o : Out} {d : Nat} {t : List Act} (hx : Exec tbl body 0 o d t) :
    entryOk mf (steps (t ++ List.replicate d relAct)) = true := by
  have he : exitHeld (calleeOf tbl mf fuel) mf body false =
      some ⟨(out.fall.union out.ret).nn || (out.fall.union out.ret).hd, false⟩ := by
    unfold analyzeT at ha
    simp [exitHeld, ha, hbrk, hcont, hheld, hdef]
  obtain ⟨h', hr, hw⟩ := exitHeld_sound (calleeOf_sound tbl mf fuel) he hx
  cases h' with
  | true => simp [HSet.mem] at hr
  | false => exact hw.toEntryOk

/-- the same for `MExec` -/
theorem analyze_sound_mexec {tbl : Table} {mf : List String} {fuel : Nat} {body : Flow}
    {out : AbsOut}
    (ha : analyzeT tbl mf fuel body (SSet.single false false) = some out)
    (hbrk : out.brk.isEmpty = true) (hcont : out.cont.isEmpty = true)
    (hheld : (out.fall.union out.ret).hn = false)
    (hdef : (out.fall.union out.ret).nd = false)
    {tr : List Act} (hx : MExec tbl body tr) : entryOk mf (steps tr) = true := by
  obtain ⟨o, d, t, hx, rfl⟩ := hx
  exact analyze_sound ha hbrk hcont hheld hdef hx

/-- the executable entry check implies the hypotheses of `analyze_sound` -/
theorem entryCheck_sound {tbl : Table} {mf : List String} {fuel : Nat} {m : String}
    (hc : entryCheck tbl mf fuel m = true) {tr : List Act} (hr : MethodRun tbl m tr) :
    entryOk mf (steps tr) = true := by
  obtain ⟨body, hl, o, d, t, hx, rfl⟩ := hr
  unfold entryCheck at hc
  simp only [hl] at hc
  cases he : exitHeld (calleeOf tbl mf fuel) mf body false with
  | none => simp [he] at hc
  | some r =>
    simp only [he] at hc
    obtain ⟨h', hr, hw⟩ := exitHeld_sound (calleeOf_sound tbl mf fuel) he hx
    cases h' with
    | true =>
      simp only [HSet.mem] at hr
      simp [hr] at hc
    | false => exact hw.toEntryOk

/-- … and is exactly them -/
theorem entryCheck_iff {tbl : Table} {mf : List String} {fuel : Nat} {m : String} :
    entryCheck tbl mf fuel m = true ↔
      ∃ body out, lookupF tbl m = some body ∧
        analyzeT tbl mf fuel body (SSet.single false false) = some out ∧
        out.brk.isEmpty = true ∧ out.cont.isEmpty = true ∧
        (out.fall.union out.ret).hn = false ∧ (out.fall.union out.ret).nd = false := by
  unfold entryCheck analyzeT exitHeld
  constructor
  · intro h
    cases hl : lookupF tbl m with
    | none => simp [hl] at h
    | some body =>
      cases hA : analyze (calleeOf tbl mf fuel) mf body (SSet.single false false) with
      | none => simp [hl, hA] at h
      | some out =>
        refine ⟨body, out, rfl, hA, ?_⟩
        simp only [hl, hA] at h
        by_cases hbc : (!out.brk.isEmpty || !out.cont.isEmpty) = true
        · simp [hbc] at h
        · by_cases hnd : (out.fall.union out.ret).nd = true
          · simp [hbc, hnd] at h
          · simp only [hbc, hnd] at h
            have hbe : out.brk.isEmpty = true ∧ out.cont.isEmpty = true := by
              simpa using hbc
            exact ⟨hbe.1, hbe.2, by simpa using h, by simpa using hnd⟩
  · rintro ⟨body, out, hl, hA, hb, hc, hh, hd⟩
    simp [hl, hA, hb, hc, hh, hd]

/-! ### threads whose work is a concatenation of method executions -/

/-- the hypotheses of T1/T2 hold for `initWork` when every entry passes the check and every thread
    performs a finite sequence of complete executions of entry methods -/
theorem initWork_ok {tbl : Table} {mf : List String} {fuel : Nat} {ents : List String}
    (hok : checkEntries tbl mf fuel ents = true) {work : List (List (List Act))}
    (hw : ∀ ts ∈ work, ∀ t ∈ ts, ∃ m ∈ ents, MethodRun tbl m t) :
    (initWork work).holder = none ∧
    ∀ t ∈ (initWork work).threads, t.holding = false ∧ wellLocked mf false t.todo = true := by
  refine ⟨rfl, ?_⟩
  intro t ht
  simp only [initWork, List.mem_map] at ht
  obtain ⟨ts, hts, rfl⟩ := ht
  refine ⟨rfl, wellLocked_flatten ?_⟩
  intro l hl
  obtain ⟨tr, htr, rfl⟩ := List.mem_map.mp hl
  obtain ⟨m, hm, hrun⟩ := hw ts hts tr htr
  exact entryCheck_sound (List.all_eq_true.mp hok m hm) hrun

/-- T1 for checked flows: any number of threads, each performing any finite sequence of complete
    executions (any path each) of entry methods, under any schedule: no race on a mutable field -/
theorem flows_no_race {tbl : Table} {mf : List String} {fuel : Nat} {ents : List String}
    (hok : checkEntries tbl mf fuel ents = true) (work : List (List (List Act)))
    (hw : ∀ ts ∈ work, ∀ t ∈ ts, ∃ m ∈ ents, MethodRun tbl m t) (sched : List Nat) :
    ¬ RaceAt mf (run (initWork work) sched) :=
  no_race (initWork_ok hok hw).1 (initWork_ok hok hw).2 sched

/-- T2a for checked flows -/
theorem flows_mutex_exclusive {tbl : Table} {mf : List String} {fuel : Nat} {ents : List String}
    (hok : checkEntries tbl mf fuel ents = true) (work : List (List (List Act)))
    (hw : ∀ ts ∈ work, ∀ t ∈ ts, ∃ m ∈ ents, MethodRun tbl m t) (sched : List Nat)
    {i j : Nat} {ti tj : Thread}
    (hi : (run (initWork work) sched).threads[i]? = some ti)
    (hj : (run (initWork work) sched).threads[j]? = some tj)
    (hhi : ti.holding = true) (hhj : tj.holding = true) : i = j :=
  mutex_exclusive (mf := mf) (initWork_ok hok hw).1 (initWork_ok hok hw).2 sched hi hj hhi hhj

/-- T2b for checked flows -/
theorem flows_sections_contiguous {tbl : Table} {mf : List String} {fuel : Nat}
    {ents : List String} (hok : checkEntries tbl mf fuel ents = true)
    (work : List (List (List Act)))
    (hw : ∀ ts ∈ work, ∀ t ∈ ts, ∃ m ∈ ents, MethodRun tbl m t) (sched : List Nat)
    {i : Nat} {pre mid rest : List (Nat × Step)}
    (htr : trace (initWork work) sched = pre ++ (i, Step.acq) :: (mid ++ rest))
    (hnorel : (i, Step.rel) ∉ mid) :
    ∀ p ∈ mid, p.1 ≠ i → Harmless mf p.2 :=
  critical_sections_contiguous (initWork_ok hok hw).1 (initWork_ok hok hw).2 sched htr hnorel

/-! ### spawned goroutines -/

theorem lookupF_mem {tbl : Table} {m : String} {b : Flow} (h : lookupF tbl m = some b) :
    (m, b) ∈ tbl := by
  induction tbl with
  | nil => simp [lookupF] at h
  | cons p rest ih =>
    obtain ⟨n, b'⟩ := p
    unfold lookupF at h
    split at h
    · rename_i hn
      cases h
      subst hn
      exact List.mem_cons_self
    · exact List.mem_cons_of_mem _ (ih h)

/-- every `go m` in a trace stems from a `go m` in the executed piece or in a method of the table:
    the goroutines spawned along any execution run methods for which `P` holds (instantiated with
    "is a checked entry point") -/
theorem go_in_trace {tbl : Table} {P : String → Prop}
    (htbl : ∀ n b, lookupF tbl n = some b → ∀ m ∈ goIn b, P m)
    {f : Flow} {d : Nat} {o : Out} {d' : Nat} {tr : List Act} (hx : Exec tbl f d o d' tr) :
    (∀ m ∈ goIn f, P m) → ∀ m, (⟨.go, m⟩ : Act) ∈ tr → P m := by
  induction hx with
  | skip => intro _ m hm; simp at hm
  | @prim k n d hk =>
    intro hf m hm
    simp only [List.mem_singleton, Act.mk.injEq] at hm
    obtain ⟨rfl, rfl⟩ := hm
    exact hf m (by simp [goIn])
  | @call m' b d o d₁ t hl _ ih =>
    intro _ m hm
    rcases List.mem_append.mp hm with hm | hm
    · exact ih (htbl m' b hl) m hm
    · have := (List.mem_replicate.mp hm).2
      simp [relAct] at this
  | callUnknown => intro _ m hm; simp at hm
  | seqFall _ _ iha ihb =>
    intro hf m hm
    rcases List.mem_append.mp hm with hm | hm
    · exact iha (fun m hm => hf m (by simp [goIn, hm])) m hm
    · exact ihb (fun m hm => hf m (by simp [goIn, hm])) m hm
  | seqExit _ _ iha =>
    intro hf m hm
    exact iha (fun m hm => hf m (by simp [goIn, hm])) m hm
  | altL _ iha =>
    intro hf m hm
    exact iha (fun m hm => hf m (by simp [goIn, hm])) m hm
  | altR _ ihb =>
    intro hf m hm
    exact ihb (fun m hm => hf m (by simp [goIn, hm])) m hm
  | loopDone => intro _ m hm; simp at hm
  | loopIter _ _ _ ihb ihr =>
    intro hf m hm
    rcases List.mem_append.mp hm with hm | hm
    · exact ihb (fun m hm => hf m (by simpa [goIn] using hm)) m hm
    · exact ihr hf m hm
  | loopExit _ _ ihb =>
    intro hf m hm
    exact ihb (fun m hm => hf m (by simpa [goIn] using hm)) m hm
  | blockBrk _ ihb =>
    intro hf m hm
    exact ihb (fun m hm => hf m (by simpa [goIn] using hm)) m hm
  | blockOther _ _ ihb =>
    intro hf m hm
    exact ihb (fun m hm => hf m (by simpa [goIn] using hm)) m hm
  | ret => intro _ m hm; simp at hm
  | brk => intro _ m hm; simp at hm
  | cont => intro _ m hm; simp at hm
  | deferRel => intro _ m hm; simp at hm
  | stuck => intro _ m hm; simp at hm

/-- packaged: if every `go` target occurring in the table is in `ents`, every goroutine spawned
    along a complete execution of a method of the table runs a method of `ents` -/
theorem go_targets_are_entries {tbl : Table} {ents : List String}
    (hall : tbl.all (fun p => (goIn p.2).all (fun m => ents.contains m)) = true)
    {m : String} {tr : List Act} (hr : MethodRun tbl m tr) :
    ∀ g, (⟨.go, g⟩ : Act) ∈ tr → g ∈ ents := by
  have htbl : ∀ n b, lookupF tbl n = some b → ∀ g ∈ goIn b, g ∈ ents := by
    intro n b hl g hg
    have := List.all_eq_true.mp hall (n, b) (lookupF_mem hl)
    have := List.all_eq_true.mp this g hg
    simpa using this
  obtain ⟨body, hl, o, d, t, hx, rfl⟩ := hr
  intro g hg
  rcases List.mem_append.mp hg with hg | hg
  · exact go_in_trace htbl hx (htbl m body hl) g hg
  · have := (List.mem_replicate.mp hg).2
    simp [relAct] at this

end Modbus.LockFlow
