import ModbusVerif.Lemmas.GoEvalTransportLemmas
import ModbusVerif.Model.Client
/-
  BYTE STRINGS for `Modbus.GoEval`: slices as immutable heap objects named by HANDLES.

  `GoEval.Val` has integers, symbols and `unk`, no byte strings. The richer rendering `Gen.gsp_<fn>`
  of the functions that BUILD byte strings makes every slice operation a call statement
  (`x = append(base, e1, e2)` ↦ `bindCall [x] "append" [base, e1, e2]`, `append(base, s...)` ↦
  `"append..." [base, s]`, `[]byte{a, b}` ↦ `"bytes" [a, b]`, a codec call in argument position is
  first bound to a temporary `#arg0`). This file gives those calls a meaning.

  ## The device
  * A HANDLE is a natural number: the POSITION IN THE CALL LOG of the call that created the slice.
    `sliceWorld ext : World` (a history-dependent oracle, `GoEvalTransportLemmas`) answers every
    slice-producing callee (`isSliceCallee`) with the single result `.int ↑(length of the log so far)`,
    i.e. with the position the call itself is about to take in the log; every other call is passed
    to `ext : World` (the caller's oracle: `mc.encoding`, `mc.executeRequest`, probes …).
  * INPUT slices are pseudo-entries `("#input", elements as ints)` placed in the INITIAL log
    (`seedInput`); the variable is bound to that position in the entry environment. The nil / empty
    slice is `seedInput []`.
  * `sliceState : Calls → SliceSt` folds over the log from the left and computes for every position
    the object created there (`none`: not a slice-producing call, or ill-formed arguments) together
    with the state of the one `crc` object of the function (`crc.init` / `crc.add` / `crc.value`).
    Objects are lists of `Int` (a `[]byte`, `[]bool`, `[]uint16` … all fit); `sliceAt cs h` is the
    object at handle `h`, `bytesAt cs h` its view as bytes (`BitVec.ofInt 8` of every element),
    `crcAt cs` the CRC register after the calls of `cs`.
    (A left fold rather than a recursion on the handle with fuel: the object at `h` depends only
    on `cs.take (h + 1)`, and a log only grows at its end, so `sliceAt` is stable under extension:
    `sliceAt_mono`.)

  ## What the interpretation SAYS (modelled, not derived)
  * `append` / `append...` is CONCATENATION INTO A FRESH OBJECT: the result has a new handle, the
    operands are unchanged. Whether two Go slices share a backing array is not represented
    (aliasing is property C18's business).
  * `uint16ToBytes [e, v]`, `uint32ToBytes` / `float32ToBytes [e, w, v]`, `uint64ToBytes` /
    `float64ToBytes [e, w, v]`, `encodeBools [h]`, `uint16sToBytes [e, h]` are interpreted by the
    MODEL codecs `Enc.*` (Model/Encoding.lean) on `endianOfInt e`, `wordOfInt w` and the value taken
    modulo 2^16 / 2^32 / 2^64 (`BitVec.ofInt`). The SOURCE codecs are tied to these model codecs
    separately (Props/C17Src.lean, Props/C06Src.lean). A float argument is its IEEE-754 bit pattern
    as an integer (as in `Client.Op`: "float variants carry bit patterns"), so `float32ToBytes` is
    `Enc.uint32ToBytes` on the pattern.
  * `crc.init [] ↦ Crc.init`, `crc.add [h] ↦ Crc.add (register) (bytes at h)`, `crc.value [] ↦ a fresh
    slice `Crc.value register`: the MODEL CRC (source tie: Props/C06Src.lean). The register is `none`
    until `crc.init` (the Go zero value is not modelled: `crc.value` before `crc.init` has no object).
  * an element `.int v` of `append` / `bytes` / `#input` stands for the byte `BitVec.ofInt 8 v`
    (values of Go type `byte` are in range, then this is the identity: `byteOfInt_toNat`).

  ## Interface
  world        `isSliceCallee`, `sliceWorld`, `sliceWorld_slice` / `sliceWorld_other` (general), one simp lemma per
               slice callee (`sliceWorld_append`, `_appendS`, `_bytes`, `_u16`, `_u32`, `_f32`, `_u64`, `_f64`,
               `_encodeBools`, `_u16s`, `_crcValue`) and pass-through lemmas for `crc.init`, `crc.add`,
               `mc.executeRequest`, `mc.writeRegisters`, `mc.encoding` (other callees:
               `sliceWorld_other ext cs _ args (by decide)`)
  values       `endianOfInt`, `wordOfInt`, `intOfEndian`, `intOfWord`, `intsOfVals`, `intsOfBytes`, `intsOfBools`,
               `bytesOfInts`, `boolsOfInts`, `u16sOfInts`; `byteOfInt_toNat`, `ofInt16_toNat`, `ofInt32_toNat`,
               `ofInt64_toNat`, `ofInt16_of_mod`, `ofInt8_of_mod`, `bytesOfInts_intsOfBytes`, `boolsOfInts_intsOfBools`
  seeding      `seedInput`, `sliceAt_seed`, `bytesAt_seed`, `…_seed2_0/1`, `sliceAt_snoc_input`, `bytesAt_snoc_input`
  interpreter  `SliceSt`, `handleOf`, `sliceNew`, `crcNext`, `sliceStep`, `sliceState`, `sliceAt`, `bytesAt`, `crcAt`
               (the last four are IRREDUCIBLE after this file's lemmas: use the lemmas; `decide +kernel` works)
  log growth   `sliceState_snoc`, `sliceAt_snoc_lt`, `sliceAt_snoc_self`, `sliceAt_lt_of_some`, `sliceAt_mono`,
               `sliceAt_mono1`, `bytesAt_mono`, `bytesAt_mono1`, `bytesAt_lt_of_some`, `crcAt_snoc_other`,
               `crcAt_mono1`, `sliceAt_snoc_none`, `bytesAt_eq_of`
  per callee   (handle `k` with side condition `hk : k = cs.length`) `bytesAt_snoc_bytes`, `_append` (general) /
               `_append1` / `_append2` / `_append3`, `_appendS`, `_u16`, `_u32`, `_f32`, `_u64`, `_f64`,
               `_encodeBools`, `_u16s`, `_crcValue`; `crcAt_snoc_init`, `crcAt_snoc_add`
  probes       `probeInts`, `probeInts_lt`, `probeInts_ge` (answer of a `withProbe` pseudo-call on an integer list)
  running      `execFromW_ge`, `execFromW_seq_of_fell`, `execFromW_seq_of_end`, `execFromW_loop_of_fell`,
               `execFromW_loop_of_broke` (the `W` copies of the composition lemmas of GoEvalLifeLemmas)
  tactics      `go_slices [gsp_term, hyps…]`: `go_evalW` + the world lemmas + handles normalised to `cs0.length + n`
               (`length_add_add`); `slice_solve`: proves `bytesAt LOG h = some ?b` / `sliceAt …` / `crcAt LOG = some ?s`
               for `LOG = cs0 ++ [c1] ++ … ++ [cn]` by walking down the log (use after `apply bytesAt_eq_of`, then
               `case h1 => slice_solve`, `case h2 =>` the equation of byte strings); `len_solve` for the `hk`s.
  Typical use: Props/C01SrcBytes.lean (`C01B_mbap_frame`: straight-line; `multi_loop`: a loop by induction with
  the invariant "`payload` is a handle `h` with `bytesAt cs h = some acc`").
  Imports: GoEvalTransportLemmas (world evaluator), Model/Client (→ Rtu, Mbap, Crc, Encoding). It does NOT import
  GoEvalLifeLemmas / GoEvalCodecLemmas (which cannot be imported together); `withProbe` lives in GoEvalLifeLemmas.
-/
set_option linter.unusedSimpArgs false
set_option linter.unusedVariables false

namespace Modbus.GoEval
open Modbus Modbus.Gen

/-! ### 1. values -/

/-- Go `Endianness`: 1 = `BIG_ENDIAN`, 2 = `LITTLE_ENDIAN` (`Gen.intConsts`), anything else matches no
    `case` -/
def endianOfInt (v : Int) : Endian := if v = 1 then .big else if v = 2 then .little else .invalid
/-- Go `WordOrder`: 1 = `HIGH_WORD_FIRST`, 2 = `LOW_WORD_FIRST` -/
def wordOfInt (v : Int) : WordOrder := if v = 1 then .highFirst else if v = 2 then .lowFirst else .invalid

theorem endianOfInt_1 : endianOfInt 1 = .big := by exact id rfl
theorem endianOfInt_2 : endianOfInt 2 = .little := by exact id rfl
theorem wordOfInt_1 : wordOfInt 1 = .highFirst := by exact id rfl
theorem wordOfInt_2 : wordOfInt 2 = .lowFirst := by exact id rfl

/-- the selector values the evaluator sees for a model `Endian` / `WordOrder` (0: neither constant) -/
def intOfEndian : Endian → Int | .big => 1 | .little => 2 | .invalid => 0
def intOfWord : WordOrder → Int | .highFirst => 1 | .lowFirst => 2 | .invalid => 0
theorem endianOfInt_intOfEndian (e : Endian) : endianOfInt (intOfEndian e) = e := by cases e <;> rfl
theorem wordOfInt_intOfWord (w : WordOrder) : wordOfInt (intOfWord w) = w := by cases w <;> rfl

/-- the selector constants of the package are the ones used here -/
theorem selectors_are_extracted :
    intConst? "BIG_ENDIAN" = some 1 ∧ intConst? "LITTLE_ENDIAN" = some 2 ∧
    intConst? "HIGH_WORD_FIRST" = some 1 ∧ intConst? "LOW_WORD_FIRST" = some 2 := by decide +kernel

/-- the integers of a list of argument values (`none`: some value is not an integer) -/
def intsOfVals : List Val → Option (List Int)
  | [] => some []
  | .int v :: r => (intsOfVals r).map (v :: ·)
  | _ :: _ => none

theorem intsOfVals_nil : intsOfVals [] = some [] := by exact id rfl
theorem intsOfVals_cons_int (v : Int) (r : List Val) :
    intsOfVals (.int v :: r) = (intsOfVals r).map (v :: ·) := by exact id rfl
theorem intsOfVals_map_int (l : List Int) : intsOfVals (l.map Val.int) = some l := by
  induction l with
  | nil => rfl
  | cons a t ih => simp only [List.map_cons, intsOfVals_cons_int, ih, Option.map_some]

/-- a byte string / a list of booleans as object elements -/
def intsOfBytes (bs : Bytes) : List Int := bs.map (fun b => (b.toNat : Int))
def intsOfBools (l : List Bool) : List Int := l.map (fun b => if b then 1 else 0)
/-- views of an object -/
def bytesOfInts (l : List Int) : Bytes := l.map (BitVec.ofInt 8)
def boolsOfInts (l : List Int) : List Bool := l.map (fun v => decide (v ≠ 0))
def u16sOfInts (l : List Int) : List U16 := l.map (BitVec.ofInt 16)

theorem byteOfInt_toNat (b : Byte) : BitVec.ofInt 8 (b.toNat : Int) = b := by
  apply BitVec.eq_of_toNat_eq
  have := b.isLt
  simp only [BitVec.toNat_ofInt]
  omega
theorem ofInt16_toNat (v : U16) : BitVec.ofInt 16 (v.toNat : Int) = v := by
  apply BitVec.eq_of_toNat_eq
  have := v.isLt
  simp only [BitVec.toNat_ofInt]
  omega
theorem ofInt32_toNat (v : U32) : BitVec.ofInt 32 (v.toNat : Int) = v := by
  apply BitVec.eq_of_toNat_eq
  have := v.isLt
  simp only [BitVec.toNat_ofInt]
  omega
theorem ofInt64_toNat (v : U64) : BitVec.ofInt 64 (v.toNat : Int) = v := by
  apply BitVec.eq_of_toNat_eq
  have := v.isLt
  simp only [BitVec.toNat_ofInt]
  omega
/-- a value wrapped to 16 bits is the 16-bit word of the unwrapped natural -/
theorem ofInt16_of_mod (x : Int) (n : Nat) (h : x % 65536 = (n : Int) % 65536) :
    BitVec.ofInt 16 x = u16OfNat n := by
  apply BitVec.eq_of_toNat_eq
  simp only [BitVec.toNat_ofInt, u16OfNat, BitVec.toNat_ofNat]
  omega
theorem ofInt8_of_mod (x : Int) (n : Nat) (h : x % 256 = (n : Int) % 256) :
    BitVec.ofInt 8 x = byteOfNat n := by
  apply BitVec.eq_of_toNat_eq
  simp only [BitVec.toNat_ofInt, byteOfNat, BitVec.toNat_ofNat]
  omega

theorem bytesOfInts_intsOfBytes (bs : Bytes) : bytesOfInts (intsOfBytes bs) = bs := by
  induction bs with
  | nil => rfl
  | cons b t ih =>
    simp only [bytesOfInts, intsOfBytes, List.map_cons, List.map_map] at ih ⊢
    rw [ih]
    simp only [Function.comp, byteOfInt_toNat]
theorem boolsOfInts_intsOfBools (l : List Bool) : boolsOfInts (intsOfBools l) = l := by
  induction l with
  | nil => rfl
  | cons b t ih =>
    simp only [boolsOfInts, intsOfBools, List.map_cons, List.map_map] at ih ⊢
    rw [ih]
    cases b <;> simp
theorem bytesOfInts_append (a b : List Int) : bytesOfInts (a ++ b) = bytesOfInts a ++ bytesOfInts b := by
  simp only [bytesOfInts, List.map_append]
theorem bytesOfInts_nil : bytesOfInts [] = [] := by exact id rfl
theorem bytesOfInts_cons (v : Int) (l : List Int) :
    bytesOfInts (v :: l) = BitVec.ofInt 8 v :: bytesOfInts l := by exact id rfl
theorem intsOfBytes_length (bs : Bytes) : (intsOfBytes bs).length = bs.length := by
  simp only [intsOfBytes, List.length_map]

/-! ### 2. the world -/

/-- the callees that produce a slice (one result: the new slice) -/
def isSliceCallee (f : String) : Bool :=
  f = "append" || f = "append..." || f = "bytes" || f = "uint16ToBytes" || f = "uint32ToBytes" ||
  f = "float32ToBytes" || f = "uint64ToBytes" || f = "float64ToBytes" || f = "encodeBools" ||
  f = "uint16sToBytes" || f = "crc.value"

/-- every slice-producing call returns, as the handle of the new slice, the position the call takes
    in the log; everything else is the caller's business (`ext` also sees the log) -/
def sliceWorld (ext : World) : World := fun cs f args =>
  if isSliceCallee f = true then some [.int (cs.length : Int)] else ext cs f args

theorem sliceWorld_slice (ext : World) (cs : Calls) (f : String) (args : List Val)
    (h : isSliceCallee f = true) : sliceWorld ext cs f args = some [.int (cs.length : Int)] := by
  simp only [sliceWorld, h, ↓reduceIte]
theorem sliceWorld_other (ext : World) (cs : Calls) (f : String) (args : List Val)
    (h : isSliceCallee f = false) : sliceWorld ext cs f args = ext cs f args := by
  simp only [sliceWorld, h, Bool.false_eq_true, ↓reduceIte]

section world_lemmas
variable (ext : World) (cs : Calls) (args : List Val)
theorem sliceWorld_append : sliceWorld ext cs "append" args = some [.int (cs.length : Int)] :=
  sliceWorld_slice ext cs _ args (by decide)
theorem sliceWorld_appendS : sliceWorld ext cs "append..." args = some [.int (cs.length : Int)] :=
  sliceWorld_slice ext cs _ args (by decide)
theorem sliceWorld_bytes : sliceWorld ext cs "bytes" args = some [.int (cs.length : Int)] :=
  sliceWorld_slice ext cs _ args (by decide)
theorem sliceWorld_u16 : sliceWorld ext cs "uint16ToBytes" args = some [.int (cs.length : Int)] :=
  sliceWorld_slice ext cs _ args (by decide)
theorem sliceWorld_u32 : sliceWorld ext cs "uint32ToBytes" args = some [.int (cs.length : Int)] :=
  sliceWorld_slice ext cs _ args (by decide)
theorem sliceWorld_f32 : sliceWorld ext cs "float32ToBytes" args = some [.int (cs.length : Int)] :=
  sliceWorld_slice ext cs _ args (by decide)
theorem sliceWorld_u64 : sliceWorld ext cs "uint64ToBytes" args = some [.int (cs.length : Int)] :=
  sliceWorld_slice ext cs _ args (by decide)
theorem sliceWorld_f64 : sliceWorld ext cs "float64ToBytes" args = some [.int (cs.length : Int)] :=
  sliceWorld_slice ext cs _ args (by decide)
theorem sliceWorld_encodeBools : sliceWorld ext cs "encodeBools" args = some [.int (cs.length : Int)] :=
  sliceWorld_slice ext cs _ args (by decide)
theorem sliceWorld_u16s : sliceWorld ext cs "uint16sToBytes" args = some [.int (cs.length : Int)] :=
  sliceWorld_slice ext cs _ args (by decide)
theorem sliceWorld_crcValue : sliceWorld ext cs "crc.value" args = some [.int (cs.length : Int)] :=
  sliceWorld_slice ext cs _ args (by decide)
/-- callees that are not slice-producing go to `ext` (general form: `sliceWorld_other … (by decide)`) -/
theorem sliceWorld_crcInit : sliceWorld ext cs "crc.init" args = ext cs "crc.init" args :=
  sliceWorld_other ext cs _ args (by decide)
theorem sliceWorld_crcAdd : sliceWorld ext cs "crc.add" args = ext cs "crc.add" args :=
  sliceWorld_other ext cs _ args (by decide)
theorem sliceWorld_executeRequest :
    sliceWorld ext cs "mc.executeRequest" args = ext cs "mc.executeRequest" args :=
  sliceWorld_other ext cs _ args (by decide)
theorem sliceWorld_writeRegisters :
    sliceWorld ext cs "mc.writeRegisters" args = ext cs "mc.writeRegisters" args :=
  sliceWorld_other ext cs _ args (by decide)
theorem sliceWorld_encoding : sliceWorld ext cs "mc.encoding" args = ext cs "mc.encoding" args :=
  sliceWorld_other ext cs _ args (by decide)
end world_lemmas

/-! ### 3. the interpreter -/

/-- the objects created at the positions of a log, and the register of the `crc` object -/
structure SliceSt where
  objs : List (Option (List Int))
  crc  : Option U16

/-- a handle value -/
def handleOf : Val → Option Nat
  | .int v => if 0 ≤ v then some v.toNat else none
  | _ => none

theorem handleOf_nat (n : Nat) : handleOf (.int (n : Int)) = some n := by
  simp only [handleOf, Int.natCast_nonneg, ↓reduceIte, Int.toNat_natCast]

/-- the object a handle value denotes -/
def SliceSt.get (st : SliceSt) (v : Val) : Option (List Int) :=
  match handleOf v with
  | some h => st.objs.getD h none
  | none => none

theorem SliceSt.get_nat (st : SliceSt) (n : Nat) : st.get (.int (n : Int)) = st.objs.getD n none := by
  simp only [SliceSt.get, handleOf_nat]

/-- the object created by the call `f args` in state `st`; `none`: no object (not a slice-producing
    call, or arguments that are not what the callee takes) -/
def sliceNew (st : SliceSt) (f : String) (args : List Val) : Option (List Int) :=
  if f = "#input" then intsOfVals args
  else if f = "bytes" then (intsOfVals args).map (fun l => intsOfBytes (bytesOfInts l))
  else if f = "append" then
    (match args with
     | b :: es => (match st.get b, intsOfVals es with
        | some x, some l => some (x ++ intsOfBytes (bytesOfInts l))
        | _, _ => none)
     | [] => none)
  else if f = "append..." then
    (match args with
     | [a, b] => (match st.get a, st.get b with
        | some x, some y => some (x ++ y)
        | _, _ => none)
     | _ => none)
  else if f = "uint16ToBytes" then
    (match args with
     | [.int e, .int v] => some (intsOfBytes (Enc.uint16ToBytes (endianOfInt e) (BitVec.ofInt 16 v)))
     | _ => none)
  else if f = "uint32ToBytes" ∨ f = "float32ToBytes" then
    (match args with
     | [.int e, .int w, .int v] =>
       some (intsOfBytes (Enc.uint32ToBytes (endianOfInt e) (wordOfInt w) (BitVec.ofInt 32 v)))
     | _ => none)
  else if f = "uint64ToBytes" ∨ f = "float64ToBytes" then
    (match args with
     | [.int e, .int w, .int v] =>
       some (intsOfBytes (Enc.uint64ToBytes (endianOfInt e) (wordOfInt w) (BitVec.ofInt 64 v)))
     | _ => none)
  else if f = "encodeBools" then
    (match args with
     | [a] => (st.get a).map (fun l => intsOfBytes (Enc.encodeBools (boolsOfInts l)))
     | _ => none)
  else if f = "uint16sToBytes" then
    (match args with
     | [.int e, a] => (st.get a).map (fun l => intsOfBytes (Enc.uint16sToBytes (endianOfInt e) (u16sOfInts l)))
     | _ => none)
  else if f = "crc.value" then st.crc.map (fun s => intsOfBytes (Crc.value s))
  else none

/-- the register of the `crc` object after the call `f args` -/
def crcNext (st : SliceSt) (f : String) (args : List Val) : Option U16 :=
  if f = "crc.init" then some Crc.init
  else if f = "crc.add" then
    (match args with
     | [a] => (match st.crc, st.get a with
        | some s, some l => some (Crc.add s (bytesOfInts l))
        | _, _ => none)
     | _ => none)
  else st.crc

def sliceStep (st : SliceSt) (c : String × List Val) : SliceSt :=
  ⟨st.objs ++ [sliceNew st c.1 c.2], crcNext st c.1 c.2⟩

/-- the state after a log (left fold) -/
def sliceState (cs : Calls) : SliceSt := cs.foldl sliceStep ⟨[], none⟩

/-- the object at handle `h` -/
def sliceAt (cs : Calls) (h : Nat) : Option (List Int) := (sliceState cs).objs.getD h none
/-- … as bytes -/
def bytesAt (cs : Calls) (h : Nat) : Option Bytes := (sliceAt cs h).map bytesOfInts
/-- the CRC register after the calls of `cs` -/
def crcAt (cs : Calls) : Option U16 := (sliceState cs).crc

/-! ### 4. the log grows at its end -/

theorem sliceState_nil : sliceState [] = ⟨[], none⟩ := by exact id rfl

theorem sliceState_snoc (cs : Calls) (c : String × List Val) :
    sliceState (cs ++ [c]) = sliceStep (sliceState cs) c := by
  simp only [sliceState, List.foldl_append, List.foldl_cons, List.foldl_nil]

theorem foldl_sliceStep_objs_length (cs : Calls) : ∀ st : SliceSt,
    (cs.foldl sliceStep st).objs.length = st.objs.length + cs.length := by
  induction cs with
  | nil => intro st; rfl
  | cons c t ih =>
    intro st
    simp only [List.foldl_cons, ih, sliceStep, List.length_append, List.length_cons, List.length_nil]
    omega

theorem sliceState_objs_length (cs : Calls) : (sliceState cs).objs.length = cs.length := by
  simp only [sliceState, foldl_sliceStep_objs_length, List.length_nil, Nat.zero_add]

theorem sliceAt_snoc_lt (cs : Calls) (c : String × List Val) (h : Nat) (hlt : h < cs.length) :
    sliceAt (cs ++ [c]) h = sliceAt cs h := by
  have hl := sliceState_objs_length cs
  simp only [sliceAt, sliceState_snoc, sliceStep, List.getD_eq_getElem?_getD]
  rw [List.getElem?_append_left (by omega)]

theorem sliceAt_snoc_self (cs : Calls) (c : String × List Val) :
    sliceAt (cs ++ [c]) cs.length = sliceNew (sliceState cs) c.1 c.2 := by
  have hl := sliceState_objs_length cs
  simp only [sliceAt, sliceState_snoc, sliceStep, List.getD_eq_getElem?_getD]
  rw [List.getElem?_append_right (by omega), hl, Nat.sub_self]
  rfl

theorem sliceAt_lt_of_some {cs : Calls} {h : Nat} {x : List Int} (hs : sliceAt cs h = some x) :
    h < cs.length := by
  have hl := sliceState_objs_length cs
  by_cases hlt : h < cs.length
  · exact hlt
  · exfalso
    simp only [sliceAt, List.getD_eq_getElem?_getD] at hs
    rw [List.getElem?_eq_none (by omega)] at hs
    cases hs

theorem sliceAt_mono1 {cs : Calls} {h : Nat} {x : List Int} (hs : sliceAt cs h = some x)
    (c : String × List Val) : sliceAt (cs ++ [c]) h = some x := by
  rw [sliceAt_snoc_lt cs c h (sliceAt_lt_of_some hs), hs]

/-- an object never changes once created -/
theorem sliceAt_mono {cs : Calls} {h : Nat} {x : List Int} (hs : sliceAt cs h = some x)
    (more : Calls) : sliceAt (cs ++ more) h = some x := by
  induction more generalizing cs with
  | nil => rw [List.append_nil]; exact hs
  | cons c t ih =>
    have : cs ++ c :: t = (cs ++ [c]) ++ t := by simp only [List.append_assoc, List.cons_append, List.nil_append]
    rw [this]
    exact ih (sliceAt_mono1 hs c)

theorem bytesAt_def (cs : Calls) (h : Nat) : bytesAt cs h = (sliceAt cs h).map bytesOfInts := by
  exact id rfl

theorem bytesAt_of_sliceAt {cs : Calls} {h : Nat} {x : List Int} (hs : sliceAt cs h = some x) :
    bytesAt cs h = some (bytesOfInts x) := by rw [bytesAt_def, hs]; rfl

theorem sliceAt_of_bytesAt {cs : Calls} {h : Nat} {b : Bytes} (hb : bytesAt cs h = some b) :
    ∃ x, sliceAt cs h = some x ∧ bytesOfInts x = b := by
  rw [bytesAt_def] at hb
  cases hx : sliceAt cs h with
  | none => rw [hx] at hb; cases hb
  | some x => rw [hx] at hb; exact ⟨x, rfl, by simpa using hb⟩

theorem bytesAt_eq_of {cs : Calls} {h : Nat} {b b' : Bytes} (h1 : bytesAt cs h = some b) (h2 : b = b') :
    bytesAt cs h = some b' := h2 ▸ h1

theorem bytesAt_lt_of_some {cs : Calls} {h : Nat} {b : Bytes} (hb : bytesAt cs h = some b) :
    h < cs.length := by
  obtain ⟨x, hx, _⟩ := sliceAt_of_bytesAt hb
  exact sliceAt_lt_of_some hx

theorem bytesAt_mono1 {cs : Calls} {h : Nat} {b : Bytes} (hb : bytesAt cs h = some b)
    (c : String × List Val) : bytesAt (cs ++ [c]) h = some b := by
  obtain ⟨x, hx, hxb⟩ := sliceAt_of_bytesAt hb
  rw [bytesAt_of_sliceAt (sliceAt_mono1 hx c), hxb]

theorem bytesAt_mono {cs : Calls} {h : Nat} {b : Bytes} (hb : bytesAt cs h = some b)
    (more : Calls) : bytesAt (cs ++ more) h = some b := by
  obtain ⟨x, hx, hxb⟩ := sliceAt_of_bytesAt hb
  rw [bytesAt_of_sliceAt (sliceAt_mono hx more), hxb]

theorem crcAt_snoc (cs : Calls) (c : String × List Val) :
    crcAt (cs ++ [c]) = crcNext (sliceState cs) c.1 c.2 := by
  simp only [crcAt, sliceState_snoc, sliceStep]

theorem crcAt_snoc_other (cs : Calls) (f : String) (args : List Val)
    (h1 : f ≠ "crc.init") (h2 : f ≠ "crc.add") : crcAt (cs ++ [(f, args)]) = crcAt cs := by
  rw [crcAt_snoc]
  simp only [crcNext, h1, h2, ↓reduceIte, crcAt]

theorem crcAt_mono1 {cs : Calls} {s : U16} (hc : crcAt cs = some s) (f : String) (args : List Val)
    (h1 : f ≠ "crc.init") (h2 : f ≠ "crc.add") : crcAt (cs ++ [(f, args)]) = some s := by
  rw [crcAt_snoc_other cs f args h1 h2, hc]

/-! ### 5. one lemma per callee -/

theorem get_of_sliceAt {cs : Calls} {a : Nat} {x : List Int} (h : sliceAt cs a = some x) :
    (sliceState cs).get (.int (a : Int)) = some x := by
  rw [SliceSt.get_nat]; exact h

/-- seeding: the initial log holding the input objects, one pseudo-entry each -/
def seedInput (l : List Int) : String × List Val := ("#input", l.map Val.int)

theorem sliceAt_snoc_input (cs : Calls) (l : List Int) {k : Nat} (hk : k = cs.length) :
    sliceAt (cs ++ [seedInput l]) k = some l := by
  subst hk
  rw [sliceAt_snoc_self]
  simp only [seedInput, sliceNew, ↓reduceIte, intsOfVals_map_int]

theorem bytesAt_snoc_input (cs : Calls) (bs : Bytes) {k : Nat} (hk : k = cs.length) :
    bytesAt (cs ++ [seedInput (intsOfBytes bs)]) k = some bs := by
  rw [bytesAt_of_sliceAt (sliceAt_snoc_input cs _ hk), bytesOfInts_intsOfBytes]

/-- a log that starts with one seeded object -/
theorem sliceAt_seed (l : List Int) : sliceAt [seedInput l] 0 = some l :=
  sliceAt_snoc_input [] l rfl
theorem bytesAt_seed (bs : Bytes) : bytesAt [seedInput (intsOfBytes bs)] 0 = some bs :=
  bytesAt_snoc_input [] bs rfl
theorem sliceAt_seed2_0 (l m : List Int) : sliceAt [seedInput l, seedInput m] 0 = some l :=
  sliceAt_mono1 (sliceAt_seed l) _
theorem sliceAt_seed2_1 (l m : List Int) : sliceAt [seedInput l, seedInput m] 1 = some m :=
  sliceAt_snoc_input [seedInput l] m rfl
theorem bytesAt_seed2_0 (a b : Bytes) :
    bytesAt [seedInput (intsOfBytes a), seedInput (intsOfBytes b)] 0 = some a :=
  bytesAt_mono1 (bytesAt_seed a) _
theorem bytesAt_seed2_1 (a b : Bytes) :
    bytesAt [seedInput (intsOfBytes a), seedInput (intsOfBytes b)] 1 = some b :=
  bytesAt_snoc_input [seedInput (intsOfBytes a)] b rfl

theorem bytesOfInts_intsOfBytes_bytesOfInts (l : List Int) :
    bytesOfInts (intsOfBytes (bytesOfInts l)) = bytesOfInts l := bytesOfInts_intsOfBytes _

/-! In the lemmas below the handle is a variable `k` with the side condition `hk : k = cs.length` (the
    evaluator's handles are normalised to `cs0.length + n` by `go_slices`; `slice_solve` discharges `hk`
    by `List.length_append` and `omega`). -/

/-- `[]byte{v1, …}` -/
theorem bytesAt_snoc_bytes (cs : Calls) (l : List Int) {k : Nat} (hk : k = cs.length) :
    bytesAt (cs ++ [("bytes", l.map Val.int)]) k = some (bytesOfInts l) := by
  subst hk
  rw [bytesAt_def, sliceAt_snoc_self]
  simp only [sliceNew, String.reduceEq, ↓reduceIte, intsOfVals_map_int, Option.map_some,
    bytesOfInts_intsOfBytes]

/-- `append(base, e1, …)`, general form -/
theorem bytesAt_snoc_append {cs : Calls} {a : Nat} {x : Bytes} (h : bytesAt cs a = some x)
    (es : List Val) (l : List Int) (hl : intsOfVals es = some l) {k : Nat} (hk : k = cs.length) :
    bytesAt (cs ++ [("append", .int (a : Int) :: es)]) k = some (x ++ bytesOfInts l) := by
  subst hk
  obtain ⟨x', hx, hxb⟩ := sliceAt_of_bytesAt h
  rw [bytesAt_def, sliceAt_snoc_self]
  simp only [sliceNew, String.reduceEq, ↓reduceIte, get_of_sliceAt hx, hl, Option.map_some,
    bytesOfInts_append, bytesOfInts_intsOfBytes, hxb]

theorem bytesAt_snoc_append1 {cs : Calls} {a : Nat} {x : Bytes} (h : bytesAt cs a = some x) (v : Int)
    {k : Nat} (hk : k = cs.length) :
    bytesAt (cs ++ [("append", [.int (a : Int), .int v])]) k = some (x ++ [BitVec.ofInt 8 v]) :=
  bytesAt_snoc_append h [.int v] [v] rfl hk
theorem bytesAt_snoc_append2 {cs : Calls} {a : Nat} {x : Bytes} (h : bytesAt cs a = some x) (v w : Int)
    {k : Nat} (hk : k = cs.length) :
    bytesAt (cs ++ [("append", [.int (a : Int), .int v, .int w])]) k =
      some (x ++ [BitVec.ofInt 8 v, BitVec.ofInt 8 w]) :=
  bytesAt_snoc_append h [.int v, .int w] [v, w] rfl hk
theorem bytesAt_snoc_append3 {cs : Calls} {a : Nat} {x : Bytes} (h : bytesAt cs a = some x) (v w u : Int)
    {k : Nat} (hk : k = cs.length) :
    bytesAt (cs ++ [("append", [.int (a : Int), .int v, .int w, .int u])]) k =
      some (x ++ [BitVec.ofInt 8 v, BitVec.ofInt 8 w, BitVec.ofInt 8 u]) :=
  bytesAt_snoc_append h [.int v, .int w, .int u] [v, w, u] rfl hk

/-- `append(base, s...)` -/
theorem bytesAt_snoc_appendS {cs : Calls} {a b : Nat} {x y : Bytes} (ha : bytesAt cs a = some x)
    (hb : bytesAt cs b = some y) {k : Nat} (hk : k = cs.length) :
    bytesAt (cs ++ [("append...", [.int (a : Int), .int (b : Int)])]) k = some (x ++ y) := by
  subst hk
  obtain ⟨x', hx, hxb⟩ := sliceAt_of_bytesAt ha
  obtain ⟨y', hy, hyb⟩ := sliceAt_of_bytesAt hb
  rw [bytesAt_def, sliceAt_snoc_self]
  simp only [sliceNew, String.reduceEq, ↓reduceIte, get_of_sliceAt hx, get_of_sliceAt hy,
    Option.map_some, bytesOfInts_append, hxb, hyb]

theorem bytesAt_snoc_u16 (cs : Calls) (e v : Int) {k : Nat} (hk : k = cs.length) :
    bytesAt (cs ++ [("uint16ToBytes", [.int e, .int v])]) k =
      some (Enc.uint16ToBytes (endianOfInt e) (BitVec.ofInt 16 v)) := by
  subst hk
  rw [bytesAt_def, sliceAt_snoc_self]
  simp only [sliceNew, String.reduceEq, ↓reduceIte, Option.map_some, bytesOfInts_intsOfBytes]

theorem bytesAt_snoc_u32 (cs : Calls) (e w v : Int) {k : Nat} (hk : k = cs.length) :
    bytesAt (cs ++ [("uint32ToBytes", [.int e, .int w, .int v])]) k =
      some (Enc.uint32ToBytes (endianOfInt e) (wordOfInt w) (BitVec.ofInt 32 v)) := by
  subst hk
  rw [bytesAt_def, sliceAt_snoc_self]
  simp only [sliceNew, String.reduceEq, ↓reduceIte, true_or, Option.map_some, bytesOfInts_intsOfBytes]

theorem bytesAt_snoc_f32 (cs : Calls) (e w v : Int) {k : Nat} (hk : k = cs.length) :
    bytesAt (cs ++ [("float32ToBytes", [.int e, .int w, .int v])]) k =
      some (Enc.uint32ToBytes (endianOfInt e) (wordOfInt w) (BitVec.ofInt 32 v)) := by
  subst hk
  rw [bytesAt_def, sliceAt_snoc_self]
  simp only [sliceNew, String.reduceEq, ↓reduceIte, or_true, Option.map_some, bytesOfInts_intsOfBytes]

theorem bytesAt_snoc_u64 (cs : Calls) (e w v : Int) {k : Nat} (hk : k = cs.length) :
    bytesAt (cs ++ [("uint64ToBytes", [.int e, .int w, .int v])]) k =
      some (Enc.uint64ToBytes (endianOfInt e) (wordOfInt w) (BitVec.ofInt 64 v)) := by
  subst hk
  rw [bytesAt_def, sliceAt_snoc_self]
  simp only [sliceNew, String.reduceEq, ↓reduceIte, true_or, or_self, Option.map_some,
    bytesOfInts_intsOfBytes]

theorem bytesAt_snoc_f64 (cs : Calls) (e w v : Int) {k : Nat} (hk : k = cs.length) :
    bytesAt (cs ++ [("float64ToBytes", [.int e, .int w, .int v])]) k =
      some (Enc.uint64ToBytes (endianOfInt e) (wordOfInt w) (BitVec.ofInt 64 v)) := by
  subst hk
  rw [bytesAt_def, sliceAt_snoc_self]
  simp only [sliceNew, String.reduceEq, ↓reduceIte, or_true, or_self, Option.map_some,
    bytesOfInts_intsOfBytes]

/-- `encodeBools(values)`: the argument is an object whose elements are read as booleans (≠ 0) -/
theorem bytesAt_snoc_encodeBools {cs : Calls} {a : Nat} {l : List Int} (h : sliceAt cs a = some l)
    {k : Nat} (hk : k = cs.length) :
    bytesAt (cs ++ [("encodeBools", [.int (a : Int)])]) k =
      some (Enc.encodeBools (boolsOfInts l)) := by
  subst hk
  rw [bytesAt_def, sliceAt_snoc_self]
  simp only [sliceNew, String.reduceEq, ↓reduceIte, or_self, get_of_sliceAt h, Option.map_some,
    bytesOfInts_intsOfBytes]

/-- `uint16sToBytes(endianness, values)`: the argument is an object whose elements are 16-bit words -/
theorem bytesAt_snoc_u16s {cs : Calls} {a : Nat} {l : List Int} (h : sliceAt cs a = some l) (e : Int)
    {k : Nat} (hk : k = cs.length) :
    bytesAt (cs ++ [("uint16sToBytes", [.int e, .int (a : Int)])]) k =
      some (Enc.uint16sToBytes (endianOfInt e) (u16sOfInts l)) := by
  subst hk
  rw [bytesAt_def, sliceAt_snoc_self]
  simp only [sliceNew, String.reduceEq, ↓reduceIte, or_self, get_of_sliceAt h, Option.map_some,
    bytesOfInts_intsOfBytes]

theorem bytesAt_snoc_crcValue {cs : Calls} {s : U16} (h : crcAt cs = some s) (args : List Val)
    {k : Nat} (hk : k = cs.length) :
    bytesAt (cs ++ [("crc.value", args)]) k = some (Crc.value s) := by
  subst hk
  rw [bytesAt_def, sliceAt_snoc_self]
  have h' : (sliceState cs).crc = some s := h
  simp only [sliceNew, String.reduceEq, ↓reduceIte, or_self, h', Option.map_some, bytesOfInts_intsOfBytes]

theorem crcAt_snoc_init (cs : Calls) (args : List Val) :
    crcAt (cs ++ [("crc.init", args)]) = some Crc.init := by
  simp only [crcAt_snoc, crcNext, ↓reduceIte]

theorem crcAt_snoc_add {cs : Calls} {s : U16} {a : Nat} {x : Bytes} (hc : crcAt cs = some s)
    (hx : bytesAt cs a = some x) :
    crcAt (cs ++ [("crc.add", [.int (a : Int)])]) = some (Crc.add s x) := by
  obtain ⟨x', hx', hxb⟩ := sliceAt_of_bytesAt hx
  have h' : (sliceState cs).crc = some s := hc
  simp only [crcAt_snoc, crcNext, String.reduceEq, ↓reduceIte, h', get_of_sliceAt hx', hxb]

/-- a call that creates no object leaves `none` at its position -/
theorem sliceAt_snoc_none (cs : Calls) (f : String) (args : List Val)
    (hf : isSliceCallee f = false) (hi : f ≠ "#input") :
    sliceAt (cs ++ [(f, args)]) cs.length = none := by
  rw [sliceAt_snoc_self]
  simp only [isSliceCallee, Bool.or_eq_false_iff, decide_eq_false_iff_not] at hf
  obtain ⟨⟨⟨⟨⟨⟨⟨⟨⟨⟨h1, h2⟩, h3⟩, h4⟩, h5⟩, h6⟩, h7⟩, h8⟩, h9⟩, h10⟩, h11⟩ := hf
  simp only [sliceNew, hi, h1, h2, h3, h4, h5, h6, h7, h8, h9, h10, h11, ↓reduceIte, or_self]

/-! ### 5b. indexed leaves of an input list (`values[#i]`) -/

/-- element of an integer list at the VALUE of the index; `unk` outside the list (Go: the index
    expression would panic; in a `range` loop the test `#i < #len` comes first, the value is never
    read). The answer of the `withProbe` pseudo-call that re-binds an indexed leaf. -/
def probeInts (vals : List Int) : Val → Val
  | .int v => if 0 ≤ v then (match vals[v.toNat]? with | some x => .int x | none => .unk) else .unk
  | _ => .unk

theorem probeInts_lt (vals : List Int) (k : Nat) (h : k < vals.length) :
    probeInts vals (.int (k : Int)) = .int vals[k] := by
  simp [probeInts, List.getElem?_eq_getElem h]

theorem probeInts_ge (vals : List Int) (k : Nat) (h : vals.length ≤ k) :
    probeInts vals (.int (k : Int)) = .unk := by
  simp [probeInts, List.getElem?_eq_none h]

/- From here on the interpreter is used through the lemmas above only; making it irreducible keeps
   failed unification attempts (`assumption`, `refine` in `slice_solve`) from unfolding the fold over
   a symbolic log. (`decide +kernel` on closed runs is not affected.) -/
attribute [irreducible] sliceAt bytesAt crcAt sliceState

/-- handle arithmetic: `cs.length + a + b` ↦ `cs.length + (a + b)` (only under a `List.length`, so that
    fuel expressions are left alone) -/
theorem length_add_add {α : Type} (l : List α) (a b : Nat) : l.length + a + b = l.length + (a + b) :=
  Nat.add_assoc _ _ _

/-! ### 6. running piece by piece (the `W` copies of the composition lemmas) -/

variable (w : World)

/-- a run that did not run out of fuel is the same for every larger fuel -/
theorem execFromW_ge {n : Nat} {s : GStmt} {env : Env} {cs : Calls} {r : Res}
    (h : execFromW w n s env cs = r) (hr : r.how ≠ .outOfFuel) (m : Nat) (hm : n ≤ m) :
    execFromW w m s env cs = r := by
  rw [execFromW_mono w n m s env cs hm (by rw [h]; exact hr), h]

theorem execFromW_seq_of_fell {n : Nat} {a : GStmt} (b : GStmt) {env env' : Env}
    {cs cs' : Calls} (h : execFromW w n a env cs = ⟨env', .fell, cs'⟩) :
    execFromW w (n+1) (.seq a b) env cs = execFromW w n b env' cs' := by
  rw [execFromW_seq, h, seqKW_fell]

theorem execFromW_seq_of_end {n : Nat} {a : GStmt} (b : GStmt) {env : Env}
    {cs : Calls} {r : Res} (h : execFromW w n a env cs = r) (hr : r.how ≠ .fell) :
    execFromW w (n+1) (.seq a b) env cs = r := by
  rw [execFromW_seq, h, seqKW_of_not_fell _ _ _ _ hr]

theorem execFromW_loop_of_fell {n : Nat} {b : GStmt} {env env' : Env}
    {cs cs' : Calls} (h : execFromW w n b env cs = ⟨env', .fell, cs'⟩) :
    execFromW w (n+1) (.loop b) env cs = execFromW w n (.loop b) env' cs' := by
  rw [execFromW_loop, h, loopKW_fell]

theorem execFromW_loop_of_broke {n : Nat} {b : GStmt} {env env' : Env}
    {cs cs' : Calls} (h : execFromW w n b env cs = ⟨env', .broke, cs'⟩) :
    execFromW w (n+1) (.loop b) env cs = ⟨env', .fell, cs'⟩ := by
  rw [execFromW_loop, h, loopKW_broke]

end Modbus.GoEval

/-- `len_solve`: a side condition `k = (cs0 ++ [c1] ++ … ++ [cn]).length` with `k` of the form `cs0.length + n` -/
syntax "len_solve" : tactic
macro_rules
  | `(tactic| len_solve) => `(tactic|
      ((try simp only [List.length_append, List.length_cons, List.length_nil]) <;> omega))

/-- `slice_solve`: close a goal `bytesAt LOG h = some ?b`, `sliceAt LOG h = some ?x` or `crcAt LOG = some ?s`
    where `LOG = cs0 ++ [c1] ++ … ++ [cn]` (left-nested, as the evaluator leaves it) and `h` is `cs0.length + n`
    or a handle into `cs0`, by walking down the log: at the position of the handle the lemma of the
    callee, below it `…_mono1`; facts about `cs0` are taken from the context. The right-hand side
    should be a metavariable (`refine bytesAt_eq_of (b := ?b) ?h1 ?h2`), it is instantiated with the bytes the
    log denotes. -/
syntax "slice_solve" : tactic
macro_rules
  | `(tactic| slice_solve) => `(tactic| repeat' (first
      | with_reducible assumption
      | (refine Modbus.GoEval.bytesAt_snoc_u16 _ _ _ ?_; len_solve)
      | (refine Modbus.GoEval.bytesAt_snoc_u32 _ _ _ _ ?_; len_solve)
      | (refine Modbus.GoEval.bytesAt_snoc_f32 _ _ _ _ ?_; len_solve)
      | (refine Modbus.GoEval.bytesAt_snoc_u64 _ _ _ _ ?_; len_solve)
      | (refine Modbus.GoEval.bytesAt_snoc_f64 _ _ _ _ ?_; len_solve)
      | (refine Modbus.GoEval.bytesAt_snoc_input _ _ ?_; len_solve)
      | (refine Modbus.GoEval.sliceAt_snoc_input _ _ ?_; len_solve)
      | exact Modbus.GoEval.crcAt_snoc_init _ _
      | (apply Modbus.GoEval.bytesAt_snoc_appendS; case hk => len_solve)
      | (apply Modbus.GoEval.bytesAt_snoc_append1; case hk => len_solve)
      | (apply Modbus.GoEval.bytesAt_snoc_append2; case hk => len_solve)
      | (apply Modbus.GoEval.bytesAt_snoc_append3; case hk => len_solve)
      | (apply Modbus.GoEval.bytesAt_snoc_encodeBools; case hk => len_solve)
      | (apply Modbus.GoEval.bytesAt_snoc_u16s; case hk => len_solve)
      | (apply Modbus.GoEval.bytesAt_snoc_crcValue; case hk => len_solve)
      | apply Modbus.GoEval.crcAt_snoc_add
      | (apply Modbus.GoEval.crcAt_mono1; case h1 => decide; case h2 => decide)
      | apply Modbus.GoEval.bytesAt_mono1
      | apply Modbus.GoEval.sliceAt_mono1))

/-- `go_slices [extra]`: `go_evalW` for runs against `sliceWorld ext`: the slice-producing calls are answered
    (`sliceWorld_append` …) and the handles `↑(cs0 ++ [c1] ++ …).length` are normalised to `↑(cs0.length + n)`.
    Give the `gsp_…` term, the hypotheses on the entry environment and the answers of `ext` in the list. -/
syntax "go_slices" (" [" Lean.Parser.Tactic.simpLemma,* "]")? : tactic
macro_rules
  | `(tactic| go_slices) => `(tactic| go_slices [])
  | `(tactic| go_slices [$ls,*]) => `(tactic| go_evalW [Modbus.GoEval.sliceWorld_append,
      Modbus.GoEval.sliceWorld_appendS, Modbus.GoEval.sliceWorld_bytes, Modbus.GoEval.sliceWorld_u16,
      Modbus.GoEval.sliceWorld_u32, Modbus.GoEval.sliceWorld_f32, Modbus.GoEval.sliceWorld_u64,
      Modbus.GoEval.sliceWorld_f64, Modbus.GoEval.sliceWorld_encodeBools, Modbus.GoEval.sliceWorld_u16s,
      Modbus.GoEval.sliceWorld_crcValue, Modbus.GoEval.sliceWorld_crcInit, Modbus.GoEval.sliceWorld_crcAdd,
      Modbus.GoEval.sliceWorld_executeRequest, Modbus.GoEval.sliceWorld_writeRegisters,
      Modbus.GoEval.sliceWorld_encoding,
      List.length_append, List.length_cons, List.length_nil, Modbus.GoEval.length_add_add, Nat.reduceAdd,
      $ls,*])
