import ModbusVerif.Model.Stream
import ModbusVerif.Model.Udp
/-
  Lemmas about byte sources: `io.ReadFull` over a flat stream, over an arbitrary
  segmentation (C12 core), and over the UDP datagram→stream adapter.
-/
namespace Modbus.Strm

/-! ### flat `readFull` -/

theorem readFull_ok_of_le {n : Nat} {s : Bytes} (e : Ending) (h : n ≤ s.length) :
    readFull n s e = .ok (s.take n) (s.drop n) := by
  simp [readFull, h]

theorem readFull_short_of_lt {n : Nat} {s : Bytes} (e : Ending) (h : s.length < n) :
    readFull n s e = .short s (shortErr s.length e) := by
  simp [readFull, Nat.not_le.mpr h]

/-- reading exactly a known prefix -/
theorem readFull_append (a b : Bytes) (e : Ending) :
    readFull a.length (a ++ b) e = .ok a b := by
  simp [readFull]

theorem readFull_append' {n : Nat} (a b : Bytes) (e : Ending) (h : a.length = n) :
    readFull n (a ++ b) e = .ok a b := by
  subst h; exact readFull_append a b e

theorem readFull_ok_inv {n : Nat} {s bs rest : Bytes} {e : Ending}
    (h : readFull n s e = .ok bs rest) : s = bs ++ rest ∧ bs.length = n := by
  unfold readFull at h
  split at h
  · next hle =>
    injection h with h1 h2
    subst h1 h2
    simp [List.length_take, Nat.min_eq_left hle]
  · cases h

theorem readFull_short_inv {n : Nat} {s got : Bytes} {err : Err} {e : Ending}
    (h : readFull n s e = .short got err) :
    s.length < n ∧ got = s ∧ err = shortErr s.length e := by
  unfold readFull at h
  split at h
  · cases h
  · next hle =>
    injection h with h1 h2
    exact ⟨Nat.lt_of_not_le hle, h1.symm, h2.symm⟩

theorem readFull_nil (n : Nat) (e : Ending) (h : 0 < n) :
    readFull n [] e = .short [] e.err := by
  simp [readFull, shortErr, Nat.ne_of_gt h]

/-! ### chunked `readFull` (C12 core) -/

/-- A1: the `io.ReadFull` loop over any segmentation (empty chunks included) gathers exactly
    the first `n` bytes of the concatenated stream and leaves exactly the remaining bytes. -/
theorem readFullChunked_flatten (n : Nat) (src : List Bytes) :
    (readFullChunked n src).1 = src.flatten.take n ∧
    ((readFullChunked n src).2).flatten = src.flatten.drop n := by
  fun_induction readFullChunked n src with
  | case1 src => simp
  | case2 n h => simp
  | case3 n c cs h got rest heq ih =>
    rw [heq] at ih
    obtain ⟨ih1, ih2⟩ := ih
    simp only at ih1 ih2
    simp only [List.flatten_cons, List.take_append, List.drop_append,
      List.take_of_length_le h, List.drop_of_length_le h, ih1, ih2, List.nil_append]
    exact ⟨trivial, trivial⟩
  | case4 n c cs h =>
    have h' : n + 1 ≤ c.length := by omega
    have h0 : n + 1 - c.length = 0 := by omega
    simp [List.take_append, List.drop_append, h0]

theorem readFullChunked_fst (n : Nat) (src : List Bytes) :
    (readFullChunked n src).1 = src.flatten.take n := (readFullChunked_flatten n src).1

theorem readFullChunked_snd (n : Nat) (src : List Bytes) :
    ((readFullChunked n src).2).flatten = src.flatten.drop n := (readFullChunked_flatten n src).2

/-- outcome of `io.ReadFull` on a chunked source: like `RF`, the rest is still chunked -/
inductive RFC
  | ok (bs : Bytes) (rest : List Bytes)
  | short (got : Bytes) (err : Err)
  deriving Repr, DecidableEq

/-- forget the segmentation of the unread rest -/
def RFC.flat : RFC → RF
  | .ok bs rest => .ok bs rest.flatten
  | .short got err => .short got err

/-- `io.ReadFull(conn, buf[0:n])` on a chunked source: run the Read loop; fewer than `n` bytes
    gathered means the source was exhausted and the loop ended with the Read error. -/
def readFullC (n : Nat) (src : List Bytes) (e : Ending) : RFC :=
  let r := readFullChunked n src
  if r.1.length = n then .ok r.1 r.2 else .short r.1 (shortErr r.1.length e)

/-- A2 (a): enough bytes in the stream: the chunked loop returns exactly the `n` bytes the flat
    `readFull` returns, and leaves the same remainder. -/
theorem readFullChunked_of_le {n : Nat} {src : List Bytes} (e : Ending)
    (h : n ≤ src.flatten.length) :
    readFull n src.flatten e =
      .ok (readFullChunked n src).1 ((readFullChunked n src).2).flatten := by
  rw [readFullChunked_fst, readFullChunked_snd, readFull_ok_of_le e h]

/-- A2 (b): not enough bytes: the chunked loop returns the whole stream (short read) and
    leaves nothing; the flat `readFull` reports the same bytes. -/
theorem readFullChunked_of_lt {n : Nat} {src : List Bytes} (e : Ending)
    (h : src.flatten.length < n) :
    (readFullChunked n src).1 = src.flatten ∧ ((readFullChunked n src).2).flatten = [] ∧
    readFull n src.flatten e = .short (readFullChunked n src).1
      (shortErr (readFullChunked n src).1.length e) := by
  have h1 : (readFullChunked n src).1 = src.flatten := by
    rw [readFullChunked_fst]; exact List.take_of_length_le (Nat.le_of_lt h)
  refine ⟨h1, ?_, ?_⟩
  · rw [readFullChunked_snd]; exact List.drop_of_length_le (Nat.le_of_lt h)
  · rw [h1, readFull_short_of_lt e h]

/-- A2: the outcome of a chunked `ReadFull` depends only on the flattened stream. -/
theorem readFullC_flat (n : Nat) (src : List Bytes) (e : Ending) :
    (readFullC n src e).flat = readFull n src.flatten e := by
  by_cases h : n ≤ src.flatten.length
  · have hl : (readFullChunked n src).1.length = n := by
      rw [readFullChunked_fst, List.length_take]; exact Nat.min_eq_left h
    rw [readFull_ok_of_le e h]
    unfold readFullC
    simp only [hl, if_true, RFC.flat]
    rw [readFullChunked_fst, readFullChunked_snd]
  · have h' : src.flatten.length < n := Nat.lt_of_not_le h
    have h1 : (readFullChunked n src).1 = src.flatten := by
      rw [readFullChunked_fst]; exact List.take_of_length_le (Nat.le_of_lt h')
    have hne : src.flatten.length ≠ n := by omega
    rw [readFull_short_of_lt e h']
    unfold readFullC
    simp only [h1, hne, if_false, RFC.flat]

/-- A2 corollary: two segmentations of the same byte stream give the same `ReadFull` outcome. -/
theorem readFullC_segmentation {src₁ src₂ : List Bytes} (n : Nat) (e : Ending)
    (h : src₁.flatten = src₂.flatten) :
    (readFullC n src₁ e).flat = (readFullC n src₂ e).flat := by
  rw [readFullC_flat, readFullC_flat, h]

theorem readFullC_ok_inv {n : Nat} {src rest : List Bytes} {bs : Bytes} {e : Ending}
    (h : readFullC n src e = .ok bs rest) :
    readFull n src.flatten e = .ok bs rest.flatten := by
  rw [← readFullC_flat, h]; rfl

theorem readFullC_short_inv {n : Nat} {src : List Bytes} {got : Bytes} {err : Err} {e : Ending}
    (h : readFullC n src e = .short got err) :
    readFull n src.flatten e = .short got err := by
  rw [← readFullC_flat, h]; rfl

end Modbus.Strm

/-! ### UDP datagram → stream adapter -/
namespace Modbus.Udp
open Modbus.Strm

/-- A3: `Read` fails exactly when nothing is buffered and no datagram is queued. -/
theorem read_eq_none_iff (n : Nat) (st : State) :
    read n st = none ↔ st.leftover = [] ∧ st.dgrams = [] := by
  unfold read
  cases hl : st.leftover with
  | nil =>
    cases hd : st.dgrams with
    | nil => simp
    | cons d ds => simp
  | cons b bs => simp

/-- A3: what one `Read` returns is a prefix of the pending bytes; nothing is lost, duplicated or
    reordered, and at most `n` bytes are returned. -/
theorem read_some {n : Nat} {st st' : State} {got : Bytes}
    (h : read n st = some (got, st')) :
    st.pendingBytes = got ++ st'.pendingBytes ∧ got.length ≤ n := by
  unfold read at h
  split at h
  · injection h with h; injection h with h1 h2
    subst h1 h2
    refine ⟨?_, by simp [List.length_take, Nat.min_le_left]⟩
    simp only [State.pendingBytes]
    rw [← List.append_assoc, List.take_append_drop]
  · next hl =>
    have hl' : st.leftover = [] := by
      cases hx : st.leftover with
      | nil => rfl
      | cons b bs => simp [hx] at hl
    split at h
    · cases h
    · next d ds hd =>
      injection h with h; injection h with h1 h2
      subst h1 h2
      refine ⟨?_, by simp [List.length_take, Nat.min_le_left]⟩
      simp only [State.pendingBytes, hl', hd, List.map_cons, List.flatten_cons, List.nil_append]
      rw [← List.append_assoc, List.take_append_drop]

/-- bookkeeping for the termination of the ReadFull loop: a successful `Read` of `n > 0` bytes
    either returns at least one byte or consumes a queued datagram -/
theorem read_measure {n : Nat} {st st' : State} {got : Bytes}
    (h : read n st = some (got, st')) (hn : n ≠ 0) :
    (n - got.length) + st'.dgrams.length < n + st.dgrams.length := by
  unfold read at h
  split at h
  · next hl =>
    injection h with h; injection h with h1 h2
    subst h1 h2
    simp [List.length_take]
    omega
  · split at h
    · cases h
    · next d ds hd =>
      injection h with h; injection h with h1 h2
      subst h1 h2
      simp [hd]
      omega

set_option linter.unusedVariables false in
/-- `io.ReadFull(wrapper, buf[0:n])`: call `Read` until `n` bytes were gathered or `Read` fails.
    A zero-length datagram makes `Read` return 0 bytes without error; the loop just calls again. -/
def readFullU (n : Nat) (st : State) : Bytes × State :=
  if hn : n = 0 then ([], st)
  else
    match h : read n st with
    | none => ([], st)
    | some (got, st') =>
      let r := readFullU (n - got.length) st'
      (got ++ r.1, r.2)
termination_by n + st.dgrams.length
decreasing_by exact read_measure h hn


/-- A3: the adapter's `ReadFull` returns exactly the first `n` pending bytes and leaves exactly
    the remaining ones (zero-length and multi-datagram cases included). -/
theorem readFullU_pending (n : Nat) (st : State) :
    (readFullU n st).1 = st.pendingBytes.take n ∧
    (readFullU n st).2.pendingBytes = st.pendingBytes.drop n := by
  fun_induction readFullU n st with
  | case1 st => simp
  | case2 n st hn h =>
    have := (read_eq_none_iff n st).mp h
    simp [State.pendingBytes, this.1, this.2]
  | case3 n st hn got st' h r ih =>
    obtain ⟨hp, hlen⟩ := read_some h
    obtain ⟨ih1, ih2⟩ := ih
    simp only [r] at *
    rw [hp, List.take_append, List.drop_append, List.take_of_length_le hlen,
      List.drop_of_length_le hlen, ih1, ih2]
    exact ⟨rfl, rfl⟩

/-- A3: the adapter's `ReadFull` agrees with the flat stream model on the pending bytes. -/
theorem readFullU_eq_readFull {n : Nat} {st : State} (e : Ending)
    (h : n ≤ st.pendingBytes.length) :
    readFull n st.pendingBytes e =
      .ok (readFullU n st).1 (readFullU n st).2.pendingBytes := by
  rw [(readFullU_pending n st).1, (readFullU_pending n st).2, readFull_ok_of_le e h]

/-- A3: datagrams that fit the receive buffer are never truncated. -/
theorem pendingBytes_of_small (st : State) (h : ∀ d ∈ st.dgrams, d.length ≤ rxbufLen) :
    st.pendingBytes = st.leftover ++ st.dgrams.flatten := by
  unfold State.pendingBytes
  congr 2
  have : ∀ (ds : List Bytes), (∀ d ∈ ds, d.length ≤ rxbufLen) → ds.map (·.take rxbufLen) = ds := by
    intro ds
    induction ds with
    | nil => intro _; rfl
    | cons d ds ih =>
      intro hd
      simp only [List.map_cons]
      rw [ih (fun x hx => hd x (List.mem_cons_of_mem _ hx)),
        List.take_of_length_le (hd d List.mem_cons_self)]
  exact this _ h

end Modbus.Udp
